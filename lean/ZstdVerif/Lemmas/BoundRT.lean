/-
ZSTD_compressBound is always enough for what the proved frame serializer emits (property C06).

`Props/C06.raw_fallback_fits` is pure arithmetic on a hand-written layout (`Bound.rawFrameSize`: 18 + 3 per 128 KiB block + n + 4).
Here the SIZE OF THE BYTES the serializer of Model/Serialize.lean / Model/BlockEnc.lean really emits (ZSTD_writeFrameHeader +
ZSTD_noCompressBlock per block of ZSTD_compress_frameChunk + ZSTD_writeEpilogue; the same bytes `FrameRT.frame_roundtrip_raw` and
`BlockRT.frame_roundtrip_compressed` decode) is computed exactly and compared with `Bound.compressBound` (= the ZSTD_COMPRESSBOUND
macro, `Props/C06.bound_matches_source`), for EVERY block size, not only 128 KiB.

  writeHeader_size_le        6 (2 magicless) ≤ |ZSTD_writeFrameHeader| ≤ 18 = ZSTD_FRAMEHEADERSIZE_MAX
  rawBlocks_length           ZSTD_compress_frameChunk cuts n bytes into ⌈n / blockSize⌉ blocks
  rawFrameWith_size / rawFrame_size   exact size: header + n + 3 · max 1 ⌈n / blockSize⌉ + (4 if checksum)
  rawFrameWith_within_bound  MAIN, any block size: fits the bound as soon as blockSize ≥ 808 or the input is a single block
  rawFrame_within_bound      MAIN: the canonical total fallback fits, for every accepted parameter tuple with a truthful pledged size
  bound_fails_below_808 / bound_fails_lying_pledge   the side conditions are needed (808 is sharp for an 18-byte header + checksum)
  serializeFrame2_size_le, serialized_within_bound   frames with RLE / compressed blocks, when no block is stored larger than raw

Side conditions found: the per-block cost of 3 bytes must be paid by the `n/256` term of the macro, i.e. 3/blockSize ≤ 1/256 up to
rounding and the constant 22 of header + checksum: the exact threshold is blockSize ≥ 808.  The library never uses a block size
below 1024 with more than one block (ZSTD_c_windowLog ≥ 10, ZSTD_c_maxBlockSize ≥ ZSTD_BLOCKSIZE_MAX_MIN = 1024;
`blockSize = MIN(maxBlockSize, windowSize)`, windowSize = MAX(1, MIN(1 << windowLog, pledgedSrcSize)) is below 1024 only when
the whole input is), so no reachable corner fails.  In the MODEL a block size below 808 arises only from a pledged size that is
not the input size (`blockSize a` follows `a.pledged`), which the library refuses (srcSize_wrong).
-/
import ZstdVerif.Model.Bound
import ZstdVerif.Lemmas.BlockRT
namespace ZstdVerif.BoundRT
open ZstdVerif ZstdVerif.Gen ZstdVerif.Serialize ZstdVerif.HeaderW ZstdVerif.Bound ZstdVerif.BlockEnc

/-! ### the frame header -/

/-- ZSTD_writeFrameHeader writes at most ZSTD_FRAMEHEADERSIZE_MAX = 18 bytes (magic 4, descriptor 1, window 1, dictID 4, content
size 8) and at least ZSTD_FRAMEHEADERSIZE_MIN = 6 bytes (2 in the magicless format) -/
theorem writeHeader_size_le (a : HArgs) :
    (writeHeader a).length ≤ 18 ∧ (if a.magicless then 2 else 6) ≤ (writeHeader a).length := by
  refine ⟨?_, FrameRT.writeHeader_length_ge a⟩
  unfold writeHeader
  cases a.magicless <;> cases single a <;>
    simp only [List.length_append, List.length_cons, List.length_nil, Bool.false_eq_true, if_false, if_true, le4] <;>
    repeat' split
  all_goals simp only [le2, le4, le8, List.length_append, List.length_cons, List.length_nil]
  all_goals omega

example : (writeHeader ⟨10, 2 ^ 32, true, 70000, false, true, false⟩).length = 18 := by decide
example : (writeHeader ⟨17, 0, false, 0, false, false, false⟩).length = 6 := by decide

/-! ### how many blocks ZSTD_compress_frameChunk cuts -/

theorem rawBlocksFuel_length (bsz : Nat) (h1 : 1 ≤ bsz) : ∀ (fuel remaining : Nat), remaining ≤ fuel →
    (rawBlocksFuel bsz fuel remaining).length = (remaining + bsz - 1) / bsz := by
  intro fuel
  induction fuel with
  | zero =>
    intro remaining hf
    have : remaining = 0 := by omega
    subst this
    rw [rawBlocksFuel, List.length_nil, Nat.div_eq_of_lt (by omega)]
  | succ k ih =>
    intro remaining hf
    unfold rawBlocksFuel
    by_cases h0 : remaining = 0
    · rw [if_pos h0, h0, List.length_nil, Nat.div_eq_of_lt (by omega)]
    · rw [if_neg h0, List.length_cons]
      by_cases hle : remaining ≤ bsz
      · rw [Nat.min_eq_right hle, Nat.sub_self, ih 0 (Nat.zero_le _), Nat.div_eq_of_lt (by omega)]
        have : (remaining + bsz - 1) / bsz = 1 := by
          rw [Nat.div_eq_iff (by omega)]; omega
        omega
      · have hlt : bsz ≤ remaining := by omega
        rw [Nat.min_eq_left hlt, ih _ (by omega)]
        have : remaining + bsz - 1 = (remaining - bsz + bsz - 1) + bsz := by omega
        rw [this, Nat.add_div_right _ (by omega)]

/-- **number of blocks**: the cutting loop of ZSTD_compress_frameChunk (`blockSize = MIN(blockSizeMax, remaining)` until nothing
remains) makes ⌈n / blockSize⌉ blocks -/
theorem rawBlocks_length (bsz n : Nat) (h1 : 1 ≤ bsz) : (rawBlocks bsz n).length = (n + bsz - 1) / bsz :=
  rawBlocksFuel_length bsz h1 n n (Nat.le_refl _)

theorem serializeBlocks_rawFuel_size (x : ByteArray) (bsz : Nat) (h1 : 1 ≤ bsz) : ∀ (fuel remaining pos : Nat), remaining ≤ fuel →
    pos + remaining = x.size →
    (serializeBlocks x (rawBlocksFuel bsz fuel remaining) pos).size = remaining + 3 * (rawBlocksFuel bsz fuel remaining).length := by
  intro fuel
  induction fuel with
  | zero =>
    intro remaining pos hf _
    have : remaining = 0 := by omega
    subst this
    simp only [rawBlocksFuel, serializeBlocks, ByteArray.size_empty, List.length_nil]
  | succ k ih =>
    intro remaining pos hf hp
    unfold rawBlocksFuel
    by_cases h0 : remaining = 0
    · rw [if_pos h0, h0]; simp only [serializeBlocks, ByteArray.size_empty, List.length_nil]
    · rw [if_neg h0]
      have hm : min bsz remaining ≤ remaining := Nat.min_le_right _ _
      have hm1 : 1 ≤ min bsz remaining := by rw [Nat.le_min]; omega
      have hi := ih (remaining - min bsz remaining) (pos + min bsz remaining) (by omega) (by omega)
      simp only [serializeBlocks, noCompressBlock, ByteArray.size_append, FrameRT.blockHeader24_size, ByteArray.size_extract,
        List.length_cons, hi]
      omega

/-! ### exact size of the all-raw frame -/

/-- **rawFrameWith_size**: the frame that stores every block raw, cut into blocks of `bsz` bytes, has exactly
header + content + 3 bytes per block (one empty block for an empty input) + 4 bytes of checksum when asked for -/
theorem rawFrameWith_size (a : HArgs) (bsz : Nat) (h1 : 1 ≤ bsz) (x : ByteArray) :
    (rawFrameWith a bsz x).size =
      (writeHeader a).length + x.size + 3 * max 1 ((x.size + bsz - 1) / bsz) + (if a.checksum then 4 else 0) := by
  unfold rawFrameWith
  rw [FrameRT.serializeFrame_eq]
  simp only [ByteArray.size_append, FrameRT.size_ofList, FrameRT.checksumBytes_size]
  have hlen := rawBlocks_length bsz x.size h1
  have hsz := serializeBlocks_rawFuel_size x bsz h1 x.size x.size 0 (Nat.le_refl _) (Nat.zero_add _)
  unfold FrameRT.effBlocks
  by_cases h0 : x.size = 0
  · have hnil : rawBlocks bsz x.size = [] := by rw [h0]; rfl
    rw [hnil, h0, Nat.div_eq_of_lt (by omega)]
    simp only [List.isEmpty_nil, if_true, serializeBlocks, noCompressBlock, ByteArray.size_append, FrameRT.blockHeader24_size,
      ByteArray.size_extract, ByteArray.size_empty]
    omega
  · have hk : 1 ≤ (x.size + bsz - 1) / bsz := by
      rw [Nat.le_div_iff_mul_le (by omega)]; omega
    have hne : (rawBlocks bsz x.size).isEmpty = false := by
      cases hl : rawBlocks bsz x.size with
      | nil => rw [hl] at hlen; simp only [List.length_nil] at hlen; omega
      | cons _ _ => rfl
    rw [hne]
    simp only [Bool.false_eq_true, if_false]
    unfold rawBlocks at hlen ⊢
    rw [hsz, hlen, Nat.max_eq_right hk]
    omega

/-- **rawFrame_size**: exact size of the canonical total fallback `Serialize.rawFrame a x` =
|header| + |x| + 3 · max 1 ⌈|x| / blockSize a⌉ + (4 if checksum) -/
theorem rawFrame_size (a : HArgs) (x : ByteArray) :
    (rawFrame a x).size =
      (writeHeader a).length + x.size + 3 * max 1 ((x.size + blockSize a - 1) / blockSize a) + (if a.checksum then 4 else 0) :=
  rawFrameWith_size a (blockSize a) (FrameRT.blockSize_bounds a).1 x

/-! ### the bound -/

/-- the arithmetic core: header ≤ 18, `k` blocks with `(k - 1) · 808 ≤ n` (all blocks but the last hold at least 808 bytes), 4 bytes
of checksum: within ZSTD_COMPRESSBOUND(n) -/
theorem bound_arith (H n k C : Nat) (hH : H ≤ 18) (hC : C ≤ 4) (hk : k ≤ n / 808 + 1) (hn : n < ZSTD_MAX_INPUT_SIZE) :
    H + n + 3 * k + C ≤ compressBound n := by
  unfold compressBound BLK
  rw [if_neg (by omega)]
  unfold ZSTD_MAX_INPUT_SIZE at hn
  split <;> omega

theorem ceil_le_of_le (n b : Nat) (hb : 808 ≤ b) : (n + b - 1) / b ≤ n / 808 + 1 := by
  have h1 : (n + b - 1) / b ≤ n / b + 1 := by
    rw [Nat.div_le_iff_le_mul_add_pred (by omega)]
    have := Nat.div_add_mod n b
    have := Nat.mod_lt n (show b > 0 by omega)
    rw [Nat.mul_add, Nat.mul_one]
    omega
  have h2 : n / b ≤ n / 808 := Nat.div_le_div_left hb (by omega)
  omega

/-- **rawFrameWith_within_bound** (C06, any block size): the all-raw frame of `x` cut into blocks of `bsz` bytes is never larger than
ZSTD_compressBound(|x|), for every header (any window log, dictionary ID, content-size field, checksum) provided the block size is at
least 808 bytes - or the input fits one block.  (The library's smallest block size is 1024: windowLog ≥ 10, ZSTD_c_maxBlockSize ≥ 1024.) -/
theorem rawFrameWith_within_bound (a : HArgs) (bsz : Nat) (h1 : 1 ≤ bsz) (x : ByteArray)
    (hb : 808 ≤ bsz ∨ x.size ≤ bsz) (hx : x.size < ZSTD_MAX_INPUT_SIZE) :
    (rawFrameWith a bsz x).size ≤ compressBound x.size := by
  rw [rawFrameWith_size a bsz h1 x, Nat.add_assoc ((writeHeader a).length) _ _, ← Nat.add_assoc, Nat.add_assoc _ (3 * _) _,
    Nat.add_comm (3 * _) _, ← Nat.add_assoc]
  have hH := (writeHeader_size_le a).1
  have hC : (if a.checksum then 4 else 0) ≤ 4 := by split <;> omega
  rw [Nat.add_assoc _ (if a.checksum then 4 else 0) _, Nat.add_comm (if a.checksum then 4 else 0) _, ← Nat.add_assoc]
  refine bound_arith _ _ _ _ hH hC ?_ hx
  rcases hb with hb | hb
  · have := ceil_le_of_le x.size bsz hb
    omega
  · have : (x.size + bsz - 1) / bsz ≤ 1 := by
      rw [Nat.div_le_iff_le_mul_add_pred (by omega)]; omega
    omega

/-- the block size of the compressor is at least 808 (in fact 1024) unless the whole input is one block, when the pledged size is
the truth (or no size is pledged) and the window log is in the accepted range -/
theorem blockSize_ok (a : HArgs) (ha : a.wf) (x : ByteArray) (hp : a.contentSizeFlag = true → a.pledged = x.size) :
    1024 ≤ blockSize a ∨ x.size ≤ blockSize a := by
  have hw : 2 ^ 10 ≤ 2 ^ a.windowLog := Nat.pow_le_pow_right (by omega) (by have := ha.1; simpa [ZSTD_WINDOWLOG_ABSOLUTEMIN] using this)
  unfold blockSize
  simp only [ZSTD_BLOCKSIZE_MAX]
  cases hc : a.contentSizeFlag
  · simp only [Bool.false_eq_true, if_false]; omega
  · simp only [if_true, hp hc]; omega

/-- **rawFrame_within_bound** (C06, MAIN): for every accepted parameter tuple `a` (window log 10..31, any dictionary ID, checksum or
not, content size written or not - and truthful when written) and every input below ZSTD_MAX_INPUT_SIZE, the compressor's total
fallback - every block raw, cut as ZSTD_compress_frameChunk cuts with the block size ZSTD_resetCCtx_internal derives from window and
pledged size - is never larger than ZSTD_compressBound(|x|): the bytes `FrameRT.frame_roundtrip_raw` decodes back to `x` always fit
the documented bound, whatever the window / block size. -/
theorem rawFrame_within_bound (a : HArgs) (ha : a.wf) (x : ByteArray) (hp : a.contentSizeFlag = true → a.pledged = x.size)
    (hx : x.size < ZSTD_MAX_INPUT_SIZE) : (rawFrame a x).size ≤ compressBound x.size := by
  refine rawFrameWith_within_bound a (blockSize a) (FrameRT.blockSize_bounds a).1 x ?_ hx
  rcases blockSize_ok a ha x hp with h | h
  · exact Or.inl (by omega)
  · exact Or.inr h

/-- the same without any assumption on the pledged size, in terms of the block size it leads to -/
theorem rawFrame_within_bound_of_blockSize (a : HArgs) (x : ByteArray) (hb : 808 ≤ blockSize a ∨ x.size ≤ blockSize a)
    (hx : x.size < ZSTD_MAX_INPUT_SIZE) : (rawFrame a x).size ≤ compressBound x.size :=
  rawFrameWith_within_bound a (blockSize a) (FrameRT.blockSize_bounds a).1 x hb hx

/-! ### the side conditions are needed -/

/-- 808 is sharp: with blocks of 807 bytes, a maximal header and a checksum, an input of 129121 bytes (161 blocks) exceeds the bound
by one byte.  (Not reachable in the library: block sizes below 1024 occur only for single-block inputs.) -/
theorem bound_fails_below_808 (x : ByteArray) (hx : x.size = 129121) :
    compressBound x.size < (rawFrameWith ⟨10, 2 ^ 32, true, 70000, false, true, false⟩ 807 x).size := by
  rw [rawFrameWith_size _ 807 (by omega) x, hx]
  decide

/-- a pledged size that is not the input size (refused by the library: srcSize_wrong) makes the MODEL's block size follow the lie:
pledged 1 → one block per byte → 4 bytes per byte of content -/
theorem bound_fails_lying_pledge (x : ByteArray) (hx : x.size = 1000) :
    compressBound x.size < (rawFrame ⟨10, 1, true, 0, false, false, false⟩ x).size := by
  rw [rawFrame_size, hx]
  decide

/-! ### frames with RLE and compressed blocks -/

/-- no block is stored larger than a raw block of its content: RLE blocks stand for at least one byte, and the body of a compressed
block is smaller than its content (`cSize < srcSize`; ZSTD_compressBlock_internal / ZSTD_isRLE guarantee it by emitting the block raw
otherwise: `if (cSize == 0 …) cSize = ZSTD_noCompressBlock(…)`, with `cSize = 0` when `maxCSize = srcSize - minGain` is reached).
`prev` = the resolved table decisions of the last block with sequences, threaded by `BlockEnc.nextTables` as `serializeBlocks2`
threads it: the body of a block that describes its tables (`set_compressed`) counts the description, one that repeats them does not;
`hp` = the Huffman table of the last block that wrote one, threaded by `BlockEnc.nextHuf` (looked at by treeless literals only). -/
def Shrinks (bs : List BlockChoice2) (rep : Rep.R) (prev : Option Tables := none) (hp : Option HufTab := none) : Prop :=
  match bs with
  | [] => True
  | .raw _ :: rest => Shrinks rest rep prev hp
  | .rle _ n :: rest => 1 ≤ n ∧ Shrinks rest rep prev hp
  | .compressed c t lits raws :: rest =>
    (serializeBlockBody c lits t (storeAll rep raws).1 (prev.getD {}) hp).size < parseLen lits raws ∧
      Shrinks rest (storeAll rep raws).2 (nextTables prev t (storeAll rep raws).1) (nextHuf hp c lits)

/-- content bytes a block list stands for -/
def contentLen (bs : List BlockChoice2) : Nat := (bs.map BlockChoice2.len).sum

theorem serializeBlocks2_size_le (x : ByteArray) : ∀ (bs : List BlockChoice2) (pos : Nat) (rep : Rep.R) (prev : Option Tables)
    (hp : Option HufTab),
    Shrinks bs rep prev hp → (serializeBlocks2 x bs pos rep prev hp).size ≤ 3 * bs.length + contentLen bs := by
  intro bs
  induction bs with
  | nil => intro _ _ _ _ _; simp [serializeBlocks2, contentLen]
  | cons c rest ih =>
    intro pos rep prev hp hs
    cases c with
    | raw n =>
      have := ih (pos + n) rep prev hp hs
      simp only [serializeBlocks2, noCompressBlock, ByteArray.size_append, FrameRT.blockHeader24_size, ByteArray.size_extract,
        List.length_cons, contentLen, List.map_cons, List.sum_cons, BlockChoice2.len] at this ⊢
      omega
    | rle b n =>
      have := ih (pos + n) rep prev hp hs.2
      have h1 := hs.1
      have hos : (ofList [b]).size = 1 := rfl
      simp only [serializeBlocks2, rleCompressBlock, ByteArray.size_append, FrameRT.blockHeader24_size, hos,
        List.length_cons, contentLen, List.map_cons, List.sum_cons, BlockChoice2.len] at this ⊢
      omega
    | compressed c t lits raws =>
      have := ih (pos + parseLen lits raws) _ _ _ hs.2
      have h1 := hs.1
      simp only [serializeBlocks2, compressedBlock, ByteArray.size_append, FrameRT.blockHeader24_size,
        List.length_cons, contentLen, List.map_cons, List.sum_cons, BlockChoice2.len] at this ⊢
      omega

/-- **serializeFrame2_size_le**: a frame of raw / RLE / compressed blocks in which no block is stored larger than raw is at most
header + content + 3 per block (one block for an empty list) + checksum -/
theorem serializeFrame2_size_le (a : HArgs) (bs : List BlockChoice2) (x : ByteArray) (hs : Shrinks bs repStart) :
    (serializeFrame2 a bs x).size ≤
      (writeHeader a).length + contentLen bs + 3 * max 1 bs.length + (if a.checksum then 4 else 0) := by
  unfold serializeFrame2 epilogue
  have := serializeBlocks2_size_le x bs 0 repStart none none hs
  have hck : (if a.checksum = true then ofList (le4 ((XXH64.hashRange x 0 x.size).toNat &&& 0xFFFFFFFF)) else ByteArray.empty).size =
      if a.checksum then 4 else 0 := by
    cases a.checksum <;> rfl
  simp only [ByteArray.size_append, FrameRT.size_ofList, hck]
  cases bs with
  | nil =>
    simp only [List.isEmpty_nil, if_true, FrameRT.blockHeader24_size, serializeBlocks2, ByteArray.size_empty, List.length_nil]
    omega
  | cons c rest =>
    simp only [List.isEmpty_cons, Bool.false_eq_true, if_false, ByteArray.size_empty, List.length_cons] at this ⊢
    omega

/-- all blocks but the last stand for at least `bsz` bytes (ZSTD_compress_frameChunk: every block but the last is a full block) -/
def FullBlocks (bsz : Nat) : List BlockChoice2 → Prop
  | [] => True
  | [_] => True
  | c :: d :: rest => bsz ≤ c.len ∧ FullBlocks bsz (d :: rest)

theorem fullBlocks_count (bsz : Nat) : ∀ bs : List BlockChoice2, FullBlocks bsz bs → (bs.length - 1) * bsz ≤ contentLen bs := by
  intro bs
  induction bs with
  | nil => intro _; simp [contentLen]
  | cons c rest ih =>
    intro h
    cases rest with
    | nil => simp [contentLen]
    | cons d rest2 =>
      have := ih h.2
      have h1 := h.1
      simp only [List.length_cons, contentLen, List.map_cons, List.sum_cons, Nat.add_sub_cancel] at this ⊢
      rw [Nat.add_mul, Nat.one_mul]
      omega

/-- **serialized_within_bound** (C06): a frame of raw / RLE / compressed blocks (`BlockEnc.serializeFrame2`, the bytes
`BlockRT.frame_roundtrip_compressed` decodes) fits ZSTD_compressBound(|x|) whenever the blocks stand for the `|x|` bytes of the input,
no block is stored larger than raw (`Shrinks`: what ZSTD_compressBlock_internal guarantees by falling back to ZSTD_noCompressBlock),
and every block but the last stands for at least `bsz ≥ 808` bytes (the library: full blocks of at least 1024 bytes) -/
theorem serialized_within_bound (a : HArgs) (bs : List BlockChoice2) (x : ByteArray) (bsz : Nat) (hb : 808 ≤ bsz)
    (hsum : contentLen bs = x.size) (hs : Shrinks bs repStart) (hfull : FullBlocks bsz bs) (hx : x.size < ZSTD_MAX_INPUT_SIZE) :
    (serializeFrame2 a bs x).size ≤ compressBound x.size := by
  refine Nat.le_trans (serializeFrame2_size_le a bs x hs) ?_
  rw [hsum]
  have hH := (writeHeader_size_le a).1
  have hC : (if a.checksum then 4 else 0) ≤ 4 := by split <;> omega
  refine bound_arith _ _ _ _ hH hC ?_ hx
  have h1 := fullBlocks_count bsz bs hfull
  rw [hsum] at h1
  have h2 : (bs.length - 1) * 808 ≤ (bs.length - 1) * bsz := Nat.mul_le_mul_left _ hb
  have h3 : bs.length - 1 ≤ x.size / 808 := by
    rw [Nat.le_div_iff_mul_le (by omega)]; omega
  omega

/-- the tiling hypothesis of the round-trip theorems gives `contentLen bs = |x|` -/
theorem contentLen_of_tiles2 (dc : ByteArray) (bsm : Nat) (x : ByteArray) : ∀ (bs : List BlockChoice2) (pos : Nat) (rep : Rep.R)
    (prev : Option Tables), BlockRT.Tiles2 dc bsm x bs pos rep prev → pos + contentLen bs = x.size := by
  intro bs
  induction bs with
  | nil =>
    intro pos rep prev h
    have h2 : pos = x.size := by simpa only [BlockRT.Tiles2] using h
    simp only [contentLen, List.map_nil, List.sum_nil]; omega
  | cons c rest ih =>
    intro pos rep prev h
    cases c with
    | raw n =>
      simp only [BlockRT.Tiles2] at h
      have := ih _ _ _ h.2.2
      simp only [contentLen, List.map_cons, List.sum_cons, BlockChoice2.len] at this ⊢; omega
    | rle b n =>
      simp only [BlockRT.Tiles2] at h
      have := ih _ _ _ h.2.2.2
      simp only [contentLen, List.map_cons, List.sum_cons, BlockChoice2.len] at this ⊢; omega
    | compressed c t lits raws =>
      simp only [BlockRT.Tiles2] at h
      have := ih _ _ _ h.2.2.2.2.2.2.2.2.2
      simp only [contentLen, List.map_cons, List.sum_cons, BlockChoice2.len] at this ⊢; omega

/-- **round trip and bound together**: under the hypotheses of `BlockRT.frame_roundtrip_compressed` (`FrameOK2`), a frame whose blocks
shrink and are full but the last both decodes to `x` and fits ZSTD_compressBound(|x|) -/
theorem serialized_within_bound_of_frameOK2 (dc : ByteArray) (a : HArgs) (bs : List BlockChoice2) (x : ByteArray) (bsz : Nat)
    (hb : 808 ≤ bsz) (hok : BlockRT.FrameOK2 dc a bs x) (hs : Shrinks bs repStart) (hfull : FullBlocks bsz bs)
    (hx : x.size < ZSTD_MAX_INPUT_SIZE) : (serializeFrame2 a bs x).size ≤ compressBound x.size := by
  have := contentLen_of_tiles2 dc _ x bs 0 repStart none hok.2.2.2.2
  exact serialized_within_bound a bs x bsz hb (by omega) hs hfull hx

/-- non-vacuity: the demo frame of Lemmas/BlockRT.lean (a raw block and a compressed block with 11 body bytes for 13 content bytes) -/
example : Shrinks BlockRT.demoBlocks repStart ∧ contentLen BlockRT.demoBlocks = BlockRT.demoX.size := by
  simp only [BlockRT.demoBlocks, Shrinks]
  decide +kernel

end ZstdVerif.BoundRT
