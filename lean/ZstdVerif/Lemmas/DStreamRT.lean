/-
The deterministic model of `ZSTD_decompressStream` (Model/DStream.lean) refines the streaming specification (Model/Stream.lean).
-/
import ZstdVerif.Model.DStream
import ZstdVerif.Props.C02
namespace ZstdVerif.DStream
open ZstdVerif.Gen ZstdVerif.Stream

/-! ## sizes of frame lists and the frame-end list -/

def sizeAll : List FrameD → Nat
  | [] => 0
  | f :: fs => frameSize f + sizeAll fs

def regenAll : List FrameD → Nat
  | [] => 0
  | f :: fs => regenOf f + regenAll fs

theorem sizeAll_append (a b : List FrameD) : sizeAll (a ++ b) = sizeAll a + sizeAll b := by
  induction a with
  | nil => simp [sizeAll]
  | cons f fs ih => simp only [List.cons_append, sizeAll, ih]; omega

theorem regenAll_append (a b : List FrameD) : regenAll (a ++ b) = regenAll a + regenAll b := by
  induction a with
  | nil => simp [regenAll]
  | cons f fs ih => simp only [List.cons_append, regenAll, ih]; omega

theorem endsFrom_append (ci co : Nat) (a b : List FrameD) :
    endsFrom ci co (a ++ b) = endsFrom ci co a ++ endsFrom (ci + sizeAll a) (co + regenAll a) b := by
  induction a generalizing ci co with
  | nil => simp [endsFrom, sizeAll, regenAll]
  | cons f fs ih =>
    simp only [List.cons_append, endsFrom, sizeAll, regenAll, ih]
    simp only [Nat.add_assoc]

/-- every frame end lies strictly after the start and not after the end of the list -/
theorem endsFrom_bounds (ci co : Nat) (fs : List FrameD) (hpos : ∀ f ∈ fs, 1 ≤ frameSize f) (a b : Nat)
    (h : (a, b) ∈ endsFrom ci co fs) : ci < a ∧ a ≤ ci + sizeAll fs := by
  induction fs generalizing ci co with
  | nil => simp [endsFrom] at h
  | cons f fs ih =>
    simp only [endsFrom, List.mem_cons, Prod.mk.injEq] at h
    have hf := hpos f (by simp)
    simp only [sizeAll]
    rcases h with ⟨rfl, _⟩ | h
    · omega
    · have := ih (ci + frameSize f) (co + regenOf f) (fun g hg => hpos g (by simp [hg])) h
      omega

/-- an end at the first frame's end offset is the first frame's end -/
theorem endsFrom_head (ci co : Nat) (f : FrameD) (fs : List FrameD) (hpos : ∀ g ∈ fs, 1 ≤ frameSize g) (a b : Nat)
    (h : (a, b) ∈ endsFrom ci co (f :: fs)) : ci + frameSize f ≤ a ∧ (a = ci + frameSize f → b = co + regenOf f) := by
  simp only [endsFrom, List.mem_cons, Prod.mk.injEq] at h
  rcases h with ⟨rfl, rfl⟩ | h
  · exact ⟨Nat.le_refl _, fun _ => rfl⟩
  · have := endsFrom_bounds _ _ fs hpos a b h
    omega

/-! ## validity facts -/

theorem lastOk_ne_nil {bs : List BlockD} (h : lastOk bs = true) : bs ≠ [] := by
  cases bs with
  | nil => simp [lastOk] at h
  | cons b r => simp

theorem blocksSize_pos {bs : List BlockD} (h : bs ≠ []) : 3 ≤ blocksSize bs := by
  cases bs with
  | nil => exact absurd rfl h
  | cons b r => simp only [blocksSize, ZSTD_blockHeaderSize]; omega

/-- raw blocks regenerate exactly their body -/
def rawOk (bs : List BlockD) : Prop := ∀ b ∈ bs, (b.ty = .raw → b.regen = b.cSize) ∧ (b.cSize = 0 → b.regen = 0)

theorem ok_zstd {f : FrameD} (h : f.ok = true) (hs : f.skippable = false) :
    6 ≤ f.headerSize ∧ lastOk f.blocks = true ∧ rawOk f.blocks ∧ (∀ n, f.fcs = some n → n = regenOf f) := by
  simp only [FrameD.ok, hs, Bool.false_eq_true, if_false, Bool.and_eq_true, decide_eq_true_eq, ZSTD_FRAMEHEADERSIZE_MIN,
    List.all_eq_true] at h
  obtain ⟨⟨⟨⟨⟨h1, h2⟩, h3⟩, h4⟩, _⟩, _⟩ := h
  refine ⟨of_decide_eq_true h1, h2, ?_, ?_⟩
  · intro b hb
    have := h3 b hb
    simp only [BlockD.ok, Bool.and_eq_true, decide_eq_true_eq] at this
    cases hty : b.ty <;> simp only [hty, decide_eq_true_eq] at this <;> simp <;> omega
  · intro n hn
    rw [hn] at h4
    simpa using h4

theorem ok_skip {f : FrameD} (h : f.ok = true) (hs : f.skippable = true) :
    f.headerSize = 8 ∧ f.blocks = [] ∧ f.fcs = some f.payload ∧ f.checksum = false := by
  simp only [FrameD.ok, hs, if_true, Bool.and_eq_true, decide_eq_true_eq, ZSTD_SKIPPABLEHEADERSIZE, List.isEmpty_iff,
    Bool.not_eq_true'] at h
  obtain ⟨⟨⟨⟨⟨h1, h2⟩, h3⟩, h4⟩, _⟩, _⟩ := h
  exact ⟨of_decide_eq_true h1, h2, h3, h4⟩

/-- the header lies inside the frame, and a frame holds at least 8 bytes -/
theorem ok_size {f : FrameD} (h : f.ok = true) : f.headerSize ≤ frameSize f ∧ 8 ≤ frameSize f ∧ 6 ≤ f.headerSize := by
  cases hs : f.skippable with
  | true =>
    obtain ⟨h1, _, _, _⟩ := ok_skip h hs
    simp only [frameSize, hs, if_true, ZSTD_SKIPPABLEHEADERSIZE, h1]; omega
  | false =>
    obtain ⟨h1, h2, _, _⟩ := ok_zstd h hs
    have := blocksSize_pos (lastOk_ne_nil h2)
    simp only [frameSize, hs, Bool.false_eq_true, if_false]; omega

/-! ## the invariant -/

/-- bytes of the current frame the decoder has still to take, counted from the start of the stage in progress -/
def rem (d : DCtx) (bs : List BlockD) : Nat :=
  match d.stage with
  | .decodeBlockHeader => blocksSize bs + ckSize d.checksum
  | .decompressBlock => d.expected + blocksSize bs + ckSize d.checksum
  | .decompressLastBlock => d.expected + ckSize d.checksum
  | .checkChecksum => 4
  | .skipFrame => d.expected
  | _ => 0

/-- what the rest of the block in progress regenerates -/
def curOut (d : DCtx) : Nat :=
  match d.bType with
  | .raw => d.expected
  | _ => d.curRegen

/-- content of the current frame not decoded yet -/
def remRegen (d : DCtx) (bs : List BlockD) : Nat :=
  match d.stage with
  | .decodeBlockHeader => blocksRegen bs
  | .decompressBlock => curOut d + blocksRegen bs
  | .decompressLastBlock => curOut d
  | _ => 0

def stageOk (d : DCtx) (bs : List BlockD) : Prop :=
  match d.stage with
  | .decodeBlockHeader => d.expected = 3 ∧ lastOk bs = true ∧ rawOk bs
  | .decompressBlock => 1 ≤ d.expected ∧ lastOk bs = true ∧ rawOk bs
  | .decompressLastBlock => 1 ≤ d.expected ∧ bs = []
  | .checkChecksum => d.expected = 4 ∧ bs = []
  | .skipFrame => True
  | .getFrameHeaderSize => d.expected = 0
  | _ => False

/-- the decoder's absolute input position: what the caller was told plus a withheld byte plus this call's advance -/
def cin (s : State) (l : Loc) : Nat := s.totalIn + (if s.held then 1 else 0) + l.ip

/-- inside frame `s.cur`, which starts at `(fIn, fOut)` -/
structure FrameInv (s : State) (l : Loc) (fIn fOut : Nat) : Prop where
  pos : cin s l + rem s.d s.blocks = fIn + frameSize s.cur + s.inPos
  lo : fIn + 2 ≤ cin s l
  out : s.totalOut + l.op + (s.outEnd - s.outStart) = fOut + s.d.decodedSize
  ole : s.outStart ≤ s.outEnd
  reg : s.d.decodedSize + remRegen s.d s.blocks = regenOf s.cur
  stg : stageOk s.d s.blocks
  inp1 : s.ss = .load → s.inPos < s.d.expected
  inp0 : s.ss ≠ .load → s.inPos = 0
  fl : s.ss ≠ .flush → s.outStart = s.outEnd
  hh : s.held = s.hostage
  hd : s.hostage = true → s.d.expected = 0
  k : s.d.expected = 0 → s.hostage = false → 1 ≤ l.ip

/-- frame `s.cur` completely decoded and flushed -/
structure DoneInv (s : State) (l : Loc) (fIn fOut : Nat) : Prop where
  pos : cin s l = fIn + frameSize s.cur
  out : s.totalOut + l.op = fOut + regenOf s.cur
  fl : s.outStart = s.outEnd
  ex : s.d.expected = 0
  st : s.d.stage = .getFrameHeaderSize ∨ s.d.stage = .skipFrame
  hh : s.held = s.hostage
  k : s.hostage = false → 1 ≤ l.ip

def InFrame (all : List FrameD) (s : State) (l : Loc) : Prop :=
  ∃ pre, all = pre ++ s.cur :: s.frames ∧ FrameInv s l (sizeAll pre) (regenAll pre)

def Done (all : List FrameD) (s : State) (l : Loc) : Prop :=
  ∃ pre, all = pre ++ s.cur :: s.frames ∧ DoneInv s l (sizeAll pre) (regenAll pre)

/-- between frames, nothing of the next header taken yet -/
def Fresh (all : List FrameD) (s : State) : Prop :=
  ∃ pre, all = pre ++ s.frames ∧ s.totalIn = sizeAll pre ∧ s.totalOut = regenAll pre ∧ s.held = false

/-- loading the header of the head of `s.frames` -/
def Hdr (all : List FrameD) (s : State) (l : Loc) : Prop :=
  ∃ pre, all = pre ++ s.frames ∧ s.totalIn + l.ip = sizeAll pre + s.lhSize ∧ s.totalOut = regenAll pre ∧ l.op = 0 ∧ l.ip ≤ s.lhSize ∧
    s.held = false ∧ s.hostage = false ∧ s.outStart = s.outEnd ∧ s.inPos = 0 ∧
    (∀ f, s.frames.head? = some f → s.lhSize ≤ f.headerSize) ∧
    (hdrNeed s.frames.head? s.lhSize = 0 → 1 ≤ l.ip)

/-- the invariant inside a call, at position `l` -/
def LInv (all : List FrameD) (s : State) (l : Loc) : Prop :=
  match s.ss with
  | .init => (l.ip = 0 ∧ l.op = 0 ∧ Fresh all s) ∨ Done all s l
  | .loadHeader => Hdr all s l
  | .read => InFrame all s l ∨ Done all s l
  | .load => InFrame all s l
  | .flush => InFrame all s l

/-- what holds when the loop is left with `someMoreWork = 0` -/
def SInv (all : List FrameD) (s : State) (l : Loc) : Prop :=
  match s.ss with
  | .init => Done all s l
  | .loadHeader => False
  | .read => InFrame all s l ∧ s.d.expected ≠ 0
  | .load => InFrame all s l
  | .flush => InFrame all s l ∧ s.outStart < s.outEnd

/-- **the invariant between calls** -/
def Inv (all : List FrameD) (s : State) : Prop := LInv all s {}

def AllOk (all : List FrameD) : Prop := ∀ f ∈ all, f.ok = true

theorem inv_start (all : List FrameD) : Inv all (State.start all) :=
  Or.inl ⟨rfl, rfl, [], rfl, rfl, rfl, rfl⟩

/-! ## the stage machine against the accounting -/

theorem rem_ge {d : DCtx} {bs : List BlockD} (h : stageOk d bs) : d.expected ≤ rem d bs := by
  unfold stageOk at h
  unfold rem
  split at h <;> simp_all <;> try omega
  have := blocksSize_pos (lastOk_ne_nil h.2.1)
  omega

theorem rem_zero {d : DCtx} {bs : List BlockD} (h : stageOk d bs) (he : d.expected = 0) :
    rem d bs = 0 ∧ remRegen d bs = 0 ∧ (d.stage = .getFrameHeaderSize ∨ d.stage = .skipFrame) := by
  unfold stageOk at h
  unfold rem remRegen
  split at h <;> simp_all

def rawBlock (d : DCtx) : Prop := (d.stage = .decompressBlock ∨ d.stage = .decompressLastBlock) ∧ d.bType = .raw

theorem block_acct (d : DCtx) (bs : List BlockD) (n : Nat) (hb : d.stage = .decompressBlock ∨ d.stage = .decompressLastBlock)
    (hs : stageOk d bs) (_h1 : 1 ≤ n) (h2 : n ≤ d.expected) (hfull : d.bType ≠ .raw → n = d.expected) :
    rem (d.stDecompressBlock n).1 bs + n = rem d bs ∧ (d.stDecompressBlock n).1.decodedSize = d.decodedSize + (d.stDecompressBlock n).2 ∧
    remRegen (d.stDecompressBlock n).1 bs + (d.stDecompressBlock n).2 = remRegen d bs ∧ stageOk (d.stDecompressBlock n).1 bs := by
  obtain ⟨stage, expected, bType, curRegen, decodedSize, headerSize, fcs, checksum, bsm, ws⟩ := d
  simp only at hb h2 hfull
  have hne := lastOk_ne_nil (bs := bs)
  have hbs := blocksSize_pos (bs := bs)
  rcases hb with rfl | rfl <;> cases bType <;> cases checksum <;> by_cases hpos : expected - n > 0 <;>
    simp [DCtx.stDecompressBlock, DCtx.blockOut, DCtx.endOfBlocks, stageOk, rem, remRegen, curOut, hpos, ZSTD_blockHeaderSize, ckSize] at hs hfull ⊢ <;>
    (try omega) <;> (repeat' apply And.intro) <;> (first | omega | exact hs.2.1 | exact hs.2.2 | exact hs.2)

theorem lastOk_cons {b : BlockD} {rest : List BlockD} (h : lastOk (b :: rest) = true) :
    (b.last = true → rest = []) ∧ (b.last = false → lastOk rest = true ∧ rest ≠ []) := by
  cases rest with
  | nil => simp [lastOk] at h; simp [h]
  | cons r rs => simp [lastOk] at h; simp [h]

theorem bh_acct (d : DCtx) (b : BlockD) (rest : List BlockD) (hst : d.stage = .decodeBlockHeader) (hs : stageOk d (b :: rest)) :
    rem (d.stDecodeBlockHeader b).1 rest + 3 = rem d (b :: rest) ∧ (d.stDecodeBlockHeader b).1.decodedSize = d.decodedSize ∧
    (d.stDecodeBlockHeader b).2 = 0 ∧ remRegen (d.stDecodeBlockHeader b).1 rest = remRegen d (b :: rest) ∧
    stageOk (d.stDecodeBlockHeader b).1 rest := by
  obtain ⟨stage, expected, bType, curRegen, decodedSize, headerSize, fcs, checksum, bsm, ws⟩ := d
  simp only at hst
  subst hst
  simp only [stageOk] at hs
  obtain ⟨_, hl, hr⟩ := hs
  obtain ⟨hl1, hl2⟩ := lastOk_cons hl
  have hrb := hr b (by simp)
  have hrr : rawOk rest := fun x hx => hr x (by simp [hx])
  obtain ⟨bty, bc, bg, bl⟩ := b
  simp only at hl1 hl2 hrb
  by_cases hc : bc = 0 <;> cases bl <;> cases checksum <;> cases bty <;>
    simp [DCtx.stDecodeBlockHeader, DCtx.endOfBlocks, stageOk, rem, remRegen, curOut, hc, ZSTD_blockHeaderSize, ckSize, blocksSize, blocksRegen] at hl1 hl2 hrb ⊢ <;>
    (try omega) <;> (repeat' apply And.intro) <;> (first | omega | exact hrr | exact hl2.1 | exact hl2 | exact hl1 | exact hrb | exact hrb.symm | (simp [hl1, blocksSize, blocksRegen]; try omega))

/-- one `ZSTD_decompressContinue` against the accounting of the frame: `n` more input bytes are behind the decoder, what it wrote
is accounted for as decoded, the stage reached is well formed -/
theorem continue_acct (d : DCtx) (bs : List BlockD) (f : FrameD) (n : Nat)
    (hs : stageOk d bs) (he : d.expected ≠ 0) (h1 : 1 ≤ n) (h2 : n ≤ d.expected) (hfull : ¬ rawBlock d → n = d.expected) :
    rem (d.continue f (bs.head?.getD default) n).1 (if d.stage == .decodeBlockHeader then bs.tail else bs) + n = rem d bs ∧
    (d.continue f (bs.head?.getD default) n).1.decodedSize = d.decodedSize + (d.continue f (bs.head?.getD default) n).2 ∧
    remRegen (d.continue f (bs.head?.getD default) n).1 (if d.stage == .decodeBlockHeader then bs.tail else bs) +
      (d.continue f (bs.head?.getD default) n).2 = remRegen d bs ∧
    stageOk (d.continue f (bs.head?.getD default) n).1 (if d.stage == .decodeBlockHeader then bs.tail else bs) := by
  cases hst : d.stage with
  | getFrameHeaderSize => simp only [stageOk, hst] at hs; exact absurd hs he
  | decodeFrameHeader => simp only [stageOk, hst] at hs
  | decodeSkippableHeader => simp only [stageOk, hst] at hs
  | decodeBlockHeader =>
    have hs0 := hs
    simp only [stageOk, hst] at hs0
    have hn : n = 3 := by
      have := hfull (by simp [rawBlock, hst])
      omega
    cases bs with
    | nil => exact absurd rfl (lastOk_ne_nil hs0.2.1)
    | cons b rest =>
      have := bh_acct d b rest hst hs
      simp only [DCtx.continue, hst, List.head?_cons, Option.getD_some, beq_self_eq_true, if_true, List.tail_cons, hn]
      obtain ⟨a1, a2, a3, a4, a5⟩ := this
      exact ⟨a1, by omega, by omega, a5⟩
  | decompressBlock =>
    have := block_acct d bs n (Or.inl hst) hs h1 h2 (fun hr => hfull (fun hb => hr hb.2))
    simpa only [DCtx.continue, hst, reduceCtorEq, beq_iff_eq, if_false] using this
  | decompressLastBlock =>
    have := block_acct d bs n (Or.inr hst) hs h1 h2 (fun hr => hfull (fun hb => hr hb.2))
    simpa only [DCtx.continue, hst, reduceCtorEq, beq_iff_eq, if_false] using this
  | checkChecksum =>
    have hs0 := hs
    simp only [stageOk, hst] at hs0
    have hn : n = 4 := by
      have := hfull (by simp [rawBlock, hst])
      omega
    simp [DCtx.continue, hst, rem, remRegen, stageOk, hn]
  | skipFrame =>
    have hn : n = d.expected := hfull (by simp [rawBlock, hst])
    simp [DCtx.continue, hst, rem, remRegen, stageOk, hn]

theorem cs_inv (s : State) (l2 : Loc) (fIn fOut n : Nat)
    (hpos : cin s l2 + rem s.d s.blocks = fIn + frameSize s.cur + n)
    (hlo : fIn + 2 ≤ cin s l2) (hout : s.totalOut + l2.op = fOut + s.d.decodedSize) (hfl : s.outStart = s.outEnd)
    (hreg : s.d.decodedSize + remRegen s.d s.blocks = regenOf s.cur) (hstg : stageOk s.d s.blocks)
    (hin : s.inPos = 0) (hh : s.held = s.hostage) (hhost : s.hostage = false)
    (he : s.d.expected ≠ 0) (h1 : 1 ≤ n) (h2 : n ≤ s.d.expected) (hfull : ¬ rawBlock s.d → n = s.d.expected) (hip : 1 ≤ l2.ip) :
    FrameInv (continueStream s n) l2 fIn fOut ∧ ((continueStream s n).ss = .read ∨ (continueStream s n).ss = .flush) ∧
    (continueStream s n).cur = s.cur ∧ (continueStream s n).frames = s.frames ∧ (continueStream s n).totalIn = s.totalIn ∧
    (continueStream s n).totalOut = s.totalOut := by
  obtain ⟨a1, a2, a3, a4⟩ := continue_acct s.d s.blocks s.cur n hstg he h1 h2 hfull
  unfold continueStream
  simp only
  split
  · rename_i hc
    have hdec : (s.d.continue s.cur (s.blocks.head?.getD default) n).2 = 0 := by
      simp only [Bool.and_eq_true, decide_eq_true_eq] at hc; exact hc.1
    refine ⟨⟨?_, ?_, ?_, ?_, ?_, ?_, ?_, ?_, ?_, ?_, ?_, ?_⟩, Or.inl rfl, rfl, rfl, rfl, rfl⟩ <;> simp only [cin] at * <;>
      first | omega | assumption | (intro h; cases h) | (intros; assumption) | (intro h; simp [hhost] at h)
  · refine ⟨⟨?_, ?_, ?_, ?_, ?_, ?_, ?_, ?_, ?_, ?_, ?_, ?_⟩, Or.inr rfl, rfl, rfl, rfl, rfl⟩ <;> simp only [cin] at * <;>
      first | omega | assumption | (intro h; cases h) | (intros; assumption) | (intro h; simp [hhost] at h) | (intro h; exact absurd rfl h)

/-- the numeric content of `Stream.DLegal` for one observed call, the spec state being at `(T, U)` -/
def LegalNum (all : List FrameD) (T U inAvail outCap : Nat) (c : CallResult) : Prop :=
  c.consumed ≤ inAvail ∧ c.produced ≤ outCap ∧ c.producedAt = U ∧ U + c.produced ≤ regenAll all ∧
  (c.ret = .hint 0 ↔ ((T + c.consumed, U + c.produced) ∈ endsFrom 0 0 all ∧ (0 < c.consumed ∨ 0 < c.produced)))

/-- bounds and ghost totals carried through the loop of one call -/
structure Bd (s : State) (l : Loc) (T U inAvail outCap : Nat) : Prop where
  ip : l.ip ≤ inAvail
  op : l.op ≤ outCap
  tin : s.totalIn = T
  tout : s.totalOut = U

def RetOk (all : List FrameD) (T U inAvail outCap : Nat) (s : State) (c : Nat) (r : Ret) : Prop :=
  (∃ e, r = .err e ∧ c = 0 ∧ s.totalOut = U) ∨
  (LegalNum all T U inAvail outCap ⟨c, 0, U, r⟩ ∧ Inv all { s with totalIn := s.totalIn + c } ∧ s.totalIn = T ∧ s.totalOut = U)

def OutOk (all : List FrameD) (T U inAvail outCap : Nat) : Out → Prop
  | .cont s l => LInv all s l ∧ Bd s l T U inAvail outCap
  | .stop s l => SInv all s l ∧ Bd s l T U inAvail outCap
  | .ret s c r => RetOk all T U inAvail outCap s c r

theorem cin_congr (s s2 : State) (l l2 : Loc) (k : Nat) (h1 : s2.totalIn = s.totalIn) (h2 : s2.held = s.held) (h3 : l2.ip = l.ip + k) :
    cin s2 l2 = cin s l + k := by
  simp only [cin, h1, h2, h3]; omega

theorem stLoad_ok (all : List FrameD) (T U inAvail outCap : Nat) (s : State) (l : Loc) (hss : s.ss = .load)
    (h : InFrame all s l) (hb : Bd s l T U inAvail outCap) : OutOk all T U inAvail outCap (stLoad s l inAvail) := by
  obtain ⟨pre, hall, fi⟩ := h
  have hip := hb.ip
  have hlt := fi.inp1 hss
  have hpos := fi.pos
  have hlo := fi.lo
  have hhost : s.hostage = false := by
    cases hh : s.hostage with
    | false => rfl
    | true => have := fi.hd hh; omega
  unfold stLoad
  have hn : s.d.nextSrcSize = s.d.expected := rfl
  dsimp only
  split
  · exact Or.inl ⟨_, rfl, rfl, hb.tout⟩
  · split
    · -- not enough input: stays in zdss_load
      rename_i hl
      refine ⟨?_, ⟨?_, hb.op, hb.tin, hb.tout⟩⟩
      · simp only [SInv, hss]
        refine ⟨pre, hall, ⟨?_, ?_, ?_, ?_, ?_, ?_, ?_, ?_, ?_, ?_, ?_, ?_⟩⟩ <;> dsimp only [cin] at * <;>
          first | omega | exact fi.out | exact fi.ole | exact fi.reg | exact fi.stg | exact fi.fl | exact fi.hh | exact fi.hd | (intro h; exact absurd rfl h) | (intro _; exact fi.fl (by simp [hss]))
      · dsimp only; omega
    · rename_i hl
      have hld : min (s.d.nextSrcSize - s.inPos) (inAvail - l.ip) = s.d.expected - s.inPos := by omega
      have e := cin_congr s { s with inPos := 0 } l { l with ip := l.ip + (s.d.expected - s.inPos) } _ rfl rfl rfl
      have := cs_inv { s with inPos := 0 } { l with ip := l.ip + (s.d.expected - s.inPos) } (sizeAll pre) (regenAll pre) s.d.expected
        (by rw [e]; dsimp only; omega) (by rw [e]; omega) (by have := fi.out; have := fi.fl (by simp [hss]); dsimp only; omega)
        (fi.fl (by simp [hss])) fi.reg fi.stg rfl fi.hh hhost (by dsimp only; omega) (by omega) (Nat.le_refl _) (fun _ => rfl) (by dsimp only; omega)
      obtain ⟨fi2, hss2, hcur, hfr, hti, hto⟩ := this
      show LInv all _ _ ∧ Bd _ _ T U inAvail outCap
      rw [hld]
      refine ⟨?_, ⟨by dsimp only; omega, hb.op, hti.trans hb.tin, hto.trans hb.tout⟩⟩
      have hI : InFrame all (continueStream { s with inPos := 0 } s.d.expected) { l with ip := l.ip + (s.d.expected - s.inPos) } :=
        ⟨pre, by rw [hcur, hfr]; exact hall, fi2⟩
      unfold LInv
      rcases hss2 with h | h
      · rw [show (continueStream { s with inPos := 0 } s.d.nextSrcSize).ss = .read from h]; exact Or.inl hI
      · rw [show (continueStream { s with inPos := 0 } s.d.nextSrcSize).ss = .flush from h]; exact hI

theorem needed_facts (d : DCtx) (bs : List BlockD) (avail : Nat) (hs : stageOk d bs) :
    (d.nextSrcSizeWithInput avail = 0 ↔ d.expected = 0) ∧
    (d.expected ≠ 0 → 1 ≤ d.nextSrcSizeWithInput avail ∧ d.nextSrcSizeWithInput avail ≤ d.expected ∧
      (¬ rawBlock d → d.nextSrcSizeWithInput avail = d.expected)) := by
  unfold DCtx.nextSrcSizeWithInput rawBlock
  cases hst : d.stage <;> cases hb : d.bType <;> simp [stageOk, hst] at hs ⊢ <;> omega

theorem done_of_frame {s : State} {l : Loc} {fIn fOut : Nat} (fi : FrameInv s l fIn fOut) (he : s.d.expected = 0)
    (hfl : s.outStart = s.outEnd) (hin : s.inPos = 0) : DoneInv s l fIn fOut := by
  obtain ⟨r1, r2, r3⟩ := rem_zero fi.stg he
  have := fi.pos; have := fi.out; have := fi.reg
  exact ⟨by omega, by omega, hfl, he, r3, fi.hh, fi.k he⟩

theorem stRead_ok (all : List FrameD) (T U inAvail outCap : Nat) (s : State) (l : Loc) (hss : s.ss = .read)
    (h : LInv all s l) (hb : Bd s l T U inAvail outCap) : OutOk all T U inAvail outCap (stRead s l inAvail) := by
  unfold LInv at h
  rw [hss] at h
  unfold stRead
  dsimp only
  rcases h with ⟨pre, hall, fi⟩ | ⟨pre, hall, di⟩
  · obtain ⟨n0, nfacts⟩ := needed_facts s.d s.blocks (inAvail - l.ip) fi.stg
    have hin := fi.inp0 (by simp [hss])
    have hfl := fi.fl (by simp [hss])
    split
    · rename_i hz
      have he := n0.1 hz
      have d0 := done_of_frame fi he hfl hin
      exact ⟨⟨pre, hall, ⟨d0.pos, d0.out, d0.fl, d0.ex, d0.st, d0.hh, d0.k⟩⟩, hb.ip, hb.op, hb.tin, hb.tout⟩
    · rename_i hz
      have he : s.d.expected ≠ 0 := fun h => hz (n0.2 h)
      obtain ⟨n1, n2, n3⟩ := nfacts he
      have hhost : s.hostage = false := by
        cases hh : s.hostage with
        | false => rfl
        | true => exact absurd (fi.hd hh) he
      have hip := hb.ip
      split
      · rename_i hav
        have e := cin_congr s s l { l with ip := l.ip + s.d.nextSrcSizeWithInput (inAvail - l.ip) } _ rfl rfl rfl
        have hp := fi.pos; have hl := fi.lo; have ho := fi.out
        obtain ⟨fi2, hss2, hcur, hfr, hti, hto⟩ := cs_inv s { l with ip := l.ip + s.d.nextSrcSizeWithInput (inAvail - l.ip) } (sizeAll pre) (regenAll pre)
          (s.d.nextSrcSizeWithInput (inAvail - l.ip)) (by rw [e]; omega) (by rw [e]; omega) (by dsimp only; omega) hfl fi.reg fi.stg hin fi.hh hhost he n1 n2 n3
          (by dsimp only; omega)
        refine ⟨?_, ⟨by dsimp only; omega, hb.op, hti.trans hb.tin, hto.trans hb.tout⟩⟩
        have hI : InFrame all (continueStream s (s.d.nextSrcSizeWithInput (inAvail - l.ip))) { l with ip := l.ip + s.d.nextSrcSizeWithInput (inAvail - l.ip) } :=
          ⟨pre, by rw [hcur, hfr]; exact hall, fi2⟩
        unfold LInv
        rcases hss2 with h | h
        · rw [h]; exact Or.inl hI
        · rw [h]; exact hI
      · split
        · exact ⟨by simp only [SInv, hss]; exact ⟨⟨pre, hall, fi⟩, he⟩, hb⟩
        · exact stLoad_ok all T U inAvail outCap { s with ss := .load } l rfl
            ⟨pre, hall, ⟨fi.pos, fi.lo, fi.out, fi.ole, fi.reg, fi.stg, fun _ => by dsimp only; omega, fun h => absurd rfl h, fun _ => hfl, fi.hh, fi.hd, fi.k⟩⟩
            ⟨hb.ip, hb.op, hb.tin, hb.tout⟩
  · have hz : s.d.nextSrcSizeWithInput (inAvail - l.ip) = 0 := by
      unfold DCtx.nextSrcSizeWithInput
      rcases di.st with h | h <;> simp [h, di.ex]
    rw [if_pos hz]
    exact ⟨⟨pre, hall, ⟨di.pos, di.out, di.fl, di.ex, di.st, di.hh, di.k⟩⟩, hb.ip, hb.op, hb.tin, hb.tout⟩

theorem stFlush_ok (all : List FrameD) (T U inAvail outCap : Nat) (s : State) (l : Loc) (hss : s.ss = .flush)
    (h : InFrame all s l) (hb : Bd s l T U inAvail outCap) : OutOk all T U inAvail outCap (stFlush s l outCap) := by
  obtain ⟨pre, hall, fi⟩ := h
  have hop := hb.op
  have hole := fi.ole
  have hout := fi.out
  have hin := fi.inp0 (by simp [hss])
  unfold stFlush
  dsimp only
  split
  · rename_i hfl
    split <;> split <;>
    first
    | (refine ⟨Or.inl ⟨pre, hall, ⟨fi.pos, fi.lo, ?_, Nat.le_refl _, fi.reg, fi.stg, (fun h => by cases h), fun _ => hin, fun _ => rfl, fi.hh, fi.hd, fi.k⟩⟩,
        ⟨hb.ip, ?_, hb.tin, hb.tout⟩⟩ <;> dsimp only <;> omega)
    | (refine ⟨Or.inl ⟨pre, hall, ⟨fi.pos, fi.lo, ?_, ?_, fi.reg, fi.stg, (fun h => by cases h), fun _ => hin, fun _ => ?_, fi.hh, fi.hd, fi.k⟩⟩,
        ⟨hb.ip, ?_, hb.tin, hb.tout⟩⟩ <;> dsimp only <;> omega)
  · rename_i hfl
    refine ⟨?_, ⟨hb.ip, by dsimp only; omega, hb.tin, hb.tout⟩⟩
    simp only [SInv, hss]
    refine ⟨⟨pre, hall, ⟨fi.pos, fi.lo, ?_, ?_, fi.reg, fi.stg, (fun h => by cases h), fun _ => hin, fun h => absurd rfl h, fi.hh, fi.hd, fi.k⟩⟩, ?_⟩ <;>
      (try dsimp only) <;> omega

theorem allok_pos {all : List FrameD} (hok : AllOk all) : ∀ g ∈ all, 1 ≤ frameSize g := fun g hg => by
  have := (ok_size (hok g hg)).2.1; omega

/-- a position strictly inside a frame is no frame end -/
theorem not_end_inside {all pre fs : List FrameD} {f : FrameD} (hall : all = pre ++ f :: fs) (hok : AllOk all) (a b : Nat)
    (h1 : sizeAll pre < a) (h2 : a < sizeAll pre + frameSize f) : (a, b) ∉ endsFrom 0 0 all := by
  intro hm
  have hp := allok_pos hok
  rw [hall, endsFrom_append, List.mem_append] at hm
  rcases hm with hm | hm
  · have := endsFrom_bounds 0 0 pre (fun g hg => hp g (by rw [hall]; simp [hg])) a b hm
    omega
  · have := endsFrom_head (0 + sizeAll pre) (0 + regenAll pre) f fs (fun g hg => hp g (by rw [hall]; simp [hg])) a b hm
    omega

/-- the end of a frame is a frame end -/
theorem end_at {all pre fs : List FrameD} {f : FrameD} (hall : all = pre ++ f :: fs) :
    (sizeAll pre + frameSize f, regenAll pre + regenOf f) ∈ endsFrom 0 0 all := by
  rw [hall, endsFrom_append, List.mem_append]
  right
  simp [endsFrom]

theorem regen_le {all pre fs : List FrameD} {f : FrameD} (hall : all = pre ++ f :: fs) :
    regenAll pre + regenOf f ≤ regenAll all := by
  rw [hall, regenAll_append]; simp only [regenAll]; omega

theorem size_le {all pre fs : List FrameD} {f : FrameD} (hall : all = pre ++ f :: fs) :
    sizeAll pre + frameSize f ≤ sizeAll all := by
  rw [hall, sizeAll_append]; simp only [sizeAll]; omega

theorem legal_inside {all pre fs : List FrameD} {f : FrameD} (hall : all = pre ++ f :: fs) (hok : AllOk all)
    (T U inAvail outCap : Nat) (c : CallResult) (hc : c.consumed ≤ inAvail) (hp : c.produced ≤ outCap) (hat : c.producedAt = U)
    (hU : U + c.produced ≤ regenAll all) (hr : c.ret ≠ .hint 0)
    (h1 : sizeAll pre < T + c.consumed) (h2 : T + c.consumed < sizeAll pre + frameSize f) : LegalNum all T U inAvail outCap c :=
  ⟨hc, hp, hat, hU, ⟨fun h => absurd h hr, fun h => absurd h.1 (not_end_inside hall hok _ _ h1 h2)⟩⟩

theorem legal_end {all pre fs : List FrameD} {f : FrameD} (hall : all = pre ++ f :: fs)
    (T U inAvail outCap : Nat) (c : CallResult) (hc : c.consumed ≤ inAvail) (hp : c.produced ≤ outCap) (hat : c.producedAt = U)
    (hr : c.ret = .hint 0) (h1 : T + c.consumed = sizeAll pre + frameSize f) (h2 : U + c.produced = regenAll pre + regenOf f)
    (hprog : 0 < c.consumed ∨ 0 < c.produced) : LegalNum all T U inAvail outCap c :=
  ⟨hc, hp, hat, by have := regen_le hall; omega, ⟨fun _ => ⟨by rw [h1, h2]; exact end_at hall, hprog⟩, fun _ => hr⟩⟩

/-- the return-value computation on a frame that is completely decoded and flushed -/
theorem result_done (all : List FrameD) (hok : AllOk all) (T U inAvail outCap nf : Nat) (s : State) (l : Loc)
    (hss : s.ss = .init) (h : Done all s l) (hb : Bd s l T U inAvail outCap) :
    LegalNum all T U inAvail outCap ⟨(result { s with noFwd := nf } l inAvail).2.1, l.op, U, (result { s with noFwd := nf } l inAvail).2.2⟩ ∧
    Inv all { (result { s with noFwd := nf } l inAvail).1 with
      totalIn := (result { s with noFwd := nf } l inAvail).1.totalIn + (result { s with noFwd := nf } l inAvail).2.1,
      totalOut := (result { s with noFwd := nf } l inAvail).1.totalOut + l.op } := by
  obtain ⟨pre, hall, di⟩ := h
  have hsz := (ok_size (hok s.cur (by rw [hall]; simp))).2.1
  have hpos := di.pos
  have hout := di.out
  have hip := hb.ip
  have htin := hb.tin
  have htout := hb.tout
  have hk := di.k
  have hhh := di.hh
  unfold result
  simp only [DCtx.nextSrcSize, di.ex, di.fl, if_true]
  unfold cin at hpos
  cases hho : s.hostage with
  | false =>
    have hheld : s.held = false := by rw [hhh, hho]
    have := hk hho
    simp only [hheld, Bool.false_eq_true, if_false] at hpos ⊢
    refine ⟨legal_end hall T U inAvail outCap _ (by dsimp only; omega) hb.op rfl rfl (by dsimp only; omega) (by dsimp only; omega) (Or.inl (by dsimp only; omega)), ?_⟩
    simp only [Inv, LInv, hss]
    exact Or.inl ⟨trivial, trivial, pre ++ [s.cur], by rw [hall]; simp, by dsimp only; rw [sizeAll_append]; simp only [sizeAll]; omega,
      by dsimp only; rw [regenAll_append]; simp only [regenAll]; omega, rfl⟩
  | true =>
    have hheld : s.held = true := by rw [hhh, hho]
    simp only [hheld, if_true] at hpos ⊢
    split
    · -- the withheld byte is not offered: still one byte short of the frame end
      refine ⟨legal_inside hall hok T U inAvail outCap _ hip hb.op rfl (by have := regen_le hall; dsimp only; omega) (by simp)
        (by dsimp only; omega) (by dsimp only; omega), ?_⟩
      simp only [Inv, LInv]
      exact Or.inr ⟨pre, hall, ⟨by simp [cin]; omega, by dsimp only; omega, rfl, di.ex, di.st, rfl, fun h => by cases h⟩⟩
    · refine ⟨legal_end hall T U inAvail outCap _ (by dsimp only; omega) hb.op rfl rfl (by dsimp only; omega) (by dsimp only; omega) (Or.inl (by dsimp only; omega)), ?_⟩
      simp only [Inv, LInv, hss]
      exact Or.inl ⟨trivial, trivial, pre ++ [s.cur], by rw [hall]; simp, by dsimp only; rw [sizeAll_append]; simp only [sizeAll]; omega,
        by dsimp only; rw [regenAll_append]; simp only [regenAll]; omega, rfl⟩

/-- **every turn of the loop that starts inside a frame (stages zdss_read / zdss_load / zdss_flush) keeps the invariant**, stays inside
the call's buffers, and leaves the loop only in a state the result computation is specified for -/
theorem micro_inframe_ok (all : List FrameD) (T U inAvail outCap : Nat) (s : State) (l : Loc)
    (hss : s.ss = .read ∨ s.ss = .load ∨ s.ss = .flush) (h : LInv all s l) (hb : Bd s l T U inAvail outCap) :
    OutOk all T U inAvail outCap (micro s l inAvail outCap) := by
  unfold micro
  rcases hss with hss | hss | hss
  · rw [hss]; exact stRead_ok all T U inAvail outCap s l hss h hb
  · rw [hss]; unfold LInv at h; rw [hss] at h; exact stLoad_ok all T U inAvail outCap s l hss h hb
  · rw [hss]; unfold LInv at h; rw [hss] at h; exact stFlush_ok all T U inAvail outCap s l hss h hb

/-- the returns of a run in which every call is offered exactly the previous return value (5 at the start) and `room` bytes of output -/
def hintedRets : Nat → State → Nat → Nat → List Nat
  | 0, _, _, _ => []
  | fuel + 1, s, hint, room =>
    match (step s hint room).2.ret with
    | .err _ => []
    | .hint 0 => [0]
    | .hint n => n :: hintedRets fuel (step s hint room).1 n room

def exFrame : FrameD :=
  { skippable := false, headerSize := 6, blocks := [⟨.raw, 5, 5, false⟩, ⟨.compressed, 10, 20, false⟩, ⟨.rle, 1, 7, true⟩], checksum := true,
    fcs := some 32, windowSize := 1024, blockSizeMax := 1024 }

example : exFrame.ok = true := by decide
example : hintedRets 20 (State.start [exFrame]) 5 1000 = (Stream.hints exFrame.shape).tail ++ [0] := by decide +kernel
example : 5 :: hintedRets 20 (State.start [exFrame]) 5 1000 = [5, 4, 8, 13, 1, 4, 0] := by decide +kernel

/-!
## What is proved above, and what is left (exact statements)

PROVED (no hypothesis beyond the invariant itself):
* `continue_acct` / `block_acct` / `bh_acct` : one `ZSTD_decompressContinue` against the accounting of the frame;
* `cs_inv`, `stRead_ok`, `stLoad_ok`, `stFlush_ok`, `micro_inframe_ok` : every turn of the loop in stages zdss_read / zdss_load /
  zdss_flush keeps `LInv`, stays inside the call's buffers (`Bd`), and leaves the loop only in an `SInv` state;
* `result_done` : on a frame completely decoded and flushed the return-value computation is `LegalNum` (in particular: returns 0
  iff the totals then sit on that frame's end, with progress; the withheld `hostageByte` returns 1 one byte short of it) and
  re-establishes `Inv`;
* `inv_start`, the frame-end list lemmas (`endsFrom_append`, `not_end_inside`, `end_at`), `legal_inside`, `legal_end`.

NOT PROVED (time budget) — the statements the proved pieces are cut for:

  (statement) theorem stLoadHeader_ok (all) (hok : AllOk all) (T U inAvail outCap) (s l) (hss : s.ss = .loadHeader) (h : Hdr all s l)
    (hb : Bd s l T U inAvail outCap) (hlim : T + inAvail ≤ sizeAll all) : OutOk all T U inAvail outCap (stLoadHeader s l inAvail outCap)
  -- cases: hdrShort (direct return, position strictly inside the header of `s.frames.head`), header bytes loaded (`Hdr` again),
  -- singlePass (`Done`), consumeHeader → `InFrame` with rem = blocksSize f.blocks + ckSize f.checksum, then `stRead_ok`.

  (statement) theorem result_inframe (all) (hok : AllOk all) (T U inAvail outCap nf) (s l) (h : SInv all s l) (hss : s.ss ≠ .init)
    (hb : Bd s l T U inAvail outCap) : (same conclusion as `result_done`)
  -- cases: expected ≠ 0 (hint ≠ 0, `legal_inside` with `rem_ge`), expected = 0 with pending output (hostage taken / kept).

  (statement) theorem step_legal (all : List FrameD) (content : List Nat) (hok : AllOk all) (hlen : content.length = regenAll all)
    (s : State) (hinv : Inv all s) (inAvail outCap : Nat) (hlim : s.totalIn + inAvail ≤ sizeAll all)
    (ds : Stream.DState) (hds : ds.consumed = s.totalIn ∧ ds.produced = s.totalOut) :
    Stream.DLegal (specOf all content) ds ((step s inAvail outCap).2.toDCall content inAvail outCap) ∧
    ((∀ e, (step s inAvail outCap).2.ret ≠ .err e) → Inv all (step s inAvail outCap).1)
  -- from `loop` by induction on the fuel with `micro_inframe_ok` + `stLoadHeader_ok`, then `finish` = no-forward-progress
  -- errors (trivially legal: nothing consumed, nothing produced, not 0) or `result_done` / `result_inframe`;
  -- `LegalNum` gives `DLegal` because `(content.drop U).take n` has length `n` when `U + n ≤ content.length`.

  (statement) theorem zero_iff_frame_end : (corollary of step_legal through Props.C02.zero_iff_frameEnd)
    (step s inAvail outCap).2.ret = .hint 0 ↔
      ((s.totalIn + c.consumed, s.totalOut + c.produced) ∈ endsFrom 0 0 all ∧ (0 < c.consumed ∨ 0 < c.produced))

  (statement) theorem progress (hinv : Inv all s) (h : 0 < inAvail ∨ (s.outStart < s.outEnd ∧ 0 < outCap)) :
    let c := (step s inAvail outCap).2
    0 < c.consumed ∨ 0 < c.produced ∨ (∃ e, c.ret = .err e) ∨ (s.held = true ∧ inAvail = 0) ∨ (hostage just taken: consumed = l.ip - 1 = 0)
  -- measure for `no_livelock` with a fixed input: (sizeAll all - totalIn) + (regenAll all - totalOut), strictly decreasing on
  -- every call that is not an error, until `noFwd` reaches ZSTD_NO_FORWARD_PROGRESS_MAX = 16 and the call errors.

  (statement) theorem hint_exact (f : FrameD) (hok : f.ok) (room ≥ f.blockSizeMax) :
    hintedRets (2 * f.blocks.length + 8) (State.start [f]) 5 room = (Stream.hints f.shape).tail ++ [0]
  -- checked by evaluation on `exFrame` above and call by call against the C code by tools/ent_dstream.py (in-size `h`);
  -- with Props.C10.hints_within_frame this gives "never asks for bytes beyond the end of the current frame".

  (statement) theorem ring_keeps_window (between calls, s.ss = .read, s.d.stage = .decodeBlockHeader ∨ a block stage, frame buffered) :
    s.outStart + s.d.blockSizeMax ≤ s.outBuffSize ∨ s.outBuffSize ≥ fcs                      -- room for the next block
    ∧ (s.segEnd ≠ 0 → s.outStart + s.d.blockSizeMax + s.d.windowSize ≤ s.segEnd + s.outStart)  -- i.e. blockSizeMax + windowSize ≤ segEnd:
      -- the `windowSize - outStart` bytes of history still needed from before the restart, [segEnd - (windowSize - outStart), segEnd),
      -- start after the end of the block about to be written, [outStart, outStart + blockSizeMax)
  -- holds because a restart happens only when outStart + blockSizeMax > outBuffSize ≥ windowSize + 2 * blockSizeMax + 64.
-/

end ZstdVerif.DStream
