/-
The deterministic model of `ZSTD_decompressStream` (Model/DStream.lean) refines the streaming specification (Model/Stream.lean).
-/
import ZstdVerif.Model.DStream
import ZstdVerif.Lemmas.StreamSpec
namespace ZstdVerif.DStream
open ZstdVerif.Gen ZstdVerif.Stream

/-! ## sizes of frame lists and the frame-end list -/

def sizeAll : List FrameD → Nat
  | [] => 0
  | f :: fs => frameSize f + sizeAll fs

def regenAll : List FrameD → Nat
  | [] => 0
  | f :: fs => regenOf f + regenAll fs

theorem sizeAll_append (a b : List FrameD) : sizeAll (a ++ b) = sizeAll a + sizeAll b := by
  induction a with
  | nil => simp [sizeAll]
  | cons f fs ih => simp only [List.cons_append, sizeAll, ih]; omega

theorem regenAll_append (a b : List FrameD) : regenAll (a ++ b) = regenAll a + regenAll b := by
  induction a with
  | nil => simp [regenAll]
  | cons f fs ih => simp only [List.cons_append, regenAll, ih]; omega

theorem endsFrom_append (ci co : Nat) (a b : List FrameD) :
    endsFrom ci co (a ++ b) = endsFrom ci co a ++ endsFrom (ci + sizeAll a) (co + regenAll a) b := by
  induction a generalizing ci co with
  | nil => simp [endsFrom, sizeAll, regenAll]
  | cons f fs ih =>
    simp only [List.cons_append, endsFrom, sizeAll, regenAll, ih]
    simp only [Nat.add_assoc]

/-- every frame end lies strictly after the start and not after the end of the list -/
theorem endsFrom_bounds (ci co : Nat) (fs : List FrameD) (hpos : ∀ f ∈ fs, 1 ≤ frameSize f) (a b : Nat)
    (h : (a, b) ∈ endsFrom ci co fs) : ci < a ∧ a ≤ ci + sizeAll fs := by
  induction fs generalizing ci co with
  | nil => simp [endsFrom] at h
  | cons f fs ih =>
    simp only [endsFrom, List.mem_cons, Prod.mk.injEq] at h
    have hf := hpos f (by simp)
    simp only [sizeAll]
    rcases h with ⟨rfl, _⟩ | h
    · omega
    · have := ih (ci + frameSize f) (co + regenOf f) (fun g hg => hpos g (by simp [hg])) h
      omega

/-- an end at the first frame's end offset is the first frame's end -/
theorem endsFrom_head (ci co : Nat) (f : FrameD) (fs : List FrameD) (hpos : ∀ g ∈ fs, 1 ≤ frameSize g) (a b : Nat)
    (h : (a, b) ∈ endsFrom ci co (f :: fs)) : ci + frameSize f ≤ a ∧ (a = ci + frameSize f → b = co + regenOf f) := by
  simp only [endsFrom, List.mem_cons, Prod.mk.injEq] at h
  rcases h with ⟨rfl, rfl⟩ | h
  · exact ⟨Nat.le_refl _, fun _ => rfl⟩
  · have := endsFrom_bounds _ _ fs hpos a b h
    omega

/-! ## validity facts -/

theorem lastOk_ne_nil {bs : List BlockD} (h : lastOk bs = true) : bs ≠ [] := by
  cases bs with
  | nil => simp [lastOk] at h
  | cons b r => simp

theorem blocksSize_pos {bs : List BlockD} (h : bs ≠ []) : 3 ≤ blocksSize bs := by
  cases bs with
  | nil => exact absurd rfl h
  | cons b r => simp only [blocksSize, ZSTD_blockHeaderSize]; omega

/-- raw blocks regenerate exactly their body -/
def rawOk (bs : List BlockD) : Prop := ∀ b ∈ bs, (b.ty = .raw → b.regen = b.cSize) ∧ (b.cSize = 0 → b.regen = 0)

theorem ok_zstd {f : FrameD} (h : f.ok = true) (hs : f.skippable = false) :
    6 ≤ f.headerSize ∧ lastOk f.blocks = true ∧ rawOk f.blocks ∧ (∀ n, f.fcs = some n → n = regenOf f) := by
  simp only [FrameD.ok, hs, Bool.false_eq_true, if_false, Bool.and_eq_true, decide_eq_true_eq, ZSTD_FRAMEHEADERSIZE_MIN,
    List.all_eq_true] at h
  obtain ⟨⟨⟨⟨⟨h1, h2⟩, h3⟩, h4⟩, _⟩, _⟩ := h
  refine ⟨of_decide_eq_true h1, h2, ?_, ?_⟩
  · intro b hb
    have := h3 b hb
    simp only [BlockD.ok, Bool.and_eq_true, decide_eq_true_eq] at this
    cases hty : b.ty <;> simp only [hty, decide_eq_true_eq] at this <;> simp <;> omega
  · intro n hn
    rw [hn] at h4
    simpa using h4

theorem ok_skip {f : FrameD} (h : f.ok = true) (hs : f.skippable = true) :
    f.headerSize = 8 ∧ f.blocks = [] ∧ f.fcs = some f.payload ∧ f.checksum = false := by
  simp only [FrameD.ok, hs, if_true, Bool.and_eq_true, decide_eq_true_eq, ZSTD_SKIPPABLEHEADERSIZE, List.isEmpty_iff,
    Bool.not_eq_true'] at h
  obtain ⟨⟨⟨⟨⟨h1, h2⟩, h3⟩, h4⟩, _⟩, _⟩ := h
  exact ⟨of_decide_eq_true h1, h2, h3, h4⟩

/-- the header lies inside the frame, and a frame holds at least 8 bytes -/
theorem ok_size {f : FrameD} (h : f.ok = true) : f.headerSize ≤ frameSize f ∧ 8 ≤ frameSize f ∧ 6 ≤ f.headerSize := by
  cases hs : f.skippable with
  | true =>
    obtain ⟨h1, _, _, _⟩ := ok_skip h hs
    simp only [frameSize, hs, if_true, ZSTD_SKIPPABLEHEADERSIZE, h1]; omega
  | false =>
    obtain ⟨h1, h2, _, _⟩ := ok_zstd h hs
    have := blocksSize_pos (lastOk_ne_nil h2)
    simp only [frameSize, hs, Bool.false_eq_true, if_false]; omega

/-! ## the invariant -/

/-- bytes of the current frame the decoder has still to take, counted from the start of the stage in progress -/
def rem (d : DCtx) (bs : List BlockD) : Nat :=
  match d.stage with
  | .decodeBlockHeader => blocksSize bs + ckSize d.checksum
  | .decompressBlock => d.expected + blocksSize bs + ckSize d.checksum
  | .decompressLastBlock => d.expected + ckSize d.checksum
  | .checkChecksum => 4
  | .skipFrame => d.expected
  | _ => 0

/-- what the rest of the block in progress regenerates -/
def curOut (d : DCtx) : Nat :=
  match d.bType with
  | .raw => d.expected
  | _ => d.curRegen

/-- content of the current frame not decoded yet -/
def remRegen (d : DCtx) (bs : List BlockD) : Nat :=
  match d.stage with
  | .decodeBlockHeader => blocksRegen bs
  | .decompressBlock => curOut d + blocksRegen bs
  | .decompressLastBlock => curOut d
  | _ => 0

def stageOk (d : DCtx) (bs : List BlockD) : Prop :=
  match d.stage with
  | .decodeBlockHeader => d.expected = 3 ∧ lastOk bs = true ∧ rawOk bs
  | .decompressBlock => 1 ≤ d.expected ∧ lastOk bs = true ∧ rawOk bs
  | .decompressLastBlock => 1 ≤ d.expected ∧ bs = []
  | .checkChecksum => d.expected = 4 ∧ bs = []
  | .skipFrame => True
  | .getFrameHeaderSize => d.expected = 0
  | _ => False

/-- the decoder's absolute input position: what the caller was told plus a withheld byte plus this call's advance -/
def cin (s : State) (l : Loc) : Nat := s.totalIn + (if s.held then 1 else 0) + l.ip

/-- inside frame `s.cur`, which starts at `(fIn, fOut)` -/
structure FrameInv (s : State) (l : Loc) (fIn fOut : Nat) : Prop where
  pos : cin s l + rem s.d s.blocks = fIn + frameSize s.cur + s.inPos
  lo : fIn + 2 ≤ cin s l
  out : s.totalOut + l.op + (s.outEnd - s.outStart) = fOut + s.d.decodedSize
  ole : s.outStart ≤ s.outEnd
  reg : s.d.decodedSize + remRegen s.d s.blocks = regenOf s.cur
  stg : stageOk s.d s.blocks
  inp1 : s.ss = .load → s.inPos < s.d.expected
  inp0 : s.ss ≠ .load → s.inPos = 0
  fl : s.ss ≠ .flush → s.outStart = s.outEnd
  hh : s.held = s.hostage
  hd : s.hostage = true → s.d.expected = 0
  k : s.d.expected = 0 → s.hostage = false → 1 ≤ l.ip

/-- frame `s.cur` completely decoded and flushed -/
structure DoneInv (s : State) (l : Loc) (fIn fOut : Nat) : Prop where
  pos : cin s l = fIn + frameSize s.cur
  out : s.totalOut + l.op = fOut + regenOf s.cur
  fl : s.outStart = s.outEnd
  ex : s.d.expected = 0
  st : s.d.stage = .getFrameHeaderSize ∨ s.d.stage = .skipFrame
  hh : s.held = s.hostage
  k : s.hostage = false → 1 ≤ l.ip

def InFrame (all : List FrameD) (s : State) (l : Loc) : Prop :=
  ∃ pre, all = pre ++ s.cur :: s.frames ∧ FrameInv s l (sizeAll pre) (regenAll pre)

def Done (all : List FrameD) (s : State) (l : Loc) : Prop :=
  ∃ pre, all = pre ++ s.cur :: s.frames ∧ DoneInv s l (sizeAll pre) (regenAll pre)

/-- between frames, nothing of the next header taken yet -/
def Fresh (all : List FrameD) (s : State) : Prop :=
  ∃ pre, all = pre ++ s.frames ∧ s.totalIn = sizeAll pre ∧ s.totalOut = regenAll pre ∧ s.held = false

/-- loading the header of the head of `s.frames` -/
def Hdr (all : List FrameD) (s : State) (l : Loc) : Prop :=
  ∃ pre, all = pre ++ s.frames ∧ s.totalIn + l.ip = sizeAll pre + s.lhSize ∧ s.totalOut = regenAll pre ∧ l.op = 0 ∧ l.ip ≤ s.lhSize ∧
    s.held = false ∧ s.hostage = false ∧ s.outStart = s.outEnd ∧ s.inPos = 0 ∧
    (∀ f, s.frames.head? = some f → s.lhSize ≤ f.headerSize) ∧
    (hdrNeed s.frames.head? s.lhSize = 0 → 1 ≤ l.ip)

/-- the invariant inside a call, at position `l` -/
def LInv (all : List FrameD) (s : State) (l : Loc) : Prop :=
  match s.ss with
  | .init => l.ip = 0 ∧ l.op = 0 ∧ Fresh all s
  | .loadHeader => Hdr all s l
  | .read => InFrame all s l ∨ Done all s l
  | .load => InFrame all s l
  | .flush => InFrame all s l

/-- what holds when the loop is left with `someMoreWork = 0` -/
def SInv (all : List FrameD) (s : State) (l : Loc) : Prop :=
  match s.ss with
  | .init => Done all s l
  | .loadHeader => False
  | .read => InFrame all s l ∧ s.d.expected ≠ 0
  | .load => InFrame all s l
  | .flush => InFrame all s l ∧ s.outStart < s.outEnd

/-- **the invariant between calls** -/
def Inv (all : List FrameD) (s : State) : Prop := LInv all s {}

def AllOk (all : List FrameD) : Prop := ∀ f ∈ all, f.ok = true

theorem inv_start (all : List FrameD) : Inv all (State.start all) :=
  ⟨rfl, rfl, [], rfl, rfl, rfl, rfl⟩

/-! ## the stage machine against the accounting -/

theorem rem_ge {d : DCtx} {bs : List BlockD} (h : stageOk d bs) : d.expected ≤ rem d bs := by
  unfold stageOk at h
  unfold rem
  split at h <;> simp_all <;> try omega
  have := blocksSize_pos (lastOk_ne_nil h.2.1)
  omega

theorem rem_zero {d : DCtx} {bs : List BlockD} (h : stageOk d bs) (he : d.expected = 0) :
    rem d bs = 0 ∧ remRegen d bs = 0 ∧ (d.stage = .getFrameHeaderSize ∨ d.stage = .skipFrame) := by
  unfold stageOk at h
  unfold rem remRegen
  split at h <;> simp_all

def rawBlock (d : DCtx) : Prop := (d.stage = .decompressBlock ∨ d.stage = .decompressLastBlock) ∧ d.bType = .raw

theorem block_acct (d : DCtx) (bs : List BlockD) (n : Nat) (hb : d.stage = .decompressBlock ∨ d.stage = .decompressLastBlock)
    (hs : stageOk d bs) (_h1 : 1 ≤ n) (h2 : n ≤ d.expected) (hfull : d.bType ≠ .raw → n = d.expected) :
    rem (d.stDecompressBlock n).1 bs + n = rem d bs ∧ (d.stDecompressBlock n).1.decodedSize = d.decodedSize + (d.stDecompressBlock n).2 ∧
    remRegen (d.stDecompressBlock n).1 bs + (d.stDecompressBlock n).2 = remRegen d bs ∧ stageOk (d.stDecompressBlock n).1 bs := by
  obtain ⟨stage, expected, bType, curRegen, decodedSize, headerSize, fcs, checksum, bsm, ws⟩ := d
  simp only at hb h2 hfull
  have hne := lastOk_ne_nil (bs := bs)
  have hbs := blocksSize_pos (bs := bs)
  rcases hb with rfl | rfl <;> cases bType <;> cases checksum <;> by_cases hpos : expected - n > 0 <;>
    simp [DCtx.stDecompressBlock, DCtx.blockOut, DCtx.endOfBlocks, stageOk, rem, remRegen, curOut, hpos, ZSTD_blockHeaderSize, ckSize] at hs hfull ⊢ <;>
    (try omega) <;> (repeat' apply And.intro) <;> (first | omega | exact hs.2.1 | exact hs.2.2 | exact hs.2)

theorem lastOk_cons {b : BlockD} {rest : List BlockD} (h : lastOk (b :: rest) = true) :
    (b.last = true → rest = []) ∧ (b.last = false → lastOk rest = true ∧ rest ≠ []) := by
  cases rest with
  | nil => simp [lastOk] at h; simp [h]
  | cons r rs => simp [lastOk] at h; simp [h]

theorem bh_acct (d : DCtx) (b : BlockD) (rest : List BlockD) (hst : d.stage = .decodeBlockHeader) (hs : stageOk d (b :: rest)) :
    rem (d.stDecodeBlockHeader b).1 rest + 3 = rem d (b :: rest) ∧ (d.stDecodeBlockHeader b).1.decodedSize = d.decodedSize ∧
    (d.stDecodeBlockHeader b).2 = 0 ∧ remRegen (d.stDecodeBlockHeader b).1 rest = remRegen d (b :: rest) ∧
    stageOk (d.stDecodeBlockHeader b).1 rest := by
  obtain ⟨stage, expected, bType, curRegen, decodedSize, headerSize, fcs, checksum, bsm, ws⟩ := d
  simp only at hst
  subst hst
  simp only [stageOk] at hs
  obtain ⟨_, hl, hr⟩ := hs
  obtain ⟨hl1, hl2⟩ := lastOk_cons hl
  have hrb := hr b (by simp)
  have hrr : rawOk rest := fun x hx => hr x (by simp [hx])
  obtain ⟨bty, bc, bg, bl⟩ := b
  simp only at hl1 hl2 hrb
  by_cases hc : bc = 0 <;> cases bl <;> cases checksum <;> cases bty <;>
    simp [DCtx.stDecodeBlockHeader, DCtx.endOfBlocks, stageOk, rem, remRegen, curOut, hc, ZSTD_blockHeaderSize, ckSize, blocksSize, blocksRegen] at hl1 hl2 hrb ⊢ <;>
    (try omega) <;> (repeat' apply And.intro) <;> (first | omega | exact hrr | exact hl2.1 | exact hl2 | exact hl1 | exact hrb | exact hrb.symm | (simp [hl1, blocksSize, blocksRegen]; try omega))

/-- one `ZSTD_decompressContinue` against the accounting of the frame: `n` more input bytes are behind the decoder, what it wrote
is accounted for as decoded, the stage reached is well formed -/
theorem continue_acct (d : DCtx) (bs : List BlockD) (f : FrameD) (n : Nat)
    (hs : stageOk d bs) (he : d.expected ≠ 0) (h1 : 1 ≤ n) (h2 : n ≤ d.expected) (hfull : ¬ rawBlock d → n = d.expected) :
    rem (d.continue f (bs.head?.getD default) n).1 (if d.stage == .decodeBlockHeader then bs.tail else bs) + n = rem d bs ∧
    (d.continue f (bs.head?.getD default) n).1.decodedSize = d.decodedSize + (d.continue f (bs.head?.getD default) n).2 ∧
    remRegen (d.continue f (bs.head?.getD default) n).1 (if d.stage == .decodeBlockHeader then bs.tail else bs) +
      (d.continue f (bs.head?.getD default) n).2 = remRegen d bs ∧
    stageOk (d.continue f (bs.head?.getD default) n).1 (if d.stage == .decodeBlockHeader then bs.tail else bs) := by
  cases hst : d.stage with
  | getFrameHeaderSize => simp only [stageOk, hst] at hs; exact absurd hs he
  | decodeFrameHeader => simp only [stageOk, hst] at hs
  | decodeSkippableHeader => simp only [stageOk, hst] at hs
  | decodeBlockHeader =>
    have hs0 := hs
    simp only [stageOk, hst] at hs0
    have hn : n = 3 := by
      have := hfull (by simp [rawBlock, hst])
      omega
    cases bs with
    | nil => exact absurd rfl (lastOk_ne_nil hs0.2.1)
    | cons b rest =>
      have := bh_acct d b rest hst hs
      simp only [DCtx.continue, hst, List.head?_cons, Option.getD_some, beq_self_eq_true, if_true, List.tail_cons, hn]
      obtain ⟨a1, a2, a3, a4, a5⟩ := this
      exact ⟨a1, by omega, by omega, a5⟩
  | decompressBlock =>
    have := block_acct d bs n (Or.inl hst) hs h1 h2 (fun hr => hfull (fun hb => hr hb.2))
    simpa only [DCtx.continue, hst, reduceCtorEq, beq_iff_eq, if_false] using this
  | decompressLastBlock =>
    have := block_acct d bs n (Or.inr hst) hs h1 h2 (fun hr => hfull (fun hb => hr hb.2))
    simpa only [DCtx.continue, hst, reduceCtorEq, beq_iff_eq, if_false] using this
  | checkChecksum =>
    have hs0 := hs
    simp only [stageOk, hst] at hs0
    have hn : n = 4 := by
      have := hfull (by simp [rawBlock, hst])
      omega
    simp [DCtx.continue, hst, rem, remRegen, stageOk, hn]
  | skipFrame =>
    have hn : n = d.expected := hfull (by simp [rawBlock, hst])
    simp [DCtx.continue, hst, rem, remRegen, stageOk, hn]

theorem cs_inv (s : State) (l2 : Loc) (fIn fOut n : Nat)
    (hpos : cin s l2 + rem s.d s.blocks = fIn + frameSize s.cur + n)
    (hlo : fIn + 2 ≤ cin s l2) (hout : s.totalOut + l2.op = fOut + s.d.decodedSize) (hfl : s.outStart = s.outEnd)
    (hreg : s.d.decodedSize + remRegen s.d s.blocks = regenOf s.cur) (hstg : stageOk s.d s.blocks)
    (hin : s.inPos = 0) (hh : s.held = s.hostage) (hhost : s.hostage = false)
    (he : s.d.expected ≠ 0) (h1 : 1 ≤ n) (h2 : n ≤ s.d.expected) (hfull : ¬ rawBlock s.d → n = s.d.expected) (hip : 1 ≤ l2.ip) :
    FrameInv (continueStream s n) l2 fIn fOut ∧ ((continueStream s n).ss = .read ∨ (continueStream s n).ss = .flush) ∧
    (continueStream s n).cur = s.cur ∧ (continueStream s n).frames = s.frames ∧ (continueStream s n).totalIn = s.totalIn ∧
    (continueStream s n).totalOut = s.totalOut := by
  obtain ⟨a1, a2, a3, a4⟩ := continue_acct s.d s.blocks s.cur n hstg he h1 h2 hfull
  unfold continueStream
  simp only
  split
  · rename_i hc
    have hdec : (s.d.continue s.cur (s.blocks.head?.getD default) n).2 = 0 := by
      simp only [Bool.and_eq_true, decide_eq_true_eq] at hc; exact hc.1
    refine ⟨⟨?_, ?_, ?_, ?_, ?_, ?_, ?_, ?_, ?_, ?_, ?_, ?_⟩, Or.inl rfl, rfl, rfl, rfl, rfl⟩ <;> simp only [cin] at * <;>
      first | omega | assumption | (intro h; cases h) | (intros; assumption) | (intro h; simp [hhost] at h)
  · refine ⟨⟨?_, ?_, ?_, ?_, ?_, ?_, ?_, ?_, ?_, ?_, ?_, ?_⟩, Or.inr rfl, rfl, rfl, rfl, rfl⟩ <;> simp only [cin] at * <;>
      first | omega | assumption | (intro h; cases h) | (intros; assumption) | (intro h; simp [hhost] at h) | (intro h; exact absurd rfl h)

/-- the numeric content of `Stream.DLegal` for one observed call, the spec state being at `(T, U)` -/
def LegalNum (all : List FrameD) (T U inAvail outCap : Nat) (c : CallResult) : Prop :=
  c.consumed ≤ inAvail ∧ c.produced ≤ outCap ∧ c.producedAt = U ∧ U + c.produced ≤ regenAll all ∧
  (c.ret = .hint 0 ↔ ((T + c.consumed, U + c.produced) ∈ endsFrom 0 0 all ∧ (0 < c.consumed ∨ 0 < c.produced)))

/-- bounds and ghost totals carried through the loop of one call -/
structure Bd (s : State) (l : Loc) (T U inAvail outCap : Nat) : Prop where
  ip : l.ip ≤ inAvail
  op : l.op ≤ outCap
  tin : s.totalIn = T
  tout : s.totalOut = U

def RetOk (all : List FrameD) (T U inAvail outCap : Nat) (s : State) (c : Nat) (r : Ret) : Prop :=
  (∃ e, r = .err e ∧ c = 0 ∧ s.totalOut = U) ∨
  (LegalNum all T U inAvail outCap ⟨c, 0, U, r⟩ ∧ Inv all { s with totalIn := s.totalIn + c } ∧ s.totalIn = T ∧ s.totalOut = U)

def OutOk (all : List FrameD) (T U inAvail outCap : Nat) : Out → Prop
  | .cont s l => LInv all s l ∧ Bd s l T U inAvail outCap
  | .stop s l => SInv all s l ∧ Bd s l T U inAvail outCap
  | .ret s c r => RetOk all T U inAvail outCap s c r

theorem cin_congr (s s2 : State) (l l2 : Loc) (k : Nat) (h1 : s2.totalIn = s.totalIn) (h2 : s2.held = s.held) (h3 : l2.ip = l.ip + k) :
    cin s2 l2 = cin s l + k := by
  simp only [cin, h1, h2, h3]; omega

theorem stLoad_ok (all : List FrameD) (T U inAvail outCap : Nat) (s : State) (l : Loc) (hss : s.ss = .load)
    (h : InFrame all s l) (hb : Bd s l T U inAvail outCap) : OutOk all T U inAvail outCap (stLoad s l inAvail) := by
  obtain ⟨pre, hall, fi⟩ := h
  have hip := hb.ip
  have hlt := fi.inp1 hss
  have hpos := fi.pos
  have hlo := fi.lo
  have hhost : s.hostage = false := by
    cases hh : s.hostage with
    | false => rfl
    | true => have := fi.hd hh; omega
  unfold stLoad
  have hn : s.d.nextSrcSize = s.d.expected := rfl
  dsimp only
  split
  · exact Or.inl ⟨_, rfl, rfl, hb.tout⟩
  · split
    · -- not enough input: stays in zdss_load
      rename_i hl
      refine ⟨?_, ⟨?_, hb.op, hb.tin, hb.tout⟩⟩
      · simp only [SInv, hss]
        refine ⟨pre, hall, ⟨?_, ?_, ?_, ?_, ?_, ?_, ?_, ?_, ?_, ?_, ?_, ?_⟩⟩ <;> dsimp only [cin] at * <;>
          first | omega | exact fi.out | exact fi.ole | exact fi.reg | exact fi.stg | exact fi.fl | exact fi.hh | exact fi.hd | (intro h; exact absurd rfl h) | (intro _; exact fi.fl (by simp [hss]))
      · dsimp only; omega
    · rename_i hl
      have hld : min (s.d.nextSrcSize - s.inPos) (inAvail - l.ip) = s.d.expected - s.inPos := by omega
      have e := cin_congr s { s with inPos := 0 } l { l with ip := l.ip + (s.d.expected - s.inPos) } _ rfl rfl rfl
      have := cs_inv { s with inPos := 0 } { l with ip := l.ip + (s.d.expected - s.inPos) } (sizeAll pre) (regenAll pre) s.d.expected
        (by rw [e]; dsimp only; omega) (by rw [e]; omega) (by have := fi.out; have := fi.fl (by simp [hss]); dsimp only; omega)
        (fi.fl (by simp [hss])) fi.reg fi.stg rfl fi.hh hhost (by dsimp only; omega) (by omega) (Nat.le_refl _) (fun _ => rfl) (by dsimp only; omega)
      obtain ⟨fi2, hss2, hcur, hfr, hti, hto⟩ := this
      show LInv all _ _ ∧ Bd _ _ T U inAvail outCap
      rw [hld]
      refine ⟨?_, ⟨by dsimp only; omega, hb.op, hti.trans hb.tin, hto.trans hb.tout⟩⟩
      have hI : InFrame all (continueStream { s with inPos := 0 } s.d.expected) { l with ip := l.ip + (s.d.expected - s.inPos) } :=
        ⟨pre, by rw [hcur, hfr]; exact hall, fi2⟩
      unfold LInv
      rcases hss2 with h | h
      · rw [show (continueStream { s with inPos := 0 } s.d.nextSrcSize).ss = .read from h]; exact Or.inl hI
      · rw [show (continueStream { s with inPos := 0 } s.d.nextSrcSize).ss = .flush from h]; exact hI

theorem needed_facts (d : DCtx) (bs : List BlockD) (avail : Nat) (hs : stageOk d bs) :
    (d.nextSrcSizeWithInput avail = 0 ↔ d.expected = 0) ∧
    (d.expected ≠ 0 → 1 ≤ d.nextSrcSizeWithInput avail ∧ d.nextSrcSizeWithInput avail ≤ d.expected ∧
      (¬ rawBlock d → d.nextSrcSizeWithInput avail = d.expected)) := by
  unfold DCtx.nextSrcSizeWithInput rawBlock
  cases hst : d.stage <;> cases hb : d.bType <;> simp [stageOk, hst] at hs ⊢ <;> omega

theorem done_of_frame {s : State} {l : Loc} {fIn fOut : Nat} (fi : FrameInv s l fIn fOut) (he : s.d.expected = 0)
    (hfl : s.outStart = s.outEnd) (hin : s.inPos = 0) : DoneInv s l fIn fOut := by
  obtain ⟨r1, r2, r3⟩ := rem_zero fi.stg he
  have := fi.pos; have := fi.out; have := fi.reg
  exact ⟨by omega, by omega, hfl, he, r3, fi.hh, fi.k he⟩

theorem stRead_ok (all : List FrameD) (T U inAvail outCap : Nat) (s : State) (l : Loc) (hss : s.ss = .read)
    (h : LInv all s l) (hb : Bd s l T U inAvail outCap) : OutOk all T U inAvail outCap (stRead s l inAvail) := by
  unfold LInv at h
  rw [hss] at h
  unfold stRead
  dsimp only
  rcases h with ⟨pre, hall, fi⟩ | ⟨pre, hall, di⟩
  · obtain ⟨n0, nfacts⟩ := needed_facts s.d s.blocks (inAvail - l.ip) fi.stg
    have hin := fi.inp0 (by simp [hss])
    have hfl := fi.fl (by simp [hss])
    split
    · rename_i hz
      have he := n0.1 hz
      have d0 := done_of_frame fi he hfl hin
      exact ⟨⟨pre, hall, ⟨d0.pos, d0.out, d0.fl, d0.ex, d0.st, d0.hh, d0.k⟩⟩, hb.ip, hb.op, hb.tin, hb.tout⟩
    · rename_i hz
      have he : s.d.expected ≠ 0 := fun h => hz (n0.2 h)
      obtain ⟨n1, n2, n3⟩ := nfacts he
      have hhost : s.hostage = false := by
        cases hh : s.hostage with
        | false => rfl
        | true => exact absurd (fi.hd hh) he
      have hip := hb.ip
      split
      · rename_i hav
        have e := cin_congr s s l { l with ip := l.ip + s.d.nextSrcSizeWithInput (inAvail - l.ip) } _ rfl rfl rfl
        have hp := fi.pos; have hl := fi.lo; have ho := fi.out
        obtain ⟨fi2, hss2, hcur, hfr, hti, hto⟩ := cs_inv s { l with ip := l.ip + s.d.nextSrcSizeWithInput (inAvail - l.ip) } (sizeAll pre) (regenAll pre)
          (s.d.nextSrcSizeWithInput (inAvail - l.ip)) (by rw [e]; omega) (by rw [e]; omega) (by dsimp only; omega) hfl fi.reg fi.stg hin fi.hh hhost he n1 n2 n3
          (by dsimp only; omega)
        refine ⟨?_, ⟨by dsimp only; omega, hb.op, hti.trans hb.tin, hto.trans hb.tout⟩⟩
        have hI : InFrame all (continueStream s (s.d.nextSrcSizeWithInput (inAvail - l.ip))) { l with ip := l.ip + s.d.nextSrcSizeWithInput (inAvail - l.ip) } :=
          ⟨pre, by rw [hcur, hfr]; exact hall, fi2⟩
        unfold LInv
        rcases hss2 with h | h
        · rw [h]; exact Or.inl hI
        · rw [h]; exact hI
      · split
        · exact ⟨by simp only [SInv, hss]; exact ⟨⟨pre, hall, fi⟩, he⟩, hb⟩
        · exact stLoad_ok all T U inAvail outCap { s with ss := .load } l rfl
            ⟨pre, hall, ⟨fi.pos, fi.lo, fi.out, fi.ole, fi.reg, fi.stg, fun _ => by dsimp only; omega, fun h => absurd rfl h, fun _ => hfl, fi.hh, fi.hd, fi.k⟩⟩
            ⟨hb.ip, hb.op, hb.tin, hb.tout⟩
  · have hz : s.d.nextSrcSizeWithInput (inAvail - l.ip) = 0 := by
      unfold DCtx.nextSrcSizeWithInput
      rcases di.st with h | h <;> simp [h, di.ex]
    rw [if_pos hz]
    exact ⟨⟨pre, hall, ⟨di.pos, di.out, di.fl, di.ex, di.st, di.hh, di.k⟩⟩, hb.ip, hb.op, hb.tin, hb.tout⟩

theorem stFlush_ok (all : List FrameD) (T U inAvail outCap : Nat) (s : State) (l : Loc) (hss : s.ss = .flush)
    (h : InFrame all s l) (hb : Bd s l T U inAvail outCap) : OutOk all T U inAvail outCap (stFlush s l outCap) := by
  obtain ⟨pre, hall, fi⟩ := h
  have hop := hb.op
  have hole := fi.ole
  have hout := fi.out
  have hin := fi.inp0 (by simp [hss])
  unfold stFlush
  dsimp only
  split
  · rename_i hfl
    split <;> split <;>
    first
    | (refine ⟨Or.inl ⟨pre, hall, ⟨fi.pos, fi.lo, ?_, Nat.le_refl _, fi.reg, fi.stg, (fun h => by cases h), fun _ => hin, fun _ => rfl, fi.hh, fi.hd, fi.k⟩⟩,
        ⟨hb.ip, ?_, hb.tin, hb.tout⟩⟩ <;> dsimp only <;> omega)
    | (refine ⟨Or.inl ⟨pre, hall, ⟨fi.pos, fi.lo, ?_, ?_, fi.reg, fi.stg, (fun h => by cases h), fun _ => hin, fun _ => ?_, fi.hh, fi.hd, fi.k⟩⟩,
        ⟨hb.ip, ?_, hb.tin, hb.tout⟩⟩ <;> dsimp only <;> omega)
  · rename_i hfl
    refine ⟨?_, ⟨hb.ip, by dsimp only; omega, hb.tin, hb.tout⟩⟩
    simp only [SInv, hss]
    refine ⟨⟨pre, hall, ⟨fi.pos, fi.lo, ?_, ?_, fi.reg, fi.stg, (fun h => by cases h), fun _ => hin, fun h => absurd rfl h, fi.hh, fi.hd, fi.k⟩⟩, ?_⟩ <;>
      (try dsimp only) <;> omega

theorem allok_pos {all : List FrameD} (hok : AllOk all) : ∀ g ∈ all, 1 ≤ frameSize g := fun g hg => by
  have := (ok_size (hok g hg)).2.1; omega

/-- a position strictly inside a frame is no frame end -/
theorem not_end_inside {all pre fs : List FrameD} {f : FrameD} (hall : all = pre ++ f :: fs) (hok : AllOk all) (a b : Nat)
    (h1 : sizeAll pre < a) (h2 : a < sizeAll pre + frameSize f) : (a, b) ∉ endsFrom 0 0 all := by
  intro hm
  have hp := allok_pos hok
  rw [hall, endsFrom_append, List.mem_append] at hm
  rcases hm with hm | hm
  · have := endsFrom_bounds 0 0 pre (fun g hg => hp g (by rw [hall]; simp [hg])) a b hm
    omega
  · have := endsFrom_head (0 + sizeAll pre) (0 + regenAll pre) f fs (fun g hg => hp g (by rw [hall]; simp [hg])) a b hm
    omega

/-- the end of a frame is a frame end -/
theorem end_at {all pre fs : List FrameD} {f : FrameD} (hall : all = pre ++ f :: fs) :
    (sizeAll pre + frameSize f, regenAll pre + regenOf f) ∈ endsFrom 0 0 all := by
  rw [hall, endsFrom_append, List.mem_append]
  right
  simp [endsFrom]

theorem regen_le {all pre fs : List FrameD} {f : FrameD} (hall : all = pre ++ f :: fs) :
    regenAll pre + regenOf f ≤ regenAll all := by
  rw [hall, regenAll_append]; simp only [regenAll]; omega

theorem size_le {all pre fs : List FrameD} {f : FrameD} (hall : all = pre ++ f :: fs) :
    sizeAll pre + frameSize f ≤ sizeAll all := by
  rw [hall, sizeAll_append]; simp only [sizeAll]; omega

theorem legal_inside {all pre fs : List FrameD} {f : FrameD} (hall : all = pre ++ f :: fs) (hok : AllOk all)
    (T U inAvail outCap : Nat) (c : CallResult) (hc : c.consumed ≤ inAvail) (hp : c.produced ≤ outCap) (hat : c.producedAt = U)
    (hU : U + c.produced ≤ regenAll all) (hr : c.ret ≠ .hint 0)
    (h1 : sizeAll pre < T + c.consumed) (h2 : T + c.consumed < sizeAll pre + frameSize f) : LegalNum all T U inAvail outCap c :=
  ⟨hc, hp, hat, hU, ⟨fun h => absurd h hr, fun h => absurd h.1 (not_end_inside hall hok _ _ h1 h2)⟩⟩

theorem legal_end {all pre fs : List FrameD} {f : FrameD} (hall : all = pre ++ f :: fs)
    (T U inAvail outCap : Nat) (c : CallResult) (hc : c.consumed ≤ inAvail) (hp : c.produced ≤ outCap) (hat : c.producedAt = U)
    (hr : c.ret = .hint 0) (h1 : T + c.consumed = sizeAll pre + frameSize f) (h2 : U + c.produced = regenAll pre + regenOf f)
    (hprog : 0 < c.consumed ∨ 0 < c.produced) : LegalNum all T U inAvail outCap c :=
  ⟨hc, hp, hat, by have := regen_le hall; omega, ⟨fun _ => ⟨by rw [h1, h2]; exact end_at hall, hprog⟩, fun _ => hr⟩⟩

/-- the return-value computation on a frame that is completely decoded and flushed -/
theorem result_done (all : List FrameD) (hok : AllOk all) (T U inAvail outCap nf : Nat) (s : State) (l : Loc)
    (hss : s.ss = .init) (h : Done all s l) (hb : Bd s l T U inAvail outCap) :
    LegalNum all T U inAvail outCap ⟨(result { s with noFwd := nf } l inAvail).2.1, l.op, U, (result { s with noFwd := nf } l inAvail).2.2⟩ ∧
    Inv all { (result { s with noFwd := nf } l inAvail).1 with
      totalIn := (result { s with noFwd := nf } l inAvail).1.totalIn + (result { s with noFwd := nf } l inAvail).2.1,
      totalOut := (result { s with noFwd := nf } l inAvail).1.totalOut + l.op } := by
  obtain ⟨pre, hall, di⟩ := h
  have hsz := (ok_size (hok s.cur (by rw [hall]; simp))).2.1
  have hpos := di.pos
  have hout := di.out
  have hip := hb.ip
  have htin := hb.tin
  have htout := hb.tout
  have hk := di.k
  have hhh := di.hh
  unfold result
  simp only [DCtx.nextSrcSize, di.ex, di.fl, if_true]
  unfold cin at hpos
  cases hho : s.hostage with
  | false =>
    have hheld : s.held = false := by rw [hhh, hho]
    have := hk hho
    simp only [hheld, Bool.false_eq_true, if_false] at hpos ⊢
    refine ⟨legal_end hall T U inAvail outCap _ (by dsimp only; omega) hb.op rfl rfl (by dsimp only; omega) (by dsimp only; omega) (Or.inl (by dsimp only; omega)), ?_⟩
    simp only [Inv, LInv, hss]
    exact ⟨trivial, trivial, pre ++ [s.cur], by rw [hall]; simp, by dsimp only; rw [sizeAll_append]; simp only [sizeAll]; omega,
      by dsimp only; rw [regenAll_append]; simp only [regenAll]; omega, rfl⟩
  | true =>
    have hheld : s.held = true := by rw [hhh, hho]
    simp only [hheld, if_true] at hpos ⊢
    split
    · -- the withheld byte is not offered: still one byte short of the frame end
      refine ⟨legal_inside hall hok T U inAvail outCap _ hip hb.op rfl (by have := regen_le hall; dsimp only; omega) (by simp)
        (by dsimp only; omega) (by dsimp only; omega), ?_⟩
      simp only [Inv, LInv]
      exact Or.inr ⟨pre, hall, ⟨by simp [cin]; omega, by dsimp only; omega, rfl, di.ex, di.st, rfl, fun h => by cases h⟩⟩
    · refine ⟨legal_end hall T U inAvail outCap _ (by dsimp only; omega) hb.op rfl rfl (by dsimp only; omega) (by dsimp only; omega) (Or.inl (by dsimp only; omega)), ?_⟩
      simp only [Inv, LInv, hss]
      exact ⟨trivial, trivial, pre ++ [s.cur], by rw [hall]; simp, by dsimp only; rw [sizeAll_append]; simp only [sizeAll]; omega,
        by dsimp only; rw [regenAll_append]; simp only [regenAll]; omega, rfl⟩

/-- the invariant of a frame in progress, carried over to the next call (position `{}`), the totals having absorbed this call's advance -/
theorem frameinv_rebase (s s2 : State) (l : Loc) (fIn fOut : Nat) (fi : FrameInv s l fIn fOut)
    (hd : s2.d = s.d) (hb : s2.blocks = s.blocks) (hc : s2.cur = s.cur) (hin : s2.inPos = s.inPos) (hos : s2.outStart = s.outStart)
    (hoe : s2.outEnd = s.outEnd) (hss : s2.ss = s.ss) (hcin : cin s2 {} = cin s l) (hout : s2.totalOut = s.totalOut + l.op)
    (hh : s2.held = s2.hostage) (hd2 : s2.hostage = true → s.d.expected = 0) (hk : s.d.expected = 0 → s2.hostage = true) :
    FrameInv s2 {} fIn fOut := by
  have h1 := fi.pos; have h2 := fi.lo; have h3 := fi.out; have h4 := fi.ole; have h5 := fi.reg
  refine ⟨?_, ?_, ?_, ?_, ?_, ?_, ?_, ?_, ?_, hh, ?_, ?_⟩
  · rw [hcin, hd, hb, hc, hin]; exact h1
  · rw [hcin]; exact h2
  · rw [hout, hoe, hos, hd]; show s.totalOut + l.op + 0 + _ = _; omega
  · rw [hos, hoe]; exact h4
  · rw [hd, hb, hc]; exact h5
  · rw [hd, hb]; exact fi.stg
  · rw [hss, hin, hd]; exact fi.inp1
  · rw [hss, hin]; exact fi.inp0
  · rw [hss, hos, hoe]; exact fi.fl
  · rw [hd]; exact hd2
  · rw [hd]; intro he hf; have := hk he; rw [hf] at this; cases this

theorem out_le_of_frame {all pre : List FrameD} {s : State} {l : Loc} (hall : all = pre ++ s.cur :: s.frames)
    (fi : FrameInv s l (sizeAll pre) (regenAll pre)) : s.totalOut + l.op ≤ regenAll all := by
  have := regen_le hall; have := fi.out; have := fi.reg; omega

/-- the return-value computation inside a frame (stages zdss_read / zdss_load / zdss_flush at the end of the call) -/
theorem result_inframe (all : List FrameD) (hok : AllOk all) (T U inAvail outCap nf : Nat) (s : State) (l : Loc)
    (hss : s.ss ≠ .init) (h : SInv all s l) (hb : Bd s l T U inAvail outCap) :
    LegalNum all T U inAvail outCap ⟨(result { s with noFwd := nf } l inAvail).2.1, l.op, U, (result { s with noFwd := nf } l inAvail).2.2⟩ ∧
    Inv all { (result { s with noFwd := nf } l inAvail).1 with
      totalIn := (result { s with noFwd := nf } l inAvail).1.totalIn + (result { s with noFwd := nf } l inAvail).2.1,
      totalOut := (result { s with noFwd := nf } l inAvail).1.totalOut + l.op } := by
  -- common facts
  have key : ∃ pre, all = pre ++ s.cur :: s.frames ∧ FrameInv s l (sizeAll pre) (regenAll pre) ∧
      (s.d.expected = 0 → s.outStart < s.outEnd) ∧ (s.ss = .read ∨ s.ss = .load ∨ s.ss = .flush) := by
    unfold SInv at h
    cases hs : s.ss <;> rw [hs] at h
    · exact absurd hs hss
    · exact h.elim
    · obtain ⟨⟨pre, hall, fi⟩, he⟩ := h; exact ⟨pre, hall, fi, fun h0 => absurd h0 he, Or.inl rfl⟩
    · obtain ⟨pre, hall, fi⟩ := h
      exact ⟨pre, hall, fi, fun h0 => by have := fi.inp1 hs; omega, Or.inr (Or.inl rfl)⟩
    · obtain ⟨⟨pre, hall, fi⟩, hlt⟩ := h; exact ⟨pre, hall, fi, fun _ => hlt, Or.inr (Or.inr rfl)⟩
  obtain ⟨pre, hall, fi, hpend, hss3⟩ := key
  have hsz := (ok_size (hok s.cur (by rw [hall]; simp))).2.1
  have hpos := fi.pos; have hlo := fi.lo; have hole := fi.ole
  have hUle := out_le_of_frame hall fi
  have hip := hb.ip; have htin := hb.tin; have htout := hb.tout
  have hrg := rem_ge fi.stg
  have hhh := fi.hh
  unfold cin at hpos hlo
  unfold result
  by_cases he : s.d.expected = 0
  · -- frame fully decoded, output pending: the last byte is (or stays) withheld
    have hlt := hpend he
    have hfl : s.ss = .flush := by
      cases hs : s.ss with
      | flush => rfl
      | _ => have := fi.fl (by rw [hs]; simp); omega
    obtain ⟨r1, _, _⟩ := rem_zero fi.stg he
    have hin := fi.inp0 (by rw [hfl]; simp)
    have hne : ¬ (s.outEnd = s.outStart) := by omega
    simp only [DCtx.nextSrcSize, he, if_true, hne, if_false]
    cases hho : s.hostage with
    | false =>
      have hheld : s.held = false := by rw [hhh, hho]
      have hk := fi.k he hho
      simp only [hheld, Bool.false_eq_true, if_false] at hpos hlo
      simp only [Bool.not_false, if_true]
      refine ⟨legal_inside hall hok T U inAvail outCap _ (by dsimp only; omega) hb.op rfl (by dsimp only; omega) (by simp)
        (by dsimp only; omega) (by dsimp only; omega), ?_⟩
      simp only [Inv, LInv, hfl]
      exact ⟨pre, hall, frameinv_rebase s _ l _ _ fi rfl rfl rfl rfl rfl rfl hfl.symm (by simp [cin, hheld]; omega) rfl rfl (fun _ => he) (fun _ => rfl)⟩
    | true =>
      have hheld : s.held = true := by rw [hhh, hho]
      simp only [hheld, if_true] at hpos hlo
      simp only [Bool.not_true, Bool.false_eq_true, if_false]
      refine ⟨legal_inside hall hok T U inAvail outCap _ hip hb.op rfl (by dsimp only; omega) (by simp)
        (by dsimp only; omega) (by dsimp only; omega), ?_⟩
      simp only [Inv, LInv, hfl]
      exact ⟨pre, hall, frameinv_rebase s _ l _ _ fi rfl rfl rfl rfl rfl rfl hfl.symm (by simp [cin, hheld]; omega) rfl hheld (fun _ => he) (fun _ => rfl)⟩
  · have hho : s.hostage = false := by
      cases hh : s.hostage with
      | false => rfl
      | true => exact absurd (fi.hd hh) he
    have hheld : s.held = false := by rw [hhh, hho]
    simp only [hheld, Bool.false_eq_true, if_false] at hpos hlo
    have hinp : s.inPos < s.d.expected := by
      cases hs : s.ss with
      | load => exact fi.inp1 hs
      | _ => have := fi.inp0 (by rw [hs]; simp); omega
    simp only [DCtx.nextSrcSize, he, if_false]
    refine ⟨legal_inside hall hok T U inAvail outCap _ hip hb.op rfl (by dsimp only; omega)
      (by simp only [ne_eq, Ret.hint.injEq]; omega) (by dsimp only; omega) (by dsimp only; omega), ?_⟩
    have hF : ∀ v, s.ss = v → FrameInv { s with ss := v, noFwd := nf, totalIn := s.totalIn + l.ip, totalOut := s.totalOut + l.op } {}
        (sizeAll pre) (regenAll pre) := fun v hv =>
      frameinv_rebase s _ l _ _ fi rfl rfl rfl rfl rfl rfl hv.symm
        (by simp [cin, hheld]) rfl hhh (fun h => by rw [hho] at h; cases h) (fun h => absurd h he)
    simp only [Inv, LInv]
    rcases hss3 with h | h | h <;> simp only [h]
    · exact Or.inl ⟨pre, hall, hF _ h⟩
    · exact ⟨pre, hall, hF _ h⟩
    · exact ⟨pre, hall, hF _ h⟩

theorem sinv_out_le {all : List FrameD} {s : State} {l : Loc} (h : SInv all s l) : s.totalOut + l.op ≤ regenAll all := by
  unfold SInv at h
  cases hs : s.ss <;> rw [hs] at h
  · obtain ⟨pre, hall, di⟩ := h; have := regen_le hall; have := di.out; omega
  · exact h.elim
  · obtain ⟨⟨pre, hall, fi⟩, _⟩ := h; exact out_le_of_frame hall fi
  · obtain ⟨pre, hall, fi⟩ := h; exact out_le_of_frame hall fi
  · obtain ⟨⟨pre, hall, fi⟩, _⟩ := h; exact out_le_of_frame hall fi

/-- a call that reports an error is a legal (empty) observation -/
theorem legal_err (all : List FrameD) (T U inAvail outCap : Nat) (e : ErrClass) (hU : U ≤ regenAll all) :
    LegalNum all T U inAvail outCap ⟨0, 0, U, .err e⟩ :=
  ⟨Nat.zero_le _, Nat.zero_le _, rfl, hU, ⟨(fun h => by cases h), (fun h => by rcases h.2 with h | h <;> exact absurd h (Nat.lt_irrefl 0))⟩⟩

theorem finish_core (all : List FrameD) (hok : AllOk all) (T U inAvail outCap : Nat) (s : State) (l : Loc)
    (h : SInv all s l) (hb : Bd s l T U inAvail outCap) (nf : Nat) (c1 c2 : Bool) :
    LegalNum all T U inAvail outCap
      (if c1 = true then (({ s with noFwd := nf } : State), (⟨0, 0, s.totalOut, .err .noForwardProgressDestFull⟩ : CallResult))
       else if c2 = true then ({ s with noFwd := nf }, ⟨0, 0, s.totalOut, .err .noForwardProgressInputEmpty⟩)
       else
         ({ (result { s with noFwd := nf } l inAvail).1 with
              totalIn := (result { s with noFwd := nf } l inAvail).1.totalIn + (result { s with noFwd := nf } l inAvail).2.1,
              totalOut := (result { s with noFwd := nf } l inAvail).1.totalOut + l.op },
          ⟨(result { s with noFwd := nf } l inAvail).2.1, l.op, s.totalOut, (result { s with noFwd := nf } l inAvail).2.2⟩)).2 ∧
    ((∀ e, (if c1 = true then (({ s with noFwd := nf } : State), (⟨0, 0, s.totalOut, .err .noForwardProgressDestFull⟩ : CallResult))
       else if c2 = true then ({ s with noFwd := nf }, ⟨0, 0, s.totalOut, .err .noForwardProgressInputEmpty⟩)
       else
         ({ (result { s with noFwd := nf } l inAvail).1 with
              totalIn := (result { s with noFwd := nf } l inAvail).1.totalIn + (result { s with noFwd := nf } l inAvail).2.1,
              totalOut := (result { s with noFwd := nf } l inAvail).1.totalOut + l.op },
          ⟨(result { s with noFwd := nf } l inAvail).2.1, l.op, s.totalOut, (result { s with noFwd := nf } l inAvail).2.2⟩)).2.ret ≠ .err e) →
     Inv all (if c1 = true then (({ s with noFwd := nf } : State), (⟨0, 0, s.totalOut, .err .noForwardProgressDestFull⟩ : CallResult))
       else if c2 = true then ({ s with noFwd := nf }, ⟨0, 0, s.totalOut, .err .noForwardProgressInputEmpty⟩)
       else
         ({ (result { s with noFwd := nf } l inAvail).1 with
              totalIn := (result { s with noFwd := nf } l inAvail).1.totalIn + (result { s with noFwd := nf } l inAvail).2.1,
              totalOut := (result { s with noFwd := nf } l inAvail).1.totalOut + l.op },
          ⟨(result { s with noFwd := nf } l inAvail).2.1, l.op, s.totalOut, (result { s with noFwd := nf } l inAvail).2.2⟩)).1) := by
  have hU := sinv_out_le h
  have htout := hb.tout
  subst htout
  cases c1
  · cases c2
    · simp only [Bool.false_eq_true, if_false]
      by_cases hss : s.ss = .init
      · have hD : Done all s l := by unfold SInv at h; rw [hss] at h; exact h
        have := result_done all hok T _ inAvail outCap nf s l hss hD hb
        exact ⟨this.1, fun _ => this.2⟩
      · have := result_inframe all hok T _ inAvail outCap nf s l hss h hb
        exact ⟨this.1, fun _ => this.2⟩
    · simp only [Bool.false_eq_true, if_false, if_true]
      exact ⟨legal_err all T _ inAvail outCap _ (by omega), fun hne => absurd rfl (hne _)⟩
  · simp only [if_true]
    exact ⟨legal_err all T _ inAvail outCap _ (by omega), fun hne => absurd rfl (hne _)⟩

/-- **the tail of the call** (no-forward-progress counter + return value) is a legal observation and re-establishes the invariant -/
theorem finish_ok (all : List FrameD) (hok : AllOk all) (T U inAvail outCap : Nat) (s : State) (l : Loc)
    (h : SInv all s l) (hb : Bd s l T U inAvail outCap) :
    LegalNum all T U inAvail outCap (finish s l inAvail outCap).2 ∧
    ((∀ e, (finish s l inAvail outCap).2.ret ≠ .err e) → Inv all (finish s l inAvail outCap).1) :=
  finish_core all hok T U inAvail outCap s l h hb _ _ _

/-- `FrameInv` reads only these fields of the state -/
theorem frameinv_congr (s s2 : State) (l : Loc) (fIn fOut : Nat) (fi : FrameInv s l fIn fOut)
    (hd : s2.d = s.d) (hb : s2.blocks = s.blocks) (hc : s2.cur = s.cur) (hin : s2.inPos = s.inPos) (hos : s2.outStart = s.outStart)
    (hoe : s2.outEnd = s.outEnd) (hss : s2.ss = s.ss) (hti : s2.totalIn = s.totalIn) (hto : s2.totalOut = s.totalOut)
    (hhe : s2.held = s.held) (hho : s2.hostage = s.hostage) : FrameInv s2 l fIn fOut := by
  have hcin : cin s2 l = cin s l := by simp only [cin, hti, hhe]
  refine ⟨?_, ?_, ?_, ?_, ?_, ?_, ?_, ?_, ?_, ?_, ?_, ?_⟩
  · rw [hcin, hd, hb, hc, hin]; exact fi.pos
  · rw [hcin]; exact fi.lo
  · rw [hto, hoe, hos, hd]; exact fi.out
  · rw [hos, hoe]; exact fi.ole
  · rw [hd, hb, hc]; exact fi.reg
  · rw [hd, hb]; exact fi.stg
  · rw [hss, hin, hd]; exact fi.inp1
  · rw [hss, hin]; exact fi.inp0
  · rw [hss, hos, hoe]; exact fi.fl
  · rw [hhe, hho]; exact fi.hh
  · rw [hho, hd]; exact fi.hd
  · rw [hd, hho]; exact fi.k

theorem adaptBuffers_fields (s : State) (a b : Nat) :
    (adaptBuffers s a b).d = s.d ∧ (adaptBuffers s a b).blocks = s.blocks ∧ (adaptBuffers s a b).cur = s.cur ∧
    (adaptBuffers s a b).inPos = s.inPos ∧ (adaptBuffers s a b).outStart = s.outStart ∧ (adaptBuffers s a b).outEnd = s.outEnd ∧
    (adaptBuffers s a b).totalIn = s.totalIn ∧ (adaptBuffers s a b).totalOut = s.totalOut ∧ (adaptBuffers s a b).held = s.held ∧
    (adaptBuffers s a b).hostage = s.hostage ∧ (adaptBuffers s a b).frames = s.frames := by
  unfold adaptBuffers
  dsimp only
  split <;> split <;> exact ⟨rfl, rfl, rfl, rfl, rfl, rfl, rfl, rfl, rfl, rfl, rfl⟩

theorem hdrNeed_some (f : FrameD) (lh : Nat) (h6 : 6 ≤ f.headerSize) :
    (hdrNeed (some f) lh = 0 ↔ f.headerSize ≤ lh) ∧
    (hdrNeed (some f) lh ≠ 0 → lh < hdrNeed (some f) lh ∧ hdrNeed (some f) lh ≤ f.headerSize) := by
  unfold hdrNeed
  simp only [ZSTD_FRAMEHEADERSIZE_PREFIX]
  by_cases h1 : lh < 5 <;> by_cases h2 : lh < f.headerSize <;> simp only [h1, h2, if_true, if_false] <;>
    refine ⟨⟨fun h => ?_, fun h => ?_⟩, fun h => ?_⟩ <;> first | omega | exact absurd rfl h | trivial | exact ⟨trivial, by omega⟩

/-- the frame invariant right after "Consume header" -/
theorem consumeHeader_inv (s : State) (l : Loc) (f : FrameD) (fIn fOut : Nat) (hok : f.ok = true)
    (hp : s.totalIn + l.ip = fIn + f.headerSize) (ho : s.totalOut = fOut) (hop : l.op = 0) (hheld : s.held = false)
    (hhost : s.hostage = false) (hfl : s.outStart = s.outEnd) (hin : s.inPos = 0) (hk : 1 ≤ l.ip) :
    FrameInv { consumeHeader s f with ss := .read } l fIn fOut := by
  obtain ⟨_, _, h6⟩ := ok_size hok
  cases hsk : f.skippable with
  | true =>
    obtain ⟨h8, hbl, _, _⟩ := ok_skip hok hsk
    refine ⟨?_, ?_, ?_, ?_, ?_, ?_, ?_, ?_, ?_, ?_, ?_, ?_⟩ <;>
      simp [consumeHeader, hsk, cin, hheld, rem, remRegen, stageOk, DCtx.begin, DCtx.setFrame, frameSize, regenOf, hbl, blocksRegen,
        ZSTD_SKIPPABLEHEADERSIZE, hhost, hin, hfl, hop] <;> omega
  | false =>
    obtain ⟨_, hl, hr, _⟩ := ok_zstd hok hsk
    refine ⟨?_, ?_, ?_, ?_, ?_, ?_, ?_, ?_, ?_, ?_, ?_, ?_⟩ <;>
      simp [consumeHeader, hsk, cin, hheld, rem, remRegen, stageOk, DCtx.begin, DCtx.setFrame, frameSize, regenOf,
        ZSTD_blockHeaderSize, hhost, hin, hfl, hop, hl, hr] <;> omega

theorem regen_pre_le {all pre rest : List FrameD} (hall : all = pre ++ rest) : regenAll pre ≤ regenAll all := by
  rw [hall, regenAll_append]; omega

/-- stage zdss_loadHeader -/
theorem stLoadHeader_ok (all : List FrameD) (hok : AllOk all) (T U inAvail outCap : Nat) (s : State) (l : Loc)
    (hss : s.ss = .loadHeader) (h : Hdr all s l) (hb : Bd s l T U inAvail outCap) (hlim : T + inAvail ≤ sizeAll all) :
    OutOk all T U inAvail outCap (stLoadHeader s l inAvail outCap) := by
  obtain ⟨pre, hall, hp, ho, hop, hipl, hheld, hhost, hfl, hin, hlh, hk⟩ := h
  have hip := hb.ip; have htin := hb.tin; have htout := hb.tout
  have hUle := regen_pre_le hall
  cases hfr : s.frames with
  | nil =>
    -- no frame left: the caller has nothing to offer
    have hsz : sizeAll all = sizeAll pre := by rw [hall, hfr]; simp
    have h0 : inAvail = 0 ∧ l.ip = 0 ∧ s.lhSize = 0 := by omega
    have h5 : hdrNeed s.frames.head? s.lhSize = 5 := by rw [hfr]; rfl
    unfold stLoadHeader
    simp only [h5]
    rw [if_pos (by decide), if_pos (by omega)]
    unfold hdrShort
    refine Or.inr ⟨⟨by dsimp only; omega, Nat.zero_le _, rfl, by dsimp only; omega, ⟨fun h => ?_, fun h => ?_⟩⟩, ?_, htin, htout⟩
    · simp [hfr, ZSTD_FRAMEHEADERSIZE_MIN, ZSTD_blockHeaderSize] at h
    · rcases h.2 with h | h <;> dsimp only at h <;> omega
    · simp only [Inv, LInv, hss]
      exact ⟨pre, by rw [hfr] at hall; rw [hall]; simp [hfr], by dsimp only; omega, ho, rfl, Nat.zero_le _, hheld, hhost, hfl, hin,
        (fun f hf => by dsimp only at hf; rw [hfr] at hf; cases hf),
        (fun h => by dsimp only at h; rw [hfr] at h; simp [hdrNeed, ZSTD_FRAMEHEADERSIZE_PREFIX] at h)⟩
  | cons f fs =>
    have hfin : f ∈ all := by rw [hall, hfr]; simp
    have hfok := hok f hfin
    obtain ⟨hhs, hf8, h6⟩ := ok_size hfok
    have hhead : s.frames.head? = some f := by rw [hfr]; rfl
    have hlhf := hlh f hhead
    obtain ⟨hn0, hnn⟩ := hdrNeed_some f s.lhSize h6
    have hall2 : all = pre ++ f :: fs := by rw [hall, hfr]
    unfold stLoadHeader hdrShort
    simp only [hhead]
    by_cases hz : hdrNeed (some f) s.lhSize = 0
    · -- header complete
      rw [if_neg (by rw [hz]; exact fun h => h rfl)]
      have hlheq : s.lhSize = f.headerSize := by have := hn0.1 hz; omega
      have hk1 : 1 ≤ l.ip := hk (by rw [hhead]; exact hz)
      have htail : s.frames.tail = fs := by rw [hfr]; rfl
      unfold hdrComplete
      by_cases hsp : singlePass s l inAvail outCap f = true
      · rw [if_pos hsp]
        unfold singlePass at hsp
        cases hfcs : f.fcs with
        | none => rw [hfcs] at hsp; cases hsp
        | some n =>
          rw [hfcs] at hsp
          simp only [Bool.and_eq_true, Bool.not_eq_true', decide_eq_true_eq] at hsp
          obtain ⟨⟨⟨hsk, hroom⟩, hipeq⟩, hwhole⟩ := hsp
          have hn := (ok_zstd hfok hsk).2.2.2 n hfcs
          refine ⟨?_, ⟨by dsimp only; omega, by dsimp only; omega, htin, htout⟩⟩
          simp only [SInv]
          refine ⟨pre, by dsimp only; rw [htail]; exact hall2, ⟨?_, ?_, hfl, rfl, Or.inl rfl, ?_, ?_⟩⟩
          · simp [cin, hheld]; omega
          · dsimp only; omega
          · dsimp only; rw [hheld, hhost]
          · intro _; dsimp only; omega
      · rw [if_neg hsp]
        dsimp only
        split
        · exact Or.inl ⟨_, rfl, rfl, htout⟩
        · have hci := consumeHeader_inv s l f (sizeAll pre) (regenAll pre) hfok (by omega) ho hop hheld hhost hfl hin hk1
          obtain ⟨a1, a2, a3, a4, a5, a6, a7, a8, a9, a10, a11⟩ := adaptBuffers_fields (consumeHeader s f)
            (max (consumeHeader s f).d.blockSizeMax 4)
            (DBuf.decodingBufferSize (consumeHeader s f).d.windowSize (consumeHeader s f).d.fcs (consumeHeader s f).d.blockSizeMax)
          apply stRead_ok all T U inAvail outCap _ l rfl
          · refine Or.inl ⟨pre, ?_, frameinv_congr _ _ l _ _ hci a1 a2 a3 a4 a5 a6 rfl a7 a8 a9 a10⟩
            show all = pre ++ (adaptBuffers _ _ _).cur :: (adaptBuffers _ _ _).frames
            rw [a3, a11]
            show all = pre ++ f :: s.frames.tail
            rw [htail]; exact hall2
          · exact ⟨hip, hb.op, a7.trans htin, a8.trans htout⟩
    · rw [if_pos hz]
      obtain ⟨hlt, hle⟩ := hnn hz
      by_cases hsh : hdrNeed (some f) s.lhSize - s.lhSize > inAvail - l.ip
      · rw [if_pos hsh]
        have hnz : ∀ v, v = (if (decide (s.lhSize + (inAvail - l.ip) ≥ 4) && f.skippable) = true then hdrNeed (some f) s.lhSize - (s.lhSize + (inAvail - l.ip))
            else max ZSTD_FRAMEHEADERSIZE_MIN (hdrNeed (some f) s.lhSize) - (s.lhSize + (inAvail - l.ip)) + ZSTD_blockHeaderSize) → v ≠ 0 := by
          intro v hv; rw [hv]; simp only [ZSTD_FRAMEHEADERSIZE_MIN, ZSTD_blockHeaderSize]; split <;> omega
        refine Or.inr ⟨⟨Nat.le_refl _, Nat.zero_le _, rfl, by dsimp only; omega, ⟨fun h => ?_, fun h => ?_⟩⟩, ?_, htin, htout⟩
        · dsimp only at h; injection h with h; exact absurd h (hnz _ rfl)
        · exfalso
          dsimp only at h
          have hpr : 0 < inAvail := by rcases h.2 with h | h <;> omega
          exact not_end_inside hall2 hok _ _ (by omega) (by omega) h.1
        · simp only [Inv, LInv, hss]
          refine ⟨pre, hall, by dsimp only; omega, ho, rfl, Nat.zero_le _, hheld, hhost, hfl, hin, ?_, ?_⟩
          · intro g hg; dsimp only at hg ⊢; rw [hhead] at hg; injection hg with hg; subst hg; omega
          · intro h; exfalso; dsimp only at h; rw [hhead] at h
            have := (hdrNeed_some f (s.lhSize + (inAvail - l.ip)) h6).1.1 h
            omega
      · rw [if_neg hsh]
        refine ⟨?_, ⟨by dsimp only; omega, hb.op, htin, htout⟩⟩
        simp only [LInv, hss]
        refine ⟨pre, hall, by dsimp only; omega, ho, hop, by dsimp only; omega, hheld, hhost, hfl, hin, ?_, fun _ => by dsimp only; omega⟩
        intro g hg; dsimp only at hg ⊢; rw [hhead] at hg; injection hg with hg; subst hg; omega

/-- **every turn of the loop that starts inside a frame (stages zdss_read / zdss_load / zdss_flush) keeps the invariant**, stays inside
the call's buffers, and leaves the loop only in a state the result computation is specified for -/
theorem micro_inframe_ok (all : List FrameD) (T U inAvail outCap : Nat) (s : State) (l : Loc)
    (hss : s.ss = .read ∨ s.ss = .load ∨ s.ss = .flush) (h : LInv all s l) (hb : Bd s l T U inAvail outCap) :
    OutOk all T U inAvail outCap (micro s l inAvail outCap) := by
  unfold micro
  rcases hss with hss | hss | hss
  · rw [hss]; exact stRead_ok all T U inAvail outCap s l hss h hb
  · rw [hss]; unfold LInv at h; rw [hss] at h; exact stLoad_ok all T U inAvail outCap s l hss h hb
  · rw [hss]; unfold LInv at h; rw [hss] at h; exact stFlush_ok all T U inAvail outCap s l hss h hb

/-- **every turn of the loop keeps the invariant** -/
theorem micro_ok (all : List FrameD) (hok : AllOk all) (T U inAvail outCap : Nat) (s : State) (l : Loc)
    (h : LInv all s l) (hb : Bd s l T U inAvail outCap) (hlim : T + inAvail ≤ sizeAll all) :
    OutOk all T U inAvail outCap (micro s l inAvail outCap) := by
  cases hss : s.ss with
  | read => exact micro_inframe_ok all T U inAvail outCap s l (Or.inl hss) h hb
  | load => exact micro_inframe_ok all T U inAvail outCap s l (Or.inr (Or.inl hss)) h hb
  | flush => exact micro_inframe_ok all T U inAvail outCap s l (Or.inr (Or.inr hss)) h hb
  | loadHeader =>
    unfold micro; rw [hss]
    unfold LInv at h; rw [hss] at h
    exact stLoadHeader_ok all hok T U inAvail outCap s l hss h hb hlim
  | init =>
    unfold micro; rw [hss]
    unfold LInv at h; rw [hss] at h
    obtain ⟨hi, ho, pre, hall, hti, hto, hheld⟩ := h
    refine stLoadHeader_ok all hok T U inAvail outCap (stInit s) l rfl ?_ ⟨hb.ip, hb.op, hb.tin, hb.tout⟩ hlim
    refine ⟨pre, hall, by show s.totalIn + l.ip = sizeAll pre + 0; omega, hto, ho, by show l.ip ≤ 0; omega, hheld, rfl, rfl, rfl, ?_, ?_⟩
    · intro f _; exact Nat.zero_le _
    · intro h0
      exfalso
      have : hdrNeed s.frames.head? 0 = 5 := by unfold hdrNeed; cases s.frames.head? <;> rfl
      have h1 : hdrNeed s.frames.head? 0 = 0 := h0
      omega

theorem loop_ok (all : List FrameD) (hok : AllOk all) (T U inAvail outCap : Nat) (hlim : T + inAvail ≤ sizeAll all) :
    ∀ (fuel : Nat) (s : State) (l : Loc), LInv all s l → Bd s l T U inAvail outCap →
      OutOk all T U inAvail outCap (loop fuel s l inAvail outCap) ∧ ∀ s1 l1, loop fuel s l inAvail outCap ≠ .cont s1 l1 := by
  intro fuel
  induction fuel with
  | zero =>
    intro s l _ hb
    exact ⟨Or.inl ⟨_, rfl, rfl, hb.tout⟩, fun _ _ h => by cases h⟩
  | succ n ih =>
    intro s l h hb
    have hm := micro_ok all hok T U inAvail outCap s l h hb hlim
    unfold loop
    cases hmic : micro s l inAvail outCap with
    | cont s1 l1 => rw [hmic] at hm; exact ih s1 l1 hm.1 hm.2
    | stop s1 l1 => rw [hmic] at hm; exact ⟨hm, fun _ _ h => by cases h⟩
    | ret s1 c r => rw [hmic] at hm; exact ⟨hm, fun _ _ h => by cases h⟩

theorem inv_out_le {all : List FrameD} {s : State} (h : Inv all s) : s.totalOut ≤ regenAll all := by
  unfold Inv LInv at h
  cases hs : s.ss <;> rw [hs] at h
  · obtain ⟨_, _, pre, hall, _, hto, _⟩ := h; rw [hto]; exact regen_pre_le hall
  · obtain ⟨pre, hall, _, hto, _⟩ := h; rw [hto]; exact regen_pre_le hall
  · rcases h with ⟨pre, hall, fi⟩ | ⟨pre, hall, di⟩
    · have := out_le_of_frame hall fi; omega
    · have := regen_le hall; have := di.out; omega
  · obtain ⟨pre, hall, fi⟩ := h; have := out_le_of_frame hall fi; omega
  · obtain ⟨pre, hall, fi⟩ := h; have := out_le_of_frame hall fi; omega

theorem result_totals (s : State) (l : Loc) (inAvail : Nat) :
    (result s l inAvail).1.totalIn = s.totalIn ∧ (result s l inAvail).1.totalOut = s.totalOut := by
  unfold result
  split
  · split
    · split
      · split <;> exact ⟨rfl, rfl⟩
      · exact ⟨rfl, rfl⟩
    · split <;> exact ⟨rfl, rfl⟩
  · exact ⟨rfl, rfl⟩

theorem finish_totals_core (s : State) (l : Loc) (inAvail nf : Nat) (c1 c2 : Bool) (e1 e2 : ErrClass) :
    (∀ e, (if c1 = true then (({ s with noFwd := nf } : State), (⟨0, 0, s.totalOut, .err e1⟩ : CallResult))
       else if c2 = true then ({ s with noFwd := nf }, ⟨0, 0, s.totalOut, .err e2⟩)
       else
         ({ (result { s with noFwd := nf } l inAvail).1 with
              totalIn := (result { s with noFwd := nf } l inAvail).1.totalIn + (result { s with noFwd := nf } l inAvail).2.1,
              totalOut := (result { s with noFwd := nf } l inAvail).1.totalOut + l.op },
          ⟨(result { s with noFwd := nf } l inAvail).2.1, l.op, s.totalOut, (result { s with noFwd := nf } l inAvail).2.2⟩)).2.ret ≠ .err e) →
    (if c1 = true then (({ s with noFwd := nf } : State), (⟨0, 0, s.totalOut, .err e1⟩ : CallResult))
       else if c2 = true then ({ s with noFwd := nf }, ⟨0, 0, s.totalOut, .err e2⟩)
       else
         ({ (result { s with noFwd := nf } l inAvail).1 with
              totalIn := (result { s with noFwd := nf } l inAvail).1.totalIn + (result { s with noFwd := nf } l inAvail).2.1,
              totalOut := (result { s with noFwd := nf } l inAvail).1.totalOut + l.op },
          ⟨(result { s with noFwd := nf } l inAvail).2.1, l.op, s.totalOut, (result { s with noFwd := nf } l inAvail).2.2⟩)).1.totalIn =
      s.totalIn + (if c1 = true then (({ s with noFwd := nf } : State), (⟨0, 0, s.totalOut, .err e1⟩ : CallResult))
       else if c2 = true then ({ s with noFwd := nf }, ⟨0, 0, s.totalOut, .err e2⟩)
       else
         ({ (result { s with noFwd := nf } l inAvail).1 with
              totalIn := (result { s with noFwd := nf } l inAvail).1.totalIn + (result { s with noFwd := nf } l inAvail).2.1,
              totalOut := (result { s with noFwd := nf } l inAvail).1.totalOut + l.op },
          ⟨(result { s with noFwd := nf } l inAvail).2.1, l.op, s.totalOut, (result { s with noFwd := nf } l inAvail).2.2⟩)).2.consumed ∧
    (if c1 = true then (({ s with noFwd := nf } : State), (⟨0, 0, s.totalOut, .err e1⟩ : CallResult))
       else if c2 = true then ({ s with noFwd := nf }, ⟨0, 0, s.totalOut, .err e2⟩)
       else
         ({ (result { s with noFwd := nf } l inAvail).1 with
              totalIn := (result { s with noFwd := nf } l inAvail).1.totalIn + (result { s with noFwd := nf } l inAvail).2.1,
              totalOut := (result { s with noFwd := nf } l inAvail).1.totalOut + l.op },
          ⟨(result { s with noFwd := nf } l inAvail).2.1, l.op, s.totalOut, (result { s with noFwd := nf } l inAvail).2.2⟩)).1.totalOut =
      s.totalOut + (if c1 = true then (({ s with noFwd := nf } : State), (⟨0, 0, s.totalOut, .err e1⟩ : CallResult))
       else if c2 = true then ({ s with noFwd := nf }, ⟨0, 0, s.totalOut, .err e2⟩)
       else
         ({ (result { s with noFwd := nf } l inAvail).1 with
              totalIn := (result { s with noFwd := nf } l inAvail).1.totalIn + (result { s with noFwd := nf } l inAvail).2.1,
              totalOut := (result { s with noFwd := nf } l inAvail).1.totalOut + l.op },
          ⟨(result { s with noFwd := nf } l inAvail).2.1, l.op, s.totalOut, (result { s with noFwd := nf } l inAvail).2.2⟩)).2.produced := by
  obtain ⟨h1, h2⟩ := result_totals { s with noFwd := nf } l inAvail
  cases c1
  · cases c2
    · intro _
      simp only [Bool.false_eq_true, if_false]
      exact ⟨by rw [h1], by rw [h2]⟩
    · intro hne; simp only [Bool.false_eq_true, if_false, if_true] at hne; exact absurd rfl (hne _)
  · intro hne; simp only [if_true] at hne; exact absurd rfl (hne _)

theorem finish_totals (s : State) (l : Loc) (inAvail outCap : Nat) (hne : ∀ e, (finish s l inAvail outCap).2.ret ≠ .err e) :
    (finish s l inAvail outCap).1.totalIn = s.totalIn + (finish s l inAvail outCap).2.consumed ∧
    (finish s l inAvail outCap).1.totalOut = s.totalOut + (finish s l inAvail outCap).2.produced :=
  finish_totals_core s l inAvail _ _ _ _ _ hne

/-- **one call of the model, numerically**: the observation is legal at the position the ghost totals record, the invariant is
re-established (unless the call reports an error), and the totals advance by what the call reports -/
theorem step_ok (all : List FrameD) (hok : AllOk all) (s : State) (hinv : Inv all s) (inAvail outCap : Nat)
    (hlim : s.totalIn + inAvail ≤ sizeAll all) :
    LegalNum all s.totalIn s.totalOut inAvail outCap (step s inAvail outCap).2 ∧
    ((∀ e, (step s inAvail outCap).2.ret ≠ .err e) →
      Inv all (step s inAvail outCap).1 ∧
      (step s inAvail outCap).1.totalIn = s.totalIn + (step s inAvail outCap).2.consumed ∧
      (step s inAvail outCap).1.totalOut = s.totalOut + (step s inAvail outCap).2.produced) := by
  have hU := inv_out_le hinv
  obtain ⟨hl, hnc⟩ := loop_ok all hok s.totalIn s.totalOut inAvail outCap hlim (loopFuel inAvail) s {} hinv
    ⟨Nat.zero_le _, Nat.zero_le _, rfl, rfl⟩
  unfold step
  cases hlo : loop (loopFuel inAvail) s {} inAvail outCap with
  | cont s1 l1 => exact absurd hlo (hnc s1 l1)
  | stop s1 l1 =>
    rw [hlo] at hl
    obtain ⟨hs, hb⟩ := hl
    have hf := finish_ok all hok s.totalIn s.totalOut inAvail outCap s1 l1 hs hb
    refine ⟨hf.1, fun hne => ⟨hf.2 hne, ?_⟩⟩
    have := finish_totals s1 l1 inAvail outCap hne
    rw [hb.tin, hb.tout] at this
    exact this
  | ret s1 c r =>
    rw [hlo] at hl
    rcases hl with ⟨e, rfl, rfl, hto⟩ | ⟨hleg, hi, hti, hto⟩
    · refine ⟨?_, fun hne => absurd rfl (hne e)⟩
      show LegalNum all s.totalIn s.totalOut inAvail outCap ⟨0, 0, s1.totalOut, .err e⟩
      rw [hto]; exact legal_err all _ _ inAvail outCap e hU
    · refine ⟨?_, fun _ => ⟨hi, ?_, ?_⟩⟩
      · show LegalNum all s.totalIn s.totalOut inAvail outCap ⟨c, 0, s1.totalOut, r⟩
        rw [hto]; exact hleg
      · show s1.totalIn + c = s.totalIn + c
        rw [hti]
      · show s1.totalOut = s.totalOut + 0
        rw [hto]; rfl

/-- the numeric judgement is the specification's judgement of the observed call -/
theorem legal_of_num (all : List FrameD) (content : List Nat) (hlen : content.length = regenAll all) (ds : DState)
    (c : CallResult) (inAvail outCap : Nat) (h : LegalNum all ds.consumed ds.produced inAvail outCap c) :
    DLegal (specOf all content) ds (c.toDCall content inAvail outCap) := by
  obtain ⟨h1, h2, h3, h4, h5⟩ := h
  have hl : ((content.drop c.producedAt).take c.produced).length = c.produced := by
    rw [List.length_take, List.length_drop, h3]; omega
  unfold DLegal CallResult.toDCall specOf
  dsimp only
  refine ⟨h1, by rw [hl]; exact h2, by rw [hl, h3], by rw [hl]; omega, ?_⟩
  rw [hl, beq_iff_eq]
  exact h5

/-- **every call of the model is a legal step of the streaming specification** derived from the frame list (`specOf`), whatever
input and output sizes the caller offers (input within the stream); unless the call reports an error the invariant holds again
and the ghost totals are the specification state after the call -/
theorem step_legal (all : List FrameD) (content : List Nat) (hok : AllOk all) (hlen : content.length = regenAll all)
    (s : State) (hinv : Inv all s) (inAvail outCap : Nat) (hlim : s.totalIn + inAvail ≤ sizeAll all)
    (ds : DState) (hds : ds.consumed = s.totalIn ∧ ds.produced = s.totalOut) :
    DLegal (specOf all content) ds ((step s inAvail outCap).2.toDCall content inAvail outCap) ∧
    ((∀ e, (step s inAvail outCap).2.ret ≠ .err e) →
      Inv all (step s inAvail outCap).1 ∧
      (ds.step ((step s inAvail outCap).2.toDCall content inAvail outCap)).consumed = (step s inAvail outCap).1.totalIn ∧
      (ds.step ((step s inAvail outCap).2.toDCall content inAvail outCap)).produced = (step s inAvail outCap).1.totalOut) := by
  obtain ⟨hleg, hrest⟩ := step_ok all hok s hinv inAvail outCap hlim
  have hleg2 : LegalNum all ds.consumed ds.produced inAvail outCap (step s inAvail outCap).2 := by rw [hds.1, hds.2]; exact hleg
  refine ⟨legal_of_num all content hlen ds _ inAvail outCap hleg2, fun hne => ?_⟩
  obtain ⟨hi, hti, hto⟩ := hrest hne
  obtain ⟨_, _, h3, h4, _⟩ := hleg
  refine ⟨hi, ?_, ?_⟩
  · show ds.consumed + (step s inAvail outCap).2.consumed = _
    rw [hti, hds.1]
  · show ds.produced + ((content.drop (step s inAvail outCap).2.producedAt).take (step s inAvail outCap).2.produced).length = _
    rw [List.length_take, List.length_drop, h3, hto, hds.2]; omega

/-- **completion is reported exactly at frame ends**: the model returns 0 iff right after the call the totals sit on a frame
boundary of the stream and the call consumed or produced something -/
theorem zero_iff_frame_end (all : List FrameD) (hok : AllOk all) (s : State) (hinv : Inv all s) (inAvail outCap : Nat)
    (hlim : s.totalIn + inAvail ≤ sizeAll all) :
    (step s inAvail outCap).2.ret = .hint 0 ↔
      ((s.totalIn + (step s inAvail outCap).2.consumed, s.totalOut + (step s inAvail outCap).2.produced) ∈ endsFrom 0 0 all ∧
       (0 < (step s inAvail outCap).2.consumed ∨ 0 < (step s inAvail outCap).2.produced)) :=
  (step_ok all hok s hinv inAvail outCap hlim).1.2.2.2.2

/-- the observed history of the model under a segmentation: one `(input size, output room)` pair per call -/
def calls (content : List Nat) : State → List (Nat × Nat) → List DCall
  | _, [] => []
  | s, (i, o) :: rest => (step s i o).2.toDCall content i o :: calls content (step s i o).1 rest

/-- a segmentation the caller can actually offer: input sizes within what is left of the stream, and no call reports an error -/
def Feasible (all : List FrameD) : State → List (Nat × Nat) → Prop
  | _, [] => True
  | s, (i, o) :: rest => s.totalIn + i ≤ sizeAll all ∧ (∀ e, (step s i o).2.ret ≠ .err e) ∧ Feasible all (step s i o).1 rest

/-- **the model's history under any segmentation is a legal run of the specification** -/
theorem run_legal (all : List FrameD) (content : List Nat) (hok : AllOk all) (hlen : content.length = regenAll all)
    (io : List (Nat × Nat)) : ∀ (s : State) (ds : DState), Inv all s → ds.consumed = s.totalIn ∧ ds.produced = s.totalOut →
      Feasible all s io → DLegalRun (specOf all content) ds (calls content s io) := by
  induction io with
  | nil => intro _ _ _ _ _; exact trivial
  | cons p rest ih =>
    obtain ⟨i, o⟩ := p
    intro s ds hinv hds hf
    obtain ⟨hlim, hne, hrest⟩ := hf
    obtain ⟨hleg, hnext⟩ := step_legal all content hok hlen s hinv i o hlim ds hds
    obtain ⟨hi, hc, hp⟩ := hnext hne
    exact ⟨hleg, ih _ _ hi ⟨hc, hp⟩ hrest⟩

/-- **any segmentation = one-shot**: whatever the input / output chunk sizes, once the model has produced as many bytes as the
content holds, the bytes it produced (`content[producedAt, producedAt + produced)` call after call) are exactly the content that
single-call decoding yields -/
theorem model_any_segmentation_eq_oneShot (all : List FrameD) (content : List Nat) (hok : AllOk all)
    (hlen : content.length = regenAll all) (io : List (Nat × Nat)) (hf : Feasible all (State.start all) io)
    (hdone : (({} : DState).run (calls content (State.start all) io)).produced = content.length) :
    (({} : DState).run (calls content (State.start all) io)).output = content :=
  ZstdVerif.StreamSpec.any_segmentation_eq_oneShot (specOf all content) _
    (run_legal all content hok hlen io (State.start all) {} (inv_start all) ⟨rfl, rfl⟩ hf) hdone

/-- where the loop can be left with `someMoreWork = 0`: output room exhausted (zdss_flush), input exhausted (zdss_read / zdss_load),
or the end of a frame (zdss_init) -/
def StopP (inAvail outCap : Nat) (s : State) (l : Loc) : Prop :=
  match s.ss with
  | .flush => l.op = outCap
  | .read => l.ip = inAvail
  | .load => l.ip = inAvail
  | _ => True

theorem stLoad_stopP (s : State) (l : Loc) (inAvail outCap : Nat) (hss : s.ss = .load) (hip : l.ip ≤ inAvail) (s1 : State) (l1 : Loc)
    (h : stLoad s l inAvail = .stop s1 l1) : StopP inAvail outCap s1 l1 := by
  unfold stLoad at h
  dsimp only at h
  split at h
  · cases h
  · split at h
    · rename_i hlt
      injection h with h1 h2
      subst h1; subst h2
      simp only [StopP, hss]
      omega
    · cases h

theorem stRead_stopP (s : State) (l : Loc) (inAvail outCap : Nat) (hss : s.ss = .read) (hip : l.ip ≤ inAvail) (s1 : State) (l1 : Loc)
    (h : stRead s l inAvail = .stop s1 l1) : StopP inAvail outCap s1 l1 := by
  unfold stRead at h
  dsimp only at h
  split at h
  · injection h with h1 h2; subst h1; subst h2; simp only [StopP]
  · split at h
    · cases h
    · split at h
      · injection h with h1 h2; subst h1; subst h2; simp only [StopP, hss]; omega
      · exact stLoad_stopP { s with ss := .load } l inAvail outCap rfl hip s1 l1 h

theorem stFlush_stopP (s : State) (l : Loc) (inAvail outCap : Nat) (hss : s.ss = .flush) (hop : l.op ≤ outCap) (s1 : State) (l1 : Loc)
    (h : stFlush s l outCap = .stop s1 l1) : StopP inAvail outCap s1 l1 := by
  unfold stFlush at h
  dsimp only at h
  split at h
  · split at h <;> split at h <;> cases h
  · rename_i hne
    injection h with h1 h2; subst h1; subst h2
    simp only [StopP, hss]
    omega

theorem stLoadHeader_stopP (s : State) (l : Loc) (inAvail outCap : Nat) (hss : s.ss = .loadHeader) (hip : l.ip ≤ inAvail)
    (s1 : State) (l1 : Loc) (h : stLoadHeader s l inAvail outCap = .stop s1 l1) : StopP inAvail outCap s1 l1 := by
  unfold stLoadHeader at h
  dsimp only at h
  split at h
  · split at h
    · unfold hdrShort at h; cases h
    · cases h
  · split at h
    · rename_i f hf
      unfold hdrComplete at h
      split at h
      · injection h with h1 h2; subst h1; subst h2; simp only [StopP]
      · dsimp only at h
        split at h
        · cases h
        · exact stRead_stopP _ l inAvail outCap rfl hip s1 l1 h
    · injection h with h1 h2; subst h1; subst h2; simp only [StopP, hss]

theorem micro_stopP (s : State) (l : Loc) (inAvail outCap : Nat) (hip : l.ip ≤ inAvail) (hop : l.op ≤ outCap) (s1 : State) (l1 : Loc)
    (h : micro s l inAvail outCap = .stop s1 l1) : StopP inAvail outCap s1 l1 := by
  unfold micro at h
  cases hss : s.ss <;> rw [hss] at h <;> dsimp only at h
  · exact stLoadHeader_stopP (stInit s) l inAvail outCap rfl hip s1 l1 h
  · exact stLoadHeader_stopP s l inAvail outCap hss hip s1 l1 h
  · exact stRead_stopP s l inAvail outCap hss hip s1 l1 h
  · exact stLoad_stopP s l inAvail outCap hss hip s1 l1 h
  · exact stFlush_stopP s l inAvail outCap hss hop s1 l1 h

/-- a `return` from inside the loop is an error or the header path that takes everything offered -/
theorem micro_ret (s : State) (l : Loc) (inAvail outCap : Nat) (s1 : State) (c : Nat) (r : Ret)
    (h : micro s l inAvail outCap = .ret s1 c r) : (∃ e, r = .err e) ∨ c = inAvail := by
  have hL : ∀ s l, stLoad s l inAvail = .ret s1 c r → (∃ e, r = .err e) ∨ c = inAvail := by
    intro s l h
    unfold stLoad at h; dsimp only at h
    split at h
    · injection h with _ _ h3; exact Or.inl ⟨_, h3.symm⟩
    · split at h <;> cases h
  have hR : ∀ s l, stRead s l inAvail = .ret s1 c r → (∃ e, r = .err e) ∨ c = inAvail := by
    intro s l h
    unfold stRead at h; dsimp only at h
    split at h
    · cases h
    · split at h
      · cases h
      · split at h
        · cases h
        · exact hL _ _ h
  have hH : ∀ s l, stLoadHeader s l inAvail outCap = .ret s1 c r → (∃ e, r = .err e) ∨ c = inAvail := by
    intro s l h
    unfold stLoadHeader at h; dsimp only at h
    split at h
    · split at h
      · unfold hdrShort at h; injection h with _ h2 _; exact Or.inr h2.symm
      · cases h
    · split at h
      · unfold hdrComplete at h
        split at h
        · cases h
        · dsimp only at h
          split at h
          · injection h with _ _ h3; exact Or.inl ⟨_, h3.symm⟩
          · exact hR _ _ h
      · cases h
  unfold micro at h
  cases hss : s.ss <;> rw [hss] at h <;> dsimp only at h
  · exact hH _ _ h
  · exact hH _ _ h
  · exact hR _ _ h
  · exact hL _ _ h
  · unfold stFlush at h; dsimp only at h
    split at h
    · split at h <;> split at h <;> cases h
    · cases h

theorem loop_facts (all : List FrameD) (hok : AllOk all) (T U inAvail outCap : Nat) (hlim : T + inAvail ≤ sizeAll all) :
    ∀ (fuel : Nat) (s : State) (l : Loc), LInv all s l → Bd s l T U inAvail outCap →
      (∀ s1 l1, loop fuel s l inAvail outCap = .stop s1 l1 → StopP inAvail outCap s1 l1) ∧
      (∀ s1 c r, loop fuel s l inAvail outCap = .ret s1 c r → (∃ e, r = .err e) ∨ c = inAvail) := by
  intro fuel
  induction fuel with
  | zero =>
    intro s l _ _
    exact ⟨(fun _ _ h => by cases h), (fun _ _ _ h => by unfold loop at h; injection h with _ _ h3; exact Or.inl ⟨_, h3.symm⟩)⟩
  | succ n ih =>
    intro s l h hb
    have hm := micro_ok all hok T U inAvail outCap s l h hb hlim
    unfold loop
    cases hmic : micro s l inAvail outCap with
    | cont s1 l1 => rw [hmic] at hm; exact ih s1 l1 hm.1 hm.2
    | stop s1 l1 =>
      refine ⟨fun s2 l2 h2 => ?_, (fun _ _ _ h2 => by cases h2)⟩
      injection h2 with h3 h4; subst h3; subst h4
      exact micro_stopP s l inAvail outCap hb.ip hb.op _ _ hmic
    | ret s1 c r =>
      refine ⟨(fun _ _ h2 => by cases h2), fun s2 c2 r2 h2 => ?_⟩
      injection h2 with h3 h4 h5; subst h3; subst h4; subst h5
      exact micro_ret s l inAvail outCap _ _ _ hmic

theorem finish_vals_core (s : State) (l : Loc) (inAvail nf : Nat) (c1 c2 : Bool) (e1 e2 : ErrClass) :
    (∀ e, (if c1 = true then (({ s with noFwd := nf } : State), (⟨0, 0, s.totalOut, .err e1⟩ : CallResult))
       else if c2 = true then ({ s with noFwd := nf }, ⟨0, 0, s.totalOut, .err e2⟩)
       else
         ({ (result { s with noFwd := nf } l inAvail).1 with
              totalIn := (result { s with noFwd := nf } l inAvail).1.totalIn + (result { s with noFwd := nf } l inAvail).2.1,
              totalOut := (result { s with noFwd := nf } l inAvail).1.totalOut + l.op },
          ⟨(result { s with noFwd := nf } l inAvail).2.1, l.op, s.totalOut, (result { s with noFwd := nf } l inAvail).2.2⟩)).2.ret ≠ .err e) →
    (if c1 = true then (({ s with noFwd := nf } : State), (⟨0, 0, s.totalOut, .err e1⟩ : CallResult))
       else if c2 = true then ({ s with noFwd := nf }, ⟨0, 0, s.totalOut, .err e2⟩)
       else
         ({ (result { s with noFwd := nf } l inAvail).1 with
              totalIn := (result { s with noFwd := nf } l inAvail).1.totalIn + (result { s with noFwd := nf } l inAvail).2.1,
              totalOut := (result { s with noFwd := nf } l inAvail).1.totalOut + l.op },
          ⟨(result { s with noFwd := nf } l inAvail).2.1, l.op, s.totalOut, (result { s with noFwd := nf } l inAvail).2.2⟩)).2.consumed =
      (result { s with noFwd := nf } l inAvail).2.1 ∧
    (if c1 = true then (({ s with noFwd := nf } : State), (⟨0, 0, s.totalOut, .err e1⟩ : CallResult))
       else if c2 = true then ({ s with noFwd := nf }, ⟨0, 0, s.totalOut, .err e2⟩)
       else
         ({ (result { s with noFwd := nf } l inAvail).1 with
              totalIn := (result { s with noFwd := nf } l inAvail).1.totalIn + (result { s with noFwd := nf } l inAvail).2.1,
              totalOut := (result { s with noFwd := nf } l inAvail).1.totalOut + l.op },
          ⟨(result { s with noFwd := nf } l inAvail).2.1, l.op, s.totalOut, (result { s with noFwd := nf } l inAvail).2.2⟩)).2.produced = l.op := by
  cases c1
  · cases c2
    · intro _; simp
    · intro hne; simp only [Bool.false_eq_true, if_false, if_true] at hne; exact absurd rfl (hne _)
  · intro hne; simp only [if_true] at hne; exact absurd rfl (hne _)

/-- unless it reports an error, `finish` reports what `result` computes and the bytes flushed in this call -/
theorem finish_vals (s : State) (l : Loc) (inAvail outCap : Nat) (hne : ∀ e, (finish s l inAvail outCap).2.ret ≠ .err e) :
    ∃ nf, (finish s l inAvail outCap).2.consumed = (result { s with noFwd := nf } l inAvail).2.1 ∧
      (finish s l inAvail outCap).2.produced = l.op :=
  ⟨_, finish_vals_core s l inAvail _ _ _ _ _ hne⟩

theorem result_consumed_ne (s : State) (l : Loc) (inAvail : Nat) (h : s.d.expected ≠ 0) : (result s l inAvail).2.1 = l.ip := by
  unfold result
  rw [if_neg (by simpa [DCtx.nextSrcSize] using h)]

theorem result_consumed_done (s : State) (l : Loc) (inAvail : Nat) (he : s.d.expected = 0) (hfl : s.outEnd = s.outStart)
    (hk : s.hostage = false → 1 ≤ l.ip) (hi : 0 < inAvail) : 0 < (result s l inAvail).2.1 := by
  unfold result
  rw [if_pos (by simpa [DCtx.nextSrcSize] using he), if_pos hfl]
  cases hh : s.hostage with
  | false => have := hk hh; simp only [Bool.false_eq_true, if_false]; omega
  | true =>
    simp only [if_true]
    split <;> dsimp only <;> omega

/-- **progress (input side)**: a call that is offered at least one byte of input and at least one byte of output room, and does not
report an error, consumes or produces at least one byte -/
theorem progress_input (all : List FrameD) (hok : AllOk all) (s : State) (hinv : Inv all s) (inAvail outCap : Nat)
    (hlim : s.totalIn + inAvail ≤ sizeAll all) (hi : 0 < inAvail) (ho : 0 < outCap)
    (hne : ∀ e, (step s inAvail outCap).2.ret ≠ .err e) :
    0 < (step s inAvail outCap).2.consumed ∨ 0 < (step s inAvail outCap).2.produced := by
  obtain ⟨hl, hnc⟩ := loop_ok all hok s.totalIn s.totalOut inAvail outCap hlim (loopFuel inAvail) s {} hinv
    ⟨Nat.zero_le _, Nat.zero_le _, rfl, rfl⟩
  obtain ⟨hst, hrt⟩ := loop_facts all hok s.totalIn s.totalOut inAvail outCap hlim (loopFuel inAvail) s {} hinv
    ⟨Nat.zero_le _, Nat.zero_le _, rfl, rfl⟩
  unfold step at hne ⊢
  cases hlo : loop (loopFuel inAvail) s {} inAvail outCap with
  | cont s1 l1 => exact absurd hlo (hnc s1 l1)
  | ret s1 c r =>
    rw [hlo] at hne
    rcases hrt s1 c r hlo with ⟨e, he⟩ | hc
    · exact absurd (by show r = .err e; exact he) (hne e)
    · left; show 0 < c; omega
  | stop s1 l1 =>
    rw [hlo] at hne hl
    obtain ⟨hs, hb⟩ := hl
    have hP := hst s1 l1 hlo
    obtain ⟨nf, hc, hp⟩ := finish_vals s1 l1 inAvail outCap hne
    show 0 < (finish s1 l1 inAvail outCap).2.consumed ∨ 0 < (finish s1 l1 inAvail outCap).2.produced
    rw [hc, hp]
    have f1 : s1.d.expected ≠ 0 → (result { s1 with noFwd := nf } l1 inAvail).2.1 = l1.ip := result_consumed_ne { s1 with noFwd := nf } l1 inAvail
    have f2 : s1.d.expected = 0 → s1.outEnd = s1.outStart → (s1.hostage = false → 1 ≤ l1.ip) →
        0 < (result { s1 with noFwd := nf } l1 inAvail).2.1 := fun a b c => result_consumed_done { s1 with noFwd := nf } l1 inAvail a b c hi
    generalize (result { s1 with noFwd := nf } l1 inAvail).2.1 = X at f1 f2 ⊢
    unfold SInv at hs
    unfold StopP at hP
    cases hss : s1.ss <;> rw [hss] at hs hP <;> dsimp only at hP
    · obtain ⟨pre, hall, di⟩ := hs
      left
      exact f2 di.ex di.fl.symm di.k
    · exact hs.elim
    · obtain ⟨⟨pre, hall, fi⟩, he⟩ := hs
      left; rw [f1 he]; omega
    · obtain ⟨pre, hall, fi⟩ := hs
      have := fi.inp1 hss
      left; rw [f1 (by omega)]; omega
    · right; omega

/-- what is left of the stream and of its content: the termination measure of a decoding session -/
def slack (all : List FrameD) (s : State) : Nat := (sizeAll all - s.totalIn) + (regenAll all - s.totalOut)

/-- **no livelock**: every call that is offered input and output room and does not report an error strictly decreases `slack` -/
theorem no_livelock (all : List FrameD) (hok : AllOk all) (s : State) (hinv : Inv all s) (inAvail outCap : Nat)
    (hlim : s.totalIn + inAvail ≤ sizeAll all) (hi : 0 < inAvail) (ho : 0 < outCap)
    (hne : ∀ e, (step s inAvail outCap).2.ret ≠ .err e) :
    slack all (step s inAvail outCap).1 < slack all s := by
  obtain ⟨hleg, hrest⟩ := step_ok all hok s hinv inAvail outCap hlim
  obtain ⟨hi2, hti, hto⟩ := hrest hne
  have hU := inv_out_le hi2
  have hc := hleg.1
  have hp := progress_input all hok s hinv inAvail outCap hlim hi ho hne
  unfold slack
  rw [hti, hto] at *
  omega

/-- every call of the segmentation offers at least one byte of input and one byte of output room -/
def Offered : List (Nat × Nat) → Prop
  | [] => True
  | (i, o) :: rest => 0 < i ∧ 0 < o ∧ Offered rest

/-- **bounded number of calls**: a session in which every call is offered input and output room (and none reports an error)
has at most `slack` = (bytes of the stream left) + (bytes of content left) calls — there is no infinite sequence of idle calls -/
theorem calls_bounded (all : List FrameD) (hok : AllOk all) (io : List (Nat × Nat)) :
    ∀ (s : State), Inv all s → Feasible all s io → Offered io → io.length ≤ slack all s := by
  induction io with
  | nil => intro _ _ _ _; exact Nat.zero_le _
  | cons p rest ih =>
    obtain ⟨i, o⟩ := p
    intro s hinv hf hoff
    obtain ⟨hlim, hne, hrest⟩ := hf
    obtain ⟨hi, ho, hoff2⟩ := hoff
    have hdec := no_livelock all hok s hinv i o hlim hi ho hne
    have hi2 := ((step_ok all hok s hinv i o hlim).2 hne).1
    have := ih _ hi2 hrest hoff2
    simp only [List.length_cons]
    omega

/-- the returns of a run in which every call is offered exactly the previous return value (5 at the start) and `room` bytes of output -/
def hintedRets : Nat → State → Nat → Nat → List Nat
  | 0, _, _, _ => []
  | fuel + 1, s, hint, room =>
    match (step s hint room).2.ret with
    | .err _ => []
    | .hint 0 => [0]
    | .hint n => n :: hintedRets fuel (step s hint room).1 n room

def exFrame : FrameD :=
  { skippable := false, headerSize := 6, blocks := [⟨.raw, 5, 5, false⟩, ⟨.compressed, 10, 20, false⟩, ⟨.rle, 1, 7, true⟩], checksum := true,
    fcs := some 32, windowSize := 1024, blockSizeMax := 1024 }

example : exFrame.ok = true := by decide
example : hintedRets 20 (State.start [exFrame]) 5 1000 = (Stream.hints exFrame.shape).tail ++ [0] := by decide +kernel
example : 5 :: hintedRets 20 (State.start [exFrame]) 5 1000 = [5, 4, 8, 13, 1, 4, 0] := by decide +kernel
/-- non-vacuity of `model_any_segmentation_eq_oneShot`: three segmentations of the 35-byte stream `[exFrame]` all deliver its 32 bytes -/
example : (({} : DState).run (calls (List.range 32) (State.start [exFrame]) [(35, 32)])).output = List.range 32 := by decide +kernel
example : (({} : DState).run (calls (List.range 32) (State.start [exFrame]) (List.replicate 35 (1, 100)))).output = List.range 32 := by
  decide +kernel
example : (({} : DState).run (calls (List.range 32) (State.start [exFrame]) [(10, 100), (25, 100)])).output = List.range 32 := by decide +kernel

/-!
## What is proved above, and what is left (exact statements)

PROVED: `step_legal` (every call of the model is a `Stream.DLegal` step of `specOf all content`), `zero_iff_frame_end`, `run_legal`,
`model_any_segmentation_eq_oneShot` (with Props.C02), `progress_input`, `no_livelock`, `calls_bounded`; underneath them `micro_ok`,
`loop_ok`, `finish_ok`, `stLoadHeader_ok`, `result_done`, `result_inframe`, `continue_acct`.

PROVED in the follow-up modules (statements as announced here, see there):

  Lemmas/DStreamHint.lean
    theorem progress_output (all) (hok : AllOk all) (s) (hinv : Inv all s) (inAvail outCap)
      (hlim : s.totalIn + inAvail ≤ sizeAll all) (hss : s.ss = .flush) (hpend : s.outStart < s.outEnd) (ho : 0 < outCap)
      (hne : ∀ e, (step s inAvail outCap).2.ret ≠ .err e) : 0 < (step s inAvail outCap).2.produced
    -- pending output and output room, even with no input (`progress_output_core`: the invariant is not even needed: `l.op` never
    -- decreases along `loop`, the first turn `stFlush` makes `1 ≤ l.op`, a loop started inside a frame never takes the `hdrShort` return).
    -- NOTE (true of the C code as well): with `outCap = 0` a call can report consumed = 0 although it took a byte, because the
    -- last byte of a frame is withheld (`hostageByte`) until the output is flushed — hence the `0 < outCap` hypothesis.

    theorem hint_exact (f : FrameD) (hok : f.ok = true) (room : Nat) (hroom : f.blockSizeMax ≤ room)
      (hwin : f.windowSize ≤ ZSTD_MAXWINDOWSIZE_DEFAULT) :
      hintedRets (2 * f.blocks.length + 8) (State.start [f]) 5 room = (Stream.hints f.shape).tail ++ [0]
    -- the statement announced here earlier had no `hwin`; without it the statement is FALSE (a frame with a 2^28 window is `ok`,
    -- but the second call refuses it with windowTooLarge, as the C function does): see `bigWindowFrame` there.
    -- with Props.C10.hints_within_frame this gives "never asks for bytes beyond the end of the current frame"
    -- (Props.C10.dstream_hint_never_beyond_frame).

  Lemmas/DStreamRing.lean
    structure RingInv, theorem ring_step (every call keeps it), theorem ring_keeps_window_inv / ring_keeps_window:
      between calls, s.ss = .read, s.d.expected ≠ 0 (a block header, a block body or the checksum is awaited):
      (s.outStart + s.d.blockSizeMax ≤ s.outBuffSize ∨ ∃ n, s.d.fcs = some n ∧ n ≤ s.outBuffSize)      -- room for the next block
      ∧ (s.segEnd ≠ 0 → s.d.blockSizeMax + s.d.windowSize ≤ s.segEnd)
      -- the `windowSize - outStart` bytes of history still needed from before the restart, [segEnd - (windowSize - outStart), segEnd),
      -- start after the end of the block about to be written, [outStart, outStart + blockSizeMax)
    -- holds because a restart happens only when outStart + blockSizeMax > outBuffSize ≥ windowSize + 2 * blockSizeMax + 64.
-/

end ZstdVerif.DStream
