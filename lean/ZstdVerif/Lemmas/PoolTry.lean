/-
`POOL_tryAdd` tells the truth: ghost lemmas relating the list of posts that were answered 1 (`tryOk`) with the list of
jobs really enqueued (`accepted`), for every transition of the LTS (Model/Pool.lean).  Used by Props/C12.
-/
import ZstdVerif.Lemmas.Pool
namespace ZstdVerif.Pool

/-- ghost effect of `POOL_add_internal` -/
theorem addInternal_ghost (s : St) (j : Job) (k : Nat) :
    (addInternal s j k).1.tryOk = s.tryOk ∧
    ((s.shutdown = true ∧ (addInternal s j k).1.accepted = s.accepted) ∨
     (s.shutdown = false ∧ (addInternal s j k).1.accepted = s.accepted ++ [j])) := by
  unfold addInternal signalPop
  cases hsd : s.shutdown <;> simp <;> split <;> simp

def TryStep (s s' : St) : Prop :=
  (s'.tryOk = s.tryOk ∧ (s'.accepted = s.accepted ∨ ∃ x, s'.accepted = s.accepted ++ [x])) ∨
  (∃ x, s'.tryOk = s.tryOk ++ [x] ∧ s'.accepted = s.accepted ++ [x])

theorem tryStep_worker {body : Job → List JOp} {s s' : St} {a : List Act} {i sig : Nat}
    (hs : stepWorker body s i sig = some (s', a)) : TryStep s s' := by
  unfold stepWorker at hs
  unfold TryStep
  split at hs
  all_goals try (simp at hs; done)
  · split at hs
    · split at hs
      · cases hs; simp
      · cases hs; simp
    · split at hs
      · simp at hs
      · cases hs; simp [bcastPush]
  · split at hs
    · split at hs
      · cases hs; simp
      · cases hs; simp
    · split at hs
      · simp at hs
      · cases hs; simp [bcastPush]
  · cases hs; simp [bcastPush]
  · -- run j (add a :: rest)
    rename_i j a0 rest hw
    split at hs
    · cases hs; simp
    · obtain ⟨h1, h2⟩ := addInternal_ghost s a0 sig
      cases hs; simp only
      rcases h2 with ⟨_, h2⟩ | ⟨_, h2⟩
      · exact Or.inl ⟨h1, Or.inl h2⟩
      · exact Or.inl ⟨h1, Or.inr ⟨a0, h2⟩⟩
  · rename_i j a0 rest hw
    split at hs
    · cases hs; simp
    · obtain ⟨h1, h2⟩ := addInternal_ghost s a0 sig
      cases hs; simp only
      rcases h2 with ⟨_, h2⟩ | ⟨_, h2⟩
      · exact Or.inl ⟨h1, Or.inl h2⟩
      · exact Or.inl ⟨h1, Or.inr ⟨a0, h2⟩⟩
  · -- run j (tryAdd a :: rest)
    rename_i j a0 rest hw
    split at hs
    · cases hs; simp
    · rename_i hc
      obtain ⟨h1, h2⟩ := addInternal_ghost s a0 sig
      cases hs; simp only
      rcases h2 with ⟨hsd, _⟩ | ⟨_, h2⟩
      · exact absurd (by simp [hsd]) hc
      · exact Or.inr ⟨a0, congrArg (· ++ [a0]) h1, h2⟩

theorem tryStep_client {s s' : St} {a : List Act} {i sig : Nat}
    (hs : stepClient s i sig = some (s', a)) : TryStep s s' := by
  unfold stepClient at hs
  unfold TryStep
  split at hs
  · simp at hs
  · split at hs
    all_goals try (simp at hs; done)
    all_goals (try split at hs)
    all_goals try (simp at hs; done)
    case h_4.isFalse =>
      rename_i j rest _ _ _
      obtain ⟨h1, h2⟩ := addInternal_ghost s j sig
      cases hs; simp only [setClient]
      rcases h2 with ⟨_, h2⟩ | ⟨_, h2⟩
      · exact Or.inl ⟨h1, Or.inl h2⟩
      · exact Or.inl ⟨h1, Or.inr ⟨j, h2⟩⟩
    case h_5.isFalse =>
      rename_i j rest _ _ _
      obtain ⟨h1, h2⟩ := addInternal_ghost s j sig
      cases hs; simp only [setClient]
      rcases h2 with ⟨_, h2⟩ | ⟨_, h2⟩
      · exact Or.inl ⟨h1, Or.inl h2⟩
      · exact Or.inl ⟨h1, Or.inr ⟨j, h2⟩⟩
    case h_6.isFalse =>
      rename_i j rest _ _ hc
      obtain ⟨h1, h2⟩ := addInternal_ghost s j sig
      cases hs; simp only [setClient]
      rcases h2 with ⟨hsd, _⟩ | ⟨_, h2⟩
      · exact absurd (by simp [hsd]) hc
      · exact Or.inr ⟨j, congrArg (· ++ [j]) h1, h2⟩
    case h_9 =>
      cases hs; simp only [setClient, resize, bcastPush, bcastPop]
      split <;> (try split) <;> simp
    all_goals (cases hs; simp [setClient, bcastPush, bcastPop])

/-- every transition either leaves `tryOk` alone (and `accepted` only grows at the tail) or appends the same job to both -/
theorem tryStep_step {body : Job → List JOp} {s s' : St} {l : Label} {a : List Act}
    (hs : step body s l = some (s', a)) : TryStep s s' := by
  unfold step at hs
  cases l with
  | worker i sig =>
    simp only at hs; split at hs
    · exact tryStep_worker hs
    · simp at hs
  | client i sig =>
    simp only at hs; split at hs
    · exact tryStep_client hs
    · simp at hs
  | spuriousW i =>
    simp only [Option.map_eq_some_iff] at hs
    obtain ⟨s1, h1, h2⟩ := hs
    cases h2
    unfold spuriousW at h1
    unfold TryStep
    split at h1 <;> (first | (cases h1; simp) | simp at h1)
  | spuriousC i =>
    simp only [Option.map_eq_some_iff] at hs
    obtain ⟨s1, h1, h2⟩ := hs
    cases h2
    unfold spuriousC at h1
    unfold TryStep
    split at h1 <;> (first | (cases h1; simp [setClient]) | simp at h1)

theorem tryStep_count {s s' : St} (h : TryStep s s') (j : Job) (hc : s.tryOk.count j ≤ s.accepted.count j) :
    s'.tryOk.count j ≤ s'.accepted.count j := by
  rcases h with ⟨h1, h2 | ⟨x, h2⟩⟩ | ⟨x, h1, h2⟩
  · rw [h1, h2]; exact hc
  · rw [h1, h2, List.count_append]; omega
  · rw [h1, h2, List.count_append, List.count_append]; omega

end ZstdVerif.Pool
