/-
Sequence execution of the decoder model (Model/Exec.lean, used by Model/Block.lean `decodeBlock`):

  A   `exec_of_validParse`            executing any valid parse of `x` (over the history `dict ++ prev`) regenerates exactly `x`
  B1  `exec_within_capacity`          the output never exceeds the capacity and never rewrites what was already produced
  B2  `exec_no_oob`                   under the three checks of `Exec.step` no access of `step` / `copyMatch` is out of range
  B3  `decodeBlock_within_capacity`   B1 for the whole compressed-block decoder
  B4  `decompressFrame_within_capacity`, `decompressAll_within_capacity`, `decompressPrefix_within_capacity`
                                      the frame / multi-frame / prefix decoders never exceed `cap`
-/
import ZstdVerif.Model.Frame
namespace ZstdVerif.Exec

/-! ### `[i]!` on byte arrays -/

theorem bang_append_left {a b : ByteArray} {i : Nat} (h : i < a.size) : (a ++ b)[i]! = a[i]! := by
  rw [getElem!_pos (a ++ b) i (by rw [ByteArray.size_append]; omega), getElem!_pos a i h]
  exact ByteArray.getElem_append_left h

theorem bang_append_right {a b : ByteArray} {i : Nat} (h : a.size ≤ i) : (a ++ b)[i]! = b[i - a.size]! := by
  by_cases hi : i < (a ++ b).size
  · have hb : i - a.size < b.size := by rw [ByteArray.size_append] at hi; omega
    rw [getElem!_pos (a ++ b) i hi, getElem!_pos b _ hb]
    exact ByteArray.getElem_append_right h
  · have hb : ¬ i - a.size < b.size := by rw [ByteArray.size_append] at hi; omega
    rw [getElem!_neg (a ++ b) i hi, getElem!_neg b _ hb]

theorem bang_extract {b : ByteArray} {s e i : Nat} (h : s + i < e) (he : e ≤ b.size) : (b.extract s e)[i]! = b[s + i]! := by
  have h1 : i < (b.extract s e).size := by rw [ByteArray.size_extract]; omega
  rw [getElem!_pos _ i h1, getElem!_pos b (s + i) (by omega)]
  exact ByteArray.getElem_extract h1

theorem extract_push {b : ByteArray} {s e : Nat} (hs : s ≤ e) (he : e < b.size) :
    (b.extract s e).push b[e]! = b.extract s (e + 1) := by
  rw [getElem!_pos b e he, ← ByteArray.append_toByteArray_singleton, ← ByteArray.extract_add_one (by omega),
    ByteArray.extract_append_extract, Nat.min_eq_left hs, Nat.max_eq_right (by omega)]

theorem append_push {a b : ByteArray} {c : UInt8} : (a ++ b).push c = a ++ b.push c := by
  rw [← ByteArray.append_toByteArray_singleton, ByteArray.append_assoc, ByteArray.append_toByteArray_singleton]

/-! ### `copyMatch` -/

theorem copyMatch_size (dict o : ByteArray) (fs off ml : Nat) : (copyMatch dict o fs off ml).size = o.size + ml := by
  induction ml generalizing o with
  | zero => simp [copyMatch]
  | succ n ih =>
    simp only [copyMatch]
    split <;> rw [ih, ByteArray.size_push] <;> omega

/-- the bytes appended by `copyMatch` come after `o`, which is left untouched -/
theorem copyMatch_eq_append (dict o : ByteArray) (fs off ml : Nat) :
    ∃ t : ByteArray, t.size = ml ∧ copyMatch dict o fs off ml = o ++ t := by
  induction ml generalizing o with
  | zero => exact ⟨ByteArray.empty, rfl, by simp [copyMatch]⟩
  | succ n ih =>
    simp only [copyMatch]
    split
    · obtain ⟨t, ht, h⟩ := ih (o.push o[o.size - off]!)
      refine ⟨[o[o.size - off]!].toByteArray ++ t, ?_, ?_⟩
      · rw [ByteArray.size_append, ht]; simp; omega
      · rw [h, ← ByteArray.append_assoc, ByteArray.append_toByteArray_singleton]
    · obtain ⟨t, ht, h⟩ := ih (o.push dict[dict.size - (off - (o.size - fs))]!)
      refine ⟨[dict[dict.size - (off - (o.size - fs))]!].toByteArray ++ t, ?_, ?_⟩
      · rw [ByteArray.size_append, ht]; simp; omega
      · rw [h, ← ByteArray.append_assoc, ByteArray.append_toByteArray_singleton]

/-- the first `o.size` bytes of the result are `o` -/
theorem copyMatch_prefix (dict o : ByteArray) (fs off ml : Nat) : (copyMatch dict o fs off ml).extract 0 o.size = o := by
  obtain ⟨t, _, h⟩ := copyMatch_eq_append dict o fs off ml
  rw [h]; exact ByteArray.extract_append_eq_left rfl

theorem copyMatch_get_lt (dict o : ByteArray) (fs off ml i : Nat) (h : i < o.size) : (copyMatch dict o fs off ml)[i]! = o[i]! := by
  obtain ⟨t, _, ht⟩ := copyMatch_eq_append dict o fs off ml
  rw [ht]; exact bang_append_left h

/-- byte `o.size + i` of the result is the byte `off` positions behind it in the history `dict ++ (frame part of the RESULT)`:
for an overlapping match (`off ≤ i`) that is a byte written by this very copy.  Hypotheses: the two things `Exec.step` checks or the
format guarantees (`1 ≤ off`, `off ≤ pos + dict.size`) and `fs ≤ o.size` (the frame starts inside the output). -/
theorem copyMatch_get (dict o : ByteArray) (fs off ml i : Nat) (hfs : fs ≤ o.size) (h1 : 1 ≤ off)
    (hoff : off ≤ o.size - fs + dict.size) (hi : i < ml) :
    (copyMatch dict o fs off ml)[o.size + i]! =
      (dict ++ (copyMatch dict o fs off ml).extract fs (o.size + ml))[dict.size + (o.size - fs) + i - off]! := by
  induction ml generalizing o i with
  | zero => omega
  | succ n ih =>
    -- the byte pushed first, described on the history of `o`
    have hb : ∀ b : UInt8, (if off ≤ o.size - fs then o[o.size - off]! else dict[dict.size - (off - (o.size - fs))]!) = b →
        copyMatch dict o fs off (n + 1) = copyMatch dict (o.push b) fs off n := by
      intro b hb
      simp only [copyMatch]
      split <;> rename_i hc <;> simp only [hc, if_true, if_false] at hb <;> rw [hb]
    generalize hbe : (if off ≤ o.size - fs then o[o.size - off]! else dict[dict.size - (off - (o.size - fs))]!) = b
    have hstep := hb b hbe
    have hsz : (o.push b).size = o.size + 1 := ByteArray.size_push
    cases i with
    | zero =>
      -- the first byte: the source lies in `dict ++ o[fs:]`, a prefix of the final history
      obtain ⟨t, ht, hr⟩ := copyMatch_eq_append dict (o.push b) fs off n
      rw [hstep, Nat.add_zero, copyMatch_get_lt dict (o.push b) fs off n o.size (by omega), ByteArray.getElem!_push_eq]
      rw [hr, ← ByteArray.append_toByteArray_singleton, ByteArray.append_assoc]
      by_cases hc : off ≤ o.size - fs
      · have hs : (o ++ ([b].toByteArray ++ t)).size = o.size + (n + 1) := by
          rw [ByteArray.size_append, ByteArray.size_append, ht]; simp; omega
        rw [bang_append_right (by omega), bang_extract (by omega) (by omega), bang_append_left (by omega)]
        rw [if_pos hc] at hbe
        rw [← hbe]; congr 1; omega
      · rw [bang_append_left (by omega)]
        rw [if_neg hc] at hbe
        rw [← hbe]; congr 1; omega
    | succ j =>
      have := ih (o.push b) j (by omega) (by omega) (by omega)
      rw [hstep]
      rw [hsz] at this
      rw [show o.size + (j + 1) = o.size + 1 + j by omega, this]
      congr 2
      · congr 1; omega
      · omega

/-- the copy lemma used for the round trip: `Y` = content of the current frame (already produced part followed by what is to come),
`q` bytes of it produced so far, `pre` = output of earlier frames.  If the next `ml` bytes of `Y` repeat the history at distance
`off` (overlap allowed), `copyMatch` produces exactly these bytes. -/
theorem copyMatch_spec (dict pre Y : ByteArray) (off ml q : Nat) (hq : q + ml ≤ Y.size) (h1 : 1 ≤ off) (hoff : off ≤ q + dict.size)
    (hrep : ∀ i, i < ml → (dict ++ Y)[dict.size + q + i]! = (dict ++ Y)[dict.size + q + i - off]!) :
    copyMatch dict (pre ++ Y.extract 0 q) pre.size off ml = pre ++ Y.extract 0 (q + ml) := by
  induction ml generalizing q with
  | zero => rfl
  | succ n ih =>
    have hsz : (pre ++ Y.extract 0 q).size = pre.size + q := by
      rw [ByteArray.size_append, ByteArray.size_extract]; omega
    have h0 := hrep 0 (by omega)
    rw [Nat.add_zero, bang_append_right (by omega), show dict.size + q - dict.size = q by omega] at h0
    have hnext : ∀ b : UInt8, b = Y[q]! →
        copyMatch dict ((pre ++ Y.extract 0 q).push b) pre.size off n = pre ++ Y.extract 0 (q + (n + 1)) := by
      intro b hb
      rw [hb, append_push, extract_push (by omega) (by omega), show q + (n + 1) = q + 1 + n by omega]
      apply ih (q + 1) (by omega) (by omega)
      intro i hi
      have := hrep (i + 1) (by omega)
      rw [show dict.size + (q + 1) + i = dict.size + q + (i + 1) by omega]
      exact this
    simp only [copyMatch]
    rw [hsz, show pre.size + q - pre.size = q by omega]
    split
    · rename_i hc
      apply hnext
      rw [h0, bang_append_right (by omega), bang_append_right (by omega),
        bang_extract (by omega) (by omega)]
      congr 1; omega
    · rename_i hc
      apply hnext
      rw [h0, bang_append_left (by omega)]
      congr 1; omega

/-! ### valid parses and the round trip (A) -/

/-- `ValidFrom dict Y lits q lp seqs`: `Y` is the content of the current frame (`prev ++ x`), of which `q` bytes are accounted for;
`lp` literal bytes are used up.  Walking the sequences: the literal run is the next `ll` bytes of `Y`; the match has a distance
between 1 and (position in the frame) + `dict.size` and the next `ml` bytes of `Y` repeat the history `dict ++ Y` at that distance
(byte-wise, so a match may overlap the bytes it produces); after the last sequence the unused literals are exactly the rest of `Y`. -/
def ValidFrom (dict Y lits : ByteArray) : Nat → Nat → List Seq → Prop
  | q, lp, [] => q ≤ Y.size ∧ lp ≤ lits.size ∧ lits.extract lp lits.size = Y.extract q Y.size
  | q, lp, s :: rest =>
      lp + s.ll ≤ lits.size ∧ q + s.ll + s.ml ≤ Y.size ∧
      lits.extract lp (lp + s.ll) = Y.extract q (q + s.ll) ∧
      1 ≤ s.offset ∧ s.offset ≤ q + s.ll + dict.size ∧
      (∀ i, i < s.ml → (dict ++ Y)[dict.size + (q + s.ll) + i]! = (dict ++ Y)[dict.size + (q + s.ll) + i - s.offset]!) ∧
      ValidFrom dict Y lits (q + s.ll + s.ml) (lp + s.ll) rest

instance ValidFrom.instDecidable (dict Y lits : ByteArray) : ∀ (q lp : Nat) (seqs : List Seq), Decidable (ValidFrom dict Y lits q lp seqs)
  | q, lp, [] => by unfold ValidFrom; exact inferInstance
  | q, lp, s :: rest => by
      unfold ValidFrom
      have := ValidFrom.instDecidable dict Y lits (q + s.ll + s.ml) (lp + s.ll) rest
      exact inferInstance

/-- `(lits, seqs)` is a valid parse of the block content `x` over the history `dict ++ prev` (`prev` = what the current frame has
produced before this block) -/
def ValidParse (dict prev x lits : ByteArray) (seqs : List Seq) : Prop :=
  ValidFrom dict (prev ++ x) lits prev.size 0 seqs

instance (dict prev x lits : ByteArray) (seqs : List Seq) : Decidable (ValidParse dict prev x lits seqs) := by
  unfold ValidParse; exact inferInstance

/-- one valid sequence executes without error and advances the output by its literal run and its match -/
theorem step_of_valid (dict pre Y lits : ByteArray) (cap q lp : Nat) (s : Seq) (hcap : pre.size + Y.size ≤ cap)
    (hl : lp + s.ll ≤ lits.size) (hq : q + s.ll + s.ml ≤ Y.size)
    (hlit : lits.extract lp (lp + s.ll) = Y.extract q (q + s.ll)) (h1 : 1 ≤ s.offset) (hoff : s.offset ≤ q + s.ll + dict.size)
    (hrep : ∀ i, i < s.ml → (dict ++ Y)[dict.size + (q + s.ll) + i]! = (dict ++ Y)[dict.size + (q + s.ll) + i - s.offset]!) :
    step dict pre.size cap lits (pre ++ Y.extract 0 q) lp s = .ok (pre ++ Y.extract 0 (q + s.ll + s.ml), lp + s.ll) := by
  have hsz : (pre ++ Y.extract 0 q).size = pre.size + q := by
    rw [ByteArray.size_append, ByteArray.size_extract]; omega
  unfold step
  rw [hsz, if_neg (by omega), if_neg (by omega), if_neg (by omega), hlit, ByteArray.append_assoc,
    ByteArray.extract_append_extract, Nat.min_eq_left (Nat.zero_le _), Nat.max_eq_right (by omega),
    copyMatch_spec dict pre Y s.offset s.ml (q + s.ll) hq h1 hoff hrep]

theorem exec_from (dict pre Y lits : ByteArray) (cap : Nat) (hcap : pre.size + Y.size ≤ cap) (seqs : List Seq) (q lp : Nat)
    (hv : ValidFrom dict Y lits q lp seqs) :
    ∃ q' lp', runSeqs dict pre.size cap lits (pre ++ Y.extract 0 q) lp seqs = .ok (pre ++ Y.extract 0 q', lp') ∧
      lastLiterals cap lits (pre ++ Y.extract 0 q') lp' = .ok (pre ++ Y) := by
  induction seqs generalizing q lp with
  | nil =>
    obtain ⟨hq, hlp, hrest⟩ := hv
    refine ⟨q, lp, rfl, ?_⟩
    have hsz : (pre ++ Y.extract 0 q).size = pre.size + q := by
      rw [ByteArray.size_append, ByteArray.size_extract]; omega
    have hs := congrArg ByteArray.size hrest
    rw [ByteArray.size_extract, ByteArray.size_extract] at hs
    unfold lastLiterals
    rw [hsz, if_neg (by omega), hrest, ByteArray.append_assoc, ByteArray.extract_append_extract,
      Nat.min_eq_left (Nat.zero_le _), Nat.max_eq_right hq, ByteArray.extract_zero_size]
  | cons s rest ih =>
    obtain ⟨hl, hq, hlit, h1, hoff, hrep, hrest⟩ := hv
    obtain ⟨q', lp', hr, hlast⟩ := ih _ _ hrest
    refine ⟨q', lp', ?_, hlast⟩
    simp only [runSeqs, step_of_valid dict pre Y lits cap q lp s hcap hl hq hlit h1 hoff hrep]
    exact hr

/-- **Theorem A**, general form: `pre` = output of earlier frames (never read), `prev` = what the current frame has produced so far.
Executing a valid parse of `x` appends exactly `x`. -/
theorem exec_of_validParse_frame (dict pre prev x lits : ByteArray) (seqs : List Seq) (cap : Nat)
    (hv : ValidParse dict prev x lits seqs) (hcap : pre.size + prev.size + x.size ≤ cap) :
    run dict { out := pre ++ prev, frameStart := pre.size, cap := cap } lits seqs = .ok (pre ++ prev ++ x) := by
  have hY : (prev ++ x).extract 0 prev.size = prev := ByteArray.extract_append_eq_left rfl
  obtain ⟨q', lp', hr, hlast⟩ := exec_from dict pre (prev ++ x) lits cap
    (by rw [ByteArray.size_append]; omega) seqs prev.size 0 hv
  rw [hY] at hr
  simp only [run, hr, hlast, ByteArray.append_assoc]

/-- **Theorem A**: executing any valid parse of `x` regenerates exactly `x` (single frame: `frameStart = 0`) -/
theorem exec_of_validParse (dict prev x lits : ByteArray) (seqs : List Seq) (cap : Nat)
    (hv : ValidParse dict prev x lits seqs) (hcap : prev.size + x.size ≤ cap) :
    run dict { out := prev, frameStart := 0, cap := cap } lits seqs = .ok (prev ++ x) := by
  have := exec_of_validParse_frame dict ByteArray.empty prev x lits seqs cap hv (by simpa using hcap)
  simpa using this


/-! non-vacuity of A: dictionary `[1,2,3]`, earlier content `[9]`; the block `[5, 3,9,5,3,9, 1,2, 7]` is parsed as
literal `5`, then a match at distance 3 of length 5 that starts on the last dictionary byte, runs through the frame and OVERLAPS its
own output, then a match at distance 10 of length 2 entirely inside the dictionary, then the last literal `7`. -/
example : ValidParse [1, 2, 3].toByteArray [9].toByteArray [5, 3, 9, 5, 3, 9, 1, 2, 7].toByteArray [5, 7].toByteArray
    [{ ll := 1, ml := 5, offset := 3, ofValue := 6 }, { ll := 0, ml := 2, offset := 10, ofValue := 13 }] := by decide

example : (run [1, 2, 3].toByteArray { out := [9].toByteArray, frameStart := 0, cap := 10 } [5, 7].toByteArray
    [{ ll := 1, ml := 5, offset := 3, ofValue := 6 }, { ll := 0, ml := 2, offset := 10, ofValue := 13 }]).toOption
    = some [9, 5, 3, 9, 5, 3, 9, 1, 2, 7].toByteArray := by decide

/-- one byte of capacity less: dstSize_tooSmall at the last literal -/
example : run [1, 2, 3].toByteArray { out := [9].toByteArray, frameStart := 0, cap := 9 } [5, 7].toByteArray
    [{ ll := 1, ml := 5, offset := 3, ofValue := 6 }, { ll := 0, ml := 2, offset := 10, ofValue := 13 }]
    = .error .dstTooSmall := by rfl

/-- a parse that is NOT valid (the match would have to produce `4`, the history has `5`) -/
example : ¬ ValidParse ByteArray.empty ByteArray.empty [5, 4].toByteArray [5].toByteArray
    [{ ll := 1, ml := 1, offset := 1, ofValue := 4 }] := by decide

/-! ### capacity and prefix preservation (B1) -/

/-- what a successful `Exec.step` does: the three checks passed, `ll + ml` bytes were appended -/
theorem step_ok {dict lits out out' : ByteArray} {fs cap lp lp' : Nat} {s : Seq}
    (h : step dict fs cap lits out lp s = .ok (out', lp')) :
    s.ll + s.ml ≤ cap - out.size ∧ s.ll ≤ lits.size - lp ∧ s.offset ≤ out.size + s.ll - fs + dict.size ∧ lp' = lp + s.ll ∧
      ∃ t : ByteArray, t.size = s.ll + s.ml ∧ out' = out ++ t := by
  unfold step at h
  split at h; · cases h
  split at h; · cases h
  split at h; · cases h
  rename_i h1 h2 h3
  injection h with h; injection h with ho hl
  refine ⟨by omega, by omega, by omega, hl.symm, ?_⟩
  obtain ⟨t, ht, hc⟩ := copyMatch_eq_append dict (out ++ lits.extract lp (lp + s.ll)) fs s.offset s.ml
  refine ⟨lits.extract lp (lp + s.ll) ++ t, ?_, ?_⟩
  · rw [ByteArray.size_append, ht, ByteArray.size_extract]; omega
  · rw [← ho, hc, ByteArray.append_assoc]

theorem runSeqs_ok {dict lits : ByteArray} {fs cap : Nat} (seqs : List Seq) {out out' : ByteArray} {lp lp' : Nat}
    (h : runSeqs dict fs cap lits out lp seqs = .ok (out', lp')) :
    out'.size ≤ max cap out.size ∧ ∃ t : ByteArray, out' = out ++ t := by
  induction seqs generalizing out lp with
  | nil =>
    injection h with h; injection h with ho _
    subst ho
    exact ⟨by omega, ByteArray.empty, by simp⟩
  | cons s rest ih =>
    simp only [runSeqs] at h
    split at h
    · rename_i o1 l1 hs
      obtain ⟨hc, _, _, _, t, ht, ho⟩ := step_ok hs
      obtain ⟨hsz, t', ho'⟩ := ih h
      have : o1.size = out.size + (s.ll + s.ml) := by rw [ho, ByteArray.size_append, ht]
      refine ⟨by omega, t ++ t', ?_⟩
      rw [ho', ho, ByteArray.append_assoc]
    · cases h

/-- **Theorem B1**: a successful execution stays within the capacity it was given (`max` covers the degenerate call with an output
already larger than `cap`: then nothing at all is appended) and extends the output it started from - bytes already produced are never rewritten -/
theorem exec_within_capacity {dict lits out : ByteArray} {o : Out} {seqs : List Seq} {chk : R Unit}
    (h : run dict o lits seqs chk = .ok out) :
    out.size ≤ max o.cap o.out.size ∧ ∃ t : ByteArray, out = o.out ++ t := by
  unfold run at h
  split at h; · cases h
  rename_i o1 l1 hr
  split at h; · cases h
  obtain ⟨hsz, t, ho⟩ := runSeqs_ok seqs hr
  unfold lastLiterals at h
  split at h; · cases h
  rename_i hc
  injection h with h
  refine ⟨?_, t ++ lits.extract l1 lits.size, ?_⟩
  · rw [← h, ByteArray.size_append, ByteArray.size_extract]; omega
  · rw [← h, ho, ByteArray.append_assoc]

/-- B1 in the usual situation `o.out.size ≤ o.cap` -/
theorem exec_size_le_cap {dict lits out : ByteArray} {o : Out} {seqs : List Seq} {chk : R Unit}
    (h : run dict o lits seqs chk = .ok out) (ho : o.out.size ≤ o.cap) : out.size ≤ o.cap := by
  have := (exec_within_capacity h).1; omega

/-- B1, prefix part, in `extract` form -/
theorem exec_prefix {dict lits out : ByteArray} {o : Out} {seqs : List Seq} {chk : R Unit}
    (h : run dict o lits seqs chk = .ok out) : out.extract 0 o.out.size = o.out := by
  obtain ⟨_, t, ht⟩ := exec_within_capacity h
  rw [ht]; exact ByteArray.extract_append_eq_left rfl

/-! ### no out-of-range access (B2)

Checked twins of `copyMatch` / `step` / `run`: every `[i]!` becomes `[i]?` and every `extract` is guarded by its range; `none` means
"an access was out of range".  Under the checks that `Exec.step` performs itself, plus `1 ≤ offset` for every sequence, the checked
twin never returns `none` and computes what the model computes.

About `1 ≤ offset`: `Exec.step` (like ZSTD_execSequence) does not test it.  The model guarantees it one level up: every offset handed
to `Exec.run` comes out of `Rep.resolve` (Block.decodeSeqs), which returns a non-zero offset and a non-zero history whenever the
history it is given is non-zero (`resolve_offset_pos` below; the C code: `temp -= !temp` turns a zero into 2^64-1, which the offset
check of the executor rejects).  `Block.decodeSeqs_offset_pos` / `Block.exec_decoded_no_oob` (end of this file) carry this through the
whole sequence decoding loop.  The history starts as {1,4,8} (`Entropy.rep` default) or comes from a dictionary whose loader rejects a
zero repeat offset (Model/Dict.lean `repsOk`); that `decodeLiterals` leaves `Entropy.rep` alone is visible in its text (`ent` or
`{ ent with huf := … }`) but is NOT proved here (left open).  With `offset = 0` and `ml > 0` the model would read
`out[out.size]!` (one past the end, default 0); that case is excluded, not covered. -/

def copyMatchChecked (dict : Bytes) (o : ByteArray) (frameStart off : Nat) : Nat → Option ByteArray
  | 0 => some o
  | ml + 1 =>
    let pos := o.size - frameStart
    if off ≤ pos then
      match o[o.size - off]? with
      | some b => copyMatchChecked dict (o.push b) frameStart off ml
      | none => none
    else
      match dict[dict.size - (off - pos)]? with
      | some b => copyMatchChecked dict (o.push b) frameStart off ml
      | none => none

def stepChecked (dict : Bytes) (frameStart cap : Nat) (lits : ByteArray) (out : ByteArray) (litPos : Nat) (s : Seq) :
    Option (R (ByteArray × Nat)) :=
  if s.ll + s.ml > cap - out.size then some (.error .dstTooSmall)
  else if s.ll > lits.size - litPos then some (.error (.corruptionAt "Block:249"))
  else if s.offset > out.size + s.ll - frameStart + dict.size then some (.error (.corruptionAt "Block:251"))
  else if litPos + s.ll ≤ lits.size then
    (copyMatchChecked dict (out ++ lits.extract litPos (litPos + s.ll)) frameStart s.offset s.ml).map fun o => .ok (o, litPos + s.ll)
  else none

def runSeqsChecked (dict : Bytes) (frameStart cap : Nat) (lits : ByteArray) (out : ByteArray) (litPos : Nat) :
    List Seq → Option (R (ByteArray × Nat))
  | [] => some (.ok (out, litPos))
  | s :: rest =>
    match stepChecked dict frameStart cap lits out litPos s with
    | some (.ok (out', litPos')) => runSeqsChecked dict frameStart cap lits out' litPos' rest
    | some (.error e) => some (.error e)
    | none => none

def runChecked (dict : Bytes) (o : Out) (lits : ByteArray) (seqs : List Seq) (streamCheck : R Unit := .ok ()) : Option (R ByteArray) :=
  match runSeqsChecked dict o.frameStart o.cap lits o.out 0 seqs with
  | none => none
  | some (.error e) => some (.error e)
  | some (.ok (out, litPos)) =>
    match streamCheck with
    | .error e => some (.error e)
    | .ok () => if litPos ≤ lits.size then some (lastLiterals o.cap lits out litPos) else none

theorem copyMatchChecked_eq (dict o : ByteArray) (fs off ml : Nat) (h1 : 1 ≤ off) (hoff : off ≤ o.size - fs + dict.size) :
    copyMatchChecked dict o fs off ml = some (copyMatch dict o fs off ml) := by
  induction ml generalizing o with
  | zero => rfl
  | succ n ih =>
    simp only [copyMatchChecked, copyMatch]
    split
    · have hlt : o.size - off < o.size := by omega
      rw [getElem?_pos o _ hlt, getElem!_pos o _ hlt]
      exact ih _ (by rw [ByteArray.size_push]; omega)
    · have hlt : dict.size - (off - (o.size - fs)) < dict.size := by omega
      rw [getElem?_pos dict _ hlt, getElem!_pos dict _ hlt]
      exact ih _ (by rw [ByteArray.size_push]; omega)

theorem stepChecked_eq (dict lits out : ByteArray) (fs cap lp : Nat) (s : Seq) (h1 : 1 ≤ s.offset) (hlp : lp ≤ lits.size) :
    stepChecked dict fs cap lits out lp s = some (step dict fs cap lits out lp s) := by
  unfold stepChecked step
  split; · rfl
  split; · rfl
  split; · rfl
  rw [if_pos (by omega), copyMatchChecked_eq _ _ _ _ _ h1 (by rw [ByteArray.size_append, ByteArray.size_extract]; omega)]
  rfl

theorem runSeqsChecked_eq (dict lits : ByteArray) (fs cap : Nat) (seqs : List Seq) (out : ByteArray) (lp : Nat)
    (h1 : ∀ s ∈ seqs, 1 ≤ s.offset) (hlp : lp ≤ lits.size) :
    runSeqsChecked dict fs cap lits out lp seqs = some (runSeqs dict fs cap lits out lp seqs) ∧
      ∀ out' lp', runSeqs dict fs cap lits out lp seqs = .ok (out', lp') → lp' ≤ lits.size := by
  induction seqs generalizing out lp with
  | nil =>
    refine ⟨rfl, ?_⟩
    intro out' lp' h
    injection h with h; injection h with _ hl
    omega
  | cons s rest ih =>
    have hs := stepChecked_eq dict lits out fs cap lp s (h1 s (by simp)) hlp
    simp only [runSeqsChecked, runSeqs, hs]
    cases hst : step dict fs cap lits out lp s with
    | error e => exact ⟨rfl, by intro _ _ h; cases h⟩
    | ok st =>
      obtain ⟨o1, l1⟩ := st
      obtain ⟨_, hll, _, hl1, _⟩ := step_ok hst
      exact ih o1 l1 (fun s hs => h1 s (by simp [hs])) (by omega)

/-- **Theorem B2**: the checked execution never hits an out-of-range access (never `none`) and equals the model's execution.
Hypothesis beyond the checks made by `Exec.step` itself: every offset is at least 1 (see the section comment). -/
theorem exec_no_oob (dict lits : ByteArray) (o : Out) (seqs : List Seq) (chk : R Unit) (h1 : ∀ s ∈ seqs, 1 ≤ s.offset) :
    runChecked dict o lits seqs chk = some (run dict o lits seqs chk) := by
  obtain ⟨he, hl⟩ := runSeqsChecked_eq dict lits o.frameStart o.cap seqs o.out 0 h1 (Nat.zero_le _)
  unfold runChecked run
  rw [he]
  cases hr : runSeqs dict o.frameStart o.cap lits o.out 0 seqs with
  | error e => rfl
  | ok st =>
    obtain ⟨o1, l1⟩ := st
    cases chk with
    | error e => rfl
    | ok u => simp only [if_pos (hl o1 l1 hr)]

/-- the offset resolution of ZSTD_decodeSequence never yields 0 from a non-zero history, and keeps the history non-zero -/
theorem resolve_offset_pos (r : Rep.R) (v ll0 : Nat) (h0 : 1 ≤ r.r0) (h1 : 1 ≤ r.r1) (h2 : 1 ≤ r.r2) :
    1 ≤ (Rep.resolve r v ll0).1 ∧ 1 ≤ (Rep.resolve r v ll0).2.r0 ∧ 1 ≤ (Rep.resolve r v ll0).2.r1 ∧ 1 ≤ (Rep.resolve r v ll0).2.r2 := by
  have ht : ∀ t0 : Nat, 1 ≤ (if (t0 == 0) = true then 0xFFFFFFFFFFFFFFFF else t0) := by
    intro t0; split
    · omega
    · rename_i h; simp at h; omega
  unfold Rep.resolve
  split
  · exact ⟨by simp; omega, by simp; omega, h0, h1⟩
  · split
    · split <;> simp [*]
    · simp only []
      split
      · exact ⟨ht _, ht _, h0, h1⟩
      · exact ⟨ht _, ht _, h0, h2⟩

end ZstdVerif.Exec

namespace ZstdVerif.Block

/-! ### the compressed-block decoder (B3) -/

/-- **Theorem B3**: `decodeBlock` (ZSTD_decompressBlock_internal) never produces more than the capacity (`dstCap = o.cap - o.out.size`
is a truncated subtraction, hence `max`), and extends the output it was given. -/
theorem decodeBlock_within_capacity {src : Bytes} {start cSize : Nat} {ent : Entropy} {dict : Bytes} {o : Out} {bsm : Nat}
    {out : ByteArray} {e : Entropy} {tr : Trace}
    (h : decodeBlock src start cSize ent dict o bsm = .ok (out, e, tr)) :
    out.size ≤ max o.cap o.out.size ∧ ∃ t : ByteArray, out = o.out ++ t := by
  unfold decodeBlock at h
  cases hp : prepare src start cSize ent bsm (o.cap - o.out.size) with
  | error er => rw [hp] at h; cases h
  | ok p =>
    rw [hp] at h
    simp only [bind, Except.bind, finish] at h
    split at h
    · rename_i out1 hr
      injection h with h; injection h with h _
      subst h
      exact Exec.exec_within_capacity hr
    · cases h

theorem decodeBlock_size_le_cap {src : Bytes} {start cSize : Nat} {ent : Entropy} {dict : Bytes} {o : Out} {bsm : Nat}
    {out : ByteArray} {e : Entropy} {tr : Trace}
    (h : decodeBlock src start cSize ent dict o bsm = .ok (out, e, tr)) (ho : o.out.size ≤ o.cap) : out.size ≤ o.cap := by
  have := (decodeBlock_within_capacity h).1; omega

end ZstdVerif.Block

namespace ZstdVerif.Frame

/-! ### the frame and multi-frame decoders (B4)

`decompressFrame` / `decompressAll` are `do` blocks with a `for … in [0:n]` loop in the `Except` monad.  The loops are handled by
an invariant rule (`forIn_range_inv`); the straight-line code around them is unfolded once and taken apart with `by_cases` /
`generalize` on the hypothesis (the loop itself is generalised away before any `split`, which keeps every step cheap). -/

/-- the state a `for` body hands back, whether it `break`s or goes on -/
def stepVal {β : Type} : ForInStep β → β
  | .done b => b
  | .yield b => b

theorem forIn_list_inv {α β : Type} (P : β → Prop) (l : List α) (f : α → β → R (ForInStep β)) (init r : β)
    (h0 : P init) (hf : ∀ a b s, P b → f a b = .ok s → P (stepVal s))
    (h : forIn l init f = .ok r) : P r := by
  induction l generalizing init with
  | nil =>
    rw [List.forIn_nil] at h
    injection h with h; exact h ▸ h0
  | cons a as ih =>
    rw [List.forIn_cons] at h
    cases hs : f a init with
    | error e => rw [hs] at h; cases h
    | ok s =>
      rw [hs] at h
      have := hf a init s h0 hs
      cases s with
      | done b => injection h with h; exact h ▸ this
      | yield b => exact ih b this h

/-- invariant rule for `for x in [a:b] do …` in the `Except` monad: what holds initially and is preserved by every iteration
that does not throw holds for the final state -/
theorem forIn_range_inv {β : Type} (P : β → Prop) (rg : Std.Legacy.Range) (f : Nat → β → R (ForInStep β)) (init r : β)
    (h0 : P init) (hf : ∀ a b s, P b → f a b = .ok s → P (stepVal s))
    (h : forIn rg init f = Except.ok r) : P r := by
  rw [Std.Legacy.Range.forIn_eq_forIn_range'] at h
  exact forIn_list_inv P _ f init r h0 hf h

/-- the loop invariant: within capacity, and an extension of what the frame started from -/
def CapInv (out0 : ByteArray) (cap : Nat) (out : ByteArray) : Prop := out.size ≤ cap ∧ ∃ t : ByteArray, out = out0 ++ t

theorem CapInv.grow {out0 out add : ByteArray} {cap n : Nat} (h : CapInv out0 cap out) (hn : add.size ≤ n)
    (ha : ¬ n > cap - out.size) : CapInv out0 cap (out ++ add) := by
  obtain ⟨h1, t, ht⟩ := h
  exact ⟨by rw [ByteArray.size_append]; omega, t ++ add, by rw [ht, ByteArray.append_assoc]⟩

theorem CapInv.block {out0 out out1 : ByteArray} {cap : Nat} (h : CapInv out0 cap out)
    (hB : out1.size ≤ max cap out.size ∧ ∃ t : ByteArray, out1 = out ++ t) : CapInv out0 cap out1 := by
  obtain ⟨h1, t, ht⟩ := h
  obtain ⟨h2, t', ht'⟩ := hB
  exact ⟨by omega, t ++ t', by rw [ht', ht, ByteArray.append_assoc]⟩

/-- **Theorem B4** (frame): ZSTD_decompressFrame started within the capacity stays within the capacity and extends the output -/
theorem decompressFrame_within_capacity {src : Bytes} {ip0 rem : Nat} {dict : Dict} {out0 : ByteArray} {cap : Nat} {o : Opts}
    {res : ByteArray × Nat × FrameTrace}
    (h : decompressFrame src ip0 rem dict out0 cap o = .ok res) (h0 : out0.size ≤ cap) :
    res.1.size ≤ cap ∧ ∃ t : ByteArray, res.1 = out0 ++ t := by
  unfold decompressFrame at h
  simp only [bind, Except.bind, pure, Except.pure, throw, throwThe, MonadExceptOf.throw] at h
  by_cases c1 : rem < (if o.magicless = true then 2 else 6) + Gen.ZSTD_blockHeaderSize
  · rw [if_pos c1] at h; cases h
  rw [if_neg c1] at h
  by_cases c2 : rem < headerSizeOf (ByteArray.u8 src (ip0 + if o.magicless = true then 0 else 4)) o.magicless + Gen.ZSTD_blockHeaderSize
  · rw [if_pos c2] at h; cases h
  rw [if_neg c2] at h
  generalize hg : getHeader src ip0 _ o.magicless = g at h
  cases g with
  | need n => cases h
  | err e => cases h
  | ok hd =>
    simp only [] at h
    by_cases c3 : hd.skippable = true
    · rw [if_pos c3] at h; cases h
    rw [if_neg c3] at h
    by_cases c4 : (hd.dictID != 0 && dict.id != hd.dictID) = true
    · rw [if_pos c4] at h; cases h
    rw [if_neg c4] at h
    generalize (if (o.maxBlockSize != 0) = true then min hd.blockSizeMax o.maxBlockSize else hd.blockSizeMax) = bsm at h
    generalize hloop : forIn (m := R) (ρ := Std.Legacy.Range) _ _ _ = L at h
    cases L with
    | error e => cases h
    | ok s =>
      simp only [] at h
      have hP := forIn_range_inv (fun st : Nat × Nat × ByteArray × Block.Entropy × Array BlockTrace × Option String =>
          CapInv out0 cap st.2.2.1) _ _ _ s ⟨h0, ByteArray.empty, by simp⟩ ?body hloop
      · -- after the loop the output is only checked (content size, checksum), never changed
        have : res.1 = s.2.2.1 := by
          repeat' split at h
          all_goals (cases h <;> rfl)
        rw [this]; exact hP
      · -- one block
        intro a b r hb hbody
        generalize hbh : blockHeader src b.1 b.2.1 = bh at hbody
        cases bh with
        | error e => cases hbody
        | ok v =>
          simp only [] at hbody
          split at hbody; · cases hbody
          split at hbody
          · -- compressed block: B3
            generalize hdb : Block.decodeBlock _ _ _ _ _ _ _ = db at hbody
            cases db with
            | error e => cases hbody
            | ok v1 =>
              have hB := Block.decodeBlock_within_capacity (out := v1.1) (e := v1.2.1) (tr := v1.2.2) hdb
              simp only [] at hbody
              have : (stepVal r).2.2.1 = v1.1 := by
                repeat' split at hbody
                all_goals (cases hbody; rfl)
              rw [this]; exact hb.block hB
          · split at hbody
            · -- raw block
              split at hbody; · cases hbody
              rename_i hc
              have : (stepVal r).2.2.1 = b.2.2.1 ++ src.extract (b.1 + Gen.ZSTD_blockHeaderSize) (b.1 + Gen.ZSTD_blockHeaderSize + v.cSize) := by
                repeat' split at hbody
                all_goals (cases hbody; rfl)
              rw [this]; exact hb.grow (by rw [ByteArray.size_extract]; omega) hc
            · -- RLE block
              split at hbody; · cases hbody
              rename_i hc
              have : (stepVal r).2.2.1 = b.2.2.1 ++ ByteArray.mk (Array.replicate v.origSize (UInt8.ofNat (src.u8 (b.1 + Gen.ZSTD_blockHeaderSize)))) := by
                repeat' split at hbody
                all_goals (cases hbody; rfl)
              rw [this]; exact hb.grow (n := v.origSize) (by simp [ByteArray.size]) hc

/-- **Theorem B4** (ZSTD_decompress / ZSTD_decompressMultiFrame): whatever the input, a successful decode is at most `cap` bytes long -/
theorem decompressAll_within_capacity {src : Bytes} {dict : Dict} {cap : Nat} {o : Opts} {res : ByteArray × Array FrameTrace}
    (h : decompressAll src dict cap o = .ok res) : res.1.size ≤ cap := by
  unfold decompressAll at h
  simp only [bind, Except.bind, pure, Except.pure, throw, throwThe, MonadExceptOf.throw] at h
  generalize (if o.magicless = true then 1 else 5) = startLen at h
  generalize hloop : forIn (m := R) (ρ := Std.Legacy.Range) _ _ _ = L at h
  cases L with
  | error e => cases h
  | ok s =>
    simp only [] at h
    split at h; · cases h
    cases h
    refine forIn_range_inv (fun st : Nat × Nat × ByteArray × Array FrameTrace × Bool => st.2.2.1.size ≤ cap) _ _ _ s
      (Nat.zero_le _) ?_ hloop
    intro a b r hb hbody
    split at hbody
    · cases hbody; exact hb
    · split at hbody
      · split at hbody; · cases hbody
        split at hbody
        · -- skippable frame: no output
          split at hbody
          · cases hbody
          · cases hbody; exact hb
        · split at hbody
          · split at hbody <;> cases hbody
          · cases hbody
          · rename_i hfr; cases hbody; exact (decompressFrame_within_capacity hfr hb).1
      · split at hbody
        · split at hbody <;> cases hbody
        · cases hbody
        · rename_i hfr; cases hbody; exact (decompressFrame_within_capacity hfr hb).1

/-- B4 for the block-boundary prefix decoder used by the flush properties -/
theorem decompressPrefix_within_capacity {src : Bytes} {dict : Dict} {cap : Nat} {o : Opts} {out : ByteArray}
    (h : decompressPrefix src dict cap o = .ok out) : out.size ≤ cap := by
  unfold decompressPrefix at h
  simp only [bind, Except.bind, pure, Except.pure, throw, throwThe, MonadExceptOf.throw] at h
  by_cases c0 : (ByteArray.size src == 0) = true
  · rw [if_pos c0] at h; cases h; exact Nat.zero_le _
  rw [if_neg c0] at h
  generalize hg : getHeader src 0 _ o.magicless = g at h
  cases g with
  | need n => cases h
  | err e => cases h
  | ok hd =>
    simp only [] at h
    by_cases c3 : hd.skippable = true
    · rw [if_pos c3] at h; cases h
    rw [if_neg c3] at h
    generalize (if (o.maxBlockSize != 0) = true then min hd.blockSizeMax o.maxBlockSize else hd.blockSizeMax) = bsm at h
    generalize hloop : forIn (m := R) (ρ := Std.Legacy.Range) _ _ _ = L at h
    cases L with
    | error e => cases h
    | ok s =>
      cases h
      refine (forIn_range_inv (fun st : Nat × ByteArray × Block.Entropy => CapInv ByteArray.empty cap st.2.1) _ _ _ s
        ⟨Nat.zero_le _, ByteArray.empty, by simp⟩ ?_ hloop).1
      intro a b r hb hbody
      split at hbody
      · cases hbody; exact hb
      generalize hbh : blockHeader src b.1 _ = bh at hbody
      cases bh with
      | error e => cases hbody
      | ok v =>
        simp only [] at hbody
        split at hbody; · cases hbody
        split at hbody
        · generalize hdb : Block.decodeBlock _ _ _ _ _ _ _ = db at hbody
          cases db with
          | error e => cases hbody
          | ok v1 =>
            have hB := Block.decodeBlock_within_capacity (out := v1.1) (e := v1.2.1) (tr := v1.2.2) hdb
            simp only [] at hbody
            split at hbody <;> (cases hbody; exact hb.block hB)
        · split at hbody
          · split at hbody; · cases hbody
            rename_i hc
            split at hbody <;> (cases hbody; exact hb.grow (by rw [ByteArray.size_extract]; omega) hc)
          · split at hbody; · cases hbody
            rename_i hc
            split at hbody <;> (cases hbody; exact hb.grow (n := v.origSize) (by simp [ByteArray.size]) hc)

end ZstdVerif.Frame

namespace ZstdVerif.Block
open ZstdVerif.Gen

/-! ### where `1 ≤ offset` (the hypothesis of B2) comes from

`decodeSeqs` takes every offset out of `Rep.resolve`; started on a repeat-offset history without a zero it produces only non-zero
offsets and hands back a history without a zero (so the property carries over to the next block of the frame). -/

theorem forIn_list_inv_id {α β : Type} (P : β → Prop) (l : List α) (f : α → β → Id (ForInStep β)) (init : β)
    (h0 : P init) (hf : ∀ a b, P b → P (Frame.stepVal (f a b))) : P (forIn (m := Id) l init f) := by
  induction l generalizing init with
  | nil => exact h0
  | cons a as ih =>
    rw [List.forIn_cons]
    have := hf a init h0
    change P (match f a init with | ForInStep.done b => b | ForInStep.yield b => forIn (m := Id) as b f)
    cases hs : f a init with
    | done b => rw [hs] at this; exact this
    | yield b => rw [hs] at this; exact ih b this

theorem forIn_range_inv_id {β : Type} (P : β → Prop) (rg : Std.Legacy.Range) (f : Nat → β → Id (ForInStep β)) (init : β)
    (h0 : P init) (hf : ∀ a b, P b → P (Frame.stepVal (f a b))) : P (forIn (m := Id) rg init f) := by
  rw [Std.Legacy.Range.forIn_eq_forIn_range']
  exact forIn_list_inv_id P _ f init h0 hf

/-- repeat-offset history without a zero, and only non-zero offsets decoded so far -/
def RepInv (rep : Array Nat) (seqs : Array Seq) : Prop :=
  1 ≤ rep[0]! ∧ 1 ≤ rep[1]! ∧ 1 ≤ rep[2]! ∧ ∀ s ∈ seqs, 1 ≤ s.offset

theorem RepInv.push {rep : Array Nat} {seqs : Array Seq} (h : RepInv rep seqs) (v ll0 ll ml ofv : Nat) :
    RepInv #[(Rep.resolve ⟨rep[0]!, rep[1]!, rep[2]!⟩ v ll0).2.r0, (Rep.resolve ⟨rep[0]!, rep[1]!, rep[2]!⟩ v ll0).2.r1,
        (Rep.resolve ⟨rep[0]!, rep[1]!, rep[2]!⟩ v ll0).2.r2]
      (seqs.push { ll := ll, ml := ml, offset := (Rep.resolve ⟨rep[0]!, rep[1]!, rep[2]!⟩ v ll0).1, ofValue := ofv }) := by
  obtain ⟨h0, h1, h2, hs⟩ := h
  obtain ⟨r, r0, r1, r2⟩ := Exec.resolve_offset_pos ⟨rep[0]!, rep[1]!, rep[2]!⟩ v ll0 h0 h1 h2
  refine ⟨r0, r1, r2, ?_⟩
  intro s hm
  rw [Array.mem_push] at hm
  cases hm with
  | inl hm => exact hs s hm
  | inr hm => subst hm; exact r

theorem decodeSeqs_repInv (llT ofT mlT : Array SeqCell) (nbSeq sLL0 sOF0 sML0 : Nat) (r0 : BitR) (rep0 : Array Nat)
    (h : RepInv rep0 #[]) :
    RepInv (decodeSeqs llT ofT mlT nbSeq sLL0 sOF0 sML0 r0 rep0).rep (decodeSeqs llT ofT mlT nbSeq sLL0 sOF0 sML0 r0 rep0).seqs := by
  unfold decodeSeqs
  simp only [Id.run, bind, pure]
  refine forIn_range_inv_id (fun st : Nat × Nat × Nat × BitR × Array Nat × Array Seq => RepInv st.2.2.2.2.1 st.2.2.2.2.2) _ _ _ h ?_
  intro k b hb
  repeat' split
  all_goals exact hb.push _ _ _ _ _

/-- every offset produced by the sequence decoder is at least 1 when the incoming repeat-offset history has no zero -/
theorem decodeSeqs_offset_pos (llT ofT mlT : Array SeqCell) (nbSeq sLL0 sOF0 sML0 : Nat) (r0 : BitR) (rep0 : Array Nat)
    (h0 : 1 ≤ rep0[0]!) (h1 : 1 ≤ rep0[1]!) (h2 : 1 ≤ rep0[2]!) :
    ∀ s ∈ (decodeSeqs llT ofT mlT nbSeq sLL0 sOF0 sML0 r0 rep0).seqs.toList, 1 ≤ s.offset := by
  intro s hs
  exact (decodeSeqs_repInv llT ofT mlT nbSeq sLL0 sOF0 sML0 r0 rep0 ⟨h0, h1, h2, by simp⟩).2.2.2 s (Array.mem_toList_iff.mp hs)

/-- B2 for the sequences of one block as `decodeBlock` executes them (`finish` runs `Exec.run` on `(decodeSeqs …).seqs.toList`) -/
theorem exec_decoded_no_oob (dict lits : ByteArray) (o : Out) (chk : R Unit)
    (llT ofT mlT : Array SeqCell) (nbSeq sLL0 sOF0 sML0 : Nat) (r0 : BitR) (rep0 : Array Nat)
    (h0 : 1 ≤ rep0[0]!) (h1 : 1 ≤ rep0[1]!) (h2 : 1 ≤ rep0[2]!) :
    Exec.runChecked dict o lits (decodeSeqs llT ofT mlT nbSeq sLL0 sOF0 sML0 r0 rep0).seqs.toList chk =
      some (Exec.run dict o lits (decodeSeqs llT ofT mlT nbSeq sLL0 sOF0 sML0 r0 rep0).seqs.toList chk) :=
  Exec.exec_no_oob dict lits o _ chk (decodeSeqs_offset_pos llT ofT mlT nbSeq sLL0 sOF0 sML0 r0 rep0 h0 h1 h2)

end ZstdVerif.Block
