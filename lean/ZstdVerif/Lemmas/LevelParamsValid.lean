/-
ZSTD_adjustCParams_internal keeps valid compression parameters valid, and ZSTD_getCParams_internal / ZSTD_getCParamsFromCCtxParams /
ZSTD_createCDict therefore never produce values outside the advertised bounds - for EVERY raw level (any integer), source size and
dictionary size.  Model: Model/LevelParams.lean; the level table and the bounds are the regenerated ones (Gen).
-/
import ZstdVerif.Model.LevelParams

namespace ZstdVerif.LevelParams
open ZstdVerif.Gen ZstdVerif.Params

/-- ZSTD_checkCParams read arithmetically, with the regenerated bounds -/
def InBounds (c : CPar) : Prop :=
  10 ≤ c.windowLog ∧ c.windowLog ≤ 31 ∧ 6 ≤ c.chainLog ∧ c.chainLog ≤ 30 ∧
  6 ≤ c.hashLog ∧ c.hashLog ≤ 30 ∧ 1 ≤ c.searchLog ∧ c.searchLog ≤ 30 ∧ 3 ≤ c.minMatch ∧ c.minMatch ≤ 7 ∧
  c.targetLength ≤ 131072 ∧ 1 ≤ c.strategy ∧ c.strategy ≤ 9

theorem check_iff (c : CPar) : checkCParams c = true ↔ InBounds c := by
  have h101 : boundsOfId cparams 101 = some (10, 31) := by decide
  have h102 : boundsOfId cparams 102 = some (6, 30) := by decide
  have h103 : boundsOfId cparams 103 = some (6, 30) := by decide
  have h104 : boundsOfId cparams 104 = some (1, 30) := by decide
  have h105 : boundsOfId cparams 105 = some (3, 7) := by decide
  have h106 : boundsOfId cparams 106 = some (0, 131072) := by decide
  have h107 : boundsOfId cparams 107 = some (1, 9) := by decide
  simp only [checkCParams, within, h101, h102, h103, h104, h105, h106, h107, InBounds, Bool.and_eq_true, decide_eq_true_eq]
  omega

theorem log2_pred_ge (t : Nat) (h : 64 ≤ t) : 6 ≤ Nat.log2 (t - 1) + 1 := by
  have hne : t - 1 ≠ 0 := by omega
  have : 5 ≤ Nat.log2 (t - 1) := (Nat.le_log2 hne).2 (by omega)
  omega

theorem srcLogOf_ge (s d : Nat) : 6 ≤ srcLogOf s d := by
  unfold srcLogOf
  have h6 : ZSTD_HASHLOG_MIN = 6 := rfl
  rw [h6]
  split
  · exact Nat.le_refl _
  · rename_i hnl
    exact log2_pred_ge _ (by omega)

theorem resizeWindow_bounds (wl s d : Nat) (h1 : 10 ≤ wl) (h2 : wl ≤ 31) : 6 ≤ resizeWindow wl s d ∧ resizeWindow wl s d ≤ 31 := by
  unfold resizeWindow
  have := srcLogOf_ge s d
  split
  · split <;> omega
  · omega

theorem dawl_ge (wl src dict : Nat) (h : 6 ≤ wl) : 6 ≤ dictAndWindowLog wl src dict := by
  unfold dictAndWindowLog
  have hm : ZSTD_WINDOWLOG_MAX = 31 := rfl
  rw [hm]
  split
  · exact h
  · rename_i hd
    simp only []
    split
    · exact h
    · split
      · omega
      · rename_i hlt
        have hp : 2 ^ 6 ≤ 2 ^ wl := Nat.pow_le_pow_right (by decide) h
        have hmod : (dict + 2 ^ wl) % 2 ^ 32 = dict + 2 ^ wl := Nat.mod_eq_of_lt (by omega)
        rw [hmod]
        exact log2_pred_ge _ (by omega)

theorem floorWindow_bounds (wl : Nat) (h : wl ≤ 31) : 10 ≤ floorWindow wl ∧ floorWindow wl ≤ 31 := by
  unfold floorWindow
  have : ZSTD_WINDOWLOG_ABSOLUTEMIN = 10 := rfl
  rw [this]
  split <;> omega

theorem capHash_bounds (hl dawl : Nat) (k : Bool) (h1 : 6 ≤ hl) (h2 : hl ≤ 30) (hd : 6 ≤ dawl) : 6 ≤ capHash hl dawl k ∧ capHash hl dawl k ≤ 30 := by
  unfold capHash
  split
  · rename_i hc
    simp at hc
    omega
  · omega

theorem capChain_bounds (cl st dawl : Nat) (k : Bool) (h1 : 6 ≤ cl) (h2 : cl ≤ 30) (hd : 6 ≤ dawl) : 6 ≤ capChain cl st dawl k ∧ capChain cl st dawl k ≤ 30 := by
  unfold capChain
  by_cases hs : st ≥ 6
  · simp only [hs, if_true]
    split
    · rename_i hc
      simp at hc
      omega
    · omega
  · simp only [hs, if_false]
    split
    · rename_i hc
      simp at hc
      omega
    · omega

theorem capTagged_bounds (v : Nat) (t : Bool) (h1 : 6 ≤ v) (h2 : v ≤ 30) : 6 ≤ capTagged v t ∧ capTagged v t ≤ 30 := by
  unfold capTagged
  have : ZSTD_SHORT_CACHE_TAG_BITS = 8 := rfl
  rw [this]
  split <;> omega

theorem capRow_bounds (hl sl st rm : Nat) (h1 : 6 ≤ hl) (h2 : hl ≤ 30) : 6 ≤ capRow hl sl st rm ∧ capRow hl sl st rm ≤ 30 := by
  unfold capRow
  have : ZSTD_ROW_HASH_TAG_BITS = 8 := rfl
  rw [this]
  split
  · rename_i hc
    simp at hc
    omega
  · omega

/-- ZSTD_adjustCParams_internal: valid in, valid out - whatever the source size, dictionary size, mode and row-finder switch -/
theorem adjust_preserves_valid (c : CPar) (src dict : Nat) (mode : CPMode) (rowMode : Nat) (h : InBounds c) :
    InBounds (adjust c src dict mode rowMode) := by
  obtain ⟨h1, h2, h3, h4, h5, h6, h7, h8, h9, h10, h11, h12, h13⟩ := h
  unfold adjust
  simp only []
  generalize (if mode = CPMode.createCDict ∧ dict ≠ 0 ∧ src = unknownSize then 513 else src) = srcSize
  generalize (if mode = CPMode.attachDict then 0 else dict) = dictSize
  have hw := resizeWindow_bounds c.windowLog srcSize dictSize h1 h2
  have hd := dawl_ge (resizeWindow c.windowLog srcSize dictSize) srcSize dictSize hw.1
  have hf := floorWindow_bounds _ hw.2
  have hh := capHash_bounds c.hashLog _ (decide (srcSize ≠ unknownSize)) h5 h6 hd
  have hc := capChain_bounds c.chainLog c.strategy _ (decide (srcSize ≠ unknownSize)) h3 h4 hd
  have hht := capTagged_bounds _ (decide (mode = .createCDict) && (decide (c.strategy = 1) || decide (c.strategy = 2))) hh.1 hh.2
  have hct := capTagged_bounds _ (decide (mode = .createCDict) && (decide (c.strategy = 1) || decide (c.strategy = 2))) hc.1 hc.2
  have hr := capRow_bounds _ c.searchLog c.strategy rowMode hht.1 hht.2
  exact ⟨hf.1, hf.2, hct.1, hct.2, hr.1, hr.2, h7, h8, h9, h10, h11, h12, h13⟩

/-- every cell of the four level tables is valid (regenerated table x regenerated bounds; finite, decided exhaustively) -/
theorem table_cells_valid : ∀ t : Fin 4, ∀ r : Fin 23, checkCParams ((clevels.getD t.val []).getD r.val ⟨0, 0, 0, 0, 0, 0, 0⟩) = true := by decide

theorem tableID_le (rs : Nat) : tableID rs ≤ 3 := by
  unfold tableID
  split <;> split <;> split <;> omega

theorem rowOfLevel_le (level : Int) : rowOfLevel level ≤ 22 := by
  unfold rowOfLevel
  have hd : ZSTD_CLEVEL_DEFAULT.toNat ≤ 22 := by decide
  have hm : ZSTD_MAX_CLEVEL = 22 := rfl
  rw [hm]
  split
  · exact hd
  · split
    · exact Nat.zero_le _
    · split
      · exact Nat.le_refl _
      · omega

theorem accel_le (level : Int) : accel level ≤ 131072 := by
  have hm : minCLevel = -131072 := by decide
  unfold accel
  rw [hm]
  omega

/-- ZSTD_getCParams_internal: for EVERY integer level, source size, dictionary size and mode the result passes ZSTD_checkCParams -/
theorem getCParamsInternal_inBounds (level : Int) (src dict : Nat) (mode : CPMode) : InBounds (getCParamsInternal level src dict mode) := by
  unfold getCParamsInternal
  apply adjust_preserves_valid
  have hcell := table_cells_valid ⟨tableID (rowSize src dict mode), by have := tableID_le (rowSize src dict mode); omega⟩
    ⟨rowOfLevel level, by have := rowOfLevel_le level; omega⟩
  rw [check_iff] at hcell
  simp only [] at hcell ⊢
  split
  · obtain ⟨h1, h2, h3, h4, h5, h6, h7, h8, h9, h10, _, h12, h13⟩ := hcell
    exact ⟨h1, h2, h3, h4, h5, h6, h7, h8, h9, h10, accel_le level, h12, h13⟩
  · exact hcell

/-- explicit compression parameters as the single-parameter setters leave them: not set (0) or inside the bounds -/
def OvOk (ov : CPar) : Prop :=
  (ov.windowLog = 0 ∨ (10 ≤ ov.windowLog ∧ ov.windowLog ≤ 31)) ∧ (ov.chainLog = 0 ∨ (6 ≤ ov.chainLog ∧ ov.chainLog ≤ 30)) ∧
  (ov.hashLog = 0 ∨ (6 ≤ ov.hashLog ∧ ov.hashLog ≤ 30)) ∧ (ov.searchLog = 0 ∨ (1 ≤ ov.searchLog ∧ ov.searchLog ≤ 30)) ∧
  (ov.minMatch = 0 ∨ (3 ≤ ov.minMatch ∧ ov.minMatch ≤ 7)) ∧ ov.targetLength ≤ 131072 ∧ (ov.strategy = 0 ∨ (1 ≤ ov.strategy ∧ ov.strategy ≤ 9))

theorem override_inBounds (c ov : CPar) (hc : InBounds c) (ho : OvOk ov) : InBounds (overrideCParams c ov) := by
  obtain ⟨h1, h2, h3, h4, h5, h6, h7, h8, h9, h10, h11, h12, h13⟩ := hc
  obtain ⟨o1, o2, o3, o4, o5, o6, o7⟩ := ho
  unfold overrideCParams InBounds
  simp only []
  refine ⟨?_, ?_, ?_, ?_, ?_, ?_, ?_, ?_, ?_, ?_, ?_, ?_, ?_⟩ <;> split <;> omega

theorem inBounds_ovOk (c : CPar) (h : InBounds c) : OvOk c := by
  obtain ⟨h1, h2, h3, h4, h5, h6, h7, h8, h9, h10, h11, h12, h13⟩ := h
  exact ⟨Or.inr ⟨h1, h2⟩, Or.inr ⟨h3, h4⟩, Or.inr ⟨h5, h6⟩, Or.inr ⟨h7, h8⟩, Or.inr ⟨h9, h10⟩, h11, Or.inr ⟨h12, h13⟩⟩

/-- ZSTD_getCParamsFromCCtxParams: any level, explicit parameters as the setters leave them, long-distance matching on or off -/
theorem fromCCtxParams_inBounds (level : Int) (ov : CPar) (ldmOn : Bool) (hint src dict : Nat) (mode : CPMode) (rowMode : Nat) (ho : OvOk ov) :
    InBounds (fromCCtxParams level ov ldmOn hint src dict mode rowMode) := by
  unfold fromCCtxParams
  simp only []
  apply adjust_preserves_valid
  apply override_inBounds _ _ _ ho
  have hg := getCParamsInternal_inBounds level (if src = unknownSize ∧ hint > 0 then hint else src) dict mode
  split
  · obtain ⟨_, _, h3, h4, h5, h6, h7, h8, h9, h10, h11, h12, h13⟩ := hg
    have : ZSTD_LDM_DEFAULT_WINDOW_LOG = 27 := rfl
    exact ⟨by simp only [this]; omega, by simp only [this]; omega, h3, h4, h5, h6, h7, h8, h9, h10, h11, h12, h13⟩
  · exact hg

/-- ZSTD_createCDict / ZSTD_createCDict_byReference -/
theorem createCDict_inBounds (level : Int) (dictSize : Nat) : InBounds (createCDictCParams level dictSize) := by
  unfold createCDictCParams
  exact fromCCtxParams_inBounds _ _ _ _ _ _ _ _ (inBounds_ovOk _ (getCParamsInternal_inBounds _ _ _ _))

end ZstdVerif.LevelParams
