import ZstdVerif.Model.Pool
namespace ZstdVerif.Pool

def isRun : WPc → Bool
  | .run _ _ => true
  | .runWaitPush _ _ _ => true
  | _ => false

def jobOf : WPc → Option Job
  | .run j _ => some j
  | .runWaitPush j _ _ => some j
  | _ => none

/-- the safety invariant of the pool -/
structure Inv (s : St) : Prop where
  fifo : s.accepted = s.started ++ s.q
  busy : s.busy = s.ws.countP isRun
  acct : ∀ j, s.started.count j = s.finished.count j + (s.ws.filterMap jobOf).count j

theorem countP_set {α} (p : α → Bool) (l : List α) (i : Nat) (x : α) (h : i < l.length) :
    (l.set i x).countP p + (if p l[i] then 1 else 0) = l.countP p + (if p x then 1 else 0) := by
  induction l generalizing i with
  | nil => simp at h
  | cons a t ih =>
    cases i with
    | zero => simp [List.countP_cons]; omega
    | succ k =>
      simp only [List.set_cons_succ, List.countP_cons, List.getElem_cons_succ]
      have := ih k (by simpa using h)
      omega

theorem count_filterMap_set {α} (g : α → Option Job) (l : List α) (i : Nat) (x : α) (j : Job) (h : i < l.length) :
    ((l.set i x).filterMap g).count j + (if g l[i] = some j then 1 else 0)
      = (l.filterMap g).count j + (if g x = some j then 1 else 0) := by
  induction l generalizing i with
  | nil => simp at h
  | cons a t ih =>
    cases i with
    | zero =>
      cases hx : g x <;> cases ha : g a <;>
        simp [List.filterMap_cons, hx, ha, List.count_cons] <;> omega
    | succ k =>
      have := ih k (by simpa using h)
      cases ha : g a <;>
        simp [List.filterMap_cons, ha, List.count_cons] at this ⊢ <;> omega

@[simp] theorem isRun_wakeAllPushW (w : WPc) : isRun (wakeAllPushW w) = isRun w := by
  cases w <;> rfl
@[simp] theorem jobOf_wakeAllPushW (w : WPc) : jobOf (wakeAllPushW w) = jobOf w := by
  cases w <;> rfl
@[simp] theorem isRun_wakeAllPopW (w : WPc) : isRun (wakeAllPopW w) = isRun w := by
  cases w <;> rfl
@[simp] theorem jobOf_wakeAllPopW (w : WPc) : jobOf (wakeAllPopW w) = jobOf w := by
  cases w <;> rfl

theorem countP_isRun_map_push (ws : List WPc) : (ws.map wakeAllPushW).countP isRun = ws.countP isRun := by
  induction ws with
  | nil => rfl
  | cons a t ih => simp [List.countP_cons, ih]
theorem countP_isRun_map_pop (ws : List WPc) : (ws.map wakeAllPopW).countP isRun = ws.countP isRun := by
  induction ws with
  | nil => rfl
  | cons a t ih => simp [List.countP_cons, ih]
theorem filterMap_jobOf_map_push (ws : List WPc) : (ws.map wakeAllPushW).filterMap jobOf = ws.filterMap jobOf := by
  induction ws with
  | nil => rfl
  | cons a t ih => simp [List.filterMap_cons, ih]
theorem filterMap_jobOf_map_pop (ws : List WPc) : (ws.map wakeAllPopW).filterMap jobOf = ws.filterMap jobOf := by
  induction ws with
  | nil => rfl
  | cons a t ih => simp [List.filterMap_cons, ih]

theorem inv_bcastPush {s : St} (h : Inv s) : Inv (bcastPush s) := by
  refine ⟨h.fifo, ?_, ?_⟩
  · show s.busy = (s.ws.map wakeAllPushW).countP isRun
    rw [countP_isRun_map_push]; exact h.busy
  · intro j
    show s.started.count j = s.finished.count j + ((s.ws.map wakeAllPushW).filterMap jobOf).count j
    rw [filterMap_jobOf_map_push]; exact h.acct j

theorem inv_bcastPop {s : St} (h : Inv s) : Inv (bcastPop s) := by
  refine ⟨h.fifo, ?_, ?_⟩
  · show s.busy = (s.ws.map wakeAllPopW).countP isRun
    rw [countP_isRun_map_pop]; exact h.busy
  · intro j
    show s.started.count j = s.finished.count j + ((s.ws.map wakeAllPopW).filterMap jobOf).count j
    rw [filterMap_jobOf_map_pop]; exact h.acct j

/-- replacing worker `i` by a worker with the same run-status and job keeps the invariant -/
theorem inv_setWorker_same {s : St} (h : Inv s) (i : Nat) (w w' : WPc) (hi : s.ws[i]? = some w)
    (hr : isRun w' = isRun w) (hj : jobOf w' = jobOf w) : Inv { s with ws := s.ws.set i w' } := by
  have hlt : i < s.ws.length := by
    rcases List.getElem?_eq_some_iff.mp hi with ⟨hl, _⟩; exact hl
  have hget : s.ws[i] = w := by
    rcases List.getElem?_eq_some_iff.mp hi with ⟨_, hg⟩; exact hg
  refine ⟨h.fifo, ?_, ?_⟩
  · have := countP_set isRun s.ws i w' hlt
    rw [hget, hr] at this
    simp only; have hb := h.busy; omega
  · intro j
    have := count_filterMap_set jobOf s.ws i w' j hlt
    rw [hget, hj] at this
    have ha := h.acct j
    simp only; omega

theorem inv_signalPop {s : St} (h : Inv s) (k : Nat) : Inv (signalPop s k) := by
  unfold signalPop
  split
  · rename_i hk
    exact inv_setWorker_same h k _ _ hk rfl rfl
  · exact h

theorem idx_of_getElem? {α} {l : List α} {i : Nat} {w : α} (hi : l[i]? = some w) :
    ∃ h : i < l.length, l[i] = w := List.getElem?_eq_some_iff.mp hi

/-- worker `i` (not running) pops job `j` -/
theorem inv_pop {s : St} (h : Inv s) (i : Nat) (w : WPc) (j : Job) (rest : List Job) (r : List JOp)
    (hi : s.ws[i]? = some w) (hw : isRun w = false) (hwj : jobOf w = none) (hq : s.q = j :: rest) :
    Inv { s with q := rest, busy := s.busy + 1, started := s.started ++ [j], ws := s.ws.set i (.run j r) } := by
  obtain ⟨hlt, hget⟩ := idx_of_getElem? hi
  refine ⟨?_, ?_, ?_⟩
  · simp [h.fifo, hq]
  · have := countP_set isRun s.ws i (.run j r) hlt
    rw [hget, hw] at this
    simp [isRun] at this
    have hb := h.busy
    simp only; omega
  · intro k
    have := count_filterMap_set jobOf s.ws i (.run j r) k hlt
    rw [hget, hwj] at this
    have ha := h.acct k
    simp only [jobOf] at this
    simp only [List.count_append, List.count_cons, List.count_nil]
    by_cases hk : j = k
    · subst hk; simp at this ⊢; omega
    · have hk' : ¬ (some j = some k) := by simpa using hk
      simp [hk, hk'] at this ⊢; omega

/-- worker `i` finishes job `j` -/
theorem inv_finish {s : St} (h : Inv s) (i : Nat) (j : Job)
    (hi : s.ws[i]? = some (.run j [])) :
    Inv { s with busy := s.busy - 1, finished := s.finished ++ [j], ws := s.ws.set i .idle } := by
  obtain ⟨hlt, hget⟩ := idx_of_getElem? hi
  refine ⟨h.fifo, ?_, ?_⟩
  · have := countP_set isRun s.ws i .idle hlt
    rw [hget] at this
    simp only [isRun] at this
    have hb := h.busy
    simp only; simp at this; omega
  · intro k
    have := count_filterMap_set jobOf s.ws i .idle k hlt
    rw [hget] at this
    have ha := h.acct k
    simp only [jobOf] at this
    simp only [List.count_append, List.count_cons, List.count_nil]
    by_cases hk : j = k
    · subst hk; simp at this ⊢; omega
    · have hk' : ¬ (some j = some k) := by simpa using hk
      simp [hk, hk'] at this ⊢; omega

theorem inv_enqueue {s : St} (h : Inv s) (j : Job) :
    Inv { s with q := s.q ++ [j], accepted := s.accepted ++ [j] } :=
  ⟨by simp [h.fifo], h.busy, h.acct⟩

theorem inv_addInternal {s : St} (h : Inv s) (j : Job) (k : Nat) : Inv (addInternal s j k).1 := by
  unfold addInternal
  split
  · exact h
  · exact inv_signalPop (inv_enqueue h j) k

theorem inv_setClient {s : St} (h : Inv s) (i : Nat) (c : Client) : Inv (setClient s i c) :=
  ⟨h.fifo, h.busy, h.acct⟩

theorem inv_congr {s t : St} (h : Inv s) (hq : t.q = s.q) (hb : t.busy = s.busy) (hw : t.ws = s.ws)
    (ha : t.accepted = s.accepted) (hs : t.started = s.started) (hf : t.finished = s.finished) : Inv t :=
  ⟨by rw [ha, hs, hq]; exact h.fifo, by rw [hb, hw]; exact h.busy, by intro j; rw [hs, hf, hw]; exact h.acct j⟩

theorem inv_ghost_try {s : St} (h : Inv s) (a b : List Job) : Inv { s with tryRefused := a, tryOk := b } :=
  ⟨h.fifo, h.busy, h.acct⟩

theorem inv_shutdown {s : St} (h : Inv s) (b : Bool) : Inv { s with shutdown := b } :=
  ⟨h.fifo, h.busy, h.acct⟩

theorem inv_resize {s : St} (h : Inv s) (n : Nat) : Inv (resize s n) := by
  unfold resize
  apply inv_bcastPush
  apply inv_bcastPop
  split
  · split
    · exact h
    · exact ⟨h.fifo, h.busy, h.acct⟩
  · refine ⟨h.fifo, ?_, ?_⟩
    · simp [List.countP_append, List.countP_replicate, isRun, h.busy]
    · intro j
      have : (List.replicate (n - s.ws.length) WPc.idle).filterMap jobOf = [] := by
        induction (n - s.ws.length) with
        | zero => rfl
        | succ m ih => simp [List.replicate_succ, List.filterMap_cons, jobOf, ih]
      simp [List.filterMap_append, this, h.acct j]

end ZstdVerif.Pool

namespace ZstdVerif.Pool

theorem inv_init (t qs : Nat) (progs : List (List COp)) : Inv (init t qs progs) := by
  refine ⟨rfl, ?_, ?_⟩
  · simp [init, List.countP_replicate, isRun]
  · intro j
    have : (List.replicate t WPc.idle).filterMap jobOf = [] := by
      induction t with
      | zero => rfl
      | succ m ih => simp [List.replicate_succ, List.filterMap_cons, jobOf, ih]
    simp [init, this]

theorem signalPop_ws {s : St} {k i : Nat} {w : WPc} (hi : s.ws[i]? = some w) :
    ∃ w', (signalPop s k).ws[i]? = some w' ∧ isRun w' = isRun w ∧ jobOf w' = jobOf w := by
  unfold signalPop
  split
  · rename_i hk
    by_cases hik : k = i
    · subst hik
      rw [hk] at hi; cases hi
      obtain ⟨hlt, _⟩ := idx_of_getElem? hk
      exact ⟨.waitPop true, by simp [List.getElem?_set_self hlt], rfl, rfl⟩
    · exact ⟨w, by simp [List.getElem?_set_ne hik, hi], rfl, rfl⟩
  · exact ⟨w, hi, rfl, rfl⟩

theorem addInternal_ws {s : St} {j k i : Nat} {w : WPc} (hi : s.ws[i]? = some w) :
    ∃ w', (addInternal s j k).1.ws[i]? = some w' ∧ isRun w' = isRun w ∧ jobOf w' = jobOf w := by
  unfold addInternal
  split
  · exact ⟨w, hi, rfl, rfl⟩
  · exact signalPop_ws (s := { s with q := s.q ++ [j], accepted := s.accepted ++ [j] }) hi

theorem inv_stepWorker {body : Job → List JOp} {s s' : St} {a : List Act} {i sig : Nat} (h : Inv s)
    (hs : stepWorker body s i sig = some (s', a)) : Inv s' := by
  unfold stepWorker at hs
  split at hs
  all_goals try (simp at hs; done)
  · -- idle
    rename_i hw
    split at hs
    · split at hs
      · cases hs; exact inv_setWorker_same h i _ _ hw rfl rfl
      · cases hs; exact inv_setWorker_same h i _ _ hw rfl rfl
    · split at hs
      · simp at hs
      · rename_i j rest hq
        cases hs
        exact inv_bcastPush (inv_pop h i _ j rest (body j) hw rfl rfl hq)
  · -- woken from pop wait
    rename_i hw
    split at hs
    · split at hs
      · cases hs; exact inv_setWorker_same h i _ _ hw rfl rfl
      · cases hs; exact inv_setWorker_same h i _ _ hw rfl rfl
    · split at hs
      · simp at hs
      · rename_i j rest hq
        cases hs
        exact inv_bcastPush (inv_pop h i _ j rest (body j) hw rfl rfl hq)
  · rename_i j hw
    cases hs
    exact inv_bcastPush (inv_finish h i j hw)
  · -- run j (add a :: rest)
    rename_i j a0 rest hw
    split at hs
    · cases hs; exact inv_setWorker_same h i _ _ hw rfl rfl
    · cases hs
      obtain ⟨w', hw', hr, hj⟩ := addInternal_ws (j := a0) (k := sig) hw
      exact inv_setWorker_same (inv_addInternal h a0 sig) i w' _ hw' (by rw [hr]; rfl) (by rw [hj]; rfl)
  · -- runWaitPush j (add a :: rest) true
    rename_i j a0 rest hw
    split at hs
    · cases hs; exact inv_setWorker_same h i _ _ hw rfl rfl
    · cases hs
      obtain ⟨w', hw', hr, hj⟩ := addInternal_ws (j := a0) (k := sig) hw
      exact inv_setWorker_same (inv_addInternal h a0 sig) i w' _ hw' (by rw [hr]; rfl) (by rw [hj]; rfl)
  · -- run j (tryAdd a :: rest)
    rename_i j a0 rest hw
    split at hs
    · cases hs
      exact inv_congr (inv_setWorker_same h i _ (.run j rest) hw rfl rfl) rfl rfl rfl rfl rfl rfl
    · cases hs
      obtain ⟨w', hw', hr, hj⟩ := addInternal_ws (j := a0) (k := sig) hw
      exact inv_congr (inv_setWorker_same (inv_addInternal h a0 sig) i w' (.run j rest) hw' (by rw [hr]; rfl) (by rw [hj]; rfl)) rfl rfl rfl rfl rfl rfl

theorem inv_stepClient {s s' : St} {a : List Act} {i sig : Nat} (h : Inv s)
    (hs : stepClient s i sig = some (s', a)) : Inv s' := by
  unfold stepClient at hs
  split at hs
  · simp at hs
  · split at hs
    all_goals try (simp at hs; done)
    all_goals (try split at hs)
    all_goals try (simp at hs; done)
    all_goals (cases hs)
    all_goals first
      | exact inv_setClient h _ _
      | exact inv_setClient (inv_addInternal h _ _) _ _
      | (refine inv_setClient ?_ _ _; exact inv_congr h rfl rfl rfl rfl rfl rfl)
      | (refine inv_setClient ?_ _ _; exact inv_congr (inv_addInternal h _ _) rfl rfl rfl rfl rfl rfl)
      | exact inv_setClient (inv_resize h _) _ _
      | exact inv_setClient (inv_bcastPush h) _ _
      | exact inv_setClient (inv_bcastPop h) _ _
      | skip

end ZstdVerif.Pool
