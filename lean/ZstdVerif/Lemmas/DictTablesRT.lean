/-
Round trip of frames whose FIRST blocks repeat the DICTIONARY's entropy tables (properties C08 / C01): `set_repeat` of the dictionary's
LL / OF / ML tables in the first block with sequences, TREELESS literals on the dictionary's Huffman table in the first block with
Huffman literals.  This closes the scope restriction stated in Lemmas/BlockRT.lean / Lemmas/DictRT.lean ("a dictionary's tables are not
offered for repetition").

Writer: Model/DictEnc.lean `serializeFrameFromT` / `serializeFrameDictTables` (ZSTD_loadCEntropy: the compressor's `prevCBlock->entropy`
holds the tables built from the dictionary's normalised counts and Huffman weights, repeat modes `check` / `valid`).
Loader: Model/Dict.lean `Dict.loadD` (ZSTD_loadDEntropy: `litEntropy = fseEntropy = 1`), UNCHANGED.  Decoder: Model/Frame.lean, UNCHANGED.

  serializeFrameFromT_eq_from     `DictEnc.serializeFrameFrom` (hence `BlockEnc.serializeFrame2`) is the instance `prev0 = none`, `hp0 = none`
  decompressFrame_serializedFromT `BlockRT.decompressFrame_serializedT` for ANY starting state (repeat offsets, sequence tables, Huffman
                                  table) that encoder and decoder share (`EntMatch pt0 dict.ent`, `HufMatch hp0 dict.ent`), dictionary ID allowed
  frame_roundtrip_fromT           the same through `Frame.decompressAll`
  readStats_log_le                HUF_readStats never returns a table deeper than the limit it is given
  parseEntropy_huf                the Huffman part of a parsed dictionary is what `Huf.readStats` returned at offset 8
  fullDict_entIs / fullDict_hufMatch / loadD_tables_match
                                  what the loader installs IS the decoding state of `DictEnc.dictTables p` / `DictEnc.dictHuf p`
  frame_roundtrip_compressed_dict_tables   MAIN: every accepted dictionary, every input, every valid tiling whose first blocks may repeat the
                                  dictionary's tables
  demo_load / demo_ok             non-vacuity: a concrete formatted dictionary and a frame whose only block repeats its three tables and is
                                  treeless on its Huffman table

What is asked of a REPEATED dictionary table is `BlockRT.TablesOK` of its counts (inside the tiling hypothesis, only for blocks that do
repeat it), exactly as for a table described in the frame; it is decidable and evaluated by the driver on every dictionary of the
differential tie (`dtab=true`).  That FSE_readNCount only returns such counts is not proved here (it does not for every input: a count
table may end in zeros, which `TablesOK` excludes; such a table can still be loaded, it just is not covered when repeated).
-/
import ZstdVerif.Lemmas.DictRT
set_option linter.unusedSimpArgs false
namespace ZstdVerif.DictTablesRT
open ZstdVerif ZstdVerif.Gen ZstdVerif.BlockEnc ZstdVerif.DictEnc ZstdVerif.Serialize ZstdVerif.HeaderW ZstdVerif.Rep
open ZstdVerif.SeqRT (repOf)
open ZstdVerif.Block (Entropy)
open ZstdVerif.FrameRT (Holds St stepOf StepRaw StepRle forIn_cons_done forIn_cons_yield blockHeader24_size size_ofList)
open ZstdVerif.BlockRT (RepPos TilesT Tiles2 StepCmp effBlocks2 blocks_loopT blockHeader_cmp effBlocks2_ne serializeBlocks2_size_ge forIn_two
  EntMatch EntIs HufMatch tilesT_of_tiles2)
open ZstdVerif.DictRT (DictIDOK)

/-! ### the serializer with a starting entropy state -/

/-- the frames of `DictEnc.serializeFrameFrom` are the frames started without previous tables -/
theorem serializeFrameFromT_eq_from (rep0 : Rep.R) (a : HArgs) (bs : List BlockChoice2) (x : ByteArray) :
    serializeFrameFrom rep0 a bs x = serializeFrameFromT rep0 none none a bs x := rfl

/-- ... and so are the frames of `BlockEnc.serializeFrame2`, from `repStartValue` -/
theorem serializeFrame2_eq_fromT (a : HArgs) (bs : List BlockChoice2) (x : ByteArray) :
    serializeFrame2 a bs x = serializeFrameFromT repStart none none a bs x := rfl

theorem serializeFrameFromT_eq (rep0 : Rep.R) (pt0 : Option Tables) (hp0 : Option HufTab) (a : HArgs) (bs : List BlockChoice2)
    (x : ByteArray) :
    serializeFrameFromT rep0 pt0 hp0 a bs x =
      ofList (writeHeader a) ++ (serializeBlocks2 x (effBlocks2 bs) 0 rep0 pt0 hp0 ++ FrameRT.checksumBytes a x) := by
  unfold serializeFrameFromT epilogue effBlocks2 FrameRT.checksumBytes
  cases bs with
  | nil =>
    simp only [List.isEmpty_nil, if_true, serializeBlocks2, noCompressBlock, ByteArray.empty_append, ByteArray.extract_same,
      ByteArray.append_empty]
  | cons c rest =>
    simp only [List.isEmpty_cons, Bool.false_eq_true, if_false, ByteArray.empty_append]

theorem serializeFrameFromT_size_ge (rep0 : Rep.R) (pt0 : Option Tables) (hp0 : Option HufTab) (a : HArgs) (bs : List BlockChoice2)
    (x : ByteArray) : (if a.magicless then 2 else 6) + 3 ≤ (serializeFrameFromT rep0 pt0 hp0 a bs x).size := by
  rw [serializeFrameFromT_eq]
  have h1 := FrameRT.writeHeader_length_ge a
  have h2 := serializeBlocks2_size_ge x (effBlocks2 bs) 0 rep0 pt0 hp0
  have h3 : 1 ≤ (effBlocks2 bs).length := by
    have := effBlocks2_ne bs
    cases h : effBlocks2 bs with
    | nil => exact absurd h this
    | cons _ _ => simp
  simp only [ByteArray.size_append, size_ofList]
  omega

theorem frameFromT_magic {src : ByteArray} {ip : Nat} {rep0 : Rep.R} {pt0 : Option Tables} {hp0 : Option HufTab} {a : HArgs}
    {bs : List BlockChoice2} {x : ByteArray}
    (h : Holds src ip (serializeFrameFromT rep0 pt0 hp0 a bs x)) (hm : a.magicless = false) : src.le32 ip = ZSTD_MAGICNUMBER := by
  have h5 := serializeFrameFromT_size_ge rep0 pt0 hp0 a bs x
  rw [hm] at h5
  rw [h.le32 (by simp only [Bool.false_eq_true, if_false] at h5; omega)]
  unfold serializeFrameFromT
  generalize serializeBlocks2 x bs 0 rep0 pt0 hp0 ++ epilogue a bs.isEmpty x = rest
  have e : ofList (writeHeader a) ++ rest = ByteArray.mk (writeHeader a ++ rest.data.toList).toArray := by
    have := FrameRT.ofList_append (writeHeader a) rest.data.toList
    rw [FrameRT.ofList_toList] at this
    exact this.symm
  rw [e]
  rcases FrameRT.writeHeader_magic a rest.data.toList with h | h
  · rw [hm] at h; cases h
  · exact h

/-- an empty block list stands for the empty raw last block, whatever the starting state -/
theorem tilesT_effBlocks_from {dc : ByteArray} {bsm : Nat} {x : ByteArray} {bs : List BlockChoice2} {rep : Rep.R} {pt : Option Tables}
    {hp : Option HufTab} (h : TilesT dc bsm x bs 0 rep pt hp) : TilesT dc bsm x (effBlocks2 bs) 0 rep pt hp := by
  unfold effBlocks2
  cases bs with
  | nil =>
    have : 0 = x.size := h
    simp only [List.isEmpty_nil, if_true, TilesT]
    omega
  | cons c rest => exact h

/-! ### one frame, any starting state, dictionary ID allowed -/

/-- **one serialized frame inside any input, any starting state**: `Frame.decompressFrame` (ZSTD_decompressFrame) started at a frame that
the serializer started from the repeat-offset history `rep0`, the previous sequence-table decisions `pt0` and the previous Huffman table
`hp0`, with a dictionary loaded whose entropy state carries the same history (`repOf dict.ent.rep = rep0`, positive), the decoding tables
of `pt0` (`EntMatch`) and the decoding table of `hp0` (`HufMatch`), and whose content the parses may refer to, appends exactly the content
and consumes exactly the frame.  The tiling (`TilesT`) starts from `pt0` / `hp0`: the FIRST block with sequences may say `set_repeat`, the
first block with literals may be treeless.  The header may carry the dictionary's ID. -/
theorem decompressFrame_serializedFromT (rep0 : Rep.R) (hpos : RepPos rep0) (pt0 : Option Tables) (hp0 : Option HufTab)
    (a : HArgs) (ha : a.wf) (dict : Frame.Dict) (hnd : DictIDOK a dict.id)
    (bs : List BlockChoice2) (x : ByteArray) (hfcs : a.contentSizeFlag = true → a.pledged = x.size)
    (hrep0 : repOf dict.ent.rep = rep0) (hem : EntMatch pt0 dict.ent) (hhm : HufMatch hp0 dict.ent)
    (ht : TilesT dict.content (min (if single a then a.pledged else 2 ^ a.windowLog) ZSTD_BLOCKSIZE_MAX) x bs 0 rep0 pt0 hp0)
    {src : ByteArray} {ip0 : Nat} (r : Nat) (hsrc : Holds src ip0 (serializeFrameFromT rep0 pt0 hp0 a bs x))
    (out0 : ByteArray) (cap : Nat) (hcap : out0.size + x.size ≤ cap)
    (o : Frame.Opts) (hml : o.magicless = a.magicless) (hmb : o.maxBlockSize = 0)
    (hhash : a.checksum = true → XXH64.hashRange (out0 ++ x) out0.size x.size = XXH64.hashRange x 0 x.size) :
    ∃ tr, Frame.decompressFrame src ip0 ((serializeFrameFromT rep0 pt0 hp0 a bs x).size + r) dict out0 cap o =
      .ok (out0 ++ x, (serializeFrameFromT rep0 pt0 hp0 a bs x).size, tr) := by
  rw [serializeFrameFromT_eq] at hsrc ⊢
  have htl := tilesT_effBlocks_from ht
  have hne := effBlocks2_ne bs
  generalize effBlocks2 bs = bs2 at hsrc htl hne ⊢
  obtain ⟨hd, g0, g1, hsk, gfcs, gws, gdid, gck⟩ := FrameRT.getHeader_serialized a ha hsrc
  have gbsm := FrameRT.getHeader_bsm g1 hsk
  rw [gws] at gbsm
  have hH := FrameRT.writeHeader_length_ge a
  have hS := serializeBlocks2_size_ge x bs2 0 rep0 pt0 hp0
  have hlen : 1 ≤ bs2.length := by cases bs2 with | nil => exact absurd rfl hne | cons _ _ => simp
  have hC := FrameRT.checksumBytes_size a x
  have hfh : Frame.headerSizeOf (src.u8 (ip0 + if a.magicless = true then 0 else 4)) a.magicless = (writeHeader a).length := by
    rw [← g0]; cases a.magicless <;> rfl
  simp only [ByteArray.size_append, size_ofList]
  generalize hHn : (writeHeader a).length = H at *
  generalize hSn : (serializeBlocks2 x bs2 0 rep0 pt0 hp0).size = S at *
  generalize hCn : (FrameRT.checksumBytes a x).size = C at *
  unfold Frame.decompressFrame
  simp only [bind, Except.bind, pure, Except.pure, throw, throwThe, MonadExceptOf.throw]
  simp only [hmb, hml, hfh, g1, hsk, bne_self_eq_false, Bool.false_eq_true, if_false]
  rw [if_neg (by simp only [ZSTD_blockHeaderSize]; omega), if_neg (by simp only [ZSTD_blockHeaderSize]; omega)]
  have hdidT : (hd.dictID != 0 && dict.id != hd.dictID) = false := by
    rw [gdid]
    rcases hnd with h | h | h
    · simp [h]
    · simp [h]
    · cases a.noDictID <;> simp [h]
  simp only [hdidT, Bool.false_eq_true, if_false]
  generalize hloop : forIn (m := R) (ρ := Std.Legacy.Range) _ _ _ = L
  have hbsm : hd.blockSizeMax ≤ 2 ^ 17 := by rw [gbsm]; simp only [ZSTD_BLOCKSIZE_MAX]; omega
  have hL : ∃ (bl : Array Frame.BlockTrace) (ent2 : Entropy), bl.back?.map (·.hdr.last) = some true ∧
      L = .ok (ip0 + H + S, C + r, out0 ++ x, ent2, bl, none) := by
    rw [← hloop, Std.Legacy.Range.forIn_eq_forIn_range', ← hSn]
    refine blocks_loopT src dict.content x out0 cap hd.blockSizeMax (C + r) _ hbsm ?raw ?rle ?cmp hcap bs2 _ 0 (ip0 + H) _ out0 dict.ent #[]
      rep0 pt0 hp0 (by rw [ByteArray.extract_same, ByteArray.append_empty]) hne ?len (by rw [gbsm]; exact htl) hrep0 hpos hem hhm
      (by rw [← hHn, ← size_ofList]; exact hsrc.right.left) (by omega)
    case len => simp only [List.length_range', Std.Legacy.Range.size]; omega
    case raw =>
      intro i ip rem out ent blocks last n data hh hds h1 h2 h3 h4
      have hbh := FrameRT.blockHeader_raw (rem := rem) hh.left (by omega) h4
      have hex : src.extract (ip + 3) (ip + 3 + n) = data := by
        have := hh.right.extract; rwa [blockHeader24_size, hds] at this
      refine ⟨⟨⟨last, 0, n, n⟩, (out ++ data).size - out.size, none⟩, rfl, ?_⟩
      simp only [hbh, ZSTD_blockHeaderSize, hex]
      rw [if_neg (by omega)]
      simp only [show ((0 : Nat) == 2) = false from rfl, Bool.false_eq_true, if_false, BEq.rfl, if_true]
      rw [if_neg (by omega), if_neg (by rw [ByteArray.size_append, hds]; simp only [Option.isNone_none, Bool.and_true, decide_eq_true_eq]; omega)]
      cases last <;> rfl
    case rle =>
      intro i ip rem out ent blocks last n b hh h1 h2 h3 h4
      have hbh := FrameRT.blockHeader_rle (rem := rem) hh.left (by omega) h4
      have hb : src.u8 (ip + 3) = b.toNat := by
        have := hh.right.u8 0 (Nat.zero_lt_one); rw [blockHeader24_size] at this; exact this
      refine ⟨⟨⟨last, 1, 1, n⟩, (out ++ ByteArray.mk (Array.replicate n b)).size - out.size, none⟩, rfl, ?_⟩
      simp only [hbh, ZSTD_blockHeaderSize, hb, UInt8.ofNat_toNat]
      rw [if_neg (by omega)]
      simp only [show ((1 : Nat) == 2) = false from rfl, show ((1 : Nat) == 0) = false from rfl, Bool.false_eq_true, if_false]
      rw [if_neg (by omega), if_neg (by rw [ByteArray.size_append, FrameRT.size_replicate]; simp only [Option.isNone_none, Bool.and_true, decide_eq_true_eq]; omega)]
      cases last <;> rfl
    case cmp =>
      intro i ip rem out ent blocks last body out2 ent2 tr hh h1 h2 hdec hgrow
      have hbh := blockHeader_cmp (rem := rem) hh.left (by omega) h2
      refine ⟨⟨⟨last, 2, body.size, body.size⟩, out2.size - out.size, some tr⟩, rfl, ?_⟩
      simp only [hbh, ZSTD_blockHeaderSize, hdec]
      rw [if_neg (by omega)]
      simp only [BEq.rfl, if_true]
      rw [if_neg (by simp only [Option.isNone_none, Bool.and_true, decide_eq_true_eq]; omega)]
      cases last <;> rfl
  obtain ⟨bl, entF, hb1, hLe⟩ := hL
  clear hloop
  subst hLe
  simp only [hb1, Option.getD_some, Bool.not_true, Bool.false_eq_true, if_false, gfcs, gck]
  have hx : (out0 ++ x).size - out0.size = x.size := by rw [ByteArray.size_append]; omega
  simp only [hx]
  have hck : a.checksum = true → C = 4 ∧
      src.le32 (ip0 + H + S) = (XXH64.hashRange (out0 ++ x) out0.size x.size).toNat &&& 4294967295 := by
    intro hk
    have h3 := hsrc.right.right
    rw [size_ofList, hHn, hSn] at h3
    unfold FrameRT.checksumBytes at h3
    rw [if_pos hk] at h3
    refine ⟨by rw [hC, if_pos hk], ?_⟩
    rw [h3.le32 (by rw [size_ofList]; simp [le4]), hhash hk]
    exact FrameRT.le32_le4 _ (Nat.lt_succ_of_le Nat.and_le_right)
  have hfin : ip0 + H + S - ip0 = H + S := by omega
  have hfin4 : ip0 + H + S + 4 - ip0 = H + (S + 4) := by omega
  cases hk : a.checksum
  · have hC0 : C = 0 := by rw [hC, hk]; rfl
    subst hC0
    rw [hfin]
    cases hcs : a.contentSizeFlag
    · exact ⟨_, rfl⟩
    · have := hfcs hcs
      simp only [if_true, this, bne_self_eq_false, Bool.false_eq_true, if_false]
      exact ⟨_, rfl⟩
  · obtain ⟨hC4, hrd⟩ := hck hk
    subst hC4
    rw [hfin4]
    simp only [if_true, if_neg (show ¬ 4 + r < 4 by omega), hrd, bne_self_eq_false, Bool.false_eq_true, if_false]
    cases hcs : a.contentSizeFlag
    · cases o.ignoreChecksum <;> exact ⟨_, rfl⟩
    · have := hfcs hcs
      simp only [if_true, this, bne_self_eq_false, Bool.false_eq_true, if_false]
      cases o.ignoreChecksum <;> exact ⟨_, rfl⟩

/-! ### whole inputs (ZSTD_decompress_usingDict) -/

/-- hypotheses on one frame written from the history `rep0`, the previous sequence-table decisions `pt0` and the previous Huffman table
`hp0`, for a decoder holding a dictionary with content `dc` and ID `did`: as `DictRT.FrameOKFrom`, the tiling being a `TilesT` started
from `pt0` / `hp0` - so a block that says `set_repeat` before any block of the frame had sequences resolves to `pt0` (which must then be
acceptable, `TablesOK`, and express the block's codes, `CodesOK`), and a treeless block before any block of the frame wrote a Huffman
table uses `hp0` (which must cover its literals, `TreelessOK`) -/
def FrameOKFromT (dc : ByteArray) (did : Nat) (rep0 : Rep.R) (pt0 : Option Tables) (hp0 : Option HufTab) (a : HArgs)
    (bs : List BlockChoice2) (x : ByteArray) : Prop :=
  a.wf ∧ DictIDOK a did ∧ a.magicless = false ∧ (a.contentSizeFlag = true → a.pledged = x.size) ∧
    TilesT dc (FrameRT.blockSizeMaxOf a) x bs 0 rep0 pt0 hp0

/-- a frame that does not look at the starting tables (`DictRT.FrameOKFrom`: `Tiles2` from `prev = none`) is a frame in the wider sense
started from NO tables -/
theorem frameOKFromT_of_frameOKFrom {dc : ByteArray} {did : Nat} {rep0 : Rep.R} {a : HArgs} {bs : List BlockChoice2} {x : ByteArray}
    (h : DictRT.FrameOKFrom dc did rep0 a bs x) : FrameOKFromT dc did rep0 none none a bs x :=
  ⟨h.1, h.2.1, h.2.2.1, h.2.2.2.1, tilesT_of_tiles2 _ _ x bs 0 rep0 none none h.2.2.2.2⟩

/-- **frame_roundtrip_fromT** (`DictRT.frame_roundtrip_from` for any starting ENTROPY state): for every positive repeat-offset history
`rep0`, previous sequence-table decisions `pt0` and previous Huffman table `hp0` that the encoder starts from and the loaded dictionary
carries (`EntMatch`, `HufMatch`), ZSTD_decompress_usingDict (`Frame.decompressAll`) maps the serialized frame back to `x` -/
theorem frame_roundtrip_fromT (rep0 : Rep.R) (hpos : RepPos rep0) (pt0 : Option Tables) (hp0 : Option HufTab) (a : HArgs)
    (bs : List BlockChoice2) (x : ByteArray) (dict : Frame.Dict)
    (hok : FrameOKFromT dict.content dict.id rep0 pt0 hp0 a bs x) (hrep0 : repOf dict.ent.rep = rep0)
    (hem : EntMatch pt0 dict.ent) (hhm : HufMatch hp0 dict.ent)
    (cap : Nat) (hcap : x.size ≤ cap) (o : Frame.Opts) (hml : o.magicless = false) (hmb : o.maxBlockSize = 0) :
    ∃ traces, Frame.decompressAll (serializeFrameFromT rep0 pt0 hp0 a bs x) dict cap o = .ok (x, traces) := by
  obtain ⟨k1, k2, k3, k4, k5⟩ := hok
  have hh := FrameRT.holds_self (serializeFrameFromT rep0 pt0 hp0 a bs x)
  have hmg := frameFromT_magic hh k3
  have h5 := serializeFrameFromT_size_ge rep0 pt0 hp0 a bs x
  rw [k3] at h5
  simp only [Bool.false_eq_true, if_false] at h5
  obtain ⟨tr, hdf⟩ := decompressFrame_serializedFromT rep0 hpos pt0 hp0 a k1 dict k2 bs x k4 hrep0 hem hhm k5 0 hh ByteArray.empty cap
    (by rw [ByteArray.size_empty]; omega) o (by rw [hml, k3]) hmb (fun _ => by rw [ByteArray.empty_append, ByteArray.size_empty])
  rw [Nat.add_zero, ByteArray.empty_append] at hdf
  unfold Frame.decompressAll
  simp only [bind, Except.bind, pure, Except.pure, throw, throwThe, MonadExceptOf.throw, hml, Bool.false_eq_true, if_false, Bool.not_false,
    Bool.true_and]
  generalize hloop : forIn (m := R) (ρ := Std.Legacy.Range) _ _ _ = L
  have hL : L = .ok ((serializeFrameFromT rep0 pt0 hp0 a bs x).size, 0, x, #[tr], true) := by
    rw [← hloop, Std.Legacy.Range.forIn_eq_forIn_range']
    refine forIn_two _ ?len _ _ (0 + (serializeFrameFromT rep0 pt0 hp0 a bs x).size, 0, x, (#[] : Array Frame.FrameTrace).push tr, true) _
      ?h1 ?h2
    case len => simp only [List.length_range', Std.Legacy.Range.size]; omega
    case h1 =>
      intro i
      have h4 : decide ((serializeFrameFromT rep0 pt0 hp0 a bs x).size ≥ 4) = true := by simp only [decide_eq_true_eq]; omega
      simp only [hmg, hdf, h4, if_true]
      rw [if_neg (by omega)]
      simp only [show Frame.isLegacyMagic ZSTD_MAGICNUMBER = false from by decide, Bool.false_eq_true, if_false,
        show (ZSTD_MAGICNUMBER &&& ZSTD_MAGIC_SKIPPABLE_MASK == ZSTD_MAGIC_SKIPPABLE_START) = false from by decide]
      rw [Nat.sub_self]
    case h2 =>
      intro i
      simp only [if_pos (show (0 : Nat) < 5 by omega)]
      rw [Nat.zero_add]
      rfl
  clear hloop
  subst hL
  simp only [bne_self_eq_false, Bool.false_eq_true, if_false]
  exact ⟨_, rfl⟩

/-- `DictRT.frame_roundtrip_from` is the instance "no starting tables" -/
theorem frame_roundtrip_from_inst (rep0 : Rep.R) (hpos : RepPos rep0) (a : HArgs) (bs : List BlockChoice2) (x : ByteArray)
    (dict : Frame.Dict) (hok : DictRT.FrameOKFrom dict.content dict.id rep0 a bs x) (hrep0 : repOf dict.ent.rep = rep0)
    (cap : Nat) (hcap : x.size ≤ cap) (o : Frame.Opts) (hml : o.magicless = false) (hmb : o.maxBlockSize = 0) :
    ∃ traces, Frame.decompressAll (serializeFrameFrom rep0 a bs x) dict cap o = .ok (x, traces) :=
  frame_roundtrip_fromT rep0 hpos none none a bs x dict (frameOKFromT_of_frameOKFrom hok) hrep0 trivial trivial cap hcap o hml hmb

/-! ### what the dictionary loader installs -/

/-- HUF_readStats_body never returns a table deeper than the limit it is given (`if (tableLog > HUF_TABLELOG_MAX) return ERROR(..)`) -/
theorem statsTail_log_le (hmax : Nat) (ws : Array Nat) (iSize : Nat) (st : Huf.Stats) (h : HufRT.statsTail hmax ws iSize = .ok st) :
    st.tableLog ≤ hmax := by
  unfold HufRT.statsTail at h
  extract_lets t0 at h
  obtain ⟨⟨total, rank1⟩, -, h⟩ := HufRT.bind_ok h
  simp only [] at h
  split at h
  · exact (HufRT.throw_bind_ne _ _ _ h).elim
  split at h
  · exact (HufRT.throw_bind_ne _ _ _ h).elim
  split at h
  · exact (HufRT.throw_bind_ne _ _ _ h).elim
  rename_i _ hle _
  split at h <;> split at h <;> first | exact (HufRT.throw_bind_ne _ _ _ h).elim | (cases h; simp only; omega)

theorem readStats_log_le (src : Bytes) (start n hmax : Nat) (st : Huf.Stats) (h : Huf.readStats src start n hmax = .ok st) :
    st.tableLog ≤ hmax := by
  obtain ⟨ws, iSize, h2⟩ := HufRT.readStats_tail src start n hmax st h
  exact statsTail_log_le hmax ws iSize st h2

/-- the Huffman part of a parsed dictionary entropy section is what HUF_readStats returned behind the 8-byte prefix (magic, dictID) -/
theorem parseEntropy_huf {d : Bytes} {p : Dict.Parsed} (h : Dict.parseEntropy d = .ok p) :
    Huf.readStats d 8 (d.size - 8) = .ok p.huf := by
  unfold Dict.parseEntropy at h
  simp only [bind, Except.bind, pure, Except.pure, Dict.corrupt] at h
  repeat' split at h
  all_goals first | (cases h; done) | skip
  all_goals (rename_i hle; cases h; assumption)

/-- the decoding table HUF_readDTable builds does not depend on how many bytes the weight header took -/
theorem buildTable_used (st : Huf.Stats) : Huf.buildTable st = Huf.buildTable ⟨st.weights, st.tableLog, 0⟩ := rfl

/-- ZSTD_loadDEntropy installs exactly the decoding tables of the decisions `dictTables p`, marked valid (`fseEntropy = 1`):
the three tables are `ZSTD_buildFSETable` of the counts FSE_readNCount returned, which is what `set_compressed` with these counts builds -/
theorem fullDict_entIs (d : Bytes) (p : Dict.Parsed) : EntIs (dictTables p) (Dict.fullDict d p).ent :=
  ⟨rfl, rfl, rfl, rfl, rfl, rfl, rfl⟩

/-- ZSTD_loadDEntropy installs the Huffman decoding table of `dictHuf p` (`litEntropy = 1`), and these weights are what HUF_readStats
accepted: Kraft equality (`WeightsOK`), depth ≤ HUF_TABLELOG_MAX = 12 -/
theorem fullDict_hufMatch {d : Bytes} {p : Dict.Parsed} (h : Dict.parseEntropy d = .ok p) :
    HufMatch (some (dictHuf p)) (Dict.fullDict d p).ent := by
  have hs := parseEntropy_huf h
  exact ⟨HufRT.readStats_weightsOK _ _ _ _ _ hs, readStats_log_le _ _ _ _ _ hs, rfl⟩

/-- **loadD_tables_match**: whatever dictionary `Dict.loadD` accepts, the entropy state it installs carries the tables the compressor
starts from (`DictEnc.dictStart d`: the dictionary's three sequence tables and its Huffman table for a formatted dictionary, nothing for
raw content), in the sense of the carrier relations of the block round trip (`EntMatch`, `HufMatch`) -/
theorem loadD_tables_match {d : Bytes} {D : Frame.Dict} (h : Dict.loadD d = .ok D) :
    EntMatch (dictStart d).1 D.ent ∧ HufMatch (dictStart d).2 D.ent := by
  rcases DictRT.loadD_cases h with ⟨hc, rfl⟩ | ⟨p, hc, rfl⟩
  · unfold dictStart; rw [hc]; exact ⟨trivial, trivial⟩
  · unfold dictStart; rw [hc]
    exact ⟨fullDict_entIs d p, fullDict_hufMatch (DictRT.classify_full hc).2.1⟩

/-- for a formatted dictionary the start state IS the dictionary's tables -/
theorem dictStart_full {d : Bytes} {p : Dict.Parsed} (h : Dict.classify d = .full p) :
    dictStart d = (some (dictTables p), some (dictHuf p)) := by
  unfold dictStart; rw [h]

/-! ### MAIN: first blocks that repeat the dictionary's tables -/

/-- **frame_roundtrip_compressed_dict_tables** (C08 / C01).  For EVERY dictionary buffer `d` the decoder-side loader accepts
(`Dict.loadD d = .ok D`), every input `x`, every accepted header-argument tuple whose dictionary-ID field is absent, 0 or the dictionary's,
and EVERY tiling of `x` into raw / RLE / compressed blocks that is valid when the block loop STARTS FROM THE DICTIONARY'S ENTROPY TABLES
(`TilesT … (dictRep D) (dictStart d).1 (dictStart d).2`): parses valid against `D.content ++ (frame content so far)`, first sequences may
use the dictionary's repeat offsets, the first block(s) with sequences may say `set_repeat` for LL / OF / ML - the table is then the
dictionary's, built by both sides from the counts FSE_readNCount returned - and the first block(s) with literals may be TREELESS on the
dictionary's Huffman table; later blocks repeat whatever the previous block left, as in `BlockRT.frame_roundtrip_compressed_treeless` -
ZSTD_decompress_usingDict (`Frame.decompressAll … D cap o`) returns exactly `x`, for every capacity that can hold it.
What the tiling asks of a repeated dictionary table is what it asks of any described table: `TablesOK` (a normalised distribution the
round-trip theorem of the bit stream accepts) and `CodesOK` (every code the block uses has a non-zero count - what ZSTD_fseBitCost /
ZSTD_dictNCountRepeat establish before `set_repeat` is chosen); of the dictionary's Huffman table: a code for every literal and a gain
(`TreelessOK`; that the weights themselves are acceptable is PROVED from the loader, `fullDict_hufMatch`). -/
theorem frame_roundtrip_compressed_dict_tables (d : Bytes) (D : Frame.Dict) (hload : Dict.loadD d = .ok D)
    (a : HArgs) (bs : List BlockChoice2) (x : ByteArray)
    (hok : FrameOKFromT D.content D.id (dictRep D) (dictStart d).1 (dictStart d).2 a bs x)
    (cap : Nat) (hcap : x.size ≤ cap) (o : Frame.Opts) (hml : o.magicless = false) (hmb : o.maxBlockSize = 0) :
    ∃ traces, Frame.decompressAll (serializeFrameDictTables d D a bs x) D cap o = .ok (x, traces) :=
  frame_roundtrip_fromT (dictRep D) (DictRT.loadD_reps_ok hload).1 (dictStart d).1 (dictStart d).2 a bs x D hok rfl
    (loadD_tables_match hload).1 (loadD_tables_match hload).2 cap hcap o hml hmb

/-! ### non-vacuity: a 112-byte FORMATTED dictionary (Huffman weights for the letters `a`..`h` at depth 4; offset-code, match-length and
literal-length tables over 8 / 8 / 6 codes at table log 5; repeat offsets 5, 9, 2; 28 bytes of content) and a 57-byte input written as ONE
compressed block whose three sequence tables are `set_repeat` - the DICTIONARY's tables - and whose 45 literals are TREELESS on the
DICTIONARY's Huffman table; the first match uses the dictionary's first repeat offset (distance 5).  The loader accepts the dictionary
(`demo_load`), the frame hypothesis holds (`demo_ok`: in particular the dictionary's tables pass `TablesOK` and cover the block's codes),
the theorem applies.  The same dictionary and parse are a fixed case of the differential tie (tools/ent_block.py `fixed_cases_dict`): the real
ZSTD_decompress_usingDict regenerates the input from the model's frame. -/

section Demo
open ZstdVerif.BlockRT (TablesOK CodesOK TreelessOK LitOK)
open ZstdVerif.LitEnc (hufStreams)

def demoDict : ByteArray := ofList [55, 164, 48, 236, 209, 47, 1, 0, 231, 0, 0, 0, 0, 0, 0, 0, 0, 0, 0, 0, 0, 0, 0, 0, 0, 0, 0, 0, 0, 0, 0, 0, 0, 0, 0, 0, 0, 0, 0, 0, 0, 0, 0, 0, 0, 0, 0, 0, 0, 0, 0, 0, 0, 0, 0, 0, 0, 3, 50, 33, 17, 144, 82, 85, 231, 16, 171, 182, 57, 16, 179, 115, 5, 0, 0, 0, 9, 0, 0, 0, 2, 0, 0, 0, 104, 103, 102, 101, 100, 99, 98, 97, 45, 48, 49, 50, 51, 52, 53, 54, 55, 56, 57, 45, 97, 98, 99, 100, 101, 102, 103, 104]
def demoContent : ByteArray := ofList [104, 103, 102, 101, 100, 99, 98, 97, 45, 48, 49, 50, 51, 52, 53, 54, 55, 56, 57, 45, 97, 98, 99, 100, 101, 102, 103, 104]
def demoX : ByteArray := ofList [97, 98, 97, 99, 97, 97, 98, 97, 99, 98, 97, 100, 97, 97, 100, 97, 97, 100, 98, 97, 101, 97, 97, 100, 97, 98, 97, 102, 97, 98, 97, 103, 97, 98, 97, 104, 97, 97, 98, 98, 97, 97, 99, 99, 97, 97, 98, 97, 97, 98, 97, 99, 97, 97, 98, 97, 97]
def demoLits : ByteArray := ofList [97, 98, 97, 99, 97, 98, 97, 100, 97, 98, 97, 101, 97, 98, 97, 102, 97, 98, 97, 103, 97, 98, 97, 104, 97, 97, 98, 98, 97, 97, 99, 99, 97, 97, 98, 97, 97, 98, 97, 99, 97, 97, 98, 97, 97]
def demoRaws : List BlockEnc.RawSeq := [⟨5, 1, 5⟩, ⟨4, 2, 3⟩, ⟨3, 0, 9⟩]
def demoBlocks : List BlockChoice2 := [.compressed .treeless ⟨.repeat, .repeat, .repeat⟩ demoLits demoRaws]
def demoArgs : HArgs := ⟨10, 57, true, 77777, false, true, false⟩
def demoTabs : Tables := { ll := .fse #[16, 8, 4, 2, 1, 1] 5, of := .fse #[8, 8, 4, 4, 4, 2, 1, 1] 5, ml := .fse #[16, 4, 4, 2, 2, 2, 1, 1] 5 }
def demoW : Array Nat := (Array.replicate 97 0) ++ #[3, 3, 2, 2, 1, 1, 1, 1]

def kindParsed : Dict.Kind → Option Dict.Parsed
  | .full p => some p
  | _ => none

def demoP : Dict.Parsed := (kindParsed (Dict.classify demoDict)).getD default
def demoD : Frame.Dict := Dict.fullDict demoDict demoP

theorem demo_classify : Dict.classify demoDict = .full demoP := by
  have h : (kindParsed (Dict.classify demoDict)).isSome = true := by decide +kernel
  unfold demoP
  cases hc : Dict.classify demoDict with
  | full p => rfl
  | raw => rw [hc] at h; cases h
  | corrupted w => rw [hc] at h; cases h

theorem demo_load : Dict.loadD demoDict = .ok demoD := by
  unfold Dict.loadD; rw [demo_classify]; rfl

/-- what the loader model makes of the 112 bytes: the tables, the repeat offsets, the content, the ID -/
theorem demo_facts : dictStart demoDict = (some demoTabs, some (demoW, 4)) ∧ dictRep demoD = ⟨5, 9, 2⟩ ∧ demoD.content = demoContent ∧
    demoD.id = 77777 := by decide +kernel
theorem demo_start : dictStart demoDict = (some demoTabs, some (demoW, 4)) := demo_facts.1
theorem demo_rep : dictRep demoD = ⟨5, 9, 2⟩ := demo_facts.2.1
theorem demo_content : demoD.content = demoContent := demo_facts.2.2.1
theorem demo_id : demoD.id = 77777 := demo_facts.2.2.2

theorem demo_treelessOK : TreelessOK demoW 4 demoLits where
  syms := by decide +kernel
  gain := fun st h => by
    have := BlockRT.gain_of_check (a := some ByteArray.empty) (n := demoLits.size)
      (b := hufStreams (decide ((symsOf demoLits).length < 256)) (HufEnc.codesOf demoW 4) (symsOf demoLits)) (by decide +kernel)
      ByteArray.empty st rfl h
    simpa using this

theorem demo_ok : FrameOKFromT demoD.content demoD.id (dictRep demoD) (dictStart demoDict).1 (dictStart demoDict).2 demoArgs demoBlocks demoX := by
  rw [demo_content, demo_id, demo_rep, demo_start]
  refine ⟨by unfold HArgs.wf; decide, Or.inr (Or.inr rfl), rfl, fun _ => rfl, ?_⟩
  have hb : FrameRT.blockSizeMaxOf demoArgs = 57 := by decide
  rw [hb]
  refine ⟨by decide, by decide, by decide +kernel, by decide, demo_treelessOK, fun _ => rfl, by decide +kernel, by decide +kernel, by decide +kernel, ?_⟩
  show 0 + parseLen demoLits demoRaws = demoX.size
  decide

example : ∃ tr, Frame.decompressAll (serializeFrameDictTables demoDict demoD demoArgs demoBlocks demoX) demoD 57 {} = .ok (demoX, tr) :=
  frame_roundtrip_compressed_dict_tables demoDict demoD demo_load _ _ _ demo_ok 57 (by decide) {} rfl rfl

example : (serializeFrameDictTables demoDict demoD { demoArgs with checksum := false } demoBlocks demoX).data =
  #[40, 181, 47, 253, 35, 209, 47, 1, 0, 57, 189, 0, 0, 211, 66, 3, 186, 202, 117, 149, 244, 117, 92, 113, 195, 5, 119,
  174, 220, 3, 252, 5, 226, 147, 39, 164] := by decide +kernel
end Demo

end ZstdVerif.DictTablesRT
