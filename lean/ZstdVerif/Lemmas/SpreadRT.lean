/-
FSE symbol spreading, proved for EVERY normalised distribution (no table is evaluated): the two side conditions that the round-trip
theorems of the sequence tables used to carry as hypotheses checked per table at run time (`spreadOK=true spreadEncEqDec=true`).

  spread_ok            `NormOK norm L → 4 ≤ L → SpreadOK (spread norm L) norm L`: the decoder-side spreading (FSE_buildDTable_internal,
                       lib/common/fse_decompress.c / ZSTD_buildFSETable_body, lib/decompress/zstd_decompress_block.c; model `FSE.spread`)
                       fills the `2^L` positions with symbols of the alphabet, each as often as its count says (once for -1)
  spreadEnc_eq_spread  `NormOK norm L → spreadEnc norm L = spread norm L`: the encoder-side spreading (FSE_buildCTable_wksp,
                       lib/compress/fse_compress.c; model `FSE.spreadEnc`), fast path included, lays down the same table

Proof plan.  (1) The `for` loops of the two model functions are rewritten, once and without any hypothesis, as left folds
(`spread_eq_fold`, `spreadEnc_eq_fold`; the `while (position > highThreshold)` loop with its budget is `skipFn`).  (2) A table is the
list of writes `(position, symbol)` made into it (`setAll`); when the positions written are a rearrangement of all positions, a symbol
occurs as often as it was written (`setAll_count`).  (3) First loop: the k-th low-probability symbol goes to position `2^L - 1 - k`
(`lowFold_eq`).  (4) The walk: position after `t` steps = `t * step mod 2^L` (`walk`); started on a free position, the placements go
to the free positions of the walk in walk order, as long as free positions remain (`placeFold_eq`; `skipFn_walk`: the skip loop stops
at the next free position).  (5) `step = (size>>1) + (size>>3) + 3` is odd for `4 ≤ L` and `size` is a power of two, so the first
`2^L` walk positions are pairwise different (`walk_inj`), hence a rearrangement of all positions (`walk_perm`: SINGLE CYCLE; pigeonhole
`perm_range_of_nodup`), hence exactly `high + 1` of them are free (`free_count`): the placements never run out of free positions and the
skip loop never runs out of its budget.  (6) Counting the symbols written (`count_written`) gives `spread_ok`.  (7) Encoder: with a
low-probability symbol its code is the decoder's; without, `spread[]` holds the placement symbols in order (`layFold_inv`: the 8-byte
writes only overshoot into cells that the next symbol rewrites) and the dealing loop writes cell `k` of it at walk position `k`
(`dealFold_eq`), which is what the walk does when nothing is skipped.
Only core lemmas are used (no Mathlib).  The model definitions are unchanged.
-/
import ZstdVerif.Lemmas.FSERT
namespace ZstdVerif.FSE

/-! ### 1. loops of the model as folds -/

/-- a `for` loop over a range whose body never breaks is a left fold over the indices of the range -/
theorem forIn_legacy_yield {β : Type} (r : Std.Legacy.Range) (init : β) (f : Nat → β → Id (ForInStep β)) (g : Nat → β → β)
    (h : ∀ i b, f i b = ForInStep.yield (g i b)) :
    forIn (m := Id) r init f = (List.range' r.start r.size r.step).foldl (fun b i => g i b) init := by
  rw [Std.Legacy.Range.forIn_eq_forIn_range']
  have e : f = fun i b => pure (ForInStep.yield (g i b)) := by funext i b; exact h i b
  rw [e]
  exact List.forIn_pure_yield_eq_foldl g init

/-- ... for `[0:n]` -/
theorem forIn_upto_yield {β : Type} (n : Nat) (init : β) (f : Nat → β → Id (ForInStep β)) (g : Nat → β → β)
    (h : ∀ i b, f i b = ForInStep.yield (g i b)) :
    forIn (m := Id) [0:n] init f = (List.range n).foldl (fun b i => g i b) init := by
  rw [forIn_legacy_yield _ _ _ g h]
  simp [Std.Legacy.Range.size, List.range_eq_range']

/-- the `while (position > highThreshold) position = (position + step) & tableMask;` loop of the spreading, with a budget of `fuel` turns -/
def skipFn (step mask high : Nat) : Nat → Nat → Nat
  | 0, p => p
  | fuel + 1, p => if p ≤ high then p else skipFn step mask high fuel ((p + step) &&& mask)

theorem forIn_list_skip (step mask high : Nat) (l : List Nat) (p : Nat) :
    forIn (m := Id) l p (fun _ q => if q ≤ high then ForInStep.done q else ForInStep.yield ((q + step) &&& mask)) =
      skipFn step mask high l.length p := by
  induction l generalizing p with
  | nil => rfl
  | cons a t ih =>
    rw [List.forIn_cons]
    by_cases h : p ≤ high
    · simp only [h, if_true, List.length_cons, skipFn]; rfl
    · simp only [h, if_false, List.length_cons, skipFn]
      exact ih _

theorem forIn_upto_skip (step mask high n p : Nat) :
    forIn (m := Id) [0:n] p (fun _ q => if q ≤ high then ForInStep.done q else ForInStep.yield ((q + step) &&& mask)) =
      skipFn step mask high n p := by
  rw [Std.Legacy.Range.forIn_eq_forIn_range', forIn_list_skip]
  simp [Std.Legacy.Range.size]

/-- first loop of both spreading procedures: one turn, `if (normalizedCounter[s] == -1) tableSymbol[highThreshold--] = s`.
State: (table, highThreshold) -/
def lowStep (norm : Array Int) (st : Array Nat × Nat) (s : Nat) : Array Nat × Nat :=
  if norm[s]! == -1 then (st.1.set! st.2 s, st.2 - 1) else st

/-- first loop of both spreading procedures -/
def lowPass (norm : Array Int) (L : Nat) : Array Nat × Nat :=
  (List.range norm.size).foldl (lowStep norm) (Array.replicate (1 <<< L) 0, 1 <<< L - 1)

/-- one placement of the walk: `tableSymbol[position] = s; position = (position + step) & tableMask;
while (position > highThreshold) position = (position + step) & tableMask;`.  State: (table, position) -/
def place (L high : Nat) (st : Array Nat × Nat) (s : Nat) : Array Nat × Nat :=
  (st.1.set! st.2 s,
    skipFn (tableStep (1 <<< L)) (1 <<< L - 1) high (1 <<< L) ((st.2 + tableStep (1 <<< L)) &&& (1 <<< L - 1)))

/-- the symbols of the walk placements, in order: symbol `s` repeated `norm[s]` times (not at all for `norm[s] ≤ 0`) -/
def valsOf (norm : Array Int) : List Nat := (List.range norm.size).flatMap fun s => List.replicate norm[s]!.toNat s

theorem lowPass_eq (norm : Array Int) (L : Nat) :
    forIn (m := Id) [0:norm.size] (Array.replicate (1 <<< L) 0, 1 <<< L - 1) (fun s __s =>
      if (norm[s]! == -1) = true then ForInStep.yield (__s.fst.set! __s.snd s, __s.snd - 1)
      else ForInStep.yield (__s.fst, __s.snd)) = lowPass norm L := by
  rw [forIn_upto_yield _ _ _ (fun s st => lowStep norm st s)]
  · rfl
  · intro i b
    unfold lowStep
    split <;> rfl

theorem foldl_replicate_const {β : Type} (g : β → Nat → β) (s n : Nat) (b : β) :
    (List.range n).foldl (fun b _ => g b s) b = (List.replicate n s).foldl g b := by
  induction n generalizing b with
  | zero => rfl
  | succ n ih => rw [List.range_succ, List.foldl_append, List.replicate_succ', List.foldl_append, ih]; rfl

/-- the walk of one symbol, as both procedures write it -/
theorem symLoop_eq (L high s n : Nat) (st : Array Nat × Nat) :
    forIn (m := Id) [0:n] (st.fst, st.snd) (fun _ __s =>
      ForInStep.yield (__s.fst.set! __s.snd s,
        forIn (m := Id) [0:1 <<< L] (__s.snd + tableStep (1 <<< L) &&& 1 <<< L - 1) fun _ __s =>
          if __s ≤ high then ForInStep.done __s else ForInStep.yield (__s + tableStep (1 <<< L) &&& 1 <<< L - 1))) =
      (List.replicate n s).foldl (place L high) st := by
  rw [forIn_upto_yield _ _ _ (fun _ st => place L high st s)]
  · exact foldl_replicate_const (place L high) s n st
  · intro i b
    unfold place
    rw [forIn_upto_skip]

/-- **the decoder-side spreading as two folds** (FSE_buildDTable_internal / ZSTD_buildFSETable_body) -/
theorem spread_eq_fold (norm : Array Int) (L : Nat) :
    spread norm L = ((valsOf norm).foldl (place L (lowPass norm L).2) ((lowPass norm L).1, 0)).1 := by
  unfold spread
  simp only [Id.run, bind, pure]
  rw [lowPass_eq]
  rw [forIn_upto_yield _ _ _ (fun s st => (List.replicate norm[s]!.toNat s).foldl (place L (lowPass norm L).2) st)]
  · rw [valsOf, List.foldl_flatMap]
  · intro s b
    split
    · rw [symLoop_eq]
    · rename_i h
      have : norm[s]!.toNat = 0 := by omega
      rw [this]; rfl

/-- FSE_buildCTable_wksp, the fast path (no low-probability symbol), first stage: one symbol laid down in `spread[]` by 8-byte writes
(`MEM_write64(spread + pos, sv)`, then `MEM_write64(spread + pos + i, sv)` for `i = 8, 16, .. < n`); state (spread[], pos) -/
def layStep (norm : Array Int) (st : Array Nat × Nat) (s : Nat) : Array Nat × Nat :=
  ((List.range' 8 ((norm[s]!.toNat - 8 + 8 - 1) / 8) 8).foldl
      (fun a i => (List.range 8).foldl (fun a j => a.set! (st.2 + i + j) s) a)
      ((List.range 8).foldl (fun a j => a.set! (st.2 + j) s) st.1),
    st.2 + norm[s]!.toNat)

/-- the `spread[]` array of the fast path -/
def layOf (norm : Array Int) (L : Nat) : Array Nat :=
  ((List.range norm.size).foldl (layStep norm) (Array.replicate (1 <<< L + 8) 0, 0)).1

/-- FSE_buildCTable_wksp, the fast path, second stage: one turn of the dealing loop (two symbols); state (tableSymbol, position) -/
def dealStep (L : Nat) (lay : Array Nat) (st : Array Nat × Nat) (s : Nat) : Array Nat × Nat :=
  ((List.range 2).foldl (fun a u => a.set! ((st.2 + u * tableStep (1 <<< L)) &&& (1 <<< L - 1)) lay[s + u]!) st.1,
    (st.2 + 2 * tableStep (1 <<< L)) &&& (1 <<< L - 1))

/-- **the encoder-side spreading as folds** (FSE_buildCTable_wksp) -/
theorem spreadEnc_eq_fold (norm : Array Int) (L : Nat) :
    spreadEnc norm L =
      if (lowPass norm L).2 = 1 <<< L - 1 then
        ((List.range' 0 ((1 <<< L + 2 - 1) / 2) 2).foldl (dealStep L (layOf norm L)) ((lowPass norm L).1, 0)).1
      else ((valsOf norm).foldl (place L (lowPass norm L).2) ((lowPass norm L).1, 0)).1 := by
  unfold spreadEnc
  simp only [Id.run, bind, pure]
  rw [lowPass_eq]
  by_cases hh : (lowPass norm L).2 = 1 <<< L - 1
  · rw [if_pos (by simpa using hh), if_pos hh]
    have hlay : (forIn (m := Id) [0:norm.size] (Array.replicate (1 <<< L + 8) 0, 0) fun s __s =>
        ForInStep.yield
          (forIn (m := Id) [8:norm[s]!.toNat:8]
              (forIn (m := Id) [0:8] __s.fst fun j __s_2 => ForInStep.yield (__s_2.set! (__s.snd + j) s))
              fun i __s_2 =>
              ForInStep.yield
                (forIn (m := Id) [0:8] __s_2 fun j __s_3 => ForInStep.yield (__s_3.set! (__s.snd + i + j) s)),
            __s.snd + norm[s]!.toNat)).fst = layOf norm L := by
      rw [forIn_upto_yield _ _ _ (fun s st => layStep norm st s)]
      · rfl
      · intro s b
        unfold layStep
        rw [forIn_upto_yield _ _ _ (fun j (a : Array Nat) => a.set! (b.2 + j) s) (fun _ _ => rfl)]
        rw [forIn_legacy_yield _ _ _ (fun i a => (List.range 8).foldl (fun a j => a.set! (b.2 + i + j) s) a)]
        · rfl
        · intro i a
          rw [forIn_upto_yield _ _ _ (fun j (a : Array Nat) => a.set! (b.2 + i + j) s) (fun _ _ => rfl)]
    rw [hlay]
    rw [forIn_legacy_yield _ _ _ (fun s st => dealStep L (layOf norm L) st s)]
    · rfl
    · intro s b
      unfold dealStep
      rw [forIn_upto_yield _ _ _ (fun u (a : Array Nat) => a.set! ((b.2 + u * tableStep (1 <<< L)) &&& (1 <<< L - 1)) (layOf norm L)[s + u]!)
        (fun _ _ => rfl)]
  · rw [if_neg (by simpa using hh), if_neg hh]
    rw [forIn_upto_yield _ _ _ (fun s st => (List.replicate norm[s]!.toNat s).foldl (place L (lowPass norm L).2) st)]
    · rw [valsOf, List.foldl_flatMap]
    · intro s b
      rw [symLoop_eq]

/-! ### 2. a table as the list of the writes made into it -/

/-- the writes `(position, symbol)` made one after the other -/
def setAll (a : Array Nat) (ws : List (Nat × Nat)) : Array Nat := ws.foldl (fun a w => a.set! w.1 w.2) a

theorem setAll_cons (a : Array Nat) (w : Nat × Nat) (ws : List (Nat × Nat)) : setAll a (w :: ws) = setAll (a.set! w.1 w.2) ws := rfl

theorem setAll_append (a : Array Nat) (ws1 ws2 : List (Nat × Nat)) : setAll a (ws1 ++ ws2) = setAll (setAll a ws1) ws2 := by
  simp [setAll, List.foldl_append]

theorem setAll_size (a : Array Nat) (ws : List (Nat × Nat)) : (setAll a ws).size = a.size := by
  induction ws generalizing a with
  | nil => rfl
  | cons w t ih => rw [setAll_cons, ih]; simp

theorem setAll_get_of_not_mem (a : Array Nat) (ws : List (Nat × Nat)) (p : Nat) (h : p ∉ ws.map Prod.fst) :
    (setAll a ws)[p]! = a[p]! := by
  induction ws generalizing a with
  | nil => rfl
  | cons w t ih =>
    rw [setAll_cons, ih _ (by intro hm; exact h (by simp only [List.map_cons, List.mem_cons]; exact Or.inr hm))]
    exact getBang_set_ne _ _ _ _ (by intro e; apply h; simp [e])

theorem setAll_get_of_mem (a : Array Nat) (ws : List (Nat × Nat)) (hn : (ws.map Prod.fst).Nodup) (hb : ∀ w ∈ ws, w.1 < a.size) :
    ∀ w ∈ ws, (setAll a ws)[w.1]! = w.2 := by
  induction ws generalizing a with
  | nil => intro w hw; cases hw
  | cons x t ih =>
    intro w hw
    rw [List.map_cons, List.nodup_cons] at hn
    rw [setAll_cons]
    rcases List.mem_cons.1 hw with e | hm
    · subst e
      rw [setAll_get_of_not_mem _ _ _ hn.1]
      exact getBang_set_eq _ _ _ (hb w List.mem_cons_self)
    · exact ih _ hn.2 (fun w hw => by rw [Array.size_set!]; exact hb w (List.mem_cons_of_mem _ hw)) w hm

theorem toList_eq_map_range (a : Array Nat) : a.toList = (List.range a.size).map (a[·]!) := by
  apply List.ext_getElem
  · simp
  · intro i h1 h2
    have : i < a.size := by simpa using h1
    simp [this]

/-- a list of `N` different numbers below `N` is a rearrangement of `0 .. N-1` -/
theorem nodup_length_le (N : Nat) (l : List Nat) (hn : l.Nodup) (hb : ∀ x ∈ l, x < N) : l.length ≤ N := by
  induction N generalizing l with
  | zero =>
    cases l with
    | nil => simp
    | cons x t => exact absurd (hb x List.mem_cons_self) (by omega)
  | succ N ih =>
    have h1 := ih (l.erase N) (hn.erase N) (fun x hx => by
      have h2 := (hn.mem_erase_iff).1 hx
      have := hb x h2.2
      omega)
    rw [List.length_erase] at h1
    split at h1 <;> omega

theorem perm_range_of_nodup (N : Nat) (l : List Nat) (hn : l.Nodup) (hb : ∀ x ∈ l, x < N) (hl : l.length = N) :
    l.Perm (List.range N) := by
  rw [List.perm_iff_count]
  intro a
  rw [hn.count, List.nodup_range.count]
  by_cases ha : a < N
  · have : a ∈ l := by
      apply Classical.byContradiction
      intro hna
      have := nodup_length_le N (a :: l) (List.nodup_cons.2 ⟨hna, hn⟩) (fun x hx => by
        rcases List.mem_cons.1 hx with e | hm
        · omega
        · exact hb x hm)
      simp at this
      omega
    simp [this, ha]
  · have : a ∉ l := fun hm => ha (hb a hm)
    simp [this, ha]

/-- when the positions written are a rearrangement of all positions, a symbol occurs in the table as often as it was written -/
theorem setAll_count (a : Array Nat) (ws : List (Nat × Nat)) (N s : Nat) (ha : a.size = N)
    (hp : (ws.map Prod.fst).Perm (List.range N)) : (setAll a ws).toList.count s = (ws.map Prod.snd).count s := by
  have hn : (ws.map Prod.fst).Nodup := hp.nodup_iff.2 List.nodup_range
  have hb : ∀ w ∈ ws, w.1 < a.size := fun w hw => by
    have : w.1 ∈ List.range N := hp.subset (List.mem_map_of_mem hw)
    rw [ha]; exact List.mem_range.1 this
  rw [toList_eq_map_range, setAll_size, ha, List.count_eq_countP, List.countP_map, ← hp.countP_eq, List.countP_map,
    List.count_eq_countP, List.countP_map]
  apply List.countP_congr
  intro w hw
  simp only [Function.comp, setAll_get_of_mem a ws hn hb w hw]

/-! ### 3. the first loop: low-probability symbols go to the top of the table -/

/-- the low-probability symbols among the first `m` -/
def lowsUpto (norm : Array Int) (m : Nat) : List Nat := (List.range m).filter fun s => norm[s]! == -1

theorem lowsUpto_succ (norm : Array Int) (m : Nat) :
    lowsUpto norm (m + 1) = if norm[m]! == -1 then lowsUpto norm m ++ [m] else lowsUpto norm m := by
  unfold lowsUpto
  rw [List.range_succ, List.filter_append]
  by_cases h : (norm[m]! == -1) = true
  · simp [h]
  · simp [h]

theorem lowFold_eq (norm : Array Int) (N m : Nat) (a : Array Nat) :
    (List.range m).foldl (lowStep norm) (a, N - 1) =
      (setAll a (List.zip ((List.range (lowsUpto norm m).length).map fun i => N - 1 - i) (lowsUpto norm m)),
        N - 1 - (lowsUpto norm m).length) := by
  induction m with
  | zero => simp [lowsUpto, setAll]
  | succ m ih =>
    rw [List.range_succ, List.foldl_append, ih, lowsUpto_succ]
    simp only [List.foldl_cons, List.foldl_nil]
    unfold lowStep
    by_cases h : (norm[m]! == -1) = true
    · rw [if_pos h, if_pos h]
      simp only [List.length_append, List.length_cons, List.length_nil]
      rw [List.range_succ, List.map_append, List.zip_append (by simp), setAll_append]
      simp only [List.map_cons, List.map_nil, List.zip_cons_cons, List.zip_nil_right, setAll_cons]
      congr 1
    · rw [if_neg h, if_neg h]

/-! ### 4. the walk -/

/-- position of the walk after `t` steps -/
def walk (L t : Nat) : Nat := (t * tableStep (1 <<< L)) % 2 ^ L

theorem walk_succ (L t : Nat) : (walk L t + tableStep (1 <<< L)) &&& (1 <<< L - 1) = walk L (t + 1) := by
  unfold walk
  simp only [Nat.shiftLeft_eq, Nat.one_mul]
  rw [Nat.and_two_pow_sub_one_eq_mod, Nat.succ_mul, Nat.mod_add_mod]

theorem walk_lt (L t : Nat) : walk L t < 2 ^ L := Nat.mod_lt _ (Nat.two_pow_pos L)

/-- the skip loop stops at the next walk position that is not above `high` -/
theorem skipFn_walk (L high : Nat) : ∀ (j a fuel : Nat), j < fuel → (∀ i, i < j → ¬ walk L (a + i) ≤ high) → walk L (a + j) ≤ high →
    skipFn (tableStep (1 <<< L)) (1 <<< L - 1) high fuel (walk L a) = walk L (a + j) := by
  intro j
  induction j with
  | zero =>
    intro a fuel hf _ h
    obtain ⟨f, rfl⟩ : ∃ f, fuel = f + 1 := ⟨fuel - 1, by omega⟩
    rw [skipFn, if_pos (by simpa using h)]; rfl
  | succ j ih =>
    intro a fuel hf hn h
    obtain ⟨f, rfl⟩ : ∃ f, fuel = f + 1 := ⟨fuel - 1, by omega⟩
    have h0 := hn 0 (by omega)
    rw [Nat.add_zero] at h0
    rw [skipFn, if_neg h0, walk_succ, ih (a + 1) f (by omega) (fun i hi => by
      have := hn (i + 1) (by omega)
      rwa [show a + (i + 1) = a + 1 + i by omega] at this) (by rwa [show a + (j + 1) = a + 1 + j by omega] at h)]
    congr 1; omega

/-- the first index of `a, a+1, ..` that satisfies `p` -/
theorem next_free (p : Nat → Bool) : ∀ (d a : Nat), (List.range' a d).filter p ≠ [] →
    ∃ j, j < d ∧ (∀ i, i < j → p (a + i) = false) ∧ p (a + j) = true ∧
      (List.range' a d).filter p = (List.range' (a + j) (d - j)).filter p := by
  intro d
  induction d with
  | zero => intro a h; exact absurd rfl h
  | succ d ih =>
    intro a h
    by_cases hp : p a = true
    · exact ⟨0, by omega, fun i hi => by omega, hp, rfl⟩
    · rw [List.range'_succ, List.filter_cons, if_neg hp] at h
      obtain ⟨j, h1, h2, h3, h4⟩ := ih (a + 1) h
      refine ⟨j + 1, by omega, fun i hi => ?_, by rwa [show a + (j + 1) = a + 1 + j by omega], ?_⟩
      · cases i with
        | zero => simpa using hp
        | succ i => rw [show a + (i + 1) = a + 1 + i by omega]; exact h2 i (by omega)
      · rw [List.range'_succ, List.filter_cons, if_neg hp, h4, show a + (j + 1) = a + 1 + j by omega,
          show d + 1 - (j + 1) = d - j by omega]

/-- **the walk as a list of writes**: started on a free position, the placements go to the free positions of the walk, in walk order -/
theorem placeFold_eq (L high : Nat) (vs : List Nat) : ∀ (a : Array Nat) (t : Nat), t < 2 ^ L → walk L t ≤ high →
    vs.length ≤ ((List.range' t (2 ^ L - t)).filter fun i => decide (walk L i ≤ high)).length →
    (vs.foldl (place L high) (a, walk L t)).1 =
      setAll a (List.zip (((List.range' t (2 ^ L - t)).filter fun i => decide (walk L i ≤ high)).map (walk L)) vs) := by
  induction vs with
  | nil => intro a t _ _ _; simp [setAll]
  | cons v vs ih =>
    intro a t ht hfree hlen
    have hsplit : (List.range' t (2 ^ L - t)).filter (fun i => decide (walk L i ≤ high)) =
        t :: (List.range' (t + 1) (2 ^ L - t - 1)).filter (fun i => decide (walk L i ≤ high)) := by
      rw [show 2 ^ L - t = (2 ^ L - t - 1) + 1 by omega, List.range'_succ, List.filter_cons, if_pos (by simpa using hfree)]
      simp
    rw [hsplit] at hlen ⊢
    rw [List.foldl_cons, List.map_cons, List.zip_cons_cons, setAll_cons]
    show (vs.foldl (place L high) (a.set! (walk L t) v,
      skipFn (tableStep (1 <<< L)) (1 <<< L - 1) high (1 <<< L) ((walk L t + tableStep (1 <<< L)) &&& (1 <<< L - 1)))).1 = _
    rw [walk_succ]
    cases vs with
    | nil => simp [setAll]
    | cons v2 vs2 =>
      have hne : (List.range' (t + 1) (2 ^ L - t - 1)).filter (fun i => decide (walk L i ≤ high)) ≠ [] := by
        intro e; rw [e] at hlen; simp at hlen
      obtain ⟨j, h1, h2, h3, h4⟩ := next_free _ _ _ hne
      rw [skipFn_walk L high j (t + 1) (1 <<< L) (by rw [Nat.shiftLeft_eq, Nat.one_mul]; omega)
        (fun i hi => by simpa using h2 i hi) (by simpa using h3)]
      rw [h4] at hlen ⊢
      rw [show 2 ^ L - t - 1 - j = 2 ^ L - (t + 1 + j) by omega] at hlen ⊢
      exact ih _ (t + 1 + j) (by omega) (by simpa using h3) (by simpa using hlen)

/-! ### 5. the walk visits every position once -/

/-- `step = (tableSize>>1) + (tableSize>>3) + 3` is odd for tables of at least 16 cells -/
theorem step_odd {L : Nat} (h : 4 ≤ L) : tableStep (1 <<< L) % 2 = 1 := by
  have e : 2 ^ L = 16 * 2 ^ (L - 4) := by
    rw [show (16 : Nat) = 2 ^ 4 by rfl, ← Nat.pow_add]; congr 1; omega
  unfold tableStep
  rw [Nat.shiftLeft_eq, Nat.one_mul, e, Nat.shiftRight_eq_div_pow, Nat.shiftRight_eq_div_pow]
  omega

/-- an odd step and a power-of-two table size: two walk indices below the table size give different positions -/
theorem walk_inj {L : Nat} (hL : 4 ≤ L) {i j : Nat} (hi : i < 2 ^ L) (hj : j < 2 ^ L) (e : walk L i = walk L j) : i = j := by
  have key : ∀ i j : Nat, i ≤ j → j < 2 ^ L → walk L i = walk L j → i = j := by
    intro i j hij hj e
    unfold walk at e
    have h1 : (j * tableStep (1 <<< L) - i * tableStep (1 <<< L)) % 2 ^ L = 0 := Nat.sub_mod_eq_zero_of_mod_eq e.symm
    rw [← Nat.sub_mul] at h1
    have hc : Nat.Coprime (2 ^ L) (tableStep (1 <<< L)) := by
      apply Nat.Coprime.pow_left
      show Nat.gcd 2 (tableStep (1 <<< L)) = 1
      rw [Nat.gcd_rec, step_odd hL]
      rfl
    have h2 : 2 ^ L ∣ j - i := hc.dvd_of_dvd_mul_right (Nat.dvd_of_mod_eq_zero h1)
    have := Nat.eq_zero_of_dvd_of_lt h2 (by omega)
    omega
  rcases Nat.le_total i j with h | h
  · exact key i j h hj e
  · exact (key j i h hi e.symm).symm

theorem walk_nodup {L : Nat} (hL : 4 ≤ L) : ((List.range (2 ^ L)).map (walk L)).Nodup := by
  unfold List.Nodup
  rw [List.pairwise_map]
  refine List.Pairwise.imp_of_mem ?_ (List.nodup_range (n := 2 ^ L))
  intro a b ha hb hab e
  exact hab (walk_inj hL (List.mem_range.1 ha) (List.mem_range.1 hb) e)

/-- **single cycle**: the first `2^L` positions of the walk are a rearrangement of all `2^L` positions -/
theorem walk_perm {L : Nat} (hL : 4 ≤ L) : ((List.range (2 ^ L)).map (walk L)).Perm (List.range (2 ^ L)) :=
  perm_range_of_nodup _ _ (walk_nodup hL) (fun x hx => by
    obtain ⟨t, _, rfl⟩ := List.mem_map.1 hx
    exact walk_lt L t) (by simp)

theorem countP_le_range {N high : Nat} (h : high < N) : (List.range N).countP (fun x => decide (x ≤ high)) = high + 1 := by
  rw [show N = (high + 1) + (N - high - 1) by omega, List.range_add, List.countP_append]
  have h1 : (List.range (high + 1)).countP (fun x => decide (x ≤ high)) = (List.range (high + 1)).length :=
    List.countP_eq_length.2 (fun a ha => by have := List.mem_range.1 ha; simp; omega)
  have h2 : ((List.range (N - high - 1)).map fun x => high + 1 + x).countP (fun x => decide (x ≤ high)) = 0 :=
    List.countP_eq_zero.2 (fun a ha => by
      obtain ⟨x, _, rfl⟩ := List.mem_map.1 ha
      simp only [decide_eq_true_eq]
      omega)
  rw [h1, h2]; simp

/-- the walk meets exactly `high + 1` positions `≤ high` in `2^L` steps -/
theorem free_count {L high : Nat} (hL : 4 ≤ L) (h : high < 2 ^ L) :
    ((List.range (2 ^ L)).filter fun i => decide (walk L i ≤ high)).length = high + 1 := by
  rw [← List.countP_eq_length_filter]
  calc (List.range (2 ^ L)).countP (fun i => decide (walk L i ≤ high))
      = ((List.range (2 ^ L)).map (walk L)).countP (fun x => decide (x ≤ high)) := by rw [List.countP_map]; rfl
    _ = (List.range (2 ^ L)).countP (fun x => decide (x ≤ high)) := (walk_perm hL).countP_eq _
    _ = high + 1 := countP_le_range h

/-! ### 6. the symbols written -/

/-- the symbols of the walk placements among the first `m` symbols -/
def valsUpto (norm : Array Int) (m : Nat) : List Nat := (List.range m).flatMap fun s => List.replicate norm[s]!.toNat s

theorem valsUpto_succ (norm : Array Int) (m : Nat) :
    valsUpto norm (m + 1) = valsUpto norm m ++ List.replicate norm[m]!.toNat m := by
  simp [valsUpto, List.range_succ, List.flatMap_append]

/-- cells of the distribution = low-probability symbols + walk placements -/
theorem startOf_split (norm : Array Int) (m : Nat) (hge : ∀ s, s < m → -1 ≤ norm[s]!) :
    startOf norm m = (lowsUpto norm m).length + (valsUpto norm m).length := by
  induction m with
  | zero => simp [startOf, lowsUpto, valsUpto]
  | succ m ih =>
    rw [startOf_succ, ih (fun s hs => hge s (by omega)), lowsUpto_succ, valsUpto_succ]
    have := hge m (by omega)
    unfold cnt
    by_cases h : norm[m]! = -1
    · simp [h]; omega
    · have hb : (norm[m]! == -1) = false := by simpa using h
      simp [hb]; omega

theorem count_lowsUpto (norm : Array Int) (m s : Nat) :
    (lowsUpto norm m).count s = if s < m ∧ norm[s]! = -1 then 1 else 0 := by
  have hn : (lowsUpto norm m).Nodup := List.filter_sublist.nodup List.nodup_range
  rw [hn.count]
  simp [lowsUpto, List.mem_filter]

theorem count_valsUpto (norm : Array Int) (m s : Nat) :
    (valsUpto norm m).count s = if s < m then norm[s]!.toNat else 0 := by
  induction m with
  | zero => simp [valsUpto]
  | succ m ih =>
    rw [valsUpto_succ, List.count_append, ih, List.count_replicate]
    by_cases e : m = s
    · subst e; simp
    · have : (m == s) = false := by simpa using e
      simp only [this, Bool.false_eq_true, if_false]
      by_cases h : s < m
      · simp [h]; omega
      · have : ¬ s < m + 1 := by omega
        simp [h, this]

/-- every symbol is written as often as its normalised count says -/
theorem count_written (norm : Array Int) (s : Nat) (hs : s < norm.size) :
    (lowsUpto norm norm.size ++ valsOf norm).count s = cnt norm s := by
  rw [List.count_append, count_lowsUpto, show valsOf norm = valsUpto norm norm.size from rfl, count_valsUpto]
  unfold cnt
  generalize norm[s]! = c
  by_cases h : c = -1
  · simp [h, hs]
  · have hb : (c == -1) = false := by simpa using h
    simp [h, hb, hs]

theorem mem_written_lt (norm : Array Int) (v : Nat) (h : v ∈ lowsUpto norm norm.size ++ valsOf norm) : v < norm.size := by
  rcases List.mem_append.1 h with h | h
  · exact List.mem_range.1 (List.mem_filter.1 h).1
  · obtain ⟨a, ha, hv⟩ := List.mem_flatMap.1 h
    rw [(List.mem_replicate.1 hv).2]
    exact List.mem_range.1 ha

/-! ### 7. the spreading of the decoder respects every normalised distribution -/

theorem lowPos_facts (N k : Nat) (hk : k ≤ N) :
    ((List.range k).map fun i => N - 1 - i).Nodup ∧ ∀ x ∈ (List.range k).map (fun i => N - 1 - i), x < N ∧ N ≤ x + k := by
  constructor
  · unfold List.Nodup
    rw [List.pairwise_map]
    refine List.Pairwise.imp_of_mem ?_ (List.nodup_range (n := k))
    intro a b ha hb hab e
    have := List.mem_range.1 ha
    have := List.mem_range.1 hb
    omega
  · intro x hx
    obtain ⟨i, hi, rfl⟩ := List.mem_map.1 hx
    have := List.mem_range.1 hi
    omega

/-- **the table of the decoder-side spreading as one list of writes**: the positions written are a rearrangement of all `2^L`
positions, the symbols written are the low-probability symbols followed by every other symbol as often as its count says -/
theorem spread_writes {norm : Array Int} {L : Nat} (hN : NormOK norm L) (hL : 4 ≤ L) :
    ∃ ws : List (Nat × Nat), spread norm L = setAll (Array.replicate (2 ^ L) 0) ws ∧
      (ws.map Prod.fst).Perm (List.range (2 ^ L)) ∧ ws.map Prod.snd = lowsUpto norm norm.size ++ valsOf norm := by
  have hsum : (lowsUpto norm norm.size).length + (valsOf norm).length = 2 ^ L := by
    rw [show valsOf norm = valsUpto norm norm.size from rfl, ← startOf_split norm norm.size hN.2.1]
    exact hN.2.2
  have hlow : lowPass norm L = (setAll (Array.replicate (2 ^ L) 0)
      (List.zip ((List.range (lowsUpto norm norm.size).length).map fun i => 2 ^ L - 1 - i) (lowsUpto norm norm.size)),
      2 ^ L - 1 - (lowsUpto norm norm.size).length) := by
    unfold lowPass
    rw [Nat.shiftLeft_eq, Nat.one_mul]
    exact lowFold_eq norm (2 ^ L) norm.size _
  rw [spread_eq_fold, hlow]
  simp only []
  generalize hlows : lowsUpto norm norm.size = lows at *
  generalize hvals : valsOf norm = vals at *
  have hpos := Nat.two_pow_pos L
  obtain ⟨lp1, lp2⟩ := lowPos_facts (2 ^ L) lows.length (by omega)
  by_cases hc : lows.length < 2 ^ L
  · have hfc := free_count (L := L) (high := 2 ^ L - 1 - lows.length) hL (by omega)
    have w0 : walk L 0 = 0 := by simp [walk]
    have hpf := placeFold_eq L (2 ^ L - 1 - lows.length) vals
      (setAll (Array.replicate (2 ^ L) 0) (List.zip ((List.range lows.length).map fun i => 2 ^ L - 1 - i) lows)) 0 hpos
      (by rw [w0]; omega) (by rw [Nat.sub_zero, ← List.range_eq_range', hfc]; omega)
    rw [w0, Nat.sub_zero, ← List.range_eq_range'] at hpf
    rw [hpf, ← setAll_append]
    refine ⟨_, rfl, ?_, ?_⟩
    · rw [List.map_append, List.map_fst_zip (by simp), List.map_fst_zip (by rw [List.length_map, hfc]; omega)]
      apply perm_range_of_nodup
      · rw [List.nodup_append]
        refine ⟨lp1, (List.filter_sublist.map _).nodup (walk_nodup hL), ?_⟩
        intro a ha b hb e
        obtain ⟨t, ht, rfl⟩ := List.mem_map.1 hb
        have h1 := (lp2 a ha).2
        have h2 : walk L t ≤ 2 ^ L - 1 - lows.length := by simpa using (List.mem_filter.1 ht).2
        omega
      · intro x hx
        rcases List.mem_append.1 hx with h | h
        · exact (lp2 x h).1
        · obtain ⟨t, _, rfl⟩ := List.mem_map.1 h
          exact walk_lt L t
      · rw [List.length_append, List.length_map, List.length_map, List.length_range, hfc]; omega
    · rw [List.map_append, List.map_snd_zip (by simp), List.map_snd_zip (by rw [List.length_map, hfc]; omega)]
  · have hv : vals = [] := List.eq_nil_of_length_eq_zero (by omega)
    subst hv
    refine ⟨_, rfl, ?_, ?_⟩
    · rw [List.map_fst_zip (by simp)]
      exact perm_range_of_nodup _ _ lp1 (fun x hx => (lp2 x hx).1) (by simp; omega)
    · rw [List.map_snd_zip (by simp)]; simp

/-- **fse_spread_complete, decoder side** (FSE_buildDTable_internal, fse_decompress.c / ZSTD_buildFSETable_body,
zstd_decompress_block.c): for EVERY normalised distribution the spreading fills the `2^L` positions with symbols of the alphabet, each
symbol as often as its normalised count says (once for "less than one", never for 0) -/
theorem spread_ok {norm : Array Int} {L : Nat} (hN : NormOK norm L) (hL : 4 ≤ L) : SpreadOK (spread norm L) norm L := by
  obtain ⟨ws, h1, h2, h3⟩ := spread_writes hN hL
  have hsz : (spread norm L).size = 2 ^ L := by rw [h1, setAll_size]; simp
  have hn : (ws.map Prod.fst).Nodup := h2.nodup_iff.2 List.nodup_range
  have hb : ∀ w ∈ ws, w.1 < (Array.replicate (2 ^ L) 0).size := fun w hw => by
    have : w.1 ∈ List.range (2 ^ L) := h2.subset (List.mem_map_of_mem hw)
    simpa using this
  refine ⟨hsz, fun u hu => ?_, fun s hs => ?_⟩
  · have : u ∈ ws.map Prod.fst := h2.symm.subset (List.mem_range.2 (by omega))
    obtain ⟨w, hw, rfl⟩ := List.mem_map.1 this
    rw [h1, setAll_get_of_mem _ ws hn hb w hw]
    exact mem_written_lt norm _ (by rw [← h3]; exact List.mem_map_of_mem hw)
  · rw [h1, setAll_count _ ws (2 ^ L) s (by simp) h2, h3]
    exact count_written norm s hs

/-! ### 8. the encoder's fast path lays down the same table -/

/-- writing one symbol at a list of positions -/
theorem foldl_set_const (s : Nat) (ps : List Nat) (a : Array Nat) :
    (ps.foldl (fun a p => a.set! p s) a).size = a.size ∧
      ∀ j, (j ∈ ps → j < a.size → (ps.foldl (fun a p => a.set! p s) a)[j]! = s) ∧
        (j ∉ ps → (ps.foldl (fun a p => a.set! p s) a)[j]! = a[j]!) := by
  have e : ps.foldl (fun a p => a.set! p s) a = setAll a (ps.map fun p => (p, s)) := by
    unfold setAll; rw [List.foldl_map]
  rw [e]
  refine ⟨setAll_size _ _, fun j => ⟨fun hm hj => ?_, fun hm => ?_⟩⟩
  · clear e
    induction ps generalizing a with
    | nil => cases hm
    | cons p t ih =>
      rw [List.map_cons, setAll_cons]
      by_cases ht : j ∈ t
      · exact ih _ ht (by simpa using hj)
      · have hp : j = p := by
          rcases List.mem_cons.1 hm with h | h
          · exact h
          · exact absurd h ht
        subst hp
        rw [setAll_get_of_not_mem _ _ _ (by simpa using ht)]
        exact getBang_set_eq _ _ _ hj
  · exact setAll_get_of_not_mem _ _ _ (by simpa using hm)

/-- the positions written for one symbol by the 8-byte writes of the first stage -/
def layPos (pos n : Nat) : List Nat :=
  (List.range 8).map (pos + ·) ++ (List.range' 8 ((n - 8 + 8 - 1) / 8) 8).flatMap fun i => (List.range 8).map (pos + i + ·)

theorem layStep_eq (norm : Array Int) (st : Array Nat × Nat) (s : Nat) :
    layStep norm st s = ((layPos st.2 norm[s]!.toNat).foldl (fun a p => a.set! p s) st.1, st.2 + norm[s]!.toNat) := by
  unfold layStep layPos
  rw [List.foldl_append, List.foldl_flatMap, List.foldl_map]
  simp only [List.foldl_map]

theorem mem_layPos (pos n j : Nat) : (pos ≤ j → j < pos + n → j ∈ layPos pos n) ∧ (j < pos → j ∉ layPos pos n) := by
  unfold layPos
  simp only [List.mem_append, List.mem_map, List.mem_range, List.mem_flatMap, List.mem_range']
  constructor
  · intro h1 h2
    by_cases h8 : j - pos < 8
    · exact Or.inl ⟨j - pos, h8, by omega⟩
    · exact Or.inr ⟨8 * ((j - pos) / 8), ⟨(j - pos) / 8 - 1, by omega, by omega⟩, (j - pos) % 8, by omega, by omega⟩
  · intro h
    rintro (⟨x, _, hx⟩ | ⟨i, _, x, _, hx⟩) <;> omega

/-- first stage of the fast path: after the first `m` symbols the cells below `pos` hold the placement symbols, in order -/
theorem layFold_inv (norm : Array Int) (N m : Nat) (hlen : (valsUpto norm m).length ≤ N) :
    ((List.range m).foldl (layStep norm) (Array.replicate (N + 8) 0, 0)).2 = (valsUpto norm m).length ∧
      ((List.range m).foldl (layStep norm) (Array.replicate (N + 8) 0, 0)).1.size = N + 8 ∧
      (List.range (valsUpto norm m).length).map (((List.range m).foldl (layStep norm) (Array.replicate (N + 8) 0, 0)).1[·]!) =
        valsUpto norm m := by
  induction m with
  | zero => simp [valsUpto]
  | succ m ih =>
    rw [valsUpto_succ, List.length_append, List.length_replicate] at hlen
    obtain ⟨i1, i2, i3⟩ := ih (by omega)
    rw [List.range_succ, List.foldl_append]
    simp only [List.foldl_cons, List.foldl_nil]
    generalize (List.range m).foldl (layStep norm) (Array.replicate (N + 8) 0, 0) = st at i1 i2 i3 ⊢
    rw [layStep_eq, valsUpto_succ, List.length_append, List.length_replicate]
    obtain ⟨f1, f2⟩ := foldl_set_const m (layPos st.2 norm[m]!.toNat) st.1
    rw [i1] at f1 f2 ⊢
    refine ⟨rfl, by simp only []; omega, ?_⟩
    simp only []
    rw [List.range_add, List.map_append, List.map_map]
    congr 1
    · refine Eq.trans (List.map_congr_left ?_) i3
      intro j hj
      have hj2 := List.mem_range.1 hj
      exact (f2 j).2 ((mem_layPos _ _ j).2 (by omega))
    · rw [List.eq_replicate_iff]
      refine ⟨by simp, fun b hb => ?_⟩
      obtain ⟨x, hx, rfl⟩ := List.mem_map.1 hb
      have hx2 := List.mem_range.1 hx
      simp only [Function.comp]
      exact (f2 _).1 ((mem_layPos _ _ _).1 (by omega) (by omega)) (by omega)

/-- second stage of the fast path: after `m` turns of the dealing loop -/
theorem dealFold_eq (L : Nat) (lay a : Array Nat) (m : Nat) :
    (List.range' 0 m 2).foldl (dealStep L lay) (a, 0) =
      (setAll a (List.zip ((List.range (2 * m)).map (walk L)) ((List.range (2 * m)).map (lay[·]!))), walk L (2 * m)) := by
  induction m with
  | zero => simp [setAll, walk]
  | succ m ih =>
    rw [List.range'_concat, List.foldl_append, ih]
    simp only [List.foldl_cons, List.foldl_nil]
    unfold dealStep
    have e0 : (walk L (2 * m) + 0 * tableStep (1 <<< L)) &&& (1 <<< L - 1) = walk L (2 * m) := by
      rw [Nat.zero_mul, Nat.add_zero, Nat.shiftLeft_eq, Nat.one_mul, Nat.and_two_pow_sub_one_eq_mod]
      exact Nat.mod_eq_of_lt (walk_lt L _)
    have e1 : (walk L (2 * m) + 1 * tableStep (1 <<< L)) &&& (1 <<< L - 1) = walk L (2 * m + 1) := by
      rw [Nat.one_mul, walk_succ]
    have e2 : (walk L (2 * m) + 2 * tableStep (1 <<< L)) &&& (1 <<< L - 1) = walk L (2 * (m + 1)) := by
      rw [Nat.two_mul (tableStep _), ← Nat.add_assoc, show 2 * (m + 1) = 2 * m + 1 + 1 by omega]
      have := walk_succ L (2 * m)
      have h2 := walk_succ L (2 * m + 1)
      rw [← this] at h2
      rw [← h2]
      simp only [Nat.shiftLeft_eq, Nat.one_mul, Nat.and_two_pow_sub_one_eq_mod, Nat.mod_add_mod]
    rw [show List.range 2 = [0, 1] from rfl]
    simp only [List.foldl_cons, List.foldl_nil]
    rw [e0, e1, e2]
    congr 1
    rw [show 2 * (m + 1) = 2 * m + 1 + 1 by omega, List.range_succ, List.range_succ]
    simp only [List.map_append, List.map_cons, List.map_nil, List.append_assoc]
    rw [List.zip_append (by simp), setAll_append]
    simp [setAll]

/-- **fse_spread_agree** (FSE_buildCTable_wksp, fse_compress.c vs FSE_buildDTable_internal, fse_decompress.c /
ZSTD_buildFSETable_body, zstd_decompress_block.c): for EVERY normalised distribution the encoder-side spreading - its fast path
(8-byte writes into `spread[]`, then two cells per turn) as well as its walk - produces the table of the decoder-side spreading -/
theorem spreadEnc_eq_spread {norm : Array Int} {L : Nat} (hN : NormOK norm L) : spreadEnc norm L = spread norm L := by
  rw [spreadEnc_eq_fold, spread_eq_fold]
  split
  · rename_i hh
    have hsum : (lowsUpto norm norm.size).length + (valsOf norm).length = 2 ^ L := by
      rw [show valsOf norm = valsUpto norm norm.size from rfl, ← startOf_split norm norm.size hN.2.1]
      exact hN.2.2
    have hlow : lowPass norm L = (setAll (Array.replicate (2 ^ L) 0)
        (List.zip ((List.range (lowsUpto norm norm.size).length).map fun i => 2 ^ L - 1 - i) (lowsUpto norm norm.size)),
        2 ^ L - 1 - (lowsUpto norm norm.size).length) := by
      unfold lowPass
      rw [Nat.shiftLeft_eq, Nat.one_mul]
      exact lowFold_eq norm (2 ^ L) norm.size _
    have hL := hN.1
    have h2 : 2 ^ L = 2 * 2 ^ (L - 1) := by rw [← Nat.pow_succ']; congr 1; omega
    have hp1 := Nat.two_pow_pos (L - 1)
    rw [hh]
    rw [hlow] at hh ⊢
    simp only [Nat.shiftLeft_eq, Nat.one_mul] at hh ⊢
    have hv : (valsOf norm).length = 2 ^ L := by omega
    generalize setAll (Array.replicate (2 ^ L) 0) _ = a
    have w0 : walk L 0 = 0 := by simp [walk]
    have hall : (List.range (2 ^ L)).filter (fun i => decide (walk L i ≤ 2 ^ L - 1)) = List.range (2 ^ L) :=
      List.filter_eq_self.2 (fun t _ => by have := walk_lt L t; simp; omega)
    have hpf := placeFold_eq L (2 ^ L - 1) (valsOf norm) a 0 (Nat.two_pow_pos L) (by rw [w0]; omega)
      (by rw [Nat.sub_zero, ← List.range_eq_range', hall, hv]; simp)
    rw [w0, Nat.sub_zero, ← List.range_eq_range', hall] at hpf
    rw [hpf, show (2 ^ L + 2 - 1) / 2 = 2 ^ (L - 1) by omega, dealFold_eq, ← h2]
    simp only []
    congr 2
    obtain ⟨i1, i2, i3⟩ := layFold_inv norm (2 ^ L) norm.size (by rw [show valsUpto norm norm.size = valsOf norm from rfl]; omega)
    rw [show valsUpto norm norm.size = valsOf norm from rfl, hv] at i3
    rw [← i3]
    unfold layOf
    rw [Nat.shiftLeft_eq, Nat.one_mul]
  · rfl

/-! ### non-vacuity -/

/-- a distribution with a "less than one" symbol (the walk skips the top cell) and one without (the encoder's fast path) -/
example : SpreadOK (spread #[16, 8, 4, 2, 1, -1] 5) #[16, 8, 4, 2, 1, -1] 5 := spread_ok (by decide) (by decide)
example : spreadEnc #[16, 8, 4, 2, 1, -1] 5 = spread #[16, 8, 4, 2, 1, -1] 5 := spreadEnc_eq_spread (by decide)
example : spreadEnc #[16, 8, 4, 3, 1] 5 = spread #[16, 8, 4, 3, 1] 5 := spreadEnc_eq_spread (by decide)
/-- `4 ≤ L` cannot be dropped: for 8 cells the step is 4 + 1 + 3 = 8, the walk never leaves position 0 -/
example : NormOK #[4, 4] 3 ∧ ¬ SpreadOK (spread #[4, 4] 3) #[4, 4] 3 := by decide +kernel

end ZstdVerif.FSE
