/-
Round trip of the LITERALS SECTION of a compressed block: what the writer model (Model/LitEnc.lean, tied byte for byte to
ZSTD_noCompressLiterals / ZSTD_compressRleLiteralsBlock / ZSTD_compressLiterals by tools/ent_lit.py) emits, the decoder model
`Block.decodeLiterals` (ZSTD_decodeLiteralsBlock) reads back: same literals, exactly the section consumed, same mode.
The section sits at `start` inside `src` and is followed by arbitrary further bytes (the sequences section).
-/
import ZstdVerif.Lemmas.HufBytes
import ZstdVerif.Model.LitEnc
import ZstdVerif.Model.Block
set_option linter.unusedSimpArgs false
namespace ZstdVerif.LitRT
open ZstdVerif.LitEnc ZstdVerif.Block ZstdVerif.HufBytes

/-! ### bytes of the headers -/

theorem le_size (v k : Nat) : (le v k).size = k := by
  unfold le; rw [BitW.size_pushLE]; simp

theorem le_u8 (v k i : Nat) (hi : i < k) : (le v k).u8 i = v / 2 ^ (8 * i) % 256 := by
  unfold le
  have := BitW.u8_pushLE_ge ByteArray.empty v k i (by simp) (by simpa using hi)
  simpa using this

theorem u8_append_left (a b : ByteArray) (i : Nat) (h : i < a.size) : (a ++ b).u8 i = a.u8 i := by
  rw [ByteArray.u8_of_lt _ _ (by rw [ByteArray.size_append]; omega), ByteArray.u8_of_lt _ _ h, ByteArray.getElem_append_left h]

theorem u8_append_right (a b : ByteArray) (i : Nat) : (a ++ b).u8 (a.size + i) = b.u8 i := by
  by_cases h : i < b.size
  · rw [ByteArray.u8_of_lt _ _ (by rw [ByteArray.size_append]; omega), ByteArray.u8_of_lt _ _ h,
      ByteArray.getElem_append_right (by omega)]
    simp
  · rw [ByteArray.u8_of_ge _ _ (by rw [ByteArray.size_append]; omega), ByteArray.u8_of_ge _ _ (by omega)]

/-- the bytes of a little-endian header in front of an embedded section -/
theorem hdr_u8 {src : ByteArray} {s : Nat} (v k : Nat) (rest : ByteArray)
    (h : src.extract s (s + (le v k ++ rest).size) = le v k ++ rest) (i : Nat) (hi : i < k) :
    src.u8 (s + i) = v / 2 ^ (8 * i) % 256 := by
  rw [u8_embedded h i (by rw [ByteArray.size_append, le_size]; omega), u8_append_left _ _ _ (by rw [le_size]; exact hi),
    le_u8 _ _ _ hi]

theorem hdr_u8_zero {src : ByteArray} {s : Nat} (v k : Nat) (rest : ByteArray)
    (h : src.extract s (s + (le v k ++ rest).size) = le v k ++ rest) (hk : 0 < k) : src.u8 s = v % 256 := by
  have := hdr_u8 v k rest h 0 hk
  simpa using this

/-- what follows the header of an embedded section -/
theorem body_embedded {src : ByteArray} {s : Nat} (hdr body : ByteArray)
    (h : src.extract s (s + (hdr ++ body).size) = hdr ++ body) :
    src.extract (s + hdr.size) (s + hdr.size + body.size) = body :=
  embedded_part hdr body ByteArray.empty (by rw [ByteArray.append_empty]; exact h)

theorem and3 (x : Nat) : x &&& 3 = x % 4 := Nat.and_two_pow_sub_one_eq_mod x 2

/-! ### raw literals -/

/-- RAW LITERALS.  The section written by ZSTD_noCompressLiterals for `lits` (any size below 2^20, the width of the size field),
sitting at `start` in `src` and followed by anything, is decoded by ZSTD_decodeLiteralsBlock to `lits`, consuming exactly the
section.  Hypotheses: the block is at least MIN_CBLOCK_SIZE bytes and contains the section; the regenerated size respects the
frame's block size limit and the output room (the writer's callers guarantee both). -/
theorem literals_roundtrip_raw (lits : ByteArray) (src : Bytes) (start srcSize : Nat) (ent : Entropy) (bsm dstCap : Nat)
    (hsec : src.extract start (start + (rawLiterals lits).size) = rawLiterals lits)
    (h20 : lits.size < 2 ^ 20) (hbsm : lits.size ≤ bsm) (hcap : lits.size ≤ dstCap)
    (hsz : (rawLiterals lits).size ≤ srcSize) (hmin : Gen.MIN_CBLOCK_SIZE ≤ srcSize) :
    decodeLiterals src start srcSize ent bsm dstCap
      = .ok { lits := lits, used := (rawLiterals lits).size, ent := ent, mode := .raw, streams := 1 } := by
  have c1 : ¬ srcSize < 2 := by have : 2 ≤ srcSize := hmin; omega
  have c2 : ¬ lits.size > bsm := by omega
  have c3 : ¬ min bsm dstCap < lits.size := by omega
  unfold rawLiterals basicHeader set_basic at hsec hsz
  simp only [Nat.shiftLeft_eq, Nat.reducePow, Nat.zero_add, Nat.reduceMul] at hsec hsz
  unfold decodeLiterals
  split at hsec
  · -- 1-byte header
    next h31 =>
    have hU : (rawLiterals lits).size = 1 + lits.size := by
      unfold rawLiterals basicHeader; rw [if_pos h31, ByteArray.size_append, le_size]
    rw [if_pos h31] at hsz
    have hb0 := hdr_u8_zero _ 1 lits hsec (by decide)
    have hbody := body_embedded _ lits hsec
    rw [ByteArray.size_append, le_size] at hsz
    rw [le_size] at hbody
    have hty : src.u8 start &&& 3 = 0 := by rw [and3, hb0]; omega
    have hsize : src.u8 start >>> 3 = lits.size := by rw [Nat.shiftRight_eq_div_pow, hb0]; omega
    have hlhl : (src.u8 start >>> 2) &&& 3 = 0 ∨ (src.u8 start >>> 2) &&& 3 = 2 := by
      rw [and3, Nat.shiftRight_eq_div_pow, hb0]; omega
    have c4 : ¬ lits.size + 1 > srcSize := by omega
    rcases hlhl with hlhl | hlhl <;>
    · simp only [bind, Except.bind, pure, Except.pure, throw, throwThe, MonadExceptOf.throw, hty, hlhl, Nat.reduceBEq,
        Bool.or_self, Bool.false_eq_true, ↓reduceIte, Bool.or_false, Bool.or_true, hsize, Gen.MIN_CBLOCK_SIZE, c1, c2, c3, c4,
        hbody, hU]
  · split at hsec
    · -- 2-byte header
      next h31 h4095 =>
      have hU : (rawLiterals lits).size = 2 + lits.size := by
        unfold rawLiterals basicHeader; rw [if_neg h31, if_pos h4095, ByteArray.size_append, le_size]
      rw [if_neg h31, if_pos h4095] at hsz
      have hb0 := hdr_u8_zero _ 2 lits hsec (by decide)
      have hb1 := hdr_u8 _ 2 lits hsec 1 (by decide)
      have hbody := body_embedded _ lits hsec
      rw [ByteArray.size_append, le_size] at hsz
      rw [le_size] at hbody
      have hty : src.u8 start &&& 3 = 0 := by rw [and3, hb0]; omega
      have hlhl : (src.u8 start >>> 2) &&& 3 = 1 := by rw [and3, Nat.shiftRight_eq_div_pow, hb0]; omega
      have hsize : src.le16 start >>> 4 = lits.size := by
        unfold ByteArray.le16
        rw [Nat.shiftRight_eq_div_pow, Nat.shiftLeft_eq, hb0, hb1]; omega
      have c4 : ¬ lits.size + 2 > srcSize := by omega
      simp only [bind, Except.bind, pure, Except.pure, throw, throwThe, MonadExceptOf.throw, hty, hlhl, Nat.reduceBEq,
        Bool.or_self, Bool.false_eq_true, ↓reduceIte, Bool.false_and, hsize, Gen.MIN_CBLOCK_SIZE, c1, c2, c3, c4, hbody, hU]
    · -- 3-byte header
      next h31 h4095 =>
      have hU : (rawLiterals lits).size = 3 + lits.size := by
        unfold rawLiterals basicHeader; rw [if_neg h31, if_neg h4095, ByteArray.size_append, le_size]
      rw [if_neg h31, if_neg h4095] at hsz
      have hb0 := hdr_u8_zero _ 3 lits hsec (by decide)
      have hb1 := hdr_u8 _ 3 lits hsec 1 (by decide)
      have hb2 := hdr_u8 _ 3 lits hsec 2 (by decide)
      have hbody := body_embedded _ lits hsec
      rw [ByteArray.size_append, le_size] at hsz
      rw [le_size] at hbody
      have hty : src.u8 start &&& 3 = 0 := by rw [and3, hb0]; omega
      have hlhl : (src.u8 start >>> 2) &&& 3 = 3 := by rw [and3, Nat.shiftRight_eq_div_pow, hb0]; omega
      have hsize : src.le24 start >>> 4 = lits.size := by
        unfold ByteArray.le24
        rw [Nat.shiftRight_eq_div_pow, Nat.shiftLeft_eq, Nat.shiftLeft_eq, hb0, hb1, hb2]; omega
      have c4 : ¬ lits.size + 3 > srcSize := by omega
      have c5 : ¬ srcSize < 3 := by omega
      simp only [bind, Except.bind, pure, Except.pure, throw, throwThe, MonadExceptOf.throw, hty, hlhl, Nat.reduceBEq,
        Bool.or_self, Bool.false_eq_true, ↓reduceIte, hsize, Gen.MIN_CBLOCK_SIZE, c1, c2, c3, c4, c5, hbody, hU]

/-! ### RLE literals -/

/-- `n` copies of one byte -/
def rleBytes (n : Nat) (b : UInt8) : ByteArray := ByteArray.mk (Array.replicate n b)

theorem rleBytes_size (n : Nat) (b : UInt8) : (rleBytes n b).size = n := by
  simp [rleBytes, ByteArray.size]

theorem rleBytes_first (n : Nat) (b : UInt8) : rleBytes n (rleBytes n b)[0]! = rleBytes n b := by
  cases n with
  | zero => rfl
  | succ n =>
    have h : 0 < (rleBytes (n + 1) b).size := by rw [rleBytes_size]; omega
    rw [getElem!_pos _ 0 h]
    simp [rleBytes, ByteArray.getElem_eq_getElem_data]

theorem u8_singleton (x : UInt8) : ([x].toByteArray).u8 0 = x.toNat := by
  rw [ByteArray.u8_of_lt _ _ (by simp [List.size_toByteArray])]
  simp [List.getElem_toByteArray]

/-- a byte of what follows the header of an embedded section -/
theorem body_u8 {src : ByteArray} {s : Nat} (hdr body : ByteArray)
    (h : src.extract s (s + (hdr ++ body).size) = hdr ++ body) (i : Nat) (hi : i < body.size) :
    src.u8 (s + hdr.size + i) = body.u8 i := by
  rw [Nat.add_assoc, u8_embedded h (hdr.size + i) (by rw [ByteArray.size_append]; omega), u8_append_right]

/-- RLE LITERALS.  The section written by ZSTD_compressRleLiteralsBlock for `n < 2^20` copies of the byte `b`, sitting at `start`
in `src` and followed by anything, is decoded by ZSTD_decodeLiteralsBlock to those `n` bytes, consuming exactly the section. -/
theorem literals_roundtrip_rle (n : Nat) (b : UInt8) (src : Bytes) (start srcSize : Nat) (ent : Entropy) (bsm dstCap : Nat)
    (hsec : src.extract start (start + (rleLiterals (rleBytes n b)).size) = rleLiterals (rleBytes n b))
    (h20 : n < 2 ^ 20) (hbsm : n ≤ bsm) (hcap : n ≤ dstCap)
    (hsz : (rleLiterals (rleBytes n b)).size ≤ srcSize) (hmin : Gen.MIN_CBLOCK_SIZE ≤ srcSize) :
    decodeLiterals src start srcSize ent bsm dstCap
      = .ok { lits := rleBytes n b, used := (rleLiterals (rleBytes n b)).size, ent := ent, mode := .rle, streams := 1 } := by
  have c1 : ¬ srcSize < 2 := by have : 2 ≤ srcSize := hmin; omega
  have c2 : ¬ n > bsm := by omega
  have c3 : ¬ min bsm dstCap < n := by omega
  have hmk : ∀ x : UInt8, ByteArray.mk (Array.replicate n x) = rleBytes n x := fun _ => rfl
  unfold rleLiterals basicHeader set_rle at hsec hsz
  rw [← ByteArray.append_toByteArray_singleton] at hsec hsz
  simp only [Nat.shiftLeft_eq, Nat.reducePow, Nat.reduceMul, rleBytes_size] at hsec hsz
  unfold decodeLiterals
  split at hsec
  · -- 1-byte header
    next h31 =>
    have hU : (rleLiterals (rleBytes n b)).size = 1 + 1 := by
      unfold rleLiterals basicHeader; rw [rleBytes_size, if_pos h31, ByteArray.size_push, le_size]
    rw [if_pos h31] at hsz
    have hb0 := hdr_u8_zero _ 1 _ hsec (by decide)
    have hbyte := body_u8 _ _ hsec 0 (by simp [List.size_toByteArray])
    rw [le_size, Nat.add_zero, u8_singleton] at hbyte
    rw [ByteArray.size_append, le_size] at hsz
    have hty : src.u8 start &&& 3 = 1 := by rw [and3, hb0]; omega
    have hsize : src.u8 start >>> 3 = n := by rw [Nat.shiftRight_eq_div_pow, hb0]; omega
    have hlhl : (src.u8 start >>> 2) &&& 3 = 0 ∨ (src.u8 start >>> 2) &&& 3 = 2 := by
      rw [and3, Nat.shiftRight_eq_div_pow, hb0]; omega
    rcases hlhl with hlhl | hlhl <;>
    · simp only [bind, Except.bind, pure, Except.pure, throw, throwThe, MonadExceptOf.throw, hty, hlhl, Nat.reduceBEq,
        Bool.or_self, Bool.false_eq_true, ↓reduceIte, Bool.or_false, Bool.or_true, hsize, Gen.MIN_CBLOCK_SIZE, c1, c2, c3,
        hbyte, hU, UInt8.ofNat_toNat, hmk, rleBytes_first]
  · split at hsec
    · -- 2-byte header
      next h31 h4095 =>
      have hU : (rleLiterals (rleBytes n b)).size = 2 + 1 := by
        unfold rleLiterals basicHeader; rw [rleBytes_size, if_neg h31, if_pos h4095, ByteArray.size_push, le_size]
      rw [if_neg h31, if_pos h4095] at hsz
      have hb0 := hdr_u8_zero _ 2 _ hsec (by decide)
      have hb1 := hdr_u8 _ 2 _ hsec 1 (by decide)
      have hbyte := body_u8 _ _ hsec 0 (by simp [List.size_toByteArray])
      rw [le_size, Nat.add_zero, u8_singleton] at hbyte
      rw [ByteArray.size_append, le_size] at hsz
      have hty : src.u8 start &&& 3 = 1 := by rw [and3, hb0]; omega
      have hlhl : (src.u8 start >>> 2) &&& 3 = 1 := by rw [and3, Nat.shiftRight_eq_div_pow, hb0]; omega
      have hsize : src.le16 start >>> 4 = n := by
        unfold ByteArray.le16
        rw [Nat.shiftRight_eq_div_pow, Nat.shiftLeft_eq, hb0, hb1]; omega
      have c5 : ¬ srcSize < 3 := by simp [List.size_toByteArray] at hsz; omega
      simp only [bind, Except.bind, pure, Except.pure, throw, throwThe, MonadExceptOf.throw, hty, hlhl, Nat.reduceBEq,
        Bool.or_self, Bool.false_eq_true, ↓reduceIte, Bool.true_and, decide_eq_true_eq, hsize, Gen.MIN_CBLOCK_SIZE, c1, c2, c3,
        c5, hbyte, hU, UInt8.ofNat_toNat, hmk, rleBytes_first]
    · -- 3-byte header
      next h31 h4095 =>
      have hU : (rleLiterals (rleBytes n b)).size = 3 + 1 := by
        unfold rleLiterals basicHeader; rw [rleBytes_size, if_neg h31, if_neg h4095, ByteArray.size_push, le_size]
      rw [if_neg h31, if_neg h4095] at hsz
      have hb0 := hdr_u8_zero _ 3 _ hsec (by decide)
      have hb1 := hdr_u8 _ 3 _ hsec 1 (by decide)
      have hb2 := hdr_u8 _ 3 _ hsec 2 (by decide)
      have hbyte := body_u8 _ _ hsec 0 (by simp [List.size_toByteArray])
      rw [le_size, Nat.add_zero, u8_singleton] at hbyte
      rw [ByteArray.size_append, le_size] at hsz
      have hty : src.u8 start &&& 3 = 1 := by rw [and3, hb0]; omega
      have hlhl : (src.u8 start >>> 2) &&& 3 = 3 := by rw [and3, Nat.shiftRight_eq_div_pow, hb0]; omega
      have hsize : src.le24 start >>> 4 = n := by
        unfold ByteArray.le24
        rw [Nat.shiftRight_eq_div_pow, Nat.shiftLeft_eq, Nat.shiftLeft_eq, hb0, hb1, hb2]; omega
      have c5 : ¬ srcSize < 4 := by simp [List.size_toByteArray] at hsz; omega
      simp only [bind, Except.bind, pure, Except.pure, throw, throwThe, MonadExceptOf.throw, hty, hlhl, Nat.reduceBEq,
        Bool.or_self, Bool.false_eq_true, ↓reduceIte, hsize, Gen.MIN_CBLOCK_SIZE, c1, c2, c3, c5, hbyte, hU,
        UInt8.ofNat_toNat, hmk, rleBytes_first]

/-! ### Huffman-compressed literals -/

theorem and1023 (x : Nat) : x &&& 1023 = x % 1024 := Nat.and_two_pow_sub_one_eq_mod x 10
theorem and16383 (x : Nat) : x &&& 16383 = x % 16384 := Nat.and_two_pow_sub_one_eq_mod x 14
theorem and262143 (x : Nat) : x &&& 262143 = x % 262144 := Nat.and_two_pow_sub_one_eq_mod x 18

/-- the decoded streams: what `hufStreams` wrote is read back by `Huf.decode1` / `Huf.decode4` -/
theorem streams_decode {weights : Array Nat} {log : Nat} (ok : HufRT.WeightsOK weights log) (hlog : log ≤ 56) (used : Nat)
    (single : Bool) (syms : List Nat) (hsyms : ∀ s ∈ syms, ∃ hs : s < weights.size, 0 < weights[s]) (streams : ByteArray)
    (hstreams : hufStreams single (HufEnc.codesOf weights log) syms = some streams) (src : Bytes) (pos : Nat)
    (hsrc : src.extract pos (pos + streams.size) = streams) :
    (if single = true then Huf.decode1 (Huf.buildTable ⟨weights, log, used⟩) src pos streams.size syms.length ByteArray.empty
      else Huf.decode4 (Huf.buildTable ⟨weights, log, used⟩) src pos streams.size syms.length ByteArray.empty)
      = .ok (litBytes syms) := by
  unfold hufStreams at hstreams
  cases single with
  | true =>
    simp only [if_true] at hstreams ⊢
    injection hstreams with hstreams
    subst hstreams
    rw [huf_decode1_bytes_at ok hlog used syms hsyms src pos hsrc, ByteArray.empty_append]
  | false =>
    simp only [Bool.false_eq_true, if_false] at hstreams ⊢
    rw [huf_decode4_bytes_at ok hlog used syms hsyms streams hstreams src pos hsrc, ByteArray.empty_append]

/-- COMPRESSED LITERALS, relative to the tree description.  `src` holds at `start` the section that ZSTD_compressLiterals builds
(`compressedLiterals`: 3/4/5-byte header, tree description `wh`, stream(s) `streams` = `hufStreams` of the literals `syms` under
the codes of `weights`), followed by anything.  IF HUF_readStats reads the tree description back as `weights` / `log`, consuming
exactly `wh` (hypothesis `hstats`; discharged for the direct 4-bit form by `readStats_direct` below), THEN ZSTD_decodeLiteralsBlock
returns exactly the literals, consumes exactly the section, reports mode `compressed`, and installs the table.
Size hypotheses are the ones the C writer enforces: the compressed size is smaller than the regenerated size (ZSTD_minGain test),
at most 128 KB of literals (HUF_BLOCKSIZE_MAX), a single stream only below 1 KB (3-byte header). -/
theorem literals_roundtrip_compressed_of_stats (single : Bool) (wh streams : ByteArray) (syms : List Nat) (weights : Array Nat)
    (log : Nat) (src : Bytes) (start srcSize : Nat) (ent : Entropy) (bsm dstCap : Nat)
    (hsec : src.extract start (start + (compressedLiterals single wh streams syms.length).size)
      = compressedLiterals single wh streams syms.length)
    (hstats : Huf.readStats src (start + lhSize syms.length) (wh.size + streams.size) = .ok ⟨weights, log, wh.size⟩)
    (hlog : log ≤ 56) (hsyms : ∀ s ∈ syms, ∃ hs : s < weights.size, 0 < weights[s])
    (hstreams : hufStreams single (HufEnc.codesOf weights log) syms = some streams)
    (hsingle : single = true → syms.length < 1024)
    (hc : wh.size + streams.size < syms.length) (hn : syms.length ≤ 2 ^ 17)
    (hbsm : syms.length ≤ bsm) (hcap : syms.length ≤ dstCap)
    (hsz : (compressedLiterals single wh streams syms.length).size ≤ srcSize) (h5 : 5 ≤ srcSize) :
    decodeLiterals src start srcSize ent bsm dstCap
      = .ok { lits := litBytes syms, used := (compressedLiterals single wh streams syms.length).size,
              ent := { ent with huf := some (Huf.buildTable ⟨weights, log, wh.size⟩) }, mode := .compressed,
              streams := if single then 1 else 4 } := by
  have ok := HufRT.readStats_weightsOK _ _ _ _ _ hstats
  simp only [] at ok
  have c1 : ¬ srcSize < 2 := by omega
  have c2 : ¬ srcSize < 5 := by omega
  have c3 : ¬ syms.length > bsm := by omega
  have c4 : ¬ min bsm dstCap < syms.length := by omega
  have c5 : ¬ wh.size > wh.size + streams.size := by omega
  have h6 : single = false → 6 ≤ syms.length := by
    intro hs; subst hs
    have := HufRT.compress4_accepts hstreams; omega
  generalize hUg : (compressedLiterals single wh streams syms.length).size = U at hsz ⊢
  unfold compressedLiterals compressedHeader lhSize set_compressed at *
  simp only [Nat.shiftLeft_eq, Nat.reducePow, Nat.reduceMul] at hsec hUg hstats
  unfold decodeLiterals
  by_cases hA : syms.length < 1024
  · -- 3-byte header
    rw [if_pos hA] at hsec hUg
    rw [if_neg (by omega), if_neg (by omega)] at hstats
    rw [ByteArray.append_assoc] at hsec
    have hb0 := hdr_u8_zero _ 3 _ hsec (by decide)
    have hb1 := hdr_u8 _ 3 _ hsec 1 (by decide)
    have hb2 := hdr_u8 _ 3 _ hsec 2 (by decide)
    have hb3 := ByteArray.u8_lt src (start + 3)
    have hstr : src.extract (start + 3 + wh.size) (start + 3 + wh.size + streams.size) = streams := by
      have := body_embedded (_ ++ wh) streams (by rw [ByteArray.append_assoc]; exact hsec)
      rwa [ByteArray.size_append, le_size, ← Nat.add_assoc] at this
    simp only [ByteArray.size_append, le_size] at hUg
    have hU : wh.size + streams.size + 3 = U := by omega
    have c6 : ¬ U > srcSize := by omega
    simp only [Nat.add_zero] at hstats
    have hty : src.u8 start &&& 3 = 2 := by rw [and3, hb0]; split <;> omega
    have hdec := streams_decode ok hlog wh.size single syms hsyms streams hstreams src _ hstr
    cases single with
    | true =>
      simp only [if_true, Nat.zero_mul, Nat.add_zero] at hb0 hb1 hb2 hdec
      have c7 : ¬ syms.length < 6 ∨ True := Or.inr trivial
      have hlhl : (src.u8 start >>> 2) &&& 3 = 0 := by rw [and3, Nat.shiftRight_eq_div_pow, hb0]; omega
      have hls : (src.le32 start >>> 4) &&& 1023 = syms.length := by
        unfold ByteArray.le32
        rw [and1023, Nat.shiftRight_eq_div_pow, Nat.shiftLeft_eq, Nat.shiftLeft_eq, Nat.shiftLeft_eq, hb0, hb1, hb2]; omega
      have hcs : (src.le32 start >>> 14) &&& 1023 = wh.size + streams.size := by
        unfold ByteArray.le32
        rw [and1023, Nat.shiftRight_eq_div_pow, Nat.shiftLeft_eq, Nat.shiftLeft_eq, Nat.shiftLeft_eq, hb0, hb1, hb2]; omega
      simp only [bind, Except.bind, pure, Except.pure, throw, throwThe, MonadExceptOf.throw, hty, hlhl, Nat.reduceBEq,
        Bool.or_self, Bool.false_eq_true, ↓reduceIte, Bool.or_false, Bool.or_true, Bool.true_or, Bool.false_and, Bool.true_and,
        Bool.not_true, Bool.not_false, decide_eq_true_eq, hls, hcs, Gen.MIN_CBLOCK_SIZE, Gen.MIN_LITERALS_FOR_4_STREAMS, c1, c2,
        c3, c4, c6, c7, BEq.rfl, Nat.reduceAdd, hstats, c5, Nat.add_sub_cancel_left, hdec, hU]
    | false =>
      simp only [Bool.false_eq_true, if_false, Nat.one_mul] at hb0 hb1 hb2 hdec
      have c7 : ¬ syms.length < 6 := by have := h6 rfl; omega
      have hlhl : (src.u8 start >>> 2) &&& 3 = 1 := by rw [and3, Nat.shiftRight_eq_div_pow, hb0]; omega
      have hls : (src.le32 start >>> 4) &&& 1023 = syms.length := by
        unfold ByteArray.le32
        rw [and1023, Nat.shiftRight_eq_div_pow, Nat.shiftLeft_eq, Nat.shiftLeft_eq, Nat.shiftLeft_eq, hb0, hb1, hb2]; omega
      have hcs : (src.le32 start >>> 14) &&& 1023 = wh.size + streams.size := by
        unfold ByteArray.le32
        rw [and1023, Nat.shiftRight_eq_div_pow, Nat.shiftLeft_eq, Nat.shiftLeft_eq, Nat.shiftLeft_eq, hb0, hb1, hb2]; omega
      simp only [bind, Except.bind, pure, Except.pure, throw, throwThe, MonadExceptOf.throw, hty, hlhl, Nat.reduceBEq,
        Bool.or_self, Bool.false_eq_true, ↓reduceIte, Bool.or_false, Bool.or_true, Bool.true_or, Bool.false_and, Bool.true_and,
        Bool.not_true, Bool.not_false, decide_eq_true_eq, hls, hcs, Gen.MIN_CBLOCK_SIZE, Gen.MIN_LITERALS_FOR_4_STREAMS, c1, c2,
        c3, c4, c6, c7, BEq.rfl, Nat.reduceAdd, hstats, c5, Nat.add_sub_cancel_left, hdec, hU]
  · have hsf : single = false := by
      cases single with
      | false => rfl
      | true => exact absurd (hsingle rfl) hA
    subst hsf
    have c7 : ¬ syms.length < 6 := by omega
    rw [if_neg hA] at hsec hUg
    by_cases hB : syms.length < 16384
    · -- 4-byte header
      rw [if_pos hB] at hsec hUg
      rw [if_pos (by omega), if_neg (by omega)] at hstats
      rw [ByteArray.append_assoc] at hsec
      have hb0 := hdr_u8_zero _ 4 _ hsec (by decide)
      have hb1 := hdr_u8 _ 4 _ hsec 1 (by decide)
      have hb2 := hdr_u8 _ 4 _ hsec 2 (by decide)
      have hb3 := hdr_u8 _ 4 _ hsec 3 (by decide)
      have hstr : src.extract (start + 4 + wh.size) (start + 4 + wh.size + streams.size) = streams := by
        have := body_embedded (_ ++ wh) streams (by rw [ByteArray.append_assoc]; exact hsec)
        rwa [ByteArray.size_append, le_size, ← Nat.add_assoc] at this
      simp only [ByteArray.size_append, le_size] at hUg
      have hU : wh.size + streams.size + 4 = U := by omega
      have c6 : ¬ U > srcSize := by omega
      simp only [Nat.add_zero, Nat.reduceAdd] at hstats
      have hty : src.u8 start &&& 3 = 2 := by rw [and3, hb0]; omega
      have hdec := streams_decode ok hlog wh.size false syms hsyms streams hstreams src _ hstr
      simp only [Bool.false_eq_true, if_false] at hdec
      have hlhl : (src.u8 start >>> 2) &&& 3 = 2 := by rw [and3, Nat.shiftRight_eq_div_pow, hb0]; omega
      have hls : (src.le32 start >>> 4) &&& 16383 = syms.length := by
        unfold ByteArray.le32
        rw [and16383, Nat.shiftRight_eq_div_pow, Nat.shiftLeft_eq, Nat.shiftLeft_eq, Nat.shiftLeft_eq, hb0, hb1, hb2, hb3]; omega
      have hcs : src.le32 start >>> 18 = wh.size + streams.size := by
        unfold ByteArray.le32
        rw [Nat.shiftRight_eq_div_pow, Nat.shiftLeft_eq, Nat.shiftLeft_eq, Nat.shiftLeft_eq, hb0, hb1, hb2, hb3]; omega
      simp only [bind, Except.bind, pure, Except.pure, throw, throwThe, MonadExceptOf.throw, hty, hlhl, Nat.reduceBEq,
        Bool.or_self, Bool.false_eq_true, ↓reduceIte, Bool.or_false, Bool.or_true, Bool.true_or, Bool.false_and, Bool.true_and,
        Bool.not_true, Bool.not_false, decide_eq_true_eq, hls, hcs, Gen.MIN_CBLOCK_SIZE, Gen.MIN_LITERALS_FOR_4_STREAMS, c1, c2,
        c3, c4, c6, c7, BEq.rfl, Nat.reduceAdd, hstats, c5, Nat.add_sub_cancel_left, hdec, hU]
    · -- 5-byte header
      rw [if_neg hB] at hsec hUg
      rw [if_pos (by omega), if_pos (by omega)] at hstats
      rw [ByteArray.append_assoc, ByteArray.append_assoc] at hsec
      have hb0 := hdr_u8_zero _ 4 _ hsec (by decide)
      have hb1 := hdr_u8 _ 4 _ hsec 1 (by decide)
      have hb2 := hdr_u8 _ 4 _ hsec 2 (by decide)
      have hb3 := hdr_u8 _ 4 _ hsec 3 (by decide)
      have hb4 := body_u8 _ _ hsec 0 (by rw [ByteArray.size_append, le_size]; omega)
      rw [le_size, Nat.add_zero, u8_append_left _ _ _ (by rw [le_size]; decide), le_u8 _ _ _ (by decide)] at hb4
      have hstr : src.extract (start + 5 + wh.size) (start + 5 + wh.size + streams.size) = streams := by
        have := body_embedded (_ ++ _ ++ wh) streams (by rw [ByteArray.append_assoc, ByteArray.append_assoc]; exact hsec)
        rwa [ByteArray.size_append, ByteArray.size_append, le_size, le_size, ← Nat.add_assoc] at this
      simp only [ByteArray.size_append, le_size] at hUg
      have hU : wh.size + streams.size + 5 = U := by omega
      have c6 : ¬ U > srcSize := by omega
      simp only [Nat.add_zero, Nat.reduceAdd] at hstats
      have hty : src.u8 start &&& 3 = 2 := by rw [and3, hb0]; omega
      have hdec := streams_decode ok hlog wh.size false syms hsyms streams hstreams src _ hstr
      simp only [Bool.false_eq_true, if_false] at hdec
      have hlhl : (src.u8 start >>> 2) &&& 3 = 3 := by rw [and3, Nat.shiftRight_eq_div_pow, hb0]; omega
      have hls : (src.le32 start >>> 4) &&& 262143 = syms.length := by
        unfold ByteArray.le32
        rw [and262143, Nat.shiftRight_eq_div_pow, Nat.shiftLeft_eq, Nat.shiftLeft_eq, Nat.shiftLeft_eq, hb0, hb1, hb2, hb3]; omega
      have hcs : src.le32 start >>> 22 + src.u8 (start + 4) <<< 10 = wh.size + streams.size := by
        unfold ByteArray.le32
        rw [Nat.shiftRight_eq_div_pow] at hb4
        rw [Nat.shiftRight_eq_div_pow, Nat.shiftLeft_eq, Nat.shiftLeft_eq, Nat.shiftLeft_eq,
          Nat.shiftLeft_eq, hb0, hb1, hb2, hb3, hb4]; omega
      simp only [bind, Except.bind, pure, Except.pure, throw, throwThe, MonadExceptOf.throw, hty, hlhl, Nat.reduceBEq,
        Bool.or_self, Bool.false_eq_true, ↓reduceIte, Bool.or_false, Bool.or_true, Bool.true_or, Bool.false_and, Bool.true_and,
        Bool.not_true, Bool.not_false, decide_eq_true_eq, hls, hcs, Gen.MIN_CBLOCK_SIZE, Gen.MIN_LITERALS_FOR_4_STREAMS, c1, c2,
        c3, c4, c6, c7, BEq.rfl, Nat.reduceAdd, hstats, c5, Nat.add_sub_cancel_left, hdec, hU]

/-! ### the direct (4-bit) tree description is read back by `Huf.readStats` -/

open ZstdVerif.HufRT ZstdVerif.HufEnc in
/-- the weight-summing loop of HUF_readStats_body, forward: no weight above `hmax` ⇒ the loop ends with the Kraft sum and the
number of weights equal to 1 -/
theorem weights_loop_fwd (hmax : Nat) (e : Err) (l : List Nat) (hl : ∀ w ∈ l, w ≤ hmax) (t r : Nat) :
    forIn l (t, r) (fun w (s : Nat × Nat) =>
      if w > hmax then (Except.error e : R (ForInStep (Nat × Nat)))
      else if (w == 1) = true then Except.ok (ForInStep.yield (s.fst + 1 <<< w >>> 1, s.snd + 1))
      else Except.ok (ForInStep.yield (s.fst + 1 <<< w >>> 1, s.snd)))
      = Except.ok (t + kraftSum l, r + l.count 1) := by
  induction l generalizing t r with
  | nil => simp only [List.forIn_nil, kraftSum, List.count_nil, Nat.add_zero]; rfl
  | cons w l ih =>
    have hw : ¬ w > hmax := by have := hl w List.mem_cons_self; omega
    rw [List.forIn_cons, if_neg hw]
    by_cases h1 : w = 1
    · subst h1
      simp only [BEq.rfl, if_true, bind, Except.bind]
      rw [ih (fun x hx => hl x (List.mem_cons_of_mem _ hx))]
      simp only [kraftSum, List.count_cons_self]
      congr 2 <;> omega
    · have hb : (w == 1) = false := by simpa using h1
      simp only [hb, Bool.false_eq_true, if_false, bind, Except.bind]
      rw [ih (fun x hx => hl x (List.mem_cons_of_mem _ hx))]
      have hcnt : List.count 1 (w :: l) = List.count 1 l := by
        rw [List.count_cons]; simp [h1]
      simp only [kraftSum, hcnt]
      congr 2; omega

/-- the nibble-reading loop of HUF_readStats_body -/
theorem nibble_loop (g : Nat → Nat) (k i : Nat) (acc : Array Nat) :
    forIn (List.range' i k) acc (fun n (s : Array Nat) => (Except.ok (ForInStep.yield (s.push (g n))) : R _))
      = Except.ok (acc ++ ((List.range' i k).map g).toArray) := by
  induction k generalizing i acc with
  | zero => simp only [List.range'_zero, List.forIn_nil, List.map_nil, Array.append_empty]; rfl
  | succ k ih =>
    rw [List.range'_succ, List.forIn_cons]
    simp only [bind, Except.bind]
    rw [ih]
    simp

/-- nibble `n` of a packed byte list -/
def nib (bytes : List UInt8) (n : Nat) : Nat :=
  if n % 2 == 0 then ((bytes[n / 2]?.map UInt8.toNat).getD 0) >>> 4 else ((bytes[n / 2]?.map UInt8.toNat).getD 0) &&& 15

theorem nib_cons (x : UInt8) (bytes : List UInt8) (n : Nat) : nib (x :: bytes) (n + 2) = nib bytes n := by
  unfold nib
  have e1 : (n + 2) % 2 = n % 2 := by omega
  have e2 : (n + 2) / 2 = n / 2 + 1 := by omega
  rw [e1, e2, List.getElem?_cons_succ]

theorem and15 (x : Nat) : x &&& 15 = x % 16 := Nat.and_two_pow_sub_one_eq_mod x 4

/-- HUF_writeCTable_wksp packs, HUF_readStats_body unpacks: weights below 16 survive -/
theorem nib_packNibbles (ws : List Nat) (hws : ∀ w ∈ ws, w < 16) (n : Nat) (hn : n < ws.length) :
    nib (packNibbles ws) n = ws[n] := by
  fun_induction packNibbles ws generalizing n with
  | case1 => simp at hn
  | case2 a =>
    have ha := hws a (by simp)
    have : n = 0 := by simpa using hn
    subst this
    simp only [nib, Nat.zero_mod, BEq.rfl, if_true, Nat.zero_div, List.getElem?_cons_zero, Option.map_some, Option.getD_some,
      List.getElem_cons_zero, BitW.ofNat_toNat, Nat.shiftLeft_eq, Nat.shiftRight_eq_div_pow]
    omega
  | case3 a b rest ih =>
    have ha := hws a (by simp)
    have hb := hws b (by simp)
    match n with
    | 0 =>
      simp only [nib, Nat.zero_mod, BEq.rfl, if_true, Nat.zero_div, List.getElem?_cons_zero, Option.map_some, Option.getD_some,
        List.getElem_cons_zero, BitW.ofNat_toNat, Nat.shiftLeft_eq, Nat.shiftRight_eq_div_pow]
      omega
    | 1 =>
      simp only [nib, Nat.reduceMod, Nat.reduceBEq, Bool.false_eq_true, if_false, Nat.reduceDiv, List.getElem?_cons_zero,
        Option.map_some, Option.getD_some, List.getElem_cons_succ, List.getElem_cons_zero, BitW.ofNat_toNat, Nat.shiftLeft_eq,
        and15]
      omega
    | n + 2 =>
      rw [nib_cons, ih (fun w hw => hws w (by simp [hw])) n (by simpa using hn)]
      simp

open ZstdVerif.HufRT ZstdVerif.HufEnc in
theorem kraft_parity (l : List Nat) : kraftSum l % 2 = l.count 1 % 2 := by
  induction l with
  | nil => rfl
  | cons w l ih =>
    have hw : ((1 <<< w) >>> 1) % 2 = if w = 1 then 1 else 0 := by
      match w with
      | 0 => rfl
      | 1 => rfl
      | w + 2 =>
        have := wlen_succ (w + 1)
        unfold wlen at this
        rw [this, Nat.pow_succ]; simp
    rw [kraftSum, List.count_cons]
    by_cases h1 : w = 1
    · subst h1; simp only [BEq.rfl, if_true] at hw ⊢; omega
    · have hb : (w == 1) = false := by simpa using h1
      simp only [h1, hb, if_false, Bool.false_eq_true] at hw ⊢; omega

open ZstdVerif.HufRT ZstdVerif.HufEnc in
/-- the arithmetic of HUF_readStats_body on the weights of all symbols but the last: the table depth and the implied last weight
come out as the encoder had them -/
theorem direct_math (ws : List Nat) (last log : Nat) (ok : WeightsOK (ws.toArray.push last) log) (hlast : 0 < last) :
    kraftSum ws ≠ 0 ∧ highbit (kraftSum ws) + 1 = log ∧ 1 <<< log - kraftSum ws = 2 ^ (last - 1) ∧
      (ws.count 1 + if last = 1 then 1 else 0) % 2 = 0 := by
  have hk := ok.kraft
  have hle : last ≤ log := ok.le_log last (by simp)
  have hpos := ok.log_pos
  rw [Array.toList_push, List.toList_toArray, kraftSum_append] at hk
  simp only [kraftSum, Nat.add_zero] at hk
  have hwl : (1 <<< last) >>> 1 = 2 ^ (last - 1) := wlen_pos hlast
  rw [hwl] at hk
  have hmono : 2 ^ (last - 1) ≤ 2 ^ (log - 1) := Nat.pow_le_pow_right (by decide) (by omega)
  have hsplit : 2 ^ log = 2 * 2 ^ (log - 1) := by
    rw [← Nat.pow_succ']; congr 1; omega
  have hpp := Nat.two_pow_pos (last - 1)
  have hne : kraftSum ws ≠ 0 := by omega
  refine ⟨hne, ?_, ?_, ?_⟩
  · have : (kraftSum ws).log2 = log - 1 := by
      rw [Nat.log2_eq_iff hne]
      constructor
      · omega
      · rw [show log - 1 + 1 = log by omega]; omega
    unfold highbit; omega
  · rw [Nat.shiftLeft_eq, Nat.one_mul]; omega
  · have hpar := kraft_parity (ws ++ [last])
    rw [kraftSum_append, List.count_append] at hpar
    simp only [kraftSum, Nat.add_zero, hwl, List.count_cons, List.count_nil, Nat.zero_add] at hpar
    have heven : (kraftSum ws + 2 ^ (last - 1)) % 2 = 0 := by rw [hk, hsplit]; omega
    by_cases h1 : last = 1
    · subst h1; simp only [BEq.rfl, if_true] at hpar ⊢; omega
    · have hb : (last == 1) = false := by simpa using h1
      simp only [h1, hb, if_false, Bool.false_eq_true] at hpar ⊢; omega

theorem packNibbles_length (ws : List Nat) : (packNibbles ws).length = (ws.length + 1) / 2 := by
  fun_induction packNibbles ws with
  | case1 => rfl
  | case2 a => simp
  | case3 a b rest ih => simp only [List.length_cons, ih]; omega

/-- the first loop of HUF_readStats_body on the packed nibbles -/
theorem direct_nibbles (ws : List Nat) (hw16 : ∀ w ∈ ws, w < 16) (src : Bytes) (pos : Nat)
    (hbytes : ∀ i, i < (packNibbles ws).length → src.u8 (pos + 1 + i) = ((packNibbles ws)[i]?.map UInt8.toNat).getD 0) :
    forIn (List.range' 0 ws.length) (#[] : Array Nat) (fun n (s : Array Nat) =>
      (Except.ok (ForInStep.yield (s.push (if (n % 2 == 0) = true then src.u8 (pos + 1 + n / 2) >>> 4
        else src.u8 (pos + 1 + n / 2) &&& 15))) : R _)) = Except.ok ws.toArray := by
  rw [nibble_loop (fun n => if (n % 2 == 0) = true then src.u8 (pos + 1 + n / 2) >>> 4 else src.u8 (pos + 1 + n / 2) &&& 15)]
  congr 1
  rw [Array.empty_append]
  congr 1
  apply List.ext_getElem
  · simp
  · intro i h1 h2
    simp only [List.getElem_map, List.getElem_range', Nat.zero_add, Nat.one_mul]
    have hi : i < ws.length := h2
    have := nib_packNibbles ws hw16 i hi
    unfold nib at this
    rw [← hbytes (i / 2) (by rw [packNibbles_length]; omega)] at this
    exact this

open ZstdVerif.HufRT ZstdVerif.HufEnc ZstdVerif.Huf in
/-- DIRECT TREE DESCRIPTION.  HUF_readStats_body reads the 4-bit form written by HUF_writeCTable_wksp back: the weights of symbols
`0 .. maxSymbolValue-1` as written, the implied weight of the last symbol and the table depth as the encoder had them
(`WeightsOK`: Kraft equality), consuming exactly the header.  Side conditions: at least one explicit weight, a non-zero last weight
(the last symbol is present by definition of maxSymbolValue), depth ≤ HUF_TABLELOG_MAX, at least two symbols of weight 1 (the two
deepest leaves of a Huffman tree are siblings). -/
theorem readStats_direct (ws : List Nat) (last log : Nat) (ok : WeightsOK (ws.toArray.push last) log) (hlast : 0 < last)
    (hlog : log ≤ 12) (hr1 : 2 ≤ (ws ++ [last]).count 1) (hws : 1 ≤ ws.length) (wh : ByteArray)
    (hwh : directWeights ws = some wh) (src : Bytes) (pos n : Nat) (hsrc : src.extract pos (pos + wh.size) = wh)
    (hn : wh.size ≤ n) : readStats src pos n = .ok ⟨ws.toArray.push last, log, wh.size⟩ := by
  unfold directWeights at hwh
  split at hwh
  · cases hwh
  next h128 =>
  injection hwh with hwh
  have hpush : ByteArray.empty.push (UInt8.ofNat (128 + ws.length - 1)) = [UInt8.ofNat (128 + ws.length - 1)].toByteArray := by
    rw [← ByteArray.append_toByteArray_singleton, ByteArray.empty_append]
  rw [hpush] at hwh
  have hw16 : ∀ w ∈ ws, w < 16 := fun w hw => by
    have := ok.le_log w (by simp [hw]); omega
  have hw12 : ∀ w ∈ ws, w ≤ Gen.HUF_TABLELOG_MAX := fun w hw => by
    have := ok.le_log w (by simp [hw]); unfold Gen.HUF_TABLELOG_MAX; omega
  have hsize : wh.size = 1 + (ws.length + 1) / 2 := by
    rw [← hwh, ByteArray.size_append, List.size_toByteArray, List.size_toByteArray, packNibbles_length]; rfl
  rw [← hwh] at hsrc
  have hb0 : src.u8 pos = 127 + ws.length := by
    have := u8_embedded hsrc 0 (by rw [ByteArray.size_append, List.size_toByteArray, List.length_singleton]; omega)
    rw [Nat.add_zero, u8_append_left _ _ _ (by simp [List.size_toByteArray]), u8_singleton, BitW.ofNat_toNat] at this
    omega
  have hbytes : ∀ i, i < (packNibbles ws).length →
      src.u8 (pos + 1 + i) = ((packNibbles ws)[i]?.map UInt8.toNat).getD 0 := by
    intro i hi
    have := body_u8 _ _ hsrc i (by rw [List.size_toByteArray]; exact hi)
    rw [List.size_toByteArray, List.length_singleton, u8_eq_toList (packNibbles ws).toByteArray,
      List.toList_data_toByteArray] at this
    exact this
  obtain ⟨m1, m2, m3, m4⟩ := direct_math ws last log ok hlast
  have c1 : ¬ n = 0 := by omega
  have c2 : src.u8 pos ≥ 128 := by omega
  have hos : src.u8 pos - 127 = ws.length := by omega
  have c3 : ¬ (ws.length + 1) / 2 + 1 > n := by omega
  have c4 : ¬ ws.length ≥ 256 := by omega
  have hsz : ([:ws.length] : Std.Legacy.Range).size = ws.length := by simp [Std.Legacy.Range.size]
  unfold readStats
  simp only [bind, Except.bind, pure, Except.pure, throw, throwThe, MonadExceptOf.throw, c1, c2, ↓reduceIte, hos, c3, c4,
    Std.Legacy.Range.forIn_eq_forIn_range', hsz]
  rw [direct_nibbles ws hw16 src pos hbytes]
  simp only []
  rw [List.forIn_toArray, weights_loop_fwd Gen.HUF_TABLELOG_MAX _ ws hw12 0 0]
  have hz : (kraftSum ws == 0) = false := by simpa using m1
  have c5 : ¬ log > Gen.HUF_TABLELOG_MAX := by unfold Gen.HUF_TABLELOG_MAX; omega
  have hb : highbit (2 ^ (last - 1)) = last - 1 := Nat.log2_two_pow
  have hv : (1 <<< (last - 1) != 2 ^ (last - 1)) = false := by rw [Nat.shiftLeft_eq, Nat.one_mul]; simp
  have hl1 : last - 1 + 1 = last := by omega
  have hused : (ws.length + 1) / 2 + 1 = wh.size := by omega
  have hcnt : (ws ++ [last]).count 1 = ws.count 1 + if last = 1 then 1 else 0 := by
    rw [List.count_append, List.count_cons, List.count_nil]
    by_cases h1 : last = 1
    · subst h1; simp
    · have : (last == 1) = false := by simpa using h1
      simp [h1, this]
  simp only [Nat.zero_add, hz, Bool.false_eq_true, ↓reduceIte, m2, c5, m3, hb, hv, hl1, hused]
  by_cases h1 : last = 1
  · subst h1
    simp only [if_true] at m4 hcnt
    have d1 : ¬ ws.count 1 + 1 < 2 := by omega
    have d2 : ((ws.count 1 + 1) % 2 == 1) = false := by rw [m4]; rfl
    simp only [BEq.rfl, ↓reduceIte, d1, d2, decide_false, Bool.or_self, Bool.false_eq_true]
  · have hne : (last == 1) = false := by simpa using h1
    simp only [h1, if_false, Nat.add_zero] at m4 hcnt
    have d1 : ¬ ws.count 1 < 2 := by omega
    have d2 : (ws.count 1 % 2 == 1) = false := by rw [m4]; rfl
    simp only [hne, ↓reduceIte, d1, d2, decide_false, Bool.or_self, Bool.false_eq_true]

theorem compressedHeader_size (t : Nat) (single : Bool) (n c : Nat) : (compressedHeader t single n c).size = lhSize n := by
  unfold compressedHeader lhSize
  by_cases hA : n < 1024
  · rw [if_pos hA, le_size, if_neg (by omega), if_neg (by omega)]
  · by_cases hB : n < 16384
    · rw [if_neg hA, if_pos hB, le_size, if_pos (by omega), if_neg (by omega)]
    · rw [if_neg hA, if_neg hB, ByteArray.size_append, le_size, le_size, if_pos (by omega), if_pos (by omega)]

open ZstdVerif.HufRT ZstdVerif.HufEnc ZstdVerif.Huf in
/-- COMPRESSED LITERALS (direct tree description).  `src` holds at `start` the literals section that ZSTD_compressLiterals emits for
the literals `syms` when it keeps the Huffman output with a NEW table whose tree description is in the direct 4-bit form:
header (3/4/5 bytes, `compressedHeader`), tree description `wh = directWeights ws` (weights `ws` of symbols `0 .. maxSymbolValue-1`;
`last` is the weight of symbol `maxSymbolValue`), then `streams = hufStreams single codes syms` (one stream, or jump table + four
streams); anything may follow.  ZSTD_decodeLiteralsBlock returns exactly `syms`, consumes exactly the section, reports `compressed`
and installs the table built from the weights.
Hypotheses on the weights: `WeightsOK` (Kraft equality for depth `log ≤ 12`), a present last symbol, at least one explicit weight,
at least two symbols of weight 1.  Size hypotheses: the ones the C writer enforces (see `literals_roundtrip_compressed_of_stats`).
The FSE-compressed tree description (HUF_compressWeights) is covered by `WeightsRT.literals_roundtrip_compressed_fse`
(`literals_roundtrip_compressed_of_stats` with `WeightsRT.readStats_fse`). -/
theorem literals_roundtrip_compressed (ws : List Nat) (last log : Nat) (ok : WeightsOK (ws.toArray.push last) log)
    (hlast : 0 < last) (hlog : log ≤ 12) (hr1 : 2 ≤ (ws ++ [last]).count 1) (hws : 1 ≤ ws.length)
    (single : Bool) (wh streams : ByteArray) (syms : List Nat) (hwh : directWeights ws = some wh)
    (hstreams : hufStreams single (codesOf (ws.toArray.push last) log) syms = some streams)
    (hsyms : ∀ s ∈ syms, ∃ hs : s < (ws.toArray.push last).size, 0 < (ws.toArray.push last)[s])
    (src : Bytes) (start srcSize : Nat) (ent : Entropy) (bsm dstCap : Nat)
    (hsec : src.extract start (start + (compressedLiterals single wh streams syms.length).size)
      = compressedLiterals single wh streams syms.length)
    (hsingle : single = true → syms.length < 1024)
    (hc : wh.size + streams.size < syms.length) (hn : syms.length ≤ 2 ^ 17)
    (hbsm : syms.length ≤ bsm) (hcap : syms.length ≤ dstCap)
    (hsz : (compressedLiterals single wh streams syms.length).size ≤ srcSize) :
    decodeLiterals src start srcSize ent bsm dstCap
      = .ok { lits := litBytes syms, used := (compressedLiterals single wh streams syms.length).size,
              ent := { ent with huf := some (buildTable ⟨ws.toArray.push last, log, wh.size⟩) }, mode := .compressed,
              streams := if single then 1 else 4 } := by
  have hwsz : wh.size = 1 + (ws.length + 1) / 2 := by
    unfold directWeights at hwh
    split at hwh
    · cases hwh
    · injection hwh with hwh
      rw [← hwh, ByteArray.size_append, ByteArray.size_push, List.size_toByteArray, packNibbles_length]; rfl
  have hsecsz : (compressedLiterals single wh streams syms.length).size = lhSize syms.length + wh.size + streams.size := by
    unfold compressedLiterals
    rw [ByteArray.size_append, ByteArray.size_append, compressedHeader_size]
  have hwhsrc : src.extract (start + lhSize syms.length) (start + lhSize syms.length + wh.size) = wh := by
    have := embedded_part (compressedHeader set_compressed single syms.length (wh.size + streams.size)) wh streams hsec
    rwa [compressedHeader_size] at this
  have hstats := readStats_direct ws last log ok hlast hlog hr1 hws wh hwh src (start + lhSize syms.length)
    (wh.size + streams.size) hwhsrc (by omega)
  have hlh : 3 ≤ lhSize syms.length := by unfold lhSize; omega
  exact literals_roundtrip_compressed_of_stats single wh streams syms _ log src start srcSize ent bsm dstCap hsec hstats
    (by omega) hsyms hstreams hsingle hc hn hbsm hcap hsz (by omega)

/-! ### treeless literals: the Huffman table of an earlier block is re-used -/

/-- `Huf.buildTable` does not look at the number of bytes the tree description took -/
theorem buildTable_used (weights : Array Nat) (log u1 u2 : Nat) :
    Huf.buildTable ⟨weights, log, u1⟩ = Huf.buildTable ⟨weights, log, u2⟩ := rfl

theorem treeless_eq (single : Bool) (streams : ByteArray) (n : Nat) :
    compressedLiterals single ByteArray.empty streams n set_repeat = compressedHeader set_repeat single n streams.size ++ streams := by
  unfold compressedLiterals
  rw [ByteArray.size_empty, Nat.zero_add, ByteArray.append_empty]

/-- HUF_compress1X_usingCTable / HUF_compress4X_usingCTable never return an empty output as a success -/
theorem hufStreams_size_pos {single : Bool} {codes : Array (Nat × Nat)} {syms : List Nat} {streams : ByteArray}
    (h : hufStreams single codes syms = some streams) : 1 ≤ streams.size := by
  unfold hufStreams at h
  cases single with
  | true =>
    simp only [if_true] at h
    injection h with h
    subst h
    rw [(BitW.ofFields_spec _).1]
    omega
  | false =>
    simp only [Bool.false_eq_true, if_false] at h
    unfold HufEnc.compress4 at h
    split at h
    · cases h
    · simp only [] at h
      unfold HufEnc.layout4 at h
      repeat' split at h
      all_goals cases h
      simp only [ByteArray.size_append]
      omega

/-- TREELESS LITERALS (`hType = set_repeat`).  `src` holds at `start` the literals section that ZSTD_compressLiterals emits for the
literals `syms` when HUF_compress{1,4}X_repeat re-used the table of an earlier block: header (3/4/5 bytes, `compressedHeader` with type
`set_repeat`), NO tree description, then `streams = hufStreams single codes syms` under the codes of that table's weights; anything
may follow.  IF the decoder holds the table built from these weights (`ent.huf`, i.e. `dctx->HUFptr` with `litEntropy = 1`: installed
by the block that described it, see `literals_roundtrip_compressed`), THEN ZSTD_decodeLiteralsBlock returns exactly `syms`, consumes
exactly the section, reports `treeless` and keeps the table.  (Without a table the decoder fails: dictionary_corrupted.)
Hypotheses on the weights: `WeightsOK` (what HUF_readStats guaranteed when the table was read).  Size hypotheses: the ones the C
writer enforces (see `literals_roundtrip_compressed_of_stats`); the block has at least 5 bytes. -/
theorem literals_roundtrip_treeless (single : Bool) (streams : ByteArray) (syms : List Nat) (weights : Array Nat)
    (log used : Nat) (ok : HufRT.WeightsOK weights log) (hlog : log ≤ 56)
    (src : Bytes) (start srcSize : Nat) (ent : Entropy) (bsm dstCap : Nat)
    (hent : ent.huf = some (Huf.buildTable ⟨weights, log, used⟩))
    (hsec : src.extract start (start + (compressedLiterals single ByteArray.empty streams syms.length set_repeat).size)
      = compressedLiterals single ByteArray.empty streams syms.length set_repeat)
    (hsyms : ∀ s ∈ syms, ∃ hs : s < weights.size, 0 < weights[s])
    (hstreams : hufStreams single (HufEnc.codesOf weights log) syms = some streams)
    (hsingle : single = true → syms.length < 1024)
    (hc : streams.size < syms.length) (hn : syms.length ≤ 2 ^ 17)
    (hbsm : syms.length ≤ bsm) (hcap : syms.length ≤ dstCap)
    (hsz : (compressedLiterals single ByteArray.empty streams syms.length set_repeat).size ≤ srcSize) (h5 : 5 ≤ srcSize) :
    decodeLiterals src start srcSize ent bsm dstCap
      = .ok { lits := litBytes syms, used := (compressedLiterals single ByteArray.empty streams syms.length set_repeat).size,
              ent := { ent with huf := some (Huf.buildTable ⟨weights, log, used⟩) }, mode := .treeless,
              streams := if single then 1 else 4 } := by
  have c1 : ¬ srcSize < 2 := by omega
  have c2 : ¬ srcSize < 5 := by omega
  have c3 : ¬ syms.length > bsm := by omega
  have c4 : ¬ min bsm dstCap < syms.length := by omega
  have h6 : single = false → 6 ≤ syms.length := by
    intro hs; subst hs
    have := HufRT.compress4_accepts hstreams; omega
  rw [treeless_eq] at hsec hsz ⊢
  generalize hUg : (compressedHeader set_repeat single syms.length streams.size ++ streams).size = U at hsz ⊢
  unfold compressedHeader set_repeat at *
  simp only [Nat.shiftLeft_eq, Nat.reducePow, Nat.reduceMul] at hsec hUg
  unfold decodeLiterals
  by_cases hA : syms.length < 1024
  · -- 3-byte header
    rw [if_pos hA] at hsec hUg
    have hb0 := hdr_u8_zero _ 3 _ hsec (by decide)
    have hb1 := hdr_u8 _ 3 _ hsec 1 (by decide)
    have hb2 := hdr_u8 _ 3 _ hsec 2 (by decide)
    have hb3 := ByteArray.u8_lt src (start + 3)
    have hstr : src.extract (start + 3) (start + 3 + streams.size) = streams := by
      have := body_embedded _ streams hsec
      rwa [le_size] at this
    simp only [ByteArray.size_append, le_size] at hUg
    have hU : streams.size + 3 = U := by omega
    have c6 : ¬ U > srcSize := by omega
    have hty : src.u8 start &&& 3 = 3 := by rw [and3, hb0]; split <;> omega
    have hdec := streams_decode ok hlog used single syms hsyms streams hstreams src _ hstr
    cases single with
    | true =>
      simp only [if_true, Nat.zero_mul, Nat.add_zero] at hb0 hb1 hb2 hdec
      have c7 : ¬ syms.length < 6 ∨ True := Or.inr trivial
      have hlhl : (src.u8 start >>> 2) &&& 3 = 0 := by rw [and3, Nat.shiftRight_eq_div_pow, hb0]; omega
      have hls : (src.le32 start >>> 4) &&& 1023 = syms.length := by
        unfold ByteArray.le32
        rw [and1023, Nat.shiftRight_eq_div_pow, Nat.shiftLeft_eq, Nat.shiftLeft_eq, Nat.shiftLeft_eq, hb0, hb1, hb2]; omega
      have hcs : (src.le32 start >>> 14) &&& 1023 = streams.size := by
        unfold ByteArray.le32
        rw [and1023, Nat.shiftRight_eq_div_pow, Nat.shiftLeft_eq, Nat.shiftLeft_eq, Nat.shiftLeft_eq, hb0, hb1, hb2]; omega
      simp only [bind, Except.bind, pure, Except.pure, throw, throwThe, MonadExceptOf.throw, hty, hlhl, Nat.reduceBEq,
        Bool.or_self, Bool.false_eq_true, ↓reduceIte, Bool.or_false, Bool.or_true, Bool.true_or, Bool.false_and, Bool.true_and,
        Bool.not_true, Bool.not_false, decide_eq_true_eq, hls, hcs, Gen.MIN_CBLOCK_SIZE, Gen.MIN_LITERALS_FOR_4_STREAMS, c1, c2,
        c3, c4, c6, c7, BEq.rfl, Nat.reduceAdd, hent, Option.isNone_some, Option.getD_some, Bool.and_false, hdec, hU]
    | false =>
      simp only [Bool.false_eq_true, if_false, Nat.one_mul] at hb0 hb1 hb2 hdec
      have c7 : ¬ syms.length < 6 := by have := h6 rfl; omega
      have hlhl : (src.u8 start >>> 2) &&& 3 = 1 := by rw [and3, Nat.shiftRight_eq_div_pow, hb0]; omega
      have hls : (src.le32 start >>> 4) &&& 1023 = syms.length := by
        unfold ByteArray.le32
        rw [and1023, Nat.shiftRight_eq_div_pow, Nat.shiftLeft_eq, Nat.shiftLeft_eq, Nat.shiftLeft_eq, hb0, hb1, hb2]; omega
      have hcs : (src.le32 start >>> 14) &&& 1023 = streams.size := by
        unfold ByteArray.le32
        rw [and1023, Nat.shiftRight_eq_div_pow, Nat.shiftLeft_eq, Nat.shiftLeft_eq, Nat.shiftLeft_eq, hb0, hb1, hb2]; omega
      simp only [bind, Except.bind, pure, Except.pure, throw, throwThe, MonadExceptOf.throw, hty, hlhl, Nat.reduceBEq,
        Bool.or_self, Bool.false_eq_true, ↓reduceIte, Bool.or_false, Bool.or_true, Bool.true_or, Bool.false_and, Bool.true_and,
        Bool.not_true, Bool.not_false, decide_eq_true_eq, hls, hcs, Gen.MIN_CBLOCK_SIZE, Gen.MIN_LITERALS_FOR_4_STREAMS, c1, c2,
        c3, c4, c6, c7, BEq.rfl, Nat.reduceAdd, hent, Option.isNone_some, Option.getD_some, Bool.and_false, hdec, hU]
  · have hsf : single = false := by
      cases single with
      | false => rfl
      | true => exact absurd (hsingle rfl) hA
    subst hsf
    have c7 : ¬ syms.length < 6 := by omega
    rw [if_neg hA] at hsec hUg
    by_cases hB : syms.length < 16384
    · -- 4-byte header
      rw [if_pos hB] at hsec hUg
      have hb0 := hdr_u8_zero _ 4 _ hsec (by decide)
      have hb1 := hdr_u8 _ 4 _ hsec 1 (by decide)
      have hb2 := hdr_u8 _ 4 _ hsec 2 (by decide)
      have hb3 := hdr_u8 _ 4 _ hsec 3 (by decide)
      have hstr : src.extract (start + 4) (start + 4 + streams.size) = streams := by
        have := body_embedded _ streams hsec
        rwa [le_size] at this
      simp only [ByteArray.size_append, le_size] at hUg
      have hU : streams.size + 4 = U := by omega
      have c6 : ¬ U > srcSize := by omega
      have hty : src.u8 start &&& 3 = 3 := by rw [and3, hb0]; omega
      have hdec := streams_decode ok hlog used false syms hsyms streams hstreams src _ hstr
      simp only [Bool.false_eq_true, if_false] at hdec
      have hlhl : (src.u8 start >>> 2) &&& 3 = 2 := by rw [and3, Nat.shiftRight_eq_div_pow, hb0]; omega
      have hls : (src.le32 start >>> 4) &&& 16383 = syms.length := by
        unfold ByteArray.le32
        rw [and16383, Nat.shiftRight_eq_div_pow, Nat.shiftLeft_eq, Nat.shiftLeft_eq, Nat.shiftLeft_eq, hb0, hb1, hb2, hb3]; omega
      have hcs : src.le32 start >>> 18 = streams.size := by
        unfold ByteArray.le32
        rw [Nat.shiftRight_eq_div_pow, Nat.shiftLeft_eq, Nat.shiftLeft_eq, Nat.shiftLeft_eq, hb0, hb1, hb2, hb3]; omega
      simp only [bind, Except.bind, pure, Except.pure, throw, throwThe, MonadExceptOf.throw, hty, hlhl, Nat.reduceBEq,
        Bool.or_self, Bool.false_eq_true, ↓reduceIte, Bool.or_false, Bool.or_true, Bool.true_or, Bool.false_and, Bool.true_and,
        Bool.not_true, Bool.not_false, decide_eq_true_eq, hls, hcs, Gen.MIN_CBLOCK_SIZE, Gen.MIN_LITERALS_FOR_4_STREAMS, c1, c2,
        c3, c4, c6, c7, BEq.rfl, Nat.reduceAdd, hent, Option.isNone_some, Option.getD_some, Bool.and_false, hdec, hU]
    · -- 5-byte header
      rw [if_neg hB] at hsec hUg
      rw [ByteArray.append_assoc] at hsec
      have hb0 := hdr_u8_zero _ 4 _ hsec (by decide)
      have hb1 := hdr_u8 _ 4 _ hsec 1 (by decide)
      have hb2 := hdr_u8 _ 4 _ hsec 2 (by decide)
      have hb3 := hdr_u8 _ 4 _ hsec 3 (by decide)
      have hb4 := body_u8 _ _ hsec 0 (by rw [ByteArray.size_append, le_size]; omega)
      rw [le_size, Nat.add_zero, u8_append_left _ _ _ (by rw [le_size]; decide), le_u8 _ _ _ (by decide)] at hb4
      have hstr : src.extract (start + 5) (start + 5 + streams.size) = streams := by
        have := body_embedded (_ ++ _) streams (by rw [ByteArray.append_assoc]; exact hsec)
        rwa [ByteArray.size_append, le_size, le_size] at this
      simp only [ByteArray.size_append, le_size] at hUg
      have hU : streams.size + 5 = U := by omega
      have c6 : ¬ U > srcSize := by omega
      have hty : src.u8 start &&& 3 = 3 := by rw [and3, hb0]; omega
      have hdec := streams_decode ok hlog used false syms hsyms streams hstreams src _ hstr
      simp only [Bool.false_eq_true, if_false] at hdec
      have hlhl : (src.u8 start >>> 2) &&& 3 = 3 := by rw [and3, Nat.shiftRight_eq_div_pow, hb0]; omega
      have hls : (src.le32 start >>> 4) &&& 262143 = syms.length := by
        unfold ByteArray.le32
        rw [and262143, Nat.shiftRight_eq_div_pow, Nat.shiftLeft_eq, Nat.shiftLeft_eq, Nat.shiftLeft_eq, hb0, hb1, hb2, hb3]; omega
      have hcs : src.le32 start >>> 22 + src.u8 (start + 4) <<< 10 = streams.size := by
        unfold ByteArray.le32
        rw [Nat.shiftRight_eq_div_pow] at hb4
        rw [Nat.shiftRight_eq_div_pow, Nat.shiftLeft_eq, Nat.shiftLeft_eq, Nat.shiftLeft_eq,
          Nat.shiftLeft_eq, hb0, hb1, hb2, hb3, hb4]; omega
      simp only [bind, Except.bind, pure, Except.pure, throw, throwThe, MonadExceptOf.throw, hty, hlhl, Nat.reduceBEq,
        Bool.or_self, Bool.false_eq_true, ↓reduceIte, Bool.or_false, Bool.or_true, Bool.true_or, Bool.false_and, Bool.true_and,
        Bool.not_true, Bool.not_false, decide_eq_true_eq, hls, hcs, Gen.MIN_CBLOCK_SIZE, Gen.MIN_LITERALS_FOR_4_STREAMS, c1, c2,
        c3, c4, c6, c7, BEq.rfl, Nat.reduceAdd, hent, Option.isNone_some, Option.getD_some, Bool.and_false, hdec, hU]

/-! ### non-vacuity -/

example : rawLiterals "abc".toUTF8 = ⟨#[0x18, 0x61, 0x62, 0x63]⟩ := by decide
example : rleLiterals (rleBytes 4 0x61) = ⟨#[0x21, 0x61]⟩ := by decide
example : directWeights [2, 1] = some ⟨#[0x81, 0x21]⟩ := by decide
example : HufRT.WeightsOK (([2, 1] : List Nat).toArray.push 1) 2 := by decide

end ZstdVerif.LitRT
