/-
Round trip of the seek table: the loader model (Model/Seekable.load, tied to ZSTD_seekable_loadSeekTable) applied to any bytes
followed by what the writer model (serialize, tied to ZSTD_seekable_writeSeekTable) emits returns the entries that went in.
-/
import ZstdVerif.Model.Seekable
namespace ZstdVerif.Seekable

def toBytes (l : List Nat) : List UInt8 := l.map UInt8.ofNat

theorem toBytes_append (a b : List Nat) : toBytes (a ++ b) = toBytes a ++ toBytes b := List.map_append

theorem size_mk (l : List UInt8) : (ByteArray.mk l.toArray).size = l.length := by
  simp [ByteArray.size]

theorem u8_mk (l : List UInt8) (i : Nat) : (ByteArray.mk l.toArray).u8 i = (l[i]?.map UInt8.toNat).getD 0 := by
  unfold ByteArray.u8
  by_cases h : i < l.length
  · have h' : i < (ByteArray.mk l.toArray).size := by rw [size_mk]; exact h
    simp only [h', dite_true]
    rw [List.getElem?_eq_getElem h]
    rfl
  · have h' : ¬ i < (ByteArray.mk l.toArray).size := by rw [size_mk]; exact h
    simp only [h', dite_false]
    rw [List.getElem?_eq_none (by omega)]
    rfl

theorem u8_at (pre post : List UInt8) (x : UInt8) (k : Nat) (hk : k = pre.length) :
    (ByteArray.mk (pre ++ x :: post).toArray).u8 k = x.toNat := by
  subst hk
  rw [u8_mk, List.getElem?_append_right (Nat.le_refl _)]
  simp

theorem ofNat_toNat (n : Nat) : (UInt8.ofNat n).toNat = n % 256 := by simp

/-- reading a little-endian 32-bit field where the writer put it -/
theorem le32_at (pre post : List UInt8) (v : Nat) (hv : v < 4294967296) (k : Nat) (hk : k = pre.length) :
    (ByteArray.mk (pre ++ toBytes (le32bytes v) ++ post).toArray).le32 k = v := by
  subst hk
  unfold ByteArray.le32
  have e0 : pre ++ toBytes (le32bytes v) ++ post =
      pre ++ UInt8.ofNat (v % 256) :: (UInt8.ofNat (v / 256 % 256) :: UInt8.ofNat (v / 65536 % 256) :: UInt8.ofNat (v / 16777216 % 256) :: post) := by
    simp [toBytes, le32bytes]
  have e1 : pre ++ toBytes (le32bytes v) ++ post =
      (pre ++ [UInt8.ofNat (v % 256)]) ++ UInt8.ofNat (v / 256 % 256) :: (UInt8.ofNat (v / 65536 % 256) :: UInt8.ofNat (v / 16777216 % 256) :: post) := by
    simp [toBytes, le32bytes]
  have e2 : pre ++ toBytes (le32bytes v) ++ post =
      (pre ++ [UInt8.ofNat (v % 256), UInt8.ofNat (v / 256 % 256)]) ++ UInt8.ofNat (v / 65536 % 256) :: (UInt8.ofNat (v / 16777216 % 256) :: post) := by
    simp [toBytes, le32bytes]
  have e3 : pre ++ toBytes (le32bytes v) ++ post =
      (pre ++ [UInt8.ofNat (v % 256), UInt8.ofNat (v / 256 % 256), UInt8.ofNat (v / 65536 % 256)]) ++ UInt8.ofNat (v / 16777216 % 256) :: post := by
    simp [toBytes, le32bytes]
  have b0 := u8_at pre (UInt8.ofNat (v / 256 % 256) :: UInt8.ofNat (v / 65536 % 256) :: UInt8.ofNat (v / 16777216 % 256) :: post) (UInt8.ofNat (v % 256)) pre.length rfl
  have b1 := u8_at (pre ++ [UInt8.ofNat (v % 256)]) (UInt8.ofNat (v / 65536 % 256) :: UInt8.ofNat (v / 16777216 % 256) :: post) (UInt8.ofNat (v / 256 % 256)) (pre.length + 1) (by simp)
  have b2 := u8_at (pre ++ [UInt8.ofNat (v % 256), UInt8.ofNat (v / 256 % 256)]) (UInt8.ofNat (v / 16777216 % 256) :: post) (UInt8.ofNat (v / 65536 % 256)) (pre.length + 2) (by simp)
  have b3 := u8_at (pre ++ [UInt8.ofNat (v % 256), UInt8.ofNat (v / 256 % 256), UInt8.ofNat (v / 65536 % 256)]) post (UInt8.ofNat (v / 16777216 % 256)) (pre.length + 3) (by simp)
  rw [← e0] at b0; rw [← e1] at b1; rw [← e2] at b2; rw [← e3] at b3
  rw [b0, b1, b2, b3]
  simp only [ofNat_toNat, Nat.shiftLeft_eq]
  omega

def enc (ck : Bool) (e : Entry) : List Nat := le32bytes e.cSize ++ le32bytes e.dSize ++ (if ck then le32bytes e.checksum else [])
def per (ck : Bool) : Nat := if ck then 12 else 8
def readAt (b : Bytes) (p : Nat) (ck : Bool) : Entry :=
  { cSize := b.le32 p, dSize := b.le32 (p + 4), checksum := if ck then b.le32 (p + 8) else 0 }
/-- what a table without checksums can carry of an entry -/
def norm (ck : Bool) (e : Entry) : Entry := if ck then e else { e with checksum := 0 }
def Fits (e : Entry) : Prop := e.cSize < 4294967296 ∧ e.dSize < 4294967296 ∧ e.checksum < 4294967296

theorem enc_length (ck : Bool) (e : Entry) : (toBytes (enc ck e)).length = per ck := by
  cases ck <;> simp [toBytes, enc, per, le32bytes]

theorem readAt_head (X post : List UInt8) (e : Entry) (ck : Bool) (hf : Fits e) (base : Nat) (hb : base = X.length) :
    readAt (ByteArray.mk (X ++ toBytes (enc ck e) ++ post).toArray) base ck = norm ck e := by
  obtain ⟨h1, h2, h3⟩ := hf
  have hc : (ByteArray.mk (X ++ toBytes (enc ck e) ++ post).toArray).le32 base = e.cSize := by
    have : X ++ toBytes (enc ck e) ++ post = X ++ toBytes (le32bytes e.cSize) ++ (toBytes (le32bytes e.dSize ++ (if ck then le32bytes e.checksum else [])) ++ post) := by
      simp [enc, toBytes_append, List.append_assoc]
    rw [this]; exact le32_at X _ e.cSize h1 base hb
  have hd : (ByteArray.mk (X ++ toBytes (enc ck e) ++ post).toArray).le32 (base + 4) = e.dSize := by
    have : X ++ toBytes (enc ck e) ++ post = (X ++ toBytes (le32bytes e.cSize)) ++ toBytes (le32bytes e.dSize) ++ (toBytes (if ck then le32bytes e.checksum else []) ++ post) := by
      simp [enc, toBytes_append, List.append_assoc]
    rw [this]; exact le32_at _ _ e.dSize h2 (base + 4) (by simp [toBytes, le32bytes, hb])
  cases ck with
  | false => simp only [readAt, norm, hc, hd, Bool.false_eq_true, if_false]
  | true =>
    have hk : (ByteArray.mk (X ++ toBytes (enc true e) ++ post).toArray).le32 (base + 8) = e.checksum := by
      have : X ++ toBytes (enc true e) ++ post = (X ++ toBytes (le32bytes e.cSize) ++ toBytes (le32bytes e.dSize)) ++ toBytes (le32bytes e.checksum) ++ post := by
        simp [enc, toBytes_append, List.append_assoc]
      rw [this]; exact le32_at _ _ e.checksum h3 (base + 8) (by simp [toBytes, le32bytes, hb])
    simp only [readAt, norm, hc, hd, hk, if_true]

theorem entries_read (es : List Entry) (ck : Bool) (hf : ∀ e ∈ es, Fits e) (X post : List UInt8) (base : Nat) (hb : base = X.length) :
    (List.range es.length).map (fun i => readAt (ByteArray.mk (X ++ toBytes (es.flatMap (enc ck)) ++ post).toArray) (base + i * per ck) ck)
      = es.map (norm ck) := by
  induction es generalizing X base with
  | nil => rfl
  | cons e t ih =>
    have hA : X ++ toBytes ((e :: t).flatMap (enc ck)) ++ post = X ++ toBytes (enc ck e) ++ (toBytes (t.flatMap (enc ck)) ++ post) := by
      simp [List.flatMap_cons, toBytes_append, List.append_assoc]
    have hA' : X ++ toBytes ((e :: t).flatMap (enc ck)) ++ post = (X ++ toBytes (enc ck e)) ++ toBytes (t.flatMap (enc ck)) ++ post := by
      simp [List.flatMap_cons, toBytes_append, List.append_assoc]
    have h0 : readAt (ByteArray.mk (X ++ toBytes ((e :: t).flatMap (enc ck)) ++ post).toArray) (base + 0 * per ck) ck = norm ck e := by
      have := readAt_head X (toBytes (t.flatMap (enc ck)) ++ post) e ck (hf e (List.mem_cons_self)) base hb
      rw [← hA] at this
      rw [Nat.zero_mul, Nat.add_zero]; exact this
    have ht : (List.range t.length).map ((fun i => readAt (ByteArray.mk (X ++ toBytes ((e :: t).flatMap (enc ck)) ++ post).toArray) (base + i * per ck) ck) ∘ Nat.succ)
        = t.map (norm ck) := by
      have := ih (fun e' he' => hf e' (List.mem_cons_of_mem _ he')) (X ++ toBytes (enc ck e)) (base + per ck)
        (by rw [List.length_append, enc_length, hb])
      rw [← hA'] at this
      rw [← this]
      apply List.map_congr_left
      intro i _
      show readAt _ (base + (i + 1) * per ck) ck = readAt _ (base + per ck + i * per ck) ck
      rw [Nat.succ_mul, Nat.add_comm (i * per ck) (per ck), Nat.add_assoc]
    rw [List.length_cons, List.range_succ_eq_map, List.map_cons, List.map_map, List.map_cons, h0, ht]

theorem flat_length (es : List Entry) (ck : Bool) : (toBytes (es.flatMap (enc ck))).length = es.length * per ck := by
  induction es with
  | nil => simp [toBytes]
  | cons e t ih =>
    rw [List.flatMap_cons, toBytes_append, List.length_append, enc_length, ih, List.length_cons, Nat.succ_mul]; omega

theorem serialize_eq (es : List Entry) (ck : Bool) :
    serialize es ck = le32bytes SKIPPABLE_MAGIC_E ++ le32bytes (es.length * per ck + 9) ++ es.flatMap (enc ck) ++ le32bytes es.length ++
      [if ck then 128 else 0] ++ le32bytes SEEKABLE_MAGIC := by
  cases ck <;> rfl

theorem le32bytes_length (v : Nat) : (toBytes (le32bytes v)).length = 4 := by simp [toBytes, le32bytes]

set_option maxHeartbeats 1000000 in
/-- **seektable_roundtrip** -/
theorem seektable_roundtrip (pre : List UInt8) (es : List Entry) (ck : Bool) (hf : ∀ e ∈ es, Fits e)
    (hn : es.length * 12 + 17 < 4294967296) :
    load (ByteArray.mk (pre ++ toBytes (serialize es ck)).toArray) = .ok (es.map (norm ck), ck) := by
  have hper : per ck ≤ 12 := by cases ck <;> simp [per]
  have hper8 : 8 ≤ per ck := by cases ck <;> simp [per]
  have hmul : es.length * per ck ≤ es.length * 12 := Nat.mul_le_mul_left _ hper
  -- the archive, cut at each field
  let H1 := toBytes (le32bytes SKIPPABLE_MAGIC_E)
  let H2 := toBytes (le32bytes (es.length * per ck + 9))
  let E := toBytes (es.flatMap (enc ck))
  let F1 := toBytes (le32bytes es.length)
  let S : List UInt8 := [UInt8.ofNat (if ck then 128 else 0)]
  let F2 := toBytes (le32bytes SEEKABLE_MAGIC)
  have hA : pre ++ toBytes (serialize es ck) = pre ++ H1 ++ H2 ++ E ++ F1 ++ S ++ F2 := by
    rw [serialize_eq]; simp [H1, H2, E, F1, S, F2, toBytes, List.append_assoc]
  have lH1 : H1.length = 4 := le32bytes_length _
  have lH2 : H2.length = 4 := le32bytes_length _
  have lE : E.length = es.length * per ck := flat_length es ck
  have lF1 : F1.length = 4 := le32bytes_length _
  have lF2 : F2.length = 4 := le32bytes_length _
  generalize hb : ByteArray.mk (pre ++ toBytes (serialize es ck)).toArray = b
  have hsize : b.size = pre.length + 8 + es.length * per ck + 9 := by
    rw [← hb, size_mk, hA]; simp only [List.length_append, lH1, lH2, lE, lF1, lF2, S, List.length_cons, List.length_nil]
  have hm : b.le32 (pre.length + 8 + es.length * per ck + 9 - 4) = SEEKABLE_MAGIC := by
    rw [← hb, hA]
    have := le32_at (pre ++ H1 ++ H2 ++ E ++ F1 ++ S) [] SEEKABLE_MAGIC (by decide) (pre.length + 8 + es.length * per ck + 9 - 4)
      (by simp only [List.length_append, lH1, lH2, lE, lF1, S, List.length_cons, List.length_nil]; omega)
    simpa [F2] using this
  have hsfd : b.u8 (pre.length + 8 + es.length * per ck + 9 - 5) = (if ck then 128 else 0) := by
    rw [← hb, hA]
    have := u8_at (pre ++ H1 ++ H2 ++ E ++ F1) F2 (UInt8.ofNat (if ck then 128 else 0)) (pre.length + 8 + es.length * per ck + 9 - 5)
      (by simp only [List.length_append, lH1, lH2, lE, lF1]; omega)
    have e : pre ++ H1 ++ H2 ++ E ++ F1 ++ S ++ F2 = pre ++ H1 ++ H2 ++ E ++ F1 ++ UInt8.ofNat (if ck then 128 else 0) :: F2 := by simp [S]
    rw [e, this]; cases ck <;> simp
  have hnum : b.le32 (pre.length + 8 + es.length * per ck + 9 - 9) = es.length := by
    rw [← hb, hA]
    have := le32_at (pre ++ H1 ++ H2 ++ E) (S ++ F2) es.length (by omega) (pre.length + 8 + es.length * per ck + 9 - 9)
      (by simp only [List.length_append, lH1, lH2, lE]; omega)
    simpa [F1, List.append_assoc] using this
  have hskip : b.le32 pre.length = SKIPPABLE_MAGIC_E := by
    rw [← hb, hA]
    have := le32_at pre (H2 ++ E ++ F1 ++ S ++ F2) SKIPPABLE_MAGIC_E (by decide) pre.length rfl
    simpa [H1, List.append_assoc] using this
  have hfs : b.le32 (pre.length + 4) = es.length * per ck + 9 := by
    rw [← hb, hA]
    have := le32_at (pre ++ H1) (E ++ F1 ++ S ++ F2) (es.length * per ck + 9) (by omega) (pre.length + 4) (by simp [lH1])
    simpa [H2, List.append_assoc] using this
  have hent : loadEntries b pre.length (per ck) es.length ck = es.map (norm ck) := by
    rw [← hb, hA]
    have := entries_read es ck hf (pre ++ H1 ++ H2) (F1 ++ S ++ F2) (pre.length + 8) (by simp only [List.length_append, lH1, lH2])
    unfold loadEntries readAt at *
    simpa [E, List.append_assoc] using this
  have hperck : (if ((if ck = true then 128 else 0) >>> 7 == 1) = true then 12 else 8) = per ck := by cases ck <;> rfl
  have hckb : ((if ck = true then 128 else 0) >>> 7 == 1) = ck := by cases ck <;> rfl
  have hres : ((if ck = true then 128 else 0) >>> 2 &&& 31 != 0) = false := by cases ck <;> rfl
  unfold load
  simp only [hsize, hm, hsfd, hnum, hperck, hckb, hres]
  have hp2 : (if ck = true then 12 else 8) = per ck := rfl
  have hlt : per ck * es.length < 4294967296 := by rw [Nat.mul_comm]; omega
  have hmod : per ck * es.length % 4294967296 = per ck * es.length := Nat.mod_eq_of_lt hlt
  have hmod2 : (per ck * es.length + 17) % 4294967296 = per ck * es.length + 17 := Nat.mod_eq_of_lt (by rw [Nat.mul_comm]; omega)
  have hsub : pre.length + 8 + es.length * per ck + 9 - (per ck * es.length + 17) = pre.length := by rw [Nat.mul_comm (per ck)]; omega
  have hfs2 : (es.length * per ck + 9 + 8) % 4294967296 = per ck * es.length + 17 := by
    rw [Nat.mul_comm (per ck)]; exact Nat.mod_eq_of_lt (by omega)
  simp only [hp2, hmod, hmod2, hsub, hskip, hfs, hfs2, hent]
  rw [if_neg (by omega), if_neg (by simp), if_neg (by simp), if_neg (by rw [Nat.mul_comm (per ck)]; omega), if_neg (by simp), if_neg (by simp), if_neg (by simp)]

end ZstdVerif.Seekable
