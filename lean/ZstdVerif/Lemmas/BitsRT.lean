/-
Round trip of the bit stream: what the forward writer model (Model/BitW, tied to bitstream.h BIT_addBits / BIT_flushBits /
BIT_closeCStream by tools/ent_bitw.py) produces is read back, last field first, by the backward reader model (Model/Bits,
tied to the C decoder), and the reader ends bit-exact.
-/
import ZstdVerif.Model.BitW
import ZstdVerif.Model.Bits

namespace ByteArray
open ZstdVerif

/-- little-endian value of the `cnt` bytes starting at index `frm` (bytes beyond the array count as 0, like `u8`) -/
def toNatLE (b : ByteArray) (frm : Nat) : Nat → Nat
  | 0 => 0
  | cnt + 1 => b.u8 frm + 256 * toNatLE b (frm + 1) cnt

theorem u8_lt (b : ByteArray) (i : Nat) : b.u8 i < 256 := by
  unfold ByteArray.u8
  split
  · exact UInt8.toNat_lt _
  · decide

theorem toNatLE_lt (b : ByteArray) (frm cnt : Nat) : toNatLE b frm cnt < 2 ^ (8 * cnt) := by
  induction cnt generalizing frm with
  | zero => simp [toNatLE]
  | succ c ih =>
    have h1 := u8_lt b frm
    have h2 := ih (frm + 1)
    have e : 2 ^ (8 * (c + 1)) = 256 * 2 ^ (8 * c) := by
      rw [Nat.mul_add, Nat.pow_add, Nat.mul_comm]
    rw [toNatLE, e]
    omega

theorem toNatLE_add (b : ByteArray) (frm a c : Nat) :
    toNatLE b frm (a + c) = toNatLE b frm a + 2 ^ (8 * a) * toNatLE b (frm + a) c := by
  induction a generalizing frm with
  | zero => simp [toNatLE]
  | succ a ih =>
    have e : 2 ^ (8 * (a + 1)) = 256 * 2 ^ (8 * a) := by
      rw [Nat.mul_add, Nat.pow_add, Nat.mul_comm]
    have e2 : a + 1 + c = (a + c) + 1 := by omega
    have e3 : frm + (a + 1) = frm + 1 + a := by omega
    rw [e2, toNatLE, toNatLE, ih (frm + 1), e, e3, Nat.mul_add, Nat.mul_assoc]
    omega

/-- any window of whole bytes of a little-endian number is the little-endian number of those bytes -/
theorem toNatLE_window (b : ByteArray) (frm len k m : Nat) (h : k + m ≤ len) :
    toNatLE b frm len / 2 ^ (8 * k) % 2 ^ (8 * m) = toNatLE b (frm + k) m := by
  obtain ⟨r, rfl⟩ : ∃ r, len = k + (m + r) := ⟨len - k - m, by omega⟩
  rw [toNatLE_add b frm k, toNatLE_add b (frm + k) m]
  have hk := toNatLE_lt b frm k
  have hm := toNatLE_lt b (frm + k) m
  rw [Nat.add_mul_div_left _ _ (Nat.two_pow_pos _), Nat.div_eq_of_lt hk, Nat.zero_add,
    Nat.add_mul_mod_self_left, Nat.mod_eq_of_lt hm]

theorem toNatLE_eight (b : ByteArray) (k : Nat) :
    toNatLE b k 8 = b.u8 k + 256 * (b.u8 (k+1) + 256 * (b.u8 (k+2) + 256 * (b.u8 (k+3) + 256 * (b.u8 (k+4)
      + 256 * (b.u8 (k+5) + 256 * (b.u8 (k+6) + 256 * (b.u8 (k+7) + 256 * 0))))))) := by
  rw [show (8 : Nat) = 0+1+1+1+1+1+1+1+1 from rfl]
  simp only [toNatLE, Nat.add_assoc, Nat.reduceAdd]

/-- MEM_readLE64 (mem.h) as modelled by `le64` is the little-endian value of eight bytes -/
theorem le64_eq_toNatLE (b : ByteArray) (k : Nat) : b.le64 k = toNatLE b k 8 := by
  unfold le64 le32
  simp only [Nat.shiftLeft_eq, Nat.add_assoc, Nat.reduceAdd, Nat.reducePow]
  have e := toNatLE_eight b k
  generalize b.toNatLE k 8 = x at e ⊢
  generalize b.u8 k = a0 at e ⊢
  generalize b.u8 (k+1) = a1 at e ⊢
  generalize b.u8 (k+2) = a2 at e ⊢
  generalize b.u8 (k+3) = a3 at e ⊢
  generalize b.u8 (k+4) = a4 at e ⊢
  generalize b.u8 (k+5) = a5 at e ⊢
  generalize b.u8 (k+6) = a6 at e ⊢
  generalize b.u8 (k+7) = a7 at e ⊢
  omega

/-- the value only depends on the bytes it covers -/
theorem toNatLE_congr (a b : ByteArray) (f g cnt : Nat) (h : ∀ i, i < cnt → a.u8 (f + i) = b.u8 (g + i)) :
    toNatLE a f cnt = toNatLE b g cnt := by
  induction cnt generalizing f g with
  | zero => rfl
  | succ c ih =>
    rw [toNatLE, toNatLE, ih (f + 1) (g + 1) (fun i hi => by
      have := h (i + 1) (by omega)
      rwa [show f + 1 + i = f + (i + 1) by omega, show g + 1 + i = g + (i + 1) by omega])]
    have := h 0 (by omega)
    rw [Nat.add_zero, Nat.add_zero] at this
    rw [this]

end ByteArray

namespace ZstdVerif.BitR

/-- bits `[sh, sh+n)` of a number only depend on the number modulo `2^M` when `sh + n ≤ M` -/
theorem window_mod (x y M sh n : Nat) (h : x % 2 ^ M = y % 2 ^ M) (hs : sh + n ≤ M) :
    x / 2 ^ sh % 2 ^ n = y / 2 ^ sh % 2 ^ n := by
  have d : 2 ^ (sh + n) ∣ 2 ^ M := Nat.pow_dvd_pow 2 hs
  rw [← Nat.mod_mul_right_div_self, ← Nat.mod_mul_right_div_self, ← Nat.pow_add,
    ← Nat.mod_mod_of_dvd x d, ← Nat.mod_mod_of_dvd y d, h]

/-- KEY LEMMA.  `field` loads a full 64-bit word at byte `start + lo/8`, which may reach beyond the `len` bytes of the
stream (C: BIT_initDStream / BIT_reloadDStream load a full `size_t` and only use the valid bits); because
`lo % 8 + n ≤ 63 < 64` and `lo + n ≤ 8 * len`, the bits that are kept all lie inside the stream, whatever follows it. -/
theorem field_eq (src : Bytes) (start len lo n : Nat) (hn : n ≤ 56) (h : lo + n ≤ 8 * len) :
    field src start lo n = src.toNatLE start len / 2 ^ lo % 2 ^ n := by
  unfold field
  simp only [Nat.shiftRight_eq_div_pow, Nat.one_shiftLeft, Nat.and_two_pow_sub_one_eq_mod,
    ByteArray.le64_eq_toNatLE]
  have hlo : 2 ^ lo = 2 ^ (8 * (lo / 8)) * 2 ^ (lo % 8) := by
    rw [← Nat.pow_add]; congr 1; omega
  rw [hlo, ← Nat.div_div_eq_div_mul]
  have hm : lo / 8 + min 8 (len - lo / 8) ≤ len := by omega
  apply window_mod _ _ (8 * min 8 (len - lo / 8))
  · have h1 := ByteArray.toNatLE_window src (start + lo / 8) 8 0 (min 8 (len - lo / 8)) (by omega)
    have h2 := ByteArray.toNatLE_window src start len (lo / 8) (min 8 (len - lo / 8)) hm
    rw [Nat.mul_zero, Nat.pow_zero, Nat.div_one, Nat.add_zero] at h1
    rw [h1, h2]
  · omega

/-- BIT_initDStream on a stream whose little-endian value `S` has its top bit (the end mark) at position `T`, stored in
`T / 8 + 1` bytes: the reader starts with exactly `T` payload bits -/
theorem init_eq (src : Bytes) (start T : Nat) (hlo : 2 ^ T ≤ src.toNatLE start (T / 8 + 1))
    (hhi : src.toNatLE start (T / 8 + 1) < 2 ^ (T + 1)) :
    init src start (T / 8 + 1) = .ok { src := src, start := start, left := T, over := false } := by
  have hw := ByteArray.toNatLE_window src start (T / 8 + 1) (T / 8) 1 (Nat.le_refl _)
  have hlast : src.toNatLE (start + T / 8) 1 = src.u8 (start + T / 8) := by
    simp [ByteArray.toNatLE]
  generalize src.toNatLE start (T / 8 + 1) = S at *
  rw [hlast] at hw
  have hT : T = 8 * (T / 8) + T % 8 := by omega
  have hpow : 2 ^ T = 2 ^ (T % 8) * 2 ^ (8 * (T / 8)) := by
    rw [← Nat.pow_add]; congr 1; omega
  have hpow1 : 2 ^ (T + 1) = 2 ^ (T % 8 + 1) * 2 ^ (8 * (T / 8)) := by
    rw [← Nat.pow_add]; congr 1; omega
  have hq1 : 2 ^ (T % 8) ≤ S / 2 ^ (8 * (T / 8)) := by
    rw [Nat.le_div_iff_mul_le (Nat.two_pow_pos _), ← hpow]; exact hlo
  have hq2 : S / 2 ^ (8 * (T / 8)) < 2 ^ (T % 8 + 1) := by
    rw [Nat.div_lt_iff_lt_mul (Nat.two_pow_pos _), ← hpow1]; exact hhi
  have h256 : 2 ^ (T % 8 + 1) ≤ 2 ^ (8 * 1) := Nat.pow_le_pow_right (by decide) (by omega)
  rw [Nat.mod_eq_of_lt (by omega)] at hw
  have hne : src.u8 (start + T / 8) ≠ 0 := by
    have := Nat.two_pow_pos (T % 8); omega
  have hlog : highbit (src.u8 (start + T / 8)) = T % 8 := by
    unfold highbit
    rw [Nat.log2_eq_iff hne, ← hw]
    exact ⟨hq1, hq2⟩
  unfold init
  have e1 : start + (T / 8 + 1) - 1 = start + T / 8 := by omega
  simp only [e1, hne, if_false, Nat.add_one_ne_zero, Nat.add_sub_cancel, hlog]
  congr 2
  omega

/-- successive reads: the widths `ns` in order; returns the values in the same order and the final reader -/
def readList (r : BitR) : List Nat → List Nat × BitR
  | [] => ([], r)
  | n :: ns => ((r.read n).1 :: (readList (r.read n).2 ns).1, (readList (r.read n).2 ns).2)

end ZstdVerif.BitR

namespace ZstdVerif.BitW

/-- number of payload bits of a field list `(value, width)` -/
def totalBits : List (Nat × Nat) → Nat
  | [] => 0
  | f :: fs => f.2 + totalBits fs

/-- `Σ (v_i mod 2^n_i) * 2^(offset_i)` where `offset_i = off +` the widths of the earlier fields -/
def fieldsValFrom (off : Nat) : List (Nat × Nat) → Nat
  | [] => 0
  | f :: fs => f.1 % 2 ^ f.2 * 2 ^ off + fieldsValFrom (off + f.2) fs

/-- the number whose little-endian bytes are the stream: the fields from bit 0 upwards, then the end mark -/
def streamVal (fs : List (Nat × Nat)) : Nat := fieldsValFrom 0 fs + 2 ^ totalBits fs

/-- the same sum for a list given last field first (the order in which the reader meets the fields) -/
def valRev : List (Nat × Nat) → Nat
  | [] => 0
  | f :: gs => valRev gs + f.1 % 2 ^ f.2 * 2 ^ totalBits gs

theorem totalBits_append (a b : List (Nat × Nat)) : totalBits (a ++ b) = totalBits a + totalBits b := by
  induction a with
  | nil => simp [totalBits]
  | cons f a ih => simp only [List.cons_append, totalBits, ih]; omega

theorem totalBits_reverse (a : List (Nat × Nat)) : totalBits a.reverse = totalBits a := by
  induction a with
  | nil => rfl
  | cons f a ih => simp only [List.reverse_cons, totalBits_append, totalBits, ih]; omega

theorem fieldsValFrom_shift (a off : Nat) (fs : List (Nat × Nat)) :
    fieldsValFrom (a + off) fs = 2 ^ a * fieldsValFrom off fs := by
  induction fs generalizing off with
  | nil => simp [fieldsValFrom]
  | cons f fs ih =>
    simp only [fieldsValFrom, Nat.add_assoc, ih, Nat.mul_add, Nat.pow_add]
    congr 1
    ac_rfl

theorem fieldsValFrom_lt (off : Nat) (fs : List (Nat × Nat)) :
    fieldsValFrom off fs + 2 ^ off ≤ 2 ^ (off + totalBits fs) := by
  induction fs generalizing off with
  | nil => simp [fieldsValFrom, totalBits]
  | cons f fs ih =>
    have h1 := ih (off + f.2)
    have h2 : f.1 % 2 ^ f.2 < 2 ^ f.2 := Nat.mod_lt _ (Nat.two_pow_pos _)
    have h3 : (f.1 % 2 ^ f.2 + 1) * 2 ^ off ≤ 2 ^ f.2 * 2 ^ off := Nat.mul_le_mul_right _ h2
    rw [Nat.add_mul, Nat.one_mul, ← Nat.pow_add, Nat.add_comm f.2 off] at h3
    simp only [fieldsValFrom, totalBits, ← Nat.add_assoc]
    omega

theorem valRev_append_single (gs : List (Nat × Nat)) (f : Nat × Nat) :
    valRev (gs ++ [f]) = f.1 % 2 ^ f.2 + 2 ^ f.2 * valRev gs := by
  induction gs with
  | nil => simp [valRev, totalBits]
  | cons g gs ih =>
    simp only [List.cons_append, valRev, ih, totalBits_append, totalBits, Nat.add_zero, Nat.mul_add, Nat.pow_add]
    rw [Nat.add_assoc]
    congr 2
    ac_rfl

theorem valRev_reverse (fs : List (Nat × Nat)) : valRev fs.reverse = fieldsValFrom 0 fs := by
  induction fs with
  | nil => rfl
  | cons f fs ih =>
    have := fieldsValFrom_shift f.2 0 fs
    rw [Nat.add_zero] at this
    simp only [List.reverse_cons, valRev_append_single, ih, fieldsValFrom, Nat.pow_zero, Nat.mul_one, Nat.zero_add, this]

theorem valRev_lt (gs : List (Nat × Nat)) : valRev gs < 2 ^ totalBits gs := by
  have h := fieldsValFrom_lt 0 gs.reverse
  rw [← valRev_reverse, List.reverse_reverse, totalBits_reverse, Nat.zero_add] at h
  omega

end ZstdVerif.BitW

namespace ZstdVerif.BitR
open ZstdVerif.BitW

/-- reader side of the round trip, for fields listed last-written first: when the low `totalBits gs` bits of the stream
value are `valRev gs`, reading the widths of `gs` returns the masked values of `gs` and consumes exactly those bits -/
theorem readList_valRev (src : Bytes) (start len : Nat) (gs : List (Nat × Nat)) (hw : ∀ f ∈ gs, f.2 ≤ 56)
    (hlen : totalBits gs ≤ 8 * len) (hS : src.toNatLE start len % 2 ^ totalBits gs = valRev gs) :
    readList { src := src, start := start, left := totalBits gs, over := false } (gs.map (·.2))
      = (gs.map (fun f => f.1 % 2 ^ f.2), { src := src, start := start, left := 0, over := false }) := by
  induction gs with
  | nil => rfl
  | cons f gs ih =>
    have hA := valRev_lt gs
    have hm : f.1 % 2 ^ f.2 < 2 ^ f.2 := Nat.mod_lt _ (Nat.two_pow_pos _)
    simp only [totalBits, valRev] at hlen hS
    have hfield : field src start (totalBits gs) f.2 = f.1 % 2 ^ f.2 := by
      rw [field_eq src start len _ _ (hw f List.mem_cons_self) (by omega),
        ← Nat.mod_mul_right_div_self, ← Nat.pow_add, Nat.add_comm, hS,
        Nat.add_mul_div_right _ _ (Nat.two_pow_pos _), Nat.div_eq_of_lt hA, Nat.zero_add]
    have hrest : src.toNatLE start len % 2 ^ totalBits gs = valRev gs := by
      have d : 2 ^ totalBits gs ∣ 2 ^ (f.2 + totalBits gs) := Nat.pow_dvd_pow 2 (by omega)
      rw [← Nat.mod_mod_of_dvd _ d, hS, Nat.add_mul_mod_self_right, Nat.mod_eq_of_lt hA]
    have ih' := ih (fun g hg => hw g (List.mem_cons_of_mem _ hg)) (by omega) hrest
    simp only [List.map_cons, readList, read, totalBits, Nat.le_add_right, if_true, Nat.add_sub_cancel_left,
      hfield, ih']

end ZstdVerif.BitR

namespace ByteArray
open ZstdVerif

theorem u8_of_lt (b : ByteArray) (i : Nat) (h : i < b.size) : b.u8 i = (b[i]'h).toNat := by
  unfold ByteArray.u8; rw [dif_pos h]

theorem u8_of_ge (b : ByteArray) (i : Nat) (h : b.size ≤ i) : b.u8 i = 0 := by
  unfold ByteArray.u8; rw [dif_neg (by omega)]

theorem u8_push_lt (b : ByteArray) (x : UInt8) (i : Nat) (h : i < b.size) : (b.push x).u8 i = b.u8 i := by
  have h' : i < (b.push x).size := by rw [ByteArray.size_push]; omega
  rw [u8_of_lt _ _ h', u8_of_lt _ _ h]
  congr 1
  simp only [ByteArray.getElem_eq_getElem_data, ByteArray.data_push]
  exact Array.getElem_push_lt h

theorem u8_push_eq (b : ByteArray) (x : UInt8) : (b.push x).u8 b.size = x.toNat := by
  have h' : b.size < (b.push x).size := by rw [ByteArray.size_push]; omega
  rw [u8_of_lt _ _ h']
  congr 1
  simp only [ByteArray.getElem_eq_getElem_data, ByteArray.data_push]
  exact Array.getElem_push_eq

/-- two byte arrays of the same size with the same bytes are equal -/
theorem ext_u8 (a b : ByteArray) (hs : a.size = b.size) (h : ∀ i, i < a.size → a.u8 i = b.u8 i) : a = b := by
  apply ByteArray.ext_getElem hs
  intro i hi hi'
  have := h i hi
  rw [u8_of_lt _ _ hi, u8_of_lt _ _ hi'] at this
  exact UInt8.toNat_inj.mp this

end ByteArray

namespace ZstdVerif.BitW

/-- every byte of `b` is the corresponding byte of the little-endian expansion of `N` -/
def IsLE (b : Bytes) (N : Nat) : Prop := ∀ i, i < b.size → b.u8 i = N / 2 ^ (8 * i) % 256

theorem ofNat_toNat (v : Nat) : (UInt8.ofNat v).toNat = v % 256 := by simp

theorem size_pushLE (out : Bytes) (v k : Nat) : (pushLE out v k).size = out.size + k := by
  induction k generalizing out v with
  | zero => rfl
  | succ k ih => rw [pushLE, ih, ByteArray.size_push]; omega

theorem u8_pushLE_lt (out : Bytes) (v k i : Nat) (h : i < out.size) : (pushLE out v k).u8 i = out.u8 i := by
  induction k generalizing out v with
  | zero => rfl
  | succ k ih =>
    rw [pushLE, ih _ _ (by rw [ByteArray.size_push]; omega), ByteArray.u8_push_lt _ _ _ h]

theorem u8_pushLE_ge (out : Bytes) (v k i : Nat) (h1 : out.size ≤ i) (h2 : i < out.size + k) :
    (pushLE out v k).u8 i = v / 2 ^ (8 * (i - out.size)) % 256 := by
  induction k generalizing out v with
  | zero => omega
  | succ k ih =>
    rw [pushLE]
    by_cases he : i = out.size
    · subst he
      rw [u8_pushLE_lt _ _ _ _ (by rw [ByteArray.size_push]; omega), ByteArray.u8_push_eq, ofNat_toNat]
      simp
    · rw [ih _ _ (by rw [ByteArray.size_push]; omega) (by rw [ByteArray.size_push]; omega),
        ByteArray.size_push, Nat.shiftRight_eq_div_pow, Nat.div_div_eq_div_mul, ← Nat.pow_add]
      congr 3
      omega

/-- abstraction of a writer state: `N` is the number written so far (bit 0 first), `T` the number of bits -/
structure Rep (w : BitW) (N T : Nat) : Prop where
  bytes : IsLE w.out N
  acc : w.acc = N / 2 ^ (8 * w.out.size)
  bits : T = 8 * w.out.size + w.bitPos
  lt : N < 2 ^ T

theorem rep_init : Rep init 0 0 := by
  refine ⟨?_, ?_, ?_, ?_⟩
  · intro i hi; exact absurd hi (Nat.not_lt_zero _)
  · simp [init]
  · simp [init]
  · simp

theorem rep_flush (w : BitW) (N T : Nat) (h : Rep w N T) : Rep w.flush N T := by
  obtain ⟨hb, ha, ht, hl⟩ := h
  have e7 : w.bitPos &&& 7 = w.bitPos % 8 := Nat.and_two_pow_sub_one_eq_mod w.bitPos 3
  refine ⟨?_, ?_, ?_, hl⟩
  · intro i hi
    simp only [flush, size_pushLE] at hi ⊢
    by_cases hlt : i < w.out.size
    · rw [u8_pushLE_lt _ _ _ _ hlt]; exact hb i hlt
    · rw [u8_pushLE_ge _ _ _ _ (by omega) hi, ha, Nat.div_div_eq_div_mul, ← Nat.pow_add]
      congr 3
      omega
  · simp only [flush, size_pushLE, ha, Nat.shiftRight_eq_div_pow, Nat.div_div_eq_div_mul, ← Nat.pow_add]
    congr 2
    omega
  · simp only [flush, size_pushLE, e7, Nat.shiftRight_eq_div_pow]
    omega

theorem flush_bitPos_lt (w : BitW) : w.flush.bitPos < 8 := by
  have e7 : w.bitPos &&& 7 = w.bitPos % 8 := Nat.and_two_pow_sub_one_eq_mod w.bitPos 3
  simp only [flush, e7]
  omega

/-- BIT_addBitsFast with a clean value -/
theorem rep_addBitsFast (w : BitW) (N T v n : Nat) (h : Rep w N T) (hv : v < 2 ^ n) :
    Rep (w.addBitsFast v n) (N + v * 2 ^ T) (T + n) := by
  obtain ⟨hb, ha, ht, hl⟩ := h
  refine ⟨?_, ?_, ?_, ?_⟩
  · intro i hi
    simp only [addBitsFast] at hi ⊢
    rw [hb i hi]
    exact (BitR.window_mod _ _ T (8 * i) 8 (Nat.add_mul_mod_self_right _ _ _) (by omega)).symm
  · simp only [addBitsFast]
    have hacc : w.acc < 2 ^ w.bitPos := by
      rw [ha, Nat.div_lt_iff_lt_mul (Nat.two_pow_pos _), ← Nat.pow_add, Nat.add_comm, ← ht]; exact hl
    have e : v * 2 ^ T = 2 ^ (8 * w.out.size) * (v * 2 ^ w.bitPos) := by
      rw [ht, Nat.pow_add]; ac_rfl
    rw [Nat.or_comm, ← Nat.shiftLeft_add_eq_or_of_lt hacc, Nat.shiftLeft_eq, e,
      Nat.add_mul_div_left _ _ (Nat.two_pow_pos _), ha, Nat.add_comm]
  · simp only [addBitsFast]; omega
  · have h3 : (v + 1) * 2 ^ T ≤ 2 ^ n * 2 ^ T := Nat.mul_le_mul_right _ hv
    rw [Nat.add_mul, Nat.one_mul, ← Nat.pow_add, Nat.add_comm n T] at h3
    omega

/-- what zvh_bitw.c does for widths above 31 (beyond BIT_mask): BIT_addBitsFast on a cleaned value is BIT_addBits -/
theorem addBitsFast_clean (w : BitW) (v n : Nat) : w.addBitsFast (v &&& ((1 <<< n) - 1)) n = w.addBits v n := rfl

/-- BIT_addBits: the value is masked to its width -/
theorem rep_addBits (w : BitW) (N T v n : Nat) (h : Rep w N T) :
    Rep (w.addBits v n) (N + v % 2 ^ n * 2 ^ T) (T + n) := by
  have e : w.addBits v n = w.addBitsFast (v % 2 ^ n) n := by
    simp only [addBits, addBitsFast, Nat.one_shiftLeft, Nat.and_two_pow_sub_one_eq_mod]
  rw [e]
  exact rep_addBitsFast w N T _ n h (Nat.mod_lt _ (Nat.two_pow_pos _))

end ZstdVerif.BitW

namespace ZstdVerif.BitW

theorem isLE_unique (a b : Bytes) (N : Nat) (ha : IsLE a N) (hb : IsLE b N) (hs : a.size = b.size) : a = b :=
  ByteArray.ext_u8 a b hs (fun i hi => by rw [ha i hi, hb i (by omega)])

/-- a byte array that is the little-endian expansion of `N` has the windows of `N` as values -/
theorem isLE_toNatLE (b : Bytes) (N : Nat) (h : IsLE b N) (k c : Nat) (hk : k + c ≤ b.size) :
    b.toNatLE k c = N / 2 ^ (8 * k) % 2 ^ (8 * c) := by
  induction c generalizing k with
  | zero => simp [ByteArray.toNatLE, Nat.mod_one]
  | succ c ih =>
    rw [ByteArray.toNatLE, ih (k + 1) (by omega), h k (by omega)]
    have e1 : 2 ^ (8 * (k + 1)) = 2 ^ (8 * k) * 256 := by rw [Nat.mul_add, Nat.pow_add]
    have e2 : 2 ^ (8 * (c + 1)) = 256 * 2 ^ (8 * c) := by rw [Nat.mul_add, Nat.pow_add, Nat.mul_comm]
    rw [e1, e2, ← Nat.div_div_eq_div_mul, Nat.mod_mul]

/-- BIT_closeCStream: end mark at bit `T`, then exactly the bytes that contain bits `0 .. T` -/
theorem close_spec (w : BitW) (N T : Nat) (h : Rep w N T) :
    (close w).size = (T + 1 + 7) / 8 ∧ IsLE (close w) (N + 2 ^ T) := by
  have h1 := rep_addBitsFast w N T 1 1 h (by decide)
  rw [Nat.one_mul] at h1
  have h2 := rep_flush _ _ _ h1
  have hb := flush_bitPos_lt (w.addBitsFast 1 1)
  obtain ⟨hbytes, hacc, hbits, _⟩ := h2
  unfold close
  simp only []
  split
  · next hpos =>
    refine ⟨by rw [ByteArray.size_push]; omega, ?_⟩
    intro i hi
    rw [ByteArray.size_push] at hi
    by_cases hlt : i < (w.addBitsFast 1 1).flush.out.size
    · rw [ByteArray.u8_push_lt _ _ _ hlt]; exact hbytes i hlt
    · have he : i = (w.addBitsFast 1 1).flush.out.size := by omega
      rw [he, ByteArray.u8_push_eq, ofNat_toNat, hacc]
  · next hpos =>
    exact ⟨by omega, hbytes⟩

theorem rep_steps (ops : List Op) (w : BitW) (N T : Nat) (h : Rep w N T) :
    Rep (ops.foldl step w) (N + fieldsValFrom T (Op.fields ops)) (T + totalBits (Op.fields ops)) := by
  induction ops generalizing w N T with
  | nil => exact h
  | cons op ops ih =>
    cases op with
    | add v n =>
      have := ih _ _ _ (rep_addBits w N T v n h)
      simpa only [List.foldl_cons, step, Op.fields, fieldsValFrom, totalBits, Nat.add_assoc] using this
    | flush =>
      have := ih _ _ _ (rep_flush w N T h)
      simpa only [List.foldl_cons, step, Op.fields] using this

theorem rep_canon (fs : List (Nat × Nat)) (w : BitW) (N T : Nat) (h : Rep w N T) :
    Rep (fs.foldl (fun w f => (w.addBits f.1 f.2).flush) w) (N + fieldsValFrom T fs) (T + totalBits fs) := by
  induction fs generalizing w N T with
  | nil => exact h
  | cons f fs ih =>
    have := ih _ _ _ (rep_flush _ _ _ (rep_addBits w N T f.1 f.2 h))
    simpa only [List.foldl_cons, fieldsValFrom, totalBits, Nat.add_assoc] using this

theorem streamVal_bounds (fs : List (Nat × Nat)) :
    2 ^ totalBits fs ≤ streamVal fs ∧ streamVal fs < 2 ^ (totalBits fs + 1) := by
  have h := fieldsValFrom_lt 0 fs
  rw [Nat.pow_zero, Nat.zero_add] at h
  unfold streamVal
  rw [Nat.pow_succ]
  omega

/-- `ofFields fs` in the abstraction: the canonical bytes of `streamVal fs` -/
theorem ofFields_spec (fs : List (Nat × Nat)) :
    (ofFields fs).size = (totalBits fs + 1 + 7) / 8 ∧ IsLE (ofFields fs) (streamVal fs) := by
  have h := close_spec _ _ _ (rep_canon fs init 0 0 rep_init)
  simpa only [Nat.zero_add, ofFields, streamVal] using h

/-- FLUSH SCHEDULE IRRELEVANCE: whatever flush calls are interleaved with the adds (BIT_flushBits after every symbol, after
every few symbols, only when the register is nearly full ...), closing yields the bytes of the canonical schedule -/
theorem flush_irrelevant (ops : List Op) : run ops = ofFields (Op.fields ops) := by
  have h1 := close_spec _ _ _ (rep_steps ops init 0 0 rep_init)
  have h2 := close_spec _ _ _ (rep_canon (Op.fields ops) init 0 0 rep_init)
  unfold run ofFields
  exact isLE_unique _ _ _ h1.2 h2.2 (by rw [h1.1, h2.1])

/-- VALUE OF THE STREAM: `ofFields fs` has `(totalBits + 1 + 7) / 8` bytes and they are the little-endian encoding of
`streamVal fs = Σ (v_i mod 2^n_i) * 2^(offset_i) + 2^totalBits` -/
theorem bytes_value (fs : List (Nat × Nat)) :
    (ofFields fs).size = (totalBits fs + 1 + 7) / 8 ∧
    (ofFields fs).toNatLE 0 (ofFields fs).size = streamVal fs ∧
    ∀ i, i < (ofFields fs).size → (ofFields fs).u8 i = streamVal fs / 2 ^ (8 * i) % 256 := by
  obtain ⟨hs, hle⟩ := ofFields_spec fs
  refine ⟨hs, ?_, hle⟩
  rw [isLE_toNatLE _ _ hle 0 _ (by omega), Nat.mul_zero, Nat.pow_zero, Nat.div_one]
  apply Nat.mod_eq_of_lt
  have hb := (streamVal_bounds fs).2
  have : 2 ^ (totalBits fs + 1) ≤ 2 ^ (8 * (ofFields fs).size) := Nat.pow_le_pow_right (by decide) (by omega)
  omega

end ZstdVerif.BitW

namespace ByteArray

/-- a slice that has the requested length agrees byte for byte with the source -/
theorem u8_extract (src : ByteArray) (start len i : Nat) (hs : (src.extract start (start + len)).size = len)
    (hi : i < len) : src.u8 (start + i) = (src.extract start (start + len)).u8 i := by
  have hi' : i < (src.extract start (start + len)).size := by omega
  have hsrc : start + i < src.size := by rw [ByteArray.size_extract] at hs; omega
  rw [u8_of_lt _ _ hi', u8_of_lt _ _ hsrc, ByteArray.getElem_extract]

end ByteArray

namespace ZstdVerif.BitR
open ZstdVerif.BitW

/-! ### underflow: a reader that is asked for more bits than were written never reports a clean end -/

/-- BIT_readBits beyond the start of the stream: the sticky flag is raised (C: BIT_DStream_overflow) -/
theorem read_underflow_sets_over (r : BitR) (n : Nat) (h : r.left < n) :
    (r.read n).2.over = true ∧ (r.read n).2.atEnd = false := by
  have : ¬ n ≤ r.left := by omega
  simp [read, this, atEnd]

/-- the flag is sticky -/
theorem read_over_sticky (r : BitR) (n : Nat) (h : r.over = true) : (r.read n).2.over = true := by
  unfold read; split <;> simp [h]

theorem readList_over_sticky (r : BitR) (ns : List Nat) (h : r.over = true) : (readList r ns).2.over = true := by
  induction ns generalizing r with
  | nil => exact h
  | cons n ns ih => exact ih _ (read_over_sticky r n h)

/-- a sequence of reads ends bit-exact (BIT_endOfDStream) if and only if it asked for exactly the bits that were left:
a decoder that asks for more (or fewer) bits than the encoder wrote cannot end with `atEnd` -/
theorem readList_atEnd_iff (r : BitR) (ns : List Nat) :
    (readList r ns).2.atEnd = true ↔ r.over = false ∧ ns.sum = r.left := by
  induction ns generalizing r with
  | nil =>
    cases ho : r.over
    · simp only [readList, atEnd, ho, List.sum_nil, Bool.not_false, Bool.and_true, beq_iff_eq, true_and]
      exact eq_comm
    · simp [readList, atEnd, ho]
  | cons n ns ih =>
    rw [readList, ih, List.sum_cons]
    unfold read
    split
    · next hle =>
      simp only []
      constructor <;> (intro h; exact ⟨h.1, by omega⟩)
    · next hle =>
      simp only []
      constructor
      · intro h; exact absurd h.1 (by decide)
      · intro h; exact absurd h.2 (by omega)

/-- ROUND TRIP, stream embedded at `start` in a larger array `src` (bytes before and AFTER the stream are arbitrary: the
64-bit loads of `field` may cover up to 7 bytes behind the stream, their bits are masked away, see `field_eq`; when the
stream sits at the very end of `src` those bytes read as 0 by `u8`, which is covered as well).  Every width ≤ 56 is what
`BitR.field` supports.  The reader starts with exactly `totalBits fs` bits and no overflow; reading the widths last field
first returns the written values masked to their widths; the reader ends bit-exact and never overflowed (the flag is
sticky, `read_over_sticky`, so `over = false` at the end means it was never raised). -/
theorem bits_roundtrip_at (fs : List (Nat × Nat)) (hw : ∀ f ∈ fs, f.2 ≤ 56) (src : Bytes) (start : Nat)
    (hsrc : src.extract start (start + (ofFields fs).size) = ofFields fs) :
    ∃ r0, init src start (ofFields fs).size = .ok r0 ∧ r0.left = totalBits fs ∧ r0.over = false ∧
      (readList r0 (fs.reverse.map (·.2))).1 = fs.reverse.map (fun f => f.1 % 2 ^ f.2) ∧
      (readList r0 (fs.reverse.map (·.2))).2.over = false ∧
      (readList r0 (fs.reverse.map (·.2))).2.atEnd = true := by
  obtain ⟨hsize, hval, _⟩ := bytes_value fs
  obtain ⟨hlo, hhi⟩ := streamVal_bounds fs
  have hlen : (ofFields fs).size = totalBits fs / 8 + 1 := by omega
  -- the value of the stream bytes inside `src`
  have hS : src.toNatLE start (totalBits fs / 8 + 1) = streamVal fs := by
    rw [← hval, hlen]
    apply ByteArray.toNatLE_congr
    intro i hi
    have hs : (src.extract start (start + (totalBits fs / 8 + 1))).size = totalBits fs / 8 + 1 := by
      rw [← hlen, hsrc]
    have := ByteArray.u8_extract src start (totalBits fs / 8 + 1) i hs hi
    rw [← hlen, hsrc] at this
    rw [this, Nat.zero_add]
  have hinit := init_eq src start (totalBits fs) (by rw [hS]; exact hlo) (by rw [hS]; exact hhi)
  have hmod : src.toNatLE start (totalBits fs / 8 + 1) % 2 ^ totalBits fs.reverse = valRev fs.reverse := by
    rw [hS, totalBits_reverse, valRev_reverse, streamVal, Nat.add_mod_right]
    have := fieldsValFrom_lt 0 fs
    rw [Nat.pow_zero, Nat.zero_add] at this
    exact Nat.mod_eq_of_lt (by omega)
  have hread := readList_valRev src start (totalBits fs / 8 + 1) fs.reverse
    (fun f hf => hw f (List.mem_reverse.mp hf)) (by rw [totalBits_reverse]; omega) hmod
  rw [totalBits_reverse] at hread
  refine ⟨_, by rw [hlen]; exact hinit, rfl, rfl, ?_, ?_, ?_⟩
  · rw [hread]
  · rw [hread]
  · rw [hread]; rfl

/-- MAIN THEOREM: the reader model reads back exactly what the writer model wrote -/
theorem bits_roundtrip (fs : List (Nat × Nat)) (hw : ∀ f ∈ fs, f.2 ≤ 56) :
    ∃ r0, init (ofFields fs) 0 (ofFields fs).size = .ok r0 ∧ r0.left = totalBits fs ∧ r0.over = false ∧
      (readList r0 (fs.reverse.map (·.2))).1 = fs.reverse.map (fun f => f.1 % 2 ^ f.2) ∧
      (readList r0 (fs.reverse.map (·.2))).2.over = false ∧
      (readList r0 (fs.reverse.map (·.2))).2.atEnd = true :=
  bits_roundtrip_at fs hw (ofFields fs) 0 (by rw [Nat.zero_add]; exact ByteArray.extract_zero_size)

end ZstdVerif.BitR

/-! ### non-vacuity: concrete streams (the first two are the answers of the real BIT_* functions, see harness/zvh_bitw.c) -/
namespace ZstdVerif
example : (BitW.ofFields []).data = #[0x01] := by decide
example : (BitW.ofFields [(5, 3), (255, 8)]).data = #[0xfd, 0x0f] := by decide
example : BitW.run [.add 5 3, .flush, .flush, .add 255 8] = BitW.run [.add 5 3, .add 255 8, .flush] := by
  rw [BitW.flush_irrelevant, BitW.flush_irrelevant]; rfl
example : BitW.streamVal [(5, 3), (255, 8)] = 0xffd := by decide
example : (BitR.readList { src := BitW.ofFields [(5, 3), (300, 8)], start := 0, left := 11, over := false } [8, 3]).1
    = [44, 5] := by decide
example : (BitR.readList { src := BitW.ofFields [(5, 3), (300, 8)], start := 0, left := 11, over := false } [8, 4]).2.atEnd
    = false := by decide
end ZstdVerif
