/-
Specification LTS of streaming decoding (Model/Stream.lean): the facts every legal history satisfies (used by Props/C02 and Lemmas/DStreamRT).
-/
import ZstdVerif.Model.Stream
namespace ZstdVerif.StreamSpec
open ZstdVerif.Stream

/-- invariant of every legal run: the output so far is exactly the first `produced` bytes of the specified content -/
theorem output_is_content_prefix (sp : DSpec) (s : DState) (cs : List DCall)
    (hinv : s.output = sp.content.take s.produced ∧ s.produced ≤ sp.content.length ∧ s.output.length = s.produced)
    (h : DLegalRun sp s cs) :
    (s.run cs).output = sp.content.take (s.run cs).produced ∧ (s.run cs).produced ≤ sp.content.length := by
  induction cs generalizing s with
  | nil => exact ⟨hinv.1, hinv.2.1⟩
  | cons c cs ih =>
    obtain ⟨hl, hrest⟩ := h
    obtain ⟨_, _, hp, hle, _⟩ := hl
    have hstep : (s.step c).output = sp.content.take (s.step c).produced ∧ (s.step c).produced ≤ sp.content.length ∧
        (s.step c).output.length = (s.step c).produced := by
      unfold DState.step
      simp only
      refine ⟨?_, hle, ?_⟩
      · have ht := List.take_add (l := sp.content) (i := s.produced) (j := c.produced.length)
        rw [ht, ← hp, hinv.1]
      · rw [List.length_append, hinv.2.2]
    exact ih (s.step c) hstep hrest

/-- **any segmentation = one-shot**: a legal history that has produced as many bytes as the content holds has produced
exactly the content single-call decoding yields — whatever the chunk sizes were -/
theorem any_segmentation_eq_oneShot (sp : DSpec) (cs : List DCall) (h : DLegalRun sp {} cs)
    (hdone : (({} : DState).run cs).produced = sp.content.length) : (({} : DState).run cs).output = sp.content := by
  have := output_is_content_prefix sp {} cs ⟨by simp, by simp, by simp⟩ h
  rw [this.1, hdone, List.take_length]

/-- **completion is reported exactly at frame ends**: in a legal history, a call returns 0 iff right after it the
consumed / produced totals sit on a frame boundary -/
theorem zero_iff_frameEnd (sp : DSpec) (s : DState) (c : DCall) (h : DLegal sp s c) :
    c.retZero = true ↔ (((s.step c).consumed, (s.step c).produced) ∈ sp.frameEnds ∧ (0 < c.consumed ∨ 0 < c.produced.length)) := h.2.2.2.2

example : DLegalRun ⟨[1, 2, 3], [(9, 3)]⟩ {} [⟨4, 2, 4, [1, 2], false⟩, ⟨5, 8, 5, [3], true⟩] := by
  simp [DLegalRun, DLegal, DState.step]

end ZstdVerif.StreamSpec
