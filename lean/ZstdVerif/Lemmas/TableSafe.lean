/-
C03 (decoding untrusted bytes is memory-safe), table side: the decoder model never indexes outside its entropy tables, whatever
bytes it is given.  Every table access of the model is written `t[i]!` (a default value where the C code would read out of bounds);
the theorems below show that the index is in range, so the default is never taken:
  1. `cell_closed`, `cellsOf_closed`, `fse_state_closed`, `buildSeqTable_closed_of_spread`, `default_tables_closed`,
     `rleSeqTable_closed`       FSE decoding tables are closed under the state update: the state never leaves the table
  2. `read_lt` / `peek_lt`      a bit-field read of `n` bits is `< 2^n` (also when it reads below the start of the stream)
  3. `decodeSeqs_states_inbounds` (checked twin `decodeSeqsChecked`), `decodeSeqs_from_stream_inbounds`
                                the three FSE states of ZSTD_decodeSequence stay inside their tables
  4. `huf_lookup_inbounds` (checked twins `decode1Checked`, `decode4Checked`), `huf_lookup_inbounds_readStats`
                                the Huffman lookup of HUF_decodeSymbolX1 stays inside the table
  5. `symbols_in_alphabet` (checked twin `buildSeqTableChecked`), `rle_symbol_in_alphabet`, `alphabet_sizes`
                                table symbols index the `base` / `bits` arrays inside their length
  6. `readNCount_normOK`        every header FSE_readNCount accepts is a normalised distribution, ≤ maxSV+1 symbols, 5 ≤ log ≤ 15
     `spread_ok_partial`        size and symbol range of the spreading, odd step, injective walk; the COUNT clause of `SpreadOK` for
                                arbitrary distributions is still open (stated in the doc comment of `spread_ok_partial`)
     `block_buildSeqTable_closed` ZSTD_buildSeqTable in its four modes returns closed tables (modulo that clause)
The FSE weight decoder `FSE.decompressWeights` (FSE_decompress_usingDTable_generic) performs the same step as (1): both initial
states are `read tableLog` values (`read_lt`) and every update is `cells[st].newState + read cells[st].nbBits` (`fse_state_closed`).
-/
import ZstdVerif.Lemmas.SeqRT
import ZstdVerif.Lemmas.HufRT
import ZstdVerif.Lemmas.ExecRT
namespace ZstdVerif.TableSafe
open ZstdVerif.Gen ZstdVerif.FSE

/-! ### 1. closed tables -/

/-- an FSE decoding table (`FSE_decode_t[]`, fse_decompress.c) of `2^L` cells is CLOSED: every cell reads at most `L` bits and
`newState + (any nbBits-bit value)` is again an index of the table -/
def CellsClosed (cells : Array Cell) (L : Nat) : Prop :=
  cells.size = 2 ^ L ∧ ∀ i, i < cells.size → (cells[i]!).nbBits ≤ L ∧ (cells[i]!).newState + 2 ^ (cells[i]!).nbBits ≤ 2 ^ L

instance (cells : Array Cell) (L : Nat) : Decidable (CellsClosed cells L) := by unfold CellsClosed; infer_instance

/-- a sequence decoding table (`ZSTD_seqSymbol[]`, zstd_decompress_block.c) of `2^L` cells is CLOSED: every cell reads at most `L`
state bits and `nextState + (any nbBits-bit value)` is again an index of the table -/
def SeqClosed (T : Array SeqCell) (L : Nat) : Prop :=
  T.size = 2 ^ L ∧ ∀ i, i < T.size → (T[i]!).nbBits ≤ L ∧ (T[i]!).nextState + 2 ^ (T[i]!).nbBits ≤ 2 ^ L

instance (T : Array SeqCell) (L : Nat) : Decidable (SeqClosed T L) := by unfold SeqClosed; infer_instance

/-- arithmetic of one cell: a `symbolNext` value `ns` in the interval `[c, 2c)` of a symbol of count `c ≤ 2^L` gives
`nbBits = L - highbit ns ≤ L` and `newState + 2^nbBits = ((ns + 1) << nbBits) - 2^L ≤ 2^L` -/
theorem cellAt_closed {L c ns : Nat} (s : Nat) (hcL : c ≤ 2 ^ L) (h1 : c ≤ ns) (h2 : ns < 2 * c) :
    (cellAt L s ns).nbBits ≤ L ∧ (cellAt L s ns).newState + 2 ^ (cellAt L s ns).nbBits ≤ 2 ^ L := by
  have h0 : ns ≠ 0 := by omega
  have l1 : 2 ^ Nat.log2 ns ≤ ns := Nat.log2_self_le h0
  have l2 : ns < 2 ^ (Nat.log2 ns + 1) := Nat.lt_log2_self
  simp only [cellAt, highbit, Nat.shiftLeft_eq, Nat.one_mul]
  generalize Nat.log2 ns = h at *
  have hL : h ≤ L := by
    have : 2 ^ h < 2 ^ (L + 1) := by rw [Nat.pow_succ]; omega
    have := (Nat.pow_lt_pow_iff_right (by omega : 1 < 2)).1 this
    omega
  have e : 2 ^ (h + 1) * 2 ^ (L - h) = 2 * 2 ^ L := by
    rw [← Nat.pow_add, show h + 1 + (L - h) = L + 1 by omega, Nat.pow_succ]; omega
  have a : (ns + 1) * 2 ^ (L - h) ≤ 2 ^ (h + 1) * 2 ^ (L - h) := Nat.mul_le_mul_right _ (by omega)
  rw [e, Nat.add_mul, Nat.one_mul] at a
  have e2 : 2 ^ h * 2 ^ (L - h) = 2 ^ L := by rw [← Nat.pow_add]; congr 1; omega
  have b : 2 ^ h * 2 ^ (L - h) ≤ ns * 2 ^ (L - h) := Nat.mul_le_mul_right _ l1
  rw [e2] at b
  exact ⟨by omega, by omega⟩

/-- **cell_closed** (FSE_buildDTable_internal, fse_decompress.c / ZSTD_buildFSETable_body, zstd_decompress_block.c): for a normalised
distribution and any spreading that respects it, the table has `2^L` cells and every cell `c` satisfies `c.nbBits ≤ L`,
`c.newState + 2^c.nbBits ≤ 2^L` and `c.sym < norm.size`. -/
theorem cell_closed {syms : Array Nat} {norm : Array Int} {L : Nat} (hN : NormOK norm L) (hS : SpreadOK syms norm L) :
    (cellsOf syms norm L).size = 2 ^ L ∧ ∀ u, u < 2 ^ L →
      ((cellsOf syms norm L)[u]!).nbBits ≤ L ∧
      ((cellsOf syms norm L)[u]!).newState + 2 ^ ((cellsOf syms norm L)[u]!).nbBits ≤ 2 ^ L ∧
      ((cellsOf syms norm L)[u]!).sym < norm.size := by
  refine ⟨by rw [cellsOf_size, hS.1], fun u hu => ?_⟩
  have hu2 : u < syms.size := by rw [hS.1]; exact hu
  have hs : syms[u]! < norm.size := hS.2.1 u hu2
  have ok := listOK_of hN hS
  have hr := (idx_lt ok (u := u) (by simpa using hu2)).1
  have e : syms.toList[u]! = syms[u]! := by simp [hu2]
  rw [e] at hr
  have hcL := cnt_le hN hs
  rw [cellsOf_get hu2 hs]
  obtain ⟨a, b⟩ := cellAt_closed (L := L) (c := cnt norm syms[u]!) (ns := cnt norm syms[u]! + rank syms.toList u) syms[u]!
    hcL (by omega) (by omega)
  exact ⟨a, b, hs⟩

/-- the table of `cell_closed` is closed in the sense of `CellsClosed` -/
theorem cellsOf_closed {syms : Array Nat} {norm : Array Int} {L : Nat} (hN : NormOK norm L) (hS : SpreadOK syms norm L) :
    CellsClosed (cellsOf syms norm L) L := by
  obtain ⟨h1, h2⟩ := cell_closed hN hS
  exact ⟨h1, fun i hi => ⟨(h2 i (by omega)).1, (h2 i (by omega)).2.1⟩⟩

/-- **the FSE state never leaves the table** (FSE_decodeSymbol / FSE_updateState, fse.h; ZSTD_updateFseStateWithDInfo,
zstd_decompress_block.c): in a closed table, from ANY state `st` inside the table and ANY `bits < 2^nbBits` read from the stream
the next state `newState + bits` is inside the table -/
theorem fse_state_closed {cells : Array Cell} {L : Nat} (h : CellsClosed cells L) (st bits : Nat) (hst : st < 2 ^ L)
    (hb : bits < 2 ^ (cells[st]!).nbBits) : (cells[st]!).newState + bits < cells.size := by
  have := (h.2 st (by rw [h.1]; exact hst)).2
  rw [h.1]; omega

/-- the same for a sequence table (ZSTD_updateFseStateWithDInfo, zstd_decompress_block.c: `nextState + BIT_readBits(nbBits)`) -/
theorem seq_state_closed {T : Array SeqCell} {L : Nat} (h : SeqClosed T L) (st bits : Nat) (hst : st < 2 ^ L)
    (hb : bits < 2 ^ (T[st]!).nbBits) : (T[st]!).nextState + bits < T.size := by
  have := (h.2 st (by rw [h.1]; exact hst)).2
  rw [h.1]; omega

/-- mapping the cells to sequence cells (ZSTD_buildFSETable_body writes `nextState`, `nbBits` from the FSE cell and
`nbAdditionalBits`, `baseValue` from the symbol) keeps the table closed -/
theorem seqClosed_map {cells : Array Cell} {L : Nat} (h : CellsClosed cells L) (base bits : List Nat) :
    SeqClosed (cells.map (SeqRT.seqCellOf base bits)) L := by
  refine ⟨by rw [Array.size_map, h.1], fun i hi => ?_⟩
  rw [Array.size_map] at hi
  rw [SeqRT.getBang_map _ _ _ hi]
  exact h.2 i hi

/-- **cell_closed for ZSTD_buildFSETable** (zstd_decompress_block.c), any spreading that respects the distribution -/
theorem buildSeqTable_closed_of_spread {norm : Array Int} {L : Nat} (hN : NormOK norm L) (hS : SpreadOK (spread norm L) norm L)
    (base bits : List Nat) : SeqClosed (FSE.buildSeqTable norm L base bits) L := by
  rw [SeqRT.buildSeqTable_eq]
  exact seqClosed_map (cellsOf_closed hN hS) base bits

/-- the three predefined tables (`LL_defaultDTable`, `OF_defaultDTable`, `ML_defaultDTable`, zstd_decompress_block.c) are closed -/
theorem default_tables_closed :
    SeqClosed LL_defaultDTable.toArray LL_DEFAULTNORMLOG ∧ SeqClosed OF_defaultDTable.toArray OF_DEFAULTNORMLOG ∧
      SeqClosed ML_defaultDTable.toArray ML_DEFAULTNORMLOG := by
  decide +kernel

/-- ZSTD_buildSeqTable_rle (zstd_decompress_block.c): one cell, `nbBits = 0`, `nextState = 0` - closed with `L = 0` -/
theorem rleSeqTable_closed (sym : Nat) (base bits : List Nat) : SeqClosed (FSE.rleSeqTable sym base bits) 0 := by
  refine ⟨rfl, fun i hi => ?_⟩
  have : i = 0 := by simp [FSE.rleSeqTable] at hi; omega
  subst this
  simp [FSE.rleSeqTable]

/-! ### 2. bit-field reads -/

/-- the masked field of the bit container (`BitR.field`: `(w >> sh) & ((1 << n) - 1)`) is below `2^n` -/
theorem field_lt (src : Bytes) (start lo n : Nat) : BitR.field src start lo n < 2 ^ n := by
  unfold BitR.field
  simp only [Nat.shiftLeft_eq, Nat.one_mul, Nat.and_two_pow_sub_one_eq_mod]
  exact Nat.mod_lt _ (Nat.two_pow_pos n)

/-- **read_lt** (BIT_readBits / BIT_readBitsFast, bitstream.h): the value of an `n`-bit read is `< 2^n`, for every `n` and every reader
state - also in the over-read branch (fewer than `n` bits left: the `left` remaining bits shifted left by `n - left`, i.e. zero padded
below the start of the stream, exactly the top `n` bits of the C bit container filled with zeros) -/
theorem read_lt (r : BitR) (n : Nat) : (r.read n).1 < 2 ^ n := by
  unfold BitR.read
  split
  · exact field_lt _ _ _ _
  · next h =>
    have := field_lt r.src r.start 0 r.left
    simp only [Nat.shiftLeft_eq]
    have e : 2 ^ n = 2 ^ r.left * 2 ^ (n - r.left) := by rw [← Nat.pow_add]; congr 1; omega
    rw [e]
    exact Nat.mul_lt_mul_of_lt_of_le this (Nat.le_refl _) (Nat.two_pow_pos _)

/-- **peek_lt** (BIT_lookBitsFast, bitstream.h): the value of an `n`-bit look-ahead is `< 2^n`, for every `n` and every reader state -/
theorem peek_lt (r : BitR) (n : Nat) : r.peek n < 2 ^ n := by
  have := read_lt r n
  unfold BitR.read at this
  unfold BitR.peek
  split <;> rename_i h
  · rw [if_pos h] at this; exact this
  · rw [if_neg h] at this; exact this

/-! ### 3. the three FSE states of the sequence decoder -/

open ZstdVerif.Block (Seq SeqDec decodeSeqs)

/-- CHECKED TWIN of `Block.decodeSeqs` (the loop of ZSTD_decompressSequences_body / ZSTD_decodeSequence, zstd_decompress_block.c): the same
text, except that the three table lookups `llT[sLL]!`, `ofT[sOF]!`, `mlT[sML]!` are `llT[sLL]?`, `ofT[sOF]?`, `mlT[sML]?` and the whole
function returns `none` as soon as one of them misses (where the C code would read outside `ZSTD_seqSymbol[]`) -/
def decodeSeqsChecked (llT ofT mlT : Array SeqCell) (nbSeq : Nat) (sLL0 sOF0 sML0 : Nat) (r0 : BitR) (rep0 : Array Nat) :
    Option SeqDec := do
  let mut sLL := sLL0
  let mut sOF := sOF0
  let mut sML := sML0
  let mut r := r0
  let mut rep := rep0
  let mut seqs : Array Seq := Array.mkEmpty nbSeq
  for k in [0:nbSeq] do
    let cLL ← llT[sLL]?
    let cOF ← ofT[sOF]?
    let cML ← mlT[sML]?
    let ofBits := cOF.nbAddBits
    let ll0 := if cLL.baseValue == 0 then 1 else 0
    let mut offset := 0
    let mut ofValue := 0
    if ofBits > 1 then
      let (x, r') := r.read ofBits
      r := r'
      ofValue := cOF.baseValue + x + 3
    else if ofBits == 0 then
      ofValue := cOF.baseValue + 1
    else
      let (x, r') := r.read 1
      r := r'
      ofValue := cOF.baseValue + x + 1
    let (off', rep') := Rep.resolve ⟨rep[0]!, rep[1]!, rep[2]!⟩ ofValue ll0
    offset := off'
    rep := #[rep'.r0, rep'.r1, rep'.r2]
    let mut mlen := cML.baseValue
    if cML.nbAddBits > 0 then
      let (x, r') := r.read cML.nbAddBits
      r := r'
      mlen := mlen + x
    let mut llen := cLL.baseValue
    if cLL.nbAddBits > 0 then
      let (x, r') := r.read cLL.nbAddBits
      r := r'
      llen := llen + x
    if k + 1 != nbSeq then
      let (x, r') := r.read cLL.nbBits
      sLL := cLL.nextState + x
      let (y, r'') := r'.read cML.nbBits
      sML := cML.nextState + y
      let (z, r''') := r''.read cOF.nbBits
      sOF := cOF.nextState + z
      r := r'''
    seqs := seqs.push { ll := llen, ml := mlen, offset := offset, ofValue := ofValue }
  return { seqs := seqs, r := r, rep := rep }

open ZstdVerif.SeqRT (LoopSt seqStep)

/-- a loop in `Option` whose body, on the states of an invariant `P`, never misses and yields what the pure step `F` computes, returns
the left fold of `F` -/
theorem forIn_list_checked {α β : Type} (P : β → Prop) (F : α → β → β) (l : List α) (g : α → β → Option (ForInStep β))
    (init : β) (h0 : P init) (hg : ∀ a b, P b → g a b = some (ForInStep.yield (F a b)) ∧ P (F a b)) :
    forIn l init g = some (l.foldl (fun b a => F a b) init) ∧ P (l.foldl (fun b a => F a b) init) := by
  induction l generalizing init with
  | nil => exact ⟨rfl, h0⟩
  | cons a as ih =>
    obtain ⟨e, hp⟩ := hg a init h0
    rw [List.forIn_cons, e, List.foldl_cons]
    exact ih _ hp

/-- the three FSE states are inside their tables -/
def StatesIn (llLog ofLog mlLog : Nat) (s : LoopSt) : Prop := s.1 < 2 ^ llLog ∧ s.2.1 < 2 ^ ofLog ∧ s.2.2.1 < 2 ^ mlLog

/-- one ZSTD_decodeSequence keeps the three states inside closed tables, whatever the bit reader returns -/
theorem seqStep_statesIn {llT ofT mlT : Array SeqCell} {llLog ofLog mlLog : Nat} (hLL : SeqClosed llT llLog)
    (hOF : SeqClosed ofT ofLog) (hML : SeqClosed mlT mlLog) (isLast : Bool) (s : LoopSt) (h : StatesIn llLog ofLog mlLog s) :
    StatesIn llLog ofLog mlLog (seqStep llT ofT mlT isLast s) := by
  obtain ⟨h1, h2, h3⟩ := h
  unfold seqStep
  cases isLast
  · simp only [Bool.false_eq_true, if_false]
    refine ⟨?_, ?_, ?_⟩
    · rw [← hLL.1]; exact seq_state_closed hLL s.1 _ h1 (read_lt _ _)
    · rw [← hOF.1]; exact seq_state_closed hOF s.2.1 _ h2 (read_lt _ _)
    · rw [← hML.1]; exact seq_state_closed hML s.2.2.1 _ h3 (read_lt _ _)
  · exact ⟨h1, h2, h3⟩

/-- **decodeSeqs_states_inbounds** (ZSTD_decompressSequences_body / ZSTD_decodeSequence / ZSTD_updateFseStateWithDInfo,
zstd_decompress_block.c): with three closed tables of `2^llLog`, `2^ofLog`, `2^mlLog` cells and initial states inside them, the
checked twin never misses - in every iteration the three indices `sLL`, `sOF`, `sML` are inside `llT`, `ofT`, `mlT` - and computes
exactly what `Block.decodeSeqs` computes; for EVERY reader state `r0` (any bytes, any position, over-read or not), every `nbSeq`
and every repeat-offset history. -/
theorem decodeSeqs_states_inbounds (llT ofT mlT : Array SeqCell) (llLog ofLog mlLog : Nat) (hLL : SeqClosed llT llLog)
    (hOF : SeqClosed ofT ofLog) (hML : SeqClosed mlT mlLog) (nbSeq sLL0 sOF0 sML0 : Nat) (r0 : BitR) (rep0 : Array Nat)
    (h1 : sLL0 < 2 ^ llLog) (h2 : sOF0 < 2 ^ ofLog) (h3 : sML0 < 2 ^ mlLog) :
    decodeSeqsChecked llT ofT mlT nbSeq sLL0 sOF0 sML0 r0 rep0 = some (decodeSeqs llT ofT mlT nbSeq sLL0 sOF0 sML0 r0 rep0) := by
  rw [SeqRT.decodeSeqs_eq_fold]
  unfold decodeSeqsChecked
  simp only [bind, pure, Std.Legacy.Range.forIn_eq_forIn_range']
  rw [(forIn_list_checked (StatesIn llLog ofLog mlLog) (fun k (b : LoopSt) => seqStep llT ofT mlT (k + 1 == nbSeq) b) _ _ _
    ⟨h1, h2, h3⟩ ?_).1]
  · simp [Std.Legacy.Range.size]
  · intro k s hs
    refine ⟨?_, seqStep_statesIn hLL hOF hML _ s hs⟩
    obtain ⟨sLL, sOF, sML, r, rep, seqs⟩ := s
    obtain ⟨i1, i2, i3⟩ := hs
    simp only [] at i1 i2 i3
    have e1 : llT[sLL]? = some llT[sLL]! := by simp [hLL.1, i1]
    have e2 : ofT[sOF]? = some ofT[sOF]! := by simp [hOF.1, i2]
    have e3 : mlT[sML]? = some mlT[sML]! := by simp [hML.1, i3]
    unfold seqStep SeqRT.ofValueOf
    dsimp only
    rw [e1, e2, e3]
    simp only [Option.bind_some]
    generalize (ofT[sOF]!).nbAddBits = ob
    generalize (mlT[sML]!).nbAddBits = mb
    generalize (llT[sLL]!).nbAddBits = lb
    by_cases hl : k + 1 = nbSeq
    all_goals rcases ob with _ | _ | ob
    all_goals rcases mb with _ | mb
    all_goals rcases lb with _ | lb
    all_goals simp [hl, SeqRT.read_zero]

/-! ### 4. the Huffman lookup -/

open ZstdVerif.Huf ZstdVerif.HufRT

/-- CHECKED TWIN of `Huf.decode1` (HUF_decompress1X1_usingDTable_internal / HUF_decodeSymbolX1, huf_decompress.c): the same text in the
monad `ExceptT Err Option` (= `Option (R _)`), except that the table lookup `t.cells[idx]!` is `t.cells[idx]?` and the whole function
returns `none` when it misses (where the C code would read outside `HUF_DEltX1[]`) -/
def decode1Checked (t : Table) (src : Bytes) (start len n : Nat) (out : ByteArray) (fastPathPossible : Bool := false) :
    ExceptT Err Option ByteArray := do
  let mut r ← match BitR.init src start len with
    | .ok r => pure r
    | .error _ => throw (.corruptionAt "Huf:73")
  let mut o := out
  let mut overEarly := false
  for i in [0:n] do
    let idx := r.peek t.log
    let (sym, nb) ← (t.cells[idx]? : Option (Nat × Nat))
    r := r.skip nb
    if r.over && i + 1 < n then overEarly := true
    o := o.push (UInt8.ofNat sym)
  if fastPathPossible && (r.over || r.left != 0) then throw (.lax "4-stream huffman literals: stream end not validated by the fast decoding loop")
  if overEarly then throw (.corruptionAt "Huf:overread")
  if r.over then throw (.lax "last huffman symbol reads past the stream start (accepted by the X2 decoder only)")
  if r.left != 0 then
    if r.left ≤ Gen.HUF_TABLELOG_MAX then throw (.lax "huffman stream ends with spare bits (accepted by the X2 decoder only)")
    else throw (.corruptionAt "Huf:leftover")
  return o

/-- a computation of the unchecked monad seen in the checked one: it never misses -/
def lift {α : Type} (x : R α) : ExceptT Err Option α := ExceptT.mk (some x)

/-- `lift` is a monad morphism (pure / throw / bind / if / for) -/
theorem lift_pure {α : Type} (a : α) : lift (pure a : R α) = pure a := rfl

theorem lift_throw {α : Type} (e : Err) : lift (throw e : R α) = throw e := rfl

theorem lift_bind {α β : Type} (x : R α) (f : α → R β) : lift (x >>= f) = lift x >>= fun a => lift (f a) := by
  cases x <;> rfl

theorem lift_ite {α : Type} (c : Prop) [Decidable c] (a b : R α) : lift (if c then a else b) = if c then lift a else lift b := by
  split <;> rfl

theorem lift_forIn_list {α β : Type} (l : List α) (init : β) (f : α → β → R (ForInStep β)) :
    lift (forIn l init f) = forIn l init (fun a b => lift (f a b)) := by
  induction l generalizing init with
  | nil => rfl
  | cons a as ih =>
    rw [List.forIn_cons, List.forIn_cons, lift_bind]
    congr 1
    funext s
    cases s with
    | done b => rfl
    | yield b => exact ih b

/-- a lookup that hits, in the checked monad -/
theorem lookup_bind {α β : Type} [Inhabited α] (a : Array α) (i : Nat) (h : i < a.size) (k : α → ExceptT Err Option β) :
    ((liftM a[i]? : ExceptT Err Option α) >>= k) = k a[i]! := by
  have e : a[i]? = some a[i]! := by simp [h]
  rw [e]
  rfl

/-- **the index of the Huffman lookup is inside the table** (HUF_decodeSymbolX1, huf_decompress.c: `dt[BIT_lookBitsFast(Dstream, dtLog)]`):
a table of `2^log` cells is indexed by a `log`-bit look-ahead, whatever the stream holds and wherever the reader stands -/
theorem huf_index_lt (t : Table) (ht : t.cells.size = 2 ^ t.log) (r : BitR) : r.peek t.log < t.cells.size := by
  rw [ht]; exact peek_lt r t.log

/-- **huf_lookup_inbounds** (HUF_decompress1X1_usingDTable_internal_body / HUF_decodeSymbolX1, huf_decompress.c): on a table of `2^log`
cells the checked twin never misses - every lookup `t.cells[r.peek t.log]` is inside the table - and computes exactly what
`Huf.decode1` computes (same bytes or same error), for EVERY stream `src[start, start+len)` and every symbol count `n`.
(`lift x = ExceptT.mk (some x)`: the statement reads `(decode1Checked …).run = some (decode1 …)`, see `huf_lookup_inbounds_run`.) -/
theorem huf_lookup_inbounds (t : Table) (ht : t.cells.size = 2 ^ t.log) (src : Bytes) (start len n : Nat) (out : ByteArray)
    (fp : Bool) : decode1Checked t src start len n out fp = lift (decode1 t src start len n out fp) := by
  unfold decode1Checked decode1
  generalize BitR.init src start len = ini
  cases ini with
  | error e => rfl
  | ok r0 =>
    simp only [Std.Legacy.Range.forIn_eq_forIn_range', lift_bind, lift_forIn_list, lift_ite, lift_pure, lift_throw]
    simp only [lookup_bind _ _ (huf_index_lt t ht _)]

/-- CHECKED TWIN of `Huf.decode4` (HUF_decompress4X1_usingDTable_internal, huf_decompress.c): the same text over `decode1Checked` -/
def decode4Checked (t : Table) (src : Bytes) (start len n : Nat) (out : ByteArray) : ExceptT Err Option ByteArray := do
  if len < 10 then throw (.corruptionAt "Huf:85")
  if n < 6 then throw (.corruptionAt "Huf:86")
  let l1 := src.le16 start
  let l2 := src.le16 (start + 2)
  let l3 := src.le16 (start + 4)
  if 6 + l1 + l2 + l3 > len then throw (.corruptionAt "Huf:90")
  let l4 := len - (6 + l1 + l2 + l3)
  let seg := (n + 3) / 4
  if 3 * seg > n then throw (.corruptionAt "Huf:93")
  let s1 := start + 6
  let fast := l1 ≥ 8 && l2 ≥ 8 && l3 ≥ 8 && l4 ≥ 8
  let o1 ← decode1Checked t src s1 l1 seg out fast
  let o2 ← decode1Checked t src (s1 + l1) l2 seg o1 fast
  let o3 ← decode1Checked t src (s1 + l1 + l2) l3 seg o2 fast
  decode1Checked t src (s1 + l1 + l2 + l3) l4 (n - 3 * seg) o3 fast

/-- **huf_lookup_inbounds**, four streams (HUF_decompress4X1_usingDTable_internal, huf_decompress.c) -/
theorem huf_lookup_inbounds4 (t : Table) (ht : t.cells.size = 2 ^ t.log) (src : Bytes) (start len n : Nat) (out : ByteArray) :
    decode4Checked t src start len n out = lift (decode4 t src start len n out) := by
  unfold decode4Checked decode4
  simp only [lift_bind, lift_ite, lift_throw, huf_lookup_inbounds t ht]

/-- `huf_lookup_inbounds` / `huf_lookup_inbounds4` in `Option (R _)` form: `some` = no lookup missed -/
theorem huf_lookup_inbounds_run (t : Table) (ht : t.cells.size = 2 ^ t.log) (src : Bytes) (start len n : Nat) (out : ByteArray)
    (fp : Bool) :
    (decode1Checked t src start len n out fp).run = some (decode1 t src start len n out fp) ∧
      (decode4Checked t src start len n out).run = some (decode4 t src start len n out) := by
  rw [huf_lookup_inbounds t ht, huf_lookup_inbounds4 t ht]
  exact ⟨rfl, rfl⟩

/-- HUF_readDTableX1_wksp (huf_decompress.c): the table `Huf.buildTable` returns always has exactly `1 << tableLog` cells -/
theorem buildTable_size (st : Stats) : (buildTable st).cells.size = 2 ^ (buildTable st).log := by
  simp only [buildTable, Nat.shiftLeft_eq, Nat.one_mul, List.size_toArray, List.length_take, List.length_append,
    List.length_replicate]
  omega

/-- **huf_lookup_inbounds for every table the decoder builds from untrusted bytes** (HUF_readStats_body, entropy_common.c →
HUF_readDTableX1_wksp → HUF_decompress1X1 / 4X1_usingDTable_internal, huf_decompress.c): whatever header bytes `readStats` accepts,
* the weights satisfy `WeightsOK` and the ranks fill the `2^tableLog` cells exactly: no cell is left unwritten and no write of the
  table-filling loop lands outside the table (`Huf.buildTable` drops nothing);
* decoding ANY stream `src2[start2, start2+len)` with that table never looks up outside it (1 stream and 4 streams). -/
theorem huf_lookup_inbounds_readStats (src : Bytes) (start n hmax : Nat) (st : Stats) (h : readStats src start n hmax = .ok st) :
    WeightsOK st.weights st.tableLog ∧
    (tableCells st.weights.toList st.tableLog).length = 2 ^ st.tableLog ∧
    (buildTable st).cells = (tableCells st.weights.toList st.tableLog).toArray ∧
    (∀ (src2 : Bytes) (start2 len k : Nat) (out : ByteArray) (fp : Bool),
      decode1Checked (buildTable st) src2 start2 len k out fp = lift (decode1 (buildTable st) src2 start2 len k out fp)) ∧
    (∀ (src2 : Bytes) (start2 len k : Nat) (out : ByteArray),
      decode4Checked (buildTable st) src2 start2 len k out = lift (decode4 (buildTable st) src2 start2 len k out)) := by
  have ok := readStats_weightsOK src start n hmax st h
  exact ⟨ok, tableCells_length ok, buildTable_cells ok st.used,
    fun _ _ _ _ _ _ => huf_lookup_inbounds _ (buildTable_size st) _ _ _ _ _ _,
    fun _ _ _ _ _ => huf_lookup_inbounds4 _ (buildTable_size st) _ _ _ _ _⟩

/-! ### 5. symbols index `base` / `bits` inside their length -/

/-- CHECKED TWIN of `FSE.buildSeqTable` (ZSTD_buildFSETable_body, zstd_decompress_block.c: `nbAdditionalBits[symbol]`, `baseValue[symbol]`):
the same cells, except that the two column lookups are `bits[c.sym]?` / `base[c.sym]?` and the whole function returns `none` when one
of them misses -/
def buildSeqTableChecked (norm : Array Int) (tableLog : Nat) (base bits : List Nat) : Option (Array SeqCell) :=
  (buildCells norm tableLog).mapM fun c => do
    let nbAdd ← bits[c.sym]?
    let bv ← base[c.sym]?
    pure { nextState := c.newState, nbAddBits := nbAdd, nbBits := c.nbBits, baseValue := bv }

/-- CHECKED TWIN of `FSE.rleSeqTable` (ZSTD_buildSeqTable_rle, zstd_decompress_block.c) -/
def rleSeqTableChecked (sym : Nat) (base bits : List Nat) : Option (Array SeqCell) := do
  let nbAdd ← bits[sym]?
  let bv ← base[sym]?
  pure #[{ nextState := 0, nbAddBits := nbAdd, nbBits := 0, baseValue := bv }]

/-- `mapM` in `Option` over a function that never misses -/
theorem list_mapM_some {α β : Type} (f : α → Option β) (g : α → β) (l : List α) (h : ∀ x ∈ l, f x = some (g x)) :
    l.mapM f = some (l.map g) := by
  induction l with
  | nil => rfl
  | cons a t ih =>
    rw [List.mapM_cons, h a (by simp), ih (fun x hx => h x (by simp [hx]))]
    rfl

/-- **symbols_in_alphabet** (ZSTD_buildFSETable_body, zstd_decompress_block.c): every cell of the table built for a normalised
distribution carries a symbol `< norm.size`; when the distribution has at most as many symbols as the `base` / `bits` columns
have entries, no column lookup misses -/
theorem symbols_in_alphabet {norm : Array Int} {L : Nat} (hN : NormOK norm L) (hS : SpreadOK (spread norm L) norm L)
    (base bits : List Nat) (hb : norm.size ≤ base.length) (hbi : norm.size ≤ bits.length) :
    (∀ u, u < (buildCells norm L).size → ((buildCells norm L)[u]!).sym < norm.size) ∧
      buildSeqTableChecked norm L base bits = some (FSE.buildSeqTable norm L base bits) := by
  obtain ⟨hsz, hc⟩ := cell_closed hN hS
  have hsym : ∀ u, u < (buildCells norm L).size → ((buildCells norm L)[u]!).sym < norm.size := by
    intro u hu
    unfold buildCells at hu ⊢
    exact (hc u (by omega)).2.2
  refine ⟨hsym, ?_⟩
  unfold buildSeqTableChecked FSE.buildSeqTable
  rw [Array.mapM_eq_mapM_toList, list_mapM_some _ (SeqRT.seqCellOf base bits)]
  · show some (List.map (SeqRT.seqCellOf base bits) _).toArray = some (Array.map (SeqRT.seqCellOf base bits) _)
    rw [← Array.toList_map, Array.toArray_toList]
  · intro c hc
    obtain ⟨u, hu, rfl⟩ := List.getElem_of_mem hc
    have hu2 : u < (buildCells norm L).size := by simpa using hu
    have := hsym u hu2
    simp only [getElem!_pos, hu2, Array.getElem_toList] at this ⊢
    have e1 : bits[(buildCells norm L)[u].sym]? = some (bits.getD (buildCells norm L)[u].sym 0) := by
      rw [List.getD_eq_getElem?_getD, List.getElem?_eq_getElem (by omega)]; rfl
    have e2 : base[(buildCells norm L)[u].sym]? = some (base.getD (buildCells norm L)[u].sym 0) := by
      rw [List.getD_eq_getElem?_getD, List.getElem?_eq_getElem (by omega)]; rfl
    rw [e1, e2]
    rfl

/-- the three sequence alphabets: `LL_base` / `LL_bits` have `MaxLL + 1` entries, `OF_base` / `OF_bits` `MaxOff + 1`, `ML_base` / `ML_bits`
`MaxML + 1` - the `maxSymbolValue + 1` that ZSTD_buildSeqTable passes to FSE_readNCount (which returns at most that many counts:
`readNCount_size_le` below) -/
theorem alphabet_sizes :
    LL_base.length = MaxLL + 1 ∧ LL_bits.length = MaxLL + 1 ∧ OF_base.length = MaxOff + 1 ∧ OF_bits.length = MaxOff + 1 ∧
      ML_base.length = MaxML + 1 ∧ ML_bits.length = MaxML + 1 := by decide

/-- ZSTD_buildSeqTable, `set_rle` (zstd_decompress_block.c: `RETURN_ERROR_IF((*(const BYTE*)src) > max, corruption_detected)`): a symbol
that passes the `sym > maxSym` check of `Block.buildSeqTable` indexes `base` / `bits` inside their length -/
theorem rle_symbol_in_alphabet (sym maxSym : Nat) (base bits : List Nat) (h : ¬ sym > maxSym) (hb : maxSym + 1 ≤ base.length)
    (hbi : maxSym + 1 ≤ bits.length) : rleSeqTableChecked sym base bits = some (FSE.rleSeqTable sym base bits) := by
  unfold rleSeqTableChecked FSE.rleSeqTable
  rw [List.getD_eq_getElem?_getD, List.getD_eq_getElem?_getD, List.getElem?_eq_getElem (show sym < bits.length by omega),
    List.getElem?_eq_getElem (show sym < base.length by omega)]
  rfl

/-! ### 6a. FSE_readNCount returns a normalised distribution -/

/-- the count field of FSE_readNCount_body is at least -1 as long as `threshold ≤ remaining` -/
theorem countField_ge (s : RS) (h : s.threshold ≤ s.remaining) : -1 ≤ (countField s).1 := by
  unfold countField
  simp only [Id.run, pure]
  repeat' split
  all_goals simp only []
  all_goals omega

/-- what one `readCount` does to the fields the normalisation argument looks at -/
theorem readCount_spec (b : Bytes) (iend m : Nat) (s : RS) :
    (readCount b iend m s).norm = (if s.charnum < s.norm.size then s.norm.set! s.charnum (countField s).1 else s.norm) ∧
    (readCount b iend m s).remaining =
      (if (countField s).1 ≥ 0 then s.remaining - (countField s).1 else s.remaining + (countField s).1) ∧
    (readCount b iend m s).charnum = s.charnum + 1 ∧
    ((readCount b iend m s).done = false → (readCount b iend m s).threshold ≤ (readCount b iend m s).remaining ∧
      s.charnum + 1 < m) := by
  unfold readCount
  simp only [Id.run, pure]
  generalize countField s = cf
  generalize (if cf.1 ≥ 0 then s.remaining - cf.1 else s.remaining + cf.1) = rem
  by_cases h1 : rem < s.threshold <;> by_cases h2 : rem ≤ 1 <;> by_cases h3 : s.charnum + 1 ≥ m
  all_goals simp [h1, h2, h3]
  · intro _
    refine ⟨?_, by omega⟩
    have h0 : rem.toNat ≠ 0 := by omega
    have h5 : ((2 ^ rem.toNat.log2 : Nat) : Int) ≤ (rem.toNat : Int) := Int.ofNat_le.2 (Nat.log2_self_le h0)
    rw [Int.natCast_pow] at h5
    simp only [highbit, Int.shiftLeft_eq, Int.one_mul]
    have h6 : ((2 : Nat) : Int) = 2 := rfl
    rw [h6] at h5
    omega
  · intro _; omega
  · intro _; omega

/-- what `skipZeros` does to the same fields: only `charnum` moves, forward -/
theorem skipZeros_spec (b : Bytes) (iend m : Nat) (s : RS) :
    (skipZeros b iend m s).norm = s.norm ∧ (skipZeros b iend m s).remaining = s.remaining ∧
    (skipZeros b iend m s).threshold = s.threshold ∧ s.charnum ≤ (skipZeros b iend m s).charnum ∧
    ((skipZeros b iend m s).done = false → s.done = false ∧ (skipZeros b iend m s).charnum < m) := by
  unfold skipZeros
  simp only [Id.run, bind, pure]
  generalize hloop : forIn (m := Id) (ρ := Std.Legacy.Range) _ _ _ = L
  have hL : s.charnum ≤ L.2.2.2.2 := by
    rw [← hloop]
    refine Block.forIn_range_inv_id (fun st : Nat × Nat × Int × Nat × Nat => s.charnum ≤ st.2.2.2.2) _ _ _ (Nat.le_refl _) ?_
    intro k st hst
    repeat' split
    all_goals simp only [Frame.stepVal]
    all_goals omega
  split
  · refine ⟨rfl, rfl, rfl, ?_, ?_⟩
    · simp only []; omega
    · simp
  · refine ⟨rfl, rfl, rfl, ?_, ?_⟩
    · simp only []; omega
    · simp only []; intro h; exact ⟨h, by omega⟩

/-- a slot holding 0 owns no cell -/
theorem cnt_of_zero {norm : Array Int} {i : Nat} (h : norm[i]! = 0) : cnt norm i = 0 := by
  simp [cnt, h]

/-- booking a count in a slot that held 0 adds its cells to the total -/
theorem startOf_set (norm : Array Int) (i : Nat) (v : Int) (n : Nat) (hi : i < norm.size) (h0 : norm[i]! = 0) :
    startOf (norm.set! i v) n = startOf norm n + (if i < n then (if v == -1 then 1 else v.toNat) else 0) := by
  induction n with
  | zero => simp [startOf]
  | succ n ih =>
    rw [startOf_succ, startOf_succ, ih]
    by_cases e : i = n
    · subst e
      have : cnt (norm.set! i v) i = if v == -1 then 1 else v.toNat := by
        unfold cnt; rw [getBang_set_eq _ _ _ hi]
      rw [this, cnt_of_zero h0]
      simp
    · have : cnt (norm.set! i v) n = cnt norm n := by
        unfold cnt; rw [getBang_set_ne _ _ _ _ e]
      rw [this]
      by_cases h : i < n
      · simp [h, show i < n + 1 by omega]; omega
      · simp [h, show ¬ i < n + 1 by omega]

/-- `startOf · n` looks at the slots below `n` only -/
theorem startOf_congr (a b : Array Int) (n : Nat) (h : ∀ i, i < n → a[i]! = b[i]!) : startOf a n = startOf b n := by
  induction n with
  | zero => rfl
  | succ n ih =>
    rw [startOf_succ, startOf_succ, ih (fun i hi => h i (by omega))]
    unfold cnt; rw [h n (by omega)]

/-- slots holding 0 add nothing -/
theorem startOf_zero_tail (a : Array Int) (c n : Nat) (hcn : c ≤ n) (h : ∀ i, c ≤ i → i < n → a[i]! = 0) :
    startOf a n = startOf a c := by
  induction n with
  | zero => have : c = 0 := by omega
            subst this; rfl
  | succ n ih =>
    by_cases e : c = n + 1
    · subst e; rfl
    · rw [startOf_succ, ih (by omega) (fun i h1 h2 => h i h1 (by omega)), cnt_of_zero (h n (by omega) (by omega))]
      rfl

/-- loop invariant of FSE_readNCount_body: the counts booked so far are `≥ -1`, the slots from `charnum` on are still 0, the cells of
the booked counts and `remaining` add up to `2^tableLog + 1`; while the loop is live `threshold ≤ remaining` and `charnum` is a
valid slot -/
structure NCInv (m tl : Nat) (s : RS) : Prop where
  size : s.norm.size = m
  ge : ∀ i, i < m → -1 ≤ s.norm[i]!
  zero : ∀ i, s.charnum ≤ i → i < m → s.norm[i]! = 0
  sum : (startOf s.norm m : Int) + s.remaining = 2 ^ tl + 1
  live : s.done = false → s.threshold ≤ s.remaining ∧ s.charnum < m

/-- `skipZeros` keeps the invariant -/
theorem skipZeros_inv {b : Bytes} {iend m tl : Nat} {s : RS} (h : NCInv m tl s) : NCInv m tl (skipZeros b iend m s) := by
  obtain ⟨e1, e2, e3, e4, e5⟩ := skipZeros_spec b iend m s
  refine ⟨by rw [e1]; exact h.size, by rw [e1]; exact h.ge, ?_, by rw [e1, e2]; exact h.sum, ?_⟩
  · intro i hi him; rw [e1]; exact h.zero i (by omega) him
  · intro hd
    obtain ⟨d1, d2⟩ := e5 hd
    rw [e2, e3]
    exact ⟨(h.live d1).1, d2⟩

/-- `readCount` keeps the invariant (on a live state) -/
theorem readCount_inv {b : Bytes} {iend m tl : Nat} {s : RS} (h : NCInv m tl s) (hd : s.done = false) :
    NCInv m tl (readCount b iend m s) := by
  obtain ⟨e1, e2, e3, e4⟩ := readCount_spec b iend m s
  obtain ⟨l1, l2⟩ := h.live hd
  have hc := countField_ge s l1
  have hsz := h.size
  rw [if_pos (by omega)] at e1
  have hz := h.zero s.charnum (Nat.le_refl _) l2
  refine ⟨by rw [e1]; simp [hsz], ?_, ?_, ?_, ?_⟩
  · intro i hi
    rw [e1]
    by_cases e : s.charnum = i
    · subst e; rw [getBang_set_eq _ _ _ (by omega)]; exact hc
    · rw [getBang_set_ne _ _ _ _ e]; exact h.ge i hi
  · intro i hi him
    rw [e1, getBang_set_ne _ _ _ _ (by omega)]
    exact h.zero i (by omega) him
  · rw [e1, e2, startOf_set _ _ _ _ (by omega) hz, if_pos l2]
    have := h.sum
    generalize (countField s).1 = c at *
    by_cases c1 : c = -1
    · subst c1; simp; omega
    · have : (c == -1) = false := by simpa using c1
      simp only [this, Bool.false_eq_true, if_false]
      split <;> omega
  · intro hd2
    obtain ⟨a, b⟩ := e4 hd2
    exact ⟨a, by omega⟩

/-- FSE_readNCount_body on a buffer of at least 8 bytes: see `readNCount_normOK` -/
theorem readNCount8_normOK (b : Bytes) (hb maxSV : Nat) (nc : NCount) (h : readNCount8 b hb maxSV = .ok nc) :
    NormOK nc.norm nc.tableLog ∧ nc.norm.size ≤ maxSV + 1 ∧ 5 ≤ nc.tableLog ∧ nc.tableLog ≤ 15 := by
  unfold readNCount8 at h
  simp only [Id.run, bind, pure] at h
  split at h
  · cases h
  rename_i htl
  generalize hloop : forIn (m := Id) (ρ := Std.Legacy.Range) _ _ _ = s at h
  generalize htl2 : (ByteArray.le32 b 0 &&& 15) + FSE_MIN_TABLELOG = tl at *
  have inv : NCInv (maxSV + 1) tl s := by
    rw [← hloop]
    refine Block.forIn_range_inv_id (NCInv (maxSV + 1) tl) _ _ _ ?_ ?_
    · refine ⟨by simp, ?_, ?_, ?_, ?_⟩
      · intro i hi; simp [hi]
      · intro i _ hi; simp [hi]
      · have : startOf (Array.replicate (maxSV + 1) (0 : Int)) (maxSV + 1) = startOf (Array.replicate (maxSV + 1) (0 : Int)) 0 :=
          startOf_zero_tail _ 0 _ (Nat.zero_le _) (fun i _ hi => by simp [hi])
        rw [this]
        simp [startOf, Nat.shiftLeft_eq]
      · intro _
        simp only [Nat.shiftLeft_eq, Nat.one_mul]
        omega
    · intro k st hst
      by_cases d0 : st.done = true
      · rw [if_pos d0]; exact hst
      rw [if_neg d0]
      have d0f : st.done = false := by simpa using d0
      by_cases p0 : st.previous0 = true
      · rw [if_pos p0]
        have i1 := skipZeros_inv (b := b) (iend := hb) hst
        by_cases d1 : (skipZeros b hb (maxSV + 1) st).done = true
        · rw [if_pos d1]; exact i1
        · rw [if_neg d1]; exact readCount_inv i1 (by simpa using d1)
      · rw [if_neg p0]; exact readCount_inv hst d0f
  have htl5 : 5 ≤ tl := by rw [← htl2]; simp only [FSE_MIN_TABLELOG]; omega
  have htl15 : tl ≤ 15 := by simp only [FSE_TABLELOG_ABSOLUTE_MAX] at htl; omega
  split at h
  · cases h
  rename_i hrem
  split at h
  · cases h
  rename_i hcn
  split at h
  · cases h
  cases h
  have hrem1 : s.remaining = 1 := by simpa using hrem
  have hsum := inv.sum
  rw [hrem1] at hsum
  have hsz : (s.norm.extract 0 s.charnum).size = s.charnum := by
    rw [Array.size_extract, inv.size]; omega
  have hget : ∀ i, i < s.charnum → (s.norm.extract 0 s.charnum)[i]! = s.norm[i]! := by
    intro i hi
    have h1 : i < (s.norm.extract 0 s.charnum).size := by omega
    have h2 : i < s.norm.size := by rw [inv.size]; omega
    rw [getElem!_pos (s.norm.extract 0 s.charnum) i h1, getElem!_pos s.norm i h2, Array.getElem_extract]
    simp
  refine ⟨⟨by show 1 ≤ tl; omega, ?_, ?_⟩, by show (s.norm.extract 0 s.charnum).size ≤ _; omega, htl5, htl15⟩
  · intro i hi
    show -1 ≤ (s.norm.extract 0 s.charnum)[i]!
    rw [hsz] at hi
    rw [hget i hi]; exact inv.ge i (by omega)
  · show startOf (s.norm.extract 0 s.charnum) (s.norm.extract 0 s.charnum).size = 2 ^ tl
    rw [hsz, startOf_congr _ _ _ hget, ← startOf_zero_tail s.norm s.charnum (maxSV + 1) (by omega) inv.zero]
    have e : ((startOf s.norm (maxSV + 1) : Nat) : Int) = ((2 ^ tl : Nat) : Int) := by
      rw [Int.natCast_pow]
      show _ = (2 : Int) ^ tl
      omega
    exact Int.ofNat_inj.1 e

/-- **readNCount_normOK** (FSE_readNCount / FSE_readNCount_body, entropy_common.c): whatever the header bytes, a distribution that
`FSE.readNCount` ACCEPTS is normalised for its table log (every count `≥ -1`, the cells add up to exactly `2^tableLog`), has at most
`maxSV + 1` symbols, and `5 ≤ tableLog ≤ 15` -/
theorem readNCount_normOK (src : Bytes) (start n maxSV : Nat) (nc : NCount) (h : FSE.readNCount src start n maxSV = .ok nc) :
    NormOK nc.norm nc.tableLog ∧ nc.norm.size ≤ maxSV + 1 ∧ 5 ≤ nc.tableLog ∧ nc.tableLog ≤ 15 := by
  unfold FSE.readNCount at h
  by_cases h8 : n < 8
  · rw [if_pos h8] at h
    dsimp only at h
    generalize hr : readNCount8 _ 8 maxSV = res at h
    cases res with
    | error e => cases h
    | ok r =>
      simp only [] at h
      split at h
      · cases h
      · cases h; exact readNCount8_normOK _ _ _ _ hr
  · rw [if_neg h8] at h
    exact readNCount8_normOK _ _ _ _ h

/-! ### 6b. the symbol spreading -/

/-- every position of the spreading holds a symbol of the alphabet, and there are `2^L` positions -/
def SymsIn (n L : Nat) (syms : Array Nat) : Prop := syms.size = 2 ^ L ∧ ∀ u, u < syms.size → syms[u]! < n

/-- writing a symbol of the alphabet keeps `SymsIn` -/
theorem SymsIn.set {n L : Nat} {syms : Array Nat} (h : SymsIn n L syms) (p s : Nat) (hs : s < n) : SymsIn n L (syms.set! p s) := by
  refine ⟨by simpa using h.1, fun u hu => ?_⟩
  have hu2 : u < syms.size := by simpa using hu
  by_cases e : p = u
  · subst e; rw [getBang_set_eq _ _ _ hu2]; exact hs
  · rw [getBang_set_ne _ _ _ _ e]; exact h.2 u hu2

/-- a non-default `norm[s]!` is an in-range access -/
theorem lt_size_of_getBang_ne {norm : Array Int} {s : Nat} (h : norm[s]! ≠ 0) : s < norm.size := by
  by_cases hs : s < norm.size
  · exact hs
  · exfalso; apply h; simp [hs]

/-- FSE_buildDTable_internal / ZSTD_buildFSETable_body, symbol spreading: the table keeps its `2^L` positions and every position holds
a symbol of the alphabet (two of the three clauses of `SpreadOK`) -/
theorem spread_symsIn (norm : Array Int) (L : Nat) (hn : 0 < norm.size) : SymsIn norm.size L (spread norm L) := by
  unfold spread
  simp only [Id.run, bind, pure]
  generalize hfirst : forIn (m := Id) (ρ := Std.Legacy.Range) _ (Array.replicate (1 <<< L) 0, 1 <<< L - 1) _ = F
  have hF : SymsIn norm.size L F.1 := by
    rw [← hfirst]
    refine Block.forIn_range_inv_id (fun st : Array Nat × Nat => SymsIn norm.size L st.1) _ _ _ ?_ ?_
    · exact ⟨by simp [Nat.shiftLeft_eq], fun u hu => by
        have hu2 : u < 1 <<< L := by simpa using hu
        simpa [hu2] using hn⟩
    · intro s st hst
      split
      · rename_i hc
        exact hst.set _ _ (lt_size_of_getBang_ne (by intro e; rw [e] at hc; simp at hc))
      · exact hst
  refine Block.forIn_range_inv_id (fun st : Array Nat × Nat => SymsIn norm.size L st.1) _ _ _ hF ?_
  intro s st hst
  split
  · rename_i hc
    refine Block.forIn_range_inv_id (fun st : Array Nat × Nat => SymsIn norm.size L st.1) _ _ _ hst ?_
    intro k st2 h2
    exact h2.set _ _ (lt_size_of_getBang_ne (by omega))
  · exact hst
/-- the step of the spreading walk, `(size>>1) + (size>>3) + 3`, is odd for tables of at least 16 cells -/
theorem tableStep_odd {L : Nat} (h : 4 ≤ L) : tableStep (2 ^ L) % 2 = 1 := by
  have e : 2 ^ L = 16 * 2 ^ (L - 4) := by
    rw [show (16 : Nat) = 2 ^ 4 by rfl, ← Nat.pow_add]; congr 1; omega
  unfold tableStep
  rw [e, Nat.shiftRight_eq_div_pow, Nat.shiftRight_eq_div_pow]
  omega

/-- an odd step walks a table of `2^L` cells without repetition: positions `i*step mod 2^L` and `j*step mod 2^L` coincide only when
`i ≡ j (mod 2^L)`; hence the first `2^L` steps of the walk of `FSE.spread` visit every cell exactly once -/
theorem walk_injective {L step i j : Nat} (hodd : step % 2 = 1) (h : (i * step) % 2 ^ L = (j * step) % 2 ^ L) :
    (j - i) % 2 ^ L = 0 := by
  have h1 : (j * step - i * step) % 2 ^ L = 0 := Nat.sub_mod_eq_zero_of_mod_eq h.symm
  rw [← Nat.sub_mul] at h1
  have h2 : 2 ^ L ∣ (j - i) * step := Nat.dvd_of_mod_eq_zero h1
  have hc : Nat.Coprime (2 ^ L) step := by
    apply Nat.Coprime.pow_left
    show Nat.gcd 2 step = 1
    rw [Nat.gcd_rec, hodd]
    rfl
  exact Nat.mod_eq_zero_of_dvd (hc.dvd_of_dvd_mul_right h2)

/-- **spread_ok_partial** (FSE_buildDTable_internal, fse_decompress.c / ZSTD_buildFSETable_body, zstd_decompress_block.c: the spreading
loops).  PROVED: the first two clauses of `SpreadOK (spread norm L) norm L` - `2^L` positions, every position holds a symbol
`< norm.size` - and the two arithmetic facts behind the third: the step is odd (`tableStep_odd`) and an odd step never revisits a
cell within `2^L` steps (`walk_injective`).

MISSING for the full statement
  `theorem spread_ok : NormOK norm L → 5 ≤ L → SpreadOK (spread norm L) norm L`
is the third clause, `∀ s < norm.size, (spread norm L).toList.count s = cnt norm s`: it needs the loop invariant of the second
loop nest of `FSE.spread` that ties `pos` to the walk index (`pos = k * step mod 2^L` after `k` steps, the cells written so far
are exactly the walk positions `≤ high` among the first `k`, each written once) plus the counting step "the `high + 1` low
cells are hit exactly once in `2^L` steps, so the `Σ_{norm[s] > 0} norm[s] = high + 1` placements fill them all and the
`while (position > highThreshold)` skip loop never runs out of its `2^L` budget".  Until then `SpreadOK (spread norm L) norm L` stays
a hypothesis of `buildSeqTable_closed_of_spread` / `block_buildSeqTable_closed`; it is decidable (`FSE.spreadOK`, `spreadOK_iff`),
is proved for the three predefined distributions (`default_tables_spreadOK`) and is evaluated on every table met by the
differential runs (`tools/ent_fse.py`: `spreadOK=true`).

UPDATE: the full statement is now proved, along exactly this plan, as `FSE.spread_ok` (Lemmas/SpreadRT.lean; with `4 ≤ L`), and
`Props.C04.described_tables_closed` is `block_buildSeqTable_closed` without the `SpreadOK` hypothesis. -/
theorem spread_ok_partial {norm : Array Int} {L : Nat} (hN : NormOK norm L) :
    (spread norm L).size = 2 ^ L ∧ (∀ u, u < (spread norm L).size → (spread norm L)[u]! < norm.size) ∧
      (4 ≤ L → tableStep (2 ^ L) % 2 = 1) := by
  have hn : 0 < norm.size := by
    have h := hN.2.2
    by_cases e : norm.size = 0
    · rw [e] at h
      have : 0 < 2 ^ L := Nat.two_pow_pos L
      simp [startOf] at h
      omega
    · omega
  obtain ⟨h1, h2⟩ := spread_symsIn norm L hn
  exact ⟨h1, h2, tableStep_odd⟩

/-! ### the chain "any bytes → closed tables" -/

/-- **ZSTD_buildSeqTable, all four modes** (zstd_decompress_block.c; model `Block.buildSeqTable`): whatever the bytes, a table it returns
is closed for the log it returns - `set_rle`: `rleSeqTable_closed`; `set_basic`: the predefined table; `set_repeat`: the previous table
(closed by induction over the blocks); `set_compressed`: `readNCount_normOK` + `cell_closed`, under the one open hypothesis
`SpreadOK (spread …)` (see `spread_ok_partial`) -/
theorem block_buildSeqTable_closed {mode : Nat} {src : Bytes} {ip iend maxSym maxLog : Nat} {base bits : List Nat}
    {dflt : List SeqCell} {dfltLog : Nat} {prev : Array SeqCell} {prevLog : Nat} {fseValid : Bool}
    {T : Array SeqCell} {log used : Nat}
    (h : Block.buildSeqTable mode src ip iend maxSym maxLog base bits dflt dfltLog prev prevLog fseValid = .ok (T, log, used))
    (hd : SeqClosed dflt.toArray dfltLog) (hp : fseValid = true → SeqClosed prev prevLog)
    (hspread : ∀ nc, FSE.readNCount src ip (iend - ip) maxSym = .ok nc → SpreadOK (spread nc.norm nc.tableLog) nc.norm nc.tableLog) :
    SeqClosed T log := by
  unfold Block.buildSeqTable at h
  simp only [bind, Except.bind, pure, Except.pure, throw, throwThe, MonadExceptOf.throw] at h
  split at h
  · -- RLE
    split at h; · cases h
    split at h; · cases h
    cases h
    exact rleSeqTable_closed _ _ _
  split at h
  · cases h; exact hd
  split at h
  · split at h; · cases h
    rename_i hv
    cases h
    exact hp (by simpa using hv)
  · generalize hr : FSE.readNCount src ip (iend - ip) maxSym = res at h
    cases res with
    | error e => cases h
    | ok nc =>
      simp only [] at h
      split at h; · cases h
      cases h
      exact buildSeqTable_closed_of_spread (readNCount_normOK _ _ _ _ _ hr).1 (hspread nc hr) base bits

/-- ZSTD_decompressSequences_body as `Block.prepare` starts it (the three `ZSTD_initFseState`: `BIT_readBits(tableLog)`): with closed
tables the whole sequence decoding loop stays inside the three tables for EVERY bit stream -/
theorem decodeSeqs_from_stream_inbounds (llT ofT mlT : Array SeqCell) (llLog ofLog mlLog : Nat) (hLL : SeqClosed llT llLog)
    (hOF : SeqClosed ofT ofLog) (hML : SeqClosed mlT mlLog) (nbSeq : Nat) (r0 : BitR) (rep0 : Array Nat) :
    decodeSeqsChecked llT ofT mlT nbSeq (r0.read llLog).1 ((r0.read llLog).2.read ofLog).1
        (((r0.read llLog).2.read ofLog).2.read mlLog).1 (((r0.read llLog).2.read ofLog).2.read mlLog).2 rep0 =
      some (decodeSeqs llT ofT mlT nbSeq (r0.read llLog).1 ((r0.read llLog).2.read ofLog).1
        (((r0.read llLog).2.read ofLog).2.read mlLog).1 (((r0.read llLog).2.read ofLog).2.read mlLog).2 rep0) :=
  decodeSeqs_states_inbounds llT ofT mlT llLog ofLog mlLog hLL hOF hML nbSeq _ _ _ _ rep0 (read_lt _ _) (read_lt _ _) (read_lt _ _)

/-! ### non-vacuity -/

/-- a small normalised distribution (tableLog 5: 16 + 8 + 4 + 2 + 1 cells and one "less than one" symbol) -/
example : NormOK #[16, 8, 4, 2, 1, -1] 5 := by decide
example : SpreadOK (spread #[16, 8, 4, 2, 1, -1] 5) #[16, 8, 4, 2, 1, -1] 5 := by decide +kernel
example : CellsClosed (buildCells #[16, 8, 4, 2, 1, -1] 5) 5 :=
  cellsOf_closed (by decide) (by decide +kernel)
/-- the same table, closedness checked cell by cell -/
example : CellsClosed (buildCells #[16, 8, 4, 2, 1, -1] 5) 5 := by decide +kernel
/-- a table that is NOT closed is rejected by the predicate: `newState + 2^nbBits` overshoots -/
example : ¬ CellsClosed #[⟨0, 1, 1⟩, ⟨0, 0, 1⟩] 1 := by decide
/-- the predefined tables drive `decodeSeqsChecked` on any stream -/
example (nbSeq : Nat) (r0 : BitR) (rep0 : Array Nat) :
    decodeSeqsChecked LL_defaultDTable.toArray OF_defaultDTable.toArray ML_defaultDTable.toArray nbSeq
        (r0.read 6).1 ((r0.read 6).2.read 5).1 (((r0.read 6).2.read 5).2.read 6).1 (((r0.read 6).2.read 5).2.read 6).2 rep0 =
      some (decodeSeqs LL_defaultDTable.toArray OF_defaultDTable.toArray ML_defaultDTable.toArray nbSeq
        (r0.read 6).1 ((r0.read 6).2.read 5).1 (((r0.read 6).2.read 5).2.read 6).1 (((r0.read 6).2.read 5).2.read 6).2 rep0) :=
  decodeSeqs_from_stream_inbounds _ _ _ 6 5 6 default_tables_closed.1 default_tables_closed.2.1 default_tables_closed.2.2 nbSeq r0 rep0
/-- an over-read still returns a value below `2^n`: 5 bits asked, 3 bits left (`101`), two zero bits appended -/
example : (BitR.read ⟨ByteArray.mk #[5], 0, 3, false⟩ 5).1 = 20 := by decide
/-- a Huffman table accepted by `WeightsOK` and its `2^log` cells -/
example : (Huf.buildTable ⟨#[2, 1, 1], 2, 0⟩).cells.size = 2 ^ (Huf.buildTable ⟨#[2, 1, 1], 2, 0⟩).log := buildTable_size _
/-- the checked twins do return `none` on a table that is too short (so the theorems above are not vacuous) -/
example (r0 : BitR) (rep0 : Array Nat) : decodeSeqsChecked #[] #[] #[] 1 0 0 0 r0 rep0 = none := by
  simp [decodeSeqsChecked, Std.Legacy.Range.forIn_eq_forIn_range', Std.Legacy.Range.size]
example (src : Bytes) (start len : Nat) (r : BitR) (h : BitR.init src start len = .ok r) :
    (decode1Checked ⟨1, #[]⟩ src start len 1 ByteArray.empty).run = none := by
  simp [decode1Checked, h, Std.Legacy.Range.forIn_eq_forIn_range', Std.Legacy.Range.size]
  rfl

end ZstdVerif.TableSafe
