/-- pigeonhole for duplicate-free lists (core-only) -/
theorem List.nodup_subset_length_le {l₁ : List Nat} : ∀ {l₂ : List Nat}, l₁.Nodup → (∀ a ∈ l₁, a ∈ l₂) → l₁.length ≤ l₂.length := by
  induction l₁ with
  | nil => intro l₂ _ _; simp
  | cons a t ih =>
    intro l₂ hnd hsub
    have ha : a ∈ l₂ := hsub a (List.mem_cons_self ..)
    have hnd' := List.nodup_cons.mp hnd
    have hsub' : ∀ b ∈ t, b ∈ l₂.erase a := by
      intro b hb
      have hne : b ≠ a := fun h => hnd'.1 (h ▸ hb)
      exact (List.mem_erase_of_ne hne).mpr (hsub b (List.mem_cons_of_mem _ hb))
    have := ih hnd'.2 hsub'
    rw [List.length_erase_of_mem ha] at this
    have hp : 0 < l₂.length := List.length_pos_of_mem ha
    simp only [List.length_cons]
    omega

/-- a function whose image list has no duplicates is injective on the list -/
theorem List.eq_of_nodup_map {α : Type} (f : α → Nat) : ∀ (l : List α) (a b : α), (l.map f).Nodup → a ∈ l → b ∈ l → f a = f b → a = b := by
  intro l
  induction l with
  | nil => intro a b _ ha; cases ha
  | cons x t ih =>
    intro a b hnd ha hb hab
    simp only [List.map_cons] at hnd
    have hnd' := List.nodup_cons.mp hnd
    rcases List.mem_cons.mp ha with rfl | ha' <;> rcases List.mem_cons.mp hb with rfl | hb'
    · rfl
    · exact absurd (hab ▸ List.mem_map_of_mem hb') hnd'.1
    · exact absurd (hab ▸ List.mem_map_of_mem ha') hnd'.1
    · exact ih a b hnd'.2 ha' hb' hab
