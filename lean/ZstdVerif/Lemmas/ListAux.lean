/-- pigeonhole for duplicate-free lists (core-only) -/
theorem List.nodup_subset_length_le {l₁ : List Nat} : ∀ {l₂ : List Nat}, l₁.Nodup → (∀ a ∈ l₁, a ∈ l₂) → l₁.length ≤ l₂.length := by
  induction l₁ with
  | nil => intro l₂ _ _; simp
  | cons a t ih =>
    intro l₂ hnd hsub
    have ha : a ∈ l₂ := hsub a (List.mem_cons_self ..)
    have hnd' := List.nodup_cons.mp hnd
    have hsub' : ∀ b ∈ t, b ∈ l₂.erase a := by
      intro b hb
      have hne : b ≠ a := fun h => hnd'.1 (h ▸ hb)
      exact (List.mem_erase_of_ne hne).mpr (hsub b (List.mem_cons_of_mem _ hb))
    have := ih hnd'.2 hsub'
    rw [List.length_erase_of_mem ha] at this
    have hp : 0 < l₂.length := List.length_pos_of_mem ha
    simp only [List.length_cons]
    omega
