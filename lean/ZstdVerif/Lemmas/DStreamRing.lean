/-
The output ring of the model of `ZSTD_decompressStream` (Model/DStream.lean, stage zdss_flush of zstd_decompress.c: "restart the ring
when the next block would not fit"): before every block there is room for it, and a restart never overwrites history the window
still reaches.  Continues Lemmas/DStreamRT.lean: `ring_keeps_window`.
-/
import ZstdVerif.Lemmas.DStreamRT
namespace ZstdVerif.DStream
open ZstdVerif.Gen ZstdVerif.Stream

/-- the ring is as large as `ZSTD_decodingBufferSize_internal` demands: window + 2 blocks + 2 * WILDCOPY_OVERLENGTH, or it holds the
whole declared content -/
def Geo (s : State) : Prop :=
  s.d.windowSize + 2 * s.d.blockSizeMax + 64 ≤ s.outBuffSize ∨ ∃ n, s.d.fcs = some n ∧ n ≤ s.outBuffSize

/-- a whole block fits behind `outStart`, or the ring holds the whole declared content -/
def Room (s : State) : Prop :=
  s.outStart + s.d.blockSizeMax ≤ s.outBuffSize ∨ ∃ n, s.d.fcs = some n ∧ n ≤ s.outBuffSize

/-- **the ring invariant** (holds between calls and after every turn of the loop) -/
structure RingInv (s : State) : Prop where
  /-- the last restart of the ring happened beyond a window and a block -/
  seg : s.segEnd ≠ 0 → s.d.blockSizeMax + s.d.windowSize ≤ s.segEnd
  hd : s.ss = .loadHeader → s.segEnd = 0 ∧ s.outStart = 0
  bigF : s.ss = .flush → Geo s
  big : s.ss = .read ∨ s.ss = .load → s.d.expected ≠ 0 → Geo s ∧ Room s

theorem ring_start (frames : List FrameD) : RingInv (State.start frames) :=
  ⟨fun h => absurd rfl h, (fun h => by cases h), (fun h => by cases h), fun h => by rcases h with h | h <;> cases h⟩

/-- the invariant reads only these fields -/
theorem RingInv.congr {s s2 : State} (h : RingInv s) (hss : s2.ss = s.ss) (hd : s2.d = s.d) (ho : s2.outBuffSize = s.outBuffSize)
    (hs : s2.outStart = s.outStart) (hg : s2.segEnd = s.segEnd) : RingInv s2 := by
  refine ⟨?_, ?_, ?_, ?_⟩
  · rw [hg, hd]; exact h.seg
  · rw [hss, hg, hs]; exact h.hd
  · rw [hss]; unfold Geo; rw [hd, ho]; exact h.bigF
  · rw [hss, hd]; unfold Geo Room; rw [hd, ho, hs]; exact h.big

/-- `ZSTD_decompressContinue` leaves the frame parameters alone (outside the buffer-less header stage) -/
theorem continue_params (d : DCtx) (f : FrameD) (b : BlockD) (n : Nat) (h : d.stage ≠ .decodeFrameHeader) :
    (d.continue f b n).1.windowSize = d.windowSize ∧ (d.continue f b n).1.blockSizeMax = d.blockSizeMax ∧
    (d.continue f b n).1.fcs = d.fcs := by
  unfold DCtx.continue
  cases hst : d.stage with
  | decodeFrameHeader => exact absurd hst h
  | getFrameHeaderSize => dsimp only; unfold DCtx.stGetFrameHeaderSize; split <;> exact ⟨rfl, rfl, rfl⟩
  | decodeBlockHeader =>
    dsimp only; unfold DCtx.stDecodeBlockHeader DCtx.endOfBlocks; dsimp only
    (repeat' split) <;> exact ⟨rfl, rfl, rfl⟩
  | decompressBlock =>
    dsimp only; unfold DCtx.stDecompressBlock DCtx.endOfBlocks; dsimp only
    (repeat' split) <;> exact ⟨rfl, rfl, rfl⟩
  | decompressLastBlock =>
    dsimp only; unfold DCtx.stDecompressBlock DCtx.endOfBlocks; dsimp only
    (repeat' split) <;> exact ⟨rfl, rfl, rfl⟩
  | checkChecksum => exact ⟨rfl, rfl, rfl⟩
  | decodeSkippableHeader => exact ⟨rfl, rfl, rfl⟩
  | skipFrame => exact ⟨rfl, rfl, rfl⟩

theorem continueStream_fields (s : State) (n : Nat) (h : s.d.stage ≠ .decodeFrameHeader) :
    (continueStream s n).d.windowSize = s.d.windowSize ∧ (continueStream s n).d.blockSizeMax = s.d.blockSizeMax ∧
    (continueStream s n).d.fcs = s.d.fcs ∧ (continueStream s n).outBuffSize = s.outBuffSize ∧
    (continueStream s n).outStart = s.outStart ∧ (continueStream s n).segEnd = s.segEnd ∧
    ((continueStream s n).ss = .read ∨ (continueStream s n).ss = .flush) := by
  obtain ⟨a, b, c⟩ := continue_params s.d s.cur (s.blocks.head?.getD default) n h
  unfold continueStream
  dsimp only
  split
  · exact ⟨a, b, c, rfl, rfl, rfl, Or.inl rfl⟩
  · exact ⟨a, b, c, rfl, rfl, rfl, Or.inr rfl⟩

/-- a `ZSTD_decompressContinue` made with room for a block keeps the invariant -/
theorem ring_continueStream (s : State) (n : Nat) (hseg : s.segEnd ≠ 0 → s.d.blockSizeMax + s.d.windowSize ≤ s.segEnd)
    (hg : Geo s) (hr : Room s) (h : s.d.stage ≠ .decodeFrameHeader) : RingInv (continueStream s n) := by
  obtain ⟨a, b, c, d, e, f, g⟩ := continueStream_fields s n h
  have hg2 : Geo (continueStream s n) := by unfold Geo; rw [a, b, c, d]; exact hg
  have hr2 : Room (continueStream s n) := by unfold Room; rw [b, c, d, e]; exact hr
  refine ⟨by rw [f, a, b]; exact hseg, fun h => ?_, fun _ => hg2, fun _ _ => ⟨hg2, hr2⟩⟩
  rcases g with g | g <;> rw [g] at h <;> cases h

/-- the invariant after a turn of the loop, whichever way the turn ends -/
def RingOut : Out → Prop
  | .cont s _ => RingInv s
  | .stop s _ => RingInv s
  | .ret s _ _ => RingInv s

theorem ring_stLoad (s : State) (l : Loc) (i : Nat) (h : RingInv s) (hss : s.ss = .load) (hst : s.d.stage ≠ .decodeFrameHeader)
    (he : s.d.expected ≠ 0) : RingOut (stLoad s l i) := by
  obtain ⟨hg, hr⟩ := h.big (Or.inr hss) he
  unfold stLoad
  dsimp only
  split
  · exact h
  · split
    · exact h.congr rfl rfl rfl rfl rfl
    · exact ring_continueStream { s with inPos := 0 } _ h.seg hg hr hst

theorem ring_stRead (s : State) (l : Loc) (i : Nat) (h : RingInv s) (hss : s.ss = .read) (hst : s.d.stage ≠ .decodeFrameHeader)
    (hne : ∀ a, s.d.nextSrcSizeWithInput a ≠ 0 → s.d.expected ≠ 0) : RingOut (stRead s l i) := by
  unfold stRead
  dsimp only
  split
  · exact ⟨h.seg, (fun h => by cases h), (fun h => by cases h), fun h => by rcases h with h | h <;> cases h⟩
  · rename_i hn
    obtain ⟨hg, hr⟩ := h.big (Or.inl hss) (hne _ hn)
    split
    · exact ring_continueStream s _ h.seg hg hr hst
    · split
      · exact h
      · exact ring_stLoad { s with ss := .load } l i ⟨h.seg, (fun h => by cases h), (fun h => by cases h), fun _ _ => ⟨hg, hr⟩⟩ rfl hst (hne _ hn)

/-- the restart rule of the ring, once everything pending has been handed over (`k` bytes in this turn): it re-establishes room for a
block, and it restarts only beyond a window and a block -/
theorem ring_flush_done (s : State) (l1 : Loc) (k : Nat) (small : Bool) (h : RingInv s) (hg : Geo s)
    (hsm : small = true → ¬ ∃ n, s.d.fcs = some n ∧ n ≤ s.outBuffSize)
    (hns : small = false → ∃ n, s.d.fcs = some n ∧ n ≤ s.outBuffSize) :
    RingOut (if (small && decide (s.outStart + k + s.d.blockSizeMax > s.outBuffSize)) = true then
        .cont { s with outStart := 0, outEnd := 0, ss := .read, segEnd := s.outStart + k } l1
      else .cont { s with outStart := s.outStart + k, ss := .read } l1) := by
  by_cases hre : (small && decide (s.outStart + k + s.d.blockSizeMax > s.outBuffSize)) = true
  · rw [if_pos hre]
    simp only [Bool.and_eq_true, decide_eq_true_eq] at hre
    obtain ⟨hsmall, hover⟩ := hre
    have hbig : s.d.windowSize + 2 * s.d.blockSizeMax + 64 ≤ s.outBuffSize := by
      rcases hg with hg | hg
      · exact hg
      · exact absurd hg (hsm hsmall)
    refine ⟨fun _ => ?_, (fun h => by cases h), (fun h => by cases h), fun _ _ => ⟨Or.inl hbig, Or.inl ?_⟩⟩
    · show s.d.blockSizeMax + s.d.windowSize ≤ s.outStart + k; omega
    · show 0 + s.d.blockSizeMax ≤ s.outBuffSize; omega
  · rw [if_neg hre]
    refine ⟨h.seg, (fun h => by cases h), (fun h => by cases h), fun _ _ => ⟨hg, ?_⟩⟩
    simp only [Bool.and_eq_true, decide_eq_true_eq, not_and] at hre
    cases hs : small with
    | true => exact Or.inl (by have := hre hs; show s.outStart + k + s.d.blockSizeMax ≤ s.outBuffSize; omega)
    | false => exact Or.inr (hns hs)

/-- zdss_flush keeps the invariant -/
theorem ring_stFlush (s : State) (l : Loc) (o : Nat) (h : RingInv s) (hss : s.ss = .flush) : RingOut (stFlush s l o) := by
  have hg := h.bigF hss
  unfold stFlush
  dsimp only
  split
  · refine ring_flush_done s _ _ _ h hg (fun hsm hex => ?_) (fun hns => ?_)
    · obtain ⟨n, hn, hle⟩ := hex
      rw [hn] at hsm
      simp only [decide_eq_true_eq] at hsm
      omega
    · cases hf : s.d.fcs with
      | none => rw [hf] at hns; cases hns
      | some n =>
        rw [hf] at hns
        simp only [decide_eq_false_iff_not, Nat.not_lt] at hns
        exact ⟨n, rfl, hns⟩
  · exact ⟨h.seg, (fun h => by have h2 : s.ss = _ := h; rw [hss] at h2; cases h2), fun _ => hg,
      (fun h => by
        have h2 : s.ss = .read ∨ s.ss = .load := h
        rw [hss] at h2
        rcases h2 with h2 | h2 <;> cases h2)⟩

theorem adaptBuffers_ring (s : State) (a b : Nat) :
    b ≤ (adaptBuffers s a b).outBuffSize ∧ (adaptBuffers s a b).segEnd = s.segEnd := by
  unfold adaptBuffers
  dsimp only
  split <;> split
  all_goals first
    | exact ⟨Nat.le_refl _, rfl⟩
    | (rename_i hc; simp only [Bool.or_eq_true, decide_eq_true_eq, not_or, Nat.not_lt] at hc; exact ⟨hc.1.2, rfl⟩)

theorem consumeHeader_params (s : State) (f : FrameD) :
    (consumeHeader s f).d.windowSize = DBuf.effectiveWindow f.windowSize ∧ (consumeHeader s f).d.blockSizeMax = f.blockSizeMax ∧
    (consumeHeader s f).d.fcs = f.fcs ∧ (consumeHeader s f).d.stage ≠ .decodeFrameHeader ∧
    (∀ a, (consumeHeader s f).d.nextSrcSizeWithInput a = (consumeHeader s f).d.expected) ∧
    (consumeHeader s f).segEnd = s.segEnd ∧ (consumeHeader s f).outStart = s.outStart ∧ (consumeHeader s f).ss = s.ss := by
  unfold consumeHeader
  cases f.skippable <;>
    simp [DCtx.setFrame, DCtx.begin, DCtx.nextSrcSizeWithInput]

/-- the block size of a well-formed frame is at most its (clamped) window and at most 128 KB -/
theorem ok_block_le {f : FrameD} (h : f.ok = true) :
    f.blockSizeMax ≤ DBuf.effectiveWindow f.windowSize ∧ f.blockSizeMax ≤ ZSTD_BLOCKSIZE_MAX := by
  unfold DBuf.effectiveWindow
  cases hs : f.skippable with
  | true =>
    simp only [FrameD.ok, hs, if_true, Bool.and_eq_true, decide_eq_true_eq] at h
    have := h.1.2
    omega
  | false =>
    simp only [FrameD.ok, hs, Bool.false_eq_true, if_false, Bool.and_eq_true, decide_eq_true_eq] at h
    have := h.1.2
    omega

/-- "Adapt buffer sizes to frame header instructions" gives the ring its size -/
theorem ring_after_header (s : State) (f : FrameD) (hok : f.ok = true) (h : RingInv s) (hss : s.ss = .loadHeader) :
    RingInv { adaptBuffers (consumeHeader s f) (max (consumeHeader s f).d.blockSizeMax 4)
      (DBuf.decodingBufferSize (consumeHeader s f).d.windowSize (consumeHeader s f).d.fcs (consumeHeader s f).d.blockSizeMax)
        with ss := .read } := by
  obtain ⟨p1, p2, p3, _, _, p6, p7, _⟩ := consumeHeader_params s f
  obtain ⟨q1, q2⟩ := adaptBuffers_ring (consumeHeader s f) (max (consumeHeader s f).d.blockSizeMax 4)
    (DBuf.decodingBufferSize (consumeHeader s f).d.windowSize (consumeHeader s f).d.fcs (consumeHeader s f).d.blockSizeMax)
  obtain ⟨r1, _, _, _, r5, _⟩ := adaptBuffers_fields (consumeHeader s f) (max (consumeHeader s f).d.blockSizeMax 4)
    (DBuf.decodingBufferSize (consumeHeader s f).d.windowSize (consumeHeader s f).d.fcs (consumeHeader s f).d.blockSizeMax)
  generalize adaptBuffers (consumeHeader s f) (max (consumeHeader s f).d.blockSizeMax 4)
    (DBuf.decodingBufferSize (consumeHeader s f).d.windowSize (consumeHeader s f).d.fcs (consumeHeader s f).d.blockSizeMax) = A
    at q1 q2 r1 r5 ⊢
  obtain ⟨hs0, ho0⟩ := h.hd hss
  obtain ⟨b1, b2⟩ := ok_block_le hok
  have hgeo : DBuf.effectiveWindow f.windowSize + 2 * f.blockSizeMax + 64 ≤ A.outBuffSize ∨
      ∃ n, f.fcs = some n ∧ n ≤ A.outBuffSize := by
    rw [p1, p2, p3] at q1
    unfold DBuf.decodingBufferSize at q1
    simp only [WILDCOPY_OVERLENGTH] at q1
    rw [show min (min (DBuf.effectiveWindow f.windowSize) ZSTD_BLOCKSIZE_MAX) f.blockSizeMax = f.blockSizeMax by omega] at q1
    cases hf : f.fcs with
    | none => rw [hf] at q1; left; dsimp only at q1; omega
    | some n =>
      rw [hf] at q1
      dsimp only at q1
      by_cases hn : n ≤ DBuf.effectiveWindow f.windowSize + f.blockSizeMax * 2 + 32 * 2
      · right; exact ⟨n, rfl, by omega⟩
      · left; omega
  refine ⟨fun hne => ?_, (fun h => by cases h), (fun h => by cases h), fun _ _ => ⟨?_, ?_⟩⟩
  · exact absurd (show A.segEnd = 0 by rw [q2, p6]; exact hs0) hne
  · show A.d.windowSize + 2 * A.d.blockSizeMax + 64 ≤ A.outBuffSize ∨ ∃ n, A.d.fcs = some n ∧ n ≤ A.outBuffSize
    rw [r1, p1, p2, p3]; exact hgeo
  · show A.outStart + A.d.blockSizeMax ≤ A.outBuffSize ∨ ∃ n, A.d.fcs = some n ∧ n ≤ A.outBuffSize
    rw [r5, r1, p7, p2, p3, ho0]
    rcases hgeo with hg | hg
    · left; omega
    · right; exact hg

theorem ring_stLoadHeader (all : List FrameD) (hok : AllOk all) (s : State) (l : Loc) (i o : Nat) (h : RingInv s)
    (hss : s.ss = .loadHeader) (hin : ∀ f, s.frames.head? = some f → f ∈ all) : RingOut (stLoadHeader s l i o) := by
  obtain ⟨hs0, ho0⟩ := h.hd hss
  unfold stLoadHeader
  dsimp only
  split
  · split
    · exact h.congr rfl rfl rfl rfl rfl
    · exact h.congr rfl rfl rfl rfl rfl
  · split
    · rename_i f hf
      unfold hdrComplete
      split
      · exact ⟨fun hne => absurd hs0 hne, (fun h => by cases h), (fun h => by cases h), fun h => by rcases h with h | h <;> cases h⟩
      · obtain ⟨p1, p2, p3, p4, p5, p6, p7, p8⟩ := consumeHeader_params s f
        dsimp only
        split
        · exact ⟨fun hne => absurd (p6.trans hs0) hne, fun _ => ⟨p6.trans hs0, p7.trans ho0⟩,
            (fun h => by rw [p8, hss] at h; cases h), fun h => by rw [p8, hss] at h; rcases h with h | h <;> cases h⟩
        · have hR := ring_after_header s f (hok f (hin f hf)) h hss
          obtain ⟨r1, _⟩ := adaptBuffers_fields (consumeHeader s f) (max (consumeHeader s f).d.blockSizeMax 4)
            (DBuf.decodingBufferSize (consumeHeader s f).d.windowSize (consumeHeader s f).d.fcs (consumeHeader s f).d.blockSizeMax)
          refine ring_stRead _ l i hR rfl ?_ ?_
          · show (adaptBuffers _ _ _).d.stage ≠ _
            rw [r1]; exact p4
          · intro a
            show (adaptBuffers _ _ _).d.nextSrcSizeWithInput a ≠ 0 → (adaptBuffers _ _ _).d.expected ≠ 0
            rw [r1, p5 a]; exact id
    · exact h

/-- what the stage machine's invariant gives the ring lemmas -/
theorem stageOk_ring {d : DCtx} {bs : List BlockD} (h : stageOk d bs) :
    d.stage ≠ .decodeFrameHeader ∧ ∀ a, d.nextSrcSizeWithInput a ≠ 0 → d.expected ≠ 0 := by
  refine ⟨fun hst => by simp [stageOk, hst] at h, fun a hn he => hn ((needed_facts d bs a h).1.2 he)⟩

/-- **every turn of the loop keeps the ring invariant** -/
theorem ring_micro (all : List FrameD) (hok : AllOk all) (s : State) (l : Loc) (i o : Nat) (hl : LInv all s l) (h : RingInv s) :
    RingOut (micro s l i o) := by
  unfold micro
  unfold LInv at hl
  cases hss : s.ss <;> rw [hss] at hl <;> dsimp only
  · obtain ⟨_, _, pre, hall, _⟩ := hl
    refine ring_stLoadHeader all hok (stInit s) l i o ⟨fun hne => absurd rfl hne, fun _ => ⟨rfl, rfl⟩, (fun h => by cases h),
      (fun h => by rcases h with h | h <;> cases h)⟩ rfl (fun f hf => ?_)
    cases hfr : s.frames with
    | nil => rw [show (stInit s).frames = s.frames from rfl, hfr] at hf; cases hf
    | cons g gs =>
      rw [show (stInit s).frames = s.frames from rfl, hfr] at hf
      injection hf with hf
      rw [hall, hfr, ← hf]; simp
  · obtain ⟨pre, hall, _⟩ := hl
    refine ring_stLoadHeader all hok s l i o h hss (fun f hf => ?_)
    cases hfr : s.frames with
    | nil => rw [hfr] at hf; cases hf
    | cons g gs =>
      rw [hfr] at hf
      injection hf with hf
      rw [hall, hfr, ← hf]; simp
  · rcases hl with ⟨pre, hall, fi⟩ | ⟨pre, hall, di⟩
    · obtain ⟨a, b⟩ := stageOk_ring fi.stg
      exact ring_stRead s l i h hss a b
    · refine ring_stRead s l i h hss (by rcases di.st with e | e <;> rw [e] <;> simp) (fun a hn => ?_)
      exfalso
      apply hn
      unfold DCtx.nextSrcSizeWithInput
      rcases di.st with e | e <;> simp [e, di.ex]
  · obtain ⟨pre, hall, fi⟩ := hl
    have := fi.inp1 hss
    exact ring_stLoad s l i h hss (stageOk_ring fi.stg).1 (by omega)
  · exact ring_stFlush s l o h hss

theorem ring_loop (all : List FrameD) (hok : AllOk all) (T U inAvail outCap : Nat) (hlim : T + inAvail ≤ sizeAll all) :
    ∀ (fuel : Nat) (s : State) (l : Loc), LInv all s l → Bd s l T U inAvail outCap → RingInv s →
      RingOut (loop fuel s l inAvail outCap) := by
  intro fuel
  induction fuel with
  | zero => intro s l _ _ h; exact h
  | succ n ih =>
    intro s l hl hb h
    have hm := micro_ok all hok T U inAvail outCap s l hl hb hlim
    have hr := ring_micro all hok s l inAvail outCap hl h
    unfold loop
    cases hmic : micro s l inAvail outCap with
    | cont s1 l1 => rw [hmic] at hm hr; exact ih s1 l1 hm.1 hm.2 hr
    | stop s1 l1 => rw [hmic] at hr; exact hr
    | ret s1 c r => rw [hmic] at hr; exact hr

/-- the return-value computation may move a finished frame from zdss_init to zdss_read (hostage byte not present) -/
theorem ring_result (s : State) (l : Loc) (i : Nat) (h : RingInv s) : RingInv (result s l i).1 := by
  unfold result
  split
  · rename_i he
    have he0 : s.d.expected = 0 := he
    split
    · split
      · split
        · exact ⟨h.seg, (fun h => by cases h), (fun h => by cases h), fun _ hne => absurd he0 hne⟩
        · exact h.congr rfl rfl rfl rfl rfl
      · exact h
    · split
      · exact h.congr rfl rfl rfl rfl rfl
      · exact h
  · exact h

theorem ring_finish_core (s : State) (l : Loc) (i nf : Nat) (c1 c2 : Bool) (e1 e2 : ErrClass) (h : RingInv s) :
    RingInv (if c1 = true then (({ s with noFwd := nf } : State), (⟨0, 0, s.totalOut, .err e1⟩ : CallResult))
       else if c2 = true then ({ s with noFwd := nf }, ⟨0, 0, s.totalOut, .err e2⟩)
       else
         ({ (result { s with noFwd := nf } l i).1 with
              totalIn := (result { s with noFwd := nf } l i).1.totalIn + (result { s with noFwd := nf } l i).2.1,
              totalOut := (result { s with noFwd := nf } l i).1.totalOut + l.op },
          ⟨(result { s with noFwd := nf } l i).2.1, l.op, s.totalOut, (result { s with noFwd := nf } l i).2.2⟩)).1 := by
  cases c1
  · cases c2
    · simp only [Bool.false_eq_true, if_false]
      exact (ring_result { s with noFwd := nf } l i (h.congr rfl rfl rfl rfl rfl)).congr rfl rfl rfl rfl rfl
    · simp only [Bool.false_eq_true, if_false, if_true]
      exact h.congr rfl rfl rfl rfl rfl
  · simp only [if_true]
    exact h.congr rfl rfl rfl rfl rfl

theorem ring_finish (s : State) (l : Loc) (i o : Nat) (h : RingInv s) : RingInv (finish s l i o).1 :=
  ring_finish_core s l i _ _ _ _ _ h

/-- **every call keeps the ring invariant** -/
theorem ring_step (all : List FrameD) (hok : AllOk all) (s : State) (hinv : Inv all s) (h : RingInv s) (inAvail outCap : Nat)
    (hlim : s.totalIn + inAvail ≤ sizeAll all) : RingInv (step s inAvail outCap).1 := by
  have hr := ring_loop all hok s.totalIn s.totalOut inAvail outCap hlim (loopFuel inAvail) s {} hinv
    ⟨Nat.zero_le _, Nat.zero_le _, rfl, rfl⟩ h
  unfold step
  cases hlo : loop (loopFuel inAvail) s {} inAvail outCap with
  | cont s1 l1 => rw [hlo] at hr; exact ring_finish s1 l1 inAvail outCap hr
  | stop s1 l1 => rw [hlo] at hr; exact ring_finish s1 l1 inAvail outCap hr
  | ret s1 c r => rw [hlo] at hr; exact hr.congr rfl rfl rfl rfl rfl

/-- the state after a history of calls -/
def after : State → List (Nat × Nat) → State
  | s, [] => s
  | s, (i, o) :: rest => after (step s i o).1 rest

theorem ring_run (all : List FrameD) (hok : AllOk all) (io : List (Nat × Nat)) :
    ∀ (s : State), Inv all s → RingInv s → Feasible all s io → Inv all (after s io) ∧ RingInv (after s io) := by
  induction io with
  | nil => intro s hi hr _; exact ⟨hi, hr⟩
  | cons p rest ih =>
    obtain ⟨i, o⟩ := p
    intro s hi hr hf
    obtain ⟨hlim, hne, hrest⟩ := hf
    exact ih _ ((step_ok all hok s hi i o hlim).2 hne).1 (ring_step all hok s hi hr i o hlim) hrest

/-- **the ring keeps the window**: in a state that satisfies the ring invariant and waits (zdss_read) for more of a frame,
(1) there is room for the next block behind `outStart` (or the ring holds the whole declared content, in which case it is never
restarted), and (2) if the ring has been restarted in this frame, the restart happened at `segEnd ≥ blockSizeMax + windowSize`; hence
the `windowSize - outStart` bytes of history still reachable from before the restart, `[segEnd - (windowSize - outStart), segEnd)`,
begin at or after the end `outStart + blockSizeMax` of the block about to be written -/
theorem ring_keeps_window_inv (s : State) (h : RingInv s) (hss : s.ss = .read) (he : s.d.expected ≠ 0) :
    (s.outStart + s.d.blockSizeMax ≤ s.outBuffSize ∨ ∃ n, s.d.fcs = some n ∧ n ≤ s.outBuffSize) ∧
    (s.segEnd ≠ 0 → s.d.blockSizeMax + s.d.windowSize ≤ s.segEnd) ∧
    (s.segEnd ≠ 0 → s.outStart ≤ s.d.windowSize → s.outStart + s.d.blockSizeMax ≤ s.segEnd - (s.d.windowSize - s.outStart)) := by
  refine ⟨(h.big (Or.inl hss) he).2, h.seg, fun hne hle => ?_⟩
  have := h.seg hne
  omega

/-- **ring_keeps_window**, along every history: after any feasible history of calls on a well-formed stream, whenever the decoder
waits between two calls for a block header, a block body or the checksum ... -/
theorem ring_keeps_window (all : List FrameD) (hok : AllOk all) (io : List (Nat × Nat)) (hf : Feasible all (State.start all) io)
    (hss : (after (State.start all) io).ss = .read)
    (hst : (after (State.start all) io).d.stage = .decodeBlockHeader ∨ (after (State.start all) io).d.stage = .decompressBlock ∨
      (after (State.start all) io).d.stage = .decompressLastBlock ∨ (after (State.start all) io).d.stage = .checkChecksum) :
    ((after (State.start all) io).outStart + (after (State.start all) io).d.blockSizeMax ≤ (after (State.start all) io).outBuffSize ∨
      ∃ n, (after (State.start all) io).d.fcs = some n ∧ n ≤ (after (State.start all) io).outBuffSize) ∧
    ((after (State.start all) io).segEnd ≠ 0 →
      (after (State.start all) io).d.blockSizeMax + (after (State.start all) io).d.windowSize ≤ (after (State.start all) io).segEnd) := by
  obtain ⟨hi, hr⟩ := ring_run all hok io (State.start all) (inv_start all) (ring_start all) hf
  generalize after (State.start all) io = s at hss hst hi hr
  have he : s.d.expected ≠ 0 := by
    unfold Inv LInv at hi
    rw [hss] at hi
    rcases hi with ⟨pre, hall, fi⟩ | ⟨pre, hall, di⟩
    · have hs := fi.stg
      unfold stageOk at hs
      rcases hst with e | e | e | e <;> rw [e] at hs <;> dsimp only at hs <;> omega
    · rcases di.st with e | e <;> rw [e] at hst <;> simp at hst
  obtain ⟨a, b, _⟩ := ring_keeps_window_inv s hr hss he
  exact ⟨a, b⟩

/-- a frame whose ring (window 1024 + 2 blocks of 1024 + 64 = 3136 bytes) is restarted after its third block -/
def ringFrame : FrameD :=
  { skippable := false, headerSize := 6,
    blocks := [⟨.rle, 1, 1024, false⟩, ⟨.rle, 1, 1024, false⟩, ⟨.rle, 1, 1024, false⟩, ⟨.rle, 1, 1024, false⟩, ⟨.rle, 1, 1024, true⟩],
    checksum := false, fcs := none, windowSize := 1024, blockSizeMax := 1024 }

/-- non-vacuity of `ring_keeps_window`: after the header and three blocks of `ringFrame` (18 bytes) the decoder waits in zdss_read for the
next block header, the ring has been restarted at 3072 ≥ 1024 + 1024 and the next block goes to its start -/
example : ringFrame.ok = true ∧ (step (State.start [ringFrame]) 18 5000).2 = ⟨18, 3072, 0, .hint 3⟩ ∧
    (after (State.start [ringFrame]) [(18, 5000)]).ss = .read ∧
    (after (State.start [ringFrame]) [(18, 5000)]).d.stage = .decodeBlockHeader ∧
    (after (State.start [ringFrame]) [(18, 5000)]).outBuffSize = 3136 ∧
    (after (State.start [ringFrame]) [(18, 5000)]).segEnd = 3072 ∧
    (after (State.start [ringFrame]) [(18, 5000)]).outStart = 0 := by decide +kernel

end ZstdVerif.DStream
