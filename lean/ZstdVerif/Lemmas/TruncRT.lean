/-
C09 — truncation theorems transferred from the abstract frame walker (Model/Walker.lean, Props/C09.lean) to the FULL
decoder model (Model/Frame.lean), and the header-truthfulness checks of the full decoder.  Byte oracle: `oracle src i = src.u8 i`.

1. `decompressFrame_walks`       a frame accepted by `Frame.decompressFrame` (ZSTD_decompressFrame) has exactly the extent
                                 `Walker.frameSize` computes from the same bytes, whatever amount of input ≥ `used` is announced;
   `decompressFrame_used_le`, `decompressFrame_rejects_short` (from the anatomy lemma `decompressFrame_anatomy`).
2. `decompressAll_walks`         an input accepted by `Frame.decompressAll` (ZSTD_decompressMultiFrame) is tiled exactly by
                                 frames / skippable frames in the sense of `Walker.frames`, with the sizes in the traces;
   MAIN: `truncation_lands_on_frame_boundary`, `decoder_rejects_truncation` (+ `_single`, `_last`),
         `decoder_rejects_trailing_garbage` (+ `tail_of_accepted_is_frames`, `decoder_rejects_non_frame_tail`).
3. `decoder_fcs_enforced`, `decoder_checksum_enforced`, `decoder_dictID_enforced` (any format, any options).
4. `findFrameCompressedSize_eq_walker`  `Frame.findFrameCompressedSize` against `Walker.frameSize`: equal up to the error
   class, except for two checks the walker does not make (`findFrameCompressedSize_differs_skippable`, `_differs_window`);
   `findFrameCompressedSize_ok_walker` (success of the decoder model's function always implies success of the walker).
5. non-vacuity on concrete frames.
-/
import ZstdVerif.Model.Frame
import ZstdVerif.Model.Walker
import ZstdVerif.Lemmas.WalkerRT
import ZstdVerif.Lemmas.ExecRT
import ZstdVerif.Lemmas.FrameRT
namespace ZstdVerif.TruncRT
open ZstdVerif ZstdVerif.Gen ZstdVerif.Frame ZstdVerif.Walker ZstdVerif.Props.C09
open ZstdVerif.Serialize ZstdVerif.HeaderW ZstdVerif.FrameRT

/-! ### 0. bit operations of Frame.lean against the div / mod of Walker.lean -/

theorem and_mask (x : Nat) : x &&& 4294967280 = x / 2 ^ 4 % 2 ^ 28 * 2 ^ 4 := by
  apply Nat.eq_of_testBit_eq
  intro i
  rw [show (4294967280 : Nat) = (2 ^ 28 - 1) * 2 ^ 4 from rfl, Nat.testBit_and, Nat.testBit_mul_two_pow, Nat.testBit_mul_two_pow,
    Nat.testBit_mod_two_pow, Nat.testBit_div_two_pow, Nat.testBit_two_pow_sub_one]
  by_cases h : 4 ≤ i
  · simp [h, show i - 4 + 4 = i by omega]; exact Bool.and_comm _ _
  · simp [h]

/-- the skippable-magic test of zstd_decompress.c (`(magic & 0xFFFFFFF0) == 0x184D2A50`) is the walker's `isSkippable` -/
theorem skippable_iff (x : Nat) (hx : x < 2 ^ 32) :
    (x &&& ZSTD_MAGIC_SKIPPABLE_MASK == ZSTD_MAGIC_SKIPPABLE_START) = true ↔ isSkippable x := by
  unfold isSkippable ZSTD_MAGIC_SKIPPABLE_MASK ZSTD_MAGIC_SKIPPABLE_START
  rw [beq_iff_eq, and_mask]
  omega

theorem and3 (x : Nat) : x &&& 3 = x % 4 := Nat.and_two_pow_sub_one_eq_mod x 2

theorem and8 (x : Nat) : x &&& 8 = (x / 8 % 2) * 8 := by
  have h : x &&& ((2 ^ 1 - 1) * 2 ^ 3) = x / 2 ^ 3 % 2 ^ 1 * 2 ^ 3 := by
    apply Nat.eq_of_testBit_eq
    intro i
    rw [Nat.testBit_and, Nat.testBit_mul_two_pow, Nat.testBit_mul_two_pow,
      Nat.testBit_mod_two_pow, Nat.testBit_div_two_pow, Nat.testBit_two_pow_sub_one]
    by_cases h : 3 ≤ i
    · simp [h, show i - 3 + 3 = i by omega]; exact Bool.and_comm _ _
    · simp [h]
  exact h

theorem and8_ne (x : Nat) : (x &&& 8 != 0) = true ↔ (x / 8) % 2 = 1 := by
  rw [and8, bne_iff_ne]; omega

/-! ### 1. the byte oracle of a `ByteArray` -/

/-- the walker's byte oracle for a concrete input: `ByteArray.u8` (0 beyond the end; the walker never looks there) -/
def oracle (src : Bytes) : Get := fun i => src.u8 i

theorem le24_oracle (src : Bytes) (i : Nat) : le24 (oracle src) i = src.le24 i := by
  unfold le24 oracle ByteArray.le24
  simp only [Nat.shiftLeft_eq]

theorem le32_oracle (src : Bytes) (i : Nat) : le32 (oracle src) i = src.le32 i := by
  unfold le32 oracle ByteArray.le32
  simp only [Nat.shiftLeft_eq]

theorem u8_lt (src : Bytes) (i : Nat) : src.u8 i < 256 := by
  unfold ByteArray.u8
  split
  · exact UInt8.toNat_lt _
  · omega

theorem le32_lt (src : Bytes) (i : Nat) : src.le32 i < 2 ^ 32 := by
  have h0 := u8_lt src i; have h1 := u8_lt src (i+1); have h2 := u8_lt src (i+2); have h3 := u8_lt src (i+3)
  unfold ByteArray.le32
  simp only [Nat.shiftLeft_eq]
  omega

/-- ZSTD_frameHeaderSize_internal, zstd1 format: the two transcriptions agree -/
theorem headerSizeOf_eq (fhd : Nat) : headerSizeOf fhd false = headerSize fhd := by
  unfold headerSizeOf headerSize
  simp only [Bool.false_eq_true, if_false, and3, Nat.shiftRight_eq_div_pow, Nat.and_one_is_mod, Nat.reducePow]
  congr 1
  by_cases h1 : fhd / 32 % 2 = 1 <;> by_cases h2 : fhd / 64 = 0 <;> simp [h1, h2]

/-! ### 2. the walker reads only inside `[ip, ip + rem)` -/

theorem walkBlocks_congr (g g' : Get) (ip ip' rem : Nat) (h : ∀ i, i < rem → g (ip + i) = g' (ip' + i)) :
    walkBlocks g ip rem = walkBlocks g' ip' rem := by
  induction rem using Nat.strongRecOn generalizing ip ip' with
  | _ rem ih =>
    rw [walkBlocks.eq_1 g ip rem, walkBlocks.eq_1 g' ip' rem]
    by_cases h3 : rem < 3
    · rw [if_pos h3, if_pos h3]
    · have e : le24 g ip = le24 g' ip' := by
        have a0 := h 0 (by omega); have a1 := h 1 (by omega); have a2 := h 2 (by omega)
        simp only [Nat.add_zero] at a0 a1 a2
        unfold le24; rw [a0, a1, a2]
      have hx := bExtent_ge (le24 g' ip')
      rw [e, ih (rem - bExtent (le24 g' ip')) (by omega) (ip + bExtent (le24 g' ip')) (ip' + bExtent (le24 g' ip'))
        (fun i hi => by rw [Nat.add_assoc, Nat.add_assoc]; exact h _ (by omega))]

theorem frameSize_congr (g g' : Get) (ip ip' rem : Nat) (h : ∀ i, i < rem → g (ip + i) = g' (ip' + i)) :
    frameSize g ip rem = frameSize g' ip' rem := by
  unfold frameSize
  by_cases h5 : rem < 5
  · rw [if_pos h5, if_pos h5]
  have e0 : le32 g ip = le32 g' ip' := by
    have a0 := h 0 (by omega); have a1 := h 1 (by omega); have a2 := h 2 (by omega); have a3 := h 3 (by omega)
    simp only [Nat.add_zero] at a0 a1 a2 a3
    unfold le32; rw [a0, a1, a2, a3]
  have e4 : g (ip + 4) = g' (ip' + 4) := h 4 (by omega)
  rw [if_neg h5, if_neg h5, e0, e4]
  by_cases hs : isSkippable (le32 g' ip')
  · rw [if_pos hs, if_pos hs]
    by_cases h8 : rem < 8
    · rw [if_pos h8, if_pos h8]
    · have e : le32 g (ip + 4) = le32 g' (ip' + 4) := by
        have a0 := h 4 (by omega); have a1 := h 5 (by omega); have a2 := h 6 (by omega); have a3 := h 7 (by omega)
        unfold le32; simp only [Nat.add_assoc]; rw [a0, a1, a2, a3]
      rw [e]
  · rw [if_neg hs, if_neg hs]
    by_cases hm : le32 g' ip' ≠ ZSTD_MAGICNUMBER
    · rw [if_pos hm, if_pos hm]
    rw [if_neg hm, if_neg hm]
    by_cases hh : rem < headerSize (g' (ip' + 4))
    · rw [if_pos hh, if_pos hh]
    rw [if_neg hh, if_neg hh, walkBlocks_congr g g' (ip + headerSize (g' (ip' + 4))) (ip' + headerSize (g' (ip' + 4)))
      (rem - headerSize (g' (ip' + 4))) (fun i hi => by rw [Nat.add_assoc, Nat.add_assoc]; exact h _ (by omega))]

theorem frames_congr (g g' : Get) (f ip ip' rem : Nat) (h : ∀ i, i < rem → g (ip + i) = g' (ip' + i)) :
    frames g f ip rem = frames g' f ip' rem := by
  induction f generalizing ip ip' rem with
  | zero => unfold frames; rfl
  | succ f ih =>
    unfold frames
    by_cases h0 : rem = 0
    · rw [if_pos h0, if_pos h0]
    rw [if_neg h0, if_neg h0, frameSize_congr g g' ip ip' rem h]
    cases hfs : frameSize g' ip' rem with
    | error e => rfl
    | ok n =>
      obtain ⟨hle, _, _, _⟩ := frameSize_exact g' ip' rem n hfs
      simp only []
      rw [ih (ip + n) (ip' + n) (rem - n) (fun i hi => by rw [Nat.add_assoc, Nat.add_assoc]; exact h _ (by omega))]

/-- the number of frames is bounded by the fuel, and any fuel at least the number of frames gives the same answer -/
theorem frames_fuel (g : Get) (f ip rem : Nat) (L : List Nat) (h : frames g f ip rem = .ok L) :
    L.length ≤ f ∧ ∀ f', L.length ≤ f' → frames g f' ip rem = .ok L := by
  induction f generalizing ip rem L with
  | zero =>
    unfold frames at h
    split at h
    · rename_i h0; cases h; subst h0
      exact ⟨Nat.le_refl _, fun f' _ => by cases f' <;> (unfold frames; rfl)⟩
    · cases h
  | succ f ih =>
    unfold frames at h
    split at h
    · rename_i h0; cases h; subst h0
      exact ⟨Nat.zero_le _, fun f' _ => by cases f' <;> (unfold frames; rfl)⟩
    · rename_i h0
      split at h; · cases h
      rename_i n hfs
      split at h
      · rename_i L1 hrec
        cases h
        obtain ⟨hl, hm⟩ := ih _ _ _ hrec
        refine ⟨by simp only [List.length_cons]; omega, fun f' hf' => ?_⟩
        cases f' with
        | zero => simp at hf'
        | succ f'' =>
          unfold frames
          rw [if_neg h0, hfs]
          simp only []
          rw [hm f'' (by simp only [List.length_cons] at hf'; omega)]
      · cases h

/-- if `n` bytes are a whole number of frames and `n + r` bytes are too, then the `r` bytes behind are a whole number of frames -/
theorem frames_split (g : Get) (f f' ip n r : Nat) (L0 L1 : List Nat) (h0 : frames g f ip n = .ok L0)
    (h1 : frames g f' ip (n + r) = .ok L1) : ∃ L2, L1 = L0 ++ L2 ∧ frames g f' (ip + n) r = .ok L2 := by
  induction f generalizing f' ip n L0 L1 with
  | zero =>
    unfold frames at h0
    split at h0
    · rename_i hn; subst hn; cases h0
      exact ⟨L1, rfl, by simpa using h1⟩
    · cases h0
  | succ f ih =>
    unfold frames at h0
    split at h0
    · rename_i hn; subst hn; cases h0
      exact ⟨L1, rfl, by simpa using h1⟩
    · rename_i hn
      split at h0; · cases h0
      rename_i n1 hfs
      split at h0
      · rename_i L0' hrec
        cases h0
        obtain ⟨hle, hpos, hge, _⟩ := frameSize_exact g ip n n1 hfs
        cases f' with
        | zero =>
          unfold frames at h1
          split at h1
          · omega
          · cases h1
        | succ f'' =>
          unfold frames at h1
          rw [if_neg (by omega), hge (n + r) (by omega)] at h1
          simp only [] at h1
          split at h1
          · rename_i L1' hrec'
            cases h1
            have e : n + r - n1 = n - n1 + r := by omega
            rw [e] at hrec'
            obtain ⟨L2, hL, hfr⟩ := ih f'' (ip + n1) (n - n1) L0' L1' hrec hrec'
            have e2 : ip + n1 + (n - n1) = ip + n := by omega
            rw [e2] at hfr
            refine ⟨L2, by rw [hL]; rfl, ?_⟩
            obtain ⟨hl, hm⟩ := frames_fuel g _ _ _ _ hfr
            exact hm _ (by omega)
          · cases h1
      · cases h0

/-! ### 3. block headers: decoder against walker -/

theorem beq_dec (a b : Nat) : (a == b) = decide (a = b) := by
  by_cases h : a = b <;> simp [h]

/-- ZSTD_getcBlockSize: the decoder's transcription written with the walker's field extractors -/
theorem blockHeader_eq (src : Bytes) (ip rem : Nat) :
    blockHeader src ip rem =
      if rem < 3 then .error .srcSizeWrong
      else if bType (le24 (oracle src) ip) = 3 then .error (.corruptionAt "Frame:104")
      else .ok { last := bLast (le24 (oracle src) ip), ty := bType (le24 (oracle src) ip),
                 cSize := bExtent (le24 (oracle src) ip) - 3, origSize := le24 (oracle src) ip / 8 } := by
  unfold blockHeader
  rw [le24_oracle]
  simp only [show ZSTD_blockHeaderSize = 3 from rfl, bType, bLast, bExtent, Nat.shiftRight_eq_div_pow, and3, Nat.and_one_is_mod,
    Nat.reducePow, Nat.pow_one]
  by_cases h3 : rem < 3
  · rw [if_pos h3, if_pos h3]
  rw [if_neg h3, if_neg h3]
  by_cases ht : src.le24 ip / 2 % 4 = 3
  · simp [ht]
  · by_cases h1 : src.le24 ip / 2 % 4 = 1 <;> simp [ht, h1, beq_dec]

/-- one block accepted by the decoder (header parsed, body inside the remaining input) is one step of the walker -/
theorem walk_step {src : Bytes} {ip rem : Nat} {v : BlockHdr} (hbh : blockHeader src ip rem = .ok v) (hc : ¬ v.cSize > rem - 3) :
    3 + v.cSize ≤ rem ∧
    walkBlocks (oracle src) ip rem =
      if v.last then .ok (3 + v.cSize)
      else match walkBlocks (oracle src) (ip + (3 + v.cSize)) (rem - (3 + v.cSize)) with
        | .ok u => .ok (3 + v.cSize + u)
        | .error e => .error e := by
  rw [blockHeader_eq] at hbh
  have hx := bExtent_ge (le24 (oracle src) ip)
  by_cases h3 : rem < 3
  · rw [if_pos h3] at hbh; cases hbh
  rw [if_neg h3] at hbh
  by_cases ht : bType (le24 (oracle src) ip) = 3
  · rw [if_pos ht] at hbh; cases hbh
  rw [if_neg ht] at hbh
  cases hbh
  simp only [] at hc ⊢
  have e : 3 + (bExtent (le24 (oracle src) ip) - 3) = bExtent (le24 (oracle src) ip) := by omega
  rw [e]
  refine ⟨by omega, ?_⟩
  rw [walkBlocks.eq_1 (oracle src) ip rem, if_neg h3, if_neg ht, dif_neg (by omega)]
  rfl

/-! ### 4. `for` loops with a `break`: separate invariants for "goes on" and "has stopped" -/

theorem forIn_list_inv2 {α β : Type} (P Q : β → Prop) (l : List α) (f : α → β → R (ForInStep β)) (init r : β)
    (h0 : P init)
    (hf : ∀ a b s, P b → f a b = .ok s → match s with | .yield b' => P b' | .done b' => Q b')
    (h : forIn l init f = .ok r) : P r ∨ Q r := by
  induction l generalizing init with
  | nil =>
    rw [List.forIn_nil] at h
    injection h with h; exact .inl (h ▸ h0)
  | cons a as ih =>
    rw [List.forIn_cons] at h
    cases hs : f a init with
    | error e => rw [hs] at h; cases h
    | ok s =>
      rw [hs] at h
      have := hf a init s h0 hs
      cases s with
      | done b => injection h with h; exact .inr (h ▸ this)
      | yield b => exact ih b this h

theorem forIn_range_inv2 {β : Type} (P Q : β → Prop) (rg : Std.Legacy.Range) (f : Nat → β → R (ForInStep β)) (init r : β)
    (h0 : P init)
    (hf : ∀ a b s, P b → f a b = .ok s → match s with | .yield b' => P b' | .done b' => Q b')
    (h : forIn rg init f = Except.ok r) : P r ∨ Q r := by
  rw [Std.Legacy.Range.forIn_eq_forIn_range'] at h
  exact forIn_list_inv2 P Q _ f init r h0 hf h

/-! ### 4b. the frame header -/

/-- ZSTD_getFrameHeader_advanced (zstd1 format) once the 5 bytes of magic + descriptor are there, in the walker's vocabulary -/
theorem getHeader_zstd1_eq (src : Bytes) (start n : Nat) (h5 : 5 ≤ n) :
    getHeader src start n false =
      if src.le32 start ≠ ZSTD_MAGICNUMBER then
        if isSkippable (src.le32 start) then
          if n < 8 then .need 8
          else .ok { skippable := true, headerSize := 8, fcs := some (src.le32 (start + 4)), dictID := src.le32 start - ZSTD_MAGIC_SKIPPABLE_START }
        else .err .prefixUnknown
      else if n < headerSize (src.u8 (start + 4)) then .need (headerSize (src.u8 (start + 4)))
      else if (src.u8 (start + 4) / 8) % 2 = 1 then .err .unsupported
      else parseFields src (start + 5) (src.u8 (start + 4)) (headerSize (src.u8 (start + 4))) := by
  unfold getHeader
  simp only [Bool.false_eq_true, if_false, Bool.not_false, Bool.true_and, show ¬ n < 5 by omega, show start + 5 - 1 = start + 4 from rfl,
    headerSizeOf_eq, show ZSTD_SKIPPABLEHEADERSIZE = 8 from rfl]
  by_cases hm : src.le32 start = ZSTD_MAGICNUMBER
  · have a : (src.le32 start != ZSTD_MAGICNUMBER) = false := by simp [hm]
    rw [a, if_neg Bool.false_ne_true, if_neg (show ¬ (src.le32 start ≠ ZSTD_MAGICNUMBER) from fun c => c hm)]
    by_cases hh : n < headerSize (src.u8 (start + 4))
    · rw [if_pos hh, if_pos hh]
    rw [if_neg hh, if_neg hh]
    by_cases h8 : (src.u8 (start + 4) &&& 8 != 0) = true
    · rw [if_pos h8, if_pos ((and8_ne _).mp h8)]
    · rw [if_neg h8, if_neg (fun c => h8 ((and8_ne _).mpr c))]
  · have a : (src.le32 start != ZSTD_MAGICNUMBER) = true := by simpa using hm
    rw [a, if_pos rfl, if_pos hm]
    by_cases hs : isSkippable (src.le32 start)
    · rw [if_pos ((skippable_iff _ (le32_lt _ _)).mpr hs), if_pos hs]
    · rw [if_neg (fun c => hs ((skippable_iff _ (le32_lt _ _)).mp c)), if_neg hs]

theorem parseFields_checksum {src : ByteArray} {p fhd fh : Nat} {hd : Header} (h : parseFields src p fhd fh = .ok hd) :
    hd.headerSize = fh ∧ hd.skippable = false ∧ hd.descriptor = fhd ∧ (hd.checksum = true ↔ (fhd / 4) % 2 = 1) := by
  unfold parseFields at h
  simp only [] at h
  split at h
  · cases h
  · cases h
    refine ⟨rfl, rfl, rfl, ?_⟩
    simp only [Nat.shiftRight_eq_div_pow, Nat.and_one_is_mod, beq_iff_eq, Nat.reducePow]

/-- what a parsed, non-skippable zstd1 header says about the bytes -/
theorem getHeader_zstd1 {src : Bytes} {start n : Nat} {hd : Header} (h : getHeader src start n false = .ok hd) (hs : hd.skippable = false)
    (h5 : 5 ≤ n) :
    src.le32 start = ZSTD_MAGICNUMBER ∧ headerSize (src.u8 (start + 4)) ≤ n ∧ ¬ (src.u8 (start + 4) / 8) % 2 = 1 ∧
    hd.headerSize = headerSize (src.u8 (start + 4)) ∧ hd.descriptor = src.u8 (start + 4) ∧
    (hd.checksum = true ↔ (src.u8 (start + 4) / 4) % 2 = 1) := by
  rw [getHeader_zstd1_eq src start n h5] at h
  by_cases hm : src.le32 start ≠ ZSTD_MAGICNUMBER
  · rw [if_pos hm] at h
    repeat' split at h
    all_goals first | (cases h; done) | (cases h; cases hs)
  rw [if_neg hm] at h
  by_cases hh : n < headerSize (src.u8 (start + 4))
  · rw [if_pos hh] at h; cases h
  rw [if_neg hh] at h
  by_cases h8 : (src.u8 (start + 4) / 8) % 2 = 1
  · rw [if_pos h8] at h; cases h
  rw [if_neg h8] at h
  obtain ⟨p1, _, p3, p4⟩ := parseFields_checksum h
  exact ⟨by simpa using hm, by omega, h8, p1, p3, p4⟩


/-! ### 5. anatomy of an accepted frame (ZSTD_decompressFrame) -/

/-- the loop state of `decompressFrame`: ip, remaining, out, entropy tables, block traces, laxity note -/
abbrev FSt := Nat × Nat × ByteArray × Block.Entropy × Array BlockTrace × Option String

def lastSeen (st : FSt) : Bool := (st.2.2.2.2.1.back?.map (·.hdr.last)).getD false

/-- while the block loop goes on: no last block yet, and a successful walk of the rest extends to one of the whole -/
def Going (src : Bytes) (ipS remS : Nat) (st : FSt) : Prop :=
  lastSeen st = false ∧ ipS ≤ st.1 ∧ st.1 + st.2.1 = ipS + remS ∧
  ∀ u, walkBlocks (oracle src) st.1 st.2.1 = .ok u → walkBlocks (oracle src) ipS remS = .ok (st.1 - ipS + u)

/-- after the `break`: the last block was seen and the walker has the same extent -/
def Stopped (src : Bytes) (ipS remS : Nat) (st : FSt) : Prop :=
  lastSeen st = true ∧ ipS ≤ st.1 ∧ st.1 + st.2.1 = ipS + remS ∧ walkBlocks (oracle src) ipS remS = .ok (st.1 - ipS)

theorem going_step {src : Bytes} {ipS remS : Nat} {b : FSt} {v : BlockHdr} (o' : ByteArray) (e' : Block.Entropy) (bt : BlockTrace) (l' : Option String)
    (hb : Going src ipS remS b) (hbh : blockHeader src b.1 b.2.1 = .ok v) (hc : ¬ v.cSize > b.2.1 - 3) (hbt : bt.hdr = v) :
    (v.last = true → Stopped src ipS remS (b.1 + 3 + v.cSize, b.2.1 - 3 - v.cSize, o', e', b.2.2.2.2.1.push bt, l')) ∧
    (¬ v.last = true → Going src ipS remS (b.1 + 3 + v.cSize, b.2.1 - 3 - v.cSize, o', e', b.2.2.2.2.1.push bt, l')) := by
  obtain ⟨_, h1, h2, h3⟩ := hb
  obtain ⟨hle, hw⟩ := walk_step hbh hc
  constructor
  · intro hl
    rw [hl, if_pos rfl] at hw
    refine ⟨by simp [lastSeen, hbt, hl], by simp only []; omega, by simp only []; omega, ?_⟩
    rw [h3 _ hw]
    simp only []
    congr 1; omega
  · intro hl
    rw [if_neg hl] at hw
    refine ⟨by simpa [lastSeen, hbt] using hl, by simp only []; omega, by simp only []; omega, ?_⟩
    intro u hu
    simp only [] at hu
    rw [show b.1 + 3 + v.cSize = b.1 + (3 + v.cSize) by omega, show b.2.1 - 3 - v.cSize = b.2.1 - (3 + v.cSize) by omega] at hu
    rw [hu] at hw
    rw [h3 _ hw]
    simp only []
    congr 1; omega

/-- offset of the frame-header descriptor byte, and the frame header size the decoder computes from it -/
def fhdPos (o : Opts) : Nat := if o.magicless = true then 0 else 4
def fhSizeAt (src : Bytes) (ip0 : Nat) (o : Opts) : Nat := headerSizeOf (src.u8 (ip0 + fhdPos o)) o.magicless

/-- **anatomy of an accepted frame**: everything `ZSTD_decompressFrame` has checked when it returns success -/
theorem decompressFrame_anatomy {src : Bytes} {ip0 rem : Nat} {dict : Dict} {out0 : ByteArray} {cap : Nat} {o : Opts}
    {out : ByteArray} {used : Nat} {tr : FrameTrace}
    (h : decompressFrame src ip0 rem dict out0 cap o = .ok (out, used, tr)) :
    getHeader src ip0 (fhSizeAt src ip0 o) o.magicless = .ok tr.hdr ∧ tr.hdr.skippable = false ∧
    (tr.hdr.dictID != 0 && dict.id != tr.hdr.dictID) = false ∧
    fhSizeAt src ip0 o + 3 ≤ rem ∧
    (∃ u, walkBlocks (oracle src) (ip0 + fhSizeAt src ip0 o) (rem - fhSizeAt src ip0 o) = .ok u ∧
      used = fhSizeAt src ip0 o + u + (if tr.hdr.checksum = true then 4 else 0) ∧ used ≤ rem ∧
      (tr.hdr.checksum = true →
        tr.storedChecksum = some (src.le32 (ip0 + fhSizeAt src ip0 o + u)) ∧
        (o.ignoreChecksum = false → src.le32 (ip0 + fhSizeAt src ip0 o + u) =
          (XXH64.hashRange out out0.size (out.size - out0.size)).toNat &&& 0xFFFFFFFF))) ∧
    (∀ n, tr.hdr.fcs = some n → out.size - out0.size = n) ∧
    tr.start = ip0 ∧ tr.size = used ∧ tr.regenStart = out0.size ∧ tr.regenSize = out.size - out0.size := by
  unfold decompressFrame at h
  simp only [bind, Except.bind, pure, Except.pure, throw, throwThe, MonadExceptOf.throw] at h
  by_cases c1 : rem < (if o.magicless = true then 2 else 6) + Gen.ZSTD_blockHeaderSize
  · rw [if_pos c1] at h; cases h
  rw [if_neg c1] at h
  by_cases c2 : rem < headerSizeOf (ByteArray.u8 src (ip0 + if o.magicless = true then 0 else 4)) o.magicless + Gen.ZSTD_blockHeaderSize
  · rw [if_pos c2] at h; cases h
  rw [if_neg c2] at h
  generalize hg : getHeader src ip0 _ o.magicless = g at h
  cases g with
  | need n => cases h
  | err e => cases h
  | ok hd =>
    simp only [] at h
    by_cases c3 : hd.skippable = true
    · rw [if_pos c3] at h; cases h
    rw [if_neg c3] at h
    by_cases c4 : (hd.dictID != 0 && dict.id != hd.dictID) = true
    · rw [if_pos c4] at h; cases h
    rw [if_neg c4] at h
    generalize (if (o.maxBlockSize != 0) = true then min hd.blockSizeMax o.maxBlockSize else hd.blockSizeMax) = bsm at h
    change getHeader src ip0 (fhSizeAt src ip0 o) o.magicless = .ok hd at hg
    change ¬ rem < fhSizeAt src ip0 o + 3 at c2
    generalize hloop : forIn (m := R) (ρ := Std.Legacy.Range) _ _ _ = L at h
    cases L with
    | error e => cases h
    | ok s =>
      simp only [] at h
      have hR := forIn_range_inv2 (Going src (ip0 + fhSizeAt src ip0 o) (rem - fhSizeAt src ip0 o))
        (Stopped src (ip0 + fhSizeAt src ip0 o) (rem - fhSizeAt src ip0 o)) _ _ _ s
        ⟨rfl, Nat.le_refl _, rfl, fun u hu => by
          have hu2 : walkBlocks (oracle src) (ip0 + fhSizeAt src ip0 o) (rem - fhSizeAt src ip0 o) = .ok u := hu
          rw [hu2]; show Except.ok u = Except.ok (ip0 + fhSizeAt src ip0 o - (ip0 + fhSizeAt src ip0 o) + u)
          rw [Nat.sub_self, Nat.zero_add]⟩ ?body hloop
      case body =>
        intro a b r hb hbody
        generalize hbh : blockHeader src b.1 b.2.1 = bh at hbody
        cases bh with
        | error e => cases hbody
        | ok v =>
          simp only [show ZSTD_blockHeaderSize = 3 from rfl] at hbody
          split at hbody; · cases hbody
          rename_i hc
          repeat' split at hbody
          all_goals first
            | (cases hbody; done)
            | (cases hbody; exact (going_step _ _ _ _ hb hbh hc rfl).1 ‹_›)
            | (cases hbody; exact (going_step _ _ _ _ hb hbh hc rfl).2 ‹_›)
      clear hloop
      have c2b : fhSizeAt src ip0 o + 3 ≤ rem := by omega
      by_cases cl : (!(Option.map (fun x : BlockTrace => x.hdr.last) s.2.2.2.2.1.back?).getD false) = true
      · rw [if_pos cl] at h; cases h
      rw [if_neg cl] at h
      have hS : Stopped src (ip0 + fhSizeAt src ip0 o) (rem - fhSizeAt src ip0 o) s := by
        rcases hR with hG | hS
        · exfalso; apply cl; have := hG.1; unfold lastSeen at this; rw [this]; rfl
        · exact hS
      obtain ⟨_, s1, s2, s3⟩ := hS
      have hu : ip0 + fhSizeAt src ip0 o + (s.1 - (ip0 + fhSizeAt src ip0 o)) = s.1 := by omega
      -- the fields that do not depend on which checks were made
      have hfix : out = s.2.2.1 ∧ tr.hdr = hd ∧ tr.start = ip0 ∧ tr.size = used ∧ tr.regenStart = out0.size ∧
          tr.regenSize = out.size - out0.size := by
        repeat' split at h
        all_goals first | (cases h; done) | (cases h; exact ⟨rfl, rfl, rfl, rfl, rfl, rfl⟩)
      obtain ⟨e1, e2, e3, e4, e5, e6⟩ := hfix
      subst e1
      rw [e2]
      have hfcs : ∀ n, hd.fcs = some n → s.2.2.1.size - out0.size = n := by
        intro n hn
        rw [hn] at h
        simp only [] at h
        by_cases cf : (s.2.2.1.size - out0.size != n) = true
        · rw [if_pos cf] at h; cases h
        · simpa using cf
      have hck : used = s.1 + (if hd.checksum = true then 4 else 0) - ip0 ∧ (hd.checksum = true → 4 ≤ s.2.1 ∧
          tr.storedChecksum = some (src.le32 s.1) ∧
          (o.ignoreChecksum = false → src.le32 s.1 = (XXH64.hashRange s.2.2.1 out0.size (s.2.2.1.size - out0.size)).toNat &&& 0xFFFFFFFF)) := by
        by_cases ck : hd.checksum = true
        · simp only [ck, if_true] at h ⊢
          repeat' split at h
          all_goals first
            | (cases h; done)
            | (cases h; refine ⟨rfl, fun _ => ⟨by omega, rfl, fun hi => ?_⟩⟩; simp_all; done)
        · rw [Bool.not_eq_true] at ck
          simp only [ck, Bool.false_eq_true, if_false] at h ⊢
          repeat' split at h
          all_goals first
            | (cases h; done)
            | (cases h; exact ⟨rfl, fun hc => absurd hc (by simp)⟩)
      refine ⟨hg, by simpa using c3, by simpa using c4, c2b, ⟨s.1 - (ip0 + fhSizeAt src ip0 o), s3, ?_, ?_, ?_⟩, hfcs, e3, e4, e5, e6⟩
      · rw [hck.1]; split <;> omega
      · rw [hck.1]; split
        · have := (hck.2 ‹_›).1; omega
        · omega
      · rw [hu]; intro hc; exact (hck.2 hc).2

/-! ### 6. the theorems about one frame -/

theorem oracle_apply (src : Bytes) (i : Nat) : oracle src i = src.u8 i := rfl

theorem fhSizeAt_zstd1 (src : Bytes) (ip0 : Nat) {o : Opts} (hml : o.magicless = false) :
    fhSizeAt src ip0 o = headerSize (src.u8 (ip0 + 4)) := by
  unfold fhSizeAt fhdPos
  rw [hml, if_neg Bool.false_ne_true, headerSizeOf_eq]

/-- **1. the decoder agrees with the walker on the extent of every frame it accepts.**  If ZSTD_decompressFrame succeeds having
consumed `used` bytes, then ZSTD_findFrameCompressedSize (walker form) finds a frame of exactly `used` bytes at the same place,
given the same `rem` bytes, or any other amount `rem' ≥ used`; and with fewer than `used` bytes the walker fails. -/
theorem decompressFrame_walks {src : Bytes} {ip0 rem : Nat} {dict : Dict} {out0 : ByteArray} {cap : Nat} {o : Opts}
    {out : ByteArray} {used : Nat} {tr : FrameTrace} (hml : o.magicless = false)
    (h : decompressFrame src ip0 rem dict out0 cap o = .ok (out, used, tr)) :
    frameSize (oracle src) ip0 rem = .ok used ∧
    (∀ rem', used ≤ rem' → frameSize (oracle src) ip0 rem' = .ok used) ∧
    (∀ rem', rem' < used → ∃ e, frameSize (oracle src) ip0 rem' = .error e) := by
  obtain ⟨hg, hsk, _, hroom, ⟨u, hw, hused, hle, _⟩, _⟩ := decompressFrame_anatomy h
  rw [fhSizeAt_zstd1 src ip0 hml] at hg hroom hw hused
  rw [hml] at hg
  have h5 := headerSize_ge (src.u8 (ip0 + 4))
  obtain ⟨hmagic, _, h8, _, _, hck⟩ := getHeader_zstd1 hg hsk h5
  have key : frameSize (oracle src) ip0 rem = .ok used := by
    unfold frameSize
    rw [le32_oracle, oracle_apply, hmagic, if_neg (by omega), if_neg (by decide), if_neg (fun c => c rfl), if_neg (by omega),
      if_neg h8, hw]
    simp only []
    have e : ckSize (src.u8 (ip0 + 4)) = if tr.hdr.checksum = true then 4 else 0 := by
      unfold ckSize
      by_cases c : src.u8 (ip0 + 4) / 4 % 2 = 1
      · rw [if_pos c, if_pos (hck.mpr c)]
      · rw [if_neg c, if_neg (fun c2 => c (hck.mp c2))]
    rw [e, ← hused, if_neg (by omega)]
  obtain ⟨_, _, hge, hlt⟩ := frameSize_exact _ _ _ _ key
  exact ⟨key, hge, hlt⟩

/-- ZSTD_decompressFrame never reports more consumed bytes than it was given -/
theorem decompressFrame_used_le {src : Bytes} {ip0 rem : Nat} {dict : Dict} {out0 : ByteArray} {cap : Nat} {o : Opts}
    {out : ByteArray} {used : Nat} {tr : FrameTrace}
    (h : decompressFrame src ip0 rem dict out0 cap o = .ok (out, used, tr)) : used ≤ rem ∧ 0 < used := by
  obtain ⟨_, _, _, _, ⟨u, _, hused, hle, _⟩, _⟩ := decompressFrame_anatomy h
  refine ⟨hle, ?_⟩
  have := FrameRT.headerSizeOf_ge (src.u8 (ip0 + fhdPos o)) o.magicless
  unfold fhSizeAt at hused
  split at this <;> omega

/-- frame-level truncation: the extent of an accepted frame does not depend on the dictionary, the capacity, the options or the
amount of input announced — a second successful decode at the same place consumes the same number of bytes, and announcing fewer
than `used` bytes makes ZSTD_decompressFrame fail -/
theorem decompressFrame_rejects_short {src : Bytes} {ip0 rem : Nat} {dict : Dict} {out0 : ByteArray} {cap : Nat} {o : Opts}
    {out : ByteArray} {used : Nat} {tr : FrameTrace} (hml : o.magicless = false)
    (h : decompressFrame src ip0 rem dict out0 cap o = .ok (out, used, tr))
    (rem2 : Nat) (dict2 : Dict) (out02 : ByteArray) (cap2 : Nat) (o2 : Opts) (hml2 : o2.magicless = false) :
    (∀ out2 used2 tr2, decompressFrame src ip0 rem2 dict2 out02 cap2 o2 = .ok (out2, used2, tr2) → used2 = used) ∧
    (rem2 < used → ∃ e, decompressFrame src ip0 rem2 dict2 out02 cap2 o2 = .error e) := by
  obtain ⟨_, hge, hlt⟩ := decompressFrame_walks hml h
  have huniq : ∀ out2 used2 tr2, decompressFrame src ip0 rem2 dict2 out02 cap2 o2 = .ok (out2, used2, tr2) → used2 = used := by
    intro out2 used2 tr2 h2
    have w2 := (decompressFrame_walks hml2 h2).1
    have hle2 := (decompressFrame_used_le h2).1
    by_cases c : rem2 < used
    · obtain ⟨e, he⟩ := hlt rem2 c
      rw [he] at w2; cases w2
    · rw [hge rem2 (by omega)] at w2
      cases w2; rfl
  refine ⟨huniq, fun c => ?_⟩
  cases h2 : decompressFrame src ip0 rem2 dict2 out02 cap2 o2 with
  | error e => exact ⟨e, rfl⟩
  | ok r =>
    have := huniq r.1 r.2.1 r.2.2 h2
    have hle2 := (decompressFrame_used_le (out := r.1) (used := r.2.1) (tr := r.2.2) h2).1
    omega


/-! ### 7. several frames (ZSTD_decompressMultiFrame) -/

/-- the compressed sizes of the frames (zstd and skippable) the decoder went through, in order -/
def sizesOf (traces : Array FrameTrace) : List Nat := traces.toList.map (·.size)

theorem sizesOf_push (T : Array FrameTrace) (t : FrameTrace) : sizesOf (T.push t) = sizesOf T ++ [t.size] := by
  simp [sizesOf]

/-- loop invariant of ZSTD_decompressMultiFrame: the frames consumed so far, followed by any tiling of the rest, tile the input -/
def Tiling (g : Get) (size ip rem : Nat) (T : Array FrameTrace) : Prop :=
  ip + rem = size ∧ ∀ f L, frames g f ip rem = .ok L → frames g (T.size + f) 0 size = .ok (sizesOf T ++ L)

theorem tiling_step {g : Get} {size ip rem n : Nat} {T : Array FrameTrace} (t : FrameTrace) (hinv : Tiling g size ip rem T)
    (hfs : frameSize g ip rem = .ok n) (ht : t.size = n) : Tiling g size (ip + n) (rem - n) (T.push t) := by
  obtain ⟨hle, hpos, _, _⟩ := frameSize_exact g ip rem n hfs
  refine ⟨by have := hinv.1; omega, fun f L hL => ?_⟩
  have h1 : frames g (f + 1) ip rem = .ok (n :: L) := by
    unfold frames
    rw [if_neg (by omega), hfs]
    simp only []
    rw [hL]
  have h2 := hinv.2 (f + 1) (n :: L) h1
  rw [Array.size_push, sizesOf_push, ht, show T.size + 1 + f = T.size + (f + 1) by omega, h2, List.append_assoc]
  rfl

/-- readSkippableFrameSize accepted ⇒ the walker sees the same skippable frame -/
theorem skippable_walks {src : Bytes} {ip rem v : Nat} (h5 : ¬ rem < 5)
    (hm : (src.le32 ip &&& ZSTD_MAGIC_SKIPPABLE_MASK == ZSTD_MAGIC_SKIPPABLE_START) = true)
    (h : skippableSize src ip rem = .ok v) : frameSize (oracle src) ip rem = .ok v := by
  unfold skippableSize at h
  simp only [show ZSTD_SKIPPABLEHEADERSIZE = 8 from rfl] at h
  split at h; · cases h
  split at h; · cases h
  split at h; · cases h
  cases h
  unfold frameSize
  rw [le32_oracle, le32_oracle, if_neg h5, if_pos ((skippable_iff _ (le32_lt _ _)).mp hm), if_neg (by omega), if_neg (by omega)]

/-- **2. an input accepted by ZSTD_decompress is EXACTLY a whole number of frames and skippable frames**: the multi-frame walker
accepts it, with the frame sizes the decoder recorded (any fuel at least the number of frames) -/
theorem decompressAll_walks {src : Bytes} {dict : Dict} {cap : Nat} {o : Opts} {out : ByteArray} {traces : Array FrameTrace}
    (hml : o.magicless = false) (h : decompressAll src dict cap o = .ok (out, traces)) :
    ∀ fuel, traces.size ≤ fuel → frames (oracle src) fuel 0 src.size = .ok (sizesOf traces) := by
  unfold decompressAll at h
  simp only [bind, Except.bind, pure, Except.pure, throw, throwThe, MonadExceptOf.throw, hml, Bool.false_eq_true, if_false,
    Bool.not_false, Bool.true_and] at h
  generalize hloop : forIn (m := R) (ρ := Std.Legacy.Range) _ _ _ = L at h
  cases L with
  | error e => cases h
  | ok s =>
    simp only [] at h
    split at h; · cases h
    rename_i hrem
    cases h
    have hT : Tiling (oracle src) src.size s.1 s.2.1 s.2.2.2.1 := by
      refine forIn_range_inv (fun st : Nat × Nat × ByteArray × Array FrameTrace × Bool =>
        Tiling (oracle src) src.size st.1 st.2.1 st.2.2.2.1) _ _ _ s
        ⟨Nat.zero_add _, fun f L hL => by rw [show sizesOf #[] = [] from rfl, List.nil_append]; simpa using hL⟩ ?_ hloop
      intro a b r hb hbody
      split at hbody
      · cases hbody; exact hb
      rename_i h5
      rw [if_pos (decide_eq_true (by omega))] at hbody
      split at hbody; · cases hbody
      split at hbody
      · rename_i hm
        split at hbody; · cases hbody
        rename_i v hv
        cases hbody
        exact tiling_step _ hb (skippable_walks h5 hm hv) rfl
      · split at hbody
        · split at hbody <;> cases hbody
        · cases hbody
        · rename_i out1 used tr hfr
          cases hbody
          exact tiling_step _ hb (decompressFrame_walks hml hfr).1 (decompressFrame_anatomy hfr).2.2.2.2.2.2.2.1
    have h0 : s.2.1 = 0 := by simpa using hrem
    intro fuel hf
    have := hT.2 0 [] (by rw [h0]; unfold frames; rfl)
    rw [List.append_nil] at this
    exact (frames_fuel _ _ _ _ _ this).2 fuel (by simpa [sizesOf] using hf)


/-! ### 8. MAIN THEOREMS: truncation -/

theorem size_extract_prefix (src : Bytes) (k : Nat) (hk : k ≤ src.size) : (src.extract 0 k).size = k := by
  rw [ByteArray.size_extract]; omega

theorem u8_extract_prefix (src : Bytes) (k i : Nat) (hk : k ≤ src.size) (hi : i < k) : (src.extract 0 k).u8 i = src.u8 i := by
  have hs := size_extract_prefix src k hk
  unfold ByteArray.u8
  rw [dif_pos (by omega), dif_pos (by omega), ByteArray.getElem_extract]
  simp only [Nat.zero_add]

/-- `k` is the end of one of the frames the decoder went through (or 0) -/
def FrameBoundary (traces : Array FrameTrace) (k : Nat) : Prop := ∃ m, k = ((sizesOf traces).take m).sum

/-- **2a. a cut of an accepted input that is accepted too lies on a frame boundary**: the frames decoded from the cut are exactly
the first frames of the original (same compressed sizes, nothing else), and they add up to the cut length.  The two decodes may use
different dictionaries, capacities and options. -/
theorem truncation_lands_on_frame_boundary {src : Bytes} {dict : Dict} {cap : Nat} {o : Opts} {out : ByteArray} {traces : Array FrameTrace}
    (hml : o.magicless = false) (h : decompressAll src dict cap o = .ok (out, traces))
    {k : Nat} (hk : k ≤ src.size) {dict2 : Dict} {cap2 : Nat} {o2 : Opts} {out2 : ByteArray} {traces2 : Array FrameTrace}
    (hml2 : o2.magicless = false) (h2 : decompressAll (src.extract 0 k) dict2 cap2 o2 = .ok (out2, traces2)) :
    sizesOf traces2 <+: sizesOf traces ∧ (sizesOf traces2).sum = k ∧ FrameBoundary traces k := by
  have W := decompressAll_walks hml h _ (Nat.le_refl _)
  have W2 := decompressAll_walks hml2 h2 _ (Nat.le_refl _)
  rw [size_extract_prefix src k hk,
    frames_congr (oracle (src.extract 0 k)) (oracle src) _ 0 0 k (fun i hi => by
      simp only [Nat.zero_add, oracle_apply]; exact u8_extract_prefix src k i hk hi)] at W2
  have hp := accepted_prefix_is_frame_boundary _ _ _ _ _ _ _ _ W W2 hk
  have hs := frames_tile _ _ _ _ _ W2
  refine ⟨hp, hs, (sizesOf traces2).length, ?_⟩
  rw [← List.prefix_iff_eq_take.mp hp, hs]

/-- **2b. MAIN: truncation is never accepted.**  If ZSTD_decompress accepts `src`, then for every cut `k` that is not the end of one
of its frames, ZSTD_decompress of the first `k` bytes is an error — for every dictionary, capacity and option set (zstd1 format),
never a shorter success. -/
theorem decoder_rejects_truncation {src : Bytes} {dict : Dict} {cap : Nat} {o : Opts} {out : ByteArray} {traces : Array FrameTrace}
    (hml : o.magicless = false) (h : decompressAll src dict cap o = .ok (out, traces))
    {k : Nat} (hk : k ≤ src.size) (hnb : ¬ FrameBoundary traces k) (dict2 : Dict) (cap2 : Nat) (o2 : Opts) (hml2 : o2.magicless = false) :
    ∃ e, decompressAll (src.extract 0 k) dict2 cap2 o2 = .error e := by
  cases h2 : decompressAll (src.extract 0 k) dict2 cap2 o2 with
  | error e => exact ⟨e, rfl⟩
  | ok r => exact absurd (truncation_lands_on_frame_boundary hml h hk hml2 (out2 := r.1) (traces2 := r.2) h2).2.2 hnb

/-- single frame: every non-empty proper prefix is rejected -/
theorem decoder_rejects_truncation_single {src : Bytes} {dict : Dict} {cap : Nat} {o : Opts} {out : ByteArray} {traces : Array FrameTrace}
    (hml : o.magicless = false) (h : decompressAll src dict cap o = .ok (out, traces)) (h1 : traces.size = 1)
    {k : Nat} (hk0 : 0 < k) (hk : k < src.size) (dict2 : Dict) (cap2 : Nat) (o2 : Opts) (hml2 : o2.magicless = false) :
    ∃ e, decompressAll (src.extract 0 k) dict2 cap2 o2 = .error e := by
  refine decoder_rejects_truncation hml h (Nat.le_of_lt hk) ?_ dict2 cap2 o2 hml2
  rintro ⟨m, hm⟩
  have hs := frames_tile _ _ _ _ _ (decompressAll_walks hml h _ (Nat.le_refl _))
  have hl : (sizesOf traces).length = 1 := by simp [sizesOf, h1]
  cases m with
  | zero => simp at hm; omega
  | succ m =>
    rw [List.take_of_length_le (by omega), hs] at hm
    omega

theorem sum_take_le (L : List Nat) (m : Nat) : (L.take m).sum ≤ L.sum := by
  induction L generalizing m with
  | nil => simp
  | cons a L ih =>
    cases m with
    | zero => simp
    | succ m => simp only [List.take_succ_cons, List.sum_cons]; have := ih m; omega

/-- the last frame of a multi-frame input: a cut strictly inside it is rejected -/
theorem decoder_rejects_truncation_last {src : Bytes} {dict : Dict} {cap : Nat} {o : Opts} {out : ByteArray} {traces : Array FrameTrace}
    (hml : o.magicless = false) (h : decompressAll src dict cap o = .ok (out, traces)) {last : FrameTrace} (hl : traces.back? = some last)
    {k : Nat} (hk0 : src.size - last.size < k) (hk : k < src.size) (dict2 : Dict) (cap2 : Nat) (o2 : Opts) (hml2 : o2.magicless = false) :
    ∃ e, decompressAll (src.extract 0 k) dict2 cap2 o2 = .error e := by
  refine decoder_rejects_truncation hml h (Nat.le_of_lt hk) ?_ dict2 cap2 o2 hml2
  rintro ⟨m, hm⟩
  have hs := frames_tile _ _ _ _ _ (decompressAll_walks hml h _ (Nat.le_refl _))
  obtain ⟨T, hT⟩ := Array.back?_eq_some_iff.mp hl
  subst hT
  rw [sizesOf_push] at hm hs
  rw [List.sum_append] at hs
  simp only [List.sum_cons, List.sum_nil, Nat.add_zero] at hs
  by_cases c : m ≤ (sizesOf T).length
  · rw [List.take_append_of_le_length c] at hm
    have := sum_take_le (sizesOf T) m
    omega
  · rw [List.take_of_length_le (by simp; omega), List.sum_append] at hm
    simp only [List.sum_cons, List.sum_nil, Nat.add_zero] at hm
    omega


/-! ### 9. MAIN THEOREMS: trailing garbage -/

/-- walker form: if `src` is a whole number of frames and `src ++ junk` is accepted by the decoder, then `junk` is a whole number
of frames, and the frames of `src ++ junk` are those of `src` followed by those of `junk` -/
theorem tail_of_accepted_is_frames {src junk : Bytes} {dict : Dict} {cap : Nat} {o : Opts} {out : ByteArray} {traces : Array FrameTrace}
    (hml : o.magicless = false) (h : decompressAll (src ++ junk) dict cap o = .ok (out, traces))
    {f0 : Nat} {L0 : List Nat} (h0 : frames (oracle src) f0 0 src.size = .ok L0) :
    ∃ L, sizesOf traces = L0 ++ L ∧ ∀ fuel, L.length ≤ fuel → frames (oracle junk) fuel 0 junk.size = .ok L := by
  have W := decompressAll_walks hml h _ (Nat.le_refl _)
  rw [ByteArray.size_append] at W
  rw [frames_congr (oracle src) (oracle (src ++ junk)) f0 0 0 src.size (fun i hi => by
    simp only [Nat.zero_add, oracle_apply]; exact (FrameRT.u8_append_left src junk i hi).symm)] at h0
  obtain ⟨L, hL, hfr⟩ := frames_split _ _ _ _ _ _ _ _ h0 W
  rw [frames_congr (oracle (src ++ junk)) (oracle junk) _ (0 + src.size) 0 junk.size (fun i hi => by
    simp only [Nat.zero_add, oracle_apply]; exact FrameRT.u8_append_right src junk i)] at hfr
  exact ⟨L, hL, (frames_fuel _ _ _ _ _ hfr).2⟩

/-- **2c. MAIN: trailing garbage is never accepted.**  If ZSTD_decompress accepts `src` and also accepts `src ++ junk`, then `junk`
is itself a whole number of frames and skippable frames (the multi-frame walker accepts it), and the decoder went through
the frames of `src` and then through those of `junk`. -/
theorem decoder_rejects_trailing_garbage {src junk : Bytes} {dict : Dict} {cap : Nat} {o : Opts} {out : ByteArray} {traces : Array FrameTrace}
    (hml : o.magicless = false) (h : decompressAll (src ++ junk) dict cap o = .ok (out, traces))
    {dict0 : Dict} {cap0 : Nat} {o0 : Opts} {out0 : ByteArray} {traces0 : Array FrameTrace}
    (hml0 : o0.magicless = false) (h0 : decompressAll src dict0 cap0 o0 = .ok (out0, traces0)) :
    ∃ L, sizesOf traces = sizesOf traces0 ++ L ∧ ∀ fuel, L.length ≤ fuel → frames (oracle junk) fuel 0 junk.size = .ok L :=
  tail_of_accepted_is_frames hml h (decompressAll_walks hml0 h0 _ (Nat.le_refl _))

/-- contrapositive, in the form of Props/C09 `trailing_garbage_rejected`: trailing bytes that do not start with a frame (the frame
walker fails on them whatever length it is given) make ZSTD_decompress fail -/
theorem decoder_rejects_non_frame_tail {src junk : Bytes} {dict0 : Dict} {cap0 : Nat} {o0 : Opts} {out0 : ByteArray} {traces0 : Array FrameTrace}
    (hml0 : o0.magicless = false) (h0 : decompressAll src dict0 cap0 o0 = .ok (out0, traces0))
    (hj : 0 < junk.size) (hg : ∀ rem', ∃ e, frameSize (oracle junk) 0 rem' = .error e)
    (dict : Dict) (cap : Nat) (o : Opts) (hml : o.magicless = false) :
    ∃ e, decompressAll (src ++ junk) dict cap o = .error e := by
  cases h : decompressAll (src ++ junk) dict cap o with
  | error e => exact ⟨e, rfl⟩
  | ok r =>
    exfalso
    obtain ⟨L, _, hfr⟩ := decoder_rejects_trailing_garbage hml (out := r.1) (traces := r.2) h hml0 h0
    have h1 := hfr (L.length + 1) (Nat.le_succ _)
    unfold frames at h1
    rw [if_neg (by omega)] at h1
    obtain ⟨e, he⟩ := hg junk.size
    rw [he] at h1
    cases h1


/-! ### 10. header truthfulness in the full decoder -/

/-- the header recorded in the trace is the one ZSTD_getFrameHeader reports on the whole remaining input -/
theorem decompressFrame_header {src : Bytes} {ip0 rem : Nat} {dict : Dict} {out0 : ByteArray} {cap : Nat} {o : Opts}
    {out : ByteArray} {used : Nat} {tr : FrameTrace}
    (h : decompressFrame src ip0 rem dict out0 cap o = .ok (out, used, tr)) :
    getHeader src ip0 rem o.magicless = .ok tr.hdr ∧ tr.hdr.headerSize = fhSizeAt src ip0 o := by
  obtain ⟨hg, hsk, _, hroom, _⟩ := decompressFrame_anatomy h
  have e : src.u8 (ip0 + (if o.magicless = true then 1 else 5) - 1) = src.u8 (ip0 + fhdPos o) := by
    unfold fhdPos; cases o.magicless <;> rfl
  obtain ⟨p1, _⟩ := FrameRT.getHeader_resize hg hsk (Nat.le_refl _)
  rw [e] at p1
  have p1b : tr.hdr.headerSize = fhSizeAt src ip0 o := p1
  exact ⟨(FrameRT.getHeader_resize hg hsk (by omega)).2, p1b⟩

/-- **3a. the announced content size is enforced** (ZSTD_decompressFrame: `FCS != regenerated size → corruption_detected`) -/
theorem decoder_fcs_enforced {src : Bytes} {ip0 rem : Nat} {dict : Dict} {out0 : ByteArray} {cap : Nat} {o : Opts}
    {out : ByteArray} {used : Nat} {tr : FrameTrace}
    (h : decompressFrame src ip0 rem dict out0 cap o = .ok (out, used, tr))
    {hd : Header} {n : Nat} (hh : getHeader src ip0 rem o.magicless = .ok hd) (hn : hd.fcs = some n) :
    out.size - out0.size = n := by
  have e := (decompressFrame_header h).1
  rw [hh] at e
  cases e
  exact (decompressFrame_anatomy h).2.2.2.2.2.1 n hn

/-- **3b. the content checksum is enforced**: the 4 bytes that end the frame are the low 32 bits of XXH64 of the regenerated
content (unless the caller asked to ignore the checksum) -/
theorem decoder_checksum_enforced {src : Bytes} {ip0 rem : Nat} {dict : Dict} {out0 : ByteArray} {cap : Nat} {o : Opts}
    {out : ByteArray} {used : Nat} {tr : FrameTrace}
    (h : decompressFrame src ip0 rem dict out0 cap o = .ok (out, used, tr))
    {hd : Header} (hh : getHeader src ip0 rem o.magicless = .ok hd) (hc : hd.checksum = true) (hi : o.ignoreChecksum = false) :
    4 ≤ used ∧ tr.storedChecksum = some (src.le32 (ip0 + used - 4)) ∧
    src.le32 (ip0 + used - 4) = (XXH64.hashRange out out0.size (out.size - out0.size)).toNat &&& 0xFFFFFFFF := by
  have e := (decompressFrame_header h).1
  rw [hh] at e
  cases e
  obtain ⟨_, _, _, _, ⟨u, _, hused, _, hck⟩, _⟩ := decompressFrame_anatomy h
  rw [if_pos hc] at hused
  have e2 : ip0 + used - 4 = ip0 + fhSizeAt src ip0 o + u := by omega
  rw [e2]
  exact ⟨by omega, (hck hc).1, (hck hc).2 hi⟩

/-- **3c. the dictionary ID is enforced** (ZSTD_decompressFrame → ZSTD_decodeFrameHeader: `dictID mismatch → dictionary_wrong`) -/
theorem decoder_dictID_enforced {src : Bytes} {ip0 rem : Nat} {dict : Dict} {out0 : ByteArray} {cap : Nat} {o : Opts}
    {out : ByteArray} {used : Nat} {tr : FrameTrace}
    (h : decompressFrame src ip0 rem dict out0 cap o = .ok (out, used, tr))
    {hd : Header} (hh : getHeader src ip0 rem o.magicless = .ok hd) (hn : hd.dictID ≠ 0) : dict.id = hd.dictID := by
  have e := (decompressFrame_header h).1
  rw [hh] at e
  cases e
  have := (decompressFrame_anatomy h).2.2.1
  simpa [hn] using this


/-! ### 11. ZSTD_findFrameCompressedSize: the decoder model's transcription against the walker's -/

/-- the body of the block loop of `Frame.findFrameCompressedSize` (ZSTD_findFrameSizeInfo): state = (ip, remaining, doneLast) -/
def ffBody (src : Bytes) (s : Nat × Nat × Bool) : R (ForInStep (Nat × Nat × Bool)) :=
  match blockHeader src s.1 s.2.1 with
  | .error err => .error err
  | .ok v =>
    if ZSTD_blockHeaderSize + v.cSize > s.2.1 then .error (.srcSizeWrongAt "Frame:256")
    else if v.last = true then .ok (.done (s.1 + ZSTD_blockHeaderSize + v.cSize, s.2.1 - (ZSTD_blockHeaderSize + v.cSize), true))
    else .ok (.yield (s.1 + ZSTD_blockHeaderSize + v.cSize, s.2.1 - (ZSTD_blockHeaderSize + v.cSize), s.2.2))

/-- the block loop of ZSTD_findFrameSizeInfo computes `walkBlocks`, as long as the iteration bound is not the limiting factor
(one iteration per block, every block takes at least 3 bytes) -/
theorem ff_loop (src : Bytes) {α : Type} (f : α → Nat × Nat × Bool → R (ForInStep (Nat × Nat × Bool))) (hf : ∀ a s, f a s = ffBody src s)
    (l : List α) (ip r : Nat) (hl : r ≤ l.length) :
    match walkBlocks (oracle src) ip r with
    | .ok u => u ≤ r ∧ forIn l (ip, r, false) f = .ok (ip + u, r - u, true)
    | .error e => (∃ e', forIn l (ip, r, false) f = .error e' ∧ e'.cls = e.cls) ∨
                  (∃ st, forIn l (ip, r, false) f = .ok st ∧ st.2.2 = false ∧ e.cls = "srcSize_wrong") := by
  induction l generalizing ip r with
  | nil =>
    have : r = 0 := by simpa using hl
    subst this
    rw [walkBlocks.eq_1, if_pos (by omega)]
    exact .inr ⟨_, rfl, rfl, rfl⟩
  | cons a l ih =>
    have hx := bExtent_ge (le24 (oracle src) ip)
    rw [List.forIn_cons, hf, walkBlocks.eq_1]
    unfold ffBody
    rw [blockHeader_eq]
    simp only [show ZSTD_blockHeaderSize = 3 from rfl]
    by_cases h3 : r < 3
    · rw [if_pos h3, if_pos h3]; exact .inl ⟨_, rfl, rfl⟩
    rw [if_neg h3, if_neg h3]
    by_cases ht : bType (le24 (oracle src) ip) = 3
    · rw [if_pos ht, if_pos ht]; exact .inl ⟨_, rfl, rfl⟩
    rw [if_neg ht, if_neg ht]
    simp only []
    have e : 3 + (bExtent (le24 (oracle src) ip) - 3) = bExtent (le24 (oracle src) ip) := by omega
    have e2 : ip + 3 + (bExtent (le24 (oracle src) ip) - 3) = ip + bExtent (le24 (oracle src) ip) := by omega
    rw [e, e2]
    by_cases hc : r < bExtent (le24 (oracle src) ip)
    · rw [dif_pos hc, if_pos hc]; exact .inl ⟨_, rfl, rfl⟩
    rw [dif_neg hc, if_neg hc]
    by_cases hlast : bLast (le24 (oracle src) ip) = true
    · rw [if_pos hlast, if_pos hlast]
      exact ⟨by omega, rfl⟩
    rw [if_neg hlast, if_neg hlast]
    simp only [bind, Except.bind]
    have := ih (ip + bExtent (le24 (oracle src) ip)) (r - bExtent (le24 (oracle src) ip)) (by simp only [List.length_cons] at hl; omega)
    cases hw : walkBlocks (oracle src) (ip + bExtent (le24 (oracle src) ip)) (r - bExtent (le24 (oracle src) ip)) with
    | ok u =>
      rw [hw] at this
      simp only [] at this ⊢
      refine ⟨by omega, ?_⟩
      rw [this.2, Nat.add_assoc, Nat.sub_sub]
    | error e =>
      rw [hw] at this
      simp only [] at this ⊢
      exact this


/-- the window descriptor does not exceed ZSTD_WINDOWLOG_MAX (or there is none: single-segment frame) -/
def WindowOK (src : Bytes) (ip0 : Nat) : Prop :=
  (src.u8 (ip0 + 4) / 32) % 2 = 1 ∨ src.u8 (ip0 + 5) / 8 + ZSTD_WINDOWLOG_ABSOLUTEMIN ≤ ZSTD_WINDOWLOG_MAX

theorem parseFields_window (src : Bytes) (p fhd fh : Nat) :
    (¬ (fhd / 32) % 2 = 1 ∧ ¬ src.u8 p / 8 + ZSTD_WINDOWLOG_ABSOLUTEMIN ≤ ZSTD_WINDOWLOG_MAX → parseFields src p fhd fh = .err .windowTooLarge) ∧
    ((fhd / 32) % 2 = 1 ∨ src.u8 p / 8 + ZSTD_WINDOWLOG_ABSOLUTEMIN ≤ ZSTD_WINDOWLOG_MAX → ∃ hd, parseFields src p fhd fh = .ok hd) := by
  unfold parseFields
  simp only [Nat.shiftRight_eq_div_pow, Nat.and_one_is_mod, Nat.reducePow]
  constructor
  · rintro ⟨a, b⟩
    rw [if_pos (by simp [a]; omega)]
  · intro hc
    rw [if_neg (by rcases hc with a | b <;> simp <;> omega)]
    exact ⟨_, rfl⟩

theorem mapError_error {α : Type} (e : Err) : (Except.error e : R α).mapError Err.cls = .error e.cls := rfl
theorem mapError_ok {α : Type} (a : α) : (Except.ok a : R α).mapError Err.cls = .ok a := rfl

theorem ff_loop_range (src : Bytes) (f : Nat → Nat × Nat × Bool → R (ForInStep (Nat × Nat × Bool))) (hf : ∀ a s, f a s = ffBody src s)
    (n ip r : Nat) (L : R (Nat × Nat × Bool)) (hl : r ≤ n) (h : forIn [:n] (ip, r, false) f = L) :
    match walkBlocks (oracle src) ip r with
    | .ok u => u ≤ r ∧ L = .ok (ip + u, r - u, true)
    | .error e => (∃ e', L = .error e' ∧ e'.cls = e.cls) ∨ (∃ st, L = .ok st ∧ st.2.2 = false ∧ e.cls = "srcSize_wrong") := by
  rw [Std.Legacy.Range.forIn_eq_forIn_range'] at h
  subst h
  exact ff_loop src f hf _ ip r (by simp [Std.Legacy.Range.size]; omega)

/-- the end of ZSTD_findFrameSizeInfo (checksum field) against the end of `Walker.frameSize` -/
theorem ff_tail_ok (ip0 rem hs u : Nat) (ck : Bool) (hh : hs ≤ rem) (hu : u ≤ rem - hs) :
    (if ck = true then
        if rem - hs - u < 4 then (Except.error (Err.srcSizeWrongAt "Frame:264") : R Nat) else Except.ok (ip0 + hs + u + 4 - ip0)
      else Except.ok (ip0 + hs + u - ip0)).mapError Err.cls =
    (if rem < hs + u + (if ck = true then 4 else 0) then (Except.error Err.srcSizeWrong : R Nat)
      else Except.ok (hs + u + (if ck = true then 4 else 0))).mapError Err.cls := by
  cases ck with
  | true =>
    simp only [if_true]
    by_cases c4 : rem - hs - u < 4
    · rw [if_pos c4, if_pos (by omega)]; rfl
    · rw [if_neg c4, if_neg (by omega), show ip0 + hs + u + 4 - ip0 = hs + u + 4 by omega]
  | false =>
    simp only [Bool.false_eq_true, if_false]
    rw [if_neg (by omega), show ip0 + hs + u - ip0 = hs + u + 0 by omega]

/-- skippable frames: readSkippableFrameSize against the walker (the walker has no 32-bit overflow check) -/
theorem ff_skippable (src : Bytes) (ip0 rem : Nat) (h5 : 5 ≤ rem) (hnl : isLegacyMagic (src.le32 ip0) = false)
    (hs : isSkippable (src.le32 ip0)) (hsk : 8 ≤ rem → src.le32 (ip0 + 4) + 8 < 2 ^ 32) :
    (findFrameCompressedSize src ip0 rem false).mapError Err.cls = (frameSize (oracle src) ip0 rem).mapError Err.cls := by
  unfold findFrameCompressedSize frameSize
  simp only [bind, Except.bind, pure, Except.pure, throw, throwThe, MonadExceptOf.throw, Bool.false_eq_true, if_false,
    Bool.not_false, Bool.true_and, hnl, Bool.and_false]
  rw [le32_oracle src ip0, le32_oracle src (ip0 + 4), if_neg (show ¬ rem < 5 by omega)]
  have hnm : ¬ isSkippable ZSTD_MAGICNUMBER := by decide
  have hm := (skippable_iff _ (le32_lt _ _)).mpr hs
  have hne : src.le32 ip0 ≠ ZSTD_MAGICNUMBER := fun c => hnm (c ▸ hs)
  rw [hm, Bool.and_true, if_pos hs]
  by_cases h8 : rem < 8
  · rw [if_neg (by simp; omega), if_pos h8, getHeader_zstd1_eq src ip0 rem h5, if_pos hne, if_pos hs, if_pos h8]
    rfl
  · rw [if_pos (by simp; omega), if_neg h8]
    unfold skippableSize
    simp only [show ZSTD_SKIPPABLEHEADERSIZE = 8 from rfl]
    have := hsk (by omega)
    rw [if_neg h8, if_neg (by omega)]

/-- zstd frames: ZSTD_findFrameSizeInfo against the walker (the walker does not look at the window descriptor) -/
theorem ff_frame (src : Bytes) (ip0 rem : Nat) (h5 : 5 ≤ rem) (hnl : isLegacyMagic (src.le32 ip0) = false)
    (hs : ¬ isSkippable (src.le32 ip0))
    (hwin : src.le32 ip0 = ZSTD_MAGICNUMBER → headerSize (src.u8 (ip0 + 4)) ≤ rem → ¬ src.u8 (ip0 + 4) / 8 % 2 = 1 → WindowOK src ip0) :
    (findFrameCompressedSize src ip0 rem false).mapError Err.cls = (frameSize (oracle src) ip0 rem).mapError Err.cls := by
  unfold findFrameCompressedSize frameSize
  simp only [bind, Except.bind, pure, Except.pure, throw, throwThe, MonadExceptOf.throw, Bool.false_eq_true, if_false,
    Bool.not_false, Bool.true_and, hnl, Bool.and_false]
  rw [le32_oracle src ip0, oracle_apply, if_neg (show ¬ rem < 5 by omega)]
  have hm : (src.le32 ip0 &&& ZSTD_MAGIC_SKIPPABLE_MASK == ZSTD_MAGIC_SKIPPABLE_START) = false := by
    rw [← Bool.not_eq_true]; exact fun c => hs ((skippable_iff _ (le32_lt _ _)).mp c)
  rw [hm, Bool.and_false, if_neg Bool.false_ne_true, if_neg hs, getHeader_zstd1_eq src ip0 rem h5]
  by_cases hmg : src.le32 ip0 ≠ ZSTD_MAGICNUMBER
  · rw [if_pos hmg, if_pos hmg, if_neg hs]
  rw [if_neg hmg, if_neg hmg]
  by_cases hh : rem < headerSize (src.u8 (ip0 + 4))
  · rw [if_pos hh, if_pos hh]
    rfl
  rw [if_neg hh, if_neg hh]
  by_cases h8 : src.u8 (ip0 + 4) / 8 % 2 = 1
  · rw [if_pos h8, if_pos h8]
  rw [if_neg h8, if_neg h8]
  obtain ⟨hd, hpf⟩ := (parseFields_window src (ip0 + 5) (src.u8 (ip0 + 4)) (headerSize (src.u8 (ip0 + 4)))).2
    (hwin (Classical.not_not.mp hmg) (by omega) h8)
  obtain ⟨p1, p2, _, p4⟩ := parseFields_checksum hpf
  rw [hpf]
  simp only [p1, p2, Bool.false_eq_true, if_false]
  have hck : ckSize (src.u8 (ip0 + 4)) = if hd.checksum = true then 4 else 0 := by
    unfold ckSize
    by_cases c : src.u8 (ip0 + 4) / 4 % 2 = 1
    · rw [if_pos c, if_pos (p4.mpr c)]
    · rw [if_neg c, if_neg (fun c2 => c (p4.mp c2))]
  rw [hck]
  generalize hL : forIn (m := R) (ρ := Std.Legacy.Range) _ _ _ = L
  have key := ff_loop_range src _ (by intro _ s; unfold ffBody; cases blockHeader src s.1 s.2.1 <;> rfl) _ _ _ L (by omega) hL
  clear hL
  generalize walkBlocks (oracle src) (ip0 + headerSize (src.u8 (ip0 + 4))) (rem - headerSize (src.u8 (ip0 + 4))) = W at key ⊢
  cases W with
  | ok u =>
    obtain ⟨hu, rfl⟩ := key
    exact ff_tail_ok ip0 rem _ u hd.checksum (by omega) hu
  | error e =>
    rcases key with ⟨e', rfl, hc⟩ | ⟨st, rfl, hst, hc⟩
    · exact congrArg Except.error hc
    · simp only [hst, Bool.not_false, if_true]
      exact congrArg Except.error hc.symm

/-- **4. ZSTD_findFrameCompressedSize: `Frame.findFrameCompressedSize` and `Walker.frameSize` are the same function**, up to
the error CLASS (the decoder model tags its errors with a site), on non-legacy input of at least 5 bytes, EXCEPT for two checks
the walker does not make: (a) a complete skippable header whose 32-bit size field overflows when 8 is added
(`frameParameter_unsupported`), (b) a complete zstd header, reserved bit clear, whose window descriptor is above ZSTD_WINDOWLOG_MAX
(`frameParameter_windowTooLarge`).  What happens there, and on short / legacy input: `findFrameCompressedSize_differs_skippable`,
`findFrameCompressedSize_differs_window`, `findFrameCompressedSize_short`, `findFrameCompressedSize_legacy` below. -/
theorem findFrameCompressedSize_eq_walker (src : Bytes) (ip0 rem : Nat) (h5 : 5 ≤ rem) (hnl : isLegacyMagic (src.le32 ip0) = false)
    (hsk : isSkippable (src.le32 ip0) → 8 ≤ rem → src.le32 (ip0 + 4) + 8 < 2 ^ 32)
    (hwin : src.le32 ip0 = ZSTD_MAGICNUMBER → headerSize (src.u8 (ip0 + 4)) ≤ rem → ¬ src.u8 (ip0 + 4) / 8 % 2 = 1 → WindowOK src ip0) :
    (findFrameCompressedSize src ip0 rem false).mapError Err.cls = (frameSize (oracle src) ip0 rem).mapError Err.cls := by
  by_cases hs : isSkippable (src.le32 ip0)
  · exact ff_skippable src ip0 rem h5 hnl hs (hsk hs)
  · exact ff_frame src ip0 rem h5 hnl hs hwin


/-! the inputs left out by `findFrameCompressedSize_eq_walker`, one by one -/

theorem skippable_not_legacy {x : Nat} (h : isSkippable x) : isLegacyMagic x = false := by
  unfold isSkippable ZSTD_MAGIC_SKIPPABLE_START at h
  unfold isLegacyMagic
  simp only [Bool.and_eq_false_imp, decide_eq_true_eq, decide_eq_false_iff_not]
  omega

theorem getHeader_short (src : Bytes) (start n : Nat) (h5 : n < 5) :
    (∃ k, getHeader src start n false = .need k) ∨ (∃ e, getHeader src start n false = .err e) := by
  unfold getHeader
  simp only [Bool.false_eq_true, if_false, if_pos h5]
  repeat' split
  all_goals first | exact .inl ⟨_, rfl⟩ | exact .inr ⟨_, rfl⟩

/-- fewer than 5 bytes: both fail (the decoder model distinguishes a wrong partial magic, `prefix_unknown`, from a short one) -/
theorem findFrameCompressedSize_short (src : Bytes) (ip0 rem : Nat) (h5 : rem < 5) :
    (∃ e, findFrameCompressedSize src ip0 rem false = .error e) ∧ frameSize (oracle src) ip0 rem = .error .srcSizeWrong := by
  refine ⟨?_, by unfold frameSize; rw [if_pos h5]⟩
  unfold findFrameCompressedSize
  simp only [bind, Except.bind, pure, Except.pure, throw, throwThe, MonadExceptOf.throw, Bool.false_eq_true, if_false,
    Bool.not_false, Bool.true_and, show decide (rem ≥ 8) = false by simp; omega, Bool.false_and]
  split
  · exact ⟨_, rfl⟩
  · rcases getHeader_short src ip0 rem h5 with ⟨k, hk⟩ | ⟨e, he⟩
    · rw [hk]; exact ⟨_, rfl⟩
    · rw [he]; exact ⟨_, rfl⟩

/-- legacy (v0.5 - v0.7) magic: the decoder model stops (`Err.legacy`: not modelled), the walker says `prefix_unknown` -/
theorem findFrameCompressedSize_legacy (src : Bytes) (ip0 rem : Nat) (h5 : 5 ≤ rem) (hl : isLegacyMagic (src.le32 ip0) = true) :
    findFrameCompressedSize src ip0 rem false = .error .legacy ∧ frameSize (oracle src) ip0 rem = .error .prefixUnknown := by
  constructor
  · unfold findFrameCompressedSize
    simp only [bind, Except.bind, throw, throwThe, MonadExceptOf.throw, Bool.not_false, Bool.true_and, hl, Bool.and_true,
      show decide (rem ≥ 4) = true by simp; omega, if_true]
  · have hns : ¬ isSkippable (src.le32 ip0) := fun c => by rw [skippable_not_legacy c] at hl; cases hl
    have hnm : src.le32 ip0 ≠ ZSTD_MAGICNUMBER := fun c => by rw [c] at hl; revert hl; decide
    unfold frameSize
    rw [le32_oracle, if_neg (by omega), if_neg hns, if_pos hnm]

/-- DIFFERENCE (a): a skippable frame whose size field is ≥ 2^32 - 8.  readSkippableFrameSize reports
`frameParameter_unsupported` (32-bit overflow check); the walker has no such check -/
theorem findFrameCompressedSize_differs_skippable (src : Bytes) (ip0 rem : Nat) (h8 : 8 ≤ rem)
    (hs : isSkippable (src.le32 ip0)) (hbig : 2 ^ 32 ≤ src.le32 (ip0 + 4) + 8) :
    findFrameCompressedSize src ip0 rem false = .error .unsupported ∧
    frameSize (oracle src) ip0 rem =
      if rem < src.le32 (ip0 + 4) + 8 then .error .srcSizeWrong else .ok (src.le32 (ip0 + 4) + 8) := by
  constructor
  · unfold findFrameCompressedSize
    simp only [bind, Except.bind, throw, throwThe, MonadExceptOf.throw, Bool.not_false, Bool.true_and, skippable_not_legacy hs,
      Bool.and_false, Bool.false_eq_true, if_false, (skippable_iff _ (le32_lt _ _)).mpr hs, Bool.and_true,
      show decide (rem ≥ 8) = true by simp; omega, if_true]
    unfold skippableSize
    simp only [show ZSTD_SKIPPABLEHEADERSIZE = 8 from rfl]
    rw [if_neg (by omega), if_pos (by omega)]
  · unfold frameSize
    rw [le32_oracle, le32_oracle, if_neg (by omega), if_pos hs, if_neg (by omega)]

/-- DIFFERENCE (b): a zstd frame header (complete, reserved bit clear) whose window descriptor exceeds ZSTD_WINDOWLOG_MAX.
ZSTD_getFrameHeader reports `frameParameter_windowTooLarge`; the walker does not read the window descriptor and goes on -/
theorem findFrameCompressedSize_differs_window (src : Bytes) (ip0 rem : Nat) (hm : src.le32 ip0 = ZSTD_MAGICNUMBER)
    (hh : headerSize (src.u8 (ip0 + 4)) ≤ rem) (h8 : ¬ src.u8 (ip0 + 4) / 8 % 2 = 1) (hw : ¬ WindowOK src ip0) :
    findFrameCompressedSize src ip0 rem false = .error .windowTooLarge := by
  have h5 : 5 ≤ rem := Nat.le_trans (headerSize_ge _) hh
  have hnl : isLegacyMagic (src.le32 ip0) = false := by rw [hm]; decide
  have hns : (src.le32 ip0 &&& ZSTD_MAGIC_SKIPPABLE_MASK == ZSTD_MAGIC_SKIPPABLE_START) = false := by rw [hm]; decide
  unfold WindowOK at hw
  have hpf := (parseFields_window src (ip0 + 5) (src.u8 (ip0 + 4)) (headerSize (src.u8 (ip0 + 4)))).1 ⟨fun c => hw (.inl c), fun c => hw (.inr c)⟩
  unfold findFrameCompressedSize
  simp only [bind, Except.bind, throw, throwThe, MonadExceptOf.throw, Bool.not_false, Bool.true_and, hnl, hns,
    Bool.and_false, Bool.false_eq_true, if_false]
  rw [getHeader_zstd1_eq src ip0 rem h5, if_neg (fun c => c hm), if_neg (by omega), if_neg h8, hpf]

/-- **4, unconditional direction**: whenever the decoder model's ZSTD_findFrameCompressedSize succeeds, so does the walker, with
the same size (the walker accepts a few more inputs: differences (a) and (b)) -/
theorem findFrameCompressedSize_ok_walker (src : Bytes) (ip0 rem n : Nat)
    (h : findFrameCompressedSize src ip0 rem false = .ok n) : frameSize (oracle src) ip0 rem = .ok n := by
  by_cases h5 : rem < 5
  · obtain ⟨e, he⟩ := (findFrameCompressedSize_short src ip0 rem h5).1
    rw [he] at h; cases h
  have h5 : 5 ≤ rem := by omega
  cases hl : isLegacyMagic (src.le32 ip0) with
  | true => rw [(findFrameCompressedSize_legacy src ip0 rem h5 hl).1] at h; cases h
  | false =>
    have key : (findFrameCompressedSize src ip0 rem false).mapError Err.cls = (frameSize (oracle src) ip0 rem).mapError Err.cls := by
      by_cases hs : isSkippable (src.le32 ip0)
      · by_cases hbig : 8 ≤ rem → src.le32 (ip0 + 4) + 8 < 2 ^ 32
        · exact ff_skippable src ip0 rem h5 hl hs hbig
        · exfalso
          by_cases h8 : 8 ≤ rem
          · rw [(findFrameCompressedSize_differs_skippable src ip0 rem h8 hs (by have := fun c => hbig (fun _ => c); omega)).1] at h
            cases h
          · exact hbig (fun c => absurd c h8)
      · by_cases hw : WindowOK src ip0
        · exact ff_frame src ip0 rem h5 hl hs (fun _ _ _ => hw)
        · by_cases hm : src.le32 ip0 = ZSTD_MAGICNUMBER
          · by_cases hh : headerSize (src.u8 (ip0 + 4)) ≤ rem
            · by_cases h8 : src.u8 (ip0 + 4) / 8 % 2 = 1
              · exact ff_frame src ip0 rem h5 hl hs (fun _ _ c => absurd h8 c)
              · rw [findFrameCompressedSize_differs_window src ip0 rem hm hh h8 hw] at h; cases h
            · exact ff_frame src ip0 rem h5 hl hs (fun _ c _ => absurd c hh)
          · exact ff_frame src ip0 rem h5 hl hs (fun c _ _ => absurd c hm)
    rw [h] at key
    cases hW : frameSize (oracle src) ip0 rem with
    | ok m => rw [hW] at key; cases key; rfl
    | error e => rw [hW] at key; cases key


/-! ### 12. non-vacuity: a concrete 10-byte frame (magic, descriptor 0x20 = single segment, FCS byte 1, one raw last block "A") -/

def sampleArgs : HArgs := ⟨17, 1, true, 0, false, false, false⟩
def sampleF : ByteArray := rawFrame sampleArgs (ofList [0x41])

theorem sampleF_size : sampleF.size = 10 := by decide

theorem sampleF_bytes : ∀ i, i < 10 → oracle sampleF (0 + i) = ([0x28, 0xB5, 0x2F, 0xFD, 0x20, 0x01, 0x09, 0x00, 0x00, 0x41] : List Nat).getD i 0 := by
  decide

theorem sampleF_accepted : ∃ traces, decompressAll sampleF {} 1 {} = .ok (ofList [0x41], traces) :=
  frame_roundtrip_raw _ (by unfold HArgs.wf; decide) (Or.inr rfl) rfl _ (fun _ => rfl) {} 1 (Nat.le_refl _) {} rfl rfl

def sampleL : Get := fun i => ([0x28, 0xB5, 0x2F, 0xFD, 0x20, 0x01, 0x09, 0x00, 0x00, 0x41] : List Nat).getD i 0

theorem sampleL_walk : walkBlocks sampleL 6 4 = .ok 4 := by
  rw [walkBlocks]; simp [sampleL, le24, bType, bExtent, bLast]

theorem sampleL_frameSize : frameSize sampleL 0 10 = .ok 10 := by
  have hs : headerSize (sampleL 4) = 6 := by decide
  unfold frameSize
  rw [hs]
  simp [sampleL_walk, isSkippable, ckSize]
  simp [sampleL, le32, ZSTD_MAGICNUMBER, ZSTD_MAGIC_SKIPPABLE_START]

/-- the walker on the sample frame: exactly one frame of 10 bytes -/
theorem sampleF_frames : frames (oracle sampleF) 1 0 10 = .ok [10] := by
  rw [frames_congr (oracle sampleF) sampleL 1 0 0 10 (fun i hi => by rw [sampleF_bytes i hi, Nat.zero_add]; rfl)]
  unfold frames
  rw [if_neg (by omega), sampleL_frameSize]
  simp only [Nat.sub_self]
  unfold frames
  rfl

/-- non-vacuity of `decompressAll_walks` and of `decoder_rejects_truncation_single`: the sample frame is accepted, it is one frame,
and each of its 9 non-empty proper prefixes is rejected whatever the dictionary, capacity and options -/
example : ∀ k, 0 < k → k < 10 → ∀ (dict : Dict) (cap : Nat) (o : Opts), o.magicless = false →
    ∃ e, decompressAll (sampleF.extract 0 k) dict cap o = .error e := by
  obtain ⟨traces, h⟩ := sampleF_accepted
  have W := decompressAll_walks rfl h (traces.size + 1) (Nat.le_succ _)
  rw [sampleF_size, (frames_fuel _ _ _ _ _ sampleF_frames).2 (traces.size + 1) (by simp)] at W
  have h1 : traces.size = 1 := by
    have : (sizesOf traces).length = 1 := by rw [← Except.ok.inj W]; rfl
    simpa [sizesOf] using this
  intro k hk0 hk dict cap o hml
  exact decoder_rejects_truncation_single rfl h h1 hk0 (by rw [sampleF_size]; exact hk) dict cap o hml

/-- non-vacuity of `decoder_rejects_non_frame_tail`: the sample frame followed by one zero byte is rejected -/
example (dict : Dict) (cap : Nat) (o : Opts) (hml : o.magicless = false) :
    ∃ e, decompressAll (sampleF ++ ofList [0]) dict cap o = .error e := by
  obtain ⟨traces, h⟩ := sampleF_accepted
  refine decoder_rejects_non_frame_tail rfl h (by decide) (fun rem' => ?_) dict cap o hml
  unfold frameSize
  by_cases h5 : rem' < 5
  · exact ⟨_, by rw [if_pos h5]⟩
  · have e : le32 (oracle (ofList [0])) 0 = 0 := by decide
    rw [if_neg h5, e, if_neg (by decide), if_pos (by decide)]
    exact ⟨_, rfl⟩

/-- non-vacuity of `decoder_rejects_trailing_garbage`: a frame, then (a skippable frame and a second frame with checksum) as
"junk": the whole is accepted, the first frame alone is accepted, hence the tail is a whole number of frames -/
example : ∃ L, ∀ fuel, L.length ≤ fuel →
    frames (oracle (serializeSegs [.skip 3 (ofList [9, 9]), .frame ⟨10, 0, false, 0, false, true, false⟩ [.rle 7 2] (ofList [7, 7])]))
      fuel 0 (serializeSegs [.skip 3 (ofList [9, 9]), .frame ⟨10, 0, false, 0, false, true, false⟩ [.rle 7 2] (ofList [7, 7])]).size = .ok L := by
  have hA : SegOK (.frame ⟨10, 1, true, 0, false, false, false⟩ [.raw 1] (ofList [1])) :=
    ⟨by unfold HArgs.wf; decide, Or.inr rfl, rfl, (fun _ => rfl), by simp only [Tiles]; decide⟩
  have hS : SegOK (.skip 3 (ofList [9, 9])) := ⟨by decide, by decide⟩
  have hB : SegOK (.frame ⟨10, 0, false, 0, false, true, false⟩ [.rle 7 2] (ofList [7, 7])) :=
    ⟨by unfold HArgs.wf; decide, Or.inr rfl, rfl, (fun h => by cases h), by simp only [Tiles]; decide⟩
  obtain ⟨t0, h0⟩ := multi_frame_roundtrip [.frame ⟨10, 1, true, 0, false, false, false⟩ [.raw 1] (ofList [1])]
    (by intro s hs; simp only [List.mem_cons, List.mem_nil_iff, or_false] at hs; subst hs; exact hA) {} 3 (by decide) {} rfl rfl
  obtain ⟨t1, h1⟩ := multi_frame_roundtrip [.frame ⟨10, 1, true, 0, false, false, false⟩ [.raw 1] (ofList [1]), .skip 3 (ofList [9, 9]),
      .frame ⟨10, 0, false, 0, false, true, false⟩ [.rle 7 2] (ofList [7, 7])]
    (by intro s hs; simp only [List.mem_cons, List.mem_nil_iff, or_false] at hs; rcases hs with rfl | rfl | rfl <;> assumption)
    {} 3 (by decide) {} rfl rfl
  have e0 : serializeSegs [.frame ⟨10, 1, true, 0, false, false, false⟩ [.raw 1] (ofList [1])] =
      serializeFrame ⟨10, 1, true, 0, false, false, false⟩ [.raw 1] (ofList [1]) := serializeSegs_single _ _ _
  rw [e0] at h0
  obtain ⟨L, _, hL⟩ := decoder_rejects_trailing_garbage (src := serializeFrame ⟨10, 1, true, 0, false, false, false⟩ [.raw 1] (ofList [1]))
    rfl h1 rfl h0
  exact ⟨L, hL⟩


/-! non-vacuity of the header-truthfulness theorems (kernel evaluation of the decoder model on concrete frames) -/

/-- `decompressFrame` succeeded, consumed `used` bytes and produced `n` bytes -/
def okWith (r : R (ByteArray × Nat × FrameTrace)) (used n : Nat) : Bool :=
  match r with
  | .ok (out, u, _) => u == used && out.size == n
  | .error _ => false

def failsWith (r : R (ByteArray × Nat × FrameTrace)) (e : Err) : Bool :=
  match r with
  | .ok _ => false
  | .error e' => e' == e

theorem okWith_elim {r : R (ByteArray × Nat × FrameTrace)} {used n : Nat} (h : okWith r used n = true) :
    ∃ out tr, r = .ok (out, used, tr) ∧ out.size = n := by
  unfold okWith at h
  split at h
  · rename_i out u tr
    simp only [Bool.and_eq_true, beq_iff_eq] at h
    exact ⟨out, tr, by rw [h.1], h.2⟩
  · cases h

/-- magic, descriptor 0x21 (single segment, 1-byte dictID), dictID 5, FCS 1, raw last block "A" -/
def dictF : ByteArray := ⟨#[0x28, 0xB5, 0x2F, 0xFD, 0x21, 0x05, 0x01, 0x09, 0x00, 0x00, 0x41]⟩
/-- magic, descriptor 0x20, FCS 2 (a lie), raw last block "A" -/
def lyingF : ByteArray := ⟨#[0x28, 0xB5, 0x2F, 0xFD, 0x20, 0x02, 0x09, 0x00, 0x00, 0x41]⟩
/-- magic, descriptor 0x24 (single segment, checksum), FCS 1, raw last block "A", checksum field 0 (wrong) -/
def badCkF : ByteArray := ⟨#[0x28, 0xB5, 0x2F, 0xFD, 0x24, 0x01, 0x09, 0x00, 0x00, 0x41, 0, 0, 0, 0]⟩
/-- the same with the checksum the reference writes -/
def ckArgs : HArgs := ⟨17, 1, true, 0, false, true, false⟩
def goodCkF : ByteArray := serializeFrame ckArgs [.raw 1] (ofList [0x41])

/-- `decoder_fcs_enforced`: hypotheses satisfiable (sample frame, FCS = 1 = regenerated size) ... -/
example : ∃ out used tr hd, decompressFrame sampleF 0 10 {} ByteArray.empty 1 {} = .ok (out, used, tr) ∧
    getHeader sampleF 0 10 false = .ok hd ∧ hd.fcs = some 1 ∧ out.size - ByteArray.empty.size = 1 := by
  obtain ⟨out, tr, h, _⟩ := okWith_elim (show okWith (decompressFrame sampleF 0 10 {} ByteArray.empty 1 {}) 10 1 = true by decide +kernel)
  have hh := (decompressFrame_header h).1
  have hn : tr.hdr.fcs = some 1 := by
    have : (match getHeader sampleF 0 10 false with | .ok hd => hd.fcs | _ => none) = some 1 := by decide +kernel
    rw [hh] at this; exact this
  exact ⟨out, 10, tr, tr.hdr, h, hh, hn, decoder_fcs_enforced h hh hn⟩

/-- ... and a frame that lies about its content size is rejected -/
example : failsWith (decompressFrame lyingF 0 10 {} ByteArray.empty 10 {}) (.corruptionAt "Frame:182") = true := by decide +kernel

/-- `decoder_dictID_enforced`: hypotheses satisfiable (dictID 5 announced, dictionary 5 supplied) ... -/
example : ∃ out used tr hd, decompressFrame dictF 0 11 { id := 5 } ByteArray.empty 1 {} = .ok (out, used, tr) ∧
    getHeader dictF 0 11 false = .ok hd ∧ hd.dictID ≠ 0 ∧ ({ id := 5 } : Dict).id = hd.dictID := by
  obtain ⟨out, tr, h, _⟩ := okWith_elim (show okWith (decompressFrame dictF 0 11 { id := 5 } ByteArray.empty 1 {}) 11 1 = true by decide +kernel)
  have hh := (decompressFrame_header h).1
  have hn : tr.hdr.dictID ≠ 0 := by
    have : (match getHeader dictF 0 11 false with | .ok hd => hd.dictID | _ => 0) = 5 := by decide +kernel
    rw [hh] at this
    simp only [] at this
    omega
  exact ⟨out, 11, tr, tr.hdr, h, hh, hn, decoder_dictID_enforced h hh hn⟩

/-- ... and any other dictionary is refused -/
example : failsWith (decompressFrame dictF 0 11 { id := 6 } ByteArray.empty 1 {}) .dictWrong = true := by decide +kernel

/-- `decoder_checksum_enforced`: hypotheses satisfiable (checksum flag set, the checksum the reference writes; symbolic, since
XXH64 does not evaluate in the kernel) ... -/
example : ∃ out used tr hd, decompressFrame goodCkF 0 (goodCkF.size + 0) {} ByteArray.empty 1 {} = .ok (out, used, tr) ∧
    getHeader goodCkF 0 (goodCkF.size + 0) false = .ok hd ∧ hd.checksum = true ∧
    goodCkF.le32 (0 + used - 4) = (XXH64.hashRange out ByteArray.empty.size (out.size - ByteArray.empty.size)).toNat &&& 0xFFFFFFFF := by
  have hwf : ckArgs.wf := by unfold HArgs.wf; decide
  obtain ⟨tr, h⟩ := decompressFrame_serialized ckArgs hwf (Or.inr rfl) [.raw 1] (ofList [0x41]) (fun _ => rfl)
    (by simp only [Tiles]; decide) (src := goodCkF) (ip0 := 0) 0 (holds_self _) {} ByteArray.empty 1 (by decide) {} rfl rfl
    (fun _ => by rw [ByteArray.empty_append]; rfl)
  have hh := (decompressFrame_header h).1
  obtain ⟨hd, e1, e2, _, _, _, _, e7⟩ := getHeader_serialized ckArgs hwf (src := goodCkF) (ip := 0) (holds_self _)
  have e3 := (decompressFrame_anatomy h).1
  have e4 : fhSizeAt goodCkF 0 {} = (writeHeader ckArgs).length := e1
  rw [e4] at e3
  have hc : tr.hdr.checksum = true := by
    have : HdrResult.ok tr.hdr = HdrResult.ok hd := e3.symm.trans e2
    cases this; exact e7
  exact ⟨_, _, tr, tr.hdr, h, hh, hc, (decoder_checksum_enforced h hh hc rfl).2.2⟩

/-- ... a damaged checksum is accepted only when the caller asked to ignore it (`o.ignoreChecksum`) -/
example : okWith (decompressFrame badCkF 0 14 {} ByteArray.empty 1 { ignoreChecksum := true }) 14 1 = true := by decide +kernel
/-- ... and a frame cut inside its checksum field is an error too -/
example : failsWith (decompressFrame goodCkF 0 12 {} ByteArray.empty 1 {}) .checksumWrong = true := by decide +kernel

/-- `decompressFrame_walks` / `findFrameCompressedSize_eq_walker` on the sample: decoder, header walker of the decoder model and
abstract walker all find 10 bytes -/
example : frameSize (oracle sampleF) 0 10 = .ok 10 ∧ findFrameCompressedSize sampleF 0 10 false = .ok 10 := by
  obtain ⟨out, tr, h, _⟩ := okWith_elim (show okWith (decompressFrame sampleF 0 10 {} ByteArray.empty 1 {}) 10 1 = true by decide +kernel)
  have hw := (decompressFrame_walks rfl h).1
  refine ⟨hw, ?_⟩
  have hnl : isLegacyMagic (sampleF.le32 0) = false := by decide +kernel
  have hm : sampleF.le32 0 = ZSTD_MAGICNUMBER := by decide +kernel
  have key := findFrameCompressedSize_eq_walker sampleF 0 10 (by omega) hnl
    (fun c => absurd (hm ▸ c) (by decide)) (fun _ _ _ => .inl (by decide +kernel))
  rw [hw] at key
  cases hf : findFrameCompressedSize sampleF 0 10 false with
  | ok m => rw [hf] at key; cases key; rfl
  | error e => rw [hf] at key; cases key


end ZstdVerif.TruncRT
