/-
Monotonicity of the workspace sizing routine: smaller window / hash / chain logs and a smaller pledged size never need more.
-/
import ZstdVerif.Model.Estimate
set_option linter.unusedSimpArgs false
namespace ZstdVerif.Estimate
open ZstdVerif.Gen ZstdVerif.Cwksp

/-- `p` is the same kind of job as `q` (strategy, minMatch, row switch, producer, block limit, static; `p` without long-distance matching) with smaller logs,
pledged size and buffers -/
structure Le (p q : RP) : Prop where
  wl : p.windowLog ≤ q.windowLog
  cl : p.chainLog ≤ q.chainLog
  hl : p.hashLog ≤ q.hashLog
  pl : p.pledged ≤ q.pledged
  mm : p.minMatch = q.minMatch
  st : p.strategy = q.strategy
  ur : p.useRow = q.useRow
  l1 : p.ldm = false
  ext : p.extSeq = q.extSeq
  mb : p.maxBlockSize ≤ q.maxBlockSize
  stc : p.isStatic = q.isStatic
  bi : p.buffIn ≤ q.buffIn
  bo : p.buffOut ≤ q.buffOut

theorem align_mono (a b n : Nat) (h : a ≤ b) : align a n ≤ align b n := by
  unfold align
  exact Nat.mul_le_mul_right _ (Nat.div_le_div_right (by omega))

theorem a64_mono (a b : Nat) (h : a ≤ b) : a64 a ≤ a64 b := align_mono a b 64 h

theorem pow2_mono (a b : Nat) (h : a ≤ b) : 2 ^ a ≤ 2 ^ b := Nat.pow_le_pow_right (by decide) h

theorem windowSize_mono (p q : RP) (h : Le p q) : windowSize p ≤ windowSize q := by
  unfold windowSize
  have := pow2_mono _ _ h.wl
  have := h.pl
  omega

theorem blockSize_mono (p q : RP) (h : Le p q) : blockSize p ≤ blockSize q := by
  unfold blockSize
  have := windowSize_mono p q h
  have := h.mb
  omega

theorem maxNbSeq_mono (p q : RP) (h : Le p q) : maxNbSeq p ≤ maxNbSeq q := by
  unfold maxNbSeq
  rw [h.mm, h.ext]
  exact Nat.div_le_div_right (blockSize_mono p q h)

theorem rowUsed_eq (p q : RP) (h : Le p q) : rowUsed p = rowUsed q := by
  unfold rowUsed; rw [h.st, h.ur]

theorem chainSize_mono (p q : RP) (h : Le p q) : chainSize p ≤ chainSize q := by
  unfold chainSize chainAllocated
  rw [rowUsed_eq p q h, h.st]
  split
  · exact pow2_mono _ _ h.cl
  · exact Nat.le_refl _

theorem hSize_mono (p q : RP) (h : Le p q) : hSize p ≤ hSize q := pow2_mono _ _ h.hl

theorem h3Size_mono (p q : RP) (h : Le p q) : h3Size p ≤ h3Size q := by
  unfold h3Size hashLog3
  rw [h.mm]
  have hw := h.wl
  by_cases hm : q.minMatch = 3
  · simp only [hm, if_true]
    by_cases hp : min ZSTD_HASHLOG3_MAX p.windowLog = 0
    · simp [hp]
    · have hq : min ZSTD_HASHLOG3_MAX q.windowLog ≠ 0 := by omega
      simp only [hp, hq, if_false]
      exact pow2_mono _ _ (by omega)
  · simp [hm]

theorem sequenceBound_mono (a b : Nat) (h : a ≤ b) : sequenceBound a ≤ sequenceBound b := by
  unfold sequenceBound
  have h1 := Nat.div_le_div_right (c := ZSTD_MINMATCH_MIN) h
  have h2 := Nat.div_le_div_right (c := ZSTD_BLOCKSIZE_MAX_MIN) h
  omega

/-- **estimate_mono** -/
theorem estimate_mono (p q : RP) (h : Le p q) : estimate p ≤ estimate q := by
  have hb := blockSize_mono p q h
  have hs := maxNbSeq_mono p q h
  have hc := chainSize_mono p q h
  have hh := hSize_mono p q h
  have h3 := h3Size_mono p q h
  have hseq := a64_mono _ _ (Nat.mul_le_mul_right sizeof_seqDef hs)
  have htag := a64_mono _ _ hh
  have hext := a64_mono _ _ (Nat.mul_le_mul_right sizeof_ZSTD_Sequence (sequenceBound_mono _ _ hb))
  have hbi := h.bi
  have hbo := h.bo
  unfold estimate sizeofMatchState
  simp only [h.l1, Bool.false_eq_true, if_false]
  have e1 : isOpt p = isOpt q := by unfold isOpt; rw [h.st]
  rw [rowUsed_eq p q h, e1, h.stc, h.ext]
  cases q.isStatic <;> cases rowUsed q <;> cases isOpt q <;> cases q.extSeq <;> cases q.ldm <;> simp only [if_true, if_false, Bool.false_eq_true] <;> omega

theorem le_foldl_max (f : Nat → Nat) (l : List Nat) : ∀ (acc : Nat), acc ≤ l.foldl (fun a k => max a (f k)) acc := by
  induction l with
  | nil => intro acc; exact Nat.le_refl _
  | cons x t ih => intro acc; simp only [List.foldl_cons]; exact Nat.le_trans (Nat.le_max_left _ _) (ih _)

theorem mem_le_foldl_max (f : Nat → Nat) (l : List Nat) (k : Nat) (hk : k ∈ l) : ∀ (acc : Nat), f k ≤ l.foldl (fun a j => max a (f j)) acc := by
  induction l with
  | nil => cases hk
  | cons x t ih =>
    intro acc
    simp only [List.foldl_cons]
    rcases List.mem_cons.mp hk with rfl | h
    · exact Nat.le_trans (Nat.le_max_right _ _) (le_foldl_max f t _)
    · exact ih h _

/-- the row switch is inert for strategies without a row finder -/
theorem estimate_useRow_irrelevant (p : RP) (u : Bool) (h : rowSupported p.strategy = false) : estimate { p with useRow := u } = estimate p := by
  simp [estimate, sizeofMatchState, chainSize, chainAllocated, rowUsed, hSize, h3Size, hashLog3, maxNbSeq, blockSize, windowSize, maxNbLdmSeq,
    ldmBuckets, ldmHSize, isOpt, h]

/-- the public estimate from cParams covers either setting of the row match finder -/
theorem estimate_le_usingCParams (c : CPar) (u : Bool) (stream : Bool) : estimate (rpOfCParams c u stream) ≤ estimateUsingCParams c stream := by
  unfold estimateUsingCParams
  by_cases hs : rowSupported c.strategy = true
  · simp only [hs, if_true]
    cases u
    · exact Nat.le_max_left _ _
    · exact Nat.le_max_right _ _
  · simp only [hs]
    cases u
    · exact Nat.le_refl _
    · -- the switch is inert for strategies without a row finder
      have hs' : rowSupported c.strategy = false := by simpa using hs
      apply Nat.le_of_eq
      have e : rpOfCParams c true stream = { rpOfCParams c false stream with useRow := true } := by
        simp [rpOfCParams, hs']
      rw [e]
      exact estimate_useRow_irrelevant _ true (by simpa [rpOfCParams] using hs')

theorem estLevelInternal_ge (t l : Nat) (ht : t < 4) : estimateUsingCParams (rowAt t l) false ≤ estLevelInternal l := by
  unfold estLevelInternal
  exact mem_le_foldl_max (fun t => estimateUsingCParams (rowAt t l) false) (List.range 4) t (List.mem_range.mpr ht) 0

theorem maxCLevel_pos : 1 ≤ maxCLevel := by decide

/-- a level above `ZSTD_maxCLevel()` compresses with the row of the maximum: `min l maxCLevel` is the row a job at level `l` uses -/
theorem estLevel_ge (L l : Nat) (h1 : 1 ≤ l) (h2 : l ≤ L) : estLevelInternal (min l maxCLevel) ≤ estLevel L := by
  unfold estLevel
  have hp := maxCLevel_pos
  have := mem_le_foldl_max (fun k => estLevelInternal (k + 1)) (List.range (min L maxCLevel)) (min l maxCLevel - 1)
    (List.mem_range.mpr (by omega)) 0
  have e : min l maxCLevel - 1 + 1 = min l maxCLevel := by omega
  simp only [e] at this
  exact this

/-- the run-time domination test decides `Le` -/
theorem leB_sound (p q : RP) (h : leB p q = true) : Le p q := by
  unfold leB at h
  simp only [Bool.and_eq_true, decide_eq_true_eq] at h
  obtain ⟨⟨⟨⟨⟨⟨⟨⟨⟨⟨⟨⟨h1, h2⟩, h3⟩, h4⟩, h5⟩, h6⟩, h7⟩, h8⟩, h9⟩, h10⟩, h11⟩, h12⟩, h13⟩ := h
  exact ⟨h1, h2, h3, h4, h5, h6, h7, h8, h9, h10, h11, h12, h13⟩

/-- the estimate from a parameter set covers every flavour it is made for -/
theorem estimate_le_usingCCtxParams (c : CPar) (mode : RowMode) (stream u : Bool) (hf : flavourCovered c mode stream u = true) :
    estimate (rpOfCCtxParams c mode u stream) ≤ estimateUsingCCtxParams c mode stream := by
  unfold estimateUsingCCtxParams
  by_cases h : mode = RowMode.auto ∧ stream = false ∧ rowSupported c.strategy = true
  · rw [if_pos h]
    cases u
    · exact Nat.le_max_right _ _
    · exact Nat.le_max_left _ _
  · rw [if_neg h]
    unfold flavourCovered at hf
    have hu : u = resolveRow mode c := by
      rcases Bool.or_eq_true _ _ |>.mp hf with h1 | h2
      · exfalso; apply h
        simp only [Bool.and_eq_true, decide_eq_true_eq, Bool.not_eq_true'] at h1
        exact ⟨h1.1.1, h1.1.2, h1.2⟩
      · simpa using h2
    rw [hu]
    exact Nat.le_refl _

/-! ### jobs with long-distance matching -/

/-- `p` is the same kind of job as `q` INCLUDING the long-distance matcher (same switch, bucket log and minimum match, a hash log that is not larger:
the default follows the window log, which the source may have shrunk), otherwise smaller as in `Le` -/
structure LeL (p q : RP) : Prop where
  core : Le { p with ldm := false } { q with ldm := false }
  on : p.ldm = q.ldm
  lh : p.ldmHashLog ≤ q.ldmHashLog
  lb : p.ldmBucketSizeLog = q.ldmBucketSizeLog
  lm : p.ldmMinMatch = q.ldmMinMatch

/-- what the long-distance matcher adds to the budget -/
def ldmExtra (p : RP) : Nat :=
  if p.ldm then ldmBuckets p + ldmHSize p * sizeof_ldmEntry + a64 (blockSize p / p.ldmMinMatch * sizeof_rawSeq) else 0

theorem estimate_split (p : RP) : estimate p = estimate { p with ldm := false } + ldmExtra p := by
  cases hl : p.ldm <;>
    simp [estimate, sizeofMatchState, ldmExtra, maxNbLdmSeq, blockSize, windowSize, maxNbSeq, chainSize, chainAllocated, rowUsed, hSize, h3Size,
      hashLog3, isOpt, ldmBuckets, ldmHSize, hl] <;> omega

theorem estimate_mono_ldm (p q : RP) (h : LeL p q) : estimate p ≤ estimate q := by
  rw [estimate_split p, estimate_split q]
  have h0 := estimate_mono _ _ h.core
  have hb : blockSize p ≤ blockSize q := by
    have := blockSize_mono _ _ h.core
    simpa [blockSize, windowSize] using this
  have he : ldmExtra p ≤ ldmExtra q := by
    unfold ldmExtra ldmBuckets ldmHSize
    rw [h.on, h.lb, h.lm]
    cases q.ldm
    · simp
    · simp only [if_true]
      have := a64_mono _ _ (Nat.mul_le_mul_right sizeof_rawSeq (Nat.div_le_div_right (c := q.ldmMinMatch) hb))
      have h1 := pow2_mono _ _ h.lh
      have h2 : p.ldmHashLog - min q.ldmBucketSizeLog p.ldmHashLog ≤ q.ldmHashLog - min q.ldmBucketSizeLog q.ldmHashLog := by
        have := h.lh
        omega
      have h3 := pow2_mono _ _ h2
      have h4 := Nat.mul_le_mul_right sizeof_ldmEntry h1
      omega
  omega

theorem leLB_sound (p q : RP) (h : leLB p q = true) : LeL p q := by
  unfold leLB at h
  simp only [Bool.and_eq_true, decide_eq_true_eq] at h
  obtain ⟨⟨⟨⟨h1, h2⟩, h3⟩, h4⟩, h5⟩ := h
  exact ⟨leB_sound _ _ h1, h2, h3, h4, h5⟩

end ZstdVerif.Estimate
