/-
Liveness side of the pool model: the "no lost wake-up" invariant `Live`.  Every thread that sleeps on one of the two condition
variables does so while its wait condition holds, or while the broadcast that will wake it is still owed by a client inside POOL_free;
and whenever a queued job could be started some worker is not asleep.  Preserved by every transition (Props/C12: live_step).
-/
import ZstdVerif.Lemmas.Pool
namespace ZstdVerif.Pool

def activeW : WPc → Bool
  | .waitPop false => false
  | .exited => false
  | _ => true
def sleepPop : WPc → Bool
  | .waitPop false => true
  | _ => false
def sleepPushW : WPc → Bool
  | .runWaitPush _ _ false => true
  | _ => false
def isExited : WPc → Bool
  | .exited => true
  | _ => false
def headAddJ : List JOp → Bool
  | .add _ :: _ => true
  | _ => false
/-- a worker blocked (or just woken) inside POOL_add always has that add at the head of its remaining body -/
def rwpOk : WPc → Bool
  | .runWaitPush _ r _ => headAddJ r
  | _ => true
def headAdd : List COp → Bool
  | .add _ :: _ => true
  | _ => false
def headJoin : List COp → Bool
  | .joinJobs :: _ => true
  | _ => false
def sleepAddC (c : Client) : Bool :=
  match c.pc with
  | .waitPush false => headAdd c.prog
  | _ => false
def sleepJoinC (c : Client) : Bool :=
  match c.pc with
  | .waitPush false => headJoin c.prog
  | _ => false
def pendPushC (c : Client) : Bool :=
  match c.pc with
  | .freeBcastPush => true
  | _ => false
def pendFreeC (c : Client) : Bool :=
  match c.pc with
  | .freeBcastPush => true
  | .freeBcastPop => true
  | _ => false

structure Core (s : St) : Prop where
  lim : 0 < s.limit
  wsne : s.ws ≠ []
  rwp : s.ws.all rwpOk = true
  exitShut : s.ws.any isExited = true → s.shutdown = true
  /-- a startable job is never stranded: some worker is awake (or running, and will look at the queue when its job returns) -/
  pop : s.q ≠ [] → s.busy < s.limit → s.ws.any activeW = true
  /-- after shutdown a worker still asleep on the pop condition is owed a broadcast by POOL_free -/
  popShut : s.shutdown = true → s.ws.any sleepPop = true → s.cs.any pendFreeC = true

/-- sleepers on the push condition: their wait condition still holds, or POOL_free owes them the broadcast -/
structure Push (s : St) : Prop where
  pushW : s.ws.any sleepPushW = true → (isFull s = true ∧ s.shutdown = false) ∨ s.cs.any pendPushC = true
  pushAdd : s.cs.any sleepAddC = true → (isFull s = true ∧ s.shutdown = false) ∨ s.cs.any pendPushC = true
  pushJoin : s.cs.any sleepJoinC = true → s.q ≠ [] ∨ 0 < s.busy

structure Live (s : St) : Prop where
  core : Core s
  push : Push s

/-! ### list helpers -/

theorem any_set_of_any {α} (p : α → Bool) (l : List α) (i : Nat) (x : α) (h : (l.set i x).any p = true) :
    p x = true ∨ l.any p = true := by
  induction l generalizing i with
  | nil => simp at h
  | cons a t ih =>
    cases i with
    | zero => simp at h ⊢; rcases h with h | h; exact Or.inl h; exact Or.inr (Or.inr h)
    | succ k =>
      simp only [List.set_cons_succ, List.any_cons, Bool.or_eq_true] at h ⊢
      rcases h with h | h
      · exact Or.inr (Or.inl h)
      · rcases ih k h with h' | h'
        · exact Or.inl h'
        · exact Or.inr (Or.inr h')

theorem any_set_self {α} (p : α → Bool) (l : List α) (i : Nat) (x : α) (hi : i < l.length) (hx : p x = true) :
    (l.set i x).any p = true := by
  induction l generalizing i with
  | nil => simp at hi
  | cons a t ih =>
    cases i with
    | zero => simp [hx]
    | succ k => simp only [List.set_cons_succ, List.any_cons, Bool.or_eq_true]; exact Or.inr (ih k (by simpa using hi))

/-- replacing an element that does not satisfy `p` keeps every witness -/
theorem any_set_keep {α} (p : α → Bool) (l : List α) (i : Nat) (x y : α) (hy : l[i]? = some y) (hny : p y = false)
    (h : l.any p = true) : (l.set i x).any p = true := by
  induction l generalizing i with
  | nil => simp at h
  | cons a t ih =>
    cases i with
    | zero =>
      simp at hy; subst hy
      simp only [List.any_cons, Bool.or_eq_true] at h
      rcases h with h | h
      · rw [hny] at h; cases h
      · simp [h]
    | succ k =>
      simp only [List.set_cons_succ, List.any_cons, Bool.or_eq_true] at h ⊢
      rcases h with h | h
      · exact Or.inl h
      · exact Or.inr (ih k (by simpa using hy) h)

theorem all_set {α} (p : α → Bool) (l : List α) (i : Nat) (x : α) (h : l.all p = true) (hx : p x = true) :
    (l.set i x).all p = true := by
  induction l generalizing i with
  | nil => simp
  | cons a t ih =>
    simp only [List.all_cons, Bool.and_eq_true] at h
    cases i with
    | zero => simp [hx, h.2]
    | succ k => simp only [List.set_cons_succ, List.all_cons, Bool.and_eq_true]; exact ⟨h.1, ih k h.2⟩

theorem any_map_of {α} (p : α → Bool) (f : α → α) (l : List α) (hf : ∀ a, p (f a) = p a) : (l.map f).any p = l.any p := by
  induction l with
  | nil => rfl
  | cons a t ih => simp [hf, ih]

theorem all_map_of {α} (p : α → Bool) (f : α → α) (l : List α) (hf : ∀ a, p (f a) = p a) : (l.map f).all p = l.all p := by
  induction l with
  | nil => rfl
  | cons a t ih => simp [hf, ih]

theorem any_map_false {α} (p : α → Bool) (f : α → α) (l : List α) (hf : ∀ a, p (f a) = false) : (l.map f).any p = false := by
  induction l with
  | nil => rfl
  | cons a t ih => simp [hf, ih]

theorem any_map_mono {α} (p : α → Bool) (f : α → α) (l : List α) (hf : ∀ a, p a = true → p (f a) = true) (h : l.any p = true) :
    (l.map f).any p = true := by
  induction l with
  | nil => simp at h
  | cons a t ih =>
    simp only [List.any_cons, Bool.or_eq_true, List.map_cons] at h ⊢
    rcases h with h | h
    · exact Or.inl (hf a h)
    · exact Or.inr (ih h)

theorem all_of_not_any {α} (p q : α → Bool) (l : List α) (hpq : ∀ a, p a = false → q a = true) (h : l.any p = false) :
    l.all q = true := by
  induction l with
  | nil => rfl
  | cons a t ih =>
    simp only [List.any_cons, Bool.or_eq_false_iff] at h
    simp only [List.all_cons, Bool.and_eq_true]
    exact ⟨hpq a h.1, ih h.2⟩

theorem any_of_all_ne {α} (q : α → Bool) (l : List α) (hne : l ≠ []) (h : l.all q = true) : l.any q = true := by
  cases l with
  | nil => exact absurd rfl hne
  | cons a t => simp only [List.all_cons, Bool.and_eq_true] at h; simp [h.1]

/-! ### the wake-up maps on the predicates -/

@[simp] theorem activeW_push (w : WPc) : activeW (wakeAllPushW w) = activeW w := by cases w <;> rfl
@[simp] theorem sleepPop_push (w : WPc) : sleepPop (wakeAllPushW w) = sleepPop w := by cases w <;> rfl
@[simp] theorem isExited_push (w : WPc) : isExited (wakeAllPushW w) = isExited w := by cases w <;> rfl
@[simp] theorem rwpOk_push (w : WPc) : rwpOk (wakeAllPushW w) = rwpOk w := by cases w <;> rfl
@[simp] theorem sleepPushW_push (w : WPc) : sleepPushW (wakeAllPushW w) = false := by cases w <;> rfl
@[simp] theorem sleepPushW_pop (w : WPc) : sleepPushW (wakeAllPopW w) = sleepPushW w := by cases w <;> rfl
@[simp] theorem isExited_pop (w : WPc) : isExited (wakeAllPopW w) = isExited w := by cases w <;> rfl
@[simp] theorem rwpOk_pop (w : WPc) : rwpOk (wakeAllPopW w) = rwpOk w := by cases w <;> rfl
@[simp] theorem sleepPop_pop (w : WPc) : sleepPop (wakeAllPopW w) = false := by
  cases w with
  | waitPop b => rfl
  | _ => rfl
theorem activeW_pop_mono (w : WPc) (h : activeW w = true) : activeW (wakeAllPopW w) = true := by
  cases w with
  | waitPop b => rfl
  | _ => exact h
theorem activeW_pop_of_not_exited (w : WPc) (h : isExited w = false) : activeW (wakeAllPopW w) = true := by
  cases w with
  | waitPop b => rfl
  | exited => cases h
  | _ => rfl

@[simp] theorem sleepAddC_push (c : Client) : sleepAddC (wakeAllPushC c) = false := by
  rcases c with ⟨pc, prog⟩
  cases pc <;> simp [wakeAllPushC, sleepAddC]
@[simp] theorem sleepJoinC_push (c : Client) : sleepJoinC (wakeAllPushC c) = false := by
  rcases c with ⟨pc, prog⟩
  cases pc <;> simp [wakeAllPushC, sleepJoinC]
@[simp] theorem pendPushC_push (c : Client) : pendPushC (wakeAllPushC c) = pendPushC c := by
  rcases c with ⟨pc, prog⟩
  cases pc <;> simp [wakeAllPushC, pendPushC]
@[simp] theorem pendFreeC_push (c : Client) : pendFreeC (wakeAllPushC c) = pendFreeC c := by
  rcases c with ⟨pc, prog⟩
  cases pc <;> simp [wakeAllPushC, pendFreeC]

@[simp] theorem isFull_bcastPush (s : St) : isFull (bcastPush s) = isFull s := rfl
@[simp] theorem isFull_bcastPop (s : St) : isFull (bcastPop s) = isFull s := rfl
@[simp] theorem isFull_setClient (s : St) (i : Nat) (c : Client) : isFull (setClient s i c) = isFull s := rfl

/-! ### signalPop -/

theorem signalPop_ws_eq (s : St) (k : Nat) :
    (signalPop s k).ws = s.ws ∨ (s.ws[k]? = some (.waitPop false) ∧ (signalPop s k).ws = s.ws.set k (.waitPop true)) := by
  unfold signalPop
  split
  · rename_i hk; exact Or.inr ⟨hk, rfl⟩
  · exact Or.inl rfl

theorem signalPop_other (s : St) (k : Nat) :
    (signalPop s k).q = s.q ∧ (signalPop s k).busy = s.busy ∧ (signalPop s k).limit = s.limit ∧ (signalPop s k).shutdown = s.shutdown ∧
    (signalPop s k).cs = s.cs ∧ (signalPop s k).size = s.size := by
  unfold signalPop; split <;> simp

/-- a predicate that `waitPop true` does not satisfy gains no witness by a signal -/
theorem signalPop_any {p : WPc → Bool} (hp : p (.waitPop true) = false) (s : St) (k : Nat) (h : (signalPop s k).ws.any p = true) :
    s.ws.any p = true := by
  rcases signalPop_ws_eq s k with e | ⟨_, e⟩
  · rw [e] at h; exact h
  · rw [e] at h
    rcases any_set_of_any p _ _ _ h with h' | h'
    · rw [hp] at h'; cases h'
    · exact h'

/-- a predicate that `waitPop false` does not satisfy loses no witness by a signal -/
theorem signalPop_any_keep {p : WPc → Bool} (hp : p (.waitPop false) = false) (s : St) (k : Nat) (h : s.ws.any p = true) :
    (signalPop s k).ws.any p = true := by
  rcases signalPop_ws_eq s k with e | ⟨hk, e⟩
  · rw [e]; exact h
  · rw [e]; exact any_set_keep p _ _ _ _ hk hp h

theorem signalPop_all {p : WPc → Bool} (hp : p (.waitPop true) = true) (s : St) (k : Nat) (h : s.ws.all p = true) :
    (signalPop s k).ws.all p = true := by
  rcases signalPop_ws_eq s k with e | ⟨_, e⟩
  · rw [e]; exact h
  · rw [e]; exact all_set p _ _ _ h hp

theorem signalPop_ne (s : St) (k : Nat) (h : s.ws ≠ []) : (signalPop s k).ws ≠ [] := by
  rcases signalPop_ws_eq s k with e | ⟨_, e⟩
  · rw [e]; exact h
  · rw [e]; intro h'; exact h (by simpa using h')

theorem signalPop_length (s : St) (k : Nat) : (signalPop s k).ws.length = s.ws.length := by
  rcases signalPop_ws_eq s k with e | ⟨_, e⟩ <;> rw [e] <;> simp

/-- a legal signal leaves an awake worker behind, provided the pool is not shut down -/
theorem signalPop_active (s : St) (k : Nat) (hne : s.ws ≠ []) (hex : s.ws.any isExited = false) (hok : signalChoiceOk s k = true) :
    (signalPop s k).ws.any activeW = true := by
  unfold signalChoiceOk at hok
  simp only [Bool.or_eq_true] at hok
  rcases hok with hk | hall
  · have hk' : s.ws[k]? = some (.waitPop false) := by simpa using hk
    obtain ⟨hlt, _⟩ := idx_of_getElem? hk'
    have : (signalPop s k).ws = s.ws.set k (.waitPop true) := by unfold signalPop; rw [hk']
    rw [this]; exact any_set_self activeW _ _ _ hlt rfl
  · have hws : (signalPop s k).ws = s.ws := by
      rcases signalPop_ws_eq s k with e | ⟨hk, _⟩
      · exact e
      · exfalso
        obtain ⟨hlt, hg⟩ := idx_of_getElem? hk
        have := List.all_eq_true.mp hall _ (List.getElem_mem hlt)
        rw [hg] at this; simp at this
    rw [hws]
    apply any_of_all_ne activeW _ hne
    apply List.all_eq_true.mpr
    intro w hw
    have h1 := List.all_eq_true.mp hall w hw
    have h2 : isExited w = false := by
      cases hx : isExited w with
      | false => rfl
      | true => have : s.ws.any isExited = true := List.any_eq_true.mpr ⟨w, hw, hx⟩; rw [hex] at this; cases this
    cases w with
    | waitPop b => cases b <;> simp_all [activeW]
    | exited => simp [isExited] at h2
    | _ => rfl

end ZstdVerif.Pool

namespace ZstdVerif.Pool

theorem not_exited_of_active {x : WPc} (h : activeW x = true) : isExited x = false := by
  cases x <;> simp_all [activeW, isExited]
theorem not_sleepPop_of_active {x : WPc} (h : activeW x = true) : sleepPop x = false := by
  cases x with
  | waitPop b => cases b <;> simp_all [activeW, sleepPop]
  | _ => rfl
theorem pendPush_le_pendFree {c : Client} (h : pendFreeC c = false) : pendPushC c = false := by
  rcases c with ⟨pc, prog⟩
  cases pc <;> simp_all [pendFreeC, pendPushC]

theorem set_ne_nil {α} {l : List α} {i : Nat} {x : α} (h : l ≠ []) : l.set i x ≠ [] := by
  intro e; exact h (by simpa using e)

/-! ### Core under worker-local updates -/

/-- worker `i` becomes (or stays) awake; queue and counters may change arbitrarily -/
theorem core_setW_active {s : St} (h : Core s) (i : Nat) (x : WPc) (hi : i < s.ws.length)
    (hx : activeW x = true) (hr : rwpOk x = true) (q' : List Job) (b' : Nat) (st fi tr to : List Job) :
    Core { s with ws := s.ws.set i x, q := q', busy := b', started := st, finished := fi, tryRefused := tr, tryOk := to } := by
  refine ⟨h.lim, set_ne_nil h.wsne, all_set _ _ _ _ h.rwp hr, ?_, ?_, ?_⟩
  · intro e
    rcases any_set_of_any _ _ _ _ e with e | e
    · rw [not_exited_of_active hx] at e; cases e
    · exact h.exitShut e
  · intro _ _; exact any_set_self _ _ _ _ hi hx
  · intro hs e
    rcases any_set_of_any _ _ _ _ e with e | e
    · rw [not_sleepPop_of_active hx] at e; cases e
    · exact h.popShut hs e

/-- `Live` of a state right after a broadcast on the push condition: nobody sleeps there any more -/
theorem live_bcastPush_of {t : St} (h : Core t) : Live (bcastPush t) := by
  refine ⟨⟨h.lim, ?_, ?_, ?_, ?_, ?_⟩, ⟨?_, ?_, ?_⟩⟩
  · intro e; exact h.wsne (by simpa [bcastPush] using e)
  · show (t.ws.map wakeAllPushW).all rwpOk = true
    rw [all_map_of _ _ _ rwpOk_push]; exact h.rwp
  · show (t.ws.map wakeAllPushW).any isExited = true → t.shutdown = true
    rw [any_map_of _ _ _ isExited_push]; exact h.exitShut
  · show t.q ≠ [] → t.busy < t.limit → (t.ws.map wakeAllPushW).any activeW = true
    rw [any_map_of _ _ _ activeW_push]; exact h.pop
  · show t.shutdown = true → (t.ws.map wakeAllPushW).any sleepPop = true → (t.cs.map wakeAllPushC).any pendFreeC = true
    rw [any_map_of _ _ _ sleepPop_push, any_map_of _ _ _ pendFreeC_push]; exact h.popShut
  · show (t.ws.map wakeAllPushW).any sleepPushW = true → _
    rw [any_map_false _ _ _ sleepPushW_push]; intro e; cases e
  · show (t.cs.map wakeAllPushC).any sleepAddC = true → _
    rw [any_map_false _ _ _ sleepAddC_push]; intro e; cases e
  · show (t.cs.map wakeAllPushC).any sleepJoinC = true → _
    rw [any_map_false _ _ _ sleepJoinC_push]; intro e; cases e

theorem core_bcastPop {t : St} (h : Core t) : Core (bcastPop t) := by
  refine ⟨h.lim, ?_, ?_, ?_, ?_, ?_⟩
  · intro e; exact h.wsne (by simpa [bcastPop] using e)
  · show (t.ws.map wakeAllPopW).all rwpOk = true
    rw [all_map_of _ _ _ rwpOk_pop]; exact h.rwp
  · show (t.ws.map wakeAllPopW).any isExited = true → t.shutdown = true
    rw [any_map_of _ _ _ isExited_pop]; exact h.exitShut
  · show t.q ≠ [] → t.busy < t.limit → (t.ws.map wakeAllPopW).any activeW = true
    intro a b; exact any_map_mono _ _ _ activeW_pop_mono (h.pop a b)
  · show t.shutdown = true → (t.ws.map wakeAllPopW).any sleepPop = true → _
    rw [any_map_false _ _ _ sleepPop_pop]; intro _ e; cases e

theorem push_bcastPop {t : St} (h : Push t) : Push (bcastPop t) := by
  refine ⟨?_, h.pushAdd, h.pushJoin⟩
  show (t.ws.map wakeAllPopW).any sleepPushW = true → _
  rw [any_map_of _ _ _ sleepPushW_pop]; exact h.pushW

/-! ### Push under updates that create no sleeper -/

theorem push_same {s s' : St} (h : Push s) (hfull : isFull s' = isFull s) (hsh : s'.shutdown = s.shutdown)
    (hw : s'.ws.any sleepPushW = true → s.ws.any sleepPushW = true) (hca : s'.cs.any sleepAddC = true → s.cs.any sleepAddC = true)
    (hcj : s'.cs.any sleepJoinC = true → s.cs.any sleepJoinC = true) (hpend : s.cs.any pendPushC = true → s'.cs.any pendPushC = true)
    (hj : (s.q ≠ [] ∨ 0 < s.busy) → (s'.q ≠ [] ∨ 0 < s'.busy)) : Push s' := by
  refine ⟨?_, ?_, ?_⟩
  · intro e; rw [hfull, hsh]; rcases h.pushW (hw e) with a | a; exact Or.inl a; exact Or.inr (hpend a)
  · intro e; rw [hfull, hsh]; rcases h.pushAdd (hca e) with a | a; exact Or.inl a; exact Or.inr (hpend a)
  · intro e; exact hj (h.pushJoin (hcj e))

/-- the transition happened because the push condition was NOT "full and running": every sleeper is owed a broadcast -/
theorem push_of_pend {s s' : St} (h : Push s) (hn : ¬ (isFull s = true ∧ s.shutdown = false))
    (hw : s'.ws.any sleepPushW = true → s.ws.any sleepPushW = true) (hca : s'.cs.any sleepAddC = true → s.cs.any sleepAddC = true)
    (hcj : s'.cs.any sleepJoinC = true → s.cs.any sleepJoinC = true) (hpend : s.cs.any pendPushC = true → s'.cs.any pendPushC = true)
    (hj : (s.q ≠ [] ∨ 0 < s.busy) → (s'.q ≠ [] ∨ 0 < s'.busy)) : Push s' := by
  refine ⟨?_, ?_, ?_⟩
  · intro e; rcases h.pushW (hw e) with a | a; exact absurd a hn; exact Or.inr (hpend a)
  · intro e; rcases h.pushAdd (hca e) with a | a; exact absurd a hn; exact Or.inr (hpend a)
  · intro e; exact hj (h.pushJoin (hcj e))

end ZstdVerif.Pool

namespace ZstdVerif.Pool

/-! ### addInternal -/

theorem addInternal_other (s : St) (j k : Nat) :
    (addInternal s j k).1.busy = s.busy ∧ (addInternal s j k).1.limit = s.limit ∧ (addInternal s j k).1.shutdown = s.shutdown ∧
    (addInternal s j k).1.cs = s.cs ∧ (addInternal s j k).1.size = s.size ∧ (addInternal s j k).1.ws.length = s.ws.length := by
  unfold addInternal
  split
  · simp
  · have := signalPop_other { s with q := s.q ++ [j], accepted := s.accepted ++ [j] } k
    have hl := signalPop_length { s with q := s.q ++ [j], accepted := s.accepted ++ [j] } k
    simp_all

theorem addInternal_q (s : St) (j k : Nat) : (s.q ≠ [] → (addInternal s j k).1.q ≠ []) := by
  unfold addInternal
  split
  · exact id
  · intro _
    have := (signalPop_other { s with q := s.q ++ [j], accepted := s.accepted ++ [j] } k).1
    rw [this]; simp

theorem addInternal_any {p : WPc → Bool} (hp : p (.waitPop true) = false) (s : St) (j k : Nat)
    (h : (addInternal s j k).1.ws.any p = true) : s.ws.any p = true := by
  unfold addInternal at h
  split at h
  · exact h
  · exact signalPop_any hp { s with q := s.q ++ [j], accepted := s.accepted ++ [j] } k h

theorem core_addInternal {s : St} (h : Core s) (j k : Nat) (hok : signalChoiceOk s k = true) : Core (addInternal s j k).1 := by
  unfold addInternal
  split
  · exact h
  · rename_i hsh
    have hsh' : s.shutdown = false := by simpa using hsh
    let t : St := { s with q := s.q ++ [j], accepted := s.accepted ++ [j] }
    have ho := signalPop_other t k
    refine ⟨?_, signalPop_ne t k h.wsne, signalPop_all rfl t k h.rwp, ?_, ?_, ?_⟩
    · rw [ho.2.2.1]; exact h.lim
    · intro e; rw [ho.2.2.2.1]; exact h.exitShut (signalPop_any rfl t k e)
    · intro _ _
      have hex : s.ws.any isExited = false := by
        cases hx : s.ws.any isExited with
        | false => rfl
        | true => rw [h.exitShut hx] at hsh'; cases hsh'
      exact signalPop_active t k h.wsne hex hok
    · intro hs; rw [ho.2.2.2.1] at hs; rw [hsh'] at hs; cases hs

end ZstdVerif.Pool

namespace ZstdVerif.Pool

/-! ### worker transitions -/

theorem live_sleepW {s : St} (h : Live s) (i : Nat) (hc : (s.q.isEmpty || decide (s.busy ≥ s.limit)) = true)
    (hsh : s.shutdown = false) : Live { s with ws := s.ws.set i (.waitPop false) } := by
  refine ⟨⟨h.core.lim, set_ne_nil h.core.wsne, all_set _ _ _ _ h.core.rwp rfl, ?_, ?_, ?_⟩, ⟨?_, h.push.pushAdd, h.push.pushJoin⟩⟩
  · intro e
    rcases any_set_of_any _ _ _ _ e with e | e
    · cases e
    · exact h.core.exitShut e
  · intro hq hb
    simp only [Bool.or_eq_true, List.isEmpty_iff, decide_eq_true_eq] at hc
    rcases hc with hc | hc
    · exact absurd hc hq
    · exact absurd hb (by show ¬ (s.busy < s.limit); omega)
  · intro hs; rw [hsh] at hs; cases hs
  · intro e
    rcases any_set_of_any _ _ _ _ e with e | e
    · cases e
    · exact h.push.pushW e

theorem live_exitW {s : St} (h : Live s) (i : Nat) (hc : (s.q.isEmpty || decide (s.busy ≥ s.limit)) = true)
    (hsh : s.shutdown = true) : Live { s with ws := s.ws.set i .exited } := by
  refine ⟨⟨h.core.lim, set_ne_nil h.core.wsne, all_set _ _ _ _ h.core.rwp rfl, ?_, ?_, ?_⟩, ⟨?_, h.push.pushAdd, h.push.pushJoin⟩⟩
  · intro _; exact hsh
  · intro hq hb
    simp only [Bool.or_eq_true, List.isEmpty_iff, decide_eq_true_eq] at hc
    rcases hc with hc | hc
    · exact absurd hc hq
    · exact absurd hb (by show ¬ (s.busy < s.limit); omega)
  · intro hs e
    rcases any_set_of_any _ _ _ _ e with e | e
    · cases e
    · exact h.core.popShut hs e
  · intro e
    rcases any_set_of_any _ _ _ _ e with e | e
    · cases e
    · exact h.push.pushW e

theorem live_popW {s : St} (h : Live s) (i : Nat) (hi : i < s.ws.length) (j : Job) (rest : List Job) (r : List JOp) :
    Live (bcastPush { s with q := rest, busy := s.busy + 1, started := s.started ++ [j], ws := s.ws.set i (.run j r) }) :=
  live_bcastPush_of (core_setW_active h.core i (.run j r) hi rfl rfl rest (s.busy + 1) (s.started ++ [j]) s.finished s.tryRefused s.tryOk)

theorem live_finishW {s : St} (h : Live s) (i : Nat) (hi : i < s.ws.length) (j : Job) :
    Live (bcastPush { s with busy := s.busy - 1, finished := s.finished ++ [j], ws := s.ws.set i .idle }) :=
  live_bcastPush_of (core_setW_active h.core i .idle hi rfl rfl s.q (s.busy - 1) s.started (s.finished ++ [j]) s.tryRefused s.tryOk)

theorem live_addWaitW {s : St} (h : Live s) (i : Nat) (hi : i < s.ws.length) (j : Job) (r : List JOp) (hr : headAddJ r = true)
    (hc : (isFull s && !s.shutdown) = true) : Live { s with ws := s.ws.set i (.runWaitPush j r false) } := by
  have hc' : isFull s = true ∧ s.shutdown = false := by simpa using hc
  refine ⟨core_setW_active h.core i (.runWaitPush j r false) hi rfl hr s.q s.busy s.started s.finished s.tryRefused s.tryOk, ⟨?_, ?_, h.push.pushJoin⟩⟩
  · intro _; exact Or.inl hc'
  · intro e; rcases h.push.pushAdd e with a | a; exact Or.inl a; exact Or.inr a

/-- the awake worker `i` does something that is not a wait on the push condition, without touching the queue -/
theorem live_setW_active {s : St} (h : Live s) (i : Nat) (x : WPc) (hi : i < s.ws.length)
    (hx : activeW x = true) (hr : rwpOk x = true) (hp : sleepPushW x = false) (tr to : List Job) :
    Live { s with ws := s.ws.set i x, tryRefused := tr, tryOk := to } := by
  refine ⟨core_setW_active h.core i x hi hx hr s.q s.busy s.started s.finished tr to, ⟨?_, h.push.pushAdd, h.push.pushJoin⟩⟩
  intro e
  rcases any_set_of_any _ _ _ _ e with e | e
  · rw [hp] at e; cases e
  · exact h.push.pushW e

theorem live_addGoW {s : St} (h : Live s) (i sig : Nat) (a : Job) (x : WPc) (hi : i < s.ws.length)
    (hok : signalChoiceOk s sig = true) (hn : ¬ (isFull s = true ∧ s.shutdown = false))
    (hx : activeW x = true) (hr : rwpOk x = true) (hp : sleepPushW x = false) (to : List Job) :
    Live { (addInternal s a sig).1 with ws := (addInternal s a sig).1.ws.set i x, tryOk := to } := by
  have ho := addInternal_other s a sig
  have hc := core_addInternal h.core a sig hok
  refine ⟨core_setW_active hc i x (by rw [ho.2.2.2.2.2]; exact hi) hx hr _ _ _ _ _ to, ?_⟩
  apply push_of_pend h.push hn
  · intro e
    rcases any_set_of_any _ _ _ _ e with e | e
    · rw [hp] at e; cases e
    · exact addInternal_any rfl s a sig e
  · intro e; rw [show ({ (addInternal s a sig).1 with ws := (addInternal s a sig).1.ws.set i x, tryOk := to } : St).cs = s.cs from ho.2.2.2.1] at e; exact e
  · intro e; rw [show ({ (addInternal s a sig).1 with ws := (addInternal s a sig).1.ws.set i x, tryOk := to } : St).cs = s.cs from ho.2.2.2.1] at e; exact e
  · intro e; rw [show ({ (addInternal s a sig).1 with ws := (addInternal s a sig).1.ws.set i x, tryOk := to } : St).cs = s.cs from ho.2.2.2.1]; exact e
  · intro e
    rcases e with e | e
    · exact Or.inl (addInternal_q s a sig e)
    · exact Or.inr (by show 0 < (addInternal s a sig).1.busy; rw [ho.1]; exact e)

end ZstdVerif.Pool

namespace ZstdVerif.Pool

theorem not_full_of_cond {s : St} (hc : ¬ ((isFull s && !s.shutdown) = true)) : ¬ (isFull s = true ∧ s.shutdown = false) := by
  intro ⟨a, b⟩; apply hc; simp [a, b]

theorem live_stepWorker {body : Job → List JOp} {s s' : St} {a : List Act} {i sig : Nat} (h : Live s)
    (hok : signalChoiceOk s sig = true) (hs : stepWorker body s i sig = some (s', a)) : Live s' := by
  unfold stepWorker at hs
  split at hs
  all_goals try (simp at hs; done)
  · -- idle
    rename_i hw
    obtain ⟨hlt, _⟩ := idx_of_getElem? hw
    split at hs
    · rename_i hc
      split at hs
      · rename_i hsh; cases hs; exact live_exitW h i hc hsh
      · rename_i hsh; cases hs; exact live_sleepW h i hc (by simpa using hsh)
    · split at hs
      · simp at hs
      · rename_i j rest hq
        cases hs
        exact live_popW h i hlt j rest (body j)
  · -- woken from the pop wait
    rename_i hw
    obtain ⟨hlt, _⟩ := idx_of_getElem? hw
    split at hs
    · rename_i hc
      split at hs
      · rename_i hsh; cases hs; exact live_exitW h i hc hsh
      · rename_i hsh; cases hs; exact live_sleepW h i hc (by simpa using hsh)
    · split at hs
      · simp at hs
      · rename_i j rest hq
        cases hs
        exact live_popW h i hlt j rest (body j)
  · rename_i j hw
    obtain ⟨hlt, _⟩ := idx_of_getElem? hw
    cases hs
    exact live_finishW h i hlt j
  · -- run j (add a :: rest)
    rename_i j a0 rest hw
    obtain ⟨hlt, _⟩ := idx_of_getElem? hw
    split at hs
    · rename_i hc; cases hs; exact live_addWaitW h i hlt j _ rfl hc
    · rename_i hc; cases hs
      exact live_addGoW h i sig a0 (.run j rest) hlt hok (not_full_of_cond hc) rfl rfl rfl _
  · -- runWaitPush j (add a :: rest) true
    rename_i j a0 rest hw
    obtain ⟨hlt, _⟩ := idx_of_getElem? hw
    split at hs
    · rename_i hc; cases hs; exact live_addWaitW h i hlt j _ rfl hc
    · rename_i hc; cases hs
      exact live_addGoW h i sig a0 (.run j rest) hlt hok (not_full_of_cond hc) rfl rfl rfl _
  · -- run j (tryAdd a :: rest)
    rename_i j a0 rest hw
    obtain ⟨hlt, _⟩ := idx_of_getElem? hw
    split at hs
    · cases hs; exact live_setW_active h i (.run j rest) hlt rfl rfl rfl _ _
    · rename_i hc; cases hs
      exact live_addGoW h i sig a0 (.run j rest) hlt hok (by intro ⟨x, _⟩; exact hc (by simp [x])) rfl rfl rfl _

end ZstdVerif.Pool

namespace ZstdVerif.Pool

/-! ### client transitions -/

theorem core_setC {t : St} (h : Core t) (i : Nat) (c c' : Client) (hc : t.cs[i]? = some c) (hpf : pendFreeC c = false)
    (tr to : List Job) : Core (setClient { t with tryRefused := tr, tryOk := to } i c') := by
  refine ⟨h.lim, h.wsne, h.rwp, h.exitShut, h.pop, ?_⟩
  intro hs e
  exact any_set_keep pendFreeC _ i c' c hc hpf (h.popShut hs e)

theorem live_setC_plain {s : St} (h : Live s) (i : Nat) (c c' : Client) (hc : s.cs[i]? = some c) (hpf : pendFreeC c = false)
    (ha : sleepAddC c' = false) (hj : sleepJoinC c' = false) (tr to : List Job) :
    Live (setClient { s with tryRefused := tr, tryOk := to } i c') := by
  refine ⟨core_setC h.core i c c' hc hpf tr to, ?_⟩
  refine push_same h.push ?_ ?_ ?_ ?_ ?_ ?_ ?_
  · rfl
  · rfl
  · exact id
  · intro e
    rcases any_set_of_any _ _ _ _ e with e | e
    · rw [ha] at e; cases e
    · exact e
  · intro e
    rcases any_set_of_any _ _ _ _ e with e | e
    · rw [hj] at e; cases e
    · exact e
  · intro e; exact any_set_keep pendPushC _ i c' c hc (pendPush_le_pendFree hpf) e
  · exact id

theorem live_addWaitC {s : St} (h : Live s) (i : Nat) (c : Client) (j : Job) (rest : List COp) (hc : s.cs[i]? = some c)
    (hpf : pendFreeC c = false) (hcond : (isFull s && !s.shutdown) = true) :
    Live (setClient s i ⟨.waitPush false, .add j :: rest⟩) := by
  have hc' : isFull s = true ∧ s.shutdown = false := by simpa using hcond
  refine ⟨core_setC h.core i c _ hc hpf s.tryRefused s.tryOk, ⟨?_, ?_, ?_⟩⟩
  · intro _; exact Or.inl hc'
  · intro _; exact Or.inl hc'
  · intro e
    rcases any_set_of_any _ _ _ _ e with e | e
    · cases e
    · exact h.push.pushJoin e

theorem live_joinWaitC {s : St} (h : Live s) (i : Nat) (c : Client) (rest : List COp) (hc : s.cs[i]? = some c)
    (hpf : pendFreeC c = false) (hcond : (!s.q.isEmpty || decide (s.busy > 0)) = true) :
    Live (setClient s i ⟨.waitPush false, .joinJobs :: rest⟩) := by
  have hkeep : s.cs.any pendPushC = true → (s.cs.set i ⟨.waitPush false, .joinJobs :: rest⟩).any pendPushC = true :=
    fun e => any_set_keep pendPushC _ i _ c hc (pendPush_le_pendFree hpf) e
  refine ⟨core_setC h.core i c _ hc hpf s.tryRefused s.tryOk, ⟨?_, ?_, ?_⟩⟩
  · intro e; rcases h.push.pushW e with a | a; exact Or.inl a; exact Or.inr (hkeep a)
  · intro e
    rcases any_set_of_any _ _ _ _ e with e | e
    · cases e
    · rcases h.push.pushAdd e with a | a; exact Or.inl a; exact Or.inr (hkeep a)
  · intro _
    simp only [Bool.or_eq_true, Bool.not_eq_true', List.isEmpty_eq_false_iff, decide_eq_true_eq] at hcond
    rcases hcond with a | a
    · exact Or.inl a
    · exact Or.inr a

theorem live_addGoC {s : St} (h : Live s) (i sig : Nat) (j : Job) (c c' : Client) (hc : s.cs[i]? = some c)
    (hpf : pendFreeC c = false) (hok : signalChoiceOk s sig = true) (hn : ¬ (isFull s = true ∧ s.shutdown = false))
    (ha : sleepAddC c' = false) (hj : sleepJoinC c' = false) (to : List Job) :
    Live (setClient { (addInternal s j sig).1 with tryOk := to } i c') := by
  have ho := addInternal_other s j sig
  have hcs : (addInternal s j sig).1.cs = s.cs := ho.2.2.2.1
  have hcore := core_addInternal h.core j sig hok
  refine ⟨core_setC hcore i c c' (by rw [hcs]; exact hc) hpf _ to, ?_⟩
  apply push_of_pend h.push hn
  · intro e; exact addInternal_any rfl s j sig e
  · intro e
    have e' : (s.cs.set i c').any sleepAddC = true := by rw [← hcs]; exact e
    rcases any_set_of_any _ _ _ _ e' with e' | e'
    · rw [ha] at e'; cases e'
    · exact e'
  · intro e
    have e' : (s.cs.set i c').any sleepJoinC = true := by rw [← hcs]; exact e
    rcases any_set_of_any _ _ _ _ e' with e' | e'
    · rw [hj] at e'; cases e'
    · exact e'
  · intro e
    show ((addInternal s j sig).1.cs.set i c').any pendPushC = true
    rw [hcs]; exact any_set_keep pendPushC _ i c' c hc (pendPush_le_pendFree hpf) e
  · intro e
    rcases e with e | e
    · exact Or.inl (addInternal_q s j sig e)
    · exact Or.inr (by show 0 < (addInternal s j sig).1.busy; rw [ho.1]; exact e)

theorem active_of_isRun {w : WPc} (h : isRun w = true) : activeW w = true := by
  cases w <;> simp_all [isRun, activeW]

theorem any_active_replicate_idle (k : Nat) (hk : 0 < k) : (List.replicate k WPc.idle).any activeW = true := by
  cases k with
  | zero => omega
  | succ m => simp [List.replicate_succ, activeW]

theorem live_resize {s : St} (h : Live s) (hinv : Inv s) (n : Nat) : Live (resize s n) := by
  unfold resize
  apply live_bcastPush_of
  apply core_bcastPop
  -- an awake worker exists whenever a job is queued and some thread may still start one under ANY positive limit
  have hact : s.q ≠ [] → s.ws.any activeW = true := by
    intro hq
    by_cases hb : 0 < s.busy
    · have hb' := hinv.busy
      have : 0 < s.ws.countP isRun := by omega
      obtain ⟨w, hw, hr⟩ := List.countP_pos_iff.mp this
      exact List.any_eq_true.mpr ⟨w, hw, active_of_isRun hr⟩
    · exact h.core.pop hq (by have := h.core.lim; omega)
  split
  · split
    · exact h.core
    · rename_i hn0
      refine ⟨by show 0 < n; omega, h.core.wsne, h.core.rwp, h.core.exitShut, ?_, h.core.popShut⟩
      intro hq _; exact hact hq
  · rename_i hgt
    have hk : 0 < n - s.ws.length := by omega
    refine ⟨by show 0 < n; omega, ?_, ?_, ?_, ?_, ?_⟩
    · intro e; exact h.core.wsne (by have := congrArg List.length e; simp at this; exact this.1)
    · show (s.ws ++ List.replicate (n - s.ws.length) WPc.idle).all rwpOk = true
      rw [List.all_append, h.core.rwp]; simp [rwpOk]
    · show (s.ws ++ List.replicate (n - s.ws.length) WPc.idle).any isExited = true → s.shutdown = true
      rw [List.any_append]; intro e
      simp only [Bool.or_eq_true] at e
      rcases e with e | e
      · exact h.core.exitShut e
      · simp [isExited] at e
    · intro _ _
      show (s.ws ++ List.replicate (n - s.ws.length) WPc.idle).any activeW = true
      rw [List.any_append, any_active_replicate_idle _ hk]; simp
    · intro hs
      show (s.ws ++ List.replicate (n - s.ws.length) WPc.idle).any sleepPop = true → _
      rw [List.any_append]; intro e
      simp only [Bool.or_eq_true] at e
      rcases e with e | e
      · exact h.core.popShut hs e
      · simp [sleepPop] at e

theorem live_freeC {s : St} (h : Live s) (i : Nat) (hi : i < s.cs.length) (prog : List COp) :
    Live (setClient { s with shutdown := true } i ⟨.freeBcastPush, prog⟩) := by
  refine ⟨⟨h.core.lim, h.core.wsne, h.core.rwp, fun _ => rfl, h.core.pop, ?_⟩, ⟨?_, ?_, ?_⟩⟩
  · intro _ _; exact any_set_self pendFreeC _ _ _ hi rfl
  · intro _; exact Or.inr (any_set_self pendPushC _ _ _ hi rfl)
  · intro _; exact Or.inr (any_set_self pendPushC _ _ _ hi rfl)
  · intro e
    rcases any_set_of_any _ _ _ _ e with e | e
    · cases e
    · exact h.push.pushJoin e

theorem live_fbPushC {s : St} (h : Live s) (i : Nat) (hi : i < s.cs.length) (prog : List COp) :
    Live (setClient (bcastPush s) i ⟨.freeBcastPop, prog⟩) := by
  have L := live_bcastPush_of h.core
  refine ⟨⟨L.core.lim, L.core.wsne, L.core.rwp, L.core.exitShut, L.core.pop, ?_⟩, ⟨?_, ?_, ?_⟩⟩
  · intro _ _
    exact any_set_self pendFreeC _ _ _ (by show i < (s.cs.map wakeAllPushC).length; simpa using hi) rfl
  · show (s.ws.map wakeAllPushW).any sleepPushW = true → _
    rw [any_map_false _ _ _ sleepPushW_push]; intro e; cases e
  · intro e
    rcases any_set_of_any _ _ _ _ e with e | e
    · cases e
    · have : (s.cs.map wakeAllPushC).any sleepAddC = false := any_map_false _ _ _ sleepAddC_push
      rw [show (bcastPush s).cs = s.cs.map wakeAllPushC from rfl, this] at e; cases e
  · intro e
    rcases any_set_of_any _ _ _ _ e with e | e
    · cases e
    · have : (s.cs.map wakeAllPushC).any sleepJoinC = false := any_map_false _ _ _ sleepJoinC_push
      rw [show (bcastPush s).cs = s.cs.map wakeAllPushC from rfl, this] at e; cases e

theorem live_fbPopC {s : St} (h : Live s) (i : Nat) (c : Client) (hc : s.cs[i]? = some c) (hpp : pendPushC c = false)
    (prog : List COp) : Live (setClient (bcastPop s) i ⟨.joining, prog⟩) := by
  have C := core_bcastPop h.core
  have P := push_bcastPop h.push
  refine ⟨⟨C.lim, C.wsne, C.rwp, C.exitShut, C.pop, ?_⟩, ?_⟩
  · intro _
    show (s.ws.map wakeAllPopW).any sleepPop = true → _
    rw [any_map_false _ _ _ sleepPop_pop]; intro e; cases e
  · refine push_same P ?_ ?_ ?_ ?_ ?_ ?_ ?_
    · rfl
    · rfl
    · exact id
    · intro e
      rcases any_set_of_any _ _ _ _ e with e | e
      · cases e
      · exact e
    · intro e
      rcases any_set_of_any _ _ _ _ e with e | e
      · cases e
      · exact e
    · intro e; exact any_set_keep pendPushC _ i _ c hc hpp e
    · exact id

end ZstdVerif.Pool

namespace ZstdVerif.Pool

theorem live_stepClient {s s' : St} {a : List Act} {i sig : Nat} (h : Live s) (hinv : Inv s)
    (hok : signalChoiceOk s sig = true) (hs : stepClient s i sig = some (s', a)) : Live s' := by
  unfold stepClient at hs
  split at hs
  · simp at hs
  · rename_i c hc
    obtain ⟨hlt, _⟩ := idx_of_getElem? hc
    rcases c with ⟨pc, prog⟩
    cases pc with
    | done => simp at hs
    | ready =>
      cases prog with
      | nil =>
        simp only at hs; cases hs
        exact live_setC_plain h i _ ⟨.done, []⟩ hc rfl rfl rfl s.tryRefused s.tryOk
      | cons op rest =>
        cases op with
        | add j =>
          simp only at hs
          split at hs
          · rename_i hcond; cases hs; exact live_addWaitC h i _ j rest hc rfl hcond
          · rename_i hcond; cases hs
            exact live_addGoC h i sig j _ ⟨.ready, rest⟩ hc rfl hok (not_full_of_cond hcond) rfl rfl _
        | tryAdd j =>
          simp only at hs
          split at hs
          · cases hs; exact live_setC_plain h i _ ⟨.ready, rest⟩ hc rfl rfl rfl _ _
          · rename_i hcond; cases hs
            exact live_addGoC h i sig j _ ⟨.ready, rest⟩ hc rfl hok (by intro ⟨x, _⟩; exact hcond (by simp [x])) rfl rfl _
        | joinJobs =>
          simp only at hs
          split at hs
          · rename_i hcond; cases hs; exact live_joinWaitC h i _ rest hc rfl hcond
          · cases hs; exact live_setC_plain h i _ ⟨.ready, rest⟩ hc rfl rfl rfl s.tryRefused s.tryOk
        | resize n =>
          simp only at hs; cases hs
          have L := live_resize h hinv n
          have hc' : (resize s n).cs[i]? = some (wakeAllPushC ⟨.ready, .resize n :: rest⟩) := by
            unfold resize bcastPush bcastPop
            split <;> (try split) <;> simp [hc]
          exact live_setC_plain L i _ ⟨.ready, rest⟩ hc' rfl rfl rfl (resize s n).tryRefused (resize s n).tryOk
        | free =>
          simp only at hs; cases hs
          exact live_freeC h i hlt _
    | waitPush w =>
      cases w with
      | false => simp at hs
      | true =>
        cases prog with
        | nil => simp at hs
        | cons op rest =>
          cases op with
          | add j =>
            simp only at hs
            split at hs
            · rename_i hcond; cases hs; exact live_addWaitC h i _ j rest hc rfl hcond
            · rename_i hcond; cases hs
              exact live_addGoC h i sig j _ ⟨.ready, rest⟩ hc rfl hok (not_full_of_cond hcond) rfl rfl _
          | joinJobs =>
            simp only at hs
            split at hs
            · rename_i hcond; cases hs; exact live_joinWaitC h i _ rest hc rfl hcond
            · cases hs; exact live_setC_plain h i _ ⟨.ready, rest⟩ hc rfl rfl rfl s.tryRefused s.tryOk
          | tryAdd j => simp at hs
          | resize n => simp at hs
          | free => simp at hs
    | freeBcastPush => simp only at hs; cases hs; exact live_fbPushC h i hlt _
    | freeBcastPop => simp only at hs; cases hs; exact live_fbPopC h i _ hc rfl _
    | joining =>
      simp only at hs
      split at hs
      · cases hs; exact live_setC_plain h i _ ⟨.done, []⟩ hc rfl rfl rfl s.tryRefused s.tryOk
      · simp at hs

theorem live_spuriousW {s s' : St} {i : Nat} (h : Live s) (hs : spuriousW s i = some s') : Live s' := by
  unfold spuriousW at hs
  split at hs
  · rename_i hw; cases hs
    obtain ⟨hlt, _⟩ := idx_of_getElem? hw
    exact live_setW_active h i (.waitPop true) hlt rfl rfl rfl s.tryRefused s.tryOk
  · rename_i j r hw; cases hs
    obtain ⟨hlt, hg⟩ := idx_of_getElem? hw
    have hr : rwpOk (.runWaitPush j r true) = true := by
      have := List.all_eq_true.mp h.core.rwp _ (List.getElem_mem hlt)
      rw [hg] at this; exact this
    exact live_setW_active h i (.runWaitPush j r true) hlt rfl hr rfl s.tryRefused s.tryOk
  · simp at hs

theorem live_spuriousC {s s' : St} {i : Nat} (h : Live s) (hs : spuriousC s i = some s') : Live s' := by
  unfold spuriousC at hs
  split at hs
  · rename_i p hc; cases hs
    exact live_setC_plain h i _ ⟨.waitPush true, p⟩ hc rfl rfl rfl s.tryRefused s.tryOk
  · simp at hs

theorem live_init (t qs : Nat) (progs : List (List COp)) (ht : 0 < t) : Live (init t qs progs) := by
  have hnoW : ∀ (p : WPc → Bool), p .idle = false → (List.replicate t WPc.idle).any p = false := by
    intro p hp; induction t with
    | zero => rfl
    | succ m ih => cases m with
      | zero => simp [List.replicate_succ, hp]
      | succ k => simp [List.replicate_succ, hp] at ih ⊢
  have hnoC : ∀ (p : Client → Bool), (∀ pr, p ⟨.ready, pr⟩ = false) → (progs.map (fun p => (⟨.ready, p⟩ : Client))).any p = false := by
    intro p hp; induction progs with
    | nil => rfl
    | cons a r ih => simp [hp, ih]
  refine ⟨⟨ht, ?_, ?_, ?_, ?_, ?_⟩, ⟨?_, ?_, ?_⟩⟩
  · show List.replicate t WPc.idle ≠ []
    intro e; have := congrArg List.length e; simp at this; omega
  · show (List.replicate t WPc.idle).all rwpOk = true
    simp [rwpOk]
  · show (List.replicate t WPc.idle).any isExited = true → _
    rw [hnoW isExited rfl]; intro e; cases e
  · intro _ _; exact any_active_replicate_idle t ht
  · intro hs; cases hs
  · show (List.replicate t WPc.idle).any sleepPushW = true → _
    rw [hnoW sleepPushW rfl]; intro e; cases e
  · show (progs.map (fun p => (⟨.ready, p⟩ : Client))).any sleepAddC = true → _
    rw [hnoC sleepAddC (fun _ => rfl)]; intro e; cases e
  · show (progs.map (fun p => (⟨.ready, p⟩ : Client))).any sleepJoinC = true → _
    rw [hnoC sleepJoinC (fun _ => rfl)]; intro e; cases e

end ZstdVerif.Pool

namespace ZstdVerif.Pool

/-! ### enabledness -/

theorem exists_sig (s : St) : ∃ k, signalChoiceOk s k = true := by
  unfold signalChoiceOk
  by_cases hall : s.ws.all (fun w => w != .waitPop false) = true
  · exact ⟨0, by simp [hall]⟩
  · have : ∃ w ∈ s.ws, ¬ ((w != .waitPop false) = true) := by
      simpa [List.all_eq_true] using hall
    obtain ⟨w, hw, hne⟩ := this
    have hw' : w = .waitPop false := by simpa using hne
    subst hw'
    obtain ⟨k, hk⟩ := List.mem_iff_getElem?.mp hw
    exact ⟨k, by simp [hk]⟩

/-- a worker that is neither asleep nor exited has an enabled critical section -/
theorem stepWorker_enabled (body : Job → List JOp) (s : St) (i sig : Nat) (w : WPc) (hw : s.ws[i]? = some w)
    (ha : activeW w = true) (hp : sleepPushW w = false) (hr : rwpOk w = true) : (stepWorker body s i sig).isSome = true := by
  unfold stepWorker
  rw [hw]
  cases w with
  | exited => cases ha
  | idle =>
    simp only
    split
    · split <;> rfl
    · rename_i hc
      cases hq : s.q with
      | nil => simp [hq] at hc
      | cons j rest => rfl
  | waitPop b =>
    cases b with
    | false => cases ha
    | true =>
      simp only
      split
      · split <;> rfl
      · rename_i hc
        cases hq : s.q with
        | nil => simp [hq] at hc
        | cons j rest => rfl
  | run j r =>
    cases r with
    | nil => rfl
    | cons op rest =>
      cases op with
      | add a => simp only; split <;> rfl
      | tryAdd a => simp only; split <;> rfl
  | runWaitPush j r b =>
    cases b with
    | false => cases hp
    | true =>
      cases r with
      | nil => cases hr
      | cons op rest =>
        cases op with
        | add a => simp only; split <;> rfl
        | tryAdd a => cases hr

end ZstdVerif.Pool
