/-
Round trip of the frame header: the decoder-side parser (Model/Frame.getHeader) applied to what the writer model (Model/HeaderW,
tied to ZSTD_writeFrameHeader) emits gives back the fields that went in. Proof = case analysis over the descriptor shapes.
-/
import ZstdVerif.Model.HeaderW
namespace ZstdVerif.HeaderW
open ZstdVerif ZstdVerif.Gen

theorem size_mk (l : List UInt8) : (ByteArray.mk l.toArray).size = l.length := by
  simp [ByteArray.size]

theorem u8_mk (l : List UInt8) (i : Nat) : (ByteArray.mk l.toArray).u8 i = (l[i]?.map UInt8.toNat).getD 0 := by
  unfold ByteArray.u8
  by_cases h : i < l.length
  · have h' : i < (ByteArray.mk l.toArray).size := by rw [size_mk]; exact h
    simp only [h', dite_true]
    rw [List.getElem?_eq_getElem h]
    rfl
  · have h' : ¬ i < (ByteArray.mk l.toArray).size := by rw [size_mk]; exact h
    simp only [h', dite_false]
    rw [List.getElem?_eq_none (by omega)]
    rfl

theorem byte_toNat (n : Nat) : (byte n).toNat = n % 256 := by
  simp [byte]

theorem getHeader_dispatch (src : Bytes) (srcSize : Nat) (ml : Bool)
    (h1 : (if ml then 1 else 5) ≤ srcSize) (h2 : ml = true ∨ src.le32 0 = ZSTD_MAGICNUMBER)
    (h3 : Frame.headerSizeOf (src.u8 ((if ml then 1 else 5) - 1)) ml ≤ srcSize) (h4 : src.u8 ((if ml then 1 else 5) - 1) &&& 8 = 0) :
    Frame.getHeader src 0 srcSize ml =
      Frame.parseFields src (if ml then 1 else 5) (src.u8 ((if ml then 1 else 5) - 1)) (Frame.headerSizeOf (src.u8 ((if ml then 1 else 5) - 1)) ml) := by
  unfold Frame.getHeader
  cases ml with
  | true =>
    simp only [if_true, Nat.sub_self] at h1 h3 h4 ⊢
    simp [show ¬ srcSize < 1 by omega, show ¬ srcSize < Frame.headerSizeOf (src.u8 0) true by omega, h4]
  | false =>
    simp only [Bool.false_eq_true, if_false, Nat.reduceSub] at h1 h3 h4 ⊢
    have hm : src.le32 0 = ZSTD_MAGICNUMBER := by rcases h2 with h | h; cases h; exact h
    simp [show ¬ srcSize < 5 by omega, show ¬ srcSize < Frame.headerSizeOf (src.u8 4) false by omega, h4, hm]

theorem and7 (x : Nat) : x &&& 7 = x % 8 := by
  have := Nat.and_two_pow_sub_one_eq_mod x 3
  simpa using this

theorem wl_byte (wl : Nat) (h1 : 10 ≤ wl) (h2 : wl ≤ 31) :
    (((wl - 10) * 8 % 256) >>> 3) + 10 = wl ∧ ((wl - 10) * 8 % 256) &&& 7 = 0 := by
  rw [Nat.shiftRight_eq_div_pow, and7]
  omega

theorem le2_val (n : Nat) (h : n < 65536) : n % 256 + (n / 256 % 256) <<< 8 = n := by
  rw [Nat.shiftLeft_eq]; omega
theorem le4_val (n : Nat) (h : n < 4294967296) :
    n % 256 + (n / 256 % 256) <<< 8 + (n / 65536 % 256) <<< 16 + (n / 16777216 % 256) <<< 24 = n := by
  simp only [Nat.shiftLeft_eq]; omega
theorem le8_val (n : Nat) (h : n < 18446744073709551616) :
    n % 256 + (n / 256 % 256) <<< 8 + (n / 65536 % 256) <<< 16 + (n / 16777216 % 256) <<< 24 +
      (n / 4294967296 % 256 + (n / 4294967296 / 256 % 256) <<< 8 + (n / 4294967296 / 65536 % 256) <<< 16 + (n / 4294967296 / 16777216 % 256) <<< 24) <<< 32 = n := by
  simp only [Nat.shiftLeft_eq]; omega


theorem pow_wl (wl : Nat) (h1 : 10 ≤ wl) (h2 : wl ≤ 31) : 1024 ≤ 2 ^ wl ∧ 2 ^ wl ≤ 2147483648 := by
  constructor
  · have := Nat.pow_le_pow_right (show 0 < 2 by omega) h1; simpa using this
  · have := Nat.pow_le_pow_right (show 0 < 2 by omega) h2; simpa using this

set_option hygiene false in
/-- byte facts of one parameter family: expects `hdc : dictCode a = _`, `hfc : fcsCode a = _`, `hsg : single a = _`;
leaves `L` (the whole input), `b0 .. b17 : (mk L).u8 k = value`, `hl : L.length = n + rest.length` -/
macro "hdr_bytes" hdc:ident hfc:ident hsg:ident : tactic => `(tactic| (
  generalize hL : (writeHeader _ ++ _) = L
  simp only [writeHeader, descriptor, $hdc:ident, $hfc:ident, $hsg:ident, ZSTD_WINDOWLOG_ABSOLUTEMIN, le4, le2, le8, ZSTD_MAGICNUMBER, Bool.false_eq_true, if_false, if_true, Nat.reduceAdd, Nat.reduceMul, Nat.reduceDiv,
    List.cons_append, List.nil_append, List.append_assoc, List.length_cons, List.length_nil] at hL ⊢
  have b0 := u8_mk L 0; have b1 := u8_mk L 1; have b2 := u8_mk L 2; have b3 := u8_mk L 3; have b4 := u8_mk L 4; have b5 := u8_mk L 5; have b6 := u8_mk L 6; have b7 := u8_mk L 7; have b8 := u8_mk L 8
  have b9 := u8_mk L 9; have b10 := u8_mk L 10; have b11 := u8_mk L 11; have b12 := u8_mk L 12; have b13 := u8_mk L 13; have b14 := u8_mk L 14; have b15 := u8_mk L 15; have b16 := u8_mk L 16; have b17 := u8_mk L 17
  have hl : L.length = L.length := rfl
  conv at b0 => rhs; rw [← hL]
  conv at b1 => rhs; rw [← hL]
  conv at b2 => rhs; rw [← hL]
  conv at b3 => rhs; rw [← hL]
  conv at b4 => rhs; rw [← hL]
  conv at b5 => rhs; rw [← hL]
  conv at b6 => rhs; rw [← hL]
  conv at b7 => rhs; rw [← hL]
  conv at b8 => rhs; rw [← hL]
  conv at b9 => rhs; rw [← hL]
  conv at b10 => rhs; rw [← hL]
  conv at b11 => rhs; rw [← hL]
  conv at b12 => rhs; rw [← hL]
  conv at b13 => rhs; rw [← hL]
  conv at b14 => rhs; rw [← hL]
  conv at b15 => rhs; rw [← hL]
  conv at b16 => rhs; rw [← hL]
  conv at b17 => rhs; rw [← hL]
  conv at hl => rhs; rw [← hL]
  simp only [List.getElem?_cons_succ, List.getElem?_cons_zero, Option.map_some, Option.getD_some, byte_toNat, Nat.reduceMod, List.length_cons] at b0 b1 b2 b3 b4 b5 b6 b7 b8 b9 b10 b11 b12 b13 b14 b15 b16 b17 hl
  clear hL))

set_option hygiene false in
/-- second half: dispatch + field evaluation, for the context left by `hdr_bytes` (ml = the magicless flag as a term) -/
macro "hdr_finish" ml:term : tactic => `(tactic| (
  have hmagic : $ml = true ∨ (ByteArray.mk L.toArray).le32 0 = ZSTD_MAGICNUMBER := by
    first
      | exact Or.inl rfl
      | (refine Or.inr ?_; unfold ByteArray.le32; rw [b0, b1, b2, b3]; rfl)
  rw [getHeader_dispatch _ _ $ml (by simp only [Bool.false_eq_true, if_false, if_true]; omega) hmagic
      (by simp only [Bool.false_eq_true, if_false, if_true, Nat.reduceSub, Nat.sub_self, b0, b4, Frame.headerSizeOf, ZSTD_did_fieldSize, ZSTD_fcs_fieldSize, Nat.reduceAnd, Nat.reduceShiftRight, Nat.reduceBEq,
            Nat.reduceAdd, List.getD_cons_succ, List.getD_cons_zero, Bool.and_false, Bool.and_true, Bool.false_and, Bool.true_and]; omega)
      (by simp only [Bool.false_eq_true, if_false, if_true, Nat.reduceSub, Nat.sub_self, b0, b4, Nat.reduceAnd])]
  simp only [Bool.false_eq_true, if_false, if_true, Nat.reduceSub, Nat.sub_self, b0, b4]
  unfold Frame.parseFields
  simp only [ZSTD_did_fieldSize, ZSTD_fcs_fieldSize, Frame.headerSizeOf, ZSTD_WINDOWLOG_ABSOLUTEMIN, ZSTD_WINDOWLOG_MAX, Nat.reduceAnd, Nat.reduceShiftRight, Nat.reduceBEq, Nat.reduceAdd, Nat.reduceSub,
    Bool.false_eq_true, if_false, if_true, List.getD_cons_succ, List.getD_cons_zero, Bool.not_false, Bool.not_true, Bool.true_and, Bool.false_and, Bool.and_false, Bool.and_true]
  try unfold ByteArray.le64
  try unfold ByteArray.le32
  try unfold ByteArray.le16
  simp only [Nat.reduceAdd, b0, b1, b2, b3, b4, b5, b6, b7, b8, b9, b10, b11, b12, b13, b14, b15, b16, b17]))


set_option hygiene false in
macro "hdr_close" wl:ident h1:ident h2:ident did:term:max pl:ident : tactic => `(tactic| (
  have hw1 := (wl_byte $wl $h1 $h2).1
  have hw2 := (wl_byte $wl $h1 $h2).2
  try simp only [hw1, hw2, show ¬ $wl > 31 by omega, decide_false, Bool.false_eq_true, if_false]
  try simp only [le2_val $did (by omega)]
  try simp only [le4_val $did (by omega)]
  try simp only [le2_val ($pl - 256) (by omega)]
  try simp only [le4_val $pl (by omega)]
  try simp only [le8_val $pl (by omega)]
  refine ⟨_, rfl, ?_⟩
  simp only [Nat.shiftLeft_eq, Nat.zero_mul, Nat.mul_zero, Nat.add_zero, Nat.one_mul, Option.getD_some, if_true, if_false, Bool.false_eq_true]
  refine ⟨?_, ?_, ?_, ?_, ?_, ?_⟩ <;> first | rfl | omega | (congr 1; omega) | simp))

set_option hygiene false in
/-- all content-size shapes x checksum x magic, for a fixed dictionary-ID shape (`hdc` and the range facts in context) -/
macro "hdr_all" did:term:max : tactic => `(tactic| (
  rcases hF with ⟨hfc, hsg, hcs⟩ | ⟨hfc, hsg, hcs, hp1⟩ | ⟨hfc, hsg, hcs, hp1, hp2⟩ | ⟨hfc, hsg, hcs, hp1, hp2⟩ | ⟨hfc, hsg, hcs, hp1, hp2⟩ | ⟨hfc, hsg, hcs, hp1, hp2⟩ | ⟨hfc, hsg, hcs, hp1⟩ <;>
  rw [hsg] <;> subst hcs <;> cases ck <;> cases ml <;>
  first
    | (hdr_bytes hdc hfc hsg; hdr_finish true; hdr_close wl h1 h2 $did pl)
    | (hdr_bytes hdc hfc hsg; hdr_finish false; hdr_close wl h1 h2 $did pl)))

set_option maxRecDepth 100000 in
set_option maxHeartbeats 4000000 in
/-- **header_roundtrip**: for every accepted window log, pledged size, dictionary ID and flag combination, parsing what
ZSTD_writeFrameHeader writes (followed by anything) succeeds and returns exactly the fields that went in -/
theorem header_roundtrip (wl pl did : Nat) (cs nd ck ml : Bool) (rest : List UInt8)
    (h1 : 10 ≤ wl) (h2 : wl ≤ 31) (hdid : did < 4294967296) (hpl : pl < 18446744073709551616) :
    ∃ hd, Frame.getHeader (ByteArray.mk (writeHeader ⟨wl, pl, cs, did, nd, ck, ml⟩ ++ rest).toArray) 0
            ((writeHeader ⟨wl, pl, cs, did, nd, ck, ml⟩ ++ rest).length) ml = .ok hd ∧
      hd.headerSize = (writeHeader ⟨wl, pl, cs, did, nd, ck, ml⟩).length ∧
      hd.fcs = (if cs then some pl else none) ∧
      hd.windowSize = (if single ⟨wl, pl, cs, did, nd, ck, ml⟩ then pl else 2 ^ wl) ∧
      hd.dictID = (if nd then 0 else did) ∧ hd.checksum = ck ∧ hd.singleSegment = single ⟨wl, pl, cs, did, nd, ck, ml⟩ := by
  have hp := pow_wl wl h1 h2
  -- dictionary-ID shape
  have hD : (dictCode ⟨wl, pl, cs, did, nd, ck, ml⟩ = 0 ∧ (nd = true ∨ did = 0)) ∨
            (dictCode ⟨wl, pl, cs, did, nd, ck, ml⟩ = 1 ∧ nd = false ∧ 0 < did ∧ did < 256) ∨
            (dictCode ⟨wl, pl, cs, did, nd, ck, ml⟩ = 2 ∧ nd = false ∧ 256 ≤ did ∧ did < 65536) ∨
            (dictCode ⟨wl, pl, cs, did, nd, ck, ml⟩ = 3 ∧ nd = false ∧ 65536 ≤ did) := by
    cases nd with
    | true => exact Or.inl ⟨by simp [dictCode], Or.inl rfl⟩
    | false =>
      by_cases a : did = 0
      · exact Or.inl ⟨by simp [dictCode, a], Or.inr a⟩
      · by_cases b : did < 256
        · exact Or.inr (Or.inl ⟨by simp [dictCode, show 0 < did by omega, show ¬ 256 ≤ did by omega, show ¬ 65536 ≤ did by omega], rfl, by omega, b⟩)
        · by_cases c : did < 65536
          · exact Or.inr (Or.inr (Or.inl ⟨by simp [dictCode, show 0 < did by omega, show 256 ≤ did by omega, show ¬ 65536 ≤ did by omega], rfl, by omega, c⟩))
          · exact Or.inr (Or.inr (Or.inr ⟨by simp [dictCode, show 0 < did by omega, show 256 ≤ did by omega, show 65536 ≤ did by omega], rfl, by omega⟩))
  -- content-size shape
  have hF : (fcsCode ⟨wl, pl, cs, did, nd, ck, ml⟩ = 0 ∧ single ⟨wl, pl, cs, did, nd, ck, ml⟩ = false ∧ cs = false) ∨
            (fcsCode ⟨wl, pl, cs, did, nd, ck, ml⟩ = 0 ∧ single ⟨wl, pl, cs, did, nd, ck, ml⟩ = true ∧ cs = true ∧ pl < 256) ∨
            (fcsCode ⟨wl, pl, cs, did, nd, ck, ml⟩ = 1 ∧ single ⟨wl, pl, cs, did, nd, ck, ml⟩ = true ∧ cs = true ∧ 256 ≤ pl ∧ pl < 65792) ∨
            (fcsCode ⟨wl, pl, cs, did, nd, ck, ml⟩ = 1 ∧ single ⟨wl, pl, cs, did, nd, ck, ml⟩ = false ∧ cs = true ∧ 256 ≤ pl ∧ pl < 65792) ∨
            (fcsCode ⟨wl, pl, cs, did, nd, ck, ml⟩ = 2 ∧ single ⟨wl, pl, cs, did, nd, ck, ml⟩ = true ∧ cs = true ∧ 65792 ≤ pl ∧ pl < 4294967295) ∨
            (fcsCode ⟨wl, pl, cs, did, nd, ck, ml⟩ = 2 ∧ single ⟨wl, pl, cs, did, nd, ck, ml⟩ = false ∧ cs = true ∧ 65792 ≤ pl ∧ pl < 4294967295) ∨
            (fcsCode ⟨wl, pl, cs, did, nd, ck, ml⟩ = 3 ∧ single ⟨wl, pl, cs, did, nd, ck, ml⟩ = false ∧ cs = true ∧ 4294967295 ≤ pl) := by
    cases cs with
    | false => exact Or.inl ⟨by simp [fcsCode], by simp [single], rfl⟩
    | true =>
      by_cases a : pl < 256
      · exact Or.inr (Or.inl ⟨by simp [fcsCode, show ¬ 256 ≤ pl by omega, show ¬ 65792 ≤ pl by omega, show ¬ 4294967295 ≤ pl by omega], by simp [single]; omega, rfl, a⟩)
      · by_cases b : pl < 65792
        · have hf : fcsCode ⟨wl, pl, true, did, nd, ck, ml⟩ = 1 := by
            simp [fcsCode, show 256 ≤ pl by omega, show ¬ 65792 ≤ pl by omega, show ¬ 4294967295 ≤ pl by omega]
          by_cases s : pl ≤ 2 ^ wl
          · exact Or.inr (Or.inr (Or.inl ⟨hf, by simp [single]; exact s, rfl, by omega, b⟩))
          · exact Or.inr (Or.inr (Or.inr (Or.inl ⟨hf, by simp [single]; omega, rfl, by omega, b⟩)))
        · by_cases c : pl < 4294967295
          · have hf : fcsCode ⟨wl, pl, true, did, nd, ck, ml⟩ = 2 := by
              simp [fcsCode, show 256 ≤ pl by omega, show 65792 ≤ pl by omega, show ¬ 4294967295 ≤ pl by omega]
            by_cases s : pl ≤ 2 ^ wl
            · exact Or.inr (Or.inr (Or.inr (Or.inr (Or.inl ⟨hf, by simp [single]; exact s, rfl, by omega, c⟩))))
            · exact Or.inr (Or.inr (Or.inr (Or.inr (Or.inr (Or.inl ⟨hf, by simp [single]; omega, rfl, by omega, c⟩)))))
          · exact Or.inr (Or.inr (Or.inr (Or.inr (Or.inr (Or.inr ⟨by simp [fcsCode, show 256 ≤ pl by omega, show 65792 ≤ pl by omega, show 4294967295 ≤ pl by omega], by simp [single]; omega, rfl, by omega⟩)))))
  rcases hD with ⟨hdc, hdx⟩ | ⟨hdc, hnd, hd1, hd2⟩ | ⟨hdc, hnd, hd1, hd2⟩ | ⟨hdc, hnd, hd1⟩
  · rcases hdx with hnd | hd0
    · subst hnd; hdr_all did
    · subst hd0; cases nd <;> hdr_all 0
  · subst hnd; hdr_all did
  · subst hnd; hdr_all did
  · subst hnd; hdr_all did

end ZstdVerif.HeaderW
