/-
SEQUENCES SECTION round trip: the decoder model `Block.decodeSeqs` (ZSTD_decodeSequence × nbSeq, zstd_decompress_block.c) reads back, from
the BYTES written by the encoder model `SeqEnc.encodeSeqBytes` (ZSTD_encodeSequences_body, zstd_compress_sequences.c), exactly the sequences
that were written, and ends bit-exact at the start of the stream.

Layers
1. the length / offset codes: `base[code] + extra bits` gives the value back (`ll_extra_roundtrip`, `ml_extra_roundtrip`, `of_code_roundtrip`);
2. `Inverts ct T base bits ok`: the decoding table `T` undoes every step of the encoder driven by the compression table `ct` on the symbols
   `ok`; established for FSE tables (`inverts_fse`, from `FSE.step_inverse` / `FSE.init2_inverse`), for the tables the two builders produce
   (`inverts_build`), for the three predefined tables (`inverts_default`) and for RLE tables (`inverts_rle`);
3. `three_state_roundtrip`: on the abstract stream (a stack of `(value, width)` fields) the three interleaved states and the extra bits come back;
4. `Holds r stack`: the backward bit reader `r` sees the stack; `decodeSeqs_of_stack` carries the abstract decoder over to `Block.decodeSeqs`;
5. `seq_section_roundtrip` (bytes), `seq_offsets_roundtrip` (with the repeat-offset histories of both sides in lockstep),
   `seq_section_roundtrip_predefined` (the three predefined tables: no hypothesis on tables left).
-/
import ZstdVerif.Model.SeqEnc
import ZstdVerif.Model.Block
import ZstdVerif.Lemmas.FSERT
import ZstdVerif.Lemmas.BitsRT
namespace ZstdVerif.SeqRT
open ZstdVerif.Gen ZstdVerif.FSE ZstdVerif.SeqEnc ZstdVerif.Rep
open ZstdVerif.Block (Seq decodeSeqs SeqDec)

/-! ### 1. codes: base + extra bits -/

theorem log2_bounds (n : Nat) (h : n ≠ 0) : 2 ^ Nat.log2 n ≤ n ∧ n < 2 ^ (Nat.log2 n + 1) :=
  ⟨Nat.log2_self_le h, Nat.lt_log2_self⟩

/-- `lo ≤ log2 n ≤ hi` from `2^lo ≤ n < 2^(hi+1)` -/
theorem log2_range {n lo hi : Nat} (h1 : 2 ^ lo ≤ n) (h2 : n < 2 ^ (hi + 1)) : lo ≤ Nat.log2 n ∧ Nat.log2 n ≤ hi := by
  have hn : n ≠ 0 := by have := Nat.two_pow_pos lo; omega
  obtain ⟨b1, b2⟩ := log2_bounds n hn
  constructor
  · rcases Nat.lt_or_ge (Nat.log2 n) lo with hc | hc
    · have := Nat.pow_le_pow_right (by decide : 0 < 2) (show Nat.log2 n + 1 ≤ lo by omega)
      omega
    · exact hc
  · rcases Nat.lt_or_ge hi (Nat.log2 n) with hc | hc
    · have := Nat.pow_le_pow_right (by decide : 0 < 2) (show hi + 1 ≤ Nat.log2 n by omega)
      omega
    · exact hc

/-- `n mod 2^(log2 n)` removes exactly the top bit -/
theorem mod_two_pow_log2 (n : Nat) (h : n ≠ 0) : 2 ^ Nat.log2 n + n % 2 ^ Nat.log2 n = n := by
  obtain ⟨b1, b2⟩ := log2_bounds n h
  rw [Nat.pow_succ] at b2
  rw [Nat.mod_eq_sub_mod b1, Nat.mod_eq_of_lt (by omega)]
  omega

/-- **ll_extra_roundtrip**: ZSTD_LLcode / LL_base / LL_bits.  For every literal length below 2^17 (a block holds at most 2^17 bytes) the
decoder's `LL_base[code] + (the low LL_bits[code] bits of litLength)` is the literal length. -/
theorem ll_extra_roundtrip (ll : Nat) (h : ll < 2 ^ 17) :
    LL_base.getD (llCode ll) 0 + ll % 2 ^ LL_bits.getD (llCode ll) 0 = ll := by
  unfold llCode
  by_cases hs : ll > 63
  · rw [if_pos hs]
    obtain ⟨hlo, hhi⟩ := log2_range (n := ll) (lo := 6) (hi := 16) (by omega) h
    have tab : ∀ k, k < 17 → 6 ≤ k → LL_base.getD (k + LL_deltaCode) 0 = 2 ^ k ∧ LL_bits.getD (k + LL_deltaCode) 0 = k := by decide
    obtain ⟨t1, t2⟩ := tab _ (by omega) hlo
    rw [t1, t2]
    exact mod_two_pow_log2 ll (by omega)
  · rw [if_neg hs]
    have tab : ∀ v, v < 64 → LL_base.getD (LL_Code.getD v 0) 0 + v % 2 ^ LL_bits.getD (LL_Code.getD v 0) 0 = v := by decide
    exact tab ll (by omega)

/-- **ml_extra_roundtrip**: ZSTD_MLcode / ML_base / ML_bits on `mlBase = matchLength - MINMATCH < 2^17`: the decoder's
`ML_base[code] + (the low ML_bits[code] bits of mlBase)` is the match length `mlBase + 3`. -/
theorem ml_extra_roundtrip (m : Nat) (h : m < 2 ^ 17) :
    ML_base.getD (mlCode m) 0 + m % 2 ^ ML_bits.getD (mlCode m) 0 = m + 3 := by
  unfold mlCode
  by_cases hs : m > 127
  · rw [if_pos hs]
    obtain ⟨hlo, hhi⟩ := log2_range (n := m) (lo := 7) (hi := 16) (by omega) h
    have tab : ∀ k, k < 17 → 7 ≤ k → ML_base.getD (k + ML_deltaCode) 0 = 2 ^ k + 3 ∧ ML_bits.getD (k + ML_deltaCode) 0 = k := by decide
    obtain ⟨t1, t2⟩ := tab _ (by omega) hlo
    rw [t1, t2]
    have := mod_two_pow_log2 m (by omega)
    omega
  · rw [if_neg hs]
    have tab : ∀ v, v < 128 → ML_base.getD (ML_Code.getD v 0) 0 + v % 2 ^ ML_bits.getD (ML_Code.getD v 0) 0 = v + 3 := by decide
    exact tab m (by omega)

/-- the literal-length base is 0 exactly for the literal length 0 (`ll0 = (llDInfo->baseValue == 0)` in ZSTD_decodeSequence) -/
theorem ll_base_zero_iff (ll : Nat) (h : ll < 2 ^ 17) : LL_base.getD (llCode ll) 0 = 0 ↔ ll = 0 := by
  have e := ll_extra_roundtrip ll h
  constructor
  · intro hb
    unfold llCode at hb e
    by_cases hs : ll > 63
    · rw [if_pos hs] at hb
      obtain ⟨hlo, hhi⟩ := log2_range (n := ll) (lo := 6) (hi := 16) (by omega) h
      have tab : ∀ k, k < 17 → 6 ≤ k → LL_base.getD (k + LL_deltaCode) 0 ≠ 0 := by decide
      exact absurd hb (tab _ (by omega) hlo)
    · rw [if_neg hs] at hb
      have tab : ∀ v, v < 64 → LL_base.getD (LL_Code.getD v 0) 0 = 0 → v = 0 := by decide
      exact tab ll (by omega) hb
  · intro h0; subst h0; decide

/-- Offset_Value as ZSTD_decodeSequence computes it from the cell of the offset code (`ofBase`, `ofBits`) and the extra bits `x`:
* `ofBits > 1`: `offset = ofBase + x`, and the table holds `ofBase = 2^ofBits - 3` (OF_base), so Offset_Value = `ofBase + x + 3`;
* `ofBits == 0`: repeat code 1 (`ofBase = 0`): Offset_Value = `ofBase + 1`;
* `ofBits == 1`: repeat codes 2, 3 (`ofBase = 1`): Offset_Value = `ofBase + x + 1`.
This is the `ofValue` of `Block.decodeSeqs`, verbatim. -/
def ofValueOf (base ofBits x : Nat) : Nat :=
  if ofBits > 1 then base + x + 3 else if ofBits == 0 then base + 1 else base + x + 1

/-- **of_code_roundtrip**: the offset code of the encoder is `ofCode = highbit32(offBase)` with the low `ofCode` bits of `offBase` as extra
bits.  For every `1 ≤ offBase < 2^32` the decoder's table row of that code reads `OF_bits[ofCode] = ofCode` extra bits, and the
Offset_Value it computes (`ofValueOf`) IS `offBase`.  In terms of the raw table: `OF_base[c] + extra + 3 = offBase` for `c ≥ 2`
(`OF_base[c] = 2^c - 3`: the table stores offsets, not Offset_Values), `OF_base[1] + extra + 1 = offBase` for `offBase ∈ {2, 3}`,
`OF_base[0] + 1 = offBase` for `offBase = 1`. -/
theorem of_code_roundtrip (offBase : Nat) (h1 : 1 ≤ offBase) (h2 : offBase < 2 ^ 32) :
    OF_bits.getD (highbit offBase) 0 = highbit offBase ∧ highbit offBase ≤ 31 ∧
      ofValueOf (OF_base.getD (highbit offBase) 0) (OF_bits.getD (highbit offBase) 0) (offBase % 2 ^ highbit offBase) = offBase := by
  unfold highbit
  obtain ⟨-, hhi⟩ := log2_range (n := offBase) (lo := 0) (hi := 31) (by omega) h2
  have tab : ∀ k, k < 32 → OF_bits.getD k 0 = k ∧ (2 ≤ k → OF_base.getD k 0 + 3 = 2 ^ k) := by decide
  have tab0 : OF_base.getD 0 0 = 0 ∧ OF_base.getD 1 0 = 1 := by decide
  obtain ⟨t1, t2⟩ := tab _ (show Nat.log2 offBase < 32 by omega)
  have hm := mod_two_pow_log2 offBase (by omega)
  refine ⟨t1, hhi, ?_⟩
  rw [t1]
  unfold ofValueOf
  by_cases c2 : Nat.log2 offBase > 1
  · rw [if_pos c2]
    have := t2 (by omega)
    omega
  · rw [if_neg c2]
    by_cases c0 : Nat.log2 offBase = 0
    · rw [c0] at hm ⊢
      simp only [beq_self_eq_true, if_true, tab0.1]
      omega
    · have c1 : Nat.log2 offBase = 1 := by omega
      rw [c1] at hm ⊢
      simp only [tab0.2]
      have : ((1 : Nat) == 0) = false := rfl
      simp only [this, Bool.false_eq_true, if_false, Nat.pow_one] at hm ⊢
      omega

theorem getD_le_of_all (l : List Nat) (b : Nat) (h : ∀ x ∈ l, x ≤ b) (i : Nat) : l.getD i 0 ≤ b := by
  by_cases hi : i < l.length
  · have : l.getD i 0 = l[i] := by simp [List.getD, hi]
    rw [this]; exact h _ (List.getElem_mem hi)
  · have : l.getD i 0 = 0 := by
      have : l[i]? = none := List.getElem?_eq_none (by omega)
      simp [List.getD, this]
    omega

/-- no row of LL_bits / ML_bits asks for more than 16 extra bits -/
theorem ll_bits_le (c : Nat) : LL_bits.getD c 0 ≤ 16 := getD_le_of_all _ _ (by decide) c
theorem ml_bits_le (c : Nat) : ML_bits.getD c 0 ≤ 16 := getD_le_of_all _ _ (by decide) c

/-! ### 2. decoding tables that invert compression tables -/

/-- ZSTD_buildFSETable: the sequence cell made from an FSE cell and the `base` / `bits` columns of its symbol -/
def seqCellOf (base bits : List Nat) (c : Cell) : SeqCell :=
  { nextState := c.newState, nbAddBits := bits.getD c.sym 0, nbBits := c.nbBits, baseValue := base.getD c.sym 0 }

theorem buildSeqTable_eq (norm : Array Int) (log : Nat) (base bits : List Nat) :
    FSE.buildSeqTable norm log base bits = (buildCells norm log).map (seqCellOf base bits) := rfl

/-- the cell at state `i` belongs to symbol `s`: it carries the `base` / `bits` columns of `s` -/
def CellFor (T : Array SeqCell) (base bits : List Nat) (i s : Nat) : Prop :=
  (T[i]!).baseValue = base.getD s 0 ∧ (T[i]!).nbAddBits = bits.getD s 0

/-- `T` (decoder) inverts `ct` (encoder) on the symbols `ok`, with `V` as the set of encoder states that can occur.  The decoder state
that corresponds to the encoder state `S` is `S mod 2^tableLog` (what FSE_flushCState writes).
* `init`: FSE_initCState2 picks a valid state whose cell belongs to the symbol;
* `step`: FSE_encodeSymbol in a valid state `S` for symbol `s` flushes `nb ≤ tableLog` bits `v` and moves to a valid state whose cell belongs
  to `s`, reads `nb` bits and whose `nextState + v` is the decoder state of `S`. -/
structure InvertsWith (V : Nat → Prop) (ct : CTable) (T : Array SeqCell) (base bits : List Nat) (ok : Nat → Prop) : Prop where
  log_le : ct.tableLog ≤ 56
  init : ∀ s, ok s → V (initCState2 ct s) ∧ CellFor T base bits (initCState2 ct s % 2 ^ ct.tableLog) s
  step : ∀ S s, V S → ok s →
    V (encodeSymbol ct S s).1 ∧ CellFor T base bits ((encodeSymbol ct S s).1 % 2 ^ ct.tableLog) s ∧
      (T[(encodeSymbol ct S s).1 % 2 ^ ct.tableLog]!).nbBits = (encodeSymbol ct S s).2.2 ∧
      (T[(encodeSymbol ct S s).1 % 2 ^ ct.tableLog]!).nextState + (encodeSymbol ct S s).2.1 = S % 2 ^ ct.tableLog ∧
      (encodeSymbol ct S s).2.2 ≤ ct.tableLog

/-- `T` inverts `ct` on the symbols `ok` -/
def Inverts (ct : CTable) (T : Array SeqCell) (base bits : List Nat) (ok : Nat → Prop) : Prop :=
  ∃ V, InvertsWith V ct T base bits ok

theorem getBang_map {α β} [Inhabited α] [Inhabited β] (a : Array α) (f : α → β) (i : Nat) (h : i < a.size) :
    (a.map f)[i]! = f a[i]! := by
  simp [h]

theorem mod_of_state {L S : Nat} (h1 : 2 ^ L ≤ S) (h2 : S < 2 ^ (L + 1)) : S % 2 ^ L = S - 2 ^ L := by
  rw [Nat.pow_succ] at h2
  rw [Nat.mod_eq_sub_mod h1, Nat.mod_eq_of_lt (by omega)]

/-- FSE tables: ZSTD_buildFSETable's cells over any spreading that respects a normalised distribution invert FSE_buildCTable_wksp's
table over the same spreading, on the symbols of non-zero count (`1 ≤ L ≤ 14`: see `FSE.init2_inverse`) -/
theorem inverts_fse {syms : Array Nat} {norm : Array Int} {L : Nat} (hN : NormOK norm L) (hS : SpreadOK syms norm L) (hL : L ≤ 14)
    (base bits : List Nat) :
    Inverts (ctableOf syms norm L) ((cellsOf syms norm L).map (seqCellOf base bits)) base bits
      (fun s => s < norm.size ∧ norm[s]! ≠ 0) := by
  refine ⟨fun S => 2 ^ L ≤ S ∧ S < 2 ^ (L + 1), ?_, ?_, ?_⟩
  · show L ≤ 56
    omega
  · intro s ⟨hs, h0⟩
    obtain ⟨i1, i2, i3⟩ := init2_inverse hN hS hL hs h0
    refine ⟨⟨i1, i2⟩, ?_⟩
    rw [show (ctableOf syms norm L).tableLog = L from rfl]
    rw [mod_of_state i1 i2]
    have hlt : initCState2 (ctableOf syms norm L) s - 2 ^ L < (cellsOf syms norm L).size := by
      rw [cellsOf_size, hS.1]; rw [Nat.pow_succ] at i2; omega
    unfold CellFor
    rw [getBang_map _ _ _ hlt]
    simp only [seqCellOf, i3, and_self]
  · intro S s ⟨hS1, hS2⟩ ⟨hs, h0⟩
    obtain ⟨a1, a2, a3, a4, a5⟩ := step_inverse hN hS (show L ≤ 15 by omega) hs h0 hS1 hS2
      (S2 := (encodeSymbol (ctableOf syms norm L) S s).1) (v := (encodeSymbol (ctableOf syms norm L) S s).2.1)
      (nb := (encodeSymbol (ctableOf syms norm L) S s).2.2) rfl
    have hw : (encodeSymbol (ctableOf syms norm L) S s).2.2 ≤ L := by
      obtain ⟨c1, -, -⟩ := symTTOf_spec (L := L) (tot := startOf norm s) (hN.2.1 s hs) h0
      rw [encodeSymbol_spec hN (show L ≤ 15 by omega) hs h0 hS1 hS2]
      exact (encNb_spec c1 (cnt_le hN hs) hS1 hS2).1
    have hlt : (encodeSymbol (ctableOf syms norm L) S s).1 - 2 ^ L < (cellsOf syms norm L).size := by
      rw [cellsOf_size, hS.1]; rw [Nat.pow_succ] at a2; omega
    rw [show (ctableOf syms norm L).tableLog = L from rfl]
    rw [mod_of_state a1 a2, mod_of_state hS1 hS2]
    unfold CellFor
    rw [getBang_map _ _ _ hlt]
    simp only [seqCellOf, a3, a4, a5, and_self, true_and]
    exact ⟨⟨a1, a2⟩, hw⟩

/-- the tables the two builders produce (FSE_buildCTable_wksp / ZSTD_buildFSETable) for a normalised distribution, given the two facts
that `tools/ent_fse.py` checks on every table (`spreadOK=true spreadEncEqDec=true`) and that `zvdriver seqenc` re-checks -/
theorem inverts_build {norm : Array Int} {L : Nat} (hN : NormOK norm L) (hL : L ≤ 14)
    (hS : spreadOK (spreadEnc norm L) norm L = true) (hE : spreadEnc norm L = spread norm L) (base bits : List Nat) :
    Inverts (buildCTable norm L) (FSE.buildSeqTable norm L base bits) base bits (fun s => s < norm.size ∧ norm[s]! ≠ 0) := by
  rw [buildSeqTable_eq]
  unfold buildCells buildCTable
  rw [hE] at hS ⊢
  exact inverts_fse hN ((spreadOK_iff _ _ _).1 hS) hL base bits

theorem defaultDTables_eq :
    FSE.buildSeqTable LL_defaultNorm.toArray LL_DEFAULTNORMLOG LL_base LL_bits = LL_defaultDTable.toArray ∧
    FSE.buildSeqTable OF_defaultNorm.toArray OF_DEFAULTNORMLOG OF_base OF_bits = OF_defaultDTable.toArray ∧
    FSE.buildSeqTable ML_defaultNorm.toArray ML_DEFAULTNORMLOG ML_base ML_bits = ML_defaultDTable.toArray := by
  decide +kernel

/-- the three predefined tables (`set_basic`): the decoder's constant tables LL/OF/ML_defaultDTable invert the tables that
ZSTD_buildCTable builds from LL/OF/ML_defaultNorm, on every symbol of the predefined alphabets (LL 0..35, OF 0..28, ML 0..52) -/
theorem inverts_default :
    Inverts (buildCTable LL_defaultNorm.toArray LL_DEFAULTNORMLOG) LL_defaultDTable.toArray LL_base LL_bits (· ≤ MaxLL) ∧
    Inverts (buildCTable OF_defaultNorm.toArray OF_DEFAULTNORMLOG) OF_defaultDTable.toArray OF_base OF_bits (· ≤ DefaultMaxOff) ∧
    Inverts (buildCTable ML_defaultNorm.toArray ML_DEFAULTNORMLOG) ML_defaultDTable.toArray ML_base ML_bits (· ≤ MaxML) := by
  obtain ⟨n1, n2, n3⟩ := default_tables_normOK
  obtain ⟨s1, s2, s3⟩ := default_tables_spreadOK
  obtain ⟨e1, e2, e3⟩ := default_tables_spreadEnc_eq
  obtain ⟨d1, d2, d3⟩ := defaultDTables_eq
  have nz1 : ∀ s, s ≤ MaxLL → s < LL_defaultNorm.toArray.size ∧ LL_defaultNorm.toArray[s]! ≠ 0 := by decide +kernel
  have nz2 : ∀ s, s ≤ DefaultMaxOff → s < OF_defaultNorm.toArray.size ∧ OF_defaultNorm.toArray[s]! ≠ 0 := by decide +kernel
  have nz3 : ∀ s, s ≤ MaxML → s < ML_defaultNorm.toArray.size ∧ ML_defaultNorm.toArray[s]! ≠ 0 := by decide +kernel
  have mono : ∀ {ct T base bits} {ok ok2 : Nat → Prop}, (∀ s, ok2 s → ok s) → Inverts ct T base bits ok → Inverts ct T base bits ok2 :=
    fun h ⟨V, hV⟩ => ⟨V, hV.log_le, fun s hs => hV.init s (h s hs), fun S s hS hs => hV.step S s hS (h s hs)⟩
  rw [← d1, ← d2, ← d3]
  simp only [buildSeqTable_eq, buildCells, buildCTable, LL_DEFAULTNORMLOG, OF_DEFAULTNORMLOG, ML_DEFAULTNORMLOG]
  rw [e1, e2, e3]
  exact ⟨mono nz1 (inverts_fse n1 s1 (by omega) _ _), mono nz2 (inverts_fse n2 s2 (by omega) _ _),
    mono nz3 (inverts_fse n3 s3 (by omega) _ _)⟩

theorem rle_tt (sym : Nat) : (rleCTable sym).symbolTT[sym]! = { deltaFindState := 0, deltaNbBits := 0 } := by
  simp [rleCTable]

theorem rle_init (sym : Nat) : initCState2 (rleCTable sym) sym = 0 := by
  unfold initCState2
  rw [rle_tt]
  rfl

theorem rle_step (sym : Nat) : encodeSymbol (rleCTable sym) 0 sym = (0, (0, 0)) := by
  unfold encodeSymbol
  rw [rle_tt]
  rfl

/-- RLE tables (`set_rle`): FSE_buildCTable_rle's table keeps the state at 0 and writes 0-bit fields; ZSTD_buildSeqTable_rle's single cell
(`nbBits = 0`, `nextState = 0`) keeps the decoder state at 0 and reads no state bits -/
theorem inverts_rle (sym : Nat) (base bits : List Nat) :
    Inverts (rleCTable sym) (FSE.rleSeqTable sym base bits) base bits (· = sym) := by
  refine ⟨fun S => S = 0, ?_, ?_, ?_⟩
  · show 0 ≤ 56
    omega
  · intro s hs
    subst hs
    rw [rle_init]
    exact ⟨rfl, rfl, rfl⟩
  · intro S s hS hs
    subst hs
    subst hS
    rw [rle_step]
    exact ⟨rfl, ⟨rfl, rfl⟩, rfl, rfl, Nat.le_refl _⟩

/-! ### 3. the abstract stream: three interleaved states and the extra bits on a stack of fields -/

/-- BIT_readBits(w) on the abstract stream: takes the top field, which must be exactly `w` bits wide; the value comes back masked to
its width (BIT_addBits masks) -/
def pop (w : Nat) : List (Nat × Nat) → Option (Nat × List (Nat × Nat))
  | [] => none
  | f :: rest => if f.2 = w then some (f.1 % 2 ^ w, rest) else none

theorem pop_cons (v w : Nat) (rest : List (Nat × Nat)) : pop w ((v, w) :: rest) = some (v % 2 ^ w, rest) := by
  simp [pop]

theorem pop_pair (p : Nat × Nat) (rest : List (Nat × Nat)) : pop p.2 (p :: rest) = some (p.1 % 2 ^ p.2, rest) := by
  simp [pop]

/-- the field FSE_encodeSymbol pushes is already masked to its width -/
theorem encodeSymbol_field_mod (ct : CTable) (S s : Nat) :
    (encodeSymbol ct S s).2.1 % 2 ^ (encodeSymbol ct S s).2.2 = (encodeSymbol ct S s).2.1 := by
  simp only [encodeSymbol, Nat.mod_mod]

/-- what ZSTD_decodeSequence hands out, before the repeat-offset resolution: literal length, match length, Offset_Value, and
`ll0 = (llDInfo->baseValue == 0)` -/
structure Tri where
  ll : Nat
  ml : Nat
  ofValue : Nat
  ll0 : Nat
deriving DecidableEq, Repr

/-- `n` × ZSTD_decodeSequence on the abstract stream, from the three decoder states: per sequence the offset extra bits, the match-length
extra bits, the literal-length extra bits, then - except after the last sequence - the LL, ML, OF state updates (in that order).  `none` as
soon as a read does not find a field of exactly the width it asks for. -/
def decodeStack (llT ofT mlT : Array SeqCell) : Nat → Nat → Nat → Nat → List (Nat × Nat) → Option (List Tri × List (Nat × Nat))
  | 0, _, _, _, stack => some ([], stack)
  | n + 1, sLL, sOF, sML, stack =>
    let cLL := llT[sLL]!
    let cOF := ofT[sOF]!
    let cML := mlT[sML]!
    (pop cOF.nbAddBits stack).bind fun x =>
    (pop cML.nbAddBits x.2).bind fun y =>
    (pop cLL.nbAddBits y.2).bind fun z =>
    let t : Tri := { ll := cLL.baseValue + z.1, ml := cML.baseValue + y.1, ofValue := ofValueOf cOF.baseValue cOF.nbAddBits x.1,
                     ll0 := if cLL.baseValue == 0 then 1 else 0 }
    if n = 0 then some ([t], z.2) else
    (pop cLL.nbBits z.2).bind fun a =>
    (pop cML.nbBits a.2).bind fun b =>
    (pop cOF.nbBits b.2).bind fun c =>
    (decodeStack llT ofT mlT n (cLL.nextState + a.1) (cOF.nextState + c.1) (cML.nextState + b.1) c.2).bind fun r =>
    some (t :: r.1, r.2)

/-- ZSTD_decompressSequences_body on the abstract stream: ZSTD_initFseState for LL, OF, ML (`BIT_readBits(tableLog)` each), then the sequences -/
def decodeStackAll (llT ofT mlT : Array SeqCell) (llLog ofLog mlLog n : Nat) (stack : List (Nat × Nat)) :
    Option (List Tri × List (Nat × Nat)) :=
  (pop llLog stack).bind fun a =>
  (pop ofLog a.2).bind fun b =>
  (pop mlLog b.2).bind fun c =>
  decodeStack llT ofT mlT n a.1 b.1 c.1 c.2

/-- what the decoder makes of a sequence of the seqStore: the `base` columns of its three codes plus its extra bits -/
def triOf (s : SeqIn) : Tri :=
  let c := codesOf s
  { ll := LL_base.getD c.ll 0 + s.litLength % 2 ^ LL_bits.getD c.ll 0
    ml := ML_base.getD c.ml 0 + s.mlBase % 2 ^ ML_bits.getD c.ml 0
    ofValue := ofValueOf (OF_base.getD c.of 0) (OF_bits.getD c.of 0) (s.offBase % 2 ^ c.of)
    ll0 := if LL_base.getD c.ll 0 == 0 then 1 else 0 }

/-- a sequence whose three codes the tables know, with an offset code of at most 31 (`offBase` is a U32) -/
def SeqOK (okLL okOF okML : Nat → Prop) (s : SeqIn) : Prop :=
  okLL (codesOf s).ll ∧ okOF (codesOf s).of ∧ okML (codesOf s).ml ∧ (codesOf s).of ≤ 31

theorem of_bits_self {c : Nat} (h : c ≤ 31) : OF_bits.getD c 0 = c := by
  have tab : ∀ k, k < 32 → OF_bits.getD k 0 = k := by decide
  exact tab c (by omega)

section
variable {ctLL ctOF ctML : CTable} {llT ofT mlT : Array SeqCell} {okLL okOF okML : Nat → Prop} {VLL VOF VML : Nat → Prop}

/-- decoding the extra bits of `s` from cells that belong to the codes of `s` -/
theorem decode_extra (s : SeqIn) (hof : (codesOf s).of ≤ 31) (sLL sOF sML : Nat)
    (cLL : CellFor llT LL_base LL_bits sLL (codesOf s).ll) (cOF : CellFor ofT OF_base OF_bits sOF (codesOf s).of)
    (cML : CellFor mlT ML_base ML_bits sML (codesOf s).ml) (stack : List (Nat × Nat)) (n : Nat) :
    decodeStack llT ofT mlT (n + 1) sLL sOF sML (pushExtra s stack) =
      if n = 0 then some ([triOf s], stack) else
      (pop (llT[sLL]!).nbBits stack).bind fun a =>
      (pop (mlT[sML]!).nbBits a.2).bind fun b =>
      (pop (ofT[sOF]!).nbBits b.2).bind fun c =>
      (decodeStack llT ofT mlT n ((llT[sLL]!).nextState + a.1) ((ofT[sOF]!).nextState + c.1) ((mlT[sML]!).nextState + b.1) c.2).bind fun r =>
      some (triOf s :: r.1, r.2) := by
  rw [decodeStack]
  simp only [pushExtra, cLL.1, cLL.2, cOF.1, cOF.2, cML.1, cML.2, of_bits_self hof, pop_cons, Option.bind_some, triOf]

/-- ONE STEP of the loop: if the stream written so far decodes (from the decoder states of the current encoder states) to `out`, then after
encoding one more sequence `s` it decodes to `s` followed by `out` -/
theorem encodeStep_decode (hLL : InvertsWith VLL ctLL llT LL_base LL_bits okLL) (hOF : InvertsWith VOF ctOF ofT OF_base OF_bits okOF)
    (hML : InvertsWith VML ctML mlT ML_base ML_bits okML) (s : SeqIn) (hs : SeqOK okLL okOF okML s)
    (st : States) (vLL : VLL st.ll) (vOF : VOF st.of) (vML : VML st.ml) (stack : List (Nat × Nat)) (k : Nat)
    (out : List Tri) (rest : List (Nat × Nat))
    (hdec : decodeStack llT ofT mlT (k + 1) (st.ll % 2 ^ ctLL.tableLog) (st.of % 2 ^ ctOF.tableLog) (st.ml % 2 ^ ctML.tableLog) stack
      = some (out, rest)) :
    let r := encodeStep ctLL ctOF ctML st stack s
    VLL r.1.ll ∧ VOF r.1.of ∧ VML r.1.ml ∧
      decodeStack llT ofT mlT (k + 2) (r.1.ll % 2 ^ ctLL.tableLog) (r.1.of % 2 ^ ctOF.tableLog) (r.1.ml % 2 ^ ctML.tableLog) r.2
        = some (triOf s :: out, rest) := by
  obtain ⟨h1, h2, h3, h4⟩ := hs
  obtain ⟨a1, a2, a3, a4, -⟩ := hLL.step st.ll _ vLL h1
  obtain ⟨b1, b2, b3, b4, -⟩ := hOF.step st.of _ vOF h2
  obtain ⟨c1, c2, c3, c4, -⟩ := hML.step st.ml _ vML h3
  refine ⟨a1, b1, c1, ?_⟩
  simp only [encodeStep]
  rw [decode_extra s h4 _ _ _ a2 b2 c2]
  simp only [Nat.succ_ne_zero, if_false, a3, b3, c3]
  simp only [pop_pair, Option.bind_some, encodeSymbol_field_mod, a4, b4, c4, hdec]

/-- widths: every field one loop iteration pushes is at most 56 bits wide (state bits ≤ tableLog ≤ 56, LL / ML extra bits ≤ 16, offset
extra bits ≤ 31) -/
theorem pushExtra_widths (s : SeqIn) (hof : (codesOf s).of ≤ 31) (stack : List (Nat × Nat)) (hw : ∀ f ∈ stack, f.2 ≤ 56) :
    ∀ f ∈ pushExtra s stack, f.2 ≤ 56 := by
  intro f hf
  simp only [pushExtra, List.mem_cons] at hf
  have l1 := ll_bits_le (codesOf s).ll
  have l2 := ml_bits_le (codesOf s).ml
  rcases hf with e | e | e | e
  · subst e; show (codesOf s).of ≤ 56; omega
  · subst e; show ML_bits.getD (codesOf s).ml 0 ≤ 56; omega
  · subst e; show LL_bits.getD (codesOf s).ll 0 ≤ 56; omega
  · exact hw f e

theorem encodeStep_widths (hLL : InvertsWith VLL ctLL llT LL_base LL_bits okLL) (hOF : InvertsWith VOF ctOF ofT OF_base OF_bits okOF)
    (hML : InvertsWith VML ctML mlT ML_base ML_bits okML) (s : SeqIn) (hs : SeqOK okLL okOF okML s)
    (st : States) (vLL : VLL st.ll) (vOF : VOF st.of) (vML : VML st.ml) (stack : List (Nat × Nat)) (hw : ∀ f ∈ stack, f.2 ≤ 56) :
    ∀ f ∈ (encodeStep ctLL ctOF ctML st stack s).2, f.2 ≤ 56 := by
  obtain ⟨h1, h2, h3, h4⟩ := hs
  obtain ⟨-, -, -, -, a5⟩ := hLL.step st.ll _ vLL h1
  obtain ⟨-, -, -, -, b5⟩ := hOF.step st.of _ vOF h2
  obtain ⟨-, -, -, -, c5⟩ := hML.step st.ml _ vML h3
  have := hLL.log_le
  have := hOF.log_le
  have := hML.log_le
  simp only [encodeStep]
  apply pushExtra_widths s h4
  intro f hf
  simp only [List.mem_cons] at hf
  rcases hf with e | e | e | e
  · subst e; omega
  · subst e; omega
  · subst e; omega
  · exact hw f e

/-- THE LOOP: encoding more sequences on top of a stream that decodes to `out` gives a stream that decodes to those sequences (in their
original order) followed by `out`; the states stay valid and no field is wider than 56 bits -/
theorem encodeLoop_decode (hLL : InvertsWith VLL ctLL llT LL_base LL_bits okLL) (hOF : InvertsWith VOF ctOF ofT OF_base OF_bits okOF)
    (hML : InvertsWith VML ctML mlT ML_base ML_bits okML) (rev : List SeqIn) (hrev : ∀ s ∈ rev, SeqOK okLL okOF okML s)
    (st : States) (vLL : VLL st.ll) (vOF : VOF st.of) (vML : VML st.ml) (stack : List (Nat × Nat)) (hw : ∀ f ∈ stack, f.2 ≤ 56) (k : Nat)
    (out : List Tri) (rest : List (Nat × Nat))
    (hdec : decodeStack llT ofT mlT (k + 1) (st.ll % 2 ^ ctLL.tableLog) (st.of % 2 ^ ctOF.tableLog) (st.ml % 2 ^ ctML.tableLog) stack
      = some (out, rest)) :
    let r := encodeSeqLoop ctLL ctOF ctML rev st stack
    VLL r.1.ll ∧ VOF r.1.of ∧ VML r.1.ml ∧ (∀ f ∈ r.2, f.2 ≤ 56) ∧
      decodeStack llT ofT mlT (rev.length + k + 1) (r.1.ll % 2 ^ ctLL.tableLog) (r.1.of % 2 ^ ctOF.tableLog) (r.1.ml % 2 ^ ctML.tableLog) r.2
        = some (rev.reverse.map triOf ++ out, rest) := by
  induction rev generalizing st stack out k with
  | nil => exact ⟨vLL, vOF, vML, hw, by simpa [encodeSeqLoop] using hdec⟩
  | cons s t ih =>
    have hs := hrev s (by simp)
    obtain ⟨a, b, c, d⟩ := encodeStep_decode hLL hOF hML s hs st vLL vOF vML stack k out rest hdec
    have w := encodeStep_widths hLL hOF hML s hs st vLL vOF vML stack hw
    have := ih (fun x hx => hrev x (by simp [hx])) _ a b c _ w (k + 1) (triOf s :: out) d
    simp only [encodeSeqLoop]
    have e2 : (s :: t).length + k + 1 = t.length + (k + 1) + 1 := by simp; omega
    have e3 : (s :: t).reverse.map triOf ++ out = t.reverse.map triOf ++ triOf s :: out := by simp
    rw [e2, e3]
    exact this

/-- **three_state_roundtrip** (abstract stream).  For three (compression table, decoding table) pairs that invert each other - FSE tables
built from a normalised distribution, predefined tables, RLE tables, in any mix: `inverts_fse`, `inverts_build`, `inverts_default`,
`inverts_rle` - and every non-empty list of sequences whose codes the tables know, the stream of ZSTD_encodeSequences_body, read as
ZSTD_decompressSequences_body reads it (three initial states, then per sequence OF / ML / LL extra bits and the LL / ML / OF state updates
except after the last sequence), gives back the sequences in order and is consumed exactly; no field is wider than 56 bits. -/
theorem three_state_roundtrip (hLL : Inverts ctLL llT LL_base LL_bits okLL) (hOF : Inverts ctOF ofT OF_base OF_bits okOF)
    (hML : Inverts ctML mlT ML_base ML_bits okML) (seqs : List SeqIn) (hne : seqs ≠ []) (hok : ∀ s ∈ seqs, SeqOK okLL okOF okML s) :
    decodeStackAll llT ofT mlT ctLL.tableLog ctOF.tableLog ctML.tableLog seqs.length (encodeSeqStack ctLL ctOF ctML seqs)
      = some (seqs.map triOf, []) ∧
    ∀ f ∈ encodeSeqStack ctLL ctOF ctML seqs, f.2 ≤ 56 := by
  obtain ⟨VLL, hLL⟩ := hLL
  obtain ⟨VOF, hOF⟩ := hOF
  obtain ⟨VML, hML⟩ := hML
  obtain ⟨last, rev, hrv⟩ : ∃ last rev, seqs.reverse = last :: rev := by
    cases h : seqs.reverse with
    | nil => exact absurd (List.reverse_eq_nil_iff.1 h) hne
    | cons a t => exact ⟨a, t, rfl⟩
  have hσ : seqs = rev.reverse ++ [last] := by
    have := congrArg List.reverse hrv
    simpa using this
  have hl := hok last (by rw [hσ]; simp)
  obtain ⟨h1, h2, h3, h4⟩ := hl
  obtain ⟨i1, i2⟩ := hLL.init _ h1
  obtain ⟨j1, j2⟩ := hOF.init _ h2
  obtain ⟨k1, k2⟩ := hML.init _ h3
  have hdec0 := decode_extra (llT := llT) (ofT := ofT) (mlT := mlT) last h4 _ _ _ i2 j2 k2 [] 0
  simp only [if_true] at hdec0
  have hw0 := pushExtra_widths last h4 [] (by simp)
  obtain ⟨a, b, c, w, d⟩ := encodeLoop_decode hLL hOF hML rev (fun x hx => hok x (by rw [hσ]; simp [hx]))
    { ll := initCState2 ctLL (codesOf last).ll, of := initCState2 ctOF (codesOf last).of, ml := initCState2 ctML (codesOf last).ml }
    i1 j1 k1 _ hw0 0 _ _ hdec0
  have hlen : seqs.length = rev.length + 0 + 1 := by rw [hσ]; simp
  have hmap : seqs.map triOf = rev.reverse.map triOf ++ [triOf last] := by rw [hσ]; simp
  have := hLL.log_le
  have := hOF.log_le
  have := hML.log_le
  unfold encodeSeqStack
  rw [hrv]
  simp only []
  constructor
  · unfold decodeStackAll flushCState
    simp only [pop_cons, Option.bind_some, Nat.mod_mod]
    rw [hlen, hmap]
    exact d
  · intro f hf
    simp only [List.mem_cons, flushCState] at hf
    rcases hf with e | e | e | e
    · subst e; omega
    · subst e; omega
    · subst e; omega
    · exact w f e

end
/-! ### 4. from the abstract stream to the backward bit reader and `Block.decodeSeqs` -/

/-- the reader `r` sees exactly the fields of `stack` (top first), masked to their widths, and nothing else: after them it stands at the
start of the stream without having overflowed (BIT_endOfDStream) -/
def Holds (r : BitR) : List (Nat × Nat) → Prop
  | [] => r.left = 0 ∧ r.over = false
  | f :: rest => (r.read f.2).1 = f.1 % 2 ^ f.2 ∧ Holds (r.read f.2).2 rest

theorem holds_of_readList (st : List (Nat × Nat)) (r : BitR)
    (h1 : (BitR.readList r (st.map (·.2))).1 = st.map (fun f => f.1 % 2 ^ f.2))
    (h2 : (BitR.readList r (st.map (·.2))).2.atEnd = true) : Holds r st := by
  induction st generalizing r with
  | nil =>
    simp only [List.map_nil, BitR.readList, BitR.atEnd, Bool.and_eq_true, beq_iff_eq, Bool.not_eq_true'] at h2
    exact h2
  | cons f t ih =>
    simp only [List.map_cons, BitR.readList, List.cons.injEq] at h1 h2
    exact ⟨h1.1, ih _ h1.2 h2⟩

theorem pop_holds {w : Nat} {stack st2 : List (Nat × Nat)} {x : Nat} {r : BitR} (hp : pop w stack = some (x, st2)) (h : Holds r stack) :
    (r.read w).1 = x ∧ Holds (r.read w).2 st2 := by
  cases stack with
  | nil => simp [pop] at hp
  | cons f rest =>
    simp only [pop] at hp
    split at hp
    · next hw =>
      simp only [Option.some.injEq, Prod.mk.injEq] at hp
      obtain ⟨h1, h2⟩ := h
      rw [hw] at h1 h2
      rw [← hp.1, ← hp.2]
      exact ⟨h1, h2⟩
    · simp at hp

theorem read_zero (r : BitR) : r.read 0 = (0, r) := by
  cases r
  simp [BitR.read, BitR.field]

/-- loop state of `Block.decodeSeqs`: (sLL, sOF, sML, bit reader, repeat offsets, sequences so far) -/
abbrev LoopSt := Nat × Nat × Nat × BitR × Array Nat × Array Seq

/-- one iteration of the loop of `Block.decodeSeqs` (ZSTD_decodeSequence), with every conditional read written as an unconditional one
(`BitR.read 0` reads nothing: `read_zero`); `isLast` = "this is the last sequence: no state update" -/
def seqStep (llT ofT mlT : Array SeqCell) (isLast : Bool) (s : LoopSt) : LoopSt :=
  let cLL := llT[s.1]!
  let cOF := ofT[s.2.1]!
  let cML := mlT[s.2.2.1]!
  let r := s.2.2.2.1
  let rep := s.2.2.2.2.1
  let ll0 := if cLL.baseValue == 0 then 1 else 0
  let a := r.read cOF.nbAddBits
  let ofValue := ofValueOf cOF.baseValue cOF.nbAddBits a.1
  let res := resolve ⟨rep[0]!, rep[1]!, rep[2]!⟩ ofValue ll0
  let b := a.2.read cML.nbAddBits
  let c := b.2.read cLL.nbAddBits
  let sq : Seq := { ll := cLL.baseValue + c.1, ml := cML.baseValue + b.1, offset := res.1, ofValue := ofValue }
  let rep2 := #[res.2.r0, res.2.r1, res.2.r2]
  if isLast then (s.1, s.2.1, s.2.2.1, c.2, rep2, s.2.2.2.2.2.push sq)
  else
    let x := c.2.read cLL.nbBits
    let y := x.2.read cML.nbBits
    let z := y.2.read cOF.nbBits
    (cLL.nextState + x.1, cOF.nextState + z.1, cML.nextState + y.1, z.2, rep2, s.2.2.2.2.2.push sq)

theorem forIn_yield_list {α β : Type} (l : List α) (f : α → β → β) (g : α → β → Id (ForInStep β)) (init : β)
    (h : ∀ a b, g a b = ForInStep.yield (f a b)) : forIn (m := Id) l init g = l.foldl (fun b a => f a b) init := by
  induction l generalizing init with
  | nil => rfl
  | cons a as ih =>
    rw [List.forIn_cons, h a init, List.foldl_cons]
    exact ih _

/-- `Block.decodeSeqs` is the left fold of `seqStep` over the sequence indices -/
theorem decodeSeqs_eq_fold (llT ofT mlT : Array SeqCell) (nbSeq sLL0 sOF0 sML0 : Nat) (r0 : BitR) (rep0 : Array Nat) :
    decodeSeqs llT ofT mlT nbSeq sLL0 sOF0 sML0 r0 rep0 =
      { seqs := ((List.range' 0 nbSeq).foldl (fun (b : LoopSt) k => seqStep llT ofT mlT (k + 1 == nbSeq) b)
          (sLL0, sOF0, sML0, r0, rep0, Array.mkEmpty nbSeq)).2.2.2.2.2
        r := ((List.range' 0 nbSeq).foldl (fun (b : LoopSt) k => seqStep llT ofT mlT (k + 1 == nbSeq) b)
          (sLL0, sOF0, sML0, r0, rep0, Array.mkEmpty nbSeq)).2.2.2.1
        rep := ((List.range' 0 nbSeq).foldl (fun (b : LoopSt) k => seqStep llT ofT mlT (k + 1 == nbSeq) b)
          (sLL0, sOF0, sML0, r0, rep0, Array.mkEmpty nbSeq)).2.2.2.2.1 } := by
  unfold decodeSeqs
  simp only [Id.run, bind, pure, Std.Legacy.Range.forIn_eq_forIn_range']
  rw [forIn_yield_list _ (fun k (b : LoopSt) => seqStep llT ofT mlT (k + 1 == nbSeq) b)]
  · simp [Std.Legacy.Range.size]
  · intro k s
    obtain ⟨sLL, sOF, sML, r, rep, seqs⟩ := s
    unfold seqStep ofValueOf
    dsimp only
    generalize (ofT[sOF]!).nbAddBits = ob
    generalize (mlT[sML]!).nbAddBits = mb
    generalize (llT[sLL]!).nbAddBits = lb
    by_cases hl : k + 1 = nbSeq
    all_goals rcases ob with _ | _ | ob
    all_goals rcases mb with _ | mb
    all_goals rcases lb with _ | lb
    all_goals simp [hl, read_zero]

/-- repeat-offset history: the array of `Block.decodeSeqs` as a `Rep.R` and back -/
def repOf (a : Array Nat) : Rep.R := ⟨a[0]!, a[1]!, a[2]!⟩
def repArr (r : Rep.R) : Array Nat := #[r.r0, r.r1, r.r2]

theorem repOf_repArr (r : Rep.R) : repOf (repArr r) = r := by
  cases r; rfl

/-- the repeat-offset resolution of ZSTD_decodeSequence (`Rep.resolve`) along a list of decoded triples -/
def resolveAll (rep : Rep.R) : List Tri → List Seq × Rep.R
  | [] => ([], rep)
  | t :: ts =>
    let res := resolve rep t.ofValue t.ll0
    ({ ll := t.ll, ml := t.ml, offset := res.1, ofValue := t.ofValue } :: (resolveAll res.2 ts).1, (resolveAll res.2 ts).2)

theorem resolveAll_fields (rep : Rep.R) (ts : List Tri) :
    (resolveAll rep ts).1.map (fun q => (q.ll, q.ml, q.ofValue)) = ts.map (fun t => (t.ll, t.ml, t.ofValue)) := by
  induction ts generalizing rep with
  | nil => rfl
  | cons t ts ih => simp only [resolveAll, List.map_cons, ih]

/-- THE DECODER LOOP follows the abstract decoder: when the abstract decoder succeeds on `stack` and the reader sees `stack`, the `m`
remaining iterations of `Block.decodeSeqs` append the decoded sequences (offsets resolved by `Rep.resolve`), and leave a reader that
sees what the abstract decoder left -/
theorem fold_of_stack (llT ofT mlT : Array SeqCell) (nbSeq : Nat) (m : Nat) : ∀ (a : Nat), a + m = nbSeq →
    ∀ (sLL sOF sML : Nat) (r : BitR) (rep : Array Nat) (seqs : Array Seq) (stack : List (Nat × Nat)) (out : List Tri) (rest : List (Nat × Nat)),
    decodeStack llT ofT mlT m sLL sOF sML stack = some (out, rest) → Holds r stack →
    ((List.range' a m).foldl (fun (b : LoopSt) k => seqStep llT ofT mlT (k + 1 == nbSeq) b) (sLL, sOF, sML, r, rep, seqs)).2.2.2.2.2
        = seqs ++ (resolveAll (repOf rep) out).1.toArray ∧
      Holds ((List.range' a m).foldl (fun (b : LoopSt) k => seqStep llT ofT mlT (k + 1 == nbSeq) b) (sLL, sOF, sML, r, rep, seqs)).2.2.2.1 rest ∧
      (m ≠ 0 → ((List.range' a m).foldl (fun (b : LoopSt) k => seqStep llT ofT mlT (k + 1 == nbSeq) b) (sLL, sOF, sML, r, rep, seqs)).2.2.2.2.1
        = repArr (resolveAll (repOf rep) out).2) := by
  induction m with
  | zero =>
    intro a _ sLL sOF sML r rep seqs stack out rest hdec hh
    simp only [decodeStack, Option.some.injEq, Prod.mk.injEq] at hdec
    obtain ⟨e1, e2⟩ := hdec
    subst e1; subst e2
    simp [resolveAll, hh]
  | succ m ih =>
    intro a ha sLL sOF sML r rep seqs stack out rest hdec hh
    rw [decodeStack] at hdec
    simp only [Option.bind_eq_some_iff] at hdec
    obtain ⟨x, hx, y, hy, z, hz, hdec⟩ := hdec
    obtain ⟨x1, x2⟩ := x
    obtain ⟨y1, y2⟩ := y
    obtain ⟨z1, z2⟩ := z
    obtain ⟨rx, hx2⟩ := pop_holds hx hh
    obtain ⟨ry, hy2⟩ := pop_holds hy hx2
    obtain ⟨rz, hz2⟩ := pop_holds hz hy2
    rw [List.range'_succ, List.foldl_cons]
    by_cases hm : m = 0
    · subst hm
      have hl : (a + 1 == nbSeq) = true := by simp; omega
      simp only [if_true, Option.some.injEq, Prod.mk.injEq] at hdec
      obtain ⟨e1, e2⟩ := hdec
      subst e1; subst e2
      obtain ⟨rd, hrd, hstep⟩ : ∃ rd, Holds rd z2 ∧ seqStep llT ofT mlT (a + 1 == nbSeq) (sLL, sOF, sML, r, rep, seqs) =
          (sLL, sOF, sML, rd, repArr (resolve (repOf rep) (ofValueOf (ofT[sOF]!).baseValue (ofT[sOF]!).nbAddBits x1)
              (if (llT[sLL]!).baseValue == 0 then 1 else 0)).2,
            seqs.push { ll := (llT[sLL]!).baseValue + z1, ml := (mlT[sML]!).baseValue + y1,
                        offset := (resolve (repOf rep) (ofValueOf (ofT[sOF]!).baseValue (ofT[sOF]!).nbAddBits x1)
                          (if (llT[sLL]!).baseValue == 0 then 1 else 0)).1,
                        ofValue := ofValueOf (ofT[sOF]!).baseValue (ofT[sOF]!).nbAddBits x1 }) :=
        ⟨_, hz2, by simp only [seqStep, hl, if_true, rx, ry, rz]; rfl⟩
      rw [hstep]
      simp only [List.range'_zero, List.foldl_nil, resolveAll]
      exact ⟨by simp, hrd, fun _ => trivial⟩
    · have hl : (a + 1 == nbSeq) = false := by simp; omega
      simp only [hm, if_false, Option.bind_eq_some_iff, Option.some.injEq] at hdec
      obtain ⟨p, hp, q, hq, u, hu, rr, hr, e⟩ := hdec
      obtain ⟨p1, p2⟩ := p
      obtain ⟨q1, q2⟩ := q
      obtain ⟨u1, u2⟩ := u
      obtain ⟨rp, hp2⟩ := pop_holds hp hz2
      obtain ⟨rq, hq2⟩ := pop_holds hq hp2
      obtain ⟨ru, hu2⟩ := pop_holds hu hq2
      obtain ⟨o1, o2⟩ := rr
      simp only [Prod.mk.injEq] at e
      obtain ⟨e1, e2⟩ := e
      subst e1; subst e2
      obtain ⟨rd, hrd, hstep⟩ : ∃ rd, Holds rd u2 ∧ seqStep llT ofT mlT (a + 1 == nbSeq) (sLL, sOF, sML, r, rep, seqs) =
          ((llT[sLL]!).nextState + p1, (ofT[sOF]!).nextState + u1, (mlT[sML]!).nextState + q1, rd,
            repArr (resolve (repOf rep) (ofValueOf (ofT[sOF]!).baseValue (ofT[sOF]!).nbAddBits x1)
              (if (llT[sLL]!).baseValue == 0 then 1 else 0)).2,
            seqs.push { ll := (llT[sLL]!).baseValue + z1, ml := (mlT[sML]!).baseValue + y1,
                        offset := (resolve (repOf rep) (ofValueOf (ofT[sOF]!).baseValue (ofT[sOF]!).nbAddBits x1)
                          (if (llT[sLL]!).baseValue == 0 then 1 else 0)).1,
                        ofValue := ofValueOf (ofT[sOF]!).baseValue (ofT[sOF]!).nbAddBits x1 }) :=
        ⟨_, hu2, by simp only [seqStep, hl, rx, ry, rz, rp, rq, ru]; rfl⟩
      rw [hstep]
      have := ih (a + 1) (by omega) _ _ _ rd (repArr (resolve (repOf rep) (ofValueOf (ofT[sOF]!).baseValue (ofT[sOF]!).nbAddBits x1)
        (if (llT[sLL]!).baseValue == 0 then 1 else 0)).2)
        (seqs.push { ll := (llT[sLL]!).baseValue + z1, ml := (mlT[sML]!).baseValue + y1,
                     offset := (resolve (repOf rep) (ofValueOf (ofT[sOF]!).baseValue (ofT[sOF]!).nbAddBits x1)
                       (if (llT[sLL]!).baseValue == 0 then 1 else 0)).1,
                     ofValue := ofValueOf (ofT[sOF]!).baseValue (ofT[sOF]!).nbAddBits x1 }) _ _ _ hr hrd
      simp only [repOf_repArr] at this
      simp only [resolveAll]
      refine ⟨?_, this.2.1, fun _ => this.2.2 hm⟩
      rw [this.1]; simp

/-! ### 5. the sequences section, at the level of bytes -/

/-- a sequence of the seqStore as the decoder must hand it out: literal length, match length `mlBase + MINMATCH`, Offset_Value `= offBase`,
`ll0 = (litLength == 0)` -/
def triIn (s : SeqIn) : Tri :=
  { ll := s.litLength, ml := s.mlBase + 3, ofValue := s.offBase, ll0 := if s.litLength == 0 then 1 else 0 }

/-- value ranges of one sequence: lengths below 2^17 (ZSTD_BLOCKSIZE_MAX = 2^17), `offBase` a non-zero U32 -/
def InRange (s : SeqIn) : Prop := s.litLength < 2 ^ 17 ∧ s.mlBase < 2 ^ 17 ∧ 1 ≤ s.offBase ∧ s.offBase < 2 ^ 32

instance (s : SeqIn) : Decidable (InRange s) := by unfold InRange; infer_instance

/-- base + extra bits restores the three values (and `ll0`) -/
theorem triOf_eq (s : SeqIn) (h : InRange s) : triOf s = triIn s := by
  obtain ⟨h1, h2, h3, h4⟩ := h
  obtain ⟨o1, -, o3⟩ := of_code_roundtrip s.offBase h3 h4
  have l1 := ll_extra_roundtrip s.litLength h1
  have l0 := ll_base_zero_iff s.litLength h1
  have m1 := ml_extra_roundtrip s.mlBase h2
  have key : (LL_base.getD (llCode s.litLength) 0 == 0) = (s.litLength == 0) := by
    rw [Bool.eq_iff_iff]; simp only [beq_iff_eq]; exact l0
  unfold triOf triIn
  simp only [codesOf, l1, m1, o3, key]

theorem seqOK_of {okLL okOF okML : Nat → Prop} (s : SeqIn) (h1 : okLL (codesOf s).ll ∧ okOF (codesOf s).of ∧ okML (codesOf s).ml)
    (h2 : InRange s) : SeqOK okLL okOF okML s :=
  ⟨h1.1, h1.2.1, h1.2.2, (of_code_roundtrip s.offBase h2.2.2.1 h2.2.2.2).2.1⟩

section
variable {ctLL ctOF ctML : CTable} {llT ofT mlT : Array SeqCell} {okLL okOF okML : Nat → Prop}

/-- **seq_section_roundtrip** (MAIN THEOREM).  Let `b` be the bytes ZSTD_encodeSequences produces (`encodeSeqBytes`) for a non-empty list of
sequences whose codes have non-zero probability in the three tables and whose values are in range.  Then BIT_initDStream accepts `b`, and
with the three initial states read from it exactly as `Block.prepare` does (LL, OF, ML; widths = the table logs), `Block.decodeSeqs` returns
sequences whose `(ll, ml, ofValue)` are `(litLength, mlBase + 3, offBase)` of the input, in order; the final reader is at the end of the
stream (`atEnd`, never overflowed), so the end-of-stream check of `Block.prepare` / `Block.finish` passes.  The `offset` fields and the new
repeat-offset history are those of `Rep.resolve` run along the `offBase` values (`resolveAll`). -/
theorem seq_section_roundtrip (hLL : Inverts ctLL llT LL_base LL_bits okLL) (hOF : Inverts ctOF ofT OF_base OF_bits okOF)
    (hML : Inverts ctML mlT ML_base ML_bits okML) (seqs : List SeqIn) (hne : seqs ≠ [])
    (hok : ∀ s ∈ seqs, okLL (codesOf s).ll ∧ okOF (codesOf s).of ∧ okML (codesOf s).ml) (hrng : ∀ s ∈ seqs, InRange s)
    (rep0 : Array Nat) :
    ∃ r0, BitR.init (encodeSeqBytes ctLL ctOF ctML seqs) 0 (encodeSeqBytes ctLL ctOF ctML seqs).size = .ok r0 ∧
      let a := r0.read ctLL.tableLog
      let b := a.2.read ctOF.tableLog
      let c := b.2.read ctML.tableLog
      let sd := decodeSeqs llT ofT mlT seqs.length a.1 b.1 c.1 c.2 rep0
      sd.seqs.toList.map (fun q => (q.ll, q.ml, q.ofValue)) = seqs.map (fun s => (s.litLength, s.mlBase + 3, s.offBase)) ∧
      sd.r.atEnd = true ∧ sd.r.over = false ∧
      sd.seqs.toList = (resolveAll (repOf rep0) (seqs.map triIn)).1 ∧
      sd.rep = repArr (resolveAll (repOf rep0) (seqs.map triIn)).2 := by
  obtain ⟨hdec, hw⟩ := three_state_roundtrip hLL hOF hML seqs hne (fun s hs => seqOK_of s (hok s hs) (hrng s hs))
  have hmap : seqs.map triOf = seqs.map triIn := List.map_congr_left (fun s hs => triOf_eq s (hrng s hs))
  rw [hmap] at hdec
  obtain ⟨r0, hinit, -, -, hvals, -, hend⟩ := BitR.bits_roundtrip (encodeSeqFields ctLL ctOF ctML seqs)
    (fun f hf => hw f (by simpa [encodeSeqFields] using hf))
  have hrev : (encodeSeqFields ctLL ctOF ctML seqs).reverse = encodeSeqStack ctLL ctOF ctML seqs := by
    simp [encodeSeqFields]
  rw [hrev] at hvals hend
  have hh := holds_of_readList _ r0 hvals hend
  refine ⟨r0, hinit, ?_⟩
  unfold decodeStackAll at hdec
  simp only [Option.bind_eq_some_iff] at hdec
  obtain ⟨⟨a1, a2⟩, ha, ⟨b1, b2⟩, hb, ⟨c1, c2⟩, hc, hdec⟩ := hdec
  obtain ⟨ra, ha2⟩ := pop_holds ha hh
  obtain ⟨rb, hb2⟩ := pop_holds hb ha2
  obtain ⟨rc, hc2⟩ := pop_holds hc hb2
  have hn : seqs.length ≠ 0 := by cases seqs with
    | nil => exact absurd rfl hne
    | cons => simp
  obtain ⟨f1, f2, f3⟩ := fold_of_stack llT ofT mlT seqs.length seqs.length 0 (by omega) _ _ _ _ rep0 (Array.mkEmpty seqs.length) _ _ _
    hdec hc2
  simp only []
  rw [decodeSeqs_eq_fold, ra, rb, rc]
  simp only []
  have e0 : ∀ X : List Seq, ((Array.mkEmpty seqs.length : Array Seq) ++ X.toArray).toList = X := by simp
  rw [f1, f3 hn, e0]
  obtain ⟨g1, g2⟩ := f2
  refine ⟨?_, ?_, g2, rfl, rfl⟩
  · rw [resolveAll_fields, List.map_map]; rfl
  · have : ∀ r : BitR, r.left = 0 → r.over = false → r.atEnd = true := fun r h1 h2 => by simp [BitR.atEnd, h1, h2]
    exact this _ g1 g2

/-! ### 6. repeat offsets: the raw offsets the compressor had in mind come back -/

/-- **rep_lockstep** (as Props/C01.lean, plus: the new history has no zero).  For every history of non-zero repeat offsets, every raw
offset ≥ 1 and either literal-length case, the decoder's resolution (`Rep.resolve`, ZSTD_decodeSequence) of the offBase the compressor
stores (ZSTD_finalizeOffBase) yields exactly that raw offset, and the decoder's new history equals the compressor's (ZSTD_updateRep). -/
theorem rep_lockstep (r : Rep.R) (raw : Nat) (ll0 : Bool) (h0 : 1 ≤ r.r0) (h1 : 1 ≤ r.r1) (h2 : 1 ≤ r.r2) (hr : 1 ≤ raw) :
    resolve r (finalizeOffBase raw r ll0) (if ll0 then 1 else 0) = (raw, updateRep r (finalizeOffBase raw r ll0) ll0) ∧
      1 ≤ (updateRep r (finalizeOffBase raw r ll0) ll0).r0 ∧ 1 ≤ (updateRep r (finalizeOffBase raw r ll0) ll0).r1 ∧
      1 ≤ (updateRep r (finalizeOffBase raw r ll0) ll0).r2 := by
  obtain ⟨a, b, c⟩ := r
  simp only at h0 h1 h2
  unfold finalizeOffBase
  cases ll0 <;> simp only [Bool.not_false, Bool.not_true, Bool.true_and, Bool.false_and, if_true, if_false, Bool.false_eq_true]
  · by_cases e0 : raw = a
    · subst e0; simp [resolve, updateRep]; omega
    · by_cases e1 : raw = b
      · subst e1; simp [e0, resolve, updateRep]; omega
      · by_cases e2 : raw = c
        · subst e2; simp [e0, e1, resolve, updateRep]; omega
        · have : raw + 3 > 3 := by omega
          simp [e0, e1, e2, resolve, updateRep, this]; omega
  · by_cases e1 : raw = b
    · subst e1; simp [resolve, updateRep]; omega
    · by_cases e2 : raw = c
      · subst e2; simp [e1, resolve, updateRep]; omega
      · by_cases e3 : raw = a - 1
        · subst e3; simp [e1, e2, resolve, updateRep]; omega
        · have : raw + 3 > 3 := by omega
          simp [e1, e2, e3, resolve, updateRep, this]; omega

/-- the offBase ZSTD_finalizeOffBase stores is a non-zero U32 when `raw + 3` is -/
theorem finalizeOffBase_range (raw : Nat) (r : Rep.R) (ll0 : Bool) (h : raw + 3 < 2 ^ 32) :
    1 ≤ finalizeOffBase raw r ll0 ∧ finalizeOffBase raw r ll0 < 2 ^ 32 := by
  unfold finalizeOffBase
  cases ll0 <;> simp only [Bool.not_false, Bool.not_true, Bool.true_and, Bool.false_and, if_true, if_false, Bool.false_eq_true] <;>
    (repeat' split) <;> omega

/-- what the compressor has in mind for one sequence: literal length, `matchLength - MINMATCH`, the raw match offset -/
structure RawSeq where
  litLength : Nat
  mlBase : Nat
  rawOffset : Nat
deriving DecidableEq, Repr

/-- the seqStore entries for a list of raw sequences along the encoder's repeat-offset history:
`offBase = ZSTD_finalizeOffBase(rawOffset, rep, ll0)`, then `ZSTD_updateRep(rep, offBase, ll0)`, with `ll0 = (litLength == 0)`
(the way ZSTD_transferSequences / ZSTD_compressSequences build the seqStore; returns the entries and the final history) -/
def storeAll (rep : Rep.R) : List RawSeq → List SeqIn × Rep.R
  | [] => ([], rep)
  | q :: qs =>
    let ob := finalizeOffBase q.rawOffset rep (q.litLength == 0)
    ({ litLength := q.litLength, mlBase := q.mlBase, offBase := ob } :: (storeAll (updateRep rep ob (q.litLength == 0)) qs).1,
      (storeAll (updateRep rep ob (q.litLength == 0)) qs).2)

/-- the decoder's resolution along the stored entries gives back the raw offsets and ends with the encoder's history -/
theorem resolveAll_storeAll (rep : Rep.R) (qs : List RawSeq) (h0 : 1 ≤ rep.r0) (h1 : 1 ≤ rep.r1) (h2 : 1 ≤ rep.r2)
    (hq : ∀ q ∈ qs, 1 ≤ q.rawOffset) :
    (resolveAll rep ((storeAll rep qs).1.map triIn)).1.map (fun s => (s.ll, s.ml, s.offset)) =
        qs.map (fun q => (q.litLength, q.mlBase + 3, q.rawOffset)) ∧
      (resolveAll rep ((storeAll rep qs).1.map triIn)).2 = (storeAll rep qs).2 := by
  induction qs generalizing rep with
  | nil => exact ⟨rfl, rfl⟩
  | cons q qs ih =>
    obtain ⟨l1, l2, l3, l4⟩ := rep_lockstep rep q.rawOffset (q.litLength == 0) h0 h1 h2 (hq q (by simp))
    obtain ⟨i1, i2⟩ := ih _ l2 l3 l4 (fun x hx => hq x (by simp [hx]))
    simp only [storeAll, List.map_cons, resolveAll, triIn, l1, i1, i2, and_self]

theorem storeAll_spec (rep : Rep.R) (qs : List RawSeq) :
    (storeAll rep qs).1.length = qs.length ∧
      ((∀ q ∈ qs, q.litLength < 2 ^ 17 ∧ q.mlBase < 2 ^ 17 ∧ q.rawOffset + 3 < 2 ^ 32) → ∀ s ∈ (storeAll rep qs).1, InRange s) := by
  induction qs generalizing rep with
  | nil => exact ⟨rfl, fun _ s hs => by simp [storeAll] at hs⟩
  | cons q qs ih =>
    obtain ⟨i1, i2⟩ := ih (updateRep rep (finalizeOffBase q.rawOffset rep (q.litLength == 0)) (q.litLength == 0))
    refine ⟨by simp [storeAll, i1], fun h s hs => ?_⟩
    simp only [storeAll, List.mem_cons] at hs
    rcases hs with e | e
    · obtain ⟨a, b, c⟩ := h q (by simp)
      obtain ⟨f1, f2⟩ := finalizeOffBase_range q.rawOffset rep (q.litLength == 0) c
      subst e
      exact ⟨a, b, f1, f2⟩
    · exact i2 (fun x hx => h x (by simp [hx])) s e

/-- **seq_offsets_roundtrip**.  The compressor stores, for raw sequences `(litLength, mlBase, rawOffset)`, the entries `storeAll`
(ZSTD_finalizeOffBase / ZSTD_updateRep along its repeat-offset history, started at `rep0`), and writes them with ZSTD_encodeSequences.
The decoder, started on the same history, reads from those bytes the literal lengths, the match lengths `mlBase + 3` and exactly the RAW
offsets (`Seq.offset`), ends bit-exact, and its history after the block is the compressor's. -/
theorem seq_offsets_roundtrip (hLL : Inverts ctLL llT LL_base LL_bits okLL) (hOF : Inverts ctOF ofT OF_base OF_bits okOF)
    (hML : Inverts ctML mlT ML_base ML_bits okML) (qs : List RawSeq) (hne : qs ≠ []) (rep0 : Array Nat)
    (h0 : 1 ≤ rep0[0]!) (h1 : 1 ≤ rep0[1]!) (h2 : 1 ≤ rep0[2]!)
    (hq : ∀ q ∈ qs, q.litLength < 2 ^ 17 ∧ q.mlBase < 2 ^ 17 ∧ 1 ≤ q.rawOffset ∧ q.rawOffset + 3 < 2 ^ 32)
    (hok : ∀ s ∈ (storeAll (repOf rep0) qs).1, okLL (codesOf s).ll ∧ okOF (codesOf s).of ∧ okML (codesOf s).ml) :
    ∃ r0, BitR.init (encodeSeqBytes ctLL ctOF ctML (storeAll (repOf rep0) qs).1) 0
        (encodeSeqBytes ctLL ctOF ctML (storeAll (repOf rep0) qs).1).size = .ok r0 ∧
      let a := r0.read ctLL.tableLog
      let b := a.2.read ctOF.tableLog
      let c := b.2.read ctML.tableLog
      let sd := decodeSeqs llT ofT mlT qs.length a.1 b.1 c.1 c.2 rep0
      sd.seqs.toList.map (fun s => (s.ll, s.ml, s.offset)) = qs.map (fun q => (q.litLength, q.mlBase + 3, q.rawOffset)) ∧
      sd.r.atEnd = true ∧ sd.r.over = false ∧ sd.rep = repArr (storeAll (repOf rep0) qs).2 := by
  obtain ⟨sl, sr⟩ := storeAll_spec (repOf rep0) qs
  have hne2 : (storeAll (repOf rep0) qs).1 ≠ [] := by
    intro e; rw [e] at sl; exact hne (List.length_eq_zero_iff.1 sl.symm)
  obtain ⟨r0, hinit, hmain⟩ := seq_section_roundtrip hLL hOF hML _ hne2 hok
    (sr (fun q hq2 => ⟨(hq q hq2).1, (hq q hq2).2.1, (hq q hq2).2.2.2⟩)) rep0
  obtain ⟨t1, t2⟩ := resolveAll_storeAll (repOf rep0) qs h0 h1 h2 (fun q hq2 => (hq q hq2).2.2.1)
  refine ⟨r0, hinit, ?_⟩
  simp only [sl] at hmain
  obtain ⟨-, m2, m3, m4, m5⟩ := hmain
  simp only []
  rw [m4, m5, t1, t2]
  exact ⟨rfl, m2, m3, rfl⟩

end

/-! ### 7. the predefined tables, unconditionally -/

theorem llCode_le (ll : Nat) (h : ll < 2 ^ 17) : llCode ll ≤ MaxLL := by
  unfold llCode
  by_cases hs : ll > 63
  · rw [if_pos hs]
    obtain ⟨-, hhi⟩ := log2_range (n := ll) (lo := 6) (hi := 16) (by omega) h
    simp only [LL_deltaCode, MaxLL]; omega
  · rw [if_neg hs]
    have tab : ∀ v, v < 64 → LL_Code.getD v 0 ≤ MaxLL := by decide
    exact tab ll (by omega)

theorem mlCode_le (m : Nat) (h : m < 2 ^ 17) : mlCode m ≤ MaxML := by
  unfold mlCode
  by_cases hs : m > 127
  · rw [if_pos hs]
    obtain ⟨-, hhi⟩ := log2_range (n := m) (lo := 7) (hi := 16) (by omega) h
    simp only [ML_deltaCode, MaxML]; omega
  · rw [if_neg hs]
    have tab : ∀ v, v < 128 → ML_Code.getD v 0 ≤ MaxML := by decide
    exact tab m (by omega)

/-- **seq_section_roundtrip_predefined**: the main theorem for a block whose three tables are the predefined ones (`set_basic`:
ZSTD_buildCTable builds them with FSE_buildCTable_wksp from LL/OF/ML_defaultNorm; the decoder uses its constant tables
LL/OF/ML_defaultDTable with logs 6, 5, 6).  No hypothesis on tables is left: every non-empty list of sequences in range whose offset
codes exist in the predefined offset table (`offBase < 2^29`, code ≤ DefaultMaxOff = 28) comes back from the bytes. -/
theorem seq_section_roundtrip_predefined (seqs : List SeqIn) (hne : seqs ≠ [])
    (hrng : ∀ s ∈ seqs, s.litLength < 2 ^ 17 ∧ s.mlBase < 2 ^ 17 ∧ 1 ≤ s.offBase ∧ s.offBase < 2 ^ 29) (rep0 : Array Nat) :
    ∃ r0, BitR.init (encodeSeqBytes (buildCTable LL_defaultNorm.toArray LL_DEFAULTNORMLOG) (buildCTable OF_defaultNorm.toArray OF_DEFAULTNORMLOG)
          (buildCTable ML_defaultNorm.toArray ML_DEFAULTNORMLOG) seqs) 0
        (encodeSeqBytes (buildCTable LL_defaultNorm.toArray LL_DEFAULTNORMLOG) (buildCTable OF_defaultNorm.toArray OF_DEFAULTNORMLOG)
          (buildCTable ML_defaultNorm.toArray ML_DEFAULTNORMLOG) seqs).size = .ok r0 ∧
      let a := r0.read LL_DEFAULTNORMLOG
      let b := a.2.read OF_DEFAULTNORMLOG
      let c := b.2.read ML_DEFAULTNORMLOG
      let sd := decodeSeqs LL_defaultDTable.toArray OF_defaultDTable.toArray ML_defaultDTable.toArray seqs.length a.1 b.1 c.1 c.2 rep0
      sd.seqs.toList.map (fun q => (q.ll, q.ml, q.ofValue)) = seqs.map (fun s => (s.litLength, s.mlBase + 3, s.offBase)) ∧
      sd.r.atEnd = true ∧ sd.r.over = false ∧
      sd.seqs.toList = (resolveAll (repOf rep0) (seqs.map triIn)).1 ∧
      sd.rep = repArr (resolveAll (repOf rep0) (seqs.map triIn)).2 := by
  obtain ⟨d1, d2, d3⟩ := inverts_default
  refine seq_section_roundtrip d1 d2 d3 seqs hne (fun s hs => ?_) (fun s hs => ?_) rep0
  · obtain ⟨a, b, c, d⟩ := hrng s hs
    refine ⟨llCode_le _ a, ?_, mlCode_le _ b⟩
    show Nat.log2 s.offBase ≤ 28
    exact (log2_range (n := s.offBase) (lo := 0) (hi := 28) (by omega) d).2
  · obtain ⟨a, b, c, d⟩ := hrng s hs
    exact ⟨a, b, c, by omega⟩

/-! ### non-vacuity: concrete streams (the bytes are those of the real ZSTD_encodeSequences, see harness/zvh_seqenc.c / tools/ent_seq.py) -/

/-- three sequences on the three predefined tables: literal lengths 5, 0, 70000 (code 35, the `longLength` case), repeat code and real offsets -/
def demoSeqs : List SeqIn := [⟨5, 2, 1⟩, ⟨0, 40, 1027⟩, ⟨70000, 300, 3⟩]

def demoBytes : Bytes :=
  encodeSeqBytes (buildCTable LL_defaultNorm.toArray 6) (buildCTable OF_defaultNorm.toArray 5) (buildCTable ML_defaultNorm.toArray 6) demoSeqs

example : demoSeqs ≠ [] ∧ (∀ s ∈ demoSeqs, (codesOf s).ll ≤ MaxLL ∧ (codesOf s).of ≤ DefaultMaxOff ∧ (codesOf s).ml ≤ MaxML) ∧
    ∀ s ∈ demoSeqs, InRange s := by decide

example : demoBytes.data = #[0x70, 0x11, 0x2c, 0xaf, 0xca, 0x0c, 0x90, 0xcd, 0x12, 0xc0, 0x1b] := by decide +kernel

example : demoSeqs.map codesOf = [⟨5, 0, 2⟩, ⟨0, 10, 36⟩, ⟨35, 1, 44⟩] := by decide +kernel

example : (match BitR.init demoBytes 0 demoBytes.size with
    | .error _ => none
    | .ok r0 =>
      let a := r0.read 6
      let b := a.2.read 5
      let c := b.2.read 6
      let sd := decodeSeqs LL_defaultDTable.toArray OF_defaultDTable.toArray ML_defaultDTable.toArray 3 a.1 b.1 c.1 c.2 #[1, 4, 8]
      some (sd.seqs.toList.map (fun q => (q.ll, q.ml, q.ofValue, q.offset)), sd.r.atEnd, sd.rep)) =
    some ([(5, 5, 1, 1), (0, 43, 1027, 1024), (70000, 303, 3, 4)], true, #[4, 1024, 1]) := by decide +kernel

/-- an RLE table between two predefined ones: every offset code is 7 -/
example : (encodeSeqStack (buildCTable LL_defaultNorm.toArray 6) (rleCTable 7) (buildCTable ML_defaultNorm.toArray 6)
    [⟨1, 1, 130⟩, ⟨2, 0, 200⟩]).map (·.2) = [6, 0, 6, 7, 0, 0, 4, 4, 0, 7, 0, 0] := by decide +kernel

end ZstdVerif.SeqRT
