/-
Dictionary round trip (property C08): frames compressed with a dictionary decode, with the same dictionary, to their input.

Writer: Model/DictEnc.lean (`serializeFrameFrom rep0`, `serializeFrameDict D`: the serializer of Model/BlockEnc.lean started from the
dictionary's repeat offsets).  Loader: Model/Dict.lean `Dict.loadD` (ZSTD_decompress_insertDictionary / ZSTD_loadDEntropy), UNCHANGED.
Decoder: Model/Frame.lean, UNCHANGED.

  serializeFrame2_eq_from        `BlockEnc.serializeFrame2` is the instance `rep0 = repStart`
  decompressFrame_serializedFrom `BlockRT.decompressFrame_serialized2` for ANY positive starting history `rep0` shared by encoder and
                                 decoder, and a header dictionary ID that is absent, 0, or the ID of the loaded dictionary
  frame_roundtrip_from           the same through `Frame.decompressAll`; `frame_roundtrip_compressed_inst` = the old theorem as instance
  loadD_reps_ok                  what `Dict.loadD` guarantees about the repeat offsets it installs
  dict_roundtrip                 MAIN: every accepted dictionary, every input, every valid tiling (matches may reach into the dictionary)
  wrong_dict_refused_frame / wrong_dict_refused_full   a frame naming another dictionary ID is refused with dictionary_wrong,
                                 whatever its blocks
-/
import ZstdVerif.Model.DictEnc
import ZstdVerif.Lemmas.BlockRT
set_option linter.unusedSimpArgs false
namespace ZstdVerif.DictRT
open ZstdVerif ZstdVerif.Gen ZstdVerif.BlockEnc ZstdVerif.DictEnc ZstdVerif.Serialize ZstdVerif.HeaderW ZstdVerif.Rep
open ZstdVerif.SeqRT (repOf)
open ZstdVerif.Block (Entropy)
open ZstdVerif.FrameRT (Holds St stepOf StepRaw StepRle forIn_cons_done forIn_cons_yield blockHeader24_size size_ofList)
open ZstdVerif.BlockRT (RepPos Tiles2 StepCmp effBlocks2 blocks_loop2 blockHeader_cmp tiles2_effBlocks effBlocks2_ne
  serializeBlocks2_size_ge forIn_two)

/-! ### the serializer with a starting history -/

/-- the frames of Model/BlockEnc.lean are the frames started from `repStartValue` -/
theorem serializeFrame2_eq_from (a : HArgs) (bs : List BlockChoice2) (x : ByteArray) :
    serializeFrame2 a bs x = serializeFrameFrom repStart a bs x := rfl

theorem dictRep_eq (D : Frame.Dict) : dictRep D = repOf D.ent.rep := rfl

theorem serializeFrameFrom_eq (rep0 : Rep.R) (a : HArgs) (bs : List BlockChoice2) (x : ByteArray) :
    serializeFrameFrom rep0 a bs x =
      ofList (writeHeader a) ++ (serializeBlocks2 x (effBlocks2 bs) 0 rep0 ++ FrameRT.checksumBytes a x) := by
  unfold serializeFrameFrom epilogue effBlocks2 FrameRT.checksumBytes
  cases bs with
  | nil =>
    simp only [List.isEmpty_nil, if_true, serializeBlocks2, noCompressBlock, ByteArray.empty_append, ByteArray.extract_same,
      ByteArray.append_empty]
  | cons c rest =>
    simp only [List.isEmpty_cons, Bool.false_eq_true, if_false, ByteArray.empty_append]

theorem serializeFrameFrom_size_ge (rep0 : Rep.R) (a : HArgs) (bs : List BlockChoice2) (x : ByteArray) :
    (if a.magicless then 2 else 6) + 3 ≤ (serializeFrameFrom rep0 a bs x).size := by
  rw [serializeFrameFrom_eq]
  have h1 := FrameRT.writeHeader_length_ge a
  have h2 := serializeBlocks2_size_ge x (effBlocks2 bs) 0 rep0
  have h3 : 1 ≤ (effBlocks2 bs).length := by
    have := effBlocks2_ne bs
    cases h : effBlocks2 bs with
    | nil => exact absurd h this
    | cons _ _ => simp
  simp only [ByteArray.size_append, size_ofList]
  omega

theorem frameFrom_magic {src : ByteArray} {ip : Nat} {rep0 : Rep.R} {a : HArgs} {bs : List BlockChoice2} {x : ByteArray}
    (h : Holds src ip (serializeFrameFrom rep0 a bs x)) (hm : a.magicless = false) : src.le32 ip = ZSTD_MAGICNUMBER := by
  have h5 := serializeFrameFrom_size_ge rep0 a bs x
  rw [hm] at h5
  rw [h.le32 (by simp only [Bool.false_eq_true, if_false] at h5; omega)]
  unfold serializeFrameFrom
  generalize serializeBlocks2 x bs 0 rep0 ++ epilogue a bs.isEmpty x = rest
  have e : ofList (writeHeader a) ++ rest = ByteArray.mk (writeHeader a ++ rest.data.toList).toArray := by
    have := FrameRT.ofList_append (writeHeader a) rest.data.toList
    rw [FrameRT.ofList_toList] at this
    exact this.symm
  rw [e]
  rcases FrameRT.writeHeader_magic a rest.data.toList with h | h
  · rw [hm] at h; cases h
  · exact h

/-! ### one frame, any starting history, dictionary ID allowed -/

/-- the dictionary-ID test of ZSTD_decompressFrame / ZSTD_decodeFrameHeader (`dctx->fParams.dictID && (dctx->dictID != fParams.dictID)`)
passes: the header names no dictionary, or names the loaded one -/
def DictIDOK (a : HArgs) (did : Nat) : Prop := a.noDictID = true ∨ a.dictID = 0 ∨ a.dictID = did

/-- **one serialized frame inside any input, any starting history**: `Frame.decompressFrame` (ZSTD_decompressFrame) started at a
frame that the serializer started from the history `rep0`, with a dictionary loaded whose history is the same `rep0` (positive) and whose
content the parses may refer to, appends exactly the content and consumes exactly the frame.  The header may carry the dictionary's ID. -/
theorem decompressFrame_serializedFrom (rep0 : Rep.R) (hpos : RepPos rep0) (a : HArgs) (ha : a.wf) (dict : Frame.Dict)
    (hnd : DictIDOK a dict.id)
    (bs : List BlockChoice2) (x : ByteArray) (hfcs : a.contentSizeFlag = true → a.pledged = x.size)
    (hrep0 : repOf dict.ent.rep = rep0)
    (ht : Tiles2 dict.content (min (if single a then a.pledged else 2 ^ a.windowLog) ZSTD_BLOCKSIZE_MAX) x bs 0 rep0)
    {src : ByteArray} {ip0 : Nat} (r : Nat) (hsrc : Holds src ip0 (serializeFrameFrom rep0 a bs x))
    (out0 : ByteArray) (cap : Nat) (hcap : out0.size + x.size ≤ cap)
    (o : Frame.Opts) (hml : o.magicless = a.magicless) (hmb : o.maxBlockSize = 0)
    (hhash : a.checksum = true → XXH64.hashRange (out0 ++ x) out0.size x.size = XXH64.hashRange x 0 x.size) :
    ∃ tr, Frame.decompressFrame src ip0 ((serializeFrameFrom rep0 a bs x).size + r) dict out0 cap o =
      .ok (out0 ++ x, (serializeFrameFrom rep0 a bs x).size, tr) := by
  rw [serializeFrameFrom_eq] at hsrc ⊢
  have htl := tiles2_effBlocks ht
  have hne := effBlocks2_ne bs
  generalize effBlocks2 bs = bs2 at hsrc htl hne ⊢
  obtain ⟨hd, g0, g1, hsk, gfcs, gws, gdid, gck⟩ := FrameRT.getHeader_serialized a ha hsrc
  have gbsm := FrameRT.getHeader_bsm g1 hsk
  rw [gws] at gbsm
  have hH := FrameRT.writeHeader_length_ge a
  have hS := serializeBlocks2_size_ge x bs2 0 rep0
  have hlen : 1 ≤ bs2.length := by cases bs2 with | nil => exact absurd rfl hne | cons _ _ => simp
  have hC := FrameRT.checksumBytes_size a x
  have hfh : Frame.headerSizeOf (src.u8 (ip0 + if a.magicless = true then 0 else 4)) a.magicless = (writeHeader a).length := by
    rw [← g0]; cases a.magicless <;> rfl
  simp only [ByteArray.size_append, size_ofList]
  generalize hHn : (writeHeader a).length = H at *
  generalize hSn : (serializeBlocks2 x bs2 0 rep0).size = S at *
  generalize hCn : (FrameRT.checksumBytes a x).size = C at *
  unfold Frame.decompressFrame
  simp only [bind, Except.bind, pure, Except.pure, throw, throwThe, MonadExceptOf.throw]
  simp only [hmb, hml, hfh, g1, hsk, bne_self_eq_false, Bool.false_eq_true, if_false]
  rw [if_neg (by simp only [ZSTD_blockHeaderSize]; omega), if_neg (by simp only [ZSTD_blockHeaderSize]; omega)]
  have hdidT : (hd.dictID != 0 && dict.id != hd.dictID) = false := by
    rw [gdid]
    rcases hnd with h | h | h
    · simp [h]
    · simp [h]
    · cases a.noDictID <;> simp [h]
  simp only [hdidT, Bool.false_eq_true, if_false]
  generalize hloop : forIn (m := R) (ρ := Std.Legacy.Range) _ _ _ = L
  have hbsm : hd.blockSizeMax ≤ 2 ^ 17 := by rw [gbsm]; simp only [ZSTD_BLOCKSIZE_MAX]; omega
  have hL : ∃ (bl : Array Frame.BlockTrace) (ent2 : Entropy), bl.back?.map (·.hdr.last) = some true ∧
      L = .ok (ip0 + H + S, C + r, out0 ++ x, ent2, bl, none) := by
    rw [← hloop, Std.Legacy.Range.forIn_eq_forIn_range', ← hSn]
    refine blocks_loop2 src dict.content x out0 cap hd.blockSizeMax (C + r) _ hbsm ?raw ?rle ?cmp hcap bs2 _ 0 (ip0 + H) _ out0 dict.ent #[]
      rep0 none (by rw [ByteArray.extract_same, ByteArray.append_empty]) hne ?len (by rw [gbsm]; exact htl) hrep0 hpos trivial
      (by rw [← hHn, ← size_ofList]; exact hsrc.right.left) (by omega)
    case len => simp only [List.length_range', Std.Legacy.Range.size]; omega
    case raw =>
      intro i ip rem out ent blocks last n data hh hds h1 h2 h3 h4
      have hbh := FrameRT.blockHeader_raw (rem := rem) hh.left (by omega) h4
      have hex : src.extract (ip + 3) (ip + 3 + n) = data := by
        have := hh.right.extract; rwa [blockHeader24_size, hds] at this
      refine ⟨⟨⟨last, 0, n, n⟩, (out ++ data).size - out.size, none⟩, rfl, ?_⟩
      simp only [hbh, ZSTD_blockHeaderSize, hex]
      rw [if_neg (by omega)]
      simp only [show ((0 : Nat) == 2) = false from rfl, Bool.false_eq_true, if_false, BEq.rfl, if_true]
      rw [if_neg (by omega), if_neg (by rw [ByteArray.size_append, hds]; simp only [Option.isNone_none, Bool.and_true, decide_eq_true_eq]; omega)]
      cases last <;> rfl
    case rle =>
      intro i ip rem out ent blocks last n b hh h1 h2 h3 h4
      have hbh := FrameRT.blockHeader_rle (rem := rem) hh.left (by omega) h4
      have hb : src.u8 (ip + 3) = b.toNat := by
        have := hh.right.u8 0 (Nat.zero_lt_one); rw [blockHeader24_size] at this; exact this
      refine ⟨⟨⟨last, 1, 1, n⟩, (out ++ ByteArray.mk (Array.replicate n b)).size - out.size, none⟩, rfl, ?_⟩
      simp only [hbh, ZSTD_blockHeaderSize, hb, UInt8.ofNat_toNat]
      rw [if_neg (by omega)]
      simp only [show ((1 : Nat) == 2) = false from rfl, show ((1 : Nat) == 0) = false from rfl, Bool.false_eq_true, if_false]
      rw [if_neg (by omega), if_neg (by rw [ByteArray.size_append, FrameRT.size_replicate]; simp only [Option.isNone_none, Bool.and_true, decide_eq_true_eq]; omega)]
      cases last <;> rfl
    case cmp =>
      intro i ip rem out ent blocks last body out2 ent2 tr hh h1 h2 hdec hgrow
      have hbh := blockHeader_cmp (rem := rem) hh.left (by omega) h2
      refine ⟨⟨⟨last, 2, body.size, body.size⟩, out2.size - out.size, some tr⟩, rfl, ?_⟩
      simp only [hbh, ZSTD_blockHeaderSize, hdec]
      rw [if_neg (by omega)]
      simp only [BEq.rfl, if_true]
      rw [if_neg (by simp only [Option.isNone_none, Bool.and_true, decide_eq_true_eq]; omega)]
      cases last <;> rfl
  obtain ⟨bl, entF, hb1, hLe⟩ := hL
  clear hloop
  subst hLe
  simp only [hb1, Option.getD_some, Bool.not_true, Bool.false_eq_true, if_false, gfcs, gck]
  have hx : (out0 ++ x).size - out0.size = x.size := by rw [ByteArray.size_append]; omega
  simp only [hx]
  have hck : a.checksum = true → C = 4 ∧
      src.le32 (ip0 + H + S) = (XXH64.hashRange (out0 ++ x) out0.size x.size).toNat &&& 4294967295 := by
    intro hk
    have h3 := hsrc.right.right
    rw [size_ofList, hHn, hSn] at h3
    unfold FrameRT.checksumBytes at h3
    rw [if_pos hk] at h3
    refine ⟨by rw [hC, if_pos hk], ?_⟩
    rw [h3.le32 (by rw [size_ofList]; simp [le4]), hhash hk]
    exact FrameRT.le32_le4 _ (Nat.lt_succ_of_le Nat.and_le_right)
  have hfin : ip0 + H + S - ip0 = H + S := by omega
  have hfin4 : ip0 + H + S + 4 - ip0 = H + (S + 4) := by omega
  cases hk : a.checksum
  · have hC0 : C = 0 := by rw [hC, hk]; rfl
    subst hC0
    rw [hfin]
    cases hcs : a.contentSizeFlag
    · exact ⟨_, rfl⟩
    · have := hfcs hcs
      simp only [if_true, this, bne_self_eq_false, Bool.false_eq_true, if_false]
      exact ⟨_, rfl⟩
  · obtain ⟨hC4, hrd⟩ := hck hk
    subst hC4
    rw [hfin4]
    simp only [if_true, if_neg (show ¬ 4 + r < 4 by omega), hrd, bne_self_eq_false, Bool.false_eq_true, if_false]
    cases hcs : a.contentSizeFlag
    · cases o.ignoreChecksum <;> exact ⟨_, rfl⟩
    · have := hfcs hcs
      simp only [if_true, this, bne_self_eq_false, Bool.false_eq_true, if_false]
      cases o.ignoreChecksum <;> exact ⟨_, rfl⟩

/-! ### whole inputs (ZSTD_decompress_usingDict) -/

/-- hypotheses on one frame written from the history `rep0` for a decoder holding a dictionary with content `dc` and ID `did`:
accepted header arguments, dictionary ID absent / 0 / `did`, magic number present, truthful content size, and the blocks tile the
content with parses valid over `dc ++ (frame content so far)` under the decoder's block-size limit -/
def FrameOKFrom (dc : ByteArray) (did : Nat) (rep0 : Rep.R) (a : HArgs) (bs : List BlockChoice2) (x : ByteArray) : Prop :=
  a.wf ∧ DictIDOK a did ∧ a.magicless = false ∧ (a.contentSizeFlag = true → a.pledged = x.size) ∧
    Tiles2 dc (FrameRT.blockSizeMaxOf a) x bs 0 rep0

/-- **frame_roundtrip_from** (`BlockRT.frame_roundtrip_compressed` for any starting history and with a dictionary ID): for every
positive repeat-offset history `rep0` that the encoder starts from and the loaded dictionary carries, ZSTD_decompress_usingDict
(`Frame.decompressAll`) maps the serialized frame back to `x` -/
theorem frame_roundtrip_from (rep0 : Rep.R) (hpos : RepPos rep0) (a : HArgs) (bs : List BlockChoice2) (x : ByteArray) (dict : Frame.Dict)
    (hok : FrameOKFrom dict.content dict.id rep0 a bs x) (hrep0 : repOf dict.ent.rep = rep0)
    (cap : Nat) (hcap : x.size ≤ cap) (o : Frame.Opts) (hml : o.magicless = false) (hmb : o.maxBlockSize = 0) :
    ∃ traces, Frame.decompressAll (serializeFrameFrom rep0 a bs x) dict cap o = .ok (x, traces) := by
  obtain ⟨k1, k2, k3, k4, k5⟩ := hok
  have hh := FrameRT.holds_self (serializeFrameFrom rep0 a bs x)
  have hmg := frameFrom_magic hh k3
  have h5 := serializeFrameFrom_size_ge rep0 a bs x
  rw [k3] at h5
  simp only [Bool.false_eq_true, if_false] at h5
  obtain ⟨tr, hdf⟩ := decompressFrame_serializedFrom rep0 hpos a k1 dict k2 bs x k4 hrep0 k5 0 hh ByteArray.empty cap
    (by rw [ByteArray.size_empty]; omega) o (by rw [hml, k3]) hmb (fun _ => by rw [ByteArray.empty_append, ByteArray.size_empty])
  rw [Nat.add_zero, ByteArray.empty_append] at hdf
  unfold Frame.decompressAll
  simp only [bind, Except.bind, pure, Except.pure, throw, throwThe, MonadExceptOf.throw, hml, Bool.false_eq_true, if_false, Bool.not_false,
    Bool.true_and]
  generalize hloop : forIn (m := R) (ρ := Std.Legacy.Range) _ _ _ = L
  have hL : L = .ok ((serializeFrameFrom rep0 a bs x).size, 0, x, #[tr], true) := by
    rw [← hloop, Std.Legacy.Range.forIn_eq_forIn_range']
    refine forIn_two _ ?len _ _ (0 + (serializeFrameFrom rep0 a bs x).size, 0, x, (#[] : Array Frame.FrameTrace).push tr, true) _ ?h1 ?h2
    case len => simp only [List.length_range', Std.Legacy.Range.size]; omega
    case h1 =>
      intro i
      have h4 : decide ((serializeFrameFrom rep0 a bs x).size ≥ 4) = true := by simp only [decide_eq_true_eq]; omega
      simp only [hmg, hdf, h4, if_true]
      rw [if_neg (by omega)]
      simp only [show Frame.isLegacyMagic ZSTD_MAGICNUMBER = false from by decide, Bool.false_eq_true, if_false,
        show (ZSTD_MAGICNUMBER &&& ZSTD_MAGIC_SKIPPABLE_MASK == ZSTD_MAGIC_SKIPPABLE_START) = false from by decide]
      rw [Nat.sub_self]
    case h2 =>
      intro i
      simp only [if_pos (show (0 : Nat) < 5 by omega)]
      rw [Nat.zero_add]
      rfl
  clear hloop
  subst hL
  simp only [bne_self_eq_false, Bool.false_eq_true, if_false]
  exact ⟨_, rfl⟩

/-- `BlockRT.frame_roundtrip_compressed` is the instance `rep0 = repStartValue`, dictionary ID absent or 0 -/
theorem frame_roundtrip_compressed_inst (a : HArgs) (bs : List BlockChoice2) (x : ByteArray) (dict : Frame.Dict)
    (hok : BlockRT.FrameOK2 dict.content a bs x) (hrep0 : repOf dict.ent.rep = repStart)
    (cap : Nat) (hcap : x.size ≤ cap) (o : Frame.Opts) (hml : o.magicless = false) (hmb : o.maxBlockSize = 0) :
    ∃ traces, Frame.decompressAll (serializeFrame2 a bs x) dict cap o = .ok (x, traces) :=
  frame_roundtrip_from repStart ⟨by decide, by decide, by decide⟩ a bs x dict
    ⟨hok.1, hok.2.1.elim Or.inl (fun h => Or.inr (Or.inl h)), hok.2.2.1, hok.2.2.2.1, hok.2.2.2.2⟩ hrep0 cap hcap o hml hmb

/-! ### what the dictionary loader guarantees -/

/-- a successful structural parse of the entropy section read exactly three repeat offsets and leaves `contentSize` bytes of content
behind them (ZSTD_loadDEntropy: `dictContentSize = dictEnd - (dictPtr + 12)`) -/
theorem parseEntropy_ok {d : Bytes} {p : Dict.Parsed} (h : Dict.parseEntropy d = .ok p) :
    ∃ r0 r1 r2, p.reps = [r0, r1, r2] ∧ p.contentStart ≤ d.size ∧ p.contentSize = d.size - p.contentStart := by
  unfold Dict.parseEntropy at h
  simp only [bind, Except.bind, pure, Except.pure, Dict.corrupt] at h
  repeat' split at h
  all_goals first | (cases h; done) | skip
  all_goals (rename_i hle; cases h; exact ⟨_, _, _, rfl, by simp only; omega, rfl⟩)

theorem classify_full {d : Bytes} {p : Dict.Parsed} (h : Dict.classify d = .full p) :
    Dict.isRaw d = false ∧ Dict.parseEntropy d = .ok p ∧ Dict.repsOk p = true := by
  unfold Dict.classify at h
  by_cases hr : Dict.isRaw d
  · simp [hr] at h
  · simp only [hr] at h
    generalize hpe : Dict.parseEntropy d = pe at h
    cases pe with
    | error w => simp at h
    | ok q =>
      simp only at h
      by_cases hq : Dict.repsOk q
      · simp only [hq, if_true] at h
        cases h
        exact ⟨by simpa using hr, rfl, hq⟩
      · simp [hq] at h

theorem classify_raw {d : Bytes} (h : Dict.classify d = .raw) : Dict.isRaw d = true := by
  unfold Dict.classify at h
  by_cases hr : Dict.isRaw d
  · exact hr
  · simp only [hr] at h
    generalize Dict.parseEntropy d = pe at h
    cases pe with
    | error w => simp at h
    | ok q =>
      simp only at h
      by_cases hq : Dict.repsOk q <;> simp [hq] at h

/-- the two ways `Dict.loadD` (ZSTD_decompress_insertDictionary) succeeds: raw content (no magic / shorter than 8 bytes: ID 0, the
bytes themselves, start history {1, 4, 8}), or a formatted dictionary whose entropy section parsed (ZSTD_loadDEntropy) -/
theorem loadD_cases {d : Bytes} {D : Frame.Dict} (h : Dict.loadD d = .ok D) :
    (Dict.classify d = .raw ∧ D = { id := 0, content := d }) ∨ (∃ p, Dict.classify d = .full p ∧ D = Dict.fullDict d p) := by
  unfold Dict.loadD at h
  split at h
  · rename_i hc; exact Or.inl ⟨hc, (Except.ok.inj h).symm⟩
  · cases h
  · rename_i p hc; exact Or.inr ⟨p, hc, (Except.ok.inj h).symm⟩

/-- **loadD_reps_ok**: whatever dictionary `Dict.loadD` accepts, the repeat-offset history it installs is positive (so the first
sequences of a frame may use repeat codes, `BlockRT.block_roundtrip` applies), and
* for a raw-content dictionary it is `repStartValue` = {1, 4, 8}, the ID is 0, the content is the whole buffer
  (the offsets are NOT bounded by the content size: a 3-byte raw dictionary still starts from {1, 4, 8});
* for a formatted dictionary each of the three offsets is at most the size of the dictionary content
  (ZSTD_loadDEntropy: `RETURN_ERROR_IF(rep==0 || rep > dictContentSize, dictionary_corrupted)`), and the ID is the 32-bit field at offset 4 -/
theorem loadD_reps_ok {d : Bytes} {D : Frame.Dict} (h : Dict.loadD d = .ok D) :
    RepPos (dictRep D) ∧
    ((Dict.isRaw d = true ∧ D.id = 0 ∧ D.content = d ∧ dictRep D = repStart) ∨
     (Dict.isRaw d = false ∧ D.id = d.le32 4 ∧
       (dictRep D).r0 ≤ D.content.size ∧ (dictRep D).r1 ≤ D.content.size ∧ (dictRep D).r2 ≤ D.content.size)) := by
  rcases loadD_cases h with ⟨hc, rfl⟩ | ⟨p, hc, rfl⟩
  · have hrep : dictRep { id := 0, content := d } = repStart := rfl
    rw [hrep]
    exact ⟨⟨by decide, by decide, by decide⟩, Or.inl ⟨classify_raw hc, rfl, rfl, rfl⟩⟩
  · obtain ⟨c1, c2, c3⟩ := classify_full hc
    obtain ⟨r0, r1, r2, e1, e2, e3⟩ := parseEntropy_ok c2
    have hrep : dictRep (Dict.fullDict d p) = ⟨r0, r1, r2⟩ := by
      unfold dictRep Dict.fullDict
      simp only [e1]
      rfl
    have hcs : (Dict.fullDict d p).content.size = p.contentSize := by
      unfold Dict.fullDict
      simp only [ByteArray.size_extract]
      omega
    unfold Dict.repsOk at c3
    rw [e1] at c3
    simp only [List.all_cons, List.all_nil, Bool.and_true, Bool.and_eq_true, bne_iff_ne, ne_eq, decide_eq_true_eq] at c3
    rw [hrep, hcs]
    exact ⟨⟨by simp only; omega, by simp only; omega, by simp only; omega⟩,
      Or.inr ⟨c1, rfl, by simp only; omega, by simp only; omega, by simp only; omega⟩⟩

/-! ### MAIN: the dictionary round trip -/

/-- **dict_roundtrip** (C08).  For EVERY dictionary buffer `d` the decoder-side loader accepts (`Dict.loadD d = .ok D`: raw-content
dictionaries and formatted ones with Huffman table, three FSE tables and three checked repeat offsets), every input `x`, every accepted
header-argument tuple whose dictionary-ID field is absent, 0, or the dictionary's ID (what ZSTD_writeFrameHeader gets from
ZSTD_compress_insertDictionary), and EVERY tiling of `x` into raw / RLE / compressed blocks whose parses are valid against the history
`D.content ++ (frame content so far)` - matches may reach into the dictionary, and the first sequences may use the dictionary's
repeat offsets, since the serializer starts its history at them (`serializeFrameDict`) - ZSTD_decompress_usingDict
(`Frame.decompressAll … D cap o`) returns exactly `x`, for every capacity that can hold it.
(Scope of the block writer as in `BlockRT.frame_roundtrip_compressed`: each sequence table predefined / RLE / described by
FSE_writeNCount (`set_compressed`) / repeated from the previous block WITH SEQUENCES OF THE SAME FRAME (`set_repeat`; the block list
starts with `prev = none`), literals raw / RLE / Huffman-direct.  The dictionary's own entropy tables are loaded by the decoder
(`EntMatch none` claims nothing about them) but never referenced by these frames: repeating the DICTIONARY's tables in the first
block, and treeless literals, are not produced by this writer.) -/
theorem dict_roundtrip (d : Bytes) (D : Frame.Dict) (hload : Dict.loadD d = .ok D)
    (a : HArgs) (bs : List BlockChoice2) (x : ByteArray) (hok : FrameOKFrom D.content D.id (dictRep D) a bs x)
    (cap : Nat) (hcap : x.size ≤ cap) (o : Frame.Opts) (hml : o.magicless = false) (hmb : o.maxBlockSize = 0) :
    ∃ traces, Frame.decompressAll (serializeFrameDict D a bs x) D cap o = .ok (x, traces) :=
  frame_roundtrip_from (dictRep D) (loadD_reps_ok hload).1 a bs x D hok rfl cap hcap o hml hmb

/-! ### a frame that names another dictionary -/

/-- `Frame.decompressFrame` (ZSTD_decompressFrame → ZSTD_decodeFrameHeader: `RETURN_ERROR_IF(dctx->fParams.dictID && (dctx->dictID !=
dctx->fParams.dictID), dictionary_wrong)`) refuses a serialized frame whose header names a dictionary ID other than the loaded one
(a decoder without dictionary has ID 0), before looking at any block -/
theorem wrong_dict_refused_frame (rep0 : Rep.R) (a : HArgs) (ha : a.wf) (hnd : a.noDictID = false) (hid : a.dictID ≠ 0)
    (dict : Frame.Dict) (hne : dict.id ≠ a.dictID) (bs : List BlockChoice2) (x : ByteArray)
    {src : ByteArray} {ip0 : Nat} (r : Nat) (hsrc : Holds src ip0 (serializeFrameFrom rep0 a bs x))
    (out0 : ByteArray) (cap : Nat) (o : Frame.Opts) (hml : o.magicless = a.magicless) :
    Frame.decompressFrame src ip0 ((serializeFrameFrom rep0 a bs x).size + r) dict out0 cap o = .error .dictWrong := by
  rw [serializeFrameFrom_eq] at hsrc ⊢
  have hne2 := effBlocks2_ne bs
  generalize effBlocks2 bs = bs2 at hsrc hne2 ⊢
  obtain ⟨hd, g0, g1, hsk, gfcs, gws, gdid, gck⟩ := FrameRT.getHeader_serialized a ha hsrc
  have hH := FrameRT.writeHeader_length_ge a
  have hS := serializeBlocks2_size_ge x bs2 0 rep0
  have hlen : 1 ≤ bs2.length := by cases bs2 with | nil => exact absurd rfl hne2 | cons _ _ => simp
  have hfh : Frame.headerSizeOf (src.u8 (ip0 + if a.magicless = true then 0 else 4)) a.magicless = (writeHeader a).length := by
    rw [← g0]; cases a.magicless <;> rfl
  simp only [ByteArray.size_append, size_ofList]
  generalize hHn : (writeHeader a).length = H at *
  generalize hSn : (serializeBlocks2 x bs2 0 rep0).size = S at *
  generalize hCn : (FrameRT.checksumBytes a x).size = C at *
  unfold Frame.decompressFrame
  simp only [bind, Except.bind, pure, Except.pure, throw, throwThe, MonadExceptOf.throw]
  simp only [hml, hfh, g1, hsk, Bool.false_eq_true, if_false]
  rw [if_neg (by simp only [ZSTD_blockHeaderSize]; omega), if_neg (by simp only [ZSTD_blockHeaderSize]; omega)]
  have hdidT : (hd.dictID != 0 && dict.id != hd.dictID) = true := by
    rw [gdid, hnd]
    simp [hid, hne]
  simp only [hdidT, if_true]

theorem forIn_cons_error {α β : Type} (a : α) (l : List α) (f : α → β → R (ForInStep β)) (b : β) (e : Err) (h : f a b = .error e) :
    forIn (a :: l) b f = .error e := by
  rw [List.forIn_cons, h]; rfl

/-- **wrong_dict_refused_full** (C08): ZSTD_decompress_usingDict (`Frame.decompressAll`) on a serialized frame whose header carries a
dictionary ID ≠ 0, with a dictionary of ANOTHER ID loaded (or none: ID 0, or a raw-content dictionary), returns dictionary_wrong -
whatever the blocks of the frame are (no validity hypothesis), whatever the capacity.  The model-level rule is `Dict.dictIDCheck`
(`Props/C08.wrong_dict_refused`); this is the same verdict from the full decoder model on real frame bytes. -/
theorem wrong_dict_refused_full (rep0 : Rep.R) (a : HArgs) (ha : a.wf) (hnd : a.noDictID = false) (hid : a.dictID ≠ 0)
    (hm : a.magicless = false) (dict : Frame.Dict) (hne : dict.id ≠ a.dictID) (bs : List BlockChoice2) (x : ByteArray)
    (cap : Nat) (o : Frame.Opts) (hml : o.magicless = false) :
    Frame.decompressAll (serializeFrameFrom rep0 a bs x) dict cap o = .error .dictWrong := by
  have hh := FrameRT.holds_self (serializeFrameFrom rep0 a bs x)
  have hmg := frameFrom_magic hh hm
  have h5 := serializeFrameFrom_size_ge rep0 a bs x
  rw [hm] at h5
  simp only [Bool.false_eq_true, if_false] at h5
  have hdf := wrong_dict_refused_frame rep0 a ha hnd hid dict hne bs x 0 hh ByteArray.empty cap o (by rw [hml, hm])
  rw [Nat.add_zero] at hdf
  unfold Frame.decompressAll
  simp only [bind, Except.bind, pure, Except.pure, throw, throwThe, MonadExceptOf.throw, hml, Bool.false_eq_true, if_false, Bool.not_false,
    Bool.true_and]
  generalize hloop : forIn (m := R) (ρ := Std.Legacy.Range) _ _ _ = L
  have hL : L = .error .dictWrong := by
    rw [← hloop, Std.Legacy.Range.forIn_eq_forIn_range']
    generalize hl : List.range' _ _ _ = l
    have hlen : 1 ≤ l.length := by rw [← hl]; simp only [List.length_range', Std.Legacy.Range.size]; omega
    match l, hlen with
    | i :: rest, _ =>
      refine forIn_cons_error _ _ _ _ _ ?_
      have h4 : decide ((serializeFrameFrom rep0 a bs x).size ≥ 4) = true := by simp only [decide_eq_true_eq]; omega
      simp only [hmg, hdf, h4, if_true]
      rw [if_neg (by omega)]
      simp only [show Frame.isLegacyMagic ZSTD_MAGICNUMBER = false from by decide, Bool.false_eq_true, if_false,
        show (ZSTD_MAGICNUMBER &&& ZSTD_MAGIC_SKIPPABLE_MASK == ZSTD_MAGIC_SKIPPABLE_START) = false from by decide]
  clear hloop
  subst hL
  rfl

/-! ### non-vacuity: a 5-byte raw-content dictionary "abcde"; the 9-byte input "dedeXabc!" is ONE compressed block parsed as
  match(distance 2, length 4) - starts 2 bytes inside the dictionary, runs over the dictionary / frame boundary and overlaps its own output,
  literal "X", match(distance 10, length 3) - entirely inside the dictionary ("abc"), last literal "!". -/

def demoDict : ByteArray := ofList [0x61, 0x62, 0x63, 0x64, 0x65]
def demoD : Frame.Dict := { id := 0, content := demoDict }
def demoX : ByteArray := ofList [0x64, 0x65, 0x64, 0x65, 0x58, 0x61, 0x62, 0x63, 0x21]
def demoLits : ByteArray := ofList [0x58, 0x21]
def demoRaws : List BlockEnc.RawSeq := [⟨0, 1, 2⟩, ⟨1, 0, 10⟩]
def demoBlocks : List BlockChoice2 := [.compressed .raw {} demoLits demoRaws]
def demoArgs (ck : Bool) (id : Nat) : HArgs := ⟨10, 0, false, id, false, ck, false⟩

/-- the loader takes the 5 bytes as a raw-content dictionary -/
theorem demo_load : Dict.loadD demoDict = .ok demoD := by
  have h : Dict.classify demoDict = .raw := by
    unfold Dict.classify
    rw [if_pos (by decide)]
  unfold Dict.loadD
  rw [h]
  rfl

theorem demo_tiles : Tiles2 demoDict 1024 demoX demoBlocks 0 repStart := by
  simp only [demoBlocks, Tiles2, BlockRT.LitOK]
  decide +kernel

theorem demo_ok (ck : Bool) (id : Nat) (hid : id < 2 ^ 32) :
    FrameOKFrom demoD.content id (dictRep demoD) (demoArgs ck id) demoBlocks demoX := by
  have hwf : (demoArgs ck id).wf := by
    unfold HArgs.wf demoArgs
    simp only [ZSTD_WINDOWLOG_ABSOLUTEMIN, ZSTD_WINDOWLOG_MAX]
    omega
  refine ⟨hwf, Or.inr (Or.inr rfl), rfl, (fun h => by cases h), ?_⟩
  have hb : FrameRT.blockSizeMaxOf (demoArgs ck id) = 1024 := by
    unfold FrameRT.blockSizeMaxOf HeaderW.single demoArgs
    simp [ZSTD_BLOCKSIZE_MAX]
  rw [hb]
  exact demo_tiles

/-- the theorem applies (checksum on): the frame decodes to the input with the dictionary … -/
example : ∃ tr, Frame.decompressAll (serializeFrameDict demoD (demoArgs true 0) demoBlocks demoX) demoD 9 {} = .ok (demoX, tr) :=
  dict_roundtrip demoDict demoD demo_load (demoArgs true 0) demoBlocks demoX (demo_ok true 0 (by decide)) 9 (by decide) {} rfl rfl

/-- … these are its bytes without checksum (header 6, block header 3, body 10 = raw literals "X!" + 2 sequences) … -/
example : (serializeFrameDict demoD (demoArgs false 0) demoBlocks demoX).data =
    #[0x28, 0xb5, 0x2f, 0xfd, 0x00, 0x00, 0x55, 0x00, 0x00, 0x10, 0x58, 0x21, 0x02, 0x00, 0x2d, 0x20, 0x05, 0x0e, 0x08] := by
  decide +kernel

/-- … the decoder model evaluated on them agrees … -/
example : (match Frame.decompressAll (serializeFrameDict demoD (demoArgs false 0) demoBlocks demoX) demoD 9 {} with
    | .ok (y, _) => some y.data | .error _ => none) = some demoX.data := by decide +kernel

/-- … and WITHOUT the dictionary the same bytes are refused (the first match reaches before the start of the frame): the
dictionary content really is used -/
example : (match Frame.decompressAll (serializeFrameDict demoD (demoArgs false 0) demoBlocks demoX) {} 9 {} with
    | .ok _ => true | .error _ => false) = false := by decide +kernel

/-- the same frame announcing dictionary ID 7 is refused under the ID-0 dictionary (and under no dictionary) … -/
example : Frame.decompressAll (serializeFrameDict demoD (demoArgs true 7) demoBlocks demoX) demoD 9 {} = .error .dictWrong :=
  wrong_dict_refused_full _ _ (by unfold HArgs.wf; decide) rfl (by decide) rfl demoD (by decide) _ _ 9 {} rfl

/-- … and accepted again under a dictionary that carries ID 7 (same content, same history) -/
example : ∃ tr, Frame.decompressAll (serializeFrameFrom repStart (demoArgs true 7) demoBlocks demoX)
    { demoD with id := 7 } 9 {} = .ok (demoX, tr) :=
  frame_roundtrip_from repStart ⟨by decide, by decide, by decide⟩ _ _ _ { demoD with id := 7 } (demo_ok true 7 (by decide)) rfl 9
    (by decide) {} rfl rfl

/-! ### non-vacuity, FORMATTED dictionary: magic, ID 77, a 2-symbol Huffman table, three FSE tables of accuracy 5 (written by the Python
port of FSE_writeNCount in tools/dictgen.py), repeat offsets {5, 2, 3}, content "abcde" (85 bytes).  The 8-byte input "Xbcdcdc!" is one
compressed block whose two matches are BOTH coded as repeat offsets of the dictionary's history:
  literal "X", match(distance 5 = rep[0], length 3, inside the dictionary: "bcd"), match(distance 2 = rep[1] with litLength 0,
  length 3, overlapping: "cdc"), last literal "!".  With the start history {1, 4, 8} the decoder would resolve these codes differently. -/

def fmtDict : ByteArray := ofList [0x37, 0xa4, 0x30, 0xec, 0x4d, 0x00, 0x00, 0x00, 0x80, 0x10, 0x00, 0x02, 0x20, 0x20, 0x84, 0x90, 0x40, 0x44,
  0x44, 0x44, 0x24, 0x10, 0x09, 0x24, 0x90, 0x40, 0xa2, 0x07, 0x20, 0x44, 0x48, 0x88, 0x38, 0x21, 0x12, 0x08, 0x04, 0x22, 0x91, 0x84, 0x22,
  0x22, 0x32, 0xc8, 0x88, 0x14, 0x14, 0x14, 0x24, 0xc9, 0x10, 0x10, 0x32, 0x12, 0x40, 0x20, 0x22, 0x23, 0x02, 0x23, 0x81, 0x48, 0x94, 0x24,
  0x05, 0x69, 0x92, 0x0e, 0x05, 0x00, 0x00, 0x00, 0x02, 0x00, 0x00, 0x00, 0x03, 0x00, 0x00, 0x00, 0x61, 0x62, 0x63, 0x64, 0x65]
def fmtX : ByteArray := ofList [0x58, 0x62, 0x63, 0x64, 0x63, 0x64, 0x63, 0x21]
def fmtRaws : List BlockEnc.RawSeq := [⟨1, 0, 5⟩, ⟨0, 0, 2⟩]
def fmtBlocks : List BlockChoice2 := [.compressed .raw {} demoLits fmtRaws]

/-- the loader model accepts the 85 bytes as a formatted dictionary: ID 77, content "abcde", history {5, 2, 3} (kernel evaluation of
HUF_readStats, 3 × FSE_readNCount and the repeat-offset checks of ZSTD_loadDEntropy) -/
theorem fmt_load : ∃ D, Dict.loadD fmtDict = .ok D ∧ D.id = 77 ∧ D.content = demoDict ∧ dictRep D = ⟨5, 2, 3⟩ := by
  have hchk : (match Dict.loadD fmtDict with
      | .ok D => D.id == 77 && D.content.data == demoDict.data && D.ent.rep == #[5, 2, 3]
      | .error _ => false) = true := by decide +kernel
  cases h : Dict.loadD fmtDict with
  | error e => rw [h] at hchk; cases hchk
  | ok D =>
    rw [h] at hchk
    simp only [Bool.and_eq_true, beq_iff_eq] at hchk
    obtain ⟨⟨h1, h2⟩, h3⟩ := hchk
    refine ⟨D, rfl, h1, ByteArray.ext h2, ?_⟩
    unfold dictRep
    rw [h3]
    rfl

/-- both matches become repeat codes (offBase 1) along the dictionary's history -/
example : (BlockEnc.storeAll ⟨5, 2, 3⟩ fmtRaws).1 = [⟨1, 0, 1⟩, ⟨0, 0, 1⟩] := by decide

theorem fmt_tiles : Tiles2 demoDict 1024 fmtX fmtBlocks 0 ⟨5, 2, 3⟩ := by
  simp only [fmtBlocks, Tiles2, BlockRT.LitOK]
  decide +kernel

/-- `dict_roundtrip` applies to the formatted dictionary: header dictID = 77 = the dictionary's ID, checksum on -/
theorem fmt_roundtrip : ∃ D, Dict.loadD fmtDict = .ok D ∧ D.id = 77 ∧
    ∃ tr, Frame.decompressAll (serializeFrameDict D (demoArgs true 77) fmtBlocks fmtX) D 8 {} = .ok (fmtX, tr) := by
  obtain ⟨D, hl, hid, hc, hr⟩ := fmt_load
  refine ⟨D, hl, hid, dict_roundtrip fmtDict D hl (demoArgs true 77) fmtBlocks fmtX ?_ 8 (by decide) {} rfl rfl⟩
  obtain ⟨k1, -, k3, k4, -⟩ := demo_ok true 77 (by decide)
  refine ⟨k1, Or.inr (Or.inr hid.symm), k3, (fun h => by cases h), ?_⟩
  have hb : FrameRT.blockSizeMaxOf (demoArgs true 77) = 1024 := by decide
  rw [hb, hc, hr]
  exact fmt_tiles

/-- the bytes (no checksum): dictID field 0x4d in the header, two sequences coded as repeat offsets -/
example : (serializeFrameFrom ⟨5, 2, 3⟩ (demoArgs false 77) fmtBlocks fmtX).data =
    #[0x28, 0xb5, 0x2f, 0xfd, 0x01, 0x00, 0x4d, 0x55, 0x00, 0x00, 0x10, 0x58, 0x21, 0x02, 0x00, 0x00, 0x00, 0x00, 0x5c, 0x01] := by
  decide +kernel

/-- the decoder model evaluated on them with the loaded dictionary returns the input; with the raw-content dictionary of the same
content (ID 0) the frame is refused: dictionary_wrong -/
example : (match Dict.loadD fmtDict with
    | .ok D => (match Frame.decompressAll (serializeFrameFrom ⟨5, 2, 3⟩ (demoArgs false 77) fmtBlocks fmtX) D 8 {} with
      | .ok (y, _) => some y.data | .error _ => none)
    | .error _ => none) = some fmtX.data := by decide +kernel

example : Frame.decompressAll (serializeFrameFrom ⟨5, 2, 3⟩ (demoArgs false 77) fmtBlocks fmtX) demoD 8 {} = .error .dictWrong :=
  wrong_dict_refused_full _ _ (demo_ok false 77 (by decide)).1 rfl (by decide) rfl demoD (by decide) _ _ 8 {} rfl

/-! ### non-vacuity, `set_compressed` and `set_repeat` under the formatted dictionary: the 26-byte input "XbcdYZcdYZcd!" "Pcd!QR!QR!QR?"
as two compressed blocks.  Block 1 DESCRIBES its three tables (`BlockRT.demoFse`: FSE_writeNCount of LL {1, 2}, OF {0, 2}, ML {0, 3});
its first match is the dictionary's repeat offset 5 reaching into the dictionary ("bcd").  Block 2 REPEATS the tables of block 1
(modes byte 0xfc) - NOT the tables of the dictionary, which the decoder holds (`fseEntropy = 1` after ZSTD_loadDEntropy) but which a
frame of this writer never asks for: the block list starts with `prev = none`, so `Tiles2` only admits `set_repeat` behind a block
of the same frame that has sequences.  ZSTD_decompress_usingDict (v1.5.7) regenerates the input from the 42 bytes below. -/

def rptX : ByteArray := ofList [0x58, 0x62, 0x63, 0x64, 0x59, 0x5a, 0x63, 0x64, 0x59, 0x5a, 0x63, 0x64, 0x21,
  0x50, 0x63, 0x64, 0x21, 0x51, 0x52, 0x21, 0x51, 0x52, 0x21, 0x51, 0x52, 0x3f]
def rptBlocks : List BlockChoice2 :=
  [.compressed .raw BlockRT.demoFse (ofList [0x58, 0x59, 0x5a, 0x21]) [⟨1, 0, 5⟩, ⟨2, 3, 4⟩],
   .compressed .raw BlockRT.demoRep (ofList [0x50, 0x51, 0x52, 0x3f]) [⟨1, 0, 4⟩, ⟨2, 3, 3⟩]]

theorem rpt_tiles : Tiles2 demoDict 1024 rptX rptBlocks 0 ⟨5, 2, 3⟩ := by
  simp only [rptBlocks, Tiles2, BlockRT.LitOK]
  refine ⟨?_, ?_, ?_, ?_, ?_, ?_, ?_, ?_, ?_, ?_, ?_, ?_, ?_, ?_, ?_, ?_, ?_, ?_, ?_⟩
  all_goals decide +kernel

/-- `dict_roundtrip` applies: described and repeated tables, formatted dictionary, checksum on -/
theorem rpt_roundtrip : ∃ D, Dict.loadD fmtDict = .ok D ∧
    ∃ tr, Frame.decompressAll (serializeFrameDict D (demoArgs true 77) rptBlocks rptX) D 26 {} = .ok (rptX, tr) := by
  obtain ⟨D, hl, hid, hc, hr⟩ := fmt_load
  refine ⟨D, hl, dict_roundtrip fmtDict D hl (demoArgs true 77) rptBlocks rptX ?_ 26 (by decide) {} rfl rfl⟩
  obtain ⟨k1, -, k3, k4, -⟩ := demo_ok true 77 (by decide)
  refine ⟨k1, Or.inr (Or.inr hid.symm), k3, (fun h => by cases h), ?_⟩
  have hb : FrameRT.blockSizeMaxOf (demoArgs true 77) = 1024 := by decide
  rw [hb, hc, hr]
  exact rpt_tiles

example : (serializeFrameFrom ⟨5, 2, 3⟩ (demoArgs false 77) rptBlocks rptX).data =
    #[0x28, 0xb5, 0x2f, 0xfd, 0x01, 0x00, 0x4d, 0x9c, 0x00, 0x00, 0x20, 0x58, 0x59, 0x5a, 0x21, 0x02, 0xa8, 0x10, 0x88, 0x1f, 0x10, 0x83,
      0x0f, 0x10, 0xa3, 0x0f, 0x3f, 0x84, 0x10, 0x55, 0x00, 0x00, 0x20, 0x50, 0x51, 0x52, 0x3f, 0x02, 0xfc, 0x3e, 0x84, 0x10] := by
  decide +kernel

end ZstdVerif.DictRT
