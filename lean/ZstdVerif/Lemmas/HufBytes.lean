/-
The Huffman stream round trip at BYTE level.  `HufRT.stream_roundtrip` works on an abstract stack of bits; here the stack is tied
to the byte-level bit writer (`BitW.ofFields`, bitstream.h BIT_addBits / BIT_flushBits / BIT_closeCStream) and the backward bit
reader (`BitR`, BIT_initDStream / BIT_lookBits / BIT_skipBits): `BitR.peek` / `BitR.skip` compute what `HufRT.peekBits` /
`BitStack.skip` compute on the stack of the written fields.  Hence `Huf.decode1` (HUF_decompress1X1_usingDTable_internal) and
`Huf.decode4` (HUF_decompress4X1_usingDTable_internal) read back, from the bytes the encoder emits, exactly the literals, without
any `lax` verdict.
-/
import ZstdVerif.Lemmas.HufRT
import ZstdVerif.Lemmas.BitsRT
namespace ZstdVerif.HufBytes
open ZstdVerif.HufEnc ZstdVerif.Huf ZstdVerif.HufRT ZstdVerif.BitW

/-! ### numeric value of a stack of bits -/

/-- the top `k ≤ length` bits of a stack are the high part of its value -/
theorem peekBits_le (bs : List Bool) (k : Nat) (h : k ≤ bs.length) :
    peekBits k bs = peekBits bs.length bs / 2 ^ (bs.length - k) := by
  induction bs generalizing k with
  | nil =>
    have : k = 0 := by simpa using h
    subst this; simp [peekBits]
  | cons b bs ih =>
    have hV := peekBits_lt bs.length bs
    cases k with
    | zero =>
      simp only [peekBits, List.length_cons, Nat.sub_zero]
      rw [Nat.div_eq_of_lt]
      rw [Nat.pow_succ]
      cases b <;> simp <;> omega
    | succ k =>
      simp only [List.length_cons, Nat.add_le_add_iff_right] at h
      simp only [peekBits, List.length_cons, Nat.add_sub_add_right, ih k h]
      have e : 2 ^ bs.length = 2 ^ k * 2 ^ (bs.length - k) := by rw [← Nat.pow_add]; congr 1; omega
      rw [e, ← Nat.mul_assoc, Nat.add_comm (_ * _) (peekBits _ _), Nat.add_mul_div_right _ _ (Nat.two_pow_pos _), Nat.add_comm]

/-- peeking deeper than the stack: zero bits below the bottom -/
theorem peekBits_ge (bs : List Bool) (k : Nat) (h : bs.length ≤ k) :
    peekBits k bs = peekBits bs.length bs * 2 ^ (k - bs.length) := by
  induction bs generalizing k with
  | nil => cases k <;> simp [peekBits]
  | cons b bs ih =>
    cases k with
    | zero => simp at h
    | succ k =>
      simp only [List.length_cons, Nat.add_le_add_iff_right] at h
      simp only [peekBits, List.length_cons, Nat.add_sub_add_right, ih k h, Nat.add_mul]
      have e : 2 ^ k = 2 ^ bs.length * 2 ^ (k - bs.length) := by rw [← Nat.pow_add]; congr 1; omega
      rw [e, Nat.mul_assoc]

/-- dropping the top `k` bits keeps the low part of the value -/
theorem peekBits_drop (bs : List Bool) (k : Nat) (h : k ≤ bs.length) :
    peekBits (bs.length - k) (bs.drop k) = peekBits bs.length bs % 2 ^ (bs.length - k) := by
  induction k generalizing bs with
  | zero => simp [Nat.mod_eq_of_lt (peekBits_lt _ _)]
  | succ k ih =>
    cases bs with
    | nil => simp at h
    | cons b bs =>
      simp only [List.length_cons, Nat.add_le_add_iff_right] at h
      simp only [List.drop_succ_cons, List.length_cons, Nat.add_sub_add_right, ih bs h, peekBits]
      have e : 2 ^ bs.length = 2 ^ k * 2 ^ (bs.length - k) := by rw [← Nat.pow_add]; congr 1; omega
      rw [e, ← Nat.mul_assoc, Nat.mul_add_mod_self_right]


/-! ### the bridge: a byte-level reader simulates the bit stack -/

/-- the reader `r`, working on a stream of `len` bytes, is in the state described by the bit stack `st`: same sticky flag, as many
bits left as the stack holds, and the unread low part of the stream value is the value of the stack -/
structure Sim (len : Nat) (r : BitR) (st : BitStack) : Prop where
  over : r.over = st.over
  left : r.left = st.bits.length
  fits : r.left ≤ 8 * len
  val : r.src.toNatLE r.start len % 2 ^ r.left = peekBits st.bits.length st.bits

/-- BRIDGE (look).  `BitR.peek` (BIT_lookBitsFast on a reloaded container, zero bits below the start of the stream) computes
`peekBits` of the simulated stack, for every width the 64-bit loads support -/
theorem peek_sim {len : Nat} {r : BitR} {st : BitStack} (h : Sim len r st) (k : Nat) (hk : k ≤ 56) :
    r.peek k = st.peek k := by
  obtain ⟨_, hl, hf, hv⟩ := h
  unfold BitR.peek BitStack.peek
  split
  · next hle =>
    rw [BitR.field_eq r.src r.start len _ _ hk (by omega), peekBits_le _ _ (by omega), ← hv, ← hl]
    have e : 2 ^ r.left = 2 ^ (r.left - k) * 2 ^ k := by rw [← Nat.pow_add]; congr 1; omega
    rw [e, Nat.mod_mul_right_div_self]
  · next hle =>
    rw [BitR.field_eq r.src r.start len _ _ (by omega) (by omega), peekBits_ge _ _ (by omega), ← hv, ← hl,
      Nat.pow_zero, Nat.div_one, Nat.shiftLeft_eq]

/-- BRIDGE (consume).  `BitR.skip` (BIT_skipBits, with the sticky overflow flag) follows `BitStack.skip` -/
theorem skip_sim {len : Nat} {r : BitR} {st : BitStack} (h : Sim len r st) (k : Nat) :
    Sim len (r.skip k) (st.skip k) := by
  obtain ⟨ho, hl, hf, hv⟩ := h
  unfold BitR.skip BitStack.skip
  rw [← hl]
  split
  · next hle =>
    refine ⟨ho, by simp only [List.length_drop]; omega, by simp only []; omega, ?_⟩
    simp only [List.length_drop]
    rw [peekBits_drop _ _ (by omega), ← hv, ← hl]
    exact (Nat.mod_mod_of_dvd _ (Nat.pow_dvd_pow 2 (by omega))).symm
  · next hle =>
    exact ⟨rfl, rfl, Nat.zero_le _, by simp [Nat.mod_one, peekBits]⟩

theorem skip_src (r : BitR) (k : Nat) : (r.skip k).src = r.src ∧ (r.skip k).start = r.start := by
  unfold BitR.skip; split <;> exact ⟨rfl, rfl⟩

/-- the bits of a field list given last-written first, and their value -/
theorem stackBits_length (fs : List (Nat × Nat)) : (stackBits fs).length = totalBits fs := by
  unfold stackBits
  rw [← totalBits_reverse]
  induction fs.reverse with
  | nil => rfl
  | cons f gs ih => simp only [List.flatMap_cons, List.length_append, bitsMSB_length, totalBits, ih]

theorem stackBits_value (fs : List (Nat × Nat)) :
    peekBits (stackBits fs).length (stackBits fs) = fieldsValFrom 0 fs := by
  rw [stackBits_length, ← valRev_reverse, ← totalBits_reverse]
  unfold stackBits
  induction fs.reverse with
  | nil => rfl
  | cons f gs ih =>
    have hlen : (gs.flatMap fun f => bitsMSB f.1 f.2).length = totalBits gs := by
      have := stackBits_length gs.reverse
      rwa [stackBits, List.reverse_reverse, totalBits_reverse] at this
    simp only [List.flatMap_cons, totalBits, valRev, peekBits_field, ih]
    omega

/-- BRIDGE (start).  BIT_initDStream on the bytes of `BitW.ofFields fs`, embedded at `start` in `src` (whatever precedes and
follows), yields a reader that simulates the stack of the written fields `stackBits fs` (last written field on top) -/
theorem init_sim (fs : List (Nat × Nat)) (src : Bytes) (start : Nat)
    (hsrc : src.extract start (start + (ofFields fs).size) = ofFields fs) :
    ∃ r0, BitR.init src start (ofFields fs).size = .ok r0 ∧
      Sim (ofFields fs).size r0 { bits := stackBits fs, over := false } := by
  obtain ⟨hsize, hval, _⟩ := bytes_value fs
  obtain ⟨hlo, hhi⟩ := streamVal_bounds fs
  have hlen : (ofFields fs).size = totalBits fs / 8 + 1 := by omega
  have hS : src.toNatLE start (totalBits fs / 8 + 1) = streamVal fs := by
    rw [← hval, hlen]
    apply ByteArray.toNatLE_congr
    intro i hi
    have hs : (src.extract start (start + (totalBits fs / 8 + 1))).size = totalBits fs / 8 + 1 := by
      rw [← hlen, hsrc]
    have := ByteArray.u8_extract src start (totalBits fs / 8 + 1) i hs hi
    rw [← hlen, hsrc] at this
    rw [this, Nat.zero_add]
  have hinit := BitR.init_eq src start (totalBits fs) (by rw [hS]; exact hlo) (by rw [hS]; exact hhi)
  refine ⟨_, by rw [hlen]; exact hinit, rfl, (stackBits_length fs).symm, by simp only []; omega, ?_⟩
  simp only [hlen, hS, stackBits_value, streamVal, Nat.add_mod_right]
  have := fieldsValFrom_lt 0 fs
  rw [Nat.pow_zero, Nat.zero_add] at this
  exact Nat.mod_eq_of_lt (by omega)


/-! ### the decoding loop of `Huf.decode1` -/

/-- the literals as bytes -/
def litBytes (l : List Nat) : ByteArray := (l.map UInt8.ofNat).toByteArray

theorem litBytes_nil : litBytes [] = ByteArray.empty := rfl

theorem litBytes_size (l : List Nat) : (litBytes l).size = l.length := by
  simp [litBytes, List.size_toByteArray]

theorem litBytes_append (a b : List Nat) : litBytes (a ++ b) = litBytes a ++ litBytes b := by
  simp only [litBytes, List.map_append, List.toByteArray_append]

theorem push_litBytes (o : ByteArray) (x : Nat) (l : List Nat) :
    o.push (UInt8.ofNat x) ++ litBytes l = o ++ litBytes (x :: l) := by
  unfold litBytes
  rw [List.map_cons, ← List.singleton_append, List.toByteArray_append, ← ByteArray.append_assoc,
    ByteArray.append_toByteArray_singleton]

theorem skip_over_sticky (st : BitStack) (k : Nat) (h : st.over = true) : (st.skip k).over = true := by
  unfold BitStack.skip; split
  · exact h
  · rfl

theorem decodeLoop_over_sticky (t : Table) (n : Nat) (st : BitStack) (h : st.over = true) :
    (decodeLoop t n st).2.over = true := by
  induction n generalizing st with
  | zero => exact h
  | succ n ih => exact ih _ (skip_over_sticky _ _ h)

/-- the `for` loop of `Huf.decode1` (`f` is its body: look `tableLog` bits, table cell, consume `nbBits`, remember an early
over-read, push the symbol) run on a reader that simulates the stack `st` is `HufRT.decodeLoop` on `st` -/
theorem loop_sim (t : Table) (hlog : t.log ≤ 56) (len n : Nat)
    (f : Nat → BitR × ByteArray × Bool → R (ForInStep (BitR × ByteArray × Bool)))
    (hf : ∀ i s, f i s = .ok (.yield (s.1.skip t.cells[s.1.peek t.log]!.2,
        s.2.1.push (UInt8.ofNat t.cells[s.1.peek t.log]!.1),
        if ((s.1.skip t.cells[s.1.peek t.log]!.2).over && decide (i + 1 < n)) = true then true else s.2.2)))
    (k i : Nat) (r : BitR) (o : ByteArray) (oe : Bool) (st : BitStack) (hs : Sim len r st) :
    ∃ r1 oe1, forIn (List.range' i k) (r, o, oe) f = .ok (r1, o ++ litBytes (decodeLoop t k st).1, oe1) ∧
      Sim len r1 (decodeLoop t k st).2 ∧ (oe1 = true → oe = true ∨ (decodeLoop t k st).2.over = true) := by
  induction k generalizing i r o oe st with
  | zero =>
    refine ⟨r, oe, ?_, hs, Or.inl⟩
    simp only [List.range'_zero, List.forIn_nil, decodeLoop, litBytes_nil, ByteArray.append_empty]
    rfl
  | succ k ih =>
    have hs1 := skip_sim hs (t.cells[st.peek t.log]!.2)
    rw [List.range'_succ, List.forIn_cons, hf]
    simp only [peek_sim hs _ hlog, bind, Except.bind]
    obtain ⟨r1, oe1, h1, h2, h3⟩ := ih (i + 1) _ (o.push (UInt8.ofNat t.cells[st.peek t.log]!.1))
      (if ((r.skip t.cells[st.peek t.log]!.2).over && decide (i + 1 < n)) = true then true else oe) _ hs1
    refine ⟨r1, oe1, ?_, h2, ?_⟩
    · rw [h1, push_litBytes]; rfl
    · intro h
      rcases h3 h with h4 | h4
      · split at h4
        · next hc =>
          right
          simp only [Bool.and_eq_true] at hc
          exact decodeLoop_over_sticky t k (st.skip t.cells[st.peek t.log]!.2) (by rw [← hs1.over]; exact hc.1)
        · exact Or.inl h4
      · exact Or.inr h4


/-- `Huf.decode1` on a stream whose reader simulates the stack `st0`: when the abstract loop returns `syms` and leaves the stack
exactly empty without ever reading below its bottom, the byte-level decoder returns `out ++ syms` - no error and none of the `lax`
verdicts, whether or not the caller announces the 4-stream fast path -/
theorem decode1_of_sim (t : Table) (hlog : t.log ≤ 56) (src : Bytes) (start len n : Nat) (out : ByteArray) (fp : Bool)
    (r0 : BitR) (st0 : BitStack) (syms : List Nat) (hinit : BitR.init src start len = .ok r0) (hs : Sim len r0 st0)
    (hloop : decodeLoop t n st0 = (syms, { bits := [], over := false })) :
    decode1 t src start len n out fp = .ok (out ++ litBytes syms) := by
  unfold decode1
  simp only [bind, Except.bind, pure, Except.pure, throw, throwThe, MonadExceptOf.throw, hinit]
  rw [Std.Legacy.Range.forIn_eq_forIn_range']
  obtain ⟨r1, oe1, h1, h2, h3⟩ := loop_sim t hlog len n
    (fun i __s =>
      if ((__s.fst.skip t.cells[__s.fst.peek t.log]!.snd).over && decide (i + 1 < n)) = true then
        Except.ok (ForInStep.yield (__s.fst.skip t.cells[__s.fst.peek t.log]!.snd,
          __s.snd.fst.push (UInt8.ofNat t.cells[__s.fst.peek t.log]!.fst), true))
      else
        Except.ok (ForInStep.yield (__s.fst.skip t.cells[__s.fst.peek t.log]!.snd,
          __s.snd.fst.push (UInt8.ofNat t.cells[__s.fst.peek t.log]!.fst), __s.snd.snd)))
    (fun i s => by split <;> rfl) n 0 r0 out false st0 hs
  have hsz : ([:n] : Std.Legacy.Range).size = n := by simp [Std.Legacy.Range.size]
  simp only [hsz] at *
  rw [h1]
  rw [hloop] at h2 h3
  have hover : r1.over = false := h2.over
  have hleft : r1.left = 0 := h2.left
  have hoe : oe1 = false := by
    cases oe1 with
    | false => rfl
    | true => rcases h3 rfl with h | h <;> cases h
  simp [hover, hleft, hoe, hloop]

/-- MAIN THEOREM (one stream).  For weights satisfying `WeightsOK` (what `Huf.readStats` accepts) and every literal sequence whose
symbols have a non-zero weight: `Huf.decode1` with the table built from the weights, run on the bytes that the bit writer produces
from the encoder's fields (`HufEnc.encode1`, codes from `HufEnc.codesOf`), embedded at `start` in any `src`, returns exactly the
literals appended to `out` - no `lax` verdict, no error.  `log ≤ 56` is what the reader's 64-bit loads support; the format has
`log ≤ 12` (HUF_TABLELOG_MAX). -/
theorem huf_decode1_bytes_at {weights : Array Nat} {log : Nat} (ok : WeightsOK weights log) (hlog : log ≤ 56) (used : Nat)
    (lits : List Nat) (h : ∀ s ∈ lits, ∃ hs : s < weights.size, 0 < weights[s]) (src : Bytes) (start : Nat)
    (hsrc : src.extract start (start + (ofFields (encode1 (codesOf weights log) lits)).size)
      = ofFields (encode1 (codesOf weights log) lits))
    (out : ByteArray) (fp : Bool) :
    decode1 (buildTable ⟨weights, log, used⟩) src start (ofFields (encode1 (codesOf weights log) lits)).size lits.length out fp
      = .ok (out ++ litBytes lits) := by
  obtain ⟨r0, hinit, hs⟩ := init_sim (encode1 (codesOf weights log) lits) src start hsrc
  exact decode1_of_sim _ hlog src start _ _ out fp r0 _ lits hinit hs (stream_roundtrip ok used lits h)

/-- the stream alone: `src` is the encoder's output -/
theorem huf_decode1_bytes {weights : Array Nat} {log : Nat} (ok : WeightsOK weights log) (hlog : log ≤ 56) (used : Nat)
    (lits : List Nat) (h : ∀ s ∈ lits, ∃ hs : s < weights.size, 0 < weights[s]) (out : ByteArray) :
    decode1 (buildTable ⟨weights, log, used⟩) (ofFields (encode1 (codesOf weights log) lits)) 0
      (ofFields (encode1 (codesOf weights log) lits)).size lits.length out false = .ok (out ++ litBytes lits) :=
  huf_decode1_bytes_at ok hlog used lits h _ 0 (by rw [Nat.zero_add]; exact ByteArray.extract_zero_size) out false

/-- with the table of any weights header the decoder accepts (`tableLog ≤ 12` comes with it) -/
theorem huf_decode1_bytes_readStats (hsrc : Bytes) (hstart hn : Nat) (st : Stats)
    (hst : readStats hsrc hstart hn = .ok st) (lits : List Nat) (h : ∀ s ∈ lits, ∃ hs : s < st.weights.size, 0 < st.weights[s])
    (hlog : st.tableLog ≤ 56) (out : ByteArray) :
    decode1 (buildTable st) (ofFields (encode1 (codesOf st.weights st.tableLog) lits)) 0
      (ofFields (encode1 (codesOf st.weights st.tableLog) lits)).size lits.length out false = .ok (out ++ litBytes lits) :=
  huf_decode1_bytes (readStats_weightsOK hsrc hstart hn _ st hst) hlog st.used lits h out


/-! ### four streams -/

/-- a part of an embedded blob is embedded -/
theorem embedded_part {src : ByteArray} {s : Nat} (pre c post : ByteArray)
    (h : src.extract s (s + (pre ++ c ++ post).size) = pre ++ c ++ post) :
    src.extract (s + pre.size) (s + pre.size + c.size) = c := by
  have h2 : (pre ++ c ++ post).extract pre.size (pre.size + c.size) = c := by
    rw [ByteArray.extract_append, ByteArray.extract_append_eq_right rfl rfl]
    simp only [ByteArray.size_append, Nat.sub_self]
    rw [ByteArray.extract_eq_empty_iff.mpr (by omega), ByteArray.append_empty]
  rw [← h, ByteArray.extract_extract, Nat.min_eq_left (by simp only [ByteArray.size_append]; omega)] at h2
  rw [Nat.add_assoc]; exact h2

theorem u8_embedded {src blob : ByteArray} {s : Nat} (h : src.extract s (s + blob.size) = blob) (j : Nat) (hj : j < blob.size) :
    src.u8 (s + j) = blob.u8 j := by
  have := ByteArray.u8_extract src s blob.size j (by rw [h]) hj
  rw [h] at this; exact this

theorem le16_embedded {src blob : ByteArray} {s : Nat} (h : src.extract s (s + blob.size) = blob) (j : Nat)
    (hj : j + 2 ≤ blob.size) : src.le16 (s + j) = blob.le16 j := by
  unfold ByteArray.le16
  rw [Nat.add_assoc, u8_embedded h j (by omega), u8_embedded h (j + 1) (by omega)]

/-- MAIN THEOREM (four streams).  When HUF_compress4X_usingCTable_internal (`HufEnc.compress4` with the byte-level bit writer)
accepts the literals (≥ 12 of them, every stream ≤ 65535 bytes) and produces `blob` (jump table + four streams), `Huf.decode4` on
`blob`, embedded at `start` in any `src`, returns exactly the literals.  `decode4` announces the fast path when all four streams are
≥ 8 bytes, and `decode1` then reports `lax` for a stream that is not exactly exhausted: the encoder's streams ARE exactly exhausted,
so the verdict is `.ok` either way. -/
theorem huf_decode4_bytes_at {weights : Array Nat} {log : Nat} (ok : WeightsOK weights log) (hlog : log ≤ 56) (used : Nat)
    (lits : List Nat) (h : ∀ s ∈ lits, ∃ hs : s < weights.size, 0 < weights[s]) (blob : ByteArray)
    (hc : compress4 ofFields (codesOf weights log) lits = some blob) (src : Bytes) (start : Nat)
    (hsrc : src.extract start (start + blob.size) = blob) (out : ByteArray) :
    decode4 (buildTable ⟨weights, log, used⟩) src start blob.size lits.length out = .ok (out ++ litBytes lits) := by
  have h12 := compress4_accepts hc
  obtain ⟨hcat, hl1, hl2, hl3, hl4, hn6, hn3⟩ := four_streams_partition lits (by omega)
  unfold compress4 at hc
  rw [if_neg (by omega)] at hc
  generalize hsg : segments lits = sg at hc hcat hl1 hl2 hl3 hl4
  obtain ⟨s1, s2, s3, s4⟩ := sg
  simp only [] at hc hcat hl1 hl2 hl3 hl4
  generalize hc1 : ofFields (encode1 (codesOf weights log) s1) = c1 at hc
  generalize hc2 : ofFields (encode1 (codesOf weights log) s2) = c2 at hc
  generalize hc3 : ofFields (encode1 (codesOf weights log) s3) = c3 at hc
  generalize hc4 : ofFields (encode1 (codesOf weights log) s4) = c4 at hc
  obtain ⟨p0, p2, p4, psz, p10⟩ := layout4_parse hc
  have hblob : blob = HufEnc.le16 c1.size ++ HufEnc.le16 c2.size ++ HufEnc.le16 c3.size ++ c1 ++ c2 ++ c3 ++ c4 := by
    unfold layout4 at hc
    split at hc; · cases hc
    split at hc; · cases hc
    split at hc; · cases hc
    split at hc; · cases hc
    cases hc; rfl
  have hs6 : (HufEnc.le16 c1.size ++ HufEnc.le16 c2.size ++ HufEnc.le16 c3.size).size = 6 := by
    simp [HufEnc.le16, ByteArray.size_append, ByteArray.size_push]
  -- the jump table
  have e0 : src.le16 start = c1.size := by
    have := le16_embedded hsrc 0 (by omega); rw [Nat.add_zero] at this; rw [this, p0]
  have e2 : src.le16 (start + 2) = c2.size := by rw [le16_embedded hsrc 2 (by omega), p2]
  have e4 : src.le16 (start + 4) = c3.size := by rw [le16_embedded hsrc 4 (by omega), p4]
  -- the four streams inside `src`
  have x1 : src.extract (start + 6) (start + 6 + c1.size) = c1 := by
    have := embedded_part (HufEnc.le16 c1.size ++ HufEnc.le16 c2.size ++ HufEnc.le16 c3.size) c1 (c2 ++ c3 ++ c4)
      (src := src) (s := start) (by rw [show _ ++ _ ++ _ = blob by rw [hblob]; simp only [ByteArray.append_assoc]]; exact hsrc)
    rwa [hs6] at this
  have x2 : src.extract (start + 6 + c1.size) (start + 6 + c1.size + c2.size) = c2 := by
    have := embedded_part (HufEnc.le16 c1.size ++ HufEnc.le16 c2.size ++ HufEnc.le16 c3.size ++ c1) c2 (c3 ++ c4)
      (src := src) (s := start) (by rw [show _ ++ _ ++ _ = blob by rw [hblob]; simp only [ByteArray.append_assoc]]; exact hsrc)
    rwa [ByteArray.size_append, hs6, ← Nat.add_assoc] at this
  have x3 : src.extract (start + 6 + c1.size + c2.size) (start + 6 + c1.size + c2.size + c3.size) = c3 := by
    have := embedded_part (HufEnc.le16 c1.size ++ HufEnc.le16 c2.size ++ HufEnc.le16 c3.size ++ c1 ++ c2) c3 c4
      (src := src) (s := start) (by rw [← hblob]; exact hsrc)
    rwa [ByteArray.size_append, ByteArray.size_append, hs6, ← Nat.add_assoc, ← Nat.add_assoc] at this
  have x4 : src.extract (start + 6 + c1.size + c2.size + c3.size) (start + 6 + c1.size + c2.size + c3.size + c4.size) = c4 := by
    have := embedded_part (HufEnc.le16 c1.size ++ HufEnc.le16 c2.size ++ HufEnc.le16 c3.size ++ c1 ++ c2 ++ c3) c4
      ByteArray.empty (src := src) (s := start) (by rw [ByteArray.append_empty, ← hblob]; exact hsrc)
    rwa [ByteArray.size_append, ByteArray.size_append, ByteArray.size_append, hs6, ← Nat.add_assoc, ← Nat.add_assoc,
      ← Nat.add_assoc] at this
  have hsym : ∀ s, (s ∈ s1 ∨ s ∈ s2 ∨ s ∈ s3 ∨ s ∈ s4) → ∃ hs : s < weights.size, 0 < weights[s] := by
    intro s hs
    apply h s
    rw [← hcat]
    simp only [List.mem_append]
    rcases hs with hs | hs | hs | hs
    · exact Or.inl (Or.inl (Or.inl hs))
    · exact Or.inl (Or.inl (Or.inr hs))
    · exact Or.inl (Or.inr hs)
    · exact Or.inr hs
  unfold decode4
  simp only [bind, Except.bind, throw, throwThe, MonadExceptOf.throw, e0, e2, e4]
  rw [if_neg (by omega), if_neg (by omega), if_neg (by omega), if_neg (by omega)]
  generalize (decide (c1.size ≥ 8) && decide (c2.size ≥ 8) && decide (c3.size ≥ 8) &&
    decide (blob.size - (6 + c1.size + c2.size + c3.size) ≥ 8)) = fast
  have d1 := huf_decode1_bytes_at ok hlog used s1 (fun s hs => hsym s (Or.inl hs)) src (start + 6)
    (by rw [hc1]; exact x1) out fast
  rw [hc1, hl1] at d1
  have d2 := huf_decode1_bytes_at ok hlog used s2 (fun s hs => hsym s (Or.inr (Or.inl hs))) src (start + 6 + c1.size)
    (by rw [hc2]; exact x2) (out ++ litBytes s1) fast
  rw [hc2, hl2] at d2
  have d3 := huf_decode1_bytes_at ok hlog used s3 (fun s hs => hsym s (Or.inr (Or.inr (Or.inl hs)))) src
    (start + 6 + c1.size + c2.size) (by rw [hc3]; exact x3) (out ++ litBytes s1 ++ litBytes s2) fast
  rw [hc3, hl3] at d3
  have d4 := huf_decode1_bytes_at ok hlog used s4 (fun s hs => hsym s (Or.inr (Or.inr (Or.inr hs)))) src
    (start + 6 + c1.size + c2.size + c3.size) (by rw [hc4]; exact x4) (out ++ litBytes s1 ++ litBytes s2 ++ litBytes s3) fast
  rw [hc4, hl4] at d4
  have hl4sz : blob.size - (6 + c1.size + c2.size + c3.size) = c4.size := by omega
  rw [d1]; simp only []
  rw [d2]; simp only []
  rw [d3]; simp only []
  rw [hl4sz, d4, ← hcat, litBytes_append, litBytes_append, litBytes_append]
  simp only [ByteArray.append_assoc]

/-- the blob alone -/
theorem huf_decode4_bytes {weights : Array Nat} {log : Nat} (ok : WeightsOK weights log) (hlog : log ≤ 56) (used : Nat)
    (lits : List Nat) (h : ∀ s ∈ lits, ∃ hs : s < weights.size, 0 < weights[s]) (blob : ByteArray)
    (hc : compress4 ofFields (codesOf weights log) lits = some blob) (out : ByteArray) :
    decode4 (buildTable ⟨weights, log, used⟩) blob 0 blob.size lits.length out = .ok (out ++ litBytes lits) :=
  huf_decode4_bytes_at ok hlog used lits h blob hc blob 0 (by rw [Nat.zero_add]; exact ByteArray.extract_zero_size) out

/-! ### non-vacuity: weights 2,1,1 with tableLog 2 (codes 1, 00, 01), literals 2 0 0 1 -/

example : ofFields (encode1 (codesOf #[2, 1, 1] 2) [2, 0, 0, 1]) = ⟨#[0x5c]⟩ := by decide
example : WeightsOK #[2, 1, 1] 2 := by decide
example : decode1 (buildTable ⟨#[2, 1, 1], 2, 0⟩) (ofFields (encode1 (codesOf #[2, 1, 1] 2) [2, 0, 0, 1])) 0
    (ofFields (encode1 (codesOf #[2, 1, 1] 2) [2, 0, 0, 1])).size 4 ByteArray.empty false
    = .ok (ByteArray.empty ++ litBytes [2, 0, 0, 1]) :=
  huf_decode1_bytes (weights := #[2, 1, 1]) (log := 2) (by decide) (by decide) 0 [2, 0, 0, 1] (by decide) ByteArray.empty

end ZstdVerif.HufBytes
