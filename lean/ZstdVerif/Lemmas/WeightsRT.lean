/-
Round trip of the FSE-COMPRESSED Huffman tree description: what HUF_writeCTable_wksp writes when HUF_compressWeights makes the weights
smaller than the direct 4-bit form (writer model: `LitEnc.fseWeights` = size byte, FSE_writeNCount, FSE_compress_usingCTable with its TWO
INTERLEAVED STATES, `FSE.compressStack`; tied byte for byte to the C functions by tools/ent_huf.py `whdr`), the decoder model reads back
(`FSE.decompressWeights` = FSE_decompress_wksp: FSE_readNCount, FSE_buildDTable, FSE_decompress_usingDTable; `Huf.readStats`).

  1  encodeAlt, encodePairs_eq_alt, compressStack_eq   the C loop structure (state 1 / state 2, odd / even start, pairs) is an alternation:
                                  every symbol goes to the state that is NOT the one the decoder reads next
  2  decode2, encodeAlt_decode, init2_cell, compress_decode2      the abstract two-state decoder (stops when the stream is exhausted under a
                                  cell that wants at least one bit) inverts it
  3  wstep, wloop                 the loop of `FSE.decompressWeights` (as its `do` block elaborates) follows the abstract decoder on bytes
  4  decompressWeights_roundtrip  FSE_decompress_wksp on FSE_writeNCount ++ FSE_compress_usingCTable
  5  readStats_fse                HUF_readStats on the FSE-compressed tree description (`WeightsFseOK` = side conditions on the counts)
  6  readStats_descr, literals_roundtrip_compressed_fse   whichever form HUF_writeCTable_wksp picks; the literals section with it
-/
import ZstdVerif.Lemmas.FSERT
import ZstdVerif.Lemmas.SeqRT
import ZstdVerif.Lemmas.NCountRT
import ZstdVerif.Lemmas.LitRT
import ZstdVerif.Model.LitEnc
set_option linter.unusedSimpArgs false
namespace ZstdVerif.WeightsRT
open ZstdVerif ZstdVerif.FSE

/-! ### 1. the encoder as an alternation -/

/-- FSE_compress_usingCTable_generic seen from the decoder: `cur` is the state the decoder will read the NEXT symbol from, `other` the
second one.  Going backwards through the source, each symbol is encoded into `other`, which then becomes `cur`. -/
def encodeAlt (ct : CTable) : List Nat → Nat → Nat → List (Nat × Nat) → Nat × Nat × List (Nat × Nat)
  | [], cur, other, stack => (cur, other, stack)
  | s :: rev, cur, other, stack =>
    let r := encodeSymbol ct other s
    encodeAlt ct rev r.1 cur (r.2 :: stack)

theorem encodePairs_eq_alt (ct : CTable) : ∀ (n : Nat) (rev : List Nat), rev.length = 2 * n → ∀ (s1 s2 : Nat) (stack : List (Nat × Nat)),
    encodePairs ct rev s1 s2 stack = encodeAlt ct rev s1 s2 stack := by
  intro n
  induction n with
  | zero =>
    intro rev h s1 s2 stack
    have : rev = [] := List.eq_nil_of_length_eq_zero (by omega)
    subst this
    rfl
  | succ n ih =>
    intro rev h s1 s2 stack
    match rev, h with
    | a :: b :: t, h =>
      have ht : t.length = 2 * n := by simp only [List.length_cons] at h; omega
      rw [encodePairs, encodeAlt, encodeAlt]
      exact ih t ht _ _ _

/-- FSE_compress_usingCTable_generic: the two last symbols of the source initialise the states (the last but one: the state read first at
the end, `cur`), every earlier symbol is encoded in alternation, the states are flushed `other` first -/
theorem compressStack_eq (ct : CTable) (σ : List Nat) (a b : Nat) :
    compressStack ct (σ ++ [a, b]) =
      if σ = [] then none else
      some (flushCState ct (encodeAlt ct σ.reverse (initCState2 ct a) (initCState2 ct b) []).1 ::
        flushCState ct (encodeAlt ct σ.reverse (initCState2 ct a) (initCState2 ct b) []).2.1 ::
        (encodeAlt ct σ.reverse (initCState2 ct a) (initCState2 ct b) []).2.2) := by
  unfold compressStack
  have hrev : (σ ++ [a, b]).reverse = b :: a :: σ.reverse := by simp
  have hlen : (σ ++ [a, b]).length = σ.length + 2 := by simp
  rw [hrev, hlen]
  by_cases he : σ = []
  · subst he; simp
  · have hpos : 0 < σ.length := List.length_pos_iff.2 he
    rw [if_neg (by omega), if_neg he]
    simp only []
    by_cases hodd : (σ.length + 2) % 2 = 1
    · rw [if_pos hodd]
      cases hr : σ.reverse with
      | nil => exact absurd (List.reverse_eq_nil_iff.1 hr) he
      | cons x2 rev2 =>
        simp only []
        have hl : rev2.length = 2 * ((σ.length - 1) / 2) := by
          have := congrArg List.length hr
          simp only [List.length_reverse, List.length_cons] at this
          omega
        rw [encodePairs_eq_alt ct _ rev2 hl, encodeAlt]
    · rw [if_neg hodd]
      have hl : σ.reverse.length = 2 * (σ.length / 2) := by rw [List.length_reverse]; omega
      rw [encodePairs_eq_alt ct _ σ.reverse hl]

/-! ### 2. the abstract two-state decoder -/

/-- FSE_decompress_usingDTable_generic on the abstract stream (a stack of bit fields): emit the symbol of the current state `a`; its update
wants `nbBits` bits: when the stream is exhausted (BIT_reloadDStream: overflow) the symbol of the other state is the last one; otherwise the
updated state becomes the other one.  A read of ZERO bits on an exhausted stream does not overflow: not a valid end (`none`). -/
def decode2 (cells : Array Cell) : Nat → Nat → List (Nat × Nat) → Option (List Nat)
  | a, b, [] => if 1 ≤ (cells[a]!).nbBits then some [(cells[a]!).sym, (cells[b]!).sym] else none
  | a, b, (v, w) :: rest =>
    if w = (cells[a]!).nbBits then (decode2 cells b ((cells[a]!).newState + v % 2 ^ w) rest).map ((cells[a]!).sym :: ·) else none

section
variable {syms : Array Nat} {norm : Array Int} {L : Nat}

/-- encoding more symbols in alternation on top of a stream that decodes to `out` gives one that decodes to those symbols, then `out` -/
theorem encodeAlt_decode (hN : NormOK norm L) (hS : SpreadOK syms norm L) (hL : L ≤ 15) (rev : List Nat)
    (hrev : ∀ s, s ∈ rev → s < norm.size ∧ norm[s]! ≠ 0) (cur other : Nat) (hc1 : 2 ^ L ≤ cur) (hc2 : cur < 2 ^ (L + 1))
    (ho1 : 2 ^ L ≤ other) (ho2 : other < 2 ^ (L + 1)) (stack : List (Nat × Nat)) (out : List Nat)
    (hdec : decode2 (cellsOf syms norm L) (cur - 2 ^ L) (other - 2 ^ L) stack = some out) (hw : ∀ f ∈ stack, f.2 ≤ L) :
    (∀ f ∈ (encodeAlt (ctableOf syms norm L) rev cur other stack).2.2, f.2 ≤ L) ∧
    2 ^ L ≤ (encodeAlt (ctableOf syms norm L) rev cur other stack).1 ∧
      (encodeAlt (ctableOf syms norm L) rev cur other stack).1 < 2 ^ (L + 1) ∧
      2 ^ L ≤ (encodeAlt (ctableOf syms norm L) rev cur other stack).2.1 ∧
      (encodeAlt (ctableOf syms norm L) rev cur other stack).2.1 < 2 ^ (L + 1) ∧
      decode2 (cellsOf syms norm L) ((encodeAlt (ctableOf syms norm L) rev cur other stack).1 - 2 ^ L)
        ((encodeAlt (ctableOf syms norm L) rev cur other stack).2.1 - 2 ^ L)
        (encodeAlt (ctableOf syms norm L) rev cur other stack).2.2 = some (rev.reverse ++ out) := by
  induction rev generalizing cur other stack out with
  | nil => exact ⟨hw, hc1, hc2, ho1, ho2, by simpa [encodeAlt] using hdec⟩
  | cons s t ih =>
    obtain ⟨hs, h0⟩ := hrev s (by simp)
    generalize hr : encodeSymbol (ctableOf syms norm L) other s = r
    obtain ⟨S2, v, nb⟩ := r
    obtain ⟨a1, a2, a3, a4, a5⟩ := step_inverse hN hS hL hs h0 ho1 ho2 hr
    have hmod : v % 2 ^ nb = v := by
      have := SeqRT.encodeSymbol_field_mod (ctableOf syms norm L) other s
      rw [hr] at this
      exact this
    have hnb : nb ≤ L := by
      obtain ⟨c1, -, -⟩ := symTTOf_spec (L := L) (tot := startOf norm s) (hN.2.1 s hs) h0
      have e := encodeSymbol_spec (syms := syms) hN hL hs h0 ho1 ho2
      rw [hr] at e
      have := (encNb_spec c1 (cnt_le hN hs) ho1 ho2).1
      have e2 := congrArg (fun p => p.2.2) e
      simp only [] at e2
      rw [e2]; exact this
    have hdec2 : decode2 (cellsOf syms norm L) (S2 - 2 ^ L) (cur - 2 ^ L) ((v, nb) :: stack) = some (s :: out) := by
      rw [decode2]
      simp only [a4, if_true, hmod, a5, hdec, a3, Option.map_some]
    have e : encodeAlt (ctableOf syms norm L) (s :: t) cur other stack = encodeAlt (ctableOf syms norm L) t S2 cur ((v, nb) :: stack) := by
      rw [encodeAlt, hr]
    rw [e]
    have e3 : (s :: t).reverse ++ out = t.reverse ++ s :: out := by simp
    rw [e3]
    exact ih (fun x hx => hrev x (by simp [hx])) S2 cur a1 a2 hc1 hc2 ((v, nb) :: stack) (s :: out) hdec2
      (by intro f hf; simp only [List.mem_cons] at hf; rcases hf with e | e; · subst e; exact hnb
          · exact hw f e)

/-- the decoding cell of the state FSE_initCState2 picks: the first position of the symbol (`symbolNext` = its count) -/
theorem init2_cell (hN : NormOK norm L) (hS : SpreadOK syms norm L) (hL : L ≤ 14) {s : Nat} (hs : s < norm.size) (h0 : norm[s]! ≠ 0) :
    (cellsOf syms norm L)[initCState2 (ctableOf syms norm L) s - 2 ^ L]! = cellAt L s (cnt norm s) := by
  obtain ⟨c1, t1, t2⟩ := symTTOf_spec (L := L) (tot := startOf norm s) (hN.2.1 s hs) h0
  have hcL := cnt_le hN hs
  have e : initCState2 (ctableOf syms norm L) s = (stateTableOf syms (cumulOf norm L) L)[startOf norm s + 0]! := by
    unfold initCState2 ctableOf
    simp only []
    rw [symbolTTOf_get hs, t1, t2, init2_arith hN.1 hL c1 hcL]
    congr 1; omega
  obtain ⟨u, hu, hus, hur⟩ := exists_rank (l := syms.toList) (s := s) (r := 0) (by rw [hS.2.2 s hs]; omega)
  have hu2 : u < syms.size := by simpa using hu
  have hus2 : syms[u]! = s := by simpa [hu2] using hus
  have hst := stateTable_get hN hS hu2
  rw [hus2, hur] at hst
  have hN2 := two_pow_le_32768 (show L ≤ 15 by omega)
  have hsz := hS.1
  have hcell := cellsOf_get (L := L) hu2 (by rw [hus2]; exact hs)
  rw [e, hst]
  have hidx : (2 ^ L + u) % 65536 - 2 ^ L = u := by omega
  rw [hidx, hcell, hus2, hur, Nat.add_zero]

/-- ... wants at least one bit unless the symbol is the only one of the distribution: that is what makes the decoder stop -/
theorem init2_nbBits_pos (hN : NormOK norm L) (hS : SpreadOK syms norm L) (hL : L ≤ 14) {s : Nat} (hs : s < norm.size) (h0 : norm[s]! ≠ 0)
    (hlt : cnt norm s < 2 ^ L) : 1 ≤ ((cellsOf syms norm L)[initCState2 (ctableOf syms norm L) s - 2 ^ L]!).nbBits := by
  rw [init2_cell hN hS hL hs h0]
  obtain ⟨c1, -, -⟩ := symTTOf_spec (L := L) (tot := startOf norm s) (hN.2.1 s hs) h0
  have : Nat.log2 (cnt norm s) < L := (Nat.log2_lt (by omega)).2 hlt
  simp only [cellAt, highbit]
  omega

/-- **TWO-STATE STREAM ROUND TRIP** (FSE_compress_usingCTable / FSE_decompress_usingDTable, abstract stream): the decoder, started with the
two flushed states, gives the source back and stops exactly at its end.  Hypotheses: `NormOK`, `SpreadOK`, `L ≤ 14`, at least three
symbols (the C encoder refuses fewer), every symbol has a non-zero normalised count, and the symbol before the last is not the only one
of the distribution (its count is below `2^L`; HUF_compressWeights: `maxCount == wtSize` is refused). -/
theorem compress_decode2 (hN : NormOK norm L) (hS : SpreadOK syms norm L) (hL : L ≤ 14) (σ : List Nat) (a b : Nat) (hne : σ ≠ [])
    (hσ : ∀ s, s ∈ σ ++ [a, b] → s < norm.size ∧ norm[s]! ≠ 0) (hlt : cnt norm a < 2 ^ L) :
    ∃ cur other stack, compressStack (ctableOf syms norm L) (σ ++ [a, b]) =
        some (flushCState (ctableOf syms norm L) cur :: flushCState (ctableOf syms norm L) other :: stack) ∧
      (∀ f ∈ stack, f.2 ≤ L) ∧ 2 ^ L ≤ cur ∧ cur < 2 ^ (L + 1) ∧ 2 ^ L ≤ other ∧ other < 2 ^ (L + 1) ∧
      decode2 (cellsOf syms norm L) (cur - 2 ^ L) (other - 2 ^ L) stack = some (σ ++ [a, b]) := by
  obtain ⟨ha, ha0⟩ := hσ a (by simp)
  obtain ⟨hb, hb0⟩ := hσ b (by simp)
  obtain ⟨i1, i2, i3⟩ := init2_inverse hN hS hL ha ha0
  obtain ⟨j1, j2, j3⟩ := init2_inverse hN hS hL hb hb0
  have hpos := init2_nbBits_pos hN hS hL ha ha0 hlt
  have hdec0 : decode2 (cellsOf syms norm L) (initCState2 (ctableOf syms norm L) a - 2 ^ L)
      (initCState2 (ctableOf syms norm L) b - 2 ^ L) [] = some [a, b] := by
    rw [decode2, if_pos hpos, i3, j3]
  obtain ⟨b0, b1, b2, b3, b4, b5⟩ := encodeAlt_decode hN hS (by omega) σ.reverse
    (fun x hx => hσ x (by simp only [List.mem_reverse] at hx; simp [hx])) _ _ i1 i2 j1 j2 [] [a, b] hdec0 (by simp)
  rw [List.reverse_reverse] at b5
  rw [compressStack_eq, if_neg hne]
  exact ⟨_, _, _, rfl, b0, b1, b2, b3, b4, b5⟩

end

/-! ### 3. the loop of FSE_decompress_usingDTable_generic on bytes -/

theorem decode2_length {cells : Array Cell} {a b : Nat} {stack : List (Nat × Nat)} {σ : List Nat} (h : decode2 cells a b stack = some σ) :
    2 ≤ σ.length := by
  induction stack generalizing a b σ with
  | nil =>
    rw [decode2] at h
    split at h
    · injection h with h; subst h; simp
    · cases h
  | cons f rest ih =>
    obtain ⟨v, w⟩ := f
    rw [decode2] at h
    split at h
    · cases hd : decode2 cells b ((cells[a]!).newState + v % 2 ^ w) rest with
      | none => rw [hd] at h; cases h
      | some σ2 =>
        rw [hd] at h
        injection h with h; subst h
        have := ih hd
        simp only [List.length_cons]; omega
    · cases h

theorem holds_over {r : BitR} {st : List (Nat × Nat)} (h : SeqRT.Holds r st) : r.over = false := by
  induction st generalizing r with
  | nil => exact h.2
  | cons f rest ih =>
    have := ih h.2
    cases ho : r.over with
    | false => rfl
    | true => rw [BitR.read_over_sticky r f.2 ho] at this; cases this

/-- state of the loop of `FSE.decompressWeights`: early-return value, state 1, state 2, bit reader, output -/
abbrev WSt := Option (Array Nat) × Nat × Nat × BitR × Array Nat

/-- one turn of the loop of `FSE.decompressWeights` (two symbols), as the `do` block elaborates it -/
def wstep (cells : Array Cell) (s : WSt) : R (ForInStep WSt) :=
  if s.2.2.2.2.size + 2 > 255 then .error .dstTooSmall
  else if ((s.2.2.2.1.read (cells[s.2.1]!).nbBits).2.over = true) then
    .ok (.done (some ((s.2.2.2.2.push (cells[s.2.1]!).sym).push (cells[s.2.2.1]!).sym),
      (cells[s.2.1]!).newState + (s.2.2.2.1.read (cells[s.2.1]!).nbBits).1, s.2.2.1, (s.2.2.2.1.read (cells[s.2.1]!).nbBits).2,
      (s.2.2.2.2.push (cells[s.2.1]!).sym).push (cells[s.2.2.1]!).sym))
  else if (s.2.2.2.2.push (cells[s.2.1]!).sym).size + 2 > 255 then .error .dstTooSmall
  else if (((s.2.2.2.1.read (cells[s.2.1]!).nbBits).2.read (cells[s.2.2.1]!).nbBits).2.over = true) then
    .ok (.done (some (((s.2.2.2.2.push (cells[s.2.1]!).sym).push (cells[s.2.2.1]!).sym).push
        (cells[(cells[s.2.1]!).newState + (s.2.2.2.1.read (cells[s.2.1]!).nbBits).1]!).sym),
      (cells[s.2.1]!).newState + (s.2.2.2.1.read (cells[s.2.1]!).nbBits).1,
      (cells[s.2.2.1]!).newState + ((s.2.2.2.1.read (cells[s.2.1]!).nbBits).2.read (cells[s.2.2.1]!).nbBits).1,
      ((s.2.2.2.1.read (cells[s.2.1]!).nbBits).2.read (cells[s.2.2.1]!).nbBits).2,
      ((s.2.2.2.2.push (cells[s.2.1]!).sym).push (cells[s.2.2.1]!).sym).push
        (cells[(cells[s.2.1]!).newState + (s.2.2.2.1.read (cells[s.2.1]!).nbBits).1]!).sym))
  else
    .ok (.yield (none,
      (cells[s.2.1]!).newState + (s.2.2.2.1.read (cells[s.2.1]!).nbBits).1,
      (cells[s.2.2.1]!).newState + ((s.2.2.2.1.read (cells[s.2.1]!).nbBits).2.read (cells[s.2.2.1]!).nbBits).1,
      ((s.2.2.2.1.read (cells[s.2.1]!).nbBits).2.read (cells[s.2.2.1]!).nbBits).2,
      (s.2.2.2.2.push (cells[s.2.1]!).sym).push (cells[s.2.2.1]!).sym))

theorem forIn_cons_done {α β : Type} (a : α) (l : List α) (f : α → β → R (ForInStep β)) (b b2 : β) (h : f a b = .ok (.done b2)) :
    forIn (a :: l) b f = .ok b2 := by
  rw [List.forIn_cons, h]; rfl

theorem forIn_cons_yield {α β : Type} (a : α) (l : List α) (f : α → β → R (ForInStep β)) (b b2 : β) (h : f a b = .ok (.yield b2)) :
    forIn (a :: l) b f = forIn l b2 f := by
  rw [List.forIn_cons, h]; rfl

theorem holds_nil_over {r : BitR} (h : SeqRT.Holds r []) {n : Nat} (hn : 1 ≤ n) : (r.read n).2.over = true :=
  (BitR.read_underflow_sets_over r n (by rw [h.1]; omega)).1

/-- the loop of `FSE.decompressWeights` follows the abstract two-state decoder: when the reader sees exactly the fields of `stack` and
`decode2` yields `σ` from the two states, the loop returns the output so far followed by `σ` (at most 255 symbols; enough turns) -/
theorem wloop (cells : Array Cell) (f : Nat → WSt → R (ForInStep WSt)) (hf : ∀ i s, f i s = wstep cells s) :
    ∀ (l : List Nat) (a b : Nat) (stack : List (Nat × Nat)) (r : BitR) (out : Array Nat) (σ : List Nat),
      SeqRT.Holds r stack → decode2 cells a b stack = some σ → out.size + σ.length ≤ 255 → σ.length ≤ 2 * l.length + 1 →
      ∃ s, forIn l ((none, a, b, r, out) : WSt) f = .ok s ∧ s.1 = some (out ++ σ.toArray) := by
  intro l
  induction l with
  | nil =>
    intro a b stack r out σ _ hd _ hl
    have := decode2_length hd
    simp only [List.length_nil] at hl
    omega
  | cons i l ih =>
    intro a b stack r out σ hh hd hsz hl
    have h2 := decode2_length hd
    have c0 : ¬ out.size + 2 > 255 := by omega
    cases stack with
    | nil =>
      rw [decode2] at hd
      split at hd
      next hnb =>
        injection hd with hd
        subst hd
        have hov := holds_nil_over hh hnb
        refine ⟨_, forIn_cons_done _ _ _ _ _ (by rw [hf]; unfold wstep; simp only [c0, if_false, hov, if_true]; rfl), ?_⟩
        show some _ = some _
        congr 1
      next => cases hd
    | cons fld rest =>
      obtain ⟨v, w⟩ := fld
      rw [decode2] at hd
      split at hd
      next hw =>
        subst hw
        obtain ⟨hv, hh2⟩ := hh
        simp only [] at hv hh2
        have hov := holds_over hh2
        cases hd2 : decode2 cells b ((cells[a]!).newState + v % 2 ^ (cells[a]!).nbBits) rest with
        | none => rw [hd2] at hd; cases hd
        | some σ2 =>
          rw [hd2] at hd
          injection hd with hd
          subst hd
          have h3 := decode2_length hd2
          simp only [List.length_cons] at hsz hl
          have c1 : ¬ (out.push (cells[a]!).sym).size + 2 > 255 := by rw [Array.size_push]; omega
          rw [← hv] at hd2
          cases rest with
          | nil =>
            rw [decode2] at hd2
            split at hd2
            next hnb =>
              injection hd2 with hd2
              subst hd2
              have hov2 := holds_nil_over hh2 hnb
              refine ⟨_, forIn_cons_done _ _ _ _ _ (by
                rw [hf]; unfold wstep
                simp only [c0, if_false, hov, Bool.false_eq_true, c1, hov2, if_true]
                rfl), ?_⟩
              show some _ = some _
              congr 1
            next => cases hd2
          | cons fld2 rest2 =>
            obtain ⟨v2, w2⟩ := fld2
            rw [decode2] at hd2
            split at hd2
            next hw2 =>
              subst hw2
              obtain ⟨hv2, hh3⟩ := hh2
              simp only [] at hv2 hh3
              have hov2 := holds_over hh3
              cases hd3 : decode2 cells ((cells[a]!).newState + (r.read (cells[a]!).nbBits).1)
                  ((cells[b]!).newState + v2 % 2 ^ (cells[b]!).nbBits) rest2 with
              | none => rw [hd3] at hd2; cases hd2
              | some σ3 =>
                rw [hd3] at hd2
                injection hd2 with hd2
                subst hd2
                have e3 : ((fun x => (cells[b]!).sym :: x) σ3).length = σ3.length + 1 := rfl
                rw [e3] at hsz hl
                rw [← hv2] at hd3
                obtain ⟨s, hs1, hs2⟩ := ih _ _ rest2 _ ((out.push (cells[a]!).sym).push (cells[b]!).sym) σ3 hh3 hd3
                  (by rw [Array.size_push, Array.size_push]; omega) (by omega)
                refine ⟨s, ?_, ?_⟩
                · rw [forIn_cons_yield _ _ _ _ _ (by
                    rw [hf]; unfold wstep
                    simp only [c0, if_false, hov, Bool.false_eq_true, c1, hov2]
                    rfl)]
                  exact hs1
                · rw [hs2]; simp
            next => cases hd2
      next => cases hd

/-! ### 4. FSE_decompress_wksp on what HUF_compressWeights wrote -/

/-- **decompressWeights_roundtrip**.  `src` holds at `start` the `len` bytes HUF_compressWeights writes for the symbols `σ ++ [a, b]` (the
Huffman weights): the FSE_writeNCount description of the normalised counts `norm` / `L`, then the two-state stream of
FSE_compress_usingCTable under FSE_buildCTable_wksp's table.  FSE_decompress_wksp (`FSE.decompressWeights`) gives the symbols back.
Hypotheses on the distribution (`5 ≤ L ≤ 6`: FSE_MIN_TABLELOG and MAX_FSE_TABLELOG_FOR_HUFF_HEADER; `NormOK`; last count non-zero; the two
checked spreading facts, as in `BlockRT.TableOK`); every symbol has a non-zero count; the symbol before the last does not own the whole
table (`cnt norm a < 2^L`: this is what makes the decoder stop; the C encoder refuses single-symbol inputs); at least three symbols (the C
encoder refuses fewer), at most 255. -/
theorem decompressWeights_roundtrip {norm : Array Int} {L : Nat} (hN : NormOK norm L) (hL5 : 5 ≤ L) (hL6 : L ≤ 6)
    (hlast : norm[norm.size - 1]! ≠ 0) (hnsz : norm.size ≤ 256)
    (hS : spreadOK (spreadEnc norm L) norm L = true) (hE : spreadEnc norm L = spread norm L)
    (σ : List Nat) (a b : Nat) (hne : σ ≠ []) (hσ : ∀ s, s ∈ σ ++ [a, b] → s < norm.size ∧ norm[s]! ≠ 0) (hlt : cnt norm a < 2 ^ L)
    (hlen : (σ ++ [a, b]).length ≤ 255) (fields : List (Nat × Nat))
    (hfields : compressFields (buildCTable norm L) (σ ++ [a, b]) = some fields) (src : Bytes) (start len : Nat)
    (hlen2 : len = (NCountW.writeNCount norm L ++ BitW.ofFields fields).size)
    (hsrc : src.extract start (start + (NCountW.writeNCount norm L ++ BitW.ofFields fields).size)
      = NCountW.writeNCount norm L ++ BitW.ofFields fields) :
    decompressWeights src start len 255 = .ok (σ ++ [a, b]).toArray := by
  unfold buildCTable at hfields
  rw [hE] at hS hfields
  have hS2 := (spreadOK_iff _ _ _).1 hS
  obtain ⟨cur, other, stack, hcs, hw, c1, c2, o1, o2, hdec⟩ := compress_decode2 hN hS2 (by omega) σ a b hne hσ hlt
  unfold compressFields at hfields
  rw [hcs] at hfields
  simp only [Option.map_some, Option.some.injEq] at hfields
  have hrevf : fields.reverse = flushCState (ctableOf (spread norm L) norm L) cur ::
      flushCState (ctableOf (spread norm L) norm L) other :: stack := by
    rw [← hfields, List.reverse_reverse]
  have hwf : ∀ f ∈ fields, f.2 ≤ 56 := by
    intro f hf
    have : f ∈ fields.reverse := List.mem_reverse.2 hf
    rw [hrevf] at this
    simp only [List.mem_cons] at this
    rcases this with e | e | e
    · subst e; show L ≤ 56; omega
    · subst e; show L ≤ 56; omega
    · have := hw f e; omega
  have hW : src.extract start (start + (NCountW.writeNCount norm L).size) = NCountW.writeNCount norm L := by
    have := HufBytes.embedded_part ByteArray.empty (NCountW.writeNCount norm L) (BitW.ofFields fields)
      (by rw [ByteArray.empty_append]; exact hsrc)
    simpa using this
  have hB : src.extract (start + (NCountW.writeNCount norm L).size)
      (start + (NCountW.writeNCount norm L).size + (BitW.ofFields fields).size) = BitW.ofFields fields :=
    LitRT.body_embedded _ _ hsrc
  rw [ByteArray.size_append] at hlen2
  have hnc := NCountRT.ncount_roundtrip norm L hN hL5 (by omega) hlast 255 (by omega) src start len (by omega) hW
  obtain ⟨r0, hinit, -, -, hvals, -, hend⟩ := BitR.bits_roundtrip_at fields hwf src _ hB
  have hh := SeqRT.holds_of_readList _ r0 hvals hend
  rw [hrevf] at hh
  obtain ⟨hv1, hh1⟩ := hh
  obtain ⟨hv2, hh2⟩ := hh1
  have hLt : (ctableOf (spread norm L) norm L).tableLog = L := rfl
  simp only [flushCState, hLt, Nat.mod_mod] at hv1 hv2 hh2
  rw [SeqRT.mod_of_state c1 c2] at hv1
  rw [SeqRT.mod_of_state o1 o2] at hv2
  have hlenb : len - (NCountW.writeNCount norm L).size = (BitW.ofFields fields).size := by omega
  have d1 : ¬ L > 6 := by omega
  have d2 : ¬ (NCountW.writeNCount norm L).size > len := by omega
  unfold decompressWeights
  simp only [bind, Except.bind, pure, Except.pure, throw, throwThe, MonadExceptOf.throw, hnc, d1, hlenb, hinit, d2, ↓reduceIte]
  generalize hloop : forIn (m := R) (ρ := Std.Legacy.Range) _ _ _ = Lp
  have hL : ∃ s, Lp = .ok s ∧ s.1 = some (#[] ++ (σ ++ [a, b]).toArray) := by
    rw [← hloop, Std.Legacy.Range.forIn_eq_forIn_range', hv1, hv2]
    exact wloop (buildCells norm L) _ (fun _ _ => rfl) _ _ _ stack _ #[] _ hh2 hdec (by simp only [Array.size_empty]; omega)
      (by simp only [List.length_range', Std.Legacy.Range.size]; omega)
  obtain ⟨s, rfl, hs⟩ := hL
  simp only [hs, Array.empty_append]

/-! ### 5. HUF_readStats on the FSE-compressed tree description -/

/-- what the normalised counts `norm` / `L` handed to HUF_compressWeights (a DECISION: FSE_optimalTableLog / FSE_normalizeCount are not
modelled) must satisfy for the weights `ws` (symbols 0 .. maxSymbolValue-1): a normalised distribution with
`FSE_MIN_TABLELOG = 5 ≤ L ≤ 6 = MAX_FSE_TABLELOG_FOR_HUFF_HEADER` over the weight values 0 .. HUF_TABLELOG_MAX, last value present, the two
spreading facts `tools/ent_fse.py` checks on every table; every weight that occurs has a non-zero count; no weight value owns the whole
table (HUF_compressWeights returns 1, "rle", when all weights are equal). -/
structure WeightsFseOK (norm : Array Int) (L : Nat) (ws : List Nat) : Prop where
  normOK : NormOK norm L
  log_ge : 5 ≤ L
  log_le : L ≤ 6
  last_ne : norm[norm.size - 1]! ≠ 0
  size_le : norm.size ≤ 13
  spread : spreadOK (spreadEnc norm L) norm L = true
  spreadEq : spreadEnc norm L = FSE.spread norm L
  covers : ∀ w, w ∈ ws → w < norm.size ∧ norm[w]! ≠ 0
  not_rle : ∀ s, s < norm.size → cnt norm s < 2 ^ L

theorem split_last_two (l : List Nat) (h : 3 ≤ l.length) : ∃ σ a b, l = σ ++ [a, b] ∧ σ ≠ [] := by
  rcases List.eq_nil_or_concat l with e | ⟨l1, b, e⟩
  · subst e; simp at h
  · rcases List.eq_nil_or_concat l1 with e1 | ⟨l2, a, e1⟩
    · subst e1; subst e; simp at h
    · subst e1; subst e
      refine ⟨l2, a, b, by simp, ?_⟩
      intro e2; subst e2; simp at h

open ZstdVerif.HufRT ZstdVerif.HufEnc ZstdVerif.Huf ZstdVerif.LitEnc in
/-- **FSE-COMPRESSED TREE DESCRIPTION**.  HUF_readStats_body reads the form HUF_writeCTable_wksp writes when HUF_compressWeights pays
(`LitEnc.fseWeights`: size byte < 128, FSE_writeNCount, two-state FSE stream) back: the weights of symbols `0 .. maxSymbolValue-1` as
written, the implied weight of the last symbol and the table depth as the encoder had them (`WeightsOK`), consuming exactly the
description.  Side conditions on the Huffman weights as for the direct form (`LitRT.readStats_direct`); on the FSE table: `WeightsFseOK`;
at most 255 explicit weights (256 symbols). -/
theorem readStats_fse (ws : List Nat) (last log : Nat) (ok : WeightsOK (ws.toArray.push last) log) (hlast : 0 < last)
    (hlog : log ≤ 12) (hr1 : 2 ≤ (ws ++ [last]).count 1) (hws : ws.length ≤ 255) (norm : Array Int) (L : Nat)
    (hF : WeightsFseOK norm L ws) (wh : ByteArray) (hwh : fseWeights norm L ws = some wh) (src : Bytes) (pos n : Nat)
    (hsrc : src.extract pos (pos + wh.size) = wh) (hn : wh.size ≤ n) :
    readStats src pos n = .ok ⟨ws.toArray.push last, log, wh.size⟩ := by
  unfold fseWeights at hwh
  cases hcw : compressWeights norm L ws with
  | none => rw [hcw] at hwh; cases hwh
  | some h =>
  rw [hcw] at hwh
  simp only [] at hwh
  split at hwh
  case isFalse => cases hwh
  next hcond =>
  injection hwh with hwh
  unfold compressWeights at hcw
  split at hcw
  · cases hcw
  simp only [] at hcw
  split at hcw
  · cases hcw
  split at hcw
  · cases hcw
  cases hf : FSE.compressFields (FSE.buildCTable norm L) ws with
  | none => rw [hf] at hcw; cases hcw
  | some fields =>
  rw [hf] at hcw
  injection hcw with hcw
  have h3 : 3 ≤ ws.length := by
    unfold FSE.compressFields FSE.compressStack at hf
    split at hf
    · cases hf
    · omega
  obtain ⟨σ, a, b, hσ, hne⟩ := split_last_two ws h3
  have hpush : ByteArray.empty.push (UInt8.ofNat h.size) = [UInt8.ofNat h.size].toByteArray := by
    rw [← ByteArray.append_toByteArray_singleton, ByteArray.empty_append]
  rw [hpush] at hwh
  have hsize : wh.size = 1 + h.size := by
    rw [← hwh, ByteArray.size_append, List.size_toByteArray]; rfl
  have h128 : h.size < 128 := by omega
  rw [← hwh] at hsrc
  have hb0 : src.u8 pos = h.size := by
    have := HufBytes.u8_embedded hsrc 0 (by rw [ByteArray.size_append, List.size_toByteArray, List.length_singleton]; omega)
    rw [Nat.add_zero, LitRT.u8_append_left _ _ _ (by simp [List.size_toByteArray]), LitRT.u8_singleton, BitW.ofNat_toNat] at this
    omega
  have hbody : src.extract (pos + 1) (pos + 1 + h.size) = h := by
    have := LitRT.body_embedded _ h hsrc
    rwa [List.size_toByteArray, List.length_singleton] at this
  have hdw : FSE.decompressWeights src (pos + 1) h.size 255 = .ok ws.toArray := by
    rw [hσ]
    rw [hσ] at hf
    refine decompressWeights_roundtrip hF.normOK hF.log_ge hF.log_le hF.last_ne (by have := hF.size_le; omega) hF.spread hF.spreadEq σ a b hne
      (fun s hs => hF.covers s (by rw [hσ]; exact hs)) (hF.not_rle a (hF.covers a (by rw [hσ]; simp)).1) (by rw [← hσ]; exact hws) fields hf
      src (pos + 1) h.size (by rw [hcw]) (by rw [hcw]; exact hbody)
  have hw12 : ∀ w ∈ ws, w ≤ Gen.HUF_TABLELOG_MAX := fun w hw => by
    have := ok.le_log w (by simp [hw]); unfold Gen.HUF_TABLELOG_MAX; omega
  obtain ⟨m1, m2, m3, m4⟩ := LitRT.direct_math ws last log ok hlast
  have c1 : ¬ n = 0 := by omega
  have c2 : ¬ h.size ≥ 128 := by omega
  have c3 : ¬ h.size + 1 > n := by omega
  unfold readStats
  simp only [bind, Except.bind, pure, Except.pure, throw, throwThe, MonadExceptOf.throw, c1, c2, ↓reduceIte, hb0, c3, hdw]
  rw [List.forIn_toArray, LitRT.weights_loop_fwd Gen.HUF_TABLELOG_MAX _ ws hw12 0 0]
  have hz : (kraftSum ws == 0) = false := by simpa using m1
  have c5 : ¬ log > Gen.HUF_TABLELOG_MAX := by unfold Gen.HUF_TABLELOG_MAX; omega
  have hb : highbit (2 ^ (last - 1)) = last - 1 := Nat.log2_two_pow
  have hv : (1 <<< (last - 1) != 2 ^ (last - 1)) = false := by rw [Nat.shiftLeft_eq, Nat.one_mul]; simp
  have hl1 : last - 1 + 1 = last := by omega
  have hused : h.size + 1 = wh.size := by omega
  have hcnt : (ws ++ [last]).count 1 = ws.count 1 + if last = 1 then 1 else 0 := by
    rw [List.count_append, List.count_cons, List.count_nil]
    by_cases h1 : last = 1
    · subst h1; simp
    · have : (last == 1) = false := by simpa using h1
      simp [h1, this]
  simp only [Nat.zero_add, hz, Bool.false_eq_true, ↓reduceIte, m2, c5, m3, hb, hv, hl1, hused]
  by_cases h1 : last = 1
  · subst h1
    simp only [if_true] at m4 hcnt
    have d1 : ¬ ws.count 1 + 1 < 2 := by omega
    have d2 : ((ws.count 1 + 1) % 2 == 1) = false := by rw [m4]; rfl
    simp only [BEq.rfl, ↓reduceIte, d1, d2, decide_false, Bool.or_self, Bool.false_eq_true]
  · have hne1 : (last == 1) = false := by simpa using h1
    simp only [h1, if_false, Nat.add_zero] at m4 hcnt
    have d1 : ¬ ws.count 1 < 2 := by omega
    have d2 : (ws.count 1 % 2 == 1) = false := by rw [m4]; rfl
    simp only [hne1, ↓reduceIte, d1, d2, decide_false, Bool.or_self, Bool.false_eq_true]

/-! ### 6. the tree description whichever form HUF_writeCTable_wksp picks, and the literals section with it -/

open ZstdVerif.HufRT ZstdVerif.HufEnc ZstdVerif.Huf ZstdVerif.LitEnc in
/-- HUF_readStats_body reads back what HUF_writeCTable_wksp wrote (`LitEnc.treeDescr`), in the FSE-compressed form (`readStats_fse`) or
in the direct form (`LitRT.readStats_direct`) -/
theorem readStats_descr (ws : List Nat) (last log : Nat) (ok : WeightsOK (ws.toArray.push last) log) (hlast : 0 < last)
    (hlog : log ≤ 12) (hr1 : 2 ≤ (ws ++ [last]).count 1) (hws1 : 1 ≤ ws.length) (hws : ws.length ≤ 255) (norm : Array Int) (L : Nat)
    (hF : WeightsFseOK norm L ws) (wh : ByteArray) (hwh : treeDescr norm L ws = some wh) (src : Bytes) (pos n : Nat)
    (hsrc : src.extract pos (pos + wh.size) = wh) (hn : wh.size ≤ n) :
    readStats src pos n = .ok ⟨ws.toArray.push last, log, wh.size⟩ := by
  unfold treeDescr at hwh
  cases hf : fseWeights norm L ws with
  | some h =>
    rw [hf] at hwh
    injection hwh with hwh
    subst hwh
    exact readStats_fse ws last log ok hlast hlog hr1 hws norm L hF h hf src pos n hsrc hn
  | none =>
    rw [hf] at hwh
    exact LitRT.readStats_direct ws last log ok hlast hlog hr1 hws1 wh hwh src pos n hsrc hn

open ZstdVerif.HufRT ZstdVerif.HufEnc ZstdVerif.Huf ZstdVerif.LitEnc ZstdVerif.Block ZstdVerif.HufBytes in
/-- **COMPRESSED LITERALS, tree description as HUF_writeCTable_wksp writes it** (FSE-compressed weights when that is smaller, else the
direct form).  `LitRT.literals_roundtrip_compressed` with `wh = treeDescr norm L ws`: ZSTD_decodeLiteralsBlock returns exactly `syms`,
consumes exactly the section, reports `compressed` and installs the table built from the weights.  Extra hypotheses: `WeightsFseOK` on the
normalised counts of the weight values, at most 256 symbols. -/
theorem literals_roundtrip_compressed_fse (ws : List Nat) (last log : Nat) (ok : WeightsOK (ws.toArray.push last) log)
    (hlast : 0 < last) (hlog : log ≤ 12) (hr1 : 2 ≤ (ws ++ [last]).count 1) (hws1 : 1 ≤ ws.length) (hws : ws.length ≤ 255)
    (norm : Array Int) (L : Nat) (hF : WeightsFseOK norm L ws)
    (single : Bool) (wh streams : ByteArray) (syms : List Nat) (hwh : treeDescr norm L ws = some wh)
    (hstreams : hufStreams single (codesOf (ws.toArray.push last) log) syms = some streams)
    (hsyms : ∀ s ∈ syms, ∃ hs : s < (ws.toArray.push last).size, 0 < (ws.toArray.push last)[s])
    (src : Bytes) (start srcSize : Nat) (ent : Entropy) (bsm dstCap : Nat)
    (hsec : src.extract start (start + (compressedLiterals single wh streams syms.length).size)
      = compressedLiterals single wh streams syms.length)
    (hsingle : single = true → syms.length < 1024)
    (hc : wh.size + streams.size < syms.length) (hn : syms.length ≤ 2 ^ 17)
    (hbsm : syms.length ≤ bsm) (hcap : syms.length ≤ dstCap)
    (hsz : (compressedLiterals single wh streams syms.length).size ≤ srcSize) (h5 : 5 ≤ srcSize) :
    decodeLiterals src start srcSize ent bsm dstCap
      = .ok { lits := litBytes syms, used := (compressedLiterals single wh streams syms.length).size,
              ent := { ent with huf := some (buildTable ⟨ws.toArray.push last, log, wh.size⟩) }, mode := .compressed,
              streams := if single then 1 else 4 } := by
  have hwhsrc : src.extract (start + lhSize syms.length) (start + lhSize syms.length + wh.size) = wh := by
    have := embedded_part (compressedHeader set_compressed single syms.length (wh.size + streams.size)) wh streams hsec
    rwa [LitRT.compressedHeader_size] at this
  have hstats := readStats_descr ws last log ok hlast hlog hr1 hws1 hws norm L hF wh hwh src (start + lhSize syms.length)
    (wh.size + streams.size) hwhsrc (by omega)
  exact LitRT.literals_roundtrip_compressed_of_stats single wh streams syms _ log src start srcSize ent bsm dstCap hsec hstats
    (by omega) hsyms hstreams hsingle hc hn hbsm hcap hsz h5

end ZstdVerif.WeightsRT
