/-
C09 — Truncation, size lies and checksum damage are reported, never accepted.
Theorems about the frame walker (Model/Walker.lean): the extent of a frame is determined by the bytes inside it,
so no proper prefix of a frame (or of a sequence of frames, cut anywhere but at a frame boundary) is accepted, and
trailing non-frame bytes are rejected; plus the epilogue and pledged-size laws.
-/
import ZstdVerif.Model.Walker
namespace ZstdVerif.Props.C09
open ZstdVerif ZstdVerif.Walker

/-- **locality of the block walk**: if the blocks occupy `u` bytes, then with ANY amount of available input
`rem' ≥ u` the answer is the same `u`, and with any `rem' < u` the walk fails. -/
theorem walkBlocks_exact (g : Get) (ip rem u : Nat) (h : walkBlocks g ip rem = .ok u) :
    u ≤ rem ∧ (∀ rem', u ≤ rem' → walkBlocks g ip rem' = .ok u) ∧
    (∀ rem', rem' < u → ∃ e, walkBlocks g ip rem' = .error e) := by
  induction rem using Nat.strongRecOn generalizing ip u with
  | _ rem ih =>
    have hx := bExtent_ge (le24 g ip)
    unfold walkBlocks at h
    split at h; · simp at h
    split at h; · simp at h
    split at h; · simp at h
    rename_i h3 hty hc
    split at h
    · -- last block
      rename_i hlast
      cases h
      refine ⟨by omega, fun rem' hr => ?_, fun rem' hr => ?_⟩
      · unfold walkBlocks
        rw [if_neg (by omega), if_neg hty, dif_neg (by omega), if_pos hlast]
      · unfold walkBlocks
        by_cases h3' : rem' < 3
        · exact ⟨_, by rw [if_pos h3']⟩
        · rw [if_neg h3', if_neg hty, dif_pos (by omega)]; exact ⟨_, rfl⟩
    · rename_i hlast
      split at h
      · rename_i u' hrec
        cases h
        obtain ⟨hle, hge, hlt⟩ := ih (rem - bExtent (le24 g ip)) (by omega) _ _ hrec
        refine ⟨by omega, fun rem' hr => ?_, fun rem' hr => ?_⟩
        · unfold walkBlocks
          rw [if_neg (by omega), if_neg hty, dif_neg (by omega), if_neg hlast, hge (rem' - _) (by omega)]
        · unfold walkBlocks
          by_cases h3' : rem' < 3
          · exact ⟨_, by rw [if_pos h3']⟩
          · rw [if_neg h3', if_neg hty]
            by_cases hc' : rem' < bExtent (le24 g ip)
            · exact ⟨_, by rw [dif_pos hc']⟩
            · rw [dif_neg hc', if_neg hlast]
              obtain ⟨e, he⟩ := hlt (rem' - bExtent (le24 g ip)) (by omega)
              rw [he]; exact ⟨_, rfl⟩
      · simp at h

/-- **locality of the frame extent** (ZSTD_findFrameCompressedSize): a frame of size `n` is recognised with the same
size whenever at least `n` bytes are available, and is rejected whenever fewer are. -/
theorem frameSize_exact (g : Get) (ip rem n : Nat) (h : frameSize g ip rem = .ok n) :
    n ≤ rem ∧ 0 < n ∧ (∀ rem', n ≤ rem' → frameSize g ip rem' = .ok n) ∧ (∀ rem', rem' < n → ∃ e, frameSize g ip rem' = .error e) := by
  unfold frameSize at h
  split at h; · simp at h
  rename_i h5
  split at h
  · -- skippable
    rename_i hsk
    split at h; · simp at h
    split at h; · simp at h
    rename_i h8 hsz
    cases h
    refine ⟨by omega, by omega, fun rem' hr => ?_, fun rem' hr => ?_⟩
    · unfold frameSize
      rw [if_neg (by omega), if_pos hsk, if_neg (by omega), if_neg (by omega)]
    · unfold frameSize
      by_cases a : rem' < 5
      · exact ⟨_, by rw [if_pos a]⟩
      · rw [if_neg a, if_pos hsk]
        by_cases b : rem' < 8
        · exact ⟨_, by rw [if_pos b]⟩
        · rw [if_neg b, if_pos (by omega)]; exact ⟨_, rfl⟩
  · rename_i hsk
    split at h; · simp at h
    rename_i hmagic
    split at h; · simp at h
    rename_i hhs
    split at h; · simp at h
    rename_i hres
    split at h
    · simp at h
    · rename_i u hw
      obtain ⟨hle, hge, hlt⟩ := walkBlocks_exact g _ _ _ hw
      have hu3 : 3 ≤ u := by
        rcases Nat.lt_or_ge u 3 with hlt3 | hge3
        · exfalso
          have hwb := hw
          unfold walkBlocks at hwb
          have hx := bExtent_ge (le24 g (ip + headerSize (g (ip + 4))))
          split at hwb; · simp at hwb
          split at hwb; · simp at hwb
          split at hwb; · simp at hwb
          split at hwb
          · cases hwb; omega
          · split at hwb
            · cases hwb; omega
            · simp at hwb
        · exact hge3
      split at h; · simp at h
      rename_i hck
      cases h
      have hhs5 := headerSize_ge (g (ip + 4))
      refine ⟨by omega, by omega, fun rem' hr => ?_, fun rem' hr => ?_⟩
      · unfold frameSize
        rw [if_neg (by omega), if_neg hsk, if_neg hmagic, if_neg (by omega), if_neg hres, hge (rem' - _) (by omega)]
        simp only
        rw [if_neg (by omega)]
      · unfold frameSize
        by_cases a : rem' < 5
        · exact ⟨_, by rw [if_pos a]⟩
        · rw [if_neg a, if_neg hsk, if_neg hmagic]
          by_cases b : rem' < headerSize (g (ip + 4))
          · exact ⟨_, by rw [if_pos b]⟩
          · rw [if_neg b, if_neg hres]
            by_cases c : rem' - headerSize (g (ip + 4)) < u
            · obtain ⟨e, he⟩ := hlt _ c
              rw [he]; exact ⟨_, rfl⟩
            · rw [hge _ (by omega)]
              simp only
              rw [if_pos (by omega)]; exact ⟨_, rfl⟩

/-- **(a) a non-empty proper prefix of a frame is rejected** by the multi-frame walk, whatever follows the cut. -/
theorem prefix_rejected (g : Get) (n k fuel : Nat) (h : frameSize g 0 n = .ok n) (hk0 : 0 < k) (hkn : k < n) :
    ∃ e, frames g (fuel + 1) 0 k = .error e := by
  obtain ⟨_, _, _, hlt⟩ := frameSize_exact g 0 n n h
  obtain ⟨e, he⟩ := hlt k hkn
  unfold frames
  rw [if_neg (by omega), he]
  exact ⟨_, rfl⟩

/-- **(a′) several frames**: if a cut of a valid multi-frame stream is itself accepted, then the cut lies exactly on a
frame boundary: the accepted frames are the first frames of the original, nothing else. -/
theorem accepted_prefix_is_frame_boundary (g : Get) (f f' ip n k : Nat) (L L' : List Nat)
    (h : frames g f ip n = .ok L) (h' : frames g f' ip k = .ok L') (hk : k ≤ n) : L' <+: L := by
  induction f generalizing f' ip n k L L' with
  | zero =>
    unfold frames at h
    split at h
    · cases h
      have : k = 0 := by omega
      subst this
      cases f' <;> (unfold frames at h'; simp at h'; subst h'; exact List.prefix_refl _)
    · simp at h
  | succ f ih =>
    unfold frames at h
    split at h
    · cases h
      have : k = 0 := by omega
      subst this
      cases f' <;> (unfold frames at h'; simp at h'; subst h'; exact List.prefix_refl _)
    · rename_i hn0
      split at h; · simp at h
      rename_i n1 hfs
      split at h
      · rename_i L1 hrec
        cases h
        obtain ⟨hle, hpos, hge, hlt⟩ := frameSize_exact g ip n n1 hfs
        cases f' with
        | zero =>
          unfold frames at h'
          split at h'
          · cases h'; exact List.nil_prefix
          · simp at h'
        | succ f'' =>
          unfold frames at h'
          split at h'
          · cases h'; exact List.nil_prefix
          · rename_i hk0
            by_cases hkn1 : k < n1
            · obtain ⟨e, he⟩ := hlt k hkn1
              rw [he] at h'; simp at h'
            · rw [hge k (by omega)] at h'
              simp only at h'
              split at h'
              · rename_i L1' hrec'
                cases h'
                have := ih f'' (ip + n1) (n - n1) (k - n1) L1 L1' hrec hrec' (by omega)
                exact (List.prefix_cons_inj n1).mpr this
              · simp at h'
      · simp at h

/-- frames tile the input exactly: accepted ⇒ the sizes add up to the whole input (nothing is left over) -/
theorem frames_tile (g : Get) (f ip n : Nat) (L : List Nat) (h : frames g f ip n = .ok L) : L.sum = n := by
  induction f generalizing ip n L with
  | zero => unfold frames at h; split at h <;> simp_all
  | succ f ih =>
    unfold frames at h
    split at h
    · cases h; simp_all
    · split at h; · simp at h
      rename_i n1 hfs
      split at h
      · rename_i L1 hrec
        cases h
        obtain ⟨hle, _, _, _⟩ := frameSize_exact g ip n n1 hfs
        have := ih _ _ _ hrec
        simp [this]; omega
      · simp at h

/-- **(b) trailing bytes that are not a frame make the walk fail**: if after the valid frames the next bytes do not
start a frame (frameSize fails on them), the whole input is rejected. -/
theorem trailing_garbage_rejected (g : Get) (f ip n r : Nat) (L : List Nat) (h : frames g f ip n = .ok L)
    (hr : 0 < r) (hg : ∀ rem', ∃ e, frameSize g (ip + n) rem' = .error e) :
    ∀ f', ∃ e, frames g f' ip (n + r) = .error e := by
  induction f generalizing ip n L with
  | zero =>
    unfold frames at h
    split at h
    · rename_i hn; subst hn
      intro f'
      cases f' with
      | zero => unfold frames; rw [if_neg (by omega)]; exact ⟨_, rfl⟩
      | succ f'' =>
        unfold frames; rw [if_neg (by omega)]
        obtain ⟨e, he⟩ := hg (0 + r)
        simp only [Nat.add_zero] at he
        rw [he]; exact ⟨_, rfl⟩
    · simp at h
  | succ f ih =>
    unfold frames at h
    split at h
    · rename_i hn; subst hn
      intro f'
      cases f' with
      | zero => unfold frames; rw [if_neg (by omega)]; exact ⟨_, rfl⟩
      | succ f'' =>
        unfold frames; rw [if_neg (by omega)]
        obtain ⟨e, he⟩ := hg (0 + r)
        simp only [Nat.add_zero] at he
        rw [he]; exact ⟨_, rfl⟩
    · split at h; · simp at h
      rename_i n1 hfs
      split at h
      · rename_i L1 hrec
        obtain ⟨hle, hpos, hge, hlt⟩ := frameSize_exact g ip n n1 hfs
        intro f'
        cases f' with
        | zero => unfold frames; rw [if_neg (by omega)]; exact ⟨_, rfl⟩
        | succ f'' =>
          unfold frames; rw [if_neg (by omega), hge (n + r) (by omega)]
          simp only
          have hg' : ∀ rem', ∃ e, frameSize g (ip + n1 + (n - n1)) rem' = .error e := by
            intro rem'
            have : ip + n1 + (n - n1) = ip + n := by omega
            rw [this]; exact hg rem'
          obtain ⟨e, he⟩ := ih (ip + n1) (n - n1) L1 hrec hg' f''
          have : n + r - n1 = n - n1 + r := by omega
          rw [this, he]; exact ⟨_, rfl⟩
      · simp at h

/-! ### content size and checksum -/

/-- **(c)** with a content-size field, success implies the regenerated size equals it -/
theorem fcs_enforced (n regen : Nat) (ck ign : Bool) (st co : Nat) (h : epilogue (some n) regen ck st co ign = .ok ()) : regen = n := by
  unfold epilogue at h
  simp only at h
  split at h
  · simp at h
  · rename_i hne; simp at hne; omega

/-- **(c)** with a checksum (not explicitly ignored), success implies the stored value equals the computed one -/
theorem checksum_enforced (fcs : Option Nat) (regen st co : Nat) (h : epilogue fcs regen true st co false = .ok ()) : st = co := by
  unfold epilogue at h
  cases fcs with
  | none =>
    simp only at h
    split at h
    · simp at h
    · rename_i hne; simp at hne; exact hne
  | some n =>
    simp only at h
    split at h
    · simp at h
    · split at h
      · simp at h
      · rename_i hne; simp at hne; exact hne

/-! ### pledged source size -/

/-- once the frame has started with a pledge, no call can push the consumed total beyond it, and the pledge is kept -/
theorem pledge_never_exceeded (p p' : Pledge) (n : Nat) (d : Dir) (hs : p.started = true) (hp : p.plusOne ≠ 0)
    (h : p.call n d = .ok p') : p'.plusOne = p.plusOne ∧ p'.consumed + 1 ≤ p.plusOne ∧ p'.consumed = p.consumed + n := by
  unfold Pledge.call at h
  simp [hs] at h
  split at h
  · simp at h
  · split at h
    · simp at h
    · cases h; simp; omega

/-- **(d)** a successful `end` on a started, pledged frame means exactly the pledged number of bytes was supplied -/
theorem pledge_enforced_partial (p p' : Pledge) (n : Nat) (hs : p.started = true) (hp : p.plusOne ≠ 0)
    (h : p.call n .end_ = .ok p') : p'.consumed + 1 = p.plusOne := by
  unfold Pledge.call at h
  simp [hs] at h
  split at h
  · simp at h
  · split at h
    · simp at h
    · rename_i h1 h2; cases h; simp at h2 ⊢; omega

/-- the FULL statement (`pledge_enforced`: also when the very first call of the frame is `end`) is FALSE of the code as
it is: the pledge is silently replaced by the supplied size.  Witness: pledge 100, one `end` call with 50 bytes. -/
theorem pledge_first_end_overrides :
    (Pledge.call { plusOne := 101, consumed := 0, started := false } 50 .end_) = .ok { plusOne := 51, consumed := 50, started := true } := by
  rfl

/-! non-vacuity: a concrete 12-byte frame (magic, descriptor 0x20 = single segment, FCS byte, one raw last block of 3 bytes) -/
def sampleFrame : List Nat := [0x28, 0xB5, 0x2F, 0xFD, 0x20, 0x03, 0x19, 0x00, 0x00, 0x61, 0x62, 0x63]
def sampleGet : Get := fun i => sampleFrame.getD i 0
theorem sample_walk : walkBlocks sampleGet 6 6 = .ok 6 := by
  rw [walkBlocks]; simp [sampleGet, sampleFrame, le24, bType, bExtent, bLast]
example : frameSize sampleGet 0 12 = .ok 12 := by
  have hs : headerSize (sampleGet 4) = 6 := by decide
  unfold frameSize
  rw [hs]
  simp [sample_walk, isSkippable, ckSize]
  simp [sampleGet, sampleFrame, le32, Gen.ZSTD_MAGICNUMBER, Gen.ZSTD_MAGIC_SKIPPABLE_START]

end ZstdVerif.Props.C09
