/-
Sequence tables described in a block (`set_compressed`): the round-trip theorems of Lemmas/BlockRT.lean WITHOUT the two side conditions
on the spreading of symbols.  `BlockRT.TableOK` asks of a described table, besides the distribution hypotheses, the two facts
`spreadOK (spreadEnc norm L) norm L = true` and `spreadEnc norm L = spread norm L`; Lemmas/SpreadRT.lean proves both for EVERY
normalised distribution (`FSE.spreadEnc_eq_spread`, `FSE.spread_ok`).  Here: `TableDescOK` / `TablesDescOK` / `Tiles2D` / `FrameOK2D` =
the same predicates with the distribution hypotheses only; `tableOK_of_distribution` derives `TableOK`; `block_roundtrip_described_tables`
and `frame_roundtrip_described_tables` are `block_roundtrip` / `frame_roundtrip_compressed` under the lighter predicates.
-/
import ZstdVerif.Lemmas.BlockRT
import ZstdVerif.Lemmas.SpreadRT
namespace ZstdVerif.BlockRT
open ZstdVerif ZstdVerif.Gen ZstdVerif.FSE ZstdVerif.SeqEnc ZstdVerif.LitEnc ZstdVerif.BlockEnc ZstdVerif.Rep
open ZstdVerif.SeqRT (repOf)
open ZstdVerif.Block (Entropy)
open ZstdVerif.FrameRT (Holds)
open ZstdVerif.Exec (ValidParse)
open ZstdVerif.Serialize ZstdVerif.HeaderW

/-- what a RESOLVED mode choice must satisfy, stated on the distribution alone (`TableOK` minus its two spreading conjuncts): for
`set_compressed` a normalised distribution (`FSE.NormOK`: counts ≥ -1, "less than one" counting for one cell, adding up to `2^L`) with
`FSE_MIN_TABLELOG = 5 ≤ L ≤ maxLog`, an alphabet within the limit, last symbol present -/
def TableDescOK (maxSym maxLog : Nat) : SeqTableChoice → Prop
  | .predefined => True
  | .rle _ => True
  | .fse norm L => NormOK norm L ∧ 5 ≤ L ∧ L ≤ maxLog ∧ norm.size ≤ maxSym + 1 ∧ norm[norm.size - 1]! ≠ 0
  | .repeat => False

instance (maxSym maxLog : Nat) (c : SeqTableChoice) : Decidable (TableDescOK maxSym maxLog c) := by
  cases c <;> (simp only [TableDescOK]; infer_instance)

/-- `TableDescOK` for the three resolved decisions of a block, with the limits of ZSTD_decodeSeqHeaders -/
def TablesDescOK (t : Tables) : Prop :=
  TableDescOK MaxLL LLFSELog t.ll ∧ TableDescOK MaxOff OffFSELog t.of ∧ TableDescOK MaxML MLFSELog t.ml

instance (t : Tables) : Decidable (TablesDescOK t) := by unfold TablesDescOK; infer_instance

/-- **tableOK_of_distribution**: the two spreading conjuncts of `TableOK` follow from its distribution conjuncts -/
theorem tableOK_of_distribution {maxSym maxLog : Nat} {c : SeqTableChoice} (h : TableDescOK maxSym maxLog c) : TableOK maxSym maxLog c := by
  cases c with
  | predefined => trivial
  | rle s => trivial
  | «repeat» => exact h
  | fse norm L =>
    obtain ⟨hN, h5, hL, hsz, hlast⟩ := h
    have hE := spreadEnc_eq_spread hN
    exact ⟨hN, h5, hL, hsz, hlast, by rw [hE]; exact (spreadOK_iff _ _ _).2 (spread_ok hN (by omega)), hE⟩

theorem tableOK_iff_distribution {maxSym maxLog : Nat} {c : SeqTableChoice} : TableOK maxSym maxLog c ↔ TableDescOK maxSym maxLog c := by
  refine ⟨fun h => ?_, tableOK_of_distribution⟩
  cases c with
  | predefined => trivial
  | rle s => trivial
  | «repeat» => exact h
  | fse norm L =>
    obtain ⟨hN, h5, hL, hsz, hlast, -, -⟩ := h
    exact ⟨hN, h5, hL, hsz, hlast⟩

theorem tablesOK_of_distribution {t : Tables} (h : TablesDescOK t) : TablesOK t :=
  ⟨tableOK_of_distribution h.1, tableOK_of_distribution h.2.1, tableOK_of_distribution h.2.2⟩

/-- `Tiles2` with `TablesDescOK` in place of `TablesOK` -/
def Tiles2D (dc : ByteArray) (bsm : Nat) (x : ByteArray) (bs : List BlockChoice2) (pos : Nat) (rep : Rep.R)
    (prev : Option Tables := none) : Prop :=
  match bs with
  | [] => pos = x.size
  | .raw n :: rest => pos + n ≤ x.size ∧ n ≤ bsm ∧ Tiles2D dc bsm x rest (pos + n) rep prev
  | .rle b n :: rest =>
    pos + n ≤ x.size ∧ n ≤ bsm ∧ x.extract pos (pos + n) = ByteArray.mk (Array.replicate n b) ∧ Tiles2D dc bsm x rest (pos + n) rep prev
  | .compressed c t lits raws :: rest =>
    pos + parseLen lits raws ≤ x.size ∧ parseLen lits raws ≤ bsm ∧
    ValidParse dc (x.extract 0 pos) (x.extract pos (pos + parseLen lits raws)) lits ((raws.map toRT).map toSeq) ∧
    (∀ q ∈ raws, q.rawOffset + 3 < 2 ^ 32) ∧ LitOK c lits ∧
    (usesRepeat t = true → prev.isSome = true) ∧ TablesDescOK (Tables.resolve (prev.getD {}) t) ∧
    CodesOK (Tables.resolve (prev.getD {}) t) (BlockEnc.storeAll rep raws).1 ∧
    (serializeBlockBody c lits t (BlockEnc.storeAll rep raws).1 (prev.getD {})).size ≤ bsm ∧
    Tiles2D dc bsm x rest (pos + parseLen lits raws) (BlockEnc.storeAll rep raws).2 (nextTables prev t (BlockEnc.storeAll rep raws).1)

theorem tiles2_of_described (dc : ByteArray) (bsm : Nat) (x : ByteArray) (bs : List BlockChoice2) :
    ∀ (pos : Nat) (rep : Rep.R) (prev : Option Tables), Tiles2D dc bsm x bs pos rep prev → Tiles2 dc bsm x bs pos rep prev := by
  induction bs with
  | nil => intro pos rep prev h; exact h
  | cons b rest ih =>
    intro pos rep prev h
    cases b with
    | raw n => exact ⟨h.1, h.2.1, ih _ _ _ h.2.2⟩
    | rle b n => exact ⟨h.1, h.2.1, h.2.2.1, ih _ _ _ h.2.2.2⟩
    | compressed c t lits raws =>
      obtain ⟨h1, h2, h3, h4, h5, h6, h7, h8, h9, h10⟩ := h
      exact ⟨h1, h2, h3, h4, h5, h6, tablesOK_of_distribution h7, h8, h9, ih _ _ _ h10⟩

/-- `FrameOK2` with `Tiles2D` in place of `Tiles2`: no hypothesis mentions the spreading of symbols -/
def FrameOK2D (dc : ByteArray) (a : HArgs) (bs : List BlockChoice2) (x : ByteArray) : Prop :=
  a.wf ∧ (a.noDictID = true ∨ a.dictID = 0) ∧ a.magicless = false ∧ (a.contentSizeFlag = true → a.pledged = x.size) ∧
    Tiles2D dc (FrameRT.blockSizeMaxOf a) x bs 0 repStart

theorem frameOK2_of_described {dc : ByteArray} {a : HArgs} {bs : List BlockChoice2} {x : ByteArray} (h : FrameOK2D dc a bs x) :
    FrameOK2 dc a bs x :=
  ⟨h.1, h.2.1, h.2.2.1, h.2.2.2.1, tiles2_of_described _ _ _ _ _ _ _ h.2.2.2.2⟩

/-- **block_roundtrip_described_tables**: `block_roundtrip` whose table hypothesis (`TablesDescOK`) is about the distributions only -/
theorem block_roundtrip_described_tables (dict pre prev x lits : ByteArray) (raws : List SeqRT.RawSeq) (c : LitChoice) (t : Tables)
    (src : Bytes) (start : Nat) (ent : Entropy) (bsm cap : Nat) (pt : Option Tables)
    (hv : ValidParse dict prev x lits (raws.map toSeq))
    (hx : x.size ≤ bsm) (hb17 : bsm ≤ 2 ^ 17) (hoff : ∀ q ∈ raws, q.rawOffset + 3 < 2 ^ 32)
    (hrep : RepPos (repOf ent.rep)) (hent : EntMatch pt ent)
    (hc : LitOK c lits) (hrp : usesRepeat t = true → pt.isSome = true) (hT : TablesDescOK (Tables.resolve (pt.getD {}) t))
    (hok : CodesOK (Tables.resolve (pt.getD {}) t) (SeqRT.storeAll (repOf ent.rep) raws).1)
    (H : Holds src start (serializeBlockBody c lits t (SeqRT.storeAll (repOf ent.rep) raws).1 (pt.getD {})))
    (hsize : (serializeBlockBody c lits t (SeqRT.storeAll (repOf ent.rep) raws).1 (pt.getD {})).size ≤ bsm)
    (hcap : pre.size + prev.size + x.size ≤ cap) :
    ∃ ent2 tr, Block.decodeBlock src start (serializeBlockBody c lits t (SeqRT.storeAll (repOf ent.rep) raws).1 (pt.getD {})).size ent dict
        { out := pre ++ prev, frameStart := pre.size, cap := cap } bsm = .ok (pre ++ prev ++ x, ent2, tr) ∧
      repOf ent2.rep = (SeqRT.storeAll (repOf ent.rep) raws).2 ∧ RepPos (repOf ent2.rep) ∧ tr.nbSeq = raws.length ∧
      EntMatch (nextTables pt t (SeqRT.storeAll (repOf ent.rep) raws).1) ent2 :=
  block_roundtrip dict pre prev x lits raws c t src start ent bsm cap pt hv hx hb17 hoff hrep hent hc hrp (tablesOK_of_distribution hT)
    hok H hsize hcap

/-- **frame_roundtrip_described_tables**: `frame_roundtrip_compressed` under `FrameOK2D` -/
theorem frame_roundtrip_described_tables (a : HArgs) (bs : List BlockChoice2) (x : ByteArray) (dict : Frame.Dict)
    (hok : FrameOK2D dict.content a bs x) (hrep0 : repOf dict.ent.rep = repStart)
    (cap : Nat) (hcap : x.size ≤ cap) (o : Frame.Opts) (hml : o.magicless = false) (hmb : o.maxBlockSize = 0) :
    ∃ traces, Frame.decompressAll (serializeFrame2 a bs x) dict cap o = .ok (x, traces) :=
  frame_roundtrip_compressed a bs x dict (frameOK2_of_described hok) hrep0 cap hcap o hml hmb

/-- non-vacuity: the demonstration tables of Lemmas/BlockRT.lean satisfy the lighter predicate, hence `TablesOK` without evaluating any spreading -/
example : TablesDescOK demoFse := by decide
example : TablesOK demoFse := tablesOK_of_distribution (by decide)

end ZstdVerif.BlockRT
