/-
Round trip of a whole COMPRESSED BLOCK and of whole FRAMES that contain compressed blocks, through the full decoder model
(property C01, "lossless one-shot round trip for every input"): the compressor's match finders are an ORACLE that outputs a parse
(literals + sequences); whatever parse they output, if it is valid, the emitted bytes decode to the source.

Writer: Model/BlockEnc.lean (ZSTD_entropyCompressSeqStore_internal + block header of ZSTD_compress_frameChunk; tied to the real decoder
by tools/ent_block.py through `zvdriver blockenc`).  Decoder: Model/Block.lean, Model/Frame.lean, UNCHANGED.
The layer theorems assembled here: LitRT (literals section), SeqRT + BitsRT (sequence bit stream), ExecRT (execution of a valid
parse), FrameRT (frame header, block loop technique, epilogue).

  1  seq_section_roundtrip_at     SeqRT.seq_section_roundtrip with the bit stream at an offset inside the block (BitR.bits_roundtrip_at)
  2  readNbSeq / seqTail / prepare_of_parts   `Block.prepare` = literals stage, nbSeq field, tables + sequences (code copied verbatim; the
                                  equality is checked by unfolding)
  3  seq_header_roundtrip         the three encodings of the number of sequences
  4  buildSeqTable_choice, inverts_choice, seqHead_fields    the modes byte; predefined, RLE, described (FSE_writeNCount / FSE_readNCount:
                                  Lemmas/NCountRT.lean) and repeated tables on both sides; TableOK / TablesOK = what a described table must satisfy
  5  seqTail_serialized           tables + sequences stage on what the writer wrote; EntIs / EntMatch = the decoder carries the tables of the
                                  encoder's previous resolved decisions (`BlockEnc.nextTables`)
  6  litSection_roundtrip_treeless   literals section in any of the four modes (raw, RLE, Huffman with direct tree description, TREELESS = the
                                  Huffman table of an earlier block re-used: `LitRT.literals_roundtrip_treeless`); HufMatch = the decoder carries
                                  the table of the encoder's `BlockEnc.nextHuf`; litSection_roundtrip = the three modes without a previous table
  7  prepare_serialized           `Block.prepare` on `serializeBlockBody`
  8-9 validFrom_sizes, validFrom_congr, storeAll_pos          what validity of a parse implies (lengths, nbSeq, positive histories)
  10 block_roundtrip_treeless     MAIN: decodeBlock (serializeBlockBody parse) appends the block content; repeat-offset histories, carried
                                  sequence tables and the carried Huffman table stay in lock step (block_roundtrip: no previous Huffman table
                                  known, hence no treeless literals; block_roundtrip_basic: one block on its own, no set_repeat either)
  11 blocks_loopT, decompressFrame_serializedT, frame_roundtrip_compressed_treeless    whole frames of raw / RLE / compressed blocks; `TilesT`
                                  threads the repeat-offset history, the previous table decisions AND the previous Huffman table;
                                  blocks_loop2, decompressFrame_serialized2, frame_roundtrip_compressed = the same for `Tiles2` (no treeless literals)
  12 codesOK_predefined           with predefined tables the only hypothesis on codes is `rawOffset + 3 < 2^29`

All four sequence-table modes are covered: `set_basic`, `set_rle`, `set_compressed` (description round trip: `NCountRT.ncount_roundtrip`;
bit stream: `SeqRT.inverts_build`; the normalised counts are a DECISION, FSE_normalizeCount is not modelled: any distribution that
`TableOK` accepts) and `set_repeat` (the table of the previous compressed block with sequences OF THE SAME FRAME).
Literals: raw, RLE, Huffman with a new table in the direct description (`.huffman`) or in the description the whole of
HUF_writeCTable_wksp writes, FSE-compressed weights when that is smaller (`.huffmanFse`, Lemmas/WeightsRT.lean), and TREELESS
(`hType = set_repeat`: the table of the last earlier block OF THE SAME FRAME that wrote one).
OUT OF SCOPE (stated, not silently dropped): `set_repeat` of a DICTIONARY's tables in the first block with sequences and treeless literals
on a DICTIONARY's Huffman table (the frame theorems start with `prev = none`, `hp = none`, i.e. the writer is not offered the dictionary's
tables: a sound restriction of the encoder's choices).
-/
import ZstdVerif.Model.BlockEnc
import ZstdVerif.Lemmas.LitRT
import ZstdVerif.Lemmas.SeqRT
import ZstdVerif.Lemmas.ExecRT
import ZstdVerif.Lemmas.FrameRT
import ZstdVerif.Lemmas.NCountRT
import ZstdVerif.Lemmas.WeightsRT
set_option linter.unusedSimpArgs false
namespace ZstdVerif.BlockRT
open ZstdVerif ZstdVerif.Gen ZstdVerif.FSE ZstdVerif.SeqEnc ZstdVerif.LitEnc ZstdVerif.BlockEnc ZstdVerif.Rep
open ZstdVerif.SeqRT (Inverts InRange triIn resolveAll repOf repArr)
open ZstdVerif.Block (Seq decodeSeqs SeqDec Entropy)
open ZstdVerif.FrameRT (Holds)

/-! ### 1. the sequence bit stream at an offset inside a larger input -/

section
variable {ctLL ctOF ctML : CTable} {llT ofT mlT : Array SeqCell} {okLL okOF okML : Nat → Prop}

/-- `SeqRT.seq_section_roundtrip` with the stream sitting at `start` inside `src` (derived from `BitR.bits_roundtrip_at` the way the
original is derived from `BitR.bits_roundtrip`) -/
theorem seq_section_roundtrip_at (hLL : Inverts ctLL llT LL_base LL_bits okLL) (hOF : Inverts ctOF ofT OF_base OF_bits okOF)
    (hML : Inverts ctML mlT ML_base ML_bits okML) (seqs : List SeqIn) (hne : seqs ≠ [])
    (hok : ∀ s ∈ seqs, okLL (codesOf s).ll ∧ okOF (codesOf s).of ∧ okML (codesOf s).ml) (hrng : ∀ s ∈ seqs, InRange s)
    (rep0 : Array Nat) (src : Bytes) (start : Nat)
    (hsrc : src.extract start (start + (encodeSeqBytes ctLL ctOF ctML seqs).size) = encodeSeqBytes ctLL ctOF ctML seqs) :
    ∃ r0, BitR.init src start (encodeSeqBytes ctLL ctOF ctML seqs).size = .ok r0 ∧
      let a := r0.read ctLL.tableLog
      let b := a.2.read ctOF.tableLog
      let c := b.2.read ctML.tableLog
      let sd := decodeSeqs llT ofT mlT seqs.length a.1 b.1 c.1 c.2 rep0
      sd.r.atEnd = true ∧
      sd.seqs.toList = (resolveAll (repOf rep0) (seqs.map triIn)).1 ∧
      sd.rep = repArr (resolveAll (repOf rep0) (seqs.map triIn)).2 := by
  obtain ⟨hdec, hw⟩ := SeqRT.three_state_roundtrip hLL hOF hML seqs hne (fun s hs => SeqRT.seqOK_of s (hok s hs) (hrng s hs))
  have hmap : seqs.map SeqRT.triOf = seqs.map triIn := List.map_congr_left (fun s hs => SeqRT.triOf_eq s (hrng s hs))
  rw [hmap] at hdec
  obtain ⟨r0, hinit, -, -, hvals, -, hend⟩ := BitR.bits_roundtrip_at (encodeSeqFields ctLL ctOF ctML seqs)
    (fun f hf => hw f (by simpa [encodeSeqFields] using hf)) src start hsrc
  have hrev : (encodeSeqFields ctLL ctOF ctML seqs).reverse = encodeSeqStack ctLL ctOF ctML seqs := by
    simp [encodeSeqFields]
  rw [hrev] at hvals hend
  have hh := SeqRT.holds_of_readList _ r0 hvals hend
  refine ⟨r0, hinit, ?_⟩
  unfold SeqRT.decodeStackAll at hdec
  simp only [Option.bind_eq_some_iff] at hdec
  obtain ⟨⟨a1, a2⟩, ha, ⟨b1, b2⟩, hb, ⟨c1, c2⟩, hc, hdec⟩ := hdec
  obtain ⟨ra, ha2⟩ := SeqRT.pop_holds ha hh
  obtain ⟨rb, hb2⟩ := SeqRT.pop_holds hb ha2
  obtain ⟨rc, hc2⟩ := SeqRT.pop_holds hc hb2
  have hn : seqs.length ≠ 0 := by cases seqs with
    | nil => exact absurd rfl hne
    | cons => simp
  obtain ⟨f1, f2, f3⟩ := SeqRT.fold_of_stack llT ofT mlT seqs.length seqs.length 0 (by omega) _ _ _ _ rep0 (Array.mkEmpty seqs.length) _ _ _
    hdec hc2
  simp only []
  rw [SeqRT.decodeSeqs_eq_fold, ra, rb, rc]
  simp only []
  have e0 : ∀ X : List Seq, ((Array.mkEmpty seqs.length : Array Seq) ++ X.toArray).toList = X := by simp
  rw [f1, f3 hn, e0]
  obtain ⟨g1, g2⟩ := f2
  refine ⟨?_, rfl, rfl⟩
  have : ∀ r : BitR, r.left = 0 → r.over = false → r.atEnd = true := fun r h1 h2 => by simp [BitR.atEnd, h1, h2]
  exact this _ g1 g2

end

/-! ### 2. `Block.prepare` cut into its three stages -/

/-- the lines of `Block.prepare` (ZSTD_decodeSeqHeaders) that read the number of sequences, verbatim: `ip0` = first byte behind the
literals section, `iend` = end of the block; returns `(nbSeq, position behind the nbSeq field)` -/
def readNbSeq (src : Bytes) (ip0 iend : Nat) : R (Nat × Nat) := do
  let mut ip := ip0
  if iend - ip < MIN_SEQUENCES_SIZE then throw (.srcSizeWrongAt "Block:155")
  let mut nbSeq := src.u8 ip
  ip := ip + 1
  if nbSeq > 0x7F then
    if nbSeq == 0xFF then
      if ip + 2 > iend then throw (.srcSizeWrongAt "Block:160")
      nbSeq := src.le16 ip + LONGNBSEQ
      ip := ip + 2
    else
      if ip ≥ iend then throw (.srcSizeWrongAt "Block:164")
      nbSeq := ((nbSeq - 0x80) <<< 8) + src.u8 ip
      ip := ip + 1
  return (nbSeq, ip)

open ZstdVerif.Block in
/-- the lines of `Block.prepare` behind the nbSeq field, verbatim (rest of ZSTD_decodeSeqHeaders, then the decoding part of
ZSTD_decompressSequences): `ip0` = position behind the nbSeq field, `lr` = what the literals stage returned -/
def seqTail (src : Bytes) (ip0 iend nbSeq : Nat) (lr : LitResult) (dstCap : Nat) : R Prepared := do
  let mut ip := ip0
  let mut tr : Trace := { litMode := lr.mode, litStreams := lr.streams, litSize := lr.lits.size, nbSeq := nbSeq }
  let mut e := lr.ent
  if nbSeq == 0 then
    if ip != iend then throw (.corruptionAt "Block:171")
    return { lits := lr.lits, ent := e, tr := tr, seqs := #[], streamCheck := .ok () }
  if ip + 1 > iend then throw (.srcSizeWrongAt "Block:174")
  let mb := src.u8 ip
  if mb &&& 3 != 0 then throw (.corruptionAt "Block:176")
  ip := ip + 1
  let (llT, llLog, u1) ← buildSeqTable (mb >>> 6) src ip iend MaxLL LLFSELog LL_base LL_bits LL_defaultDTable LL_DEFAULTNORMLOG e.ll e.llLog e.fseValid
  ip := ip + u1
  let (ofT, ofLog, u2) ← buildSeqTable ((mb >>> 4) &&& 3) src ip iend MaxOff OffFSELog OF_base OF_bits OF_defaultDTable OF_DEFAULTNORMLOG e.of e.ofLog e.fseValid
  ip := ip + u2
  let (mlT, mlLog, u3) ← buildSeqTable ((mb >>> 2) &&& 3) src ip iend MaxML MLFSELog ML_base ML_bits ML_defaultDTable ML_DEFAULTNORMLOG e.ml e.mlLog e.fseValid
  ip := ip + u3
  tr := { tr with modes := (mb >>> 6, (mb >>> 4) &&& 3, (mb >>> 2) &&& 3), tableSizes := (u1, u2, u3), bitstreamSize := iend - ip }
  e := { e with ll := llT, llLog := llLog, of := ofT, ofLog := ofLog, ml := mlT, mlLog := mlLog, fseValid := true }
  if dstCap == 0 then throw .dstTooSmall
  let r0 ← match BitR.init src ip (iend - ip) with
    | .ok r => pure r
    | .error er => throw (.corruptionAt ("Block:190<" ++ er.site))
  let (sLL0, r1) := r0.read llLog
  let (sOF0, r2) := r1.read ofLog
  let (sML0, r3) := r2.read mlLog
  let sd := decodeSeqs llT ofT mlT nbSeq sLL0 sOF0 sML0 r3 e.rep
  return { lits := lr.lits, ent := { e with rep := sd.rep }, tr := { tr with seqs := sd.seqs }, seqs := sd.seqs,
           streamCheck := if !sd.r.atEnd then .error (.corruptionAt "Block:256") else .ok () }

/-- `Block.prepare` IS the three stages in sequence: literals (`Block.decodeLiterals`), number of sequences (`readNbSeq`), tables
and sequences (`seqTail`) - on the success path of the first two -/
theorem prepare_of_parts {src : Bytes} {start cSize : Nat} {ent : Entropy} {bsm dstCap : Nat} {lr : Block.LitResult} {n ip : Nat}
    {res : R Block.Prepared} (hsz : cSize ≤ bsm) (hlit : Block.decodeLiterals src start cSize ent bsm dstCap = .ok lr)
    (hnb : readNbSeq src (start + lr.used) (start + cSize) = .ok (n, ip))
    (ht : seqTail src ip (start + cSize) n lr dstCap = res) :
    Block.prepare src start cSize ent bsm dstCap = res := by
  have h1 : ¬ cSize > bsm := by omega
  unfold readNbSeq at hnb
  simp only [bind, Except.bind, pure, Except.pure, throw, throwThe, MonadExceptOf.throw] at hnb
  unfold Block.prepare
  split at hnb
  · cases hnb
  next h3 =>
  split at hnb
  next h4 =>
    split at hnb
    next h5 =>
      split at hnb
      · cases hnb
      next h6 =>
      injection hnb with hnb
      injection hnb with e1 e2
      subst e2
      simp only [bind, Except.bind, pure, Except.pure, throw, throwThe, MonadExceptOf.throw, h1, hlit, h3, h4, h5, h6, e1, ↓reduceIte]
      exact ht
    next h5 =>
      split at hnb
      · cases hnb
      next h6 =>
      injection hnb with hnb
      injection hnb with e1 e2
      subst e2
      simp only [bind, Except.bind, pure, Except.pure, throw, throwThe, MonadExceptOf.throw, h1, hlit, h3, h4, h5, h6, e1, ↓reduceIte]
      exact ht
  next h4 =>
    injection hnb with hnb
    injection hnb with e1 e2
    subst e2
    subst e1
    simp only [bind, Except.bind, pure, Except.pure, throw, throwThe, MonadExceptOf.throw, h1, hlit, h3, h4, ↓reduceIte]
    exact ht

/-! ### 3. the number of sequences -/

theorem nbSeqHeader_size (n : Nat) : (nbSeqHeader n).size = if n < 128 then 1 else if n < LONGNBSEQ then 2 else 3 := by
  unfold nbSeqHeader
  split
  · rw [LitRT.le_size]
  · split
    · rw [ByteArray.size_append, LitRT.le_size, LitRT.le_size]
    · rw [ByteArray.size_append, LitRT.le_size, LitRT.le_size]

theorem holds_of_extract {src b : ByteArray} {s : Nat} (h : src.extract s (s + b.size) = b) (hb : 0 < b.size) : Holds src s b := by
  have hs := congrArg ByteArray.size h
  rw [ByteArray.size_extract] at hs
  have hle : s + b.size ≤ src.size := by omega
  refine ⟨src.extract 0 s, src.extract (s + b.size) src.size, ?_, by rw [ByteArray.size_extract]; omega⟩
  have e1 : src.extract s (s + b.size) ++ src.extract (s + b.size) src.size = src.extract s src.size := by
    rw [ByteArray.extract_append_extract, Nat.min_eq_left (by omega), Nat.max_eq_right (by omega)]
  have e2 : src.extract 0 s ++ src.extract s src.size = src := by
    rw [ByteArray.extract_append_extract, Nat.min_eq_left (by omega), Nat.max_eq_right (by omega)]
    exact ByteArray.extract_zero_size
  rw [h] at e1
  rw [e1, e2]

/-- **seq_header_roundtrip**.  The three encodings of the number of sequences that ZSTD_entropyCompressSeqStore_internal writes
(`nbSeqHeader`: one byte below 128, two bytes `(n>>8)+0x80, n` below LONGNBSEQ, else `0xFF` + LE16(n - LONGNBSEQ)) are read back by
the code of `Block.prepare` (ZSTD_decodeSeqHeaders), for every `n` the third form can express, consuming exactly the field. -/
theorem seq_header_roundtrip (n : Nat) (hn : n < LONGNBSEQ + 65536) (src : Bytes) (ip iend : Nat)
    (h : Holds src ip (nbSeqHeader n)) (hend : ip + (nbSeqHeader n).size ≤ iend) :
    readNbSeq src ip iend = .ok (n, ip + (nbSeqHeader n).size) := by
  have hsz := nbSeqHeader_size n
  unfold LONGNBSEQ at hn hsz
  unfold readNbSeq
  unfold nbSeqHeader at h
  by_cases c1 : n < 128
  · rw [if_pos c1] at h hsz
    have b0 := h.u8 0 (by rw [LitRT.le_size]; omega)
    rw [LitRT.le_u8 _ _ _ (by omega), Nat.add_zero] at b0
    have e0 : src.u8 ip = n := by rw [b0]; simp only [Nat.mul_zero, Nat.pow_zero, Nat.div_one]; omega
    have c2 : ¬ iend - ip < MIN_SEQUENCES_SIZE := by unfold MIN_SEQUENCES_SIZE; omega
    have c3 : ¬ n > 127 := by omega
    simp only [bind, Except.bind, pure, Except.pure, throw, throwThe, MonadExceptOf.throw, c2, e0, c3, hsz, ↓reduceIte]
  · rw [if_neg c1] at h hsz
    by_cases c4 : n < 32512
    · rw [if_pos (by unfold LONGNBSEQ; exact c4)] at h
      rw [if_pos c4] at hsz
      have b0 := h.left.u8 0 (by rw [LitRT.le_size]; omega)
      have b1 := h.right.u8 0 (by rw [LitRT.le_size]; omega)
      rw [LitRT.le_u8 _ _ _ (by omega), Nat.add_zero] at b0 b1
      rw [LitRT.le_size] at b1
      simp only [Nat.mul_zero, Nat.pow_zero, Nat.div_one, Nat.shiftRight_eq_div_pow] at b0 b1
      have e0 : src.u8 ip = n / 256 + 128 := by rw [b0]; omega
      have e1 : src.u8 (ip + 1) = n % 256 := b1
      have c2 : ¬ iend - ip < MIN_SEQUENCES_SIZE := by unfold MIN_SEQUENCES_SIZE; omega
      have c3 : n / 256 + 128 > 127 := by omega
      have c5 : (n / 256 + 128 == 255) = false := by simp only [beq_eq_false_iff_ne, ne_eq]; omega
      have c6 : ¬ ip + 1 ≥ iend := by omega
      have e2 : ((n / 256 + 128 - 128) <<< 8) + n % 256 = n := by rw [Nat.shiftLeft_eq]; omega
      simp only [bind, Except.bind, pure, Except.pure, throw, throwThe, MonadExceptOf.throw, c2, e0, e1, c3, c5, c6, e2, hsz, ↓reduceIte,
        Bool.false_eq_true]
    · rw [if_neg (by unfold LONGNBSEQ; exact c4)] at h
      rw [if_neg c4] at hsz
      have b0 := h.left.u8 0 (by rw [LitRT.le_size]; omega)
      have b1 := h.right.u8 0 (by rw [LitRT.le_size]; omega)
      have b2 := h.right.u8 1 (by rw [LitRT.le_size]; omega)
      rw [LitRT.le_u8 _ _ _ (by omega), Nat.add_zero] at b0 b1
      rw [LitRT.le_u8 _ _ _ (by omega)] at b2
      rw [LitRT.le_size] at b1 b2
      simp only [Nat.mul_zero, Nat.pow_zero, Nat.div_one, Nat.mul_one, Nat.reducePow, LONGNBSEQ] at b0 b1 b2
      have e0 : src.u8 ip = 255 := by rw [b0]
      have e1 : src.le16 (ip + 1) + LONGNBSEQ = n := by
        unfold ByteArray.le16 LONGNBSEQ
        rw [b1, Nat.add_assoc, b2, Nat.shiftLeft_eq]; omega
      have c2 : ¬ iend - ip < MIN_SEQUENCES_SIZE := by unfold MIN_SEQUENCES_SIZE; omega
      have c6 : ¬ ip + 1 + 2 > iend := by omega
      simp only [bind, Except.bind, pure, Except.pure, throw, throwThe, MonadExceptOf.throw, c2, e0, e1, c6, hsz, ↓reduceIte,
        BEq.rfl, Nat.reduceGT]

/-! ### 4. the table modes -/

/-- the decoding table ZSTD_buildSeqTable installs for a RESOLVED mode choice: the constant default table, the one-cell RLE table, or
the table ZSTD_buildFSETable builds from the described distribution.  (`.repeat` does not occur in a resolved choice, see `TableOK`;
it is given the default table like `SeqTableChoice.ctable` does.) -/
def dtab (dflt : List SeqCell) (base bits : List Nat) : SeqTableChoice → Array SeqCell
  | .predefined => dflt.toArray
  | .rle sym => FSE.rleSeqTable sym base bits
  | .fse norm log => FSE.buildSeqTable norm log base bits
  | .repeat => dflt.toArray

/-- ... and its log -/
def dlog (dfltLog : Nat) : SeqTableChoice → Nat
  | .predefined => dfltLog
  | .rle _ => 0
  | .fse _ log => log
  | .repeat => dfltLog

/-- the codes a RESOLVED mode choice can express: all codes of the default alphabet (up to `dmax`), the one RLE symbol, or the symbols
of the described alphabet whose normalised count is not 0 -/
def okOf (dmax : Nat) : SeqTableChoice → Nat → Prop
  | .predefined => (· ≤ dmax)
  | .rle sym => (· = sym)
  | .fse norm _ => fun s => s < norm.size ∧ norm[s]! ≠ 0
  | .repeat => fun _ => False

instance (dmax : Nat) (c : SeqTableChoice) (s : Nat) : Decidable (okOf dmax c s) := by
  cases c <;> (simp only [okOf]; infer_instance)

/-- what a RESOLVED mode choice must satisfy for the decoder to accept its description and to invert its table (`maxSym`, `maxLog` =
the limits ZSTD_buildSeqTable is called with: MaxLL / LLFSELog, MaxOff / OffFSELog, MaxML / MLFSELog).  `set_compressed`: a normalised
distribution (`FSE.NormOK`: counts ≥ -1 adding up to `2^L`) with `FSE_MIN_TABLELOG = 5 ≤ L ≤ maxLog`, an alphabet within the limit
whose last symbol is present (FSE_writeNCount is handed `maxSymbolValue` = the last symbol with a non-zero count), and the two facts on
the spreading of symbols that `tools/ent_fse.py` / `zvdriver seqenc` check on every table (`SeqRT.inverts_build`).  `set_rle`,
`set_basic`: nothing here (the bound on the RLE symbol follows from `CodesOK`).  `set_repeat` is not a resolved choice.
The two spreading facts FOLLOW from the other conjuncts (Lemmas/SpreadRT.lean: `FSE.spread_ok`, `FSE.spreadEnc_eq_spread`); see
Lemmas/DescribedTables.lean: `TableDescOK` (this predicate without them), `tableOK_of_distribution`, `block_roundtrip_described_tables`. -/
def TableOK (maxSym maxLog : Nat) : SeqTableChoice → Prop
  | .predefined => True
  | .rle _ => True
  | .fse norm L => NormOK norm L ∧ 5 ≤ L ∧ L ≤ maxLog ∧ norm.size ≤ maxSym + 1 ∧ norm[norm.size - 1]! ≠ 0 ∧
      spreadOK (spreadEnc norm L) norm L = true ∧ spreadEnc norm L = spread norm L
  | .repeat => False

instance (maxSym maxLog : Nat) (c : SeqTableChoice) : Decidable (TableOK maxSym maxLog c) := by
  cases c <;> (simp only [TableOK]; infer_instance)

/-- `TableOK` for the three resolved decisions of a block, with the limits of ZSTD_decodeSeqHeaders -/
def TablesOK (t : Tables) : Prop :=
  TableOK MaxLL LLFSELog t.ll ∧ TableOK MaxOff OffFSELog t.of ∧ TableOK MaxML MLFSELog t.ml

instance (t : Tables) : Decidable (TablesOK t) := by unfold TablesOK; infer_instance

theorem tablesOK_default : TablesOK {} := ⟨trivial, trivial, trivial⟩

def isRepeat : SeqTableChoice → Bool
  | .repeat => true
  | _ => false

/-- one of the three decisions is `set_repeat` -/
def usesRepeat (t : Tables) : Bool := isRepeat t.ll || isRepeat t.of || isRepeat t.ml

theorem resolve_of_not_isRepeat (p c : SeqTableChoice) (h : isRepeat c = false) : c.resolve p = c := by
  cases c <;> first | rfl | cases h

/-- decisions without `set_repeat` are their own resolution, whatever came before: for them the statements below are the statements
about predefined / RLE / described tables alone -/
theorem resolve_of_not_usesRepeat (p t : Tables) (h : usesRepeat t = false) : Tables.resolve p t = t := by
  obtain ⟨a, b, c⟩ := t
  simp only [usesRepeat, Bool.or_eq_false_iff] at h
  simp only [Tables.resolve, resolve_of_not_isRepeat _ _ h.1.1, resolve_of_not_isRepeat _ _ h.1.2, resolve_of_not_isRepeat _ _ h.2]

theorem ctable_log (norm : List Int) (log : Nat) (c : SeqTableChoice) : (c.ctable norm log).tableLog = dlog log c := by
  cases c <;> rfl

/-- size of what ZSTD_buildCTable writes: nothing for `set_basic` / `set_repeat`, the symbol for `set_rle`, the FSE_writeNCount bytes
for `set_compressed` -/
theorem descr_size (c : SeqTableChoice) : c.descr.size =
    match c with
    | .predefined => 0
    | .rle _ => 1
    | .fse norm log => (NCountW.writeNCount norm log).size
    | .repeat => 0 := by
  cases c
  · rfl
  · exact LitRT.le_size _ _
  · rfl
  · rfl

/-- ZSTD_buildSeqTable on what ZSTD_buildCTable wrote for the mode: nothing for `set_basic`, the symbol byte for `set_rle`, the
FSE_writeNCount description for `set_compressed` (FSE_readNCount reads it back whatever follows it inside the block:
`NCountRT.ncount_roundtrip`), nothing for `set_repeat` - then the decoder must hold valid tables (`fv`) and hands out the one it holds
(`prev`, `prevLog`), which is the table of the previous resolved choice `pc`.  The result is the table of the RESOLVED choice. -/
theorem buildSeqTable_choice (c pc : SeqTableChoice) (src : Bytes) (ip iend maxSym maxLog : Nat) (base bits : List Nat)
    (dflt : List SeqCell) (dfltLog : Nat) (prev : Array SeqCell) (prevLog : Nat) (fv : Bool)
    (h : Holds src ip c.descr) (hend : ip + c.descr.size ≤ iend) (hsym : ∀ s, c = .rle s → s ≤ maxSym) (hmax : maxSym < 256)
    (hT : TableOK maxSym maxLog (c.resolve pc)) (hlog : maxLog ≤ 12)
    (hrep : c = .repeat → fv = true ∧ prev = dtab dflt base bits pc ∧ prevLog = dlog dfltLog pc) :
    Block.buildSeqTable c.mode src ip iend maxSym maxLog base bits dflt dfltLog prev prevLog fv
      = .ok (dtab dflt base bits (c.resolve pc), dlog dfltLog (c.resolve pc), c.descr.size) := by
  cases c with
  | predefined =>
    unfold Block.buildSeqTable
    simp only [SeqTableChoice.mode, set_basic, bind, Except.bind, pure, Except.pure, Nat.reduceBEq, Bool.false_eq_true, ↓reduceIte,
      BEq.rfl, dtab, dlog, SeqTableChoice.descr, SeqTableChoice.resolve, ByteArray.size_empty]
  | rle sym =>
    have hs := hsym sym rfl
    have hsz : (SeqTableChoice.rle sym).descr.size = 1 := LitRT.le_size _ _
    rw [hsz] at hend
    have b0 := h.u8 0 (by rw [hsz]; omega)
    simp only [SeqTableChoice.descr] at b0
    rw [LitRT.le_u8 _ _ _ (by omega), Nat.add_zero] at b0
    have e0 : src.u8 ip = sym := by rw [b0]; simp only [Nat.mul_zero, Nat.pow_zero, Nat.div_one]; omega
    have c1 : ¬ ip ≥ iend := by omega
    have c2 : ¬ sym > maxSym := by omega
    unfold Block.buildSeqTable
    simp only [SeqTableChoice.mode, set_rle, bind, Except.bind, pure, Except.pure, throw, throwThe, MonadExceptOf.throw, BEq.rfl,
      ↓reduceIte, c1, c2, e0, dtab, dlog, hsz, SeqTableChoice.resolve]
  | fse norm L =>
    obtain ⟨hN, h5, hL, hsz, hlast, -, -⟩ : TableOK maxSym maxLog (.fse norm L) := hT
    have hd : (SeqTableChoice.fse norm L).descr = NCountW.writeNCount norm L := rfl
    rw [hd] at h hend ⊢
    have hrd := NCountRT.ncount_roundtrip norm L hN h5 (by omega) hlast maxSym hsz src ip (iend - ip) (by omega) h.extract
    have c1 : ¬ L > maxLog := by omega
    unfold Block.buildSeqTable
    simp only [SeqTableChoice.mode, set_compressed, bind, Except.bind, pure, Except.pure, throw, throwThe, MonadExceptOf.throw,
      Nat.reduceBEq, Bool.false_eq_true, ↓reduceIte, hrd, c1, dtab, dlog, SeqTableChoice.resolve]
  | «repeat» =>
    obtain ⟨e1, e2, e3⟩ := hrep rfl
    subst e1 e2 e3
    unfold Block.buildSeqTable
    simp only [SeqTableChoice.mode, set_repeat, bind, Except.bind, pure, Except.pure, throw, throwThe, MonadExceptOf.throw,
      Nat.reduceBEq, Bool.false_eq_true, ↓reduceIte, BEq.rfl, Bool.not_true, SeqTableChoice.descr, SeqTableChoice.resolve,
      ByteArray.size_empty]

/-- the compression table of a resolved choice is inverted by its decoding table on the codes it can express (predefined:
`SeqRT.inverts_default`, RLE: `SeqRT.inverts_rle`, described: `SeqRT.inverts_build`) -/
theorem inverts_choice (c : SeqTableChoice) {maxSym maxLog : Nat} (hT : TableOK maxSym maxLog c) (hlog : maxLog ≤ 14) :
    Inverts (c.ctable LL_defaultNorm LL_DEFAULTNORMLOG) (dtab LL_defaultDTable LL_base LL_bits c) LL_base LL_bits (okOf MaxLL c) ∧
    Inverts (c.ctable OF_defaultNorm OF_DEFAULTNORMLOG) (dtab OF_defaultDTable OF_base OF_bits c) OF_base OF_bits (okOf DefaultMaxOff c) ∧
    Inverts (c.ctable ML_defaultNorm ML_DEFAULTNORMLOG) (dtab ML_defaultDTable ML_base ML_bits c) ML_base ML_bits (okOf MaxML c) := by
  cases c with
  | predefined => exact SeqRT.inverts_default
  | rle sym => exact ⟨SeqRT.inverts_rle sym _ _, SeqRT.inverts_rle sym _ _, SeqRT.inverts_rle sym _ _⟩
  | fse norm L =>
    obtain ⟨hN, -, hL, -, -, hS, hE⟩ := hT
    have hL14 : L ≤ 14 := by omega
    exact ⟨SeqRT.inverts_build hN hL14 hS hE _ _, SeqRT.inverts_build hN hL14 hS hE _ _, SeqRT.inverts_build hN hL14 hS hE _ _⟩
  | «repeat» => exact hT.elim

/-- the compression-modes byte: the three 2-bit fields come back, the reserved field is 0 -/
theorem seqHead_fields (t : Tables) :
    seqHead t < 256 ∧ seqHead t &&& 3 = 0 ∧ seqHead t >>> 6 = t.ll.mode ∧ (seqHead t >>> 4) &&& 3 = t.of.mode ∧
      (seqHead t >>> 2) &&& 3 = t.ml.mode := by
  obtain ⟨a, b, c⟩ := t
  cases a <;> cases b <;> cases c <;>
    (simp only [seqHead, SeqTableChoice.mode, set_basic, set_rle, set_compressed, set_repeat]; decide)

/-! ### 5. tables and sequences: `seqTail` on what the writer wrote behind the nbSeq field -/

/-- the part of `seqSection` behind the nbSeq field (`prev` = the resolved decisions of the previous block with sequences) -/
def seqRest (t : Tables) (seqs : List SeqIn) (prev : Tables := {}) : ByteArray :=
  le (seqHead t) 1 ++ (t.ll.descr ++ (t.of.descr ++ (t.ml.descr ++ encodeSeqBytes (ctLL t prev) (ctOF t prev) (ctML t prev) seqs)))

/-- every sequence uses codes the chosen (RESOLVED) tables can express: with a predefined table any code of the default alphabet
(LL ≤ 35, OF ≤ 28 i.e. `offBase < 2^29`, ML ≤ 52), with an RLE table exactly its symbol, with a described table the symbols of non-zero
normalised count.  For a block that uses `set_repeat`: `CodesOK (Tables.resolve prev t) seqs`. -/
def CodesOK (t : Tables) (seqs : List SeqIn) : Prop :=
  ∀ s ∈ seqs, okOf MaxLL t.ll (codesOf s).ll ∧ okOf DefaultMaxOff t.of (codesOf s).of ∧ okOf MaxML t.ml (codesOf s).ml

instance (t : Tables) (seqs : List SeqIn) : Decidable (CodesOK t seqs) := by unfold CodesOK; infer_instance

theorem seqSection_eq (t : Tables) (seqs : List SeqIn) (hne : seqs ≠ []) (prev : Tables := {}) :
    seqSection t seqs prev = nbSeqHeader seqs.length ++ seqRest t seqs prev := by
  unfold seqSection seqRest
  cases seqs with
  | nil => exact absurd rfl hne
  | cons a l => simp only [List.isEmpty_cons, Bool.false_eq_true, ↓reduceIte, ByteArray.append_assoc]

/-- the sequence tables the decoder carries from block to block (`dctx->LLTptr / OFTptr / MLTptr`, `fseEntropy`) ARE the decoding
tables of the resolved decisions `p` -/
structure EntIs (p : Tables) (ent : Entropy) : Prop where
  valid : ent.fseValid = true
  ll : ent.ll = dtab LL_defaultDTable LL_base LL_bits p.ll
  llLog : ent.llLog = dlog LL_DEFAULTNORMLOG p.ll
  of : ent.of = dtab OF_defaultDTable OF_base OF_bits p.of
  ofLog : ent.ofLog = dlog OF_DEFAULTNORMLOG p.of
  ml : ent.ml = dtab ML_defaultDTable ML_base ML_bits p.ml
  mlLog : ent.mlLog = dlog ML_DEFAULTNORMLOG p.ml

/-- the carrier relation between the encoder's `prev : Option Tables` (`BlockEnc.nextTables`) and the decoder's entropy state:
nothing is claimed while no block with sequences has been written (`none`; the decoder may hold anything, e.g. a dictionary's
tables: they are never asked for); afterwards the decoder holds the tables of the last resolved decisions, marked valid -/
def EntMatch (prev : Option Tables) (ent : Entropy) : Prop :=
  match prev with
  | none => True
  | some p => EntIs p ent

/-- two entropy states with the same sequence-table part (the literals stage only touches the Huffman table) -/
def SameFse (a b : Entropy) : Prop :=
  a.ll = b.ll ∧ a.llLog = b.llLog ∧ a.of = b.of ∧ a.ofLog = b.ofLog ∧ a.ml = b.ml ∧ a.mlLog = b.mlLog ∧ a.fseValid = b.fseValid

theorem EntIs.of_same {p : Tables} {a b : Entropy} (h : EntIs p b) (hs : SameFse a b) : EntIs p a := by
  obtain ⟨s1, s2, s3, s4, s5, s6, s7⟩ := hs
  exact ⟨by rw [s7, h.valid], by rw [s1, h.ll], by rw [s2, h.llLog], by rw [s3, h.of], by rw [s4, h.ofLog], by rw [s5, h.ml],
    by rw [s6, h.mlLog]⟩

theorem EntMatch.of_same {prev : Option Tables} {a b : Entropy} (h : EntMatch prev b) (hs : SameFse a b) : EntMatch prev a := by
  cases prev with
  | none => trivial
  | some p => exact EntIs.of_same h hs

/-- `seqTail` (modes byte, the three table descriptions, the sequence bit stream) on what the writer wrote behind the nbSeq field, for
decisions `t` made after the resolved decisions `p`: where `t` says `set_repeat` the decoder must hold the tables of `p` (`hrep`).
Afterwards it holds the tables of the resolved decisions `Tables.resolve p t`, marked valid. -/
theorem seqTail_serialized (t : Tables) (seqs : List SeqIn) (hne : seqs ≠ []) (hrng : ∀ s ∈ seqs, InRange s) (p : Tables)
    (hT : TablesOK (Tables.resolve p t)) (hok : CodesOK (Tables.resolve p t) seqs)
    (src : Bytes) (ip iend : Nat) (lr : Block.LitResult) (dstCap : Nat) (hcap : 0 < dstCap)
    (hrep : usesRepeat t = true → EntIs p lr.ent)
    (H : Holds src ip (seqRest t seqs p)) (hend : iend = ip + (seqRest t seqs p).size) :
    ∃ q, seqTail src ip iend seqs.length lr dstCap = .ok q ∧ q.lits = lr.lits ∧
      q.seqs.toList = (resolveAll (repOf lr.ent.rep) (seqs.map triIn)).1 ∧ q.streamCheck = .ok () ∧
      q.ent.rep = repArr (resolveAll (repOf lr.ent.rep) (seqs.map triIn)).2 ∧ q.ent.huf = lr.ent.huf ∧ q.tr.nbSeq = seqs.length ∧
      EntIs (Tables.resolve p t) q.ent := by
  obtain ⟨s0, hs0⟩ : ∃ s0, s0 ∈ seqs := by
    cases seqs with
    | nil => exact absurd rfl hne
    | cons a l => exact ⟨a, by simp⟩
  obtain ⟨r1, r2, r3, r4⟩ := hrng s0 hs0
  obtain ⟨k1, k2, k3⟩ := hok s0 hs0
  have symLL : ∀ s, t.ll = .rle s → s ≤ MaxLL := by
    intro s hs
    have k : (codesOf s0).ll = s := by simpa only [Tables.resolve, hs, SeqTableChoice.resolve, okOf] using k1
    rw [← k]; exact SeqRT.llCode_le _ r1
  have symOF : ∀ s, t.of = .rle s → s ≤ MaxOff := by
    intro s hs
    have k : (codesOf s0).of = s := by simpa only [Tables.resolve, hs, SeqTableChoice.resolve, okOf] using k2
    rw [← k]; exact (SeqRT.of_code_roundtrip _ r3 r4).2.1
  have symML : ∀ s, t.ml = .rle s → s ≤ MaxML := by
    intro s hs
    have k : (codesOf s0).ml = s := by simpa only [Tables.resolve, hs, SeqTableChoice.resolve, okOf] using k3
    rw [← k]; exact SeqRT.mlCode_le _ r2
  have repLL : t.ll = .repeat → lr.ent.fseValid = true ∧ lr.ent.ll = dtab LL_defaultDTable LL_base LL_bits p.ll ∧
      lr.ent.llLog = dlog LL_DEFAULTNORMLOG p.ll := by
    intro hs
    have e := hrep (by simp only [usesRepeat, hs, isRepeat, Bool.true_or])
    exact ⟨e.valid, e.ll, e.llLog⟩
  have repOF : t.of = .repeat → lr.ent.fseValid = true ∧ lr.ent.of = dtab OF_defaultDTable OF_base OF_bits p.of ∧
      lr.ent.ofLog = dlog OF_DEFAULTNORMLOG p.of := by
    intro hs
    have e := hrep (by simp only [usesRepeat, hs, isRepeat, Bool.true_or, Bool.or_true])
    exact ⟨e.valid, e.of, e.ofLog⟩
  have repML : t.ml = .repeat → lr.ent.fseValid = true ∧ lr.ent.ml = dtab ML_defaultDTable ML_base ML_bits p.ml ∧
      lr.ent.mlLog = dlog ML_DEFAULTNORMLOG p.ml := by
    intro hs
    have e := hrep (by simp only [usesRepeat, hs, isRepeat, Bool.or_true])
    exact ⟨e.valid, e.ml, e.mlLog⟩
  obtain ⟨hT1, hT2, hT3⟩ := hT
  obtain ⟨i1, -, -⟩ := inverts_choice (t.ll.resolve p.ll) hT1 (by decide)
  obtain ⟨-, i2, -⟩ := inverts_choice (t.of.resolve p.of) hT2 (by decide)
  obtain ⟨-, -, i3⟩ := inverts_choice (t.ml.resolve p.ml) hT3 (by decide)
  unfold seqRest at H hend
  simp only [ByteArray.size_append, LitRT.le_size] at hend
  have Hm := H.left
  have H1 := H.right.left
  have H2 := H.right.right.left
  have H3 := H.right.right.right.left
  have Hb := H.right.right.right.right
  simp only [LitRT.le_size] at H1 H2 H3 Hb
  obtain ⟨r0, hinit, hmain⟩ := seq_section_roundtrip_at i1 i2 i3 seqs hne hok hrng lr.ent.rep src _ Hb.extract
  simp only [ctLL, ctOF, ctML, ctable_log] at hmain
  obtain ⟨m1, m2, m3⟩ := hmain
  obtain ⟨q0, q1, q2, q3, q4⟩ := seqHead_fields t
  have hmb : src.u8 ip = seqHead t := by
    have := Hm.u8 0 (by rw [LitRT.le_size]; omega)
    rw [LitRT.le_u8 _ _ _ (by omega), Nat.add_zero] at this
    rw [this]; simp only [Nat.mul_zero, Nat.pow_zero, Nat.div_one]; omega
  have hn0 : (seqs.length == 0) = false := by
    cases seqs with
    | nil => exact absurd rfl hne
    | cons a l => simp
  have c1 : ¬ ip + 1 > iend := by omega
  have hb1 := buildSeqTable_choice t.ll p.ll src (ip + 1) iend MaxLL LLFSELog LL_base LL_bits LL_defaultDTable LL_DEFAULTNORMLOG
    lr.ent.ll lr.ent.llLog lr.ent.fseValid H1 (by omega) symLL (by decide) hT1 (by decide) repLL
  have hb2 := buildSeqTable_choice t.of p.of src (ip + 1 + t.ll.descr.size) iend MaxOff OffFSELog OF_base OF_bits OF_defaultDTable
    OF_DEFAULTNORMLOG lr.ent.of lr.ent.ofLog lr.ent.fseValid H2 (by omega) symOF (by decide) hT2 (by decide) repOF
  have hb3 := buildSeqTable_choice t.ml p.ml src (ip + 1 + t.ll.descr.size + t.of.descr.size) iend MaxML MLFSELog ML_base ML_bits
    ML_defaultDTable ML_DEFAULTNORMLOG lr.ent.ml lr.ent.mlLog lr.ent.fseValid H3 (by omega) symML (by decide) hT3 (by decide) repML
  have hc0 : (dstCap == 0) = false := by simp only [beq_eq_false_iff_ne, ne_eq]; omega
  have hlen : iend - (ip + 1 + t.ll.descr.size + t.of.descr.size + t.ml.descr.size)
      = (encodeSeqBytes (ctLL t p) (ctOF t p) (ctML t p) seqs).size := by omega
  unfold seqTail
  simp only [bind, Except.bind, pure, Except.pure, throw, throwThe, MonadExceptOf.throw, hn0, Bool.false_eq_true, ↓reduceIte, c1, hmb,
    q1, q2, q3, q4, bne_self_eq_false, hb1, hb2, hb3, hc0, hlen]
  simp only [ctLL, ctOF, ctML, hinit, m1, m2, m3, Bool.not_true]
  exact ⟨_, rfl, rfl, m2, rfl, rfl, rfl, rfl, ⟨rfl, rfl, rfl, rfl, rfl, rfl, rfl⟩⟩

/-! ### 6. the literals section, whatever the mode -/

/-- hypotheses of the Huffman literals round trip (`LitRT.literals_roundtrip_compressed`): the weights `ws ++ [last]` satisfy the Kraft
equality at depth `log ≤ 12` with a present last symbol, at least one explicit weight and two symbols of weight 1; every literal has a
code; and the section is smaller than the literals (ZSTD_minGain: otherwise ZSTD_compressLiterals emits them raw) -/
structure HufOK (ws : List Nat) (last log : Nat) (lits : ByteArray) : Prop where
  ok : HufRT.WeightsOK (ws.toArray.push last) log
  last_pos : 0 < last
  log_le : log ≤ 12
  two_ones : 2 ≤ (ws ++ [last]).count 1
  ws_ne : 1 ≤ ws.length
  syms : ∀ s ∈ symsOf lits, ∃ hs : s < (ws.toArray.push last).size, 0 < (ws.toArray.push last)[s]
  gain : ∀ wh streams, directWeights ws = some wh →
    hufStreams (decide ((symsOf lits).length < 256)) (HufEnc.codesOf (ws.toArray.push last) log) (symsOf lits) = some streams →
    wh.size + streams.size < lits.size

/-- hypotheses of the TREELESS literals round trip (`LitRT.literals_roundtrip_treeless`) on the literals, given the table `weights` /
`log` of the earlier block: every literal has a code in THAT table (HUF_validateCTable), and the stream(s) are smaller than the
literals (ZSTD_minGain: otherwise ZSTD_compressLiterals emits them raw).  That the weights themselves are acceptable is not asked
here: it is carried from the block that wrote the table (`HufMatch`). -/
structure TreelessOK (weights : Array Nat) (log : Nat) (lits : ByteArray) : Prop where
  syms : ∀ s ∈ symsOf lits, ∃ hs : s < weights.size, 0 < weights[s]
  gain : ∀ streams, hufStreams (decide ((symsOf lits).length < 256)) (HufEnc.codesOf weights log) (symsOf lits) = some streams →
    streams.size < lits.size

/-- hypotheses of the Huffman literals round trip when the tree description is the one HUF_writeCTable_wksp writes - FSE-compressed weights
when that is smaller, else direct (`WeightsRT.literals_roundtrip_compressed_fse`): as `HufOK`, with at most 256 symbols, the side
conditions on the normalised counts of the weight values (`WeightsRT.WeightsFseOK`), and the gain stated for that description -/
structure HufFseOK (ws : List Nat) (last log : Nat) (norm : Array Int) (nlog : Nat) (lits : ByteArray) : Prop where
  ok : HufRT.WeightsOK (ws.toArray.push last) log
  last_pos : 0 < last
  log_le : log ≤ 12
  two_ones : 2 ≤ (ws ++ [last]).count 1
  ws_ne : 1 ≤ ws.length
  ws_le : ws.length ≤ 255
  fse : WeightsRT.WeightsFseOK norm nlog ws
  syms : ∀ s ∈ symsOf lits, ∃ hs : s < (ws.toArray.push last).size, 0 < (ws.toArray.push last)[s]
  gain : ∀ wh streams, treeDescr norm nlog ws = some wh →
    hufStreams (decide ((symsOf lits).length < 256)) (HufEnc.codesOf (ws.toArray.push last) log) (symsOf lits) = some streams →
    wh.size + streams.size < lits.size

/-- what the literals must satisfy for the chosen mode: nothing for raw; all bytes equal for RLE; `HufOK` for Huffman with a new table
(`HufFseOK` when its tree description may be FSE-compressed);
for treeless literals an earlier compressed block of the frame must have written a table (`hp = some ..`, threaded by
`BlockEnc.nextHuf`) that covers the literals (`TreelessOK`).  With `hp = none` (the default: nothing known about earlier blocks)
treeless literals are not applicable. -/
def LitOK (c : LitChoice) (lits : ByteArray) (hp : Option HufTab := none) : Prop :=
  match c with
  | .raw => True
  | .rle => ∃ b, lits = LitRT.rleBytes lits.size b
  | .huffman ws last log => HufOK ws last log lits
  | .treeless =>
    match hp with
    | some (w, log) => TreelessOK w log lits
    | none => False
  | .huffmanFse ws last log norm nlog => HufFseOK ws last log norm nlog lits

/-- the carrier relation between the encoder's `hp : Option HufTab` (`BlockEnc.nextHuf`) and the decoder's entropy state: nothing is
claimed while no block of the frame has written a Huffman table (`none`; the decoder may hold anything, e.g. a dictionary's table: it
is never asked for); afterwards the decoder holds the table built from the weights of the last block that wrote one
(`dctx->HUFptr`, `litEntropy = 1`), and these weights are what HUF_readStats accepted (`WeightsOK`, depth ≤ HUF_TABLELOG_MAX) -/
def HufMatch (hp : Option HufTab) (ent : Entropy) : Prop :=
  match hp with
  | none => True
  | some (w, log) => HufRT.WeightsOK w log ∧ log ≤ 12 ∧ ent.huf = some (Huf.buildTable ⟨w, log, 0⟩)

theorem HufMatch.of_huf {hp : Option HufTab} {a b : Entropy} (h : HufMatch hp a) (hs : b.huf = a.huf) : HufMatch hp b := by
  cases hp with
  | none => trivial
  | some wl => exact ⟨h.1, h.2.1, by rw [hs]; exact h.2.2⟩

theorem litSection_hp (c : LitChoice) (lits : ByteArray) (hp : Option HufTab) (h : c ≠ .treeless) :
    litSection c lits hp = litSection c lits := by
  cases c <;> first | rfl | exact absurd rfl h

theorem litOK_hp {c : LitChoice} {lits : ByteArray} (hp : Option HufTab) (h : LitOK c lits) : c ≠ .treeless ∧ LitOK c lits hp := by
  cases c with
  | treeless => exact h.elim
  | raw => exact ⟨(by intro e; cases e), h⟩
  | rle => exact ⟨(by intro e; cases e), h⟩
  | huffman ws last log => exact ⟨(by intro e; cases e), h⟩
  | huffmanFse ws last log norm nlog => exact ⟨(by intro e; cases e), h⟩

theorem symsOf_length (lits : ByteArray) : (symsOf lits).length = lits.size := by
  unfold symsOf
  rw [List.length_map, Array.length_toList]
  rfl

theorem litBytes_symsOf (lits : ByteArray) : HufBytes.litBytes (symsOf lits) = lits := by
  unfold HufBytes.litBytes symsOf
  rw [List.map_map]
  have : (UInt8.ofNat ∘ UInt8.toNat) = id := by funext x; simp
  rw [this, List.map_id]
  apply ByteArray.ext
  rw [List.data_toByteArray, Array.toArray_toList]

theorem basicHeader_size_pos (ty n : Nat) : 0 < (basicHeader ty n).size := by
  unfold basicHeader
  repeat' split
  all_goals rw [LitRT.le_size]; omega

theorem sameFse_refl (e : Entropy) : SameFse e e := ⟨rfl, rfl, rfl, rfl, rfl, rfl, rfl⟩

/-- **literals section, any mode, treeless included**: ZSTD_decodeLiteralsBlock reads the section `litSection c lits hp` back: the
literals, exactly the section consumed; of the entropy state only the Huffman table may change (`SameFse`: the sequence tables and their
validity flag stay), and it stays in lock step with the encoder's (`HufMatch`): `hp` = the table of the last block of the frame that
wrote one, if any (`BlockEnc.nextHuf`); the decoder carries it at the start (`hm`) and carries `nextHuf hp c lits` afterwards. -/
theorem litSection_roundtrip_treeless (c : LitChoice) (lits : ByteArray) (hp : Option HufTab) (hc : LitOK c lits hp)
    (h17 : lits.size ≤ 2 ^ 17) (src : Bytes) (start srcSize : Nat) (ent : Entropy) (bsm dstCap : Nat) (hm : HufMatch hp ent)
    (H : Holds src start (litSection c lits hp)) (hbsm : lits.size ≤ bsm) (hcap : lits.size ≤ dstCap)
    (hsz : (litSection c lits hp).size + 1 ≤ srcSize) :
    ∃ lr, Block.decodeLiterals src start srcSize ent bsm dstCap = .ok lr ∧ lr.lits = lits ∧
      lr.used = (litSection c lits hp).size ∧ lr.ent.rep = ent.rep ∧ SameFse lr.ent ent ∧ HufMatch (nextHuf hp c lits) lr.ent := by
  have hraw : ∀ (Hr : Holds src start (rawLiterals lits)) (hs : (rawLiterals lits).size + 1 ≤ srcSize),
      ∃ lr, Block.decodeLiterals src start srcSize ent bsm dstCap = .ok lr ∧ lr.lits = lits ∧
        lr.used = (rawLiterals lits).size ∧ lr.ent.rep = ent.rep ∧ SameFse lr.ent ent ∧ HufMatch hp lr.ent := by
    intro Hr hs
    have hp0 : 0 < (rawLiterals lits).size := by
      unfold rawLiterals; rw [ByteArray.size_append]; have := basicHeader_size_pos set_basic lits.size; omega
    exact ⟨_, LitRT.literals_roundtrip_raw lits src start srcSize ent bsm dstCap Hr.extract (by omega) hbsm hcap (by omega)
      (by unfold MIN_CBLOCK_SIZE; omega), rfl, rfl, rfl, sameFse_refl _, hm⟩
  cases c with
  | raw => exact hraw H hsz
  | rle =>
    obtain ⟨b, hb⟩ := hc
    simp only [litSection, nextHuf] at H hsz ⊢
    generalize lits.size = n at hb h17 hbsm hcap
    subst hb
    have hp0 : 0 < (rleLiterals (LitRT.rleBytes n b)).size := by
      unfold rleLiterals; rw [ByteArray.size_push]; omega
    exact ⟨_, LitRT.literals_roundtrip_rle n b src start srcSize ent bsm dstCap H.extract (by omega) hbsm hcap (by omega)
      (by unfold MIN_CBLOCK_SIZE; omega), rfl, rfl, rfl, sameFse_refl _, hm⟩
  | huffman ws last log =>
    have hc : HufOK ws last log lits := hc
    simp only [litSection] at H hsz ⊢
    cases hh : hufLiterals (ws.toArray.push last) log (symsOf lits) with
    | none =>
      have hnext : nextHuf hp (.huffman ws last log) lits = hp := by
        simp only [nextHuf, hh, Option.isSome_none, Bool.false_eq_true, if_false]
      rw [hh] at H hsz; rw [hnext]; exact hraw H hsz
    | some sec =>
      have hnext : nextHuf hp (.huffman ws last log) lits = some (ws.toArray.push last, log) := by
        simp only [nextHuf, hh, Option.isSome_some, if_true]
      rw [hh] at H hsz
      rw [hnext]
      simp only []  at H hsz ⊢
      have hdl : (ws.toArray.push last).toList.dropLast = ws := by simp
      unfold hufLiterals at hh
      rw [hdl] at hh
      simp only [] at hh
      cases hwh : directWeights ws with
      | none => rw [hwh] at hh; cases hh
      | some wh =>
        cases hst : hufStreams (decide ((symsOf lits).length < 256)) (HufEnc.codesOf (ws.toArray.push last) log) (symsOf lits) with
        | none => rw [hwh, hst] at hh; cases hh
        | some streams =>
          rw [hwh, hst] at hh
          injection hh with hh
          subst hh
          have hg := hc.gain wh streams hwh hst
          have hlen := symsOf_length lits
          have := LitRT.literals_roundtrip_compressed ws last log hc.ok hc.last_pos hc.log_le hc.two_ones hc.ws_ne
            (decide ((symsOf lits).length < 256)) wh streams (symsOf lits) hwh hst hc.syms src start srcSize ent bsm dstCap H.extract
            (by intro h; have := of_decide_eq_true h; omega) (by omega) (by omega) (by omega) (by omega) (by omega)
          exact ⟨_, this, litBytes_symsOf lits, rfl, rfl, ⟨rfl, rfl, rfl, rfl, rfl, rfl, rfl⟩, ⟨hc.ok, hc.log_le, rfl⟩⟩
  | huffmanFse ws last log norm nlog =>
    have hc : HufFseOK ws last log norm nlog lits := hc
    simp only [litSection] at H hsz ⊢
    cases hh : hufLiteralsFse (ws.toArray.push last) log norm nlog (symsOf lits) with
    | none =>
      have hnext : nextHuf hp (.huffmanFse ws last log norm nlog) lits = hp := by
        simp only [nextHuf, hh, Option.isSome_none, Bool.false_eq_true, if_false]
      rw [hh] at H hsz; rw [hnext]; exact hraw H hsz
    | some sec =>
      have hnext : nextHuf hp (.huffmanFse ws last log norm nlog) lits = some (ws.toArray.push last, log) := by
        simp only [nextHuf, hh, Option.isSome_some, if_true]
      rw [hh] at H hsz
      rw [hnext]
      simp only []  at H hsz ⊢
      have hdl : (ws.toArray.push last).toList.dropLast = ws := by simp
      unfold hufLiteralsFse at hh
      rw [hdl] at hh
      simp only [] at hh
      cases hwh : treeDescr norm nlog ws with
      | none => rw [hwh] at hh; cases hh
      | some wh =>
        cases hst : hufStreams (decide ((symsOf lits).length < 256)) (HufEnc.codesOf (ws.toArray.push last) log) (symsOf lits) with
        | none => rw [hwh, hst] at hh; cases hh
        | some streams =>
          rw [hwh, hst] at hh
          injection hh with hh
          subst hh
          have hg := hc.gain wh streams hwh hst
          have hlen := symsOf_length lits
          have hsecsz : (compressedLiterals (decide ((symsOf lits).length < 256)) wh streams (symsOf lits).length).size
              = lhSize (symsOf lits).length + wh.size + streams.size := by
            unfold compressedLiterals
            rw [ByteArray.size_append, ByteArray.size_append, LitRT.compressedHeader_size]
          have hlh : 3 ≤ lhSize (symsOf lits).length := by unfold lhSize; omega
          have hpos := LitRT.hufStreams_size_pos hst
          have := WeightsRT.literals_roundtrip_compressed_fse ws last log hc.ok hc.last_pos hc.log_le hc.two_ones hc.ws_ne hc.ws_le norm nlog
            hc.fse (decide ((symsOf lits).length < 256)) wh streams (symsOf lits) hwh hst hc.syms src start srcSize ent bsm dstCap H.extract
            (by intro h; have := of_decide_eq_true h; omega) (by omega) (by omega) (by omega) (by omega) (by omega) (by omega)
          exact ⟨_, this, litBytes_symsOf lits, rfl, rfl, ⟨rfl, rfl, rfl, rfl, rfl, rfl, rfl⟩, ⟨hc.ok, hc.log_le, rfl⟩⟩
  | treeless =>
    cases hp with
    | none => exact hc.elim
    | some wl =>
      obtain ⟨w, log⟩ := wl
      have hc : TreelessOK w log lits := hc
      have hm0 := hm
      obtain ⟨hok, hlog, hhuf⟩ := hm
      have hnext : nextHuf (some (w, log)) .treeless lits = some (w, log) := rfl
      rw [hnext]
      simp only [litSection] at H hsz ⊢
      cases hh : treelessLiterals w log (symsOf lits) with
      | none => rw [hh] at H hsz; exact hraw H hsz
      | some sec =>
        rw [hh] at H hsz
        simp only [] at H hsz ⊢
        unfold treelessLiterals at hh
        simp only [] at hh
        cases hst : hufStreams (decide ((symsOf lits).length < 256)) (HufEnc.codesOf w log) (symsOf lits) with
        | none => rw [hst] at hh; cases hh
        | some streams =>
          rw [hst] at hh
          injection hh with hh
          subst hh
          have hg := hc.gain streams hst
          have hlen := symsOf_length lits
          have hpos := LitRT.hufStreams_size_pos hst
          have hsecsz : (compressedLiterals (decide ((symsOf lits).length < 256)) ByteArray.empty streams (symsOf lits).length
              set_repeat).size = lhSize (symsOf lits).length + streams.size := by
            rw [LitRT.treeless_eq, ByteArray.size_append, LitRT.compressedHeader_size]
          have hlh : 3 ≤ lhSize (symsOf lits).length := by unfold lhSize; omega
          have := LitRT.literals_roundtrip_treeless (decide ((symsOf lits).length < 256)) streams (symsOf lits) w log 0 hok
            (by omega) src start srcSize ent bsm dstCap hhuf H.extract hc.syms hst
            (by intro h; have := of_decide_eq_true h; omega) (by omega) (by omega) (by omega) (by omega) (by omega) (by omega)
          exact ⟨_, this, litBytes_symsOf lits, rfl, rfl, ⟨rfl, rfl, rfl, rfl, rfl, rfl, rfl⟩, ⟨hok, hlog, rfl⟩⟩

/-- **literals section, any of the modes raw, RLE, Huffman with direct tree description** (`litSection_roundtrip_treeless` with nothing
known about earlier blocks: `hp = none`) -/
theorem litSection_roundtrip (c : LitChoice) (lits : ByteArray) (hc : LitOK c lits) (h17 : lits.size ≤ 2 ^ 17)
    (src : Bytes) (start srcSize : Nat) (ent : Entropy) (bsm dstCap : Nat)
    (H : Holds src start (litSection c lits)) (hbsm : lits.size ≤ bsm) (hcap : lits.size ≤ dstCap)
    (hsz : (litSection c lits).size + 1 ≤ srcSize) :
    ∃ lr, Block.decodeLiterals src start srcSize ent bsm dstCap = .ok lr ∧ lr.lits = lits ∧
      lr.used = (litSection c lits).size ∧ lr.ent.rep = ent.rep ∧ SameFse lr.ent ent := by
  obtain ⟨lr, h1, h2, h3, h4, h5, -⟩ := litSection_roundtrip_treeless c lits none hc h17 src start srcSize ent bsm dstCap trivial H hbsm
    hcap hsz
  exact ⟨lr, h1, h2, h3, h4, h5⟩

/-! ### 7. `Block.prepare` on a serialized block body -/

theorem seqSection_size_pos (t : Tables) (seqs : List SeqIn) (prev : Tables := {}) : 0 < (seqSection t seqs prev).size := by
  have h := nbSeqHeader_size
  unfold seqSection
  split
  · rw [h]; decide
  · simp only [ByteArray.size_append]
    have := h seqs.length
    split at this <;> (try split at this) <;> omega

theorem nextTables_nil (pt : Option Tables) (t : Tables) : nextTables pt t [] = pt := rfl

theorem nextTables_ne (pt : Option Tables) (t : Tables) (seqs : List SeqIn) (hne : seqs ≠ []) :
    nextTables pt t seqs = some (Tables.resolve (pt.getD {}) t) := by
  cases seqs with
  | nil => exact absurd rfl hne
  | cons a l => rfl

/-- **prepare_serialized_treeless**.  On the body that ZSTD_entropyCompressSeqStore_internal writes for the literals `lits` and the seqStore
entries `seqs` (`serializeBlockBody`; tables predefined, RLE, described by FSE_writeNCount, or repeated from the previous block with
sequences), the first half of ZSTD_decompressBlock_internal (`Block.prepare`)
succeeds and hands out: the literals; the sequences with `(ll, ml, ofValue) = (litLength, mlBase + 3, offBase)` and offsets resolved
by `Rep.resolve` along the decoder's history (`SeqRT.resolveAll`); a passed end-of-stream check; the history after the block.
Hypotheses: the mode-specific ones on the literals (`LitOK`), value ranges (`InRange`), sizes within the block-size limit and the output
room; `seqs.length < LONGNBSEQ + 65536` is what the nbSeq field can hold.  On the tables: `pt` = the resolved decisions of the previous
block with sequences, if any (`BlockEnc.nextTables`), and the decoder carries their tables (`EntMatch pt ent`); `set_repeat` needs such a
block (`hrp`); the resolved decisions are acceptable (`TablesOK`) and can express the codes of `seqs` (`CodesOK`).  Afterwards the
decoder carries the tables of `nextTables pt t seqs`: the next block starts in lock step.  With `pt = none` and no `set_repeat` in `t`
(`resolve_of_not_usesRepeat`) this is the statement about one block on its own.  On the Huffman table: `hp` = the table of the last block
of the frame that wrote one, if any (`BlockEnc.nextHuf`); the decoder carries it (`HufMatch hp ent`); treeless literals need one
(`LitOK .treeless lits hp`); afterwards the decoder carries `nextHuf hp c lits`. -/
theorem prepare_serialized_treeless (c : LitChoice) (lits : ByteArray) (t : Tables) (seqs : List SeqIn) (hp : Option HufTab)
    (hc : LitOK c lits hp) (h17 : lits.size ≤ 2 ^ 17) (hn : seqs.length < LONGNBSEQ + 65536)
    (hrng : ∀ s ∈ seqs, InRange s) (pt : Option Tables) (hrp : usesRepeat t = true → pt.isSome = true)
    (hT : TablesOK (Tables.resolve (pt.getD {}) t)) (hok : CodesOK (Tables.resolve (pt.getD {}) t) seqs)
    (src : Bytes) (start : Nat) (ent : Entropy) (bsm dstCap : Nat) (hent : EntMatch pt ent) (hm : HufMatch hp ent)
    (H : Holds src start (serializeBlockBody c lits t seqs (pt.getD {}) hp))
    (hsize : (serializeBlockBody c lits t seqs (pt.getD {}) hp).size ≤ bsm) (hbsm : lits.size ≤ bsm) (hcap : lits.size ≤ dstCap)
    (hcap0 : seqs ≠ [] → 0 < dstCap) :
    ∃ p, Block.prepare src start (serializeBlockBody c lits t seqs (pt.getD {}) hp).size ent bsm dstCap = .ok p ∧ p.lits = lits ∧
      p.seqs.toList = (resolveAll (repOf ent.rep) (seqs.map triIn)).1 ∧ p.streamCheck = .ok () ∧
      repOf p.ent.rep = (resolveAll (repOf ent.rep) (seqs.map triIn)).2 ∧ p.tr.nbSeq = seqs.length ∧
      EntMatch (nextTables pt t seqs) p.ent ∧ HufMatch (nextHuf hp c lits) p.ent := by
  unfold serializeBlockBody at H hsize ⊢
  have hpos := seqSection_size_pos t seqs (pt.getD {})
  have hB : (litSection c lits hp ++ seqSection t seqs (pt.getD {})).size = (litSection c lits hp).size + (seqSection t seqs (pt.getD {})).size :=
    ByteArray.size_append
  generalize (litSection c lits hp ++ seqSection t seqs (pt.getD {})).size = cSize at hB hsize ⊢
  obtain ⟨lr, hlit, l1, l2, l3, l4, l5⟩ := litSection_roundtrip_treeless c lits hp hc h17 src start cSize ent bsm dstCap hm H.left hbsm hcap
    (by omega)
  have hent2 : EntMatch pt lr.ent := hent.of_same l4
  have Hs := H.right
  rw [← l2] at Hs hB
  by_cases hne : seqs = []
  · subst hne
    have hs0 : seqSection t [] (pt.getD {}) = nbSeqHeader 0 := rfl
    rw [hs0] at Hs hB
    have h1 : (nbSeqHeader 0).size = 1 := by rw [nbSeqHeader_size]; rfl
    have hnb := seq_header_roundtrip 0 (by decide) src _ (start + cSize) Hs (by omega)
    rw [h1] at hnb hB
    have hend : start + lr.used + 1 = start + cSize := by omega
    obtain ⟨p, hp1, p1, p2, p3, p4, p5⟩ : ∃ p, seqTail src (start + lr.used + 1) (start + cSize) 0 lr dstCap = .ok p ∧ p.lits = lr.lits ∧
        p.seqs = #[] ∧ p.streamCheck = .ok () ∧ p.ent = lr.ent ∧ p.tr.nbSeq = 0 := by
      unfold seqTail
      simp only [bind, Except.bind, pure, Except.pure, throw, throwThe, MonadExceptOf.throw, BEq.rfl, ↓reduceIte, hend,
        bne_self_eq_false, Bool.false_eq_true]
      exact ⟨_, rfl, rfl, rfl, rfl, rfl, rfl⟩
    exact ⟨p, prepare_of_parts hsize hlit hnb hp1, by rw [p1, l1], by rw [p2]; rfl, p3, by rw [p4, l3]; rfl, p5,
      by rw [nextTables_nil, p4]; exact hent2, by rw [p4]; exact l5⟩
  · rw [seqSection_eq t seqs hne (pt.getD {})] at Hs hB
    rw [ByteArray.size_append] at hB
    have hnb := seq_header_roundtrip seqs.length hn src _ (start + cSize) Hs.left (by omega)
    have hrep : usesRepeat t = true → EntIs (pt.getD {}) lr.ent := by
      intro hu
      have hs := hrp hu
      cases pt with
      | none => cases hs
      | some p0 => exact hent2
    obtain ⟨p, hp1, p1, p2, p3, p4, p5, p6, p7⟩ := seqTail_serialized t seqs hne hrng (pt.getD {}) hT hok src _ (start + cSize) lr dstCap
      (hcap0 hne) hrep Hs.right (by omega)
    exact ⟨p, prepare_of_parts hsize hlit hnb hp1, by rw [p1, l1], by rw [p2, l3], p3, by rw [p4, SeqRT.repOf_repArr, l3], p6,
      by rw [nextTables_ne pt t seqs hne]; exact p7, l5.of_huf p5⟩

/-- **prepare_serialized**: `prepare_serialized_treeless` with nothing known about an earlier Huffman table (`hp = none`: literals raw /
RLE / Huffman with a new table) -/
theorem prepare_serialized (c : LitChoice) (lits : ByteArray) (t : Tables) (seqs : List SeqIn)
    (hc : LitOK c lits) (h17 : lits.size ≤ 2 ^ 17) (hn : seqs.length < LONGNBSEQ + 65536)
    (hrng : ∀ s ∈ seqs, InRange s) (pt : Option Tables) (hrp : usesRepeat t = true → pt.isSome = true)
    (hT : TablesOK (Tables.resolve (pt.getD {}) t)) (hok : CodesOK (Tables.resolve (pt.getD {}) t) seqs)
    (src : Bytes) (start : Nat) (ent : Entropy) (bsm dstCap : Nat) (hent : EntMatch pt ent)
    (H : Holds src start (serializeBlockBody c lits t seqs (pt.getD {})))
    (hsize : (serializeBlockBody c lits t seqs (pt.getD {})).size ≤ bsm) (hbsm : lits.size ≤ bsm) (hcap : lits.size ≤ dstCap)
    (hcap0 : seqs ≠ [] → 0 < dstCap) :
    ∃ p, Block.prepare src start (serializeBlockBody c lits t seqs (pt.getD {})).size ent bsm dstCap = .ok p ∧ p.lits = lits ∧
      p.seqs.toList = (resolveAll (repOf ent.rep) (seqs.map triIn)).1 ∧ p.streamCheck = .ok () ∧
      repOf p.ent.rep = (resolveAll (repOf ent.rep) (seqs.map triIn)).2 ∧ p.tr.nbSeq = seqs.length ∧
      EntMatch (nextTables pt t seqs) p.ent := by
  obtain ⟨p, h1, h2, h3, h4, h5, h6, h7, -⟩ := prepare_serialized_treeless c lits t seqs none hc h17 hn hrng pt hrp hT hok src start ent bsm
    dstCap hent trivial H hsize hbsm hcap hcap0
  exact ⟨p, h1, h2, h3, h4, h5, h6, h7⟩

/-! ### 8. valid parses: sizes, and independence of the `ofValue` field -/

open ZstdVerif.Exec (ValidFrom ValidParse)

/-- what execution looks at: literal length, match length, match distance -/
def seqKey (s : Seq) : Nat × Nat × Nat := (s.ll, s.ml, s.offset)

theorem validFrom_congr (dict Y lits : ByteArray) : ∀ (l1 l2 : List Seq) (q lp : Nat), l1.map seqKey = l2.map seqKey →
    ValidFrom dict Y lits q lp l1 → ValidFrom dict Y lits q lp l2 := by
  intro l1
  induction l1 with
  | nil =>
    intro l2 q lp h hv
    cases l2 with
    | nil => exact hv
    | cons _ _ => simp at h
  | cons a l1 ih =>
    intro l2 q lp h hv
    cases l2 with
    | nil => simp at h
    | cons b l2 =>
      simp only [List.map_cons, List.cons.injEq, seqKey, Prod.mk.injEq] at h
      obtain ⟨⟨e1, e2, e3⟩, e4⟩ := h
      unfold ValidFrom at hv ⊢
      rw [← e1, ← e2, ← e3]
      exact ⟨hv.1, hv.2.1, hv.2.2.1, hv.2.2.2.1, hv.2.2.2.2.1, hv.2.2.2.2.2.1, ih l2 _ _ e4 hv.2.2.2.2.2.2⟩

/-- a valid parse accounts for every byte: unused literals + match lengths + position = size of the content; no sequence is longer
than what remains; every match distance is at least 1 -/
theorem validFrom_sizes (dict Y lits : ByteArray) : ∀ (seqs : List Seq) (q lp : Nat), ValidFrom dict Y lits q lp seqs →
    lp ≤ lits.size ∧ q ≤ Y.size ∧ (lits.size - lp) + (seqs.map (·.ml)).sum + q = Y.size ∧
      ∀ s ∈ seqs, s.ll + s.ml ≤ Y.size - q ∧ 1 ≤ s.offset := by
  intro seqs
  induction seqs with
  | nil =>
    intro q lp hv
    obtain ⟨h1, h2, h3⟩ := hv
    have hs := congrArg ByteArray.size h3
    rw [ByteArray.size_extract, ByteArray.size_extract] at hs
    refine ⟨h2, h1, ?_, fun s hs => by simp at hs⟩
    simp only [List.map_nil, List.sum_nil]; omega
  | cons a l ih =>
    intro q lp hv
    obtain ⟨h1, h2, -, h4, -, -, h7⟩ := hv
    obtain ⟨i1, i2, i3, i4⟩ := ih _ _ h7
    refine ⟨by omega, by omega, ?_, ?_⟩
    · simp only [List.map_cons, List.sum_cons]; omega
    · intro s hs
      simp only [List.mem_cons] at hs
      rcases hs with e | e
      · subst e; exact ⟨by omega, h4⟩
      · have := i4 s e; exact ⟨by omega, this.2⟩

theorem sum_ge_three (l : List Seq) (h : ∀ s ∈ l, 3 ≤ s.ml) : 3 * l.length ≤ (l.map (·.ml)).sum := by
  induction l with
  | nil => simp
  | cons a l ih =>
    have := ih (fun s hs => h s (by simp [hs]))
    have := h a (by simp)
    simp only [List.map_cons, List.sum_cons, List.length_cons]; omega

/-! ### 9. repeat-offset histories stay positive -/

def RepPos (r : Rep.R) : Prop := 1 ≤ r.r0 ∧ 1 ≤ r.r1 ∧ 1 ≤ r.r2

theorem storeAll_pos (rep : Rep.R) (qs : List SeqRT.RawSeq) (h : RepPos rep) (hq : ∀ q ∈ qs, 1 ≤ q.rawOffset) :
    RepPos (SeqRT.storeAll rep qs).2 := by
  induction qs generalizing rep with
  | nil => exact h
  | cons q qs ih =>
    obtain ⟨-, l2, l3, l4⟩ := SeqRT.rep_lockstep rep q.rawOffset (q.litLength == 0) h.1 h.2.1 h.2.2 (hq q (by simp))
    exact ih _ ⟨l2, l3, l4⟩ (fun x hx => hq x (by simp [hx]))

/-! ### 10. MAIN THEOREM: a whole compressed block -/

/-- the sequence the match finder has in mind, as the executor sees it (`ofValue` plays no role in execution) -/
def toSeq (q : SeqRT.RawSeq) : Seq := { ll := q.litLength, ml := q.mlBase + 3, offset := q.rawOffset, ofValue := 0 }

/-- **block_roundtrip_treeless** (headline of C01 at block level).  Let `x` be the content of a block, `prev` what the current frame has produced
before it, `pre` the output of earlier frames, `dict` the dictionary content.  For EVERY parse `(lits, raws)` of `x` that is valid over
the history `dict ++ prev` (`Exec.ValidParse`: literal runs and matches reproduce `x`; matches may overlap themselves and reach into the
dictionary) - whatever match finder produced it - let `seqsIn` be the seqStore entries ZSTD_finalizeOffBase / ZSTD_updateRep make of
it along the encoder's repeat-offset history, and `pt` the resolved table decisions of the previous block with sequences of the frame, if
any (`BlockEnc.nextTables`).  If the body `serializeBlockBody c lits t seqsIn (pt.getD {})` (literals raw / RLE / Huffman; each of the three
sequence tables predefined (`set_basic`) / RLE (`set_rle`) / described by FSE_writeNCount (`set_compressed`) / repeated from that previous
block (`set_repeat`)) sits at `start` in `src`, then ZSTD_decompressBlock_internal (`Block.decodeBlock`) appends exactly `x`, the
decoder's repeat-offset history after the block IS the encoder's (and is positive), and the sequence tables the decoder carries are those
of `nextTables pt t seqsIn`: the next block starts in lock step.
Hypotheses, all of them facts the compressor guarantees: block content and compressed size within the block-size limit `bsm ≤ 2^17`,
offsets fit a U32 (`rawOffset + 3 < 2^32`), the mode decisions are applicable (`LitOK`; `set_repeat` only after a block with sequences;
`TablesOK` and `CodesOK` of the resolved decisions), the histories agree and are positive at the start, the decoder carries the tables
of `pt` (`EntMatch`), the destination can hold the content.  (Lengths < 2^17 and nbSeq < LONGNBSEQ + 65536 FOLLOW from validity.)
For `pt = none` and `t` built from `.predefined` / `.rle` this is, word for word, the earlier statement (then `Tables.resolve _ t = t`:
`resolve_of_not_usesRepeat`, `TablesOK t` and `EntMatch none ent` hold trivially and `serializeBlockBody c lits t seqsIn {}` is the body
without previous tables).
TREELESS literals (`c = .treeless`, `hType = set_repeat`): `hp` = the Huffman table of the last block of the frame that wrote one, if any
(`BlockEnc.nextHuf`); the decoder carries it (`HufMatch hp ent`); `LitOK .treeless lits hp` asks for such a table and that it covers the
literals; afterwards the decoder carries the table of `nextHuf hp c lits`: the next block starts in lock step on this side too.
With `hp = none` this is `block_roundtrip` below. -/
theorem block_roundtrip_treeless (dict pre prev x lits : ByteArray) (raws : List SeqRT.RawSeq) (c : LitChoice) (t : Tables)
    (src : Bytes) (start : Nat) (ent : Entropy) (bsm cap : Nat) (pt : Option Tables) (hp : Option HufTab)
    (hv : ValidParse dict prev x lits (raws.map toSeq))
    (hx : x.size ≤ bsm) (hb17 : bsm ≤ 2 ^ 17) (hoff : ∀ q ∈ raws, q.rawOffset + 3 < 2 ^ 32)
    (hrep : RepPos (repOf ent.rep)) (hent : EntMatch pt ent) (hm : HufMatch hp ent)
    (hc : LitOK c lits hp) (hrp : usesRepeat t = true → pt.isSome = true) (hT : TablesOK (Tables.resolve (pt.getD {}) t))
    (hok : CodesOK (Tables.resolve (pt.getD {}) t) (SeqRT.storeAll (repOf ent.rep) raws).1)
    (H : Holds src start (serializeBlockBody c lits t (SeqRT.storeAll (repOf ent.rep) raws).1 (pt.getD {}) hp))
    (hsize : (serializeBlockBody c lits t (SeqRT.storeAll (repOf ent.rep) raws).1 (pt.getD {}) hp).size ≤ bsm)
    (hcap : pre.size + prev.size + x.size ≤ cap) :
    ∃ ent2 tr, Block.decodeBlock src start (serializeBlockBody c lits t (SeqRT.storeAll (repOf ent.rep) raws).1 (pt.getD {}) hp).size ent
        dict { out := pre ++ prev, frameStart := pre.size, cap := cap } bsm = .ok (pre ++ prev ++ x, ent2, tr) ∧
      repOf ent2.rep = (SeqRT.storeAll (repOf ent.rep) raws).2 ∧ RepPos (repOf ent2.rep) ∧ tr.nbSeq = raws.length ∧
      EntMatch (nextTables pt t (SeqRT.storeAll (repOf ent.rep) raws).1) ent2 ∧ HufMatch (nextHuf hp c lits) ent2 := by
  obtain ⟨-, -, v3, v4⟩ := validFrom_sizes dict (prev ++ x) lits _ _ _ hv
  rw [ByteArray.size_append] at v3 v4
  have hml : ∀ s ∈ raws.map toSeq, 3 ≤ s.ml := by
    intro s hs
    obtain ⟨q, -, rfl⟩ := List.mem_map.1 hs
    show 3 ≤ q.mlBase + 3
    omega
  have h3 := sum_ge_three _ hml
  rw [List.length_map] at h3
  obtain ⟨sl, sr⟩ := SeqRT.storeAll_spec (repOf ent.rep) raws
  have hq : ∀ q ∈ raws, q.litLength < 2 ^ 17 ∧ q.mlBase < 2 ^ 17 ∧ 1 ≤ q.rawOffset ∧ q.rawOffset + 3 < 2 ^ 32 := by
    intro q hq
    have := v4 (toSeq q) (List.mem_map.2 ⟨q, hq, rfl⟩)
    simp only [toSeq] at this
    exact ⟨by omega, by omega, this.2, hoff q hq⟩
  have hrng := sr (fun q h => ⟨(hq q h).1, (hq q h).2.1, (hq q h).2.2.2⟩)
  obtain ⟨t1, t2⟩ := SeqRT.resolveAll_storeAll (repOf ent.rep) raws hrep.1 hrep.2.1 hrep.2.2 (fun q h => (hq q h).2.2.1)
  have hsz : (pre ++ prev).size = pre.size + prev.size := ByteArray.size_append
  obtain ⟨p, hp1, p1, p2, p3, p4, p5, p6, p7⟩ := prepare_serialized_treeless c lits t _ hp hc (by omega) (by rw [sl]; unfold LONGNBSEQ; omega)
    hrng pt hrp hT hok src start ent bsm (cap - (pre ++ prev).size) hent hm H hsize (by omega) (by rw [hsz]; omega)
    (by
      intro hne
      have : raws ≠ [] := by intro e; rw [e] at hne; exact hne rfl
      have : 0 < raws.length := List.length_pos_iff.2 this
      rw [hsz]; omega)
  have hv2 : ValidParse dict prev x lits (resolveAll (repOf ent.rep) ((SeqRT.storeAll (repOf ent.rep) raws).1.map triIn)).1 := by
    refine validFrom_congr dict (prev ++ x) lits _ _ _ _ ?_ hv
    rw [List.map_map]
    exact t1.symm
  have hexec := Exec.exec_of_validParse_frame dict pre prev x lits _ cap hv2 hcap
  refine ⟨p.ent, p.tr, ?_, by rw [p4, t2], by rw [p4, t2]; exact storeAll_pos _ _ hrep (fun q h => (hq q h).2.2.1), by rw [p5, sl], p6, p7⟩
  unfold Block.decodeBlock
  simp only [hp1, bind, Except.bind, Block.finish, p1, p2, p3, hexec]

/-- **block_roundtrip**: `block_roundtrip_treeless` with nothing known about an earlier Huffman table (`hp = none`): literals raw / RLE /
Huffman with a new table (direct tree description); each sequence table predefined / RLE / described / repeated. -/
theorem block_roundtrip (dict pre prev x lits : ByteArray) (raws : List SeqRT.RawSeq) (c : LitChoice) (t : Tables)
    (src : Bytes) (start : Nat) (ent : Entropy) (bsm cap : Nat) (pt : Option Tables)
    (hv : ValidParse dict prev x lits (raws.map toSeq))
    (hx : x.size ≤ bsm) (hb17 : bsm ≤ 2 ^ 17) (hoff : ∀ q ∈ raws, q.rawOffset + 3 < 2 ^ 32)
    (hrep : RepPos (repOf ent.rep)) (hent : EntMatch pt ent)
    (hc : LitOK c lits) (hrp : usesRepeat t = true → pt.isSome = true) (hT : TablesOK (Tables.resolve (pt.getD {}) t))
    (hok : CodesOK (Tables.resolve (pt.getD {}) t) (SeqRT.storeAll (repOf ent.rep) raws).1)
    (H : Holds src start (serializeBlockBody c lits t (SeqRT.storeAll (repOf ent.rep) raws).1 (pt.getD {})))
    (hsize : (serializeBlockBody c lits t (SeqRT.storeAll (repOf ent.rep) raws).1 (pt.getD {})).size ≤ bsm)
    (hcap : pre.size + prev.size + x.size ≤ cap) :
    ∃ ent2 tr, Block.decodeBlock src start (serializeBlockBody c lits t (SeqRT.storeAll (repOf ent.rep) raws).1 (pt.getD {})).size ent dict
        { out := pre ++ prev, frameStart := pre.size, cap := cap } bsm = .ok (pre ++ prev ++ x, ent2, tr) ∧
      repOf ent2.rep = (SeqRT.storeAll (repOf ent.rep) raws).2 ∧ RepPos (repOf ent2.rep) ∧ tr.nbSeq = raws.length ∧
      EntMatch (nextTables pt t (SeqRT.storeAll (repOf ent.rep) raws).1) ent2 := by
  obtain ⟨ent2, tr, h1, h2, h3, h4, h5, -⟩ := block_roundtrip_treeless dict pre prev x lits raws c t src start ent bsm cap pt none hv hx hb17
    hoff hrep hent trivial hc hrp hT hok H hsize hcap
  exact ⟨ent2, tr, h1, h2, h3, h4, h5⟩

/-- **block_roundtrip_basic**: a block on its own - no `set_repeat`, no knowledge of earlier blocks (`pt = none`).  This is the
statement `block_roundtrip` made before `set_compressed` / `set_repeat` were covered (for predefined / RLE tables `TablesOK t` is `True`),
now also for described tables. -/
theorem block_roundtrip_basic (dict pre prev x lits : ByteArray) (raws : List SeqRT.RawSeq) (c : LitChoice) (t : Tables)
    (src : Bytes) (start : Nat) (ent : Entropy) (bsm cap : Nat)
    (hv : ValidParse dict prev x lits (raws.map toSeq))
    (hx : x.size ≤ bsm) (hb17 : bsm ≤ 2 ^ 17) (hoff : ∀ q ∈ raws, q.rawOffset + 3 < 2 ^ 32)
    (hrep : RepPos (repOf ent.rep))
    (hc : LitOK c lits) (hnr : usesRepeat t = false) (hT : TablesOK t) (hok : CodesOK t (SeqRT.storeAll (repOf ent.rep) raws).1)
    (H : Holds src start (serializeBlockBody c lits t (SeqRT.storeAll (repOf ent.rep) raws).1))
    (hsize : (serializeBlockBody c lits t (SeqRT.storeAll (repOf ent.rep) raws).1).size ≤ bsm)
    (hcap : pre.size + prev.size + x.size ≤ cap) :
    ∃ ent2 tr, Block.decodeBlock src start (serializeBlockBody c lits t (SeqRT.storeAll (repOf ent.rep) raws).1).size ent dict
        { out := pre ++ prev, frameStart := pre.size, cap := cap } bsm = .ok (pre ++ prev ++ x, ent2, tr) ∧
      repOf ent2.rep = (SeqRT.storeAll (repOf ent.rep) raws).2 ∧ RepPos (repOf ent2.rep) ∧ tr.nbSeq = raws.length := by
  have hr : Tables.resolve ((none : Option Tables).getD {}) t = t := resolve_of_not_usesRepeat _ t hnr
  obtain ⟨ent2, tr, h1, h2, h3, h4, -⟩ := block_roundtrip dict pre prev x lits raws c t src start ent bsm cap none hv hx hb17 hoff hrep
    trivial hc (by rw [hnr]; intro h; cases h) (by rw [hr]; exact hT) (by rw [hr]; exact hok) H hsize hcap
  exact ⟨ent2, tr, h1, h2, h3, h4⟩

/-! ### 11. frames that contain compressed blocks -/

open ZstdVerif.Serialize ZstdVerif.HeaderW
open ZstdVerif.FrameRT (St stepOf StepRaw StepRle forIn_cons_done forIn_cons_yield blockHeader24_size size_ofList)

/-- the model-level raw sequence (`BlockEnc.RawSeq`) as the one of Lemmas/SeqRT.lean -/
def toRT (q : BlockEnc.RawSeq) : SeqRT.RawSeq := ⟨q.litLength, q.mlBase, q.rawOffset⟩

theorem storeAll_toRT (rep : Rep.R) (raws : List BlockEnc.RawSeq) : BlockEnc.storeAll rep raws = SeqRT.storeAll rep (raws.map toRT) := by
  induction raws generalizing rep with
  | nil => rfl
  | cons q qs ih => simp only [BlockEnc.storeAll, SeqRT.storeAll, List.map_cons, toRT, ih]

/-- the block list tiles `x[pos, x.size)` and every compressed block carries a VALID parse of its stretch over the content before it
(and the dictionary content `dc`), with applicable mode decisions; `rep` = the encoder's repeat-offset history in front of the block;
`prev` = the resolved sequence-table decisions of the last compressed block with sequences in front of the block (`none`: there is none
yet), threaded by `BlockEnc.nextTables` exactly as `serializeBlocks2` threads it.  A block that uses `set_repeat` needs such a block
(`usesRepeat t → prev.isSome`); the resolved decisions must be acceptable to the decoder (`TablesOK`) and express the codes (`CodesOK`).
(These three are asked of every compressed block; a block without sequences writes no table decisions, so `t = {}` can always be
passed for it: `seqSection` ignores `t` then.) -/
def Tiles2 (dc : ByteArray) (bsm : Nat) (x : ByteArray) (bs : List BlockChoice2) (pos : Nat) (rep : Rep.R)
    (prev : Option Tables := none) : Prop :=
  match bs with
  | [] => pos = x.size
  | .raw n :: rest => pos + n ≤ x.size ∧ n ≤ bsm ∧ Tiles2 dc bsm x rest (pos + n) rep prev
  | .rle b n :: rest =>
    pos + n ≤ x.size ∧ n ≤ bsm ∧ x.extract pos (pos + n) = ByteArray.mk (Array.replicate n b) ∧ Tiles2 dc bsm x rest (pos + n) rep prev
  | .compressed c t lits raws :: rest =>
    pos + parseLen lits raws ≤ x.size ∧ parseLen lits raws ≤ bsm ∧
    ValidParse dc (x.extract 0 pos) (x.extract pos (pos + parseLen lits raws)) lits ((raws.map toRT).map toSeq) ∧
    (∀ q ∈ raws, q.rawOffset + 3 < 2 ^ 32) ∧ LitOK c lits ∧
    (usesRepeat t = true → prev.isSome = true) ∧ TablesOK (Tables.resolve (prev.getD {}) t) ∧
    CodesOK (Tables.resolve (prev.getD {}) t) (BlockEnc.storeAll rep raws).1 ∧
    (serializeBlockBody c lits t (BlockEnc.storeAll rep raws).1 (prev.getD {})).size ≤ bsm ∧
    Tiles2 dc bsm x rest (pos + parseLen lits raws) (BlockEnc.storeAll rep raws).2 (nextTables prev t (BlockEnc.storeAll rep raws).1)

/-- `Tiles2` with TREELESS literals allowed: `hp` = the Huffman table of the last compressed block in front of the block whose
literals section wrote one (`none`: there is none yet), threaded by `BlockEnc.nextHuf` exactly as `serializeBlocks2` threads it.  A block
with treeless literals needs such a table, and it must cover its literals (`LitOK c lits hp`); its body is written with that table. -/
def TilesT (dc : ByteArray) (bsm : Nat) (x : ByteArray) (bs : List BlockChoice2) (pos : Nat) (rep : Rep.R)
    (prev : Option Tables := none) (hp : Option HufTab := none) : Prop :=
  match bs with
  | [] => pos = x.size
  | .raw n :: rest => pos + n ≤ x.size ∧ n ≤ bsm ∧ TilesT dc bsm x rest (pos + n) rep prev hp
  | .rle b n :: rest =>
    pos + n ≤ x.size ∧ n ≤ bsm ∧ x.extract pos (pos + n) = ByteArray.mk (Array.replicate n b) ∧ TilesT dc bsm x rest (pos + n) rep prev hp
  | .compressed c t lits raws :: rest =>
    pos + parseLen lits raws ≤ x.size ∧ parseLen lits raws ≤ bsm ∧
    ValidParse dc (x.extract 0 pos) (x.extract pos (pos + parseLen lits raws)) lits ((raws.map toRT).map toSeq) ∧
    (∀ q ∈ raws, q.rawOffset + 3 < 2 ^ 32) ∧ LitOK c lits hp ∧
    (usesRepeat t = true → prev.isSome = true) ∧ TablesOK (Tables.resolve (prev.getD {}) t) ∧
    CodesOK (Tables.resolve (prev.getD {}) t) (BlockEnc.storeAll rep raws).1 ∧
    (serializeBlockBody c lits t (BlockEnc.storeAll rep raws).1 (prev.getD {}) hp).size ≤ bsm ∧
    TilesT dc bsm x rest (pos + parseLen lits raws) (BlockEnc.storeAll rep raws).2 (nextTables prev t (BlockEnc.storeAll rep raws).1)
      (nextHuf hp c lits)

/-- a tiling without treeless literals (`Tiles2`: every `LitOK` holds with no table known) is a tiling in the wider sense, whatever
Huffman table the writer carries along -/
theorem tilesT_of_tiles2 (dc : ByteArray) (bsm : Nat) (x : ByteArray) : ∀ (bs : List BlockChoice2) (pos : Nat) (rep : Rep.R)
    (prev : Option Tables) (hp : Option HufTab), Tiles2 dc bsm x bs pos rep prev → TilesT dc bsm x bs pos rep prev hp := by
  intro bs
  induction bs with
  | nil => intro _ _ _ _ h; exact h
  | cons c rest ih =>
    intro pos rep prev hp h
    cases c with
    | raw n => exact ⟨h.1, h.2.1, ih _ _ _ _ h.2.2⟩
    | rle b n => exact ⟨h.1, h.2.1, h.2.2.1, ih _ _ _ _ h.2.2.2⟩
    | compressed c t lits raws =>
      obtain ⟨t1, t2, tv, toff, tlit, trp, ttab, tcodes, tsz, t3⟩ := h
      obtain ⟨hne, hl⟩ := litOK_hp hp tlit
      refine ⟨t1, t2, tv, toff, hl, trp, ttab, tcodes, ?_, ih _ _ _ _ t3⟩
      unfold serializeBlockBody at tsz ⊢
      rw [litSection_hp c lits hp hne]
      exact tsz

/-- the writer does not look at the Huffman table it carries along unless a block has treeless literals -/
theorem serializeBlocks2_hp (dc : ByteArray) (bsm : Nat) (x : ByteArray) : ∀ (bs : List BlockChoice2) (pos : Nat) (rep : Rep.R)
    (prev : Option Tables) (hp : Option HufTab), Tiles2 dc bsm x bs pos rep prev →
    serializeBlocks2 x bs pos rep prev hp = serializeBlocks2 x bs pos rep prev := by
  intro bs
  induction bs with
  | nil => intro _ _ _ _ _; rfl
  | cons c rest ih =>
    intro pos rep prev hp h
    cases c with
    | raw n => simp only [serializeBlocks2]; rw [ih _ _ _ hp h.2.2]
    | rle b n => simp only [serializeBlocks2]; rw [ih _ _ _ hp h.2.2.2]
    | compressed c t lits raws =>
      obtain ⟨-, -, -, -, tlit, -, -, -, -, t3⟩ := h
      obtain ⟨hne, -⟩ := litOK_hp hp tlit
      simp only [serializeBlocks2, serializeBlockBody]
      rw [litSection_hp c lits hp hne, ih _ _ _ (nextHuf hp c lits) t3, ih _ _ _ (nextHuf none c lits) t3]

/-- what one iteration of the block loop of `Frame.decompressFrame` does on a compressed block whose body decodes -/
def StepCmp (src dc : ByteArray) (fs cap bsm : Nat) (f : Nat → St → R (ForInStep St)) : Prop :=
  ∀ (i ip rem : Nat) (out : ByteArray) (ent : Entropy) (blocks : Array Frame.BlockTrace) (last : Bool) (body out2 : ByteArray)
    (ent2 : Entropy) (tr : Block.Trace),
    Holds src ip (blockHeader24 last bt_compressed body.size ++ body) → 3 + body.size ≤ rem → body.size < 2 ^ 21 →
    Block.decodeBlock src (ip + 3) body.size ent dc { out := out, frameStart := fs, cap := cap } bsm = .ok (out2, ent2, tr) →
    out2.size - out.size ≤ bsm →
    ∃ bt : Frame.BlockTrace, bt.hdr.last = last ∧
      f i (ip, rem, out, ent, blocks, none) = .ok (stepOf last (ip + 3 + body.size, rem - 3 - body.size, out2, ent2, blocks.push bt, none))

theorem serializeBlocks2_size_ge (x : ByteArray) (bs : List BlockChoice2) (pos : Nat) (rep : Rep.R) (prev : Option Tables := none)
    (hp : Option HufTab := none) : 3 * bs.length ≤ (serializeBlocks2 x bs pos rep prev hp).size := by
  induction bs generalizing pos rep prev hp with
  | nil => simp [serializeBlocks2]
  | cons c rest ih =>
    cases c with
    | raw n =>
      have := ih (pos + n) rep prev hp
      simp only [serializeBlocks2, noCompressBlock, ByteArray.size_append, blockHeader24_size, List.length_cons] at this ⊢
      omega
    | rle b n =>
      have := ih (pos + n) rep prev hp
      simp only [serializeBlocks2, rleCompressBlock, ByteArray.size_append, blockHeader24_size, List.length_cons] at this ⊢
      omega
    | compressed c t lits raws =>
      have := ih (pos + parseLen lits raws) (BlockEnc.storeAll rep raws).2 (nextTables prev t (BlockEnc.storeAll rep raws).1)
        (nextHuf hp c lits)
      simp only [serializeBlocks2, compressedBlock, ByteArray.size_append, blockHeader24_size, List.length_cons] at this ⊢
      omega

theorem ext_step (out0 x : ByteArray) (pos n : Nat) :
    out0 ++ x.extract 0 pos ++ x.extract pos (pos + n) = out0 ++ x.extract 0 (pos + n) := by
  rw [ByteArray.append_assoc, ByteArray.extract_append_extract, Nat.min_eq_left (Nat.zero_le _), Nat.max_eq_right (by omega)]

/-- the block loop of `Frame.decompressFrame` on serialized raw / RLE / COMPRESSED blocks: it stops at the flagged block with exactly the
tiled content appended and every input byte of the blocks consumed.  The entropy state is threaded through the blocks; what the
induction needs of it is the repeat-offset history and the carried sequence tables, both in lock step with the encoder's
(`block_roundtrip_treeless`: `repOf ent.rep = rep`, `EntMatch pt ent`), and the carried Huffman table (`HufMatch hp ent`); raw and RLE
blocks leave the decoder's entropy state untouched, as they leave the encoder's `rep` / `prev` / `hp`. -/
theorem blocks_loopT (src dc x out0 : ByteArray) (cap bsm r : Nat) (f : Nat → St → R (ForInStep St)) (hbsm : bsm ≤ 2 ^ 17)
    (hraw : StepRaw src cap bsm f) (hrle : StepRle src cap bsm f) (hcmp : StepCmp src dc out0.size cap bsm f)
    (hcap : out0.size + x.size ≤ cap) :
    ∀ (bs : List BlockChoice2) (l : List Nat) (pos ip rem : Nat) (out : ByteArray) (ent : Entropy) (blocks : Array Frame.BlockTrace)
      (rep : Rep.R) (pt : Option Tables) (hp : Option HufTab), out = out0 ++ x.extract 0 pos →
      bs ≠ [] → bs.length ≤ l.length → TilesT dc bsm x bs pos rep pt hp → repOf ent.rep = rep → RepPos rep → EntMatch pt ent →
      HufMatch hp ent →
      Holds src ip (serializeBlocks2 x bs pos rep pt hp) → rem = (serializeBlocks2 x bs pos rep pt hp).size + r →
      ∃ (bl : Array Frame.BlockTrace) (ent2 : Entropy), bl.back?.map (·.hdr.last) = some true ∧
        forIn l ((ip, rem, out, ent, blocks, none) : St) f =
          .ok (ip + (serializeBlocks2 x bs pos rep pt hp).size, r, out0 ++ x, ent2, bl, none) := by
  have hfin : ∀ pos, pos = x.size → out0 ++ x.extract 0 pos = out0 ++ x := by
    intro pos hp; rw [hp, ByteArray.extract_zero_size]
  intro bs
  induction bs with
  | nil => intro _ _ _ _ _ _ _ _ _ _ _ h; exact absurd rfl h
  | cons c rest ih =>
    intro l pos ip rem out ent blocks rep pt hp hout _ hl ht hre hrp hem hhm hh hrem
    subst hout
    cases l with
    | nil => simp at hl
    | cons a l2 =>
      have hl2 : rest.length ≤ l2.length := by simpa using hl
      cases c with
      | raw n =>
        obtain ⟨t1, t2, t3⟩ := ht
        have hds : (x.extract pos (pos + n)).size = n := by rw [ByteArray.size_extract]; omega
        have hos : (out0 ++ x.extract 0 pos).size = out0.size + pos := by
          rw [ByteArray.size_append, ByteArray.size_extract]; omega
        simp only [serializeBlocks2, noCompressBlock] at hh hrem ⊢
        simp only [ByteArray.size_append, blockHeader24_size, hds] at hrem ⊢
        cases rest with
        | nil =>
          have hp : pos + n = x.size := t3
          simp only [serializeBlocks2, ByteArray.size_empty, Nat.add_zero, List.isEmpty_nil] at hh hrem ⊢
          obtain ⟨bt, hbt, hf⟩ := hraw a ip rem (out0 ++ x.extract 0 pos) ent blocks true n _ hh.left hds (by omega) (by omega) t2 (by omega)
          refine ⟨blocks.push bt, ent, by simp [hbt], ?_⟩
          rw [forIn_cons_done _ _ _ _ _ hf, ext_step, hfin _ hp, show ip + 3 + n = ip + (3 + n) by omega, show rem - 3 - n = r by omega]
        | cons c2 rest2 =>
          simp only [List.isEmpty_cons] at hh
          obtain ⟨bt, hbt, hf⟩ := hraw a ip rem (out0 ++ x.extract 0 pos) ent blocks false n _ hh.left hds (by omega) (by omega) t2 (by omega)
          have hr := hh.right
          simp only [ByteArray.size_append, blockHeader24_size, hds] at hr
          obtain ⟨bl, ent2, hb1, hb2⟩ := ih l2 (pos + n) (ip + (3 + n)) (rem - 3 - n) _ ent (blocks.push bt) rep pt hp rfl
            (by simp) hl2 t3 hre hrp hem hhm hr (by omega)
          refine ⟨bl, ent2, hb1, ?_⟩
          rw [forIn_cons_yield _ _ _ _ _ hf, ext_step]
          rw [show ip + 3 + n = ip + (3 + n) by omega, hb2, Nat.add_assoc]
      | rle b n =>
        obtain ⟨t1, t2, t4, t3⟩ := ht
        have hos : (out0 ++ x.extract 0 pos).size = out0.size + pos := by
          rw [ByteArray.size_append, ByteArray.size_extract]; omega
        simp only [serializeBlocks2, rleCompressBlock] at hh hrem ⊢
        have hos1 : (ofList [b]).size = 1 := rfl
        simp only [ByteArray.size_append, blockHeader24_size, hos1] at hrem ⊢
        cases rest with
        | nil =>
          have hp : pos + n = x.size := t3
          simp only [serializeBlocks2, ByteArray.size_empty, Nat.add_zero, List.isEmpty_nil] at hh hrem ⊢
          obtain ⟨bt, hbt, hf⟩ := hrle a ip rem (out0 ++ x.extract 0 pos) ent blocks true n b hh.left (by omega) (by omega) t2 (by omega)
          refine ⟨blocks.push bt, ent, by simp [hbt], ?_⟩
          rw [forIn_cons_done _ _ _ _ _ hf, ← t4, ext_step, hfin _ hp, show ip + 3 + 1 = ip + (3 + 1) by omega,
            show rem - 3 - 1 = r by omega]
        | cons c2 rest2 =>
          simp only [List.isEmpty_cons] at hh
          obtain ⟨bt, hbt, hf⟩ := hrle a ip rem (out0 ++ x.extract 0 pos) ent blocks false n b hh.left (by omega) (by omega) t2 (by omega)
          have hr := hh.right
          simp only [ByteArray.size_append, blockHeader24_size, hos1] at hr
          obtain ⟨bl, ent2, hb1, hb2⟩ := ih l2 (pos + n) (ip + (3 + 1)) (rem - 3 - 1) _ ent (blocks.push bt) rep pt hp rfl
            (by simp) hl2 t3 hre hrp hem hhm hr (by omega)
          refine ⟨bl, ent2, hb1, ?_⟩
          rw [forIn_cons_yield _ _ _ _ _ hf, ← t4, ext_step]
          rw [show ip + 3 + 1 = ip + (3 + 1) by omega, hb2, Nat.add_assoc]
      | compressed c t lits raws =>
        obtain ⟨t1, t2, tv, toff, tlit, trp, ttab, tcodes, tsz, t3⟩ := ht
        have hos : (out0 ++ x.extract 0 pos).size = out0.size + pos := by
          rw [ByteArray.size_append, ByteArray.size_extract]; omega
        have hds : (x.extract pos (pos + parseLen lits raws)).size = parseLen lits raws := by rw [ByteArray.size_extract]; omega
        have hps : (x.extract 0 pos).size = pos := by rw [ByteArray.size_extract]; omega
        simp only [serializeBlocks2, compressedBlock] at hh hrem ⊢
        simp only [ByteArray.size_append, blockHeader24_size] at hrem ⊢
        rw [storeAll_toRT, ← hre] at tcodes tsz hh hrem t3 ⊢
        have hbody := hh.left.right
        rw [blockHeader24_size] at hbody
        obtain ⟨ent2, tr, hdec, hrep2, hpos2, -, hem2, hhm2⟩ := block_roundtrip_treeless dc out0 (x.extract 0 pos)
          (x.extract pos (pos + parseLen lits raws))
          lits (raws.map toRT) c t src (ip + 3) ent bsm cap pt hp tv (by omega) hbsm
          (by intro q hq; obtain ⟨q2, hq2, rfl⟩ := List.mem_map.1 hq; exact toff q2 hq2)
          (by rw [hre]; exact hrp) hem hhm tlit trp ttab tcodes hbody tsz (by omega)
        generalize hB : serializeBlockBody c lits t (SeqRT.storeAll (repOf ent.rep) (raws.map toRT)).1 (pt.getD {}) hp = body at *
        rw [ext_step] at hdec
        have hgrow : (out0 ++ x.extract 0 (pos + parseLen lits raws)).size - (out0 ++ x.extract 0 pos).size ≤ bsm := by
          rw [hos, ByteArray.size_append, ByteArray.size_extract]; omega
        cases rest with
        | nil =>
          have hp : pos + parseLen lits raws = x.size := t3
          simp only [serializeBlocks2, ByteArray.size_empty, Nat.add_zero, List.isEmpty_nil] at hh hrem ⊢
          obtain ⟨bt, hbt, hf⟩ := hcmp a ip rem (out0 ++ x.extract 0 pos) ent blocks true body _ ent2 tr hh.left (by omega) (by omega) hdec hgrow
          refine ⟨blocks.push bt, ent2, by simp [hbt], ?_⟩
          rw [forIn_cons_done _ _ _ _ _ hf, hfin _ hp, show ip + 3 + body.size = ip + (3 + body.size) by omega,
            show rem - 3 - body.size = r by omega]
        | cons c2 rest2 =>
          simp only [List.isEmpty_cons] at hh
          obtain ⟨bt, hbt, hf⟩ := hcmp a ip rem (out0 ++ x.extract 0 pos) ent blocks false body _ ent2 tr hh.left (by omega) (by omega) hdec hgrow
          have hr := hh.right
          simp only [ByteArray.size_append, blockHeader24_size] at hr
          obtain ⟨bl, ent3, hb1, hb2⟩ := ih l2 (pos + parseLen lits raws) (ip + (3 + body.size)) (rem - 3 - body.size) _ ent2
            (blocks.push bt) _ _ _ rfl (by simp) hl2 t3 hrep2 (by rw [← hrep2]; exact hpos2) hem2 hhm2 hr (by omega)
          refine ⟨bl, ent3, hb1, ?_⟩
          rw [forIn_cons_yield _ _ _ _ _ hf]
          rw [show ip + 3 + body.size = ip + (3 + body.size) by omega, hb2, Nat.add_assoc]

/-- **blocks_loop2**: `blocks_loopT` for tilings without treeless literals (`Tiles2`) -/
theorem blocks_loop2 (src dc x out0 : ByteArray) (cap bsm r : Nat) (f : Nat → St → R (ForInStep St)) (hbsm : bsm ≤ 2 ^ 17)
    (hraw : StepRaw src cap bsm f) (hrle : StepRle src cap bsm f) (hcmp : StepCmp src dc out0.size cap bsm f)
    (hcap : out0.size + x.size ≤ cap) :
    ∀ (bs : List BlockChoice2) (l : List Nat) (pos ip rem : Nat) (out : ByteArray) (ent : Entropy) (blocks : Array Frame.BlockTrace)
      (rep : Rep.R) (pt : Option Tables), out = out0 ++ x.extract 0 pos →
      bs ≠ [] → bs.length ≤ l.length → Tiles2 dc bsm x bs pos rep pt → repOf ent.rep = rep → RepPos rep → EntMatch pt ent →
      Holds src ip (serializeBlocks2 x bs pos rep pt) → rem = (serializeBlocks2 x bs pos rep pt).size + r →
      ∃ (bl : Array Frame.BlockTrace) (ent2 : Entropy), bl.back?.map (·.hdr.last) = some true ∧
        forIn l ((ip, rem, out, ent, blocks, none) : St) f =
          .ok (ip + (serializeBlocks2 x bs pos rep pt).size, r, out0 ++ x, ent2, bl, none) :=
  fun bs l pos ip rem out ent blocks rep pt hout hne hl ht hre hrp hem hh hrem =>
    blocks_loopT src dc x out0 cap bsm r f hbsm hraw hrle hcmp hcap bs l pos ip rem out ent blocks rep pt none hout hne hl
      (tilesT_of_tiles2 dc bsm x bs pos rep pt none ht) hre hrp hem trivial hh hrem

/-- `Frame.blockHeader` (ZSTD_getcBlockSize) reads back the header of a compressed block: type 2, the body size, the last-block flag -/
theorem blockHeader_cmp {src : ByteArray} {ip rem n : Nat} {last : Bool} (h : Holds src ip (blockHeader24 last bt_compressed n))
    (hrem : 3 ≤ rem) (hn : n < 2 ^ 21) :
    Frame.blockHeader src ip rem = .ok { last := last, ty := 2, cSize := n, origSize := n } := by
  obtain ⟨f1, f2, f3⟩ := FrameRT.blockHeaderVal_fields last 2 n (by omega)
  unfold Frame.blockHeader
  rw [if_neg (by simp only [ZSTD_blockHeaderSize]; omega), h.le24 (by rw [blockHeader24_size]; omega),
    FrameRT.blockHeader24_le24 _ _ _ (by unfold bt_compressed; omega) hn]
  simp only [bt_compressed, f1, f2, f3]
  rfl

/-- the blocks the decoder sees: an empty block list gets the empty raw last block of ZSTD_writeEpilogue -/
def effBlocks2 (bs : List BlockChoice2) : List BlockChoice2 := if bs.isEmpty then [.raw 0] else bs

theorem serializeFrame2_eq (a : HArgs) (bs : List BlockChoice2) (x : ByteArray) :
    serializeFrame2 a bs x = ofList (writeHeader a) ++ (serializeBlocks2 x (effBlocks2 bs) 0 repStart ++ FrameRT.checksumBytes a x) := by
  unfold serializeFrame2 epilogue effBlocks2 FrameRT.checksumBytes
  cases bs with
  | nil =>
    simp only [List.isEmpty_nil, if_true, serializeBlocks2, noCompressBlock, ByteArray.empty_append, ByteArray.extract_same,
      ByteArray.append_empty]
  | cons c rest =>
    simp only [List.isEmpty_cons, Bool.false_eq_true, if_false, ByteArray.empty_append]

theorem tiles2_effBlocks {dc : ByteArray} {bsm : Nat} {x : ByteArray} {bs : List BlockChoice2} {rep : Rep.R}
    (h : Tiles2 dc bsm x bs 0 rep) : Tiles2 dc bsm x (effBlocks2 bs) 0 rep := by
  unfold effBlocks2
  cases bs with
  | nil =>
    have : 0 = x.size := h
    simp only [List.isEmpty_nil, if_true, Tiles2]
    omega
  | cons c rest => exact h

theorem tilesT_effBlocks {dc : ByteArray} {bsm : Nat} {x : ByteArray} {bs : List BlockChoice2} {rep : Rep.R}
    (h : TilesT dc bsm x bs 0 rep) : TilesT dc bsm x (effBlocks2 bs) 0 rep := by
  unfold effBlocks2
  cases bs with
  | nil =>
    have : 0 = x.size := h
    simp only [List.isEmpty_nil, if_true, TilesT]
    omega
  | cons c rest => exact h

theorem effBlocks2_ne (bs : List BlockChoice2) : effBlocks2 bs ≠ [] := by
  unfold effBlocks2
  cases bs <;> simp

/-- **one serialized frame with compressed blocks inside any input**: `Frame.decompressFrame` (ZSTD_decompressFrame) started at the
frame appends exactly the content and consumes exactly the frame.  `dict` may carry content (the parses are valid over it) but its
repeat-offset history must be the start value the encoder uses (`repStartValue`), as it is without a dictionary; its sequence tables
are never asked for, because the block list starts with `prev = none`: `set_repeat` is only written after a compressed block with
sequences of this frame, and likewise treeless literals only after a compressed block of this frame whose literals section wrote a
Huffman table (`TilesT`, started with `prev = none`, `hp = none`). -/
theorem decompressFrame_serializedT (a : HArgs) (ha : a.wf) (hnd : a.noDictID = true ∨ a.dictID = 0)
    (bs : List BlockChoice2) (x : ByteArray) (hfcs : a.contentSizeFlag = true → a.pledged = x.size) (dict : Frame.Dict)
    (hrep0 : repOf dict.ent.rep = repStart)
    (ht : TilesT dict.content (min (if single a then a.pledged else 2 ^ a.windowLog) ZSTD_BLOCKSIZE_MAX) x bs 0 repStart)
    {src : ByteArray} {ip0 : Nat} (r : Nat) (hsrc : Holds src ip0 (serializeFrame2 a bs x))
    (out0 : ByteArray) (cap : Nat) (hcap : out0.size + x.size ≤ cap)
    (o : Frame.Opts) (hml : o.magicless = a.magicless) (hmb : o.maxBlockSize = 0)
    (hhash : a.checksum = true → XXH64.hashRange (out0 ++ x) out0.size x.size = XXH64.hashRange x 0 x.size) :
    ∃ tr, Frame.decompressFrame src ip0 ((serializeFrame2 a bs x).size + r) dict out0 cap o =
      .ok (out0 ++ x, (serializeFrame2 a bs x).size, tr) := by
  rw [serializeFrame2_eq] at hsrc ⊢
  have htl := tilesT_effBlocks ht
  have hne := effBlocks2_ne bs
  generalize effBlocks2 bs = bs2 at hsrc htl hne ⊢
  obtain ⟨hd, g0, g1, hsk, gfcs, gws, gdid, gck⟩ := FrameRT.getHeader_serialized a ha hsrc
  have gbsm := FrameRT.getHeader_bsm g1 hsk
  rw [gws] at gbsm
  have hH := FrameRT.writeHeader_length_ge a
  have hS := serializeBlocks2_size_ge x bs2 0 repStart
  have hlen : 1 ≤ bs2.length := by cases bs2 with | nil => exact absurd rfl hne | cons _ _ => simp
  have hC := FrameRT.checksumBytes_size a x
  have hfh : Frame.headerSizeOf (src.u8 (ip0 + if a.magicless = true then 0 else 4)) a.magicless = (writeHeader a).length := by
    rw [← g0]; cases a.magicless <;> rfl
  simp only [ByteArray.size_append, size_ofList]
  generalize hHn : (writeHeader a).length = H at *
  generalize hSn : (serializeBlocks2 x bs2 0 repStart).size = S at *
  generalize hCn : (FrameRT.checksumBytes a x).size = C at *
  unfold Frame.decompressFrame
  simp only [bind, Except.bind, pure, Except.pure, throw, throwThe, MonadExceptOf.throw]
  simp only [hmb, hml, hfh, g1, hsk, bne_self_eq_false, Bool.false_eq_true, if_false]
  rw [if_neg (by simp only [ZSTD_blockHeaderSize]; omega), if_neg (by simp only [ZSTD_blockHeaderSize]; omega)]
  have hdid0 : hd.dictID = 0 := by rw [gdid]; rcases hnd with h | h <;> simp [h]
  simp only [hdid0, bne_self_eq_false, Bool.false_and, Bool.false_eq_true, if_false]
  generalize hloop : forIn (m := R) (ρ := Std.Legacy.Range) _ _ _ = L
  have hbsm : hd.blockSizeMax ≤ 2 ^ 17 := by rw [gbsm]; simp only [ZSTD_BLOCKSIZE_MAX]; omega
  have hL : ∃ (bl : Array Frame.BlockTrace) (ent2 : Entropy), bl.back?.map (·.hdr.last) = some true ∧
      L = .ok (ip0 + H + S, C + r, out0 ++ x, ent2, bl, none) := by
    rw [← hloop, Std.Legacy.Range.forIn_eq_forIn_range', ← hSn]
    refine blocks_loopT src dict.content x out0 cap hd.blockSizeMax (C + r) _ hbsm ?raw ?rle ?cmp hcap bs2 _ 0 (ip0 + H) _ out0 dict.ent #[]
      repStart none none (by rw [ByteArray.extract_same, ByteArray.append_empty]) hne ?len (by rw [gbsm]; exact htl) hrep0
      ⟨by decide, by decide, by decide⟩ trivial trivial (by rw [← hHn, ← size_ofList]; exact hsrc.right.left) (by omega)
    case len => simp only [List.length_range', Std.Legacy.Range.size]; omega
    case raw =>
      intro i ip rem out ent blocks last n data hh hds h1 h2 h3 h4
      have hbh := FrameRT.blockHeader_raw (rem := rem) hh.left (by omega) h4
      have hex : src.extract (ip + 3) (ip + 3 + n) = data := by
        have := hh.right.extract; rwa [blockHeader24_size, hds] at this
      refine ⟨⟨⟨last, 0, n, n⟩, (out ++ data).size - out.size, none⟩, rfl, ?_⟩
      simp only [hbh, ZSTD_blockHeaderSize, hex]
      rw [if_neg (by omega)]
      simp only [show ((0 : Nat) == 2) = false from rfl, Bool.false_eq_true, if_false, BEq.rfl, if_true]
      rw [if_neg (by omega), if_neg (by rw [ByteArray.size_append, hds]; simp only [Option.isNone_none, Bool.and_true, decide_eq_true_eq]; omega)]
      cases last <;> rfl
    case rle =>
      intro i ip rem out ent blocks last n b hh h1 h2 h3 h4
      have hbh := FrameRT.blockHeader_rle (rem := rem) hh.left (by omega) h4
      have hb : src.u8 (ip + 3) = b.toNat := by
        have := hh.right.u8 0 (Nat.zero_lt_one); rw [blockHeader24_size] at this; exact this
      refine ⟨⟨⟨last, 1, 1, n⟩, (out ++ ByteArray.mk (Array.replicate n b)).size - out.size, none⟩, rfl, ?_⟩
      simp only [hbh, ZSTD_blockHeaderSize, hb, UInt8.ofNat_toNat]
      rw [if_neg (by omega)]
      simp only [show ((1 : Nat) == 2) = false from rfl, show ((1 : Nat) == 0) = false from rfl, Bool.false_eq_true, if_false]
      rw [if_neg (by omega), if_neg (by rw [ByteArray.size_append, FrameRT.size_replicate]; simp only [Option.isNone_none, Bool.and_true, decide_eq_true_eq]; omega)]
      cases last <;> rfl
    case cmp =>
      intro i ip rem out ent blocks last body out2 ent2 tr hh h1 h2 hdec hgrow
      have hbh := blockHeader_cmp (rem := rem) hh.left (by omega) h2
      refine ⟨⟨⟨last, 2, body.size, body.size⟩, out2.size - out.size, some tr⟩, rfl, ?_⟩
      simp only [hbh, ZSTD_blockHeaderSize, hdec]
      rw [if_neg (by omega)]
      simp only [BEq.rfl, if_true]
      rw [if_neg (by simp only [Option.isNone_none, Bool.and_true, decide_eq_true_eq]; omega)]
      cases last <;> rfl
  obtain ⟨bl, entF, hb1, hLe⟩ := hL
  clear hloop
  subst hLe
  simp only [hb1, Option.getD_some, Bool.not_true, Bool.false_eq_true, if_false, gfcs, gck]
  have hx : (out0 ++ x).size - out0.size = x.size := by rw [ByteArray.size_append]; omega
  simp only [hx]
  have hck : a.checksum = true → C = 4 ∧
      src.le32 (ip0 + H + S) = (XXH64.hashRange (out0 ++ x) out0.size x.size).toNat &&& 4294967295 := by
    intro hk
    have h3 := hsrc.right.right
    rw [size_ofList, hHn, hSn] at h3
    unfold FrameRT.checksumBytes at h3
    rw [if_pos hk] at h3
    refine ⟨by rw [hC, if_pos hk], ?_⟩
    rw [h3.le32 (by rw [size_ofList]; simp [le4]), hhash hk]
    exact FrameRT.le32_le4 _ (Nat.lt_succ_of_le Nat.and_le_right)
  have hfin : ip0 + H + S - ip0 = H + S := by omega
  have hfin4 : ip0 + H + S + 4 - ip0 = H + (S + 4) := by omega
  cases hk : a.checksum
  · have hC0 : C = 0 := by rw [hC, hk]; rfl
    subst hC0
    rw [hfin]
    cases hcs : a.contentSizeFlag
    · exact ⟨_, rfl⟩
    · have := hfcs hcs
      simp only [if_true, this, bne_self_eq_false, Bool.false_eq_true, if_false]
      exact ⟨_, rfl⟩
  · obtain ⟨hC4, hrd⟩ := hck hk
    subst hC4
    rw [hfin4]
    simp only [if_true, if_neg (show ¬ 4 + r < 4 by omega), hrd, bne_self_eq_false, Bool.false_eq_true, if_false]
    cases hcs : a.contentSizeFlag
    · cases o.ignoreChecksum <;> exact ⟨_, rfl⟩
    · have := hfcs hcs
      simp only [if_true, this, bne_self_eq_false, Bool.false_eq_true, if_false]
      cases o.ignoreChecksum <;> exact ⟨_, rfl⟩

/-- **decompressFrame_serialized2**: `decompressFrame_serializedT` for tilings without treeless literals (`Tiles2`) -/
theorem decompressFrame_serialized2 (a : HArgs) (ha : a.wf) (hnd : a.noDictID = true ∨ a.dictID = 0)
    (bs : List BlockChoice2) (x : ByteArray) (hfcs : a.contentSizeFlag = true → a.pledged = x.size) (dict : Frame.Dict)
    (hrep0 : repOf dict.ent.rep = repStart)
    (ht : Tiles2 dict.content (min (if single a then a.pledged else 2 ^ a.windowLog) ZSTD_BLOCKSIZE_MAX) x bs 0 repStart)
    {src : ByteArray} {ip0 : Nat} (r : Nat) (hsrc : Holds src ip0 (serializeFrame2 a bs x))
    (out0 : ByteArray) (cap : Nat) (hcap : out0.size + x.size ≤ cap)
    (o : Frame.Opts) (hml : o.magicless = a.magicless) (hmb : o.maxBlockSize = 0)
    (hhash : a.checksum = true → XXH64.hashRange (out0 ++ x) out0.size x.size = XXH64.hashRange x 0 x.size) :
    ∃ tr, Frame.decompressFrame src ip0 ((serializeFrame2 a bs x).size + r) dict out0 cap o =
      .ok (out0 ++ x, (serializeFrame2 a bs x).size, tr) :=
  decompressFrame_serializedT a ha hnd bs x hfcs dict hrep0 (tilesT_of_tiles2 _ _ x bs 0 repStart none none ht) r hsrc out0 cap hcap o hml
    hmb hhash

theorem serializeFrame2_size_ge (a : HArgs) (bs : List BlockChoice2) (x : ByteArray) : 5 ≤ (serializeFrame2 a bs x).size := by
  rw [serializeFrame2_eq]
  have h1 := FrameRT.writeHeader_length_ge a
  have h2 := serializeBlocks2_size_ge x (effBlocks2 bs) 0 repStart
  have h3 : 1 ≤ (effBlocks2 bs).length := by
    have := effBlocks2_ne bs
    cases h : effBlocks2 bs with
    | nil => exact absurd h this
    | cons _ _ => simp
  simp only [ByteArray.size_append, size_ofList]
  split at h1 <;> omega

theorem frame2_magic {src : ByteArray} {ip : Nat} {a : HArgs} {bs : List BlockChoice2} {x : ByteArray}
    (h : Holds src ip (serializeFrame2 a bs x)) (hm : a.magicless = false) : src.le32 ip = ZSTD_MAGICNUMBER := by
  have h5 := serializeFrame2_size_ge a bs x
  rw [h.le32 (by omega)]
  unfold serializeFrame2
  generalize serializeBlocks2 x bs 0 repStart ++ epilogue a bs.isEmpty x = rest
  have e : ofList (writeHeader a) ++ rest = ByteArray.mk (writeHeader a ++ rest.data.toList).toArray := by
    have := FrameRT.ofList_append (writeHeader a) rest.data.toList
    rw [FrameRT.ofList_toList] at this
    exact this.symm
  rw [e]
  rcases FrameRT.writeHeader_magic a rest.data.toList with h | h
  · rw [hm] at h; cases h
  · exact h

theorem forIn_two {β : Type} (l : List Nat) (hl : 2 ≤ l.length) (f : Nat → β → R (ForInStep β)) (b b1 b2 : β)
    (h1 : ∀ i, f i b = .ok (.yield b1)) (h2 : ∀ i, f i b1 = .ok (.done b2)) : forIn l b f = .ok b2 := by
  match l, hl with
  | i :: j :: rest, _ => rw [forIn_cons_yield _ _ _ _ _ (h1 i), forIn_cons_done _ _ _ _ _ (h2 j)]

/-- hypotheses on one frame with compressed blocks: accepted header arguments, no dictionary ID, magic number present, truthful
content size, and the blocks tile the content with valid parses (`Tiles2`) under the decoder's block-size limit min(Window_Size, 128 KiB).
The tiling starts with the repeat-offset start value and with NO previous sequence tables (`prev = none`): the first block with sequences
cannot use `set_repeat`.  (ZSTD_compress_usingDict may repeat a dictionary's tables there; that choice is not offered to the writer - a
sound restriction, every frame the writer does produce is covered.) -/
def FrameOK2 (dc : ByteArray) (a : HArgs) (bs : List BlockChoice2) (x : ByteArray) : Prop :=
  a.wf ∧ (a.noDictID = true ∨ a.dictID = 0) ∧ a.magicless = false ∧ (a.contentSizeFlag = true → a.pledged = x.size) ∧
    Tiles2 dc (FrameRT.blockSizeMaxOf a) x bs 0 repStart

/-- `FrameOK2` with TREELESS literals allowed (`TilesT`): the tiling starts with the repeat-offset start value, NO previous sequence
tables and NO previous Huffman table (`prev = none`, `hp = none`): treeless literals only after a compressed block of this frame whose
literals section wrote a table.  (ZSTD_compress_usingDict may re-use a dictionary's Huffman table in the first block; that choice is not
offered to the writer - a sound restriction, every frame the writer does produce is covered.) -/
def FrameOKT (dc : ByteArray) (a : HArgs) (bs : List BlockChoice2) (x : ByteArray) : Prop :=
  a.wf ∧ (a.noDictID = true ∨ a.dictID = 0) ∧ a.magicless = false ∧ (a.contentSizeFlag = true → a.pledged = x.size) ∧
    TilesT dc (FrameRT.blockSizeMaxOf a) x bs 0 repStart

theorem frameOKT_of_frameOK2 {dc : ByteArray} {a : HArgs} {bs : List BlockChoice2} {x : ByteArray} (h : FrameOK2 dc a bs x) :
    FrameOKT dc a bs x :=
  ⟨h.1, h.2.1, h.2.2.1, h.2.2.2.1, tilesT_of_tiles2 _ _ x bs 0 repStart none none h.2.2.2.2⟩

/-- **frame_roundtrip_compressed_treeless** (C01, whole frames).  For every input `x`, every accepted header-argument tuple, and EVERY list of block
decisions that tiles `x` - raw blocks, RLE blocks, and compressed blocks carrying ANY valid parse of their stretch (literals raw / RLE /
Huffman with a new table in the direct description or in HUF_writeCTable_wksp's (FSE-compressed weights when smaller) / TREELESS = Huffman
with the table of the last earlier block of the frame that wrote one, `hType = set_repeat`; each sequence table predefined / RLE / described by FSE_writeNCount with ANY acceptable normalised distribution
(`TableOK`) / repeated from the previous compressed block with sequences) - ZSTD_decompress (`Frame.decompressAll`) maps the serialized frame
(`serializeFrame2`: ZSTD_writeFrameHeader, per block ZSTD_noCompressBlock / ZSTD_rleCompressBlock / block header +
ZSTD_entropyCompressSeqStore_internal, ZSTD_writeEpilogue) back to `x`, for every destination capacity that can hold `x`.  The decoder may
have a dictionary loaded whose content the parses refer to, provided its repeat-offset history is the start value (as with no dictionary).
Not covered: `set_repeat` of a dictionary's sequence tables in the first block with sequences, treeless literals on a DICTIONARY's
Huffman table. -/
theorem frame_roundtrip_compressed_treeless (a : HArgs) (bs : List BlockChoice2) (x : ByteArray) (dict : Frame.Dict)
    (hok : FrameOKT dict.content a bs x) (hrep0 : repOf dict.ent.rep = repStart)
    (cap : Nat) (hcap : x.size ≤ cap) (o : Frame.Opts) (hml : o.magicless = false) (hmb : o.maxBlockSize = 0) :
    ∃ traces, Frame.decompressAll (serializeFrame2 a bs x) dict cap o = .ok (x, traces) := by
  obtain ⟨k1, k2, k3, k4, k5⟩ := hok
  have hh := FrameRT.holds_self (serializeFrame2 a bs x)
  have hmg := frame2_magic hh k3
  have h5 := serializeFrame2_size_ge a bs x
  obtain ⟨tr, hdf⟩ := decompressFrame_serializedT a k1 k2 bs x k4 dict hrep0 k5 0 hh ByteArray.empty cap
    (by rw [ByteArray.size_empty]; omega) o (by rw [hml, k3]) hmb (fun _ => by rw [ByteArray.empty_append, ByteArray.size_empty])
  rw [Nat.add_zero, ByteArray.empty_append] at hdf
  unfold Frame.decompressAll
  simp only [bind, Except.bind, pure, Except.pure, throw, throwThe, MonadExceptOf.throw, hml, Bool.false_eq_true, if_false, Bool.not_false,
    Bool.true_and]
  generalize hloop : forIn (m := R) (ρ := Std.Legacy.Range) _ _ _ = L
  have hL : L = .ok ((serializeFrame2 a bs x).size, 0, x, #[tr], true) := by
    rw [← hloop, Std.Legacy.Range.forIn_eq_forIn_range']
    refine forIn_two _ ?len _ _ (0 + (serializeFrame2 a bs x).size, 0, x, (#[] : Array Frame.FrameTrace).push tr, true) _ ?h1 ?h2
    case len => simp only [List.length_range', Std.Legacy.Range.size]; omega
    case h1 =>
      intro i
      have h4 : decide ((serializeFrame2 a bs x).size ≥ 4) = true := by simp only [decide_eq_true_eq]; omega
      simp only [hmg, hdf, h4, if_true]
      rw [if_neg (by omega)]
      simp only [show Frame.isLegacyMagic ZSTD_MAGICNUMBER = false from by decide, Bool.false_eq_true, if_false,
        show (ZSTD_MAGICNUMBER &&& ZSTD_MAGIC_SKIPPABLE_MASK == ZSTD_MAGIC_SKIPPABLE_START) = false from by decide]
      rw [Nat.sub_self]
    case h2 =>
      intro i
      simp only [if_pos (show (0 : Nat) < 5 by omega)]
      rw [Nat.zero_add]
      rfl
  clear hloop
  subst hL
  simp only [bne_self_eq_false, Bool.false_eq_true, if_false]
  exact ⟨_, rfl⟩

/-- **frame_roundtrip_compressed** (C01, whole frames).  For every input `x`, every accepted header-argument tuple, and EVERY list of block
decisions that tiles `x` - raw blocks, RLE blocks, and compressed blocks carrying ANY valid parse of their stretch (literals raw / RLE /
Huffman-direct; each sequence table predefined / RLE / described by FSE_writeNCount with ANY acceptable normalised distribution
(`TableOK`) / repeated from the previous compressed block with sequences) - ZSTD_decompress (`Frame.decompressAll`) maps the serialized frame
(`serializeFrame2`: ZSTD_writeFrameHeader, per block ZSTD_noCompressBlock / ZSTD_rleCompressBlock / block header +
ZSTD_entropyCompressSeqStore_internal, ZSTD_writeEpilogue) back to `x`, for every destination capacity that can hold `x`.  The decoder may
have a dictionary loaded whose content the parses refer to, provided its repeat-offset history is the start value (as with no dictionary).
Not covered HERE: `set_repeat` of a dictionary's sequence tables in the first block with sequences, treeless literals (`FrameOK2` does
not allow them; `frame_roundtrip_compressed_treeless` above does).  (Huffman-direct: also `.huffmanFse`, the FSE-compressed description.) -/
theorem frame_roundtrip_compressed (a : HArgs) (bs : List BlockChoice2) (x : ByteArray) (dict : Frame.Dict)
    (hok : FrameOK2 dict.content a bs x) (hrep0 : repOf dict.ent.rep = repStart)
    (cap : Nat) (hcap : x.size ≤ cap) (o : Frame.Opts) (hml : o.magicless = false) (hmb : o.maxBlockSize = 0) :
    ∃ traces, Frame.decompressAll (serializeFrame2 a bs x) dict cap o = .ok (x, traces) :=
  frame_roundtrip_compressed_treeless a bs x dict (frameOKT_of_frameOK2 hok) hrep0 cap hcap o hml hmb

/-! ### 12. the predefined tables need no hypothesis on codes -/

theorem finalizeOffBase_le (raw : Nat) (r : Rep.R) (ll0 : Bool) (h : 1 ≤ raw) : finalizeOffBase raw r ll0 ≤ raw + 3 := by
  unfold finalizeOffBase
  cases ll0 <;> simp only [Bool.not_false, Bool.not_true, Bool.true_and, Bool.false_and, if_true, if_false, Bool.false_eq_true] <;>
    (repeat' split) <;> omega

/-- with the three predefined tables every parse whose lengths are below 2^17 and whose offsets satisfy `rawOffset + 3 < 2^29`
(offset code ≤ 28 = DefaultMaxOff) is expressible: `CodesOK` holds -/
theorem codesOK_predefined (rep : Rep.R) (raws : List SeqRT.RawSeq)
    (h : ∀ q ∈ raws, q.litLength < 2 ^ 17 ∧ q.mlBase < 2 ^ 17 ∧ 1 ≤ q.rawOffset ∧ q.rawOffset + 3 < 2 ^ 29) :
    CodesOK {} (SeqRT.storeAll rep raws).1 := by
  induction raws generalizing rep with
  | nil => intro s hs; simp [SeqRT.storeAll] at hs
  | cons q qs ih =>
    intro s hs
    simp only [SeqRT.storeAll, List.mem_cons] at hs
    rcases hs with e | e
    · obtain ⟨a, b, c, d⟩ := h q (by simp)
      have hle := finalizeOffBase_le q.rawOffset rep (q.litLength == 0) c
      obtain ⟨f1, -⟩ := SeqRT.finalizeOffBase_range q.rawOffset rep (q.litLength == 0) (by omega)
      subst e
      refine ⟨SeqRT.llCode_le _ a, ?_, SeqRT.mlCode_le _ b⟩
      show Nat.log2 (finalizeOffBase q.rawOffset rep (q.litLength == 0)) ≤ 28
      exact (SeqRT.log2_range (lo := 0) (hi := 28) (by omega) (by omega)).2
    · exact ih _ (fun x hx => h x (by simp [hx])) s e

/-! ### non-vacuity: a 2-block frame, one raw block and one compressed block with an OVERLAPPING match (distance 2, length 6) and a
REPEAT-OFFSET code (second sequence: distance 2 again, stored as offBase 1).  The bytes below are what `zvdriver blockenc` prints for
`cframe 10 0 r4;cr:bbb:2:6:2,1:3:2:1 <hex>`; the real ZSTD_decompress regenerates the 17 input bytes from them (tools/ent_block.py runs
this comparison on every frame the model produces; with the checksum flag the frame ends in f2 62 98 1e, equally accepted). -/

/-- "abcd" ++ "xyxyxyxy" ++ "z" ++ "yzy" ++ "!" -/
def demoX : ByteArray := ofList [0x61, 0x62, 0x63, 0x64, 0x78, 0x79, 0x78, 0x79, 0x78, 0x79, 0x78, 0x79, 0x7a, 0x79, 0x7a, 0x79, 0x21]
def demoLits : ByteArray := ofList [0x78, 0x79, 0x7a, 0x21]
def demoRaws : List BlockEnc.RawSeq := [⟨2, 3, 2⟩, ⟨1, 0, 2⟩]
def demoBlocks : List BlockChoice2 := [.raw 4, .compressed .raw {} demoLits demoRaws]
def demoArgs (ck : Bool) : HArgs := ⟨10, 17, true, 0, false, ck, false⟩

example : (BlockEnc.storeAll repStart demoRaws).1 = [⟨2, 3, 5⟩, ⟨1, 0, 1⟩] := by decide

example : (serializeFrame2 (demoArgs false) demoBlocks demoX).data =
    #[0x28, 0xb5, 0x2f, 0xfd, 0x20, 0x11, 0x20, 0x00, 0x00, 0x61, 0x62, 0x63, 0x64, 0x65, 0x00, 0x00, 0x20, 0x78, 0x79, 0x7a, 0x21,
      0x02, 0x00, 0x00, 0x88, 0x06, 0x87, 0x05] := by decide +kernel

theorem demo_ok (ck : Bool) : FrameOK2 ByteArray.empty (demoArgs ck) demoBlocks demoX := by
  refine ⟨by cases ck <;> (unfold HArgs.wf; decide), Or.inr rfl, rfl, fun _ => rfl, ?_⟩
  have hb : FrameRT.blockSizeMaxOf (demoArgs ck) = 17 := by cases ck <;> decide
  rw [hb]
  simp only [demoBlocks, Tiles2, LitOK]
  decide +kernel

example : ∃ tr, Frame.decompressAll (serializeFrame2 (demoArgs true) demoBlocks demoX) {} 17 {} = .ok (demoX, tr) :=
  frame_roundtrip_compressed _ _ _ {} (demo_ok true) rfl 17 (by decide) {} rfl rfl

def demoBytes : ByteArray := ofList [0x28, 0xb5, 0x2f, 0xfd, 0x20, 0x11, 0x20, 0x00, 0x00, 0x61, 0x62, 0x63, 0x64, 0x65, 0x00, 0x00, 0x20, 0x78, 0x79, 0x7a, 0x21,
      0x02, 0x00, 0x00, 0x88, 0x06, 0x87, 0x05]
example : (match Frame.decompressAll demoBytes {} 17 {} with
    | .ok (y, _) => some y.data | .error _ => none) = some demoX.data := by decide +kernel

/-! ### non-vacuity, `set_compressed` and `set_repeat`: the frame above followed by a third block.  Block 2 now DESCRIBES its three tables
(FSE_writeNCount of the distributions LL {1: 16, 2: 16}, OF {0: 16, 2: 16}, ML {0: 16, 3: 16}, tableLog 5), block 3 REPEATS them
(modes byte 0xfc, no description) for "pqpqpqpq" "r" "qrq" "?".  The real `zstd -d` (v1.5.7) regenerates the 30 input bytes from the
48 bytes below. -/

def demoFse : Tables := { ll := .fse #[0, 16, 16] 5, of := .fse #[16, 0, 16] 5, ml := .fse #[16, 0, 0, 16] 5 }
def demoRep : Tables := { ll := .repeat, of := .repeat, ml := .repeat }
def demoX2 : ByteArray := ofList [0x61, 0x62, 0x63, 0x64, 0x78, 0x79, 0x78, 0x79, 0x78, 0x79, 0x78, 0x79, 0x7a, 0x79, 0x7a, 0x79, 0x21,
  0x70, 0x71, 0x70, 0x71, 0x70, 0x71, 0x70, 0x71, 0x72, 0x71, 0x72, 0x71, 0x3f]
def demoLits2 : ByteArray := ofList [0x70, 0x71, 0x72, 0x3f]
def demoBlocks2 : List BlockChoice2 :=
  [.raw 4, .compressed .raw demoFse demoLits demoRaws, .compressed .raw demoRep demoLits2 demoRaws]
def demoArgs2 : HArgs := ⟨10, 30, true, 0, false, false, false⟩

example : TablesOK demoFse := by decide +kernel

example : (serializeFrame2 demoArgs2 demoBlocks2 demoX2).data =
    #[0x28, 0xb5, 0x2f, 0xfd, 0x20, 0x1e, 0x20, 0x00, 0x00, 0x61, 0x62, 0x63, 0x64, 0x9c, 0x00, 0x00, 0x20, 0x78, 0x79, 0x7a, 0x21,
      0x02, 0xa8, 0x10, 0x88, 0x1f, 0x10, 0x83, 0x0f, 0x10, 0xa3, 0x0f, 0x68, 0x8c, 0x11, 0x55, 0x00, 0x00, 0x20, 0x70, 0x71, 0x72, 0x3f,
      0x02, 0xfc, 0x18, 0x60, 0x04] := by decide +kernel

theorem demo2_ok : FrameOK2 ByteArray.empty demoArgs2 demoBlocks2 demoX2 := by
  refine ⟨by unfold HArgs.wf; decide, Or.inr rfl, rfl, fun _ => rfl, ?_⟩
  have hb : FrameRT.blockSizeMaxOf demoArgs2 = 30 := by decide
  rw [hb]
  simp only [demoBlocks2, Tiles2, LitOK]
  decide +kernel

example : ∃ tr, Frame.decompressAll (serializeFrame2 demoArgs2 demoBlocks2 demoX2) {} 30 {} = .ok (demoX2, tr) :=
  frame_roundtrip_compressed _ _ _ {} demo2_ok rfl 30 (by decide) {} rfl rfl

/-! ### non-vacuity, TREELESS literals: a frame of two compressed blocks without sequences.  Block 1 writes a Huffman table for its 20
literals over {0, 1, 2} (weights 2, 1, 1; direct tree description `81 21`), block 2 codes its 12 literals over {0, 1} with THAT table:
literals header `c3 c0 00` = type 3 (`set_repeat`), one stream, 12 literals in 3 bytes, no tree description.  The bytes below are what
`zvdriver blockenc` prints for `cframe 10 0 ch:bbb::20;ct:bbb::12 <hex>` (`lit=ht`); the real ZSTD_decompress regenerates the 32 input
bytes from them (tools/ent_block.py runs this comparison on every frame the model produces). -/

def demoLitsA : ByteArray := ofList [0, 1, 0, 2, 0, 0, 1, 0, 2, 0, 1, 0, 0, 2, 0, 1, 0, 2, 0, 1]
def demoLitsB : ByteArray := ofList [0, 1, 0, 0, 1, 0, 0, 0, 1, 0, 1, 0]
def demoX3 : ByteArray := demoLitsA ++ demoLitsB
def demoBlocks3 : List BlockChoice2 := [.compressed (.huffman [2, 1] 1 2) {} demoLitsA [], .compressed .treeless {} demoLitsB []]
def demoArgs3 : HArgs := ⟨10, 32, true, 0, false, false, false⟩

example : (serializeFrame2 demoArgs3 demoBlocks3 demoX3).data =
    #[0x28, 0xb5, 0x2f, 0xfd, 0x20, 0x20, 0x54, 0x00, 0x00, 0x42, 0x81, 0x01, 0x81, 0x21, 0x2c, 0x9b, 0xe5, 0x32, 0x00, 0x3d, 0x00, 0x00,
      0xc3, 0xc0, 0x00, 0xc9, 0x99, 0x01, 0x00] := by decide +kernel

/-- the table block 2 re-uses is the one block 1 wrote -/
theorem demo3_next : nextHuf none (.huffman [2, 1] 1 2) demoLitsA = some (#[2, 1, 1], 2) := by decide +kernel

theorem gain_of_check {a b : Option ByteArray} {n : Nat}
    (h : (a.bind fun wh => b.map fun st => decide (wh.size + st.size < n)) = some true) :
    ∀ wh st, a = some wh → b = some st → wh.size + st.size < n := by
  intro wh st ha hb
  subst ha hb
  simpa using h

theorem demo3_hufOK : HufOK [2, 1] 1 2 demoLitsA where
  ok := by decide
  last_pos := by decide
  log_le := by decide
  two_ones := by decide
  ws_ne := by decide
  syms := by decide +kernel
  gain := gain_of_check (by decide +kernel)

theorem demo3_treelessOK : TreelessOK #[2, 1, 1] 2 demoLitsB where
  syms := by decide +kernel
  gain := fun st h => by
    have := gain_of_check (a := some ByteArray.empty) (n := demoLitsB.size)
      (b := hufStreams (decide ((symsOf demoLitsB).length < 256)) (HufEnc.codesOf #[2, 1, 1] 2) (symsOf demoLitsB)) (by decide +kernel)
      ByteArray.empty st rfl h
    simpa using this

theorem demo3_ok : FrameOKT ByteArray.empty demoArgs3 demoBlocks3 demoX3 := by
  refine ⟨by unfold HArgs.wf; decide, Or.inr rfl, rfl, fun _ => rfl, ?_⟩
  have hb : FrameRT.blockSizeMaxOf demoArgs3 = 32 := by decide
  rw [hb]
  refine ⟨by decide, by decide, by decide +kernel, by decide, demo3_hufOK, by decide, by decide, by decide, by decide +kernel, ?_⟩
  rw [demo3_next]
  refine ⟨by decide, by decide, by decide +kernel, by decide, demo3_treelessOK, by decide, by decide, by decide, by decide +kernel, ?_⟩
  show 0 + parseLen demoLitsA [] + parseLen demoLitsB [] = demoX3.size
  decide

example : ∃ tr, Frame.decompressAll (serializeFrame2 demoArgs3 demoBlocks3 demoX3) {} 32 {} = .ok (demoX3, tr) :=
  frame_roundtrip_compressed_treeless _ _ _ {} demo3_ok rfl 32 (by decide) {} rfl rfl

/-! ### non-vacuity, FSE-COMPRESSED TREE DESCRIPTION: one compressed block of 120 literals over 28 symbols (weights `demoWsF ++ [1]`,
depth 5) and a raw block.  HUF_writeCTable_wksp's FSE form takes 12 bytes (size byte 11; counts of the weight values 0 .. 4 normalised to
15, 8, 3, 4, 2 at table log 5) where the direct form takes 15; `Huf.readStats` reads it back (`WeightsRT.readStats_fse`). -/

def demoLitsF : ByteArray :=
  ofList [0, 1, 2, 3, 0, 5, 6, 3, 8, 9, 2, 2, 12, 1, 5, 15, 0, 8, 18, 3, 2, 21, 2, 5, 24, 1, 8, 27, 0, 2, 0, 3, 5, 3, 2, 8, 6, 1,
    2, 9, 0, 5, 12, 3, 8, 15, 2, 2, 18, 1, 5, 21, 0, 8, 24, 3, 2, 27, 2, 5, 0, 1, 8, 3, 0, 2, 6, 3, 5, 9, 2, 8, 12, 1, 2, 15, 0,
    5, 18, 3, 8, 21, 2, 2, 24, 1, 5, 27, 0, 8, 0, 3, 2, 3, 2, 5, 6, 1, 8, 9, 0, 2, 12, 3, 5, 15, 2, 8, 18, 1, 2, 21, 0, 5, 24, 3,
    8, 27, 2, 2]
def demoWsF : List Nat := [3, 2, 4, 3, 0, 2, 1, 0, 3, 1, 0, 0, 1, 0, 0, 1, 0, 0, 1, 0, 0, 1, 0, 0, 1, 0, 0]
def demoNormF : Array Int := #[15, 8, 3, 4, 2]
def demoXF : ByteArray := demoLitsF ++ ofList [1, 2, 3, 4, 5, 6, 7, 8, 9, 10]
def demoBlocksF : List BlockChoice2 := [.compressed (.huffmanFse demoWsF 1 5 demoNormF 5) {} demoLitsF [], .raw 10]
def demoArgsF : HArgs := ⟨10, 130, true, 0, false, false, false⟩

example : (treeDescr demoNormF 5 demoWsF).map (·.data) = some #[11, 0, 147, 29, 152, 170, 170, 162, 49, 11, 106, 1] := by decide +kernel
example : (directWeights demoWsF).map (·.size) = some 15 := by decide +kernel

theorem demoF_fseOK : WeightsRT.WeightsFseOK demoNormF 5 demoWsF where
  normOK := by decide +kernel
  log_ge := by decide
  log_le := by decide
  last_ne := by decide
  size_le := by decide
  spread := by decide +kernel
  spreadEq := by decide +kernel
  covers := by decide +kernel
  not_rle := by decide +kernel

theorem demoF_syms : ∀ s ∈ symsOf demoLitsF, ∃ hs : s < (demoWsF.toArray.push 1).size, 0 < (demoWsF.toArray.push 1)[s] := by
  decide +kernel

theorem demoF_gain : ∀ wh streams, treeDescr demoNormF 5 demoWsF = some wh →
    hufStreams (decide ((symsOf demoLitsF).length < 256)) (HufEnc.codesOf (demoWsF.toArray.push 1) 5) (symsOf demoLitsF) = some streams →
    wh.size + streams.size < demoLitsF.size :=
  gain_of_check (by decide +kernel)

theorem demoF_hufOK : HufFseOK demoWsF 1 5 demoNormF 5 demoLitsF where
  ok := by decide +kernel
  last_pos := by decide
  log_le := by decide
  two_ones := by decide
  ws_ne := by decide
  ws_le := by decide
  fse := demoF_fseOK
  syms := demoF_syms
  gain := demoF_gain

theorem extract_append_left (a b : ByteArray) : (a ++ b).extract 0 a.size = a := by
  rw [ByteArray.extract_append]
  simp

theorem demoF_valid : ValidParse ByteArray.empty (demoXF.extract 0 0) (demoXF.extract 0 (0 + parseLen demoLitsF [])) demoLitsF
    (([] : List BlockEnc.RawSeq).map toRT |>.map toSeq) := by
  have h1 : 0 + parseLen demoLitsF [] = demoLitsF.size := by simp [parseLen]
  have h2 : demoXF.extract 0 (0 + parseLen demoLitsF []) = demoLitsF := by
    rw [h1]; exact extract_append_left _ _
  rw [h2, ByteArray.extract_same]
  show Exec.ValidFrom _ _ _ _ _ []
  unfold Exec.ValidFrom
  rw [ByteArray.empty_append, ByteArray.size_empty]
  exact ⟨Nat.zero_le _, Nat.zero_le _, rfl⟩

theorem demoF_size : (serializeBlockBody (.huffmanFse demoWsF 1 5 demoNormF 5) demoLitsF {} (BlockEnc.storeAll repStart []).1
    ((none : Option Tables).getD {}) none).size ≤ 130 := by decide +kernel

theorem demoF_ok : FrameOKT ByteArray.empty demoArgsF demoBlocksF demoXF := by
  refine ⟨by unfold HArgs.wf; decide, Or.inr rfl, rfl, fun _ => rfl, ?_⟩
  have hb : FrameRT.blockSizeMaxOf demoArgsF = 130 := by decide
  rw [hb]
  refine ⟨by decide +kernel, by decide +kernel, demoF_valid, by decide, demoF_hufOK, by decide, by decide, by decide, demoF_size, ?_⟩
  refine ⟨by decide +kernel, by decide +kernel, ?_⟩
  show 0 + parseLen demoLitsF [] + 10 = demoXF.size
  decide +kernel

example : ∃ tr, Frame.decompressAll (serializeFrame2 demoArgsF demoBlocksF demoXF) {} 130 {} = .ok (demoXF, tr) :=
  frame_roundtrip_compressed_treeless _ _ _ {} demoF_ok rfl 130 (by decide +kernel) {} rfl rfl

end ZstdVerif.BlockRT
