/-
Helper lemmas for Props/C17.lean: the repeat-offset history ZSTD_copySequencesToSeqStoreExplicitBlockDelim leaves for the next block
(Model/SeqApi.lean: `storeOn`, `endRepOff`) against the decoder's resolution along the stored Offset_Values (Lemmas/SeqRT.lean: `resolveAll`).
-/
import ZstdVerif.Model.SeqApi
import ZstdVerif.Lemmas.SeqRT
namespace ZstdVerif.SeqApiRep
open ZstdVerif ZstdVerif.SeqApi

/-- what the decoder reads back for a block transcribed as `offBases`: per sequence the literal length, the match length, the
Offset_Value and `ll0` -/
def trisOf : List Seq → List Nat → List SeqRT.Tri
  | s :: ss, ob :: obs => { ll := s.ll, ml := s.ml, ofValue := ob, ll0 := if s.ll == 0 then 1 else 0 } :: trisOf ss obs
  | _, _ => []

/-- the decoder's history after a run of raw (non-repeat) offsets: each one is pushed in front -/
def pushAll (rep : Rep.R) (seqs : List Seq) : Rep.R := seqs.foldl (fun r s => ⟨s.offset, r.r0, r.r1⟩) rep

theorem endRepOff_cons (rep : Rep.R) (a : Seq) (t : List Seq) :
    endRepOff rep (a :: t) = endRepOff ⟨a.offset, rep.r0, rep.r1⟩ t := by
  unfold endRepOff
  rw [List.reverse_cons]
  generalize t.reverse = tr
  match tr with
  | [] => rfl
  | [_] => rfl
  | [_, _] => rfl
  | _ :: _ :: _ :: _ => rfl

/-- the three-case tail of the transcriber (repcode search off) computes exactly "push every offset of the block" -/
theorem endRepOff_eq_pushAll (rep : Rep.R) (seqs : List Seq) : endRepOff rep seqs = pushAll rep seqs := by
  induction seqs generalizing rep with
  | nil => rfl
  | cons a t ih => rw [endRepOff_cons, ih]; rfl

theorem resolveAll_raw (rep : Rep.R) (seqs : List Seq) (hq : ∀ s ∈ seqs, 1 ≤ s.offset) :
    (SeqRT.resolveAll rep (trisOf seqs (seqs.map (fun s => s.offset + 3)))).1.map (fun q => (q.ll, q.ml, q.offset))
        = seqs.map (fun s => (s.ll, s.ml, s.offset)) ∧
      (SeqRT.resolveAll rep (trisOf seqs (seqs.map (fun s => s.offset + 3)))).2 = pushAll rep seqs := by
  induction seqs generalizing rep with
  | nil => exact ⟨rfl, rfl⟩
  | cons a t ih =>
    have ha : 1 ≤ a.offset := hq a (by simp)
    have hgt : a.offset + 3 > 3 := by omega
    obtain ⟨i1, i2⟩ := ih ⟨a.offset, rep.r0, rep.r1⟩ (fun x hx => hq x (by simp [hx]))
    have hres : Rep.resolve rep (a.offset + 3) (if a.ll == 0 then 1 else 0) = (a.offset, ⟨a.offset, rep.r0, rep.r1⟩) := by
      simp [Rep.resolve, hgt]
    simp only [List.map_cons, trisOf, SeqRT.resolveAll, hres, pushAll, List.foldl_cons]
    exact ⟨by rw [i1], i2⟩

theorem resolveAll_storeOn (rep : Rep.R) (seqs : List Seq) (h0 : 1 ≤ rep.r0) (h1 : 1 ≤ rep.r1) (h2 : 1 ≤ rep.r2)
    (hq : ∀ s ∈ seqs, 1 ≤ s.offset) :
    (SeqRT.resolveAll rep (trisOf seqs (storeOn rep seqs).1)).1.map (fun q => (q.ll, q.ml, q.offset))
        = seqs.map (fun s => (s.ll, s.ml, s.offset)) ∧
      (SeqRT.resolveAll rep (trisOf seqs (storeOn rep seqs).1)).2 = (storeOn rep seqs).2 := by
  induction seqs generalizing rep with
  | nil => exact ⟨rfl, rfl⟩
  | cons a t ih =>
    obtain ⟨l1, l2, l3, l4⟩ := SeqRT.rep_lockstep rep a.offset (a.ll == 0) h0 h1 h2 (hq a (by simp))
    obtain ⟨i1, i2⟩ := ih _ l2 l3 l4 (fun x hx => hq x (by simp [hx]))
    simp only [storeOn, List.map_cons, trisOf, SeqRT.resolveAll, l1]
    exact ⟨by rw [i1], i2⟩

/-! ### ZSTD_mergeBlockDelimiters (Model/SeqApi.lean: `mergeGo`) -/

/-- nothing is lost: the bytes described by the merged list plus the literals left over at the end are the bytes described by the input
(plus what was carried in) - whatever the number of delimiters in a row -/
theorem mergeGo_total (c : Nat) (l : List Seq) : total (mergeGo c l).1 + (mergeGo c l).2 = c + total l := by
  induction l generalizing c with
  | nil => simp [mergeGo, total]
  | cons s rest ih =>
    unfold mergeGo
    split
    · rename_i h
      have hm : s.ml = 0 := by
        simp only [isDelim, Bool.and_eq_true, beq_iff_eq] at h
        exact h.2
      rw [ih (c + s.ll)]
      simp only [total, hm]
      omega
    · have := ih 0
      simp only [total]
      omega

/-- no delimiter survives the merge -/
theorem mergeGo_noDelim (c : Nat) (l : List Seq) : ∀ s ∈ (mergeGo c l).1, isDelim s = false := by
  induction l generalizing c with
  | nil => simp [mergeGo]
  | cons a rest ih =>
    unfold mergeGo
    split
    · exact ih (c + a.ll)
    · rename_i h
      intro s hs
      simp only [List.mem_cons] at hs
      cases hs with
      | inl e =>
        subst e
        simp only [isDelim] at h ⊢
        simpa using h
      | inr e => exact ih 0 s e

/-- offsets and match lengths of the real sequences are untouched, in order -/
theorem mergeGo_matches (c : Nat) (l : List Seq) :
    (mergeGo c l).1.map (fun s => (s.offset, s.ml)) = (l.filter (fun s => !isDelim s)).map (fun s => (s.offset, s.ml)) := by
  induction l generalizing c with
  | nil => simp [mergeGo]
  | cons a rest ih =>
    unfold mergeGo
    split
    · rename_i h
      rw [ih (c + a.ll)]
      simp [List.filter, h]
    · rename_i h
      simp only [List.map_cons, ih 0]
      simp [List.filter, h]

end ZstdVerif.SeqApiRep
