/-
Whole-frame round trip for frames made of raw and RLE blocks (property C01, "for every input, decode(compress(x)) = x", first
instance: the total fallback of the compressor).

Serializer: Model/Serialize.lean (ZSTD_writeFrameHeader + ZSTD_noCompressBlock / ZSTD_rleCompressBlock per block +
ZSTD_writeEpilogue, tied byte for byte to zstd_compress.c by tools/ent_frame.py / harness/zvh_rawframe.c).
Decoder: Model/Frame.lean, UNCHANGED (`Frame.decompressFrame`, `Frame.decompressAll`).

  blockHeader_raw / blockHeader_rle   ZSTD_getcBlockSize reads back type, size and last-block flag of what the block writers wrote
  decompressFrame_serialized          one serialized frame anywhere inside an input: exactly its content is appended, exactly its bytes consumed
  frame_roundtrip_raw                 MAIN: decompressAll (rawFrame a x) = x for every x and every accepted parameter tuple
  frame_roundtrip_rawWith             the same for raw blocks of any size 1 .. min(2^windowLog, 128 KiB)
  frame_roundtrip_blocks              the same for ANY raw / RLE block list that tiles x
  multi_frame_roundtrip               concatenations of such frames and skippable frames decode to the concatenated contents
  hashRange_shift                     XXH64.hashRange only looks at the bytes of the range (needed for checksums of later frames)

How the `do` blocks are handled: the `for … in [0:n]` loops are rewritten to `forIn` over `List.range'` and run block by block
(`forIn_cons_done` / `forIn_cons_yield`) against a specification of one iteration given as a hypothesis on an ABSTRACT body
(`StepRaw`, `StepRle`, `StepEnd`, `StepSkip`, `StepFrame`); the real body is plugged in by unification and the step specifications
are proved for it by `simp only` + `rw [if_neg …]`.  The `while` loops of XXH64 are related by a simulation rule (`loop_sim`) built
on `Lean.Loop.forIn_eq_of_monadTail`.
-/
import ZstdVerif.Model.Serialize
import ZstdVerif.Props.C05
namespace ZstdVerif.FrameRT
open ZstdVerif ZstdVerif.Gen ZstdVerif.Serialize ZstdVerif.HeaderW

/-! ### reading inside a concatenation -/

theorem u8_append_right (a b : ByteArray) (i : Nat) : (a ++ b).u8 (a.size + i) = b.u8 i := by
  unfold ByteArray.u8
  by_cases h : i < b.size
  · have h' : a.size + i < (a ++ b).size := by rw [ByteArray.size_append]; omega
    rw [dif_pos h, dif_pos h', ByteArray.getElem_append_right (by omega)]
    congr 2; omega
  · have h' : ¬ a.size + i < (a ++ b).size := by rw [ByteArray.size_append]; omega
    rw [dif_neg h, dif_neg h']

theorem u8_append_left (a b : ByteArray) (i : Nat) (h : i < a.size) : (a ++ b).u8 i = a.u8 i := by
  unfold ByteArray.u8
  have h' : i < (a ++ b).size := by rw [ByteArray.size_append]; omega
  rw [dif_pos h, dif_pos h', ByteArray.getElem_append_left h]

theorem le16_append_right (a b : ByteArray) (i : Nat) : (a ++ b).le16 (a.size + i) = b.le16 i := by
  unfold ByteArray.le16
  simp only [Nat.add_assoc, u8_append_right]

theorem le24_append_right (a b : ByteArray) (i : Nat) : (a ++ b).le24 (a.size + i) = b.le24 i := by
  unfold ByteArray.le24
  simp only [Nat.add_assoc, u8_append_right]

theorem le32_append_right (a b : ByteArray) (i : Nat) : (a ++ b).le32 (a.size + i) = b.le32 i := by
  unfold ByteArray.le32
  simp only [Nat.add_assoc, u8_append_right]

theorem le64_append_right (a b : ByteArray) (i : Nat) : (a ++ b).le64 (a.size + i) = b.le64 i := by
  unfold ByteArray.le64
  simp only [Nat.add_assoc, le32_append_right]

/-- `src` holds the bytes `b` at offset `ip` -/
def Holds (src : ByteArray) (ip : Nat) (b : ByteArray) : Prop := ∃ pre post : ByteArray, src = pre ++ (b ++ post) ∧ pre.size = ip

theorem Holds.left {src : ByteArray} {ip : Nat} {a b : ByteArray} (h : Holds src ip (a ++ b)) : Holds src ip a := by
  obtain ⟨pre, post, hs, hp⟩ := h
  exact ⟨pre, b ++ post, by rw [hs, ByteArray.append_assoc], hp⟩

theorem Holds.right {src : ByteArray} {ip : Nat} {a b : ByteArray} (h : Holds src ip (a ++ b)) : Holds src (ip + a.size) b := by
  obtain ⟨pre, post, hs, hp⟩ := h
  exact ⟨pre ++ a, post, by rw [hs]; simp only [ByteArray.append_assoc], by rw [ByteArray.size_append, hp]⟩

theorem Holds.u8 {src : ByteArray} {ip : Nat} {b : ByteArray} (h : Holds src ip b) (i : Nat) (hi : i < b.size) :
    src.u8 (ip + i) = b.u8 i := by
  obtain ⟨pre, post, hs, hp⟩ := h
  rw [hs, ← hp, u8_append_right, u8_append_left _ _ _ hi]

theorem Holds.extract {src : ByteArray} {ip : Nat} {b : ByteArray} (h : Holds src ip b) :
    src.extract ip (ip + b.size) = b := by
  obtain ⟨pre, post, hs, hp⟩ := h
  have := ByteArray.extract_append_size_add (a := pre) (b := b ++ post) (i := 0) (j := b.size)
  rw [Nat.add_zero] at this
  rw [hs, ← hp, this, ByteArray.extract_append_eq_left rfl]

theorem Holds.size_le {src : ByteArray} {ip : Nat} {b : ByteArray} (h : Holds src ip b) : ip + b.size ≤ src.size := by
  obtain ⟨pre, post, hs, hp⟩ := h
  rw [hs]; simp only [ByteArray.size_append]; omega

theorem Holds.le24 {src : ByteArray} {ip : Nat} {b : ByteArray} (h : Holds src ip b) (hb : 3 ≤ b.size) : src.le24 ip = b.le24 0 := by
  unfold ByteArray.le24
  have h0 := h.u8 0 (by omega); have h1 := h.u8 1 (by omega); have h2 := h.u8 2 (by omega)
  simp only [Nat.add_zero, Nat.zero_add] at h0 ⊢
  rw [h0, h1, h2]

theorem Holds.le32 {src : ByteArray} {ip : Nat} {b : ByteArray} (h : Holds src ip b) (hb : 4 ≤ b.size) : src.le32 ip = b.le32 0 := by
  unfold ByteArray.le32
  have h0 := h.u8 0 (by omega); have h1 := h.u8 1 (by omega); have h2 := h.u8 2 (by omega); have h3 := h.u8 3 (by omega)
  simp only [Nat.add_zero, Nat.zero_add] at h0 ⊢
  rw [h0, h1, h2, h3]

theorem size_ofList (l : List UInt8) : (ofList l).size = l.length := HeaderW.size_mk l

/-! ### block headers -/

theorem blockHeader24_size (last : Bool) (ty n : Nat) : (blockHeader24 last ty n).size = 3 := rfl

theorem blockHeader24_le24 (last : Bool) (ty n : Nat) (hty : ty < 4) (hn : n < 2 ^ 21) :
    (blockHeader24 last ty n).le24 0 = blockHeaderVal last ty n := by
  unfold blockHeader24 ByteArray.le24 ofList
  simp only [HeaderW.u8_mk, List.getElem?_cons_succ, List.getElem?_cons_zero, Option.map_some, Option.getD_some, HeaderW.byte_toNat,
    Nat.zero_add]
  have : blockHeaderVal last ty n < 2 ^ 24 := by
    unfold blockHeaderVal; simp only [Nat.shiftLeft_eq]; split <;> omega
  generalize blockHeaderVal last ty n = v at this
  simp only [Nat.shiftRight_eq_div_pow, Nat.shiftLeft_eq]
  omega

theorem blockHeaderVal_fields (last : Bool) (ty n : Nat) (hty : ty < 4) :
    (blockHeaderVal last ty n &&& 1 == 1) = last ∧ (blockHeaderVal last ty n >>> 1) &&& 3 = ty ∧ blockHeaderVal last ty n >>> 3 = n := by
  have h1 : ∀ v, v &&& 1 = v % 2 := fun v => Nat.and_two_pow_sub_one_eq_mod v 1
  have h3 : ∀ v, v &&& 3 = v % 4 := fun v => Nat.and_two_pow_sub_one_eq_mod v 2
  unfold blockHeaderVal
  cases last
  · simp only [h1, h3, Nat.shiftRight_eq_div_pow, Nat.shiftLeft_eq, Bool.false_eq_true, if_false, beq_eq_false_iff_ne, ne_eq]
    omega
  · simp only [h1, h3, Nat.shiftRight_eq_div_pow, Nat.shiftLeft_eq, if_true, beq_iff_eq]
    omega

/-- `Frame.blockHeader` (ZSTD_getcBlockSize) reads back what ZSTD_noCompressBlock wrote: type raw, the size, the last-block flag -/
theorem blockHeader_raw {src : ByteArray} {ip rem n : Nat} {last : Bool} (h : Holds src ip (blockHeader24 last 0 n))
    (hrem : 3 ≤ rem) (hn : n < 2 ^ 21) :
    Frame.blockHeader src ip rem = .ok { last := last, ty := 0, cSize := n, origSize := n } := by
  obtain ⟨f1, f2, f3⟩ := blockHeaderVal_fields last 0 n (by omega)
  unfold Frame.blockHeader
  rw [if_neg (by simp only [ZSTD_blockHeaderSize]; omega), h.le24 (by rw [blockHeader24_size]; omega), blockHeader24_le24 _ _ _ (by omega) hn]
  simp only [f1, f2, f3]
  rfl

/-- `Frame.blockHeader` reads back what ZSTD_rleCompressBlock wrote: type RLE, one body byte, the run length, the last-block flag -/
theorem blockHeader_rle {src : ByteArray} {ip rem n : Nat} {last : Bool} (h : Holds src ip (blockHeader24 last 1 n))
    (hrem : 3 ≤ rem) (hn : n < 2 ^ 21) :
    Frame.blockHeader src ip rem = .ok { last := last, ty := 1, cSize := 1, origSize := n } := by
  obtain ⟨f1, f2, f3⟩ := blockHeaderVal_fields last 1 n (by omega)
  unfold Frame.blockHeader
  rw [if_neg (by simp only [ZSTD_blockHeaderSize]; omega), h.le24 (by rw [blockHeader24_size]; omega), blockHeader24_le24 _ _ _ (by omega) hn]
  simp only [f1, f2, f3]
  rfl


/-! ### the block loop -/

/-- the state of the block loop of `Frame.decompressFrame`: (ip, remaining, out, entropy, block traces, lax) -/
abbrev St := Nat × Nat × ByteArray × Block.Entropy × Array Frame.BlockTrace × Option String

/-- the block list tiles `x[pos, x.size)`: consecutive stretches, none longer than `bsm`, RLE blocks stand for constant runs -/
def Tiles (bsm : Nat) (x : ByteArray) : List BlockChoice → Nat → Prop
  | [], pos => pos = x.size
  | .raw n :: rest, pos => pos + n ≤ x.size ∧ n ≤ bsm ∧ Tiles bsm x rest (pos + n)
  | .rle b n :: rest, pos =>
    pos + n ≤ x.size ∧ n ≤ bsm ∧ x.extract pos (pos + n) = ByteArray.mk (Array.replicate n b) ∧ Tiles bsm x rest (pos + n)

def stepOf : Bool → St → ForInStep St
  | true, s => .done s
  | false, s => .yield s

/-- what one iteration of the loop does on a raw block -/
def StepRaw (src : ByteArray) (cap bsm : Nat) (f : Nat → St → R (ForInStep St)) : Prop :=
  ∀ (i ip rem : Nat) (out : ByteArray) (ent : Block.Entropy) (blocks : Array Frame.BlockTrace) (last : Bool) (n : Nat) (data : ByteArray),
    Holds src ip (blockHeader24 last 0 n ++ data) → data.size = n → 3 + n ≤ rem → n ≤ cap - out.size → n ≤ bsm → n < 2 ^ 21 →
    ∃ bt : Frame.BlockTrace, bt.hdr.last = last ∧
      f i (ip, rem, out, ent, blocks, none) = .ok (stepOf last (ip + 3 + n, rem - 3 - n, out ++ data, ent, blocks.push bt, none))

/-- what one iteration of the loop does on an RLE block -/
def StepRle (src : ByteArray) (cap bsm : Nat) (f : Nat → St → R (ForInStep St)) : Prop :=
  ∀ (i ip rem : Nat) (out : ByteArray) (ent : Block.Entropy) (blocks : Array Frame.BlockTrace) (last : Bool) (n : Nat) (b : UInt8),
    Holds src ip (blockHeader24 last 1 n ++ ofList [b]) → 3 + 1 ≤ rem → n ≤ cap - out.size → n ≤ bsm → n < 2 ^ 21 →
    ∃ bt : Frame.BlockTrace, bt.hdr.last = last ∧
      f i (ip, rem, out, ent, blocks, none) =
        .ok (stepOf last (ip + 3 + 1, rem - 3 - 1, out ++ ByteArray.mk (Array.replicate n b), ent, blocks.push bt, none))

theorem serializeBlocks_size_ge (x : ByteArray) (bs : List BlockChoice) (pos : Nat) :
    3 * bs.length ≤ (serializeBlocks x bs pos).size := by
  induction bs generalizing pos with
  | nil => simp [serializeBlocks]
  | cons c rest ih =>
    have := ih (pos + c.len)
    cases c with
    | raw n =>
      simp only [serializeBlocks, noCompressBlock, ByteArray.size_append, blockHeader24_size, List.length_cons, BlockChoice.len] at this ⊢
      omega
    | rle b n =>
      simp only [serializeBlocks, rleCompressBlock, ByteArray.size_append, blockHeader24_size, List.length_cons, BlockChoice.len] at this ⊢
      omega

theorem forIn_cons_done {α β : Type} (a : α) (l : List α) (f : α → β → R (ForInStep β)) (b b' : β) (h : f a b = .ok (.done b')) :
    forIn (a :: l) b f = .ok b' := by
  rw [List.forIn_cons, h]; rfl

theorem forIn_cons_yield {α β : Type} (a : α) (l : List α) (f : α → β → R (ForInStep β)) (b b' : β) (h : f a b = .ok (.yield b')) :
    forIn (a :: l) b f = forIn l b' f := by
  rw [List.forIn_cons, h]; rfl

/-- the block loop of `Frame.decompressFrame` on serialized raw / RLE blocks: it stops at the flagged block with exactly the tiled
content appended, every input byte of the blocks consumed -/
theorem blocks_loop (src x : ByteArray) (cap bsm r : Nat) (f : Nat → St → R (ForInStep St)) (hbsm : bsm < 2 ^ 21)
    (hraw : StepRaw src cap bsm f) (hrle : StepRle src cap bsm f) :
    ∀ (bs : List BlockChoice) (l : List Nat) (pos ip rem : Nat) (out : ByteArray) (ent : Block.Entropy) (blocks : Array Frame.BlockTrace),
      bs ≠ [] → bs.length ≤ l.length → Tiles bsm x bs pos → Holds src ip (serializeBlocks x bs pos) →
      rem = (serializeBlocks x bs pos).size + r → out.size + (x.size - pos) ≤ cap →
      ∃ bl : Array Frame.BlockTrace, bl.back?.map (·.hdr.last) = some true ∧
        forIn l ((ip, rem, out, ent, blocks, none) : St) f =
          .ok (ip + (serializeBlocks x bs pos).size, r, out ++ x.extract pos x.size, ent, bl, none) := by
  intro bs
  induction bs with
  | nil => intro _ _ _ _ _ _ _ h; exact absurd rfl h
  | cons c rest ih =>
    intro l pos ip rem out ent blocks _ hl ht hh hrem hcap
    cases l with
    | nil => simp at hl
    | cons a l' =>
      have hl' : rest.length ≤ l'.length := by simpa using hl
      cases c with
      | raw n =>
        obtain ⟨t1, t2, t3⟩ := ht
        have hds : (x.extract pos (pos + n)).size = n := by rw [ByteArray.size_extract]; omega
        simp only [serializeBlocks, noCompressBlock] at hh hrem ⊢
        simp only [ByteArray.size_append, blockHeader24_size, hds] at hrem ⊢
        cases rest with
        | nil =>
          have hp : pos + n = x.size := t3
          simp only [serializeBlocks, ByteArray.size_empty, Nat.add_zero, List.isEmpty_nil] at hh hrem ⊢
          obtain ⟨bt, hbt, hf⟩ := hraw a ip rem out ent blocks true n _ hh.left hds (by omega) (by omega) t2 (by omega)
          refine ⟨blocks.push bt, by simp [hbt], ?_⟩
          rw [forIn_cons_done _ _ _ _ _ hf, hp, show ip + 3 + n = ip + (3 + n) by omega, show rem - 3 - n = r by omega]
        | cons c2 rest2 =>
          simp only [List.isEmpty_cons] at hh
          obtain ⟨bt, hbt, hf⟩ := hraw a ip rem out ent blocks false n _ hh.left hds (by omega) (by omega) t2 (by omega)
          have hr := hh.right
          simp only [ByteArray.size_append, blockHeader24_size, hds] at hr
          obtain ⟨bl, hb1, hb2⟩ := ih l' (pos + n) (ip + (3 + n)) (rem - 3 - n) (out ++ x.extract pos (pos + n)) ent (blocks.push bt)
            (by simp) hl' t3 hr (by omega) (by rw [ByteArray.size_append, hds]; omega)
          refine ⟨bl, hb1, ?_⟩
          rw [forIn_cons_yield _ _ _ _ _ hf]
          rw [show ip + 3 + n = ip + (3 + n) by omega, hb2, ByteArray.append_assoc, ByteArray.extract_append_extract,
            Nat.min_eq_left (by omega), Nat.max_eq_right t1, Nat.add_assoc]
      | rle b n =>
        obtain ⟨t1, t2, t4, t3⟩ := ht
        simp only [serializeBlocks, rleCompressBlock] at hh hrem ⊢
        have hos : (ofList [b]).size = 1 := rfl
        simp only [ByteArray.size_append, blockHeader24_size, hos] at hrem ⊢
        cases rest with
        | nil =>
          have hp : pos + n = x.size := t3
          simp only [serializeBlocks, ByteArray.size_empty, Nat.add_zero, List.isEmpty_nil] at hh hrem ⊢
          obtain ⟨bt, hbt, hf⟩ := hrle a ip rem out ent blocks true n b hh.left (by omega) (by omega) t2 (by omega)
          refine ⟨blocks.push bt, by simp [hbt], ?_⟩
          rw [forIn_cons_done _ _ _ _ _ hf, ← t4, hp, show ip + 3 + 1 = ip + (3 + 1) by omega, show rem - 3 - 1 = r by omega]
        | cons c2 rest2 =>
          simp only [List.isEmpty_cons] at hh
          obtain ⟨bt, hbt, hf⟩ := hrle a ip rem out ent blocks false n b hh.left (by omega) (by omega) t2 (by omega)
          have hr := hh.right
          simp only [ByteArray.size_append, blockHeader24_size, hos] at hr
          obtain ⟨bl, hb1, hb2⟩ := ih l' (pos + n) (ip + (3 + 1)) (rem - 3 - 1) (out ++ x.extract pos (pos + n)) ent (blocks.push bt)
            (by simp) hl' t3 hr (by omega) (by rw [ByteArray.size_append, ByteArray.size_extract]; omega)
          refine ⟨bl, hb1, ?_⟩
          rw [forIn_cons_yield _ _ _ _ _ hf, ← t4]
          rw [show ip + 3 + 1 = ip + (3 + 1) by omega, hb2, ByteArray.append_assoc, ByteArray.extract_append_extract,
            Nat.min_eq_left (by omega), Nat.max_eq_right t1, Nat.add_assoc]


/-! ### the frame header inside a longer input -/

theorem parseFields_shift (pre s : ByteArray) (p fhd fh : Nat) :
    Frame.parseFields (pre ++ s) (pre.size + p) fhd fh = Frame.parseFields s p fhd fh := by
  unfold Frame.parseFields
  by_cases hs : ((fhd >>> 5) &&& 1 == 1) = true
  · simp only [hs, if_true, Nat.add_assoc, u8_append_right, le16_append_right, le32_append_right, le64_append_right]
  · rw [Bool.not_eq_true] at hs
    simp only [hs, Bool.false_eq_true, if_false, Nat.add_assoc, u8_append_right, le16_append_right, le32_append_right, le64_append_right]

theorem getHeader_shift (pre s : ByteArray) (n : Nat) (ml : Bool) :
    Frame.getHeader (pre ++ s) pre.size n ml = Frame.getHeader s 0 n ml := by
  have e0 : (pre ++ s).u8 pre.size = s.u8 0 := u8_append_right pre s 0
  have e1 : (pre ++ s).le32 pre.size = s.le32 0 := le32_append_right pre s 0
  unfold Frame.getHeader
  cases ml
  · simp only [Bool.false_eq_true, if_false, Nat.zero_add, u8_append_right, le32_append_right, parseFields_shift, e0, e1,
      show pre.size + 5 - 1 = pre.size + 4 from rfl, Nat.reduceSub]
  · simp only [if_true, Nat.zero_add, u8_append_right, le32_append_right, parseFields_shift, e0, e1,
      show pre.size + 1 - 1 = pre.size from rfl, Nat.reduceSub]

theorem parseFields_ok {src : ByteArray} {p fhd fh : Nat} {hd : Frame.Header} (h : Frame.parseFields src p fhd fh = .ok hd) :
    hd.headerSize = fh ∧ hd.skippable = false := by
  unfold Frame.parseFields at h
  simp only [] at h
  split at h
  · cases h
  · cases h; exact ⟨rfl, rfl⟩

theorem headerSizeOf_ge (fhd : Nat) (ml : Bool) : (if ml then 1 else 5) ≤ Frame.headerSizeOf fhd ml := by
  unfold Frame.headerSizeOf
  simp only []
  omega

/-- a successfully parsed zstd frame header does not depend on how much input was announced beyond the header itself, and its
size is the one ZSTD_frameHeaderSize_internal computes from the descriptor byte -/
theorem getHeader_resize {src : ByteArray} {start n m : Nat} {ml : Bool} {hd : Frame.Header}
    (h : Frame.getHeader src start n ml = .ok hd) (hs : hd.skippable = false) (hm : hd.headerSize ≤ m) :
    hd.headerSize = Frame.headerSizeOf (src.u8 (start + (if ml then 1 else 5) - 1)) ml ∧ Frame.getHeader src start m ml = .ok hd := by
  have hge := headerSizeOf_ge (src.u8 (start + (if ml then 1 else 5) - 1)) ml
  unfold Frame.getHeader at h ⊢
  cases ml
  · simp only [Bool.false_eq_true, if_false, Bool.not_false, Bool.true_and, Bool.and_true] at h hge ⊢
    by_cases c1 : n < 5
    · rw [if_pos c1] at h; repeat' split at h
      all_goals cases h
    rw [if_neg c1] at h
    by_cases c2 : (src.le32 start != ZSTD_MAGICNUMBER) = true
    · rw [if_pos c2] at h; repeat' split at h
      all_goals first | (cases h; done) | (cases h; cases hs)
    rw [if_neg c2] at h
    by_cases c3 : n < Frame.headerSizeOf (src.u8 (start + 5 - 1)) false
    · rw [if_pos c3] at h; cases h
    rw [if_neg c3] at h
    by_cases c4 : (src.u8 (start + 5 - 1) &&& 8 != 0) = true
    · rw [if_pos c4] at h; cases h
    rw [if_neg c4] at h
    obtain ⟨p1, _⟩ := parseFields_ok h
    rw [p1] at hm
    refine ⟨p1, ?_⟩
    rw [if_neg (by omega), if_neg c2, if_neg (by omega), if_neg c4]
    exact h
  · simp only [if_true, Bool.not_true, Bool.false_and, Bool.false_eq_true, if_false, Bool.and_false] at h hge ⊢
    by_cases c1 : n < 1
    · rw [if_pos c1] at h; cases h
    rw [if_neg c1] at h
    by_cases c3 : n < Frame.headerSizeOf (src.u8 (start + 1 - 1)) true
    · rw [if_pos c3] at h; cases h
    rw [if_neg c3] at h
    by_cases c4 : (src.u8 (start + 1 - 1) &&& 8 != 0) = true
    · rw [if_pos c4] at h; cases h
    rw [if_neg c4] at h
    obtain ⟨p1, _⟩ := parseFields_ok h
    rw [p1] at hm
    refine ⟨p1, ?_⟩
    rw [if_neg (by omega), if_neg (by omega), if_neg c4]
    exact h

theorem ofList_append (l1 l2 : List UInt8) : ofList (l1 ++ l2) = ofList l1 ++ ofList l2 := by
  unfold ofList
  apply ByteArray.ext
  simp [ByteArray.data_append]

theorem ofList_toList (b : ByteArray) : ofList b.data.toList = b := by
  unfold ofList
  simp

theorem getHeader_not_skippable {src : ByteArray} {start n : Nat} {ml : Bool} {hd : Frame.Header}
    (h : Frame.getHeader src start n ml = .ok hd) (hmagic : ml = true ∨ src.le32 start = ZSTD_MAGICNUMBER) : hd.skippable = false := by
  unfold Frame.getHeader at h
  cases ml
  · have hm : src.le32 start = ZSTD_MAGICNUMBER := by rcases hmagic with hm | hm; cases hm; exact hm
    simp only [Bool.false_eq_true, if_false, Bool.not_false, Bool.true_and, Bool.and_true, hm, bne_self_eq_false] at h
    by_cases c1 : n < 5
    · rw [if_pos c1] at h; repeat' split at h
      all_goals cases h
    rw [if_neg c1] at h
    repeat' split at h
    all_goals first | (cases h; done) | exact (parseFields_ok h).2
  · simp only [if_true, Bool.not_true, Bool.false_and, Bool.false_eq_true, if_false, Bool.and_false] at h
    repeat' split at h
    all_goals first | (cases h; done) | exact (parseFields_ok h).2

theorem writeHeader_magic (a : HArgs) (rest : List UInt8) :
    a.magicless = true ∨ (ByteArray.mk (writeHeader a ++ rest).toArray).le32 0 = ZSTD_MAGICNUMBER := by
  cases hm : a.magicless
  · refine Or.inr ?_
    unfold writeHeader ByteArray.le32
    simp only [hm, Bool.false_eq_true, if_false, le4, List.cons_append, List.nil_append, List.append_assoc, HeaderW.u8_mk,
      List.getElem?_cons_succ, List.getElem?_cons_zero, Option.map_some, Option.getD_some, HeaderW.byte_toNat, Nat.zero_add]
    decide
  · exact Or.inl rfl

/-- the header parser on a serialized header followed by anything, at any offset of the input, announced with exactly the header
size (how `Frame.decompressFrame` calls it): `header_roundtrip` transported -/
theorem getHeader_serialized (a : HArgs) (ha : a.wf) {src : ByteArray} {ip : Nat} {rest : ByteArray}
    (h : Holds src ip (ofList (writeHeader a) ++ rest)) :
    ∃ hd, Frame.headerSizeOf (src.u8 (ip + (if a.magicless then 1 else 5) - 1)) a.magicless = (writeHeader a).length ∧
      Frame.getHeader src ip (writeHeader a).length a.magicless = .ok hd ∧ hd.skippable = false ∧
      hd.fcs = (if a.contentSizeFlag then some a.pledged else none) ∧
      hd.windowSize = (if HeaderW.single a then a.pledged else 2 ^ a.windowLog) ∧
      hd.dictID = (if a.noDictID then 0 else a.dictID) ∧ hd.checksum = a.checksum := by
  obtain ⟨pre, post, hsrc, hp⟩ := h
  obtain ⟨hd, g1, g2, g3, g4, g5, g6, _⟩ := Props.C05.header_roundtrip a ha (rest ++ post).data.toList
  have e : ofList (writeHeader a) ++ (rest ++ post) = ByteArray.mk (writeHeader a ++ (rest ++ post).data.toList).toArray := by
    have := ofList_append (writeHeader a) (rest ++ post).data.toList
    rw [ofList_toList] at this
    exact this.symm
  have hsk := getHeader_not_skippable g1 (writeHeader_magic a _)
  obtain ⟨r1, r2⟩ := getHeader_resize g1 hsk (Nat.le_of_eq g2)
  rw [hsrc, ByteArray.append_assoc, e, ← hp, getHeader_shift]
  refine ⟨hd, ?_, ?_, hsk, g3, g4, g5, g6⟩
  · rw [← g2, r1]
    cases a.magicless
    · exact congrArg (fun v => Frame.headerSizeOf v false) (u8_append_right pre _ 4)
    · exact congrArg (fun v => Frame.headerSizeOf v true) (u8_append_right pre _ 0)
  · exact r2

theorem writeHeader_length_ge (a : HArgs) : (if a.magicless then 2 else 6) ≤ (writeHeader a).length := by
  unfold writeHeader
  cases a.magicless <;> cases single a <;>
    simp only [List.length_append, List.length_cons, List.length_nil, Bool.false_eq_true, if_false, if_true, le4] <;>
    repeat' split
  all_goals simp only [le2, le4, le8, List.length_append, List.length_cons, List.length_nil]
  all_goals omega

/-- the blocks the decoder sees: an empty block list gets the empty raw last block of ZSTD_writeEpilogue -/
def effBlocks (bs : List BlockChoice) : List BlockChoice := if bs.isEmpty then [.raw 0] else bs

def checksumBytes (a : HArgs) (x : ByteArray) : ByteArray :=
  if a.checksum then ofList (le4 ((XXH64.hashRange x 0 x.size).toNat &&& 0xFFFFFFFF)) else ByteArray.empty

theorem serializeFrame_eq (a : HArgs) (bs : List BlockChoice) (x : ByteArray) :
    serializeFrame a bs x = ofList (writeHeader a) ++ (serializeBlocks x (effBlocks bs) 0 ++ checksumBytes a x) := by
  unfold serializeFrame epilogue effBlocks checksumBytes
  cases bs with
  | nil =>
    simp only [List.isEmpty_nil, if_true, serializeBlocks, noCompressBlock, ByteArray.empty_append, ByteArray.extract_same, ByteArray.append_empty]
  | cons c rest =>
    simp only [List.isEmpty_cons, Bool.false_eq_true, if_false, ByteArray.empty_append]

theorem tiles_effBlocks {bsm : Nat} {x : ByteArray} {bs : List BlockChoice} (h : Tiles bsm x bs 0) : Tiles bsm x (effBlocks bs) 0 := by
  unfold effBlocks
  cases bs with
  | nil =>
    have : 0 = x.size := h
    simp only [List.isEmpty_nil, if_true, Tiles]
    omega
  | cons c rest => exact h

theorem effBlocks_ne (bs : List BlockChoice) : effBlocks bs ≠ [] := by
  unfold effBlocks
  cases bs <;> simp

theorem checksumBytes_size (a : HArgs) (x : ByteArray) : (checksumBytes a x).size = if a.checksum then 4 else 0 := by
  unfold checksumBytes
  cases a.checksum <;> rfl

theorem parseFields_bsm {src : ByteArray} {p fhd fh : Nat} {hd : Frame.Header} (h : Frame.parseFields src p fhd fh = .ok hd) :
    hd.blockSizeMax = min hd.windowSize ZSTD_BLOCKSIZE_MAX := by
  unfold Frame.parseFields at h
  simp only [] at h
  split at h
  · cases h
  · cases h; rfl

theorem getHeader_bsm {src : ByteArray} {start n : Nat} {ml : Bool} {hd : Frame.Header}
    (h : Frame.getHeader src start n ml = .ok hd) (hs : hd.skippable = false) : hd.blockSizeMax = min hd.windowSize ZSTD_BLOCKSIZE_MAX := by
  unfold Frame.getHeader at h
  cases ml
  · simp only [Bool.false_eq_true, if_false, Bool.not_false, Bool.true_and, Bool.and_true] at h
    repeat' split at h
    all_goals first | (cases h; done) | (cases h; cases hs) | exact parseFields_bsm h
  · simp only [if_true, Bool.not_true, Bool.false_and, Bool.false_eq_true, if_false, Bool.and_false] at h
    repeat' split at h
    all_goals first | (cases h; done) | exact parseFields_bsm h

theorem size_replicate (n : Nat) (b : UInt8) : (ByteArray.mk (Array.replicate n b)).size = n := by
  simp only [ByteArray.size, Array.size_replicate]

theorem le32_le4 (v : Nat) (hv : v < 2 ^ 32) : (ofList (le4 v)).le32 0 = v := by
  unfold ByteArray.le32 ofList le4
  simp only [HeaderW.u8_mk, List.getElem?_cons_succ, List.getElem?_cons_zero, Option.map_some, Option.getD_some, HeaderW.byte_toNat,
    Nat.zero_add]
  exact HeaderW.le4_val v hv

/-- **one serialized frame inside any input**: `Frame.decompressFrame` (ZSTD_decompressFrame) started at the frame, with at least
the frame's bytes announced, appends exactly the content and consumes exactly the frame -/
theorem decompressFrame_serialized (a : HArgs) (ha : a.wf) (hnd : a.noDictID = true ∨ a.dictID = 0)
    (bs : List BlockChoice) (x : ByteArray) (hfcs : a.contentSizeFlag = true → a.pledged = x.size)
    (ht : Tiles (min (if single a then a.pledged else 2 ^ a.windowLog) ZSTD_BLOCKSIZE_MAX) x bs 0)
    {src : ByteArray} {ip0 : Nat} (r : Nat) (hsrc : Holds src ip0 (serializeFrame a bs x))
    (dict : Frame.Dict) (out0 : ByteArray) (cap : Nat) (hcap : out0.size + x.size ≤ cap)
    (o : Frame.Opts) (hml : o.magicless = a.magicless) (hmb : o.maxBlockSize = 0)
    (hhash : a.checksum = true → XXH64.hashRange (out0 ++ x) out0.size x.size = XXH64.hashRange x 0 x.size) :
    ∃ tr, Frame.decompressFrame src ip0 ((serializeFrame a bs x).size + r) dict out0 cap o =
      .ok (out0 ++ x, (serializeFrame a bs x).size, tr) := by
  rw [serializeFrame_eq] at hsrc ⊢
  have htl := tiles_effBlocks ht
  have hne := effBlocks_ne bs
  generalize effBlocks bs = bs' at hsrc htl hne ⊢
  obtain ⟨hd, g0, g1, hsk, gfcs, gws, gdid, gck⟩ := getHeader_serialized a ha hsrc
  have gbsm := getHeader_bsm g1 hsk
  rw [gws] at gbsm
  have hH := writeHeader_length_ge a
  have hS := serializeBlocks_size_ge x bs' 0
  have hlen : 1 ≤ bs'.length := by cases bs' with | nil => exact absurd rfl hne | cons _ _ => simp
  have hC := checksumBytes_size a x
  have hfh : Frame.headerSizeOf (src.u8 (ip0 + if a.magicless = true then 0 else 4)) a.magicless = (writeHeader a).length := by
    rw [← g0]; cases a.magicless <;> rfl
  simp only [ByteArray.size_append, size_ofList]
  generalize hHn : (writeHeader a).length = H at *
  generalize hSn : (serializeBlocks x bs' 0).size = S at *
  generalize hCn : (checksumBytes a x).size = C at *
  unfold Frame.decompressFrame
  simp only [bind, Except.bind, pure, Except.pure, throw, throwThe, MonadExceptOf.throw]
  simp only [hmb, hml, hfh, g1, hsk, bne_self_eq_false, Bool.false_eq_true, if_false]
  rw [if_neg (by simp only [ZSTD_blockHeaderSize]; omega), if_neg (by simp only [ZSTD_blockHeaderSize]; omega)]
  have hdid0 : hd.dictID = 0 := by rw [gdid]; rcases hnd with h | h <;> simp [h]
  simp only [hdid0, bne_self_eq_false, Bool.false_and, Bool.false_eq_true, if_false]
  generalize hloop : forIn (m := R) (ρ := Std.Legacy.Range) _ _ _ = L
  have hbsm : hd.blockSizeMax < 2 ^ 21 := by rw [gbsm]; simp only [ZSTD_BLOCKSIZE_MAX]; omega
  have hL : ∃ bl : Array Frame.BlockTrace, bl.back?.map (·.hdr.last) = some true ∧
      L = .ok (ip0 + H + S, C + r, out0 ++ x.extract 0 x.size, dict.ent, bl, none) := by
    rw [← hloop, Std.Legacy.Range.forIn_eq_forIn_range', ← hSn]
    refine blocks_loop src x cap hd.blockSizeMax (C + r) _ hbsm ?raw ?rle bs' _ 0 (ip0 + H) _ out0 dict.ent #[] hne ?len
      (by rw [gbsm]; exact htl) (by rw [← hHn, ← size_ofList]; exact hsrc.right.left) (by omega) (by omega)
    case len => simp only [List.length_range', Std.Legacy.Range.size]; omega
    case raw =>
      intro i ip rem out ent blocks last n data hh hds h1 h2 h3 h4
      have hbh := blockHeader_raw (rem := rem) hh.left (by omega) h4
      have hex : src.extract (ip + 3) (ip + 3 + n) = data := by
        have := hh.right.extract; rwa [blockHeader24_size, hds] at this
      refine ⟨⟨⟨last, 0, n, n⟩, (out ++ data).size - out.size, none⟩, rfl, ?_⟩
      simp only [hbh, ZSTD_blockHeaderSize, hex]
      rw [if_neg (by omega)]
      simp only [show ((0 : Nat) == 2) = false from rfl, Bool.false_eq_true, if_false, BEq.rfl, if_true]
      rw [if_neg (by omega), if_neg (by rw [ByteArray.size_append, hds]; simp only [Option.isNone_none, Bool.and_true, decide_eq_true_eq]; omega)]
      cases last <;> rfl
    case rle =>
      intro i ip rem out ent blocks last n b hh h1 h2 h3 h4
      have hbh := blockHeader_rle (rem := rem) hh.left (by omega) h4
      have hb : src.u8 (ip + 3) = b.toNat := by
        have := hh.right.u8 0 (Nat.zero_lt_one); rw [blockHeader24_size] at this; exact this
      refine ⟨⟨⟨last, 1, 1, n⟩, (out ++ ByteArray.mk (Array.replicate n b)).size - out.size, none⟩, rfl, ?_⟩
      simp only [hbh, ZSTD_blockHeaderSize, hb, UInt8.ofNat_toNat]
      rw [if_neg (by omega)]
      simp only [show ((1 : Nat) == 2) = false from rfl, show ((1 : Nat) == 0) = false from rfl, Bool.false_eq_true, if_false]
      rw [if_neg (by omega), if_neg (by rw [ByteArray.size_append, size_replicate]; simp only [Option.isNone_none, Bool.and_true, decide_eq_true_eq]; omega)]
      cases last <;> rfl
  obtain ⟨bl, hb1, hLe⟩ := hL
  clear hloop
  subst hLe
  simp only [hb1, Option.getD_some, Bool.not_true, Bool.false_eq_true, if_false, gfcs, gck]
  have hx : (out0 ++ x).size - out0.size = x.size := by rw [ByteArray.size_append]; omega
  simp only [ByteArray.extract_zero_size, hx]
  have hck : a.checksum = true → C = 4 ∧
      src.le32 (ip0 + H + S) = (XXH64.hashRange (out0 ++ x) out0.size x.size).toNat &&& 4294967295 := by
    intro hk
    have h3 := hsrc.right.right
    rw [size_ofList, hHn, hSn] at h3
    unfold checksumBytes at h3
    rw [if_pos hk] at h3
    refine ⟨by rw [hC, if_pos hk], ?_⟩
    rw [h3.le32 (by rw [size_ofList]; simp [le4]), hhash hk]
    exact le32_le4 _ (Nat.lt_succ_of_le Nat.and_le_right)
  have hfin : ip0 + H + S - ip0 = H + S := by omega
  have hfin4 : ip0 + H + S + 4 - ip0 = H + (S + 4) := by omega
  cases hk : a.checksum
  · have hC0 : C = 0 := by rw [hC, hk]; rfl
    subst hC0
    rw [hfin]
    cases hcs : a.contentSizeFlag
    · exact ⟨_, rfl⟩
    · have := hfcs hcs
      simp only [if_true, this, bne_self_eq_false, Bool.false_eq_true, if_false]
      exact ⟨_, rfl⟩
  · obtain ⟨hC4, hrd⟩ := hck hk
    subst hC4
    rw [hfin4]
    simp only [if_true, if_neg (show ¬ 4 + r < 4 by omega), hrd, bne_self_eq_false, Bool.false_eq_true, if_false]
    cases hcs : a.contentSizeFlag
    · cases o.ignoreChecksum <;> exact ⟨_, rfl⟩
    · have := hfcs hcs
      simp only [if_true, this, bne_self_eq_false, Bool.false_eq_true, if_false]
      cases o.ignoreChecksum <;> exact ⟨_, rfl⟩

/-! ### sequences of frames (ZSTD_decompressMultiFrame) -/

/-- one member of a concatenation: a zstd frame of raw / RLE blocks, or a skippable frame -/
inductive Segment where
  | frame (a : HArgs) (bs : List BlockChoice) (x : ByteArray)
  | skip (variant : Nat) (payload : ByteArray)

def Segment.bytes : Segment → ByteArray
  | .frame a bs x => serializeFrame a bs x
  | .skip v p => skippableFrame v p

def Segment.content : Segment → ByteArray
  | .frame _ _ x => x
  | .skip _ _ => ByteArray.empty

def serializeSegs : List Segment → ByteArray
  | [] => ByteArray.empty
  | s :: rest => s.bytes ++ serializeSegs rest

def contentOf : List Segment → ByteArray
  | [] => ByteArray.empty
  | s :: rest => s.content ++ contentOf rest

/-- the largest block the decoder accepts for a frame written with `a`: min(Window_Size, 128 KiB) -/
def blockSizeMaxOf (a : HArgs) : Nat := min (if single a then a.pledged else 2 ^ a.windowLog) ZSTD_BLOCKSIZE_MAX

/-- hypotheses on one frame: accepted header arguments, no dictionary, magic number present, truthful content size, blocks tile
the content -/
def FrameOK (a : HArgs) (bs : List BlockChoice) (x : ByteArray) : Prop :=
  a.wf ∧ (a.noDictID = true ∨ a.dictID = 0) ∧ a.magicless = false ∧ (a.contentSizeFlag = true → a.pledged = x.size) ∧
    Tiles (blockSizeMaxOf a) x bs 0

/-- hypotheses on a concatenation decoded after `out` has been produced -/
def SegsOK : ByteArray → List Segment → Prop
  | _, [] => True
  | out, .frame a bs x :: rest =>
    FrameOK a bs x ∧ (a.checksum = true → XXH64.hashRange (out ++ x) out.size x.size = XXH64.hashRange x 0 x.size) ∧
      SegsOK (out ++ x) rest
  | out, .skip v p :: rest => v < 16 ∧ p.size + 8 < 2 ^ 32 ∧ SegsOK out rest

/-- the state of the frame loop of `Frame.decompressAll`: (ip, remaining, out, traces, more) -/
abbrev StA := Nat × Nat × ByteArray × Array Frame.FrameTrace × Bool

def StepEnd (f : Nat → StA → R (ForInStep StA)) : Prop :=
  ∀ (i ip rem : Nat) (out : ByteArray) (trs : Array Frame.FrameTrace) (more : Bool), rem < 5 →
    f i (ip, rem, out, trs, more) = .ok (.done (ip, rem, out, trs, more))

def StepSkip (src : ByteArray) (f : Nat → StA → R (ForInStep StA)) : Prop :=
  ∀ (i ip rem : Nat) (out : ByteArray) (trs : Array Frame.FrameTrace) (more : Bool) (v : Nat) (p : ByteArray),
    Holds src ip (skippableFrame v p) → v < 16 → p.size + 8 < 2 ^ 32 → p.size + 8 ≤ rem →
    ∃ t, f i (ip, rem, out, trs, more) = .ok (.yield (ip + (p.size + 8), rem - (p.size + 8), out, trs.push t, more))

def StepFrame (src : ByteArray) (cap : Nat) (f : Nat → StA → R (ForInStep StA)) : Prop :=
  ∀ (i ip r : Nat) (out : ByteArray) (trs : Array Frame.FrameTrace) (more : Bool) (a : HArgs) (bs : List BlockChoice) (x : ByteArray),
    Holds src ip (serializeFrame a bs x) → FrameOK a bs x →
    (a.checksum = true → XXH64.hashRange (out ++ x) out.size x.size = XXH64.hashRange x 0 x.size) → out.size + x.size ≤ cap →
    ∃ t, f i (ip, (serializeFrame a bs x).size + r, out, trs, more) =
      .ok (.yield (ip + (serializeFrame a bs x).size, r, out ++ x, trs.push t, true))

theorem serializeFrame_size_ge (a : HArgs) (bs : List BlockChoice) (x : ByteArray) : 5 ≤ (serializeFrame a bs x).size := by
  rw [serializeFrame_eq]
  have h1 := writeHeader_length_ge a
  have h2 := serializeBlocks_size_ge x (effBlocks bs) 0
  have h3 : 1 ≤ (effBlocks bs).length := by
    have := effBlocks_ne bs
    cases h : effBlocks bs with
    | nil => exact absurd h this
    | cons _ _ => simp
  simp only [ByteArray.size_append, size_ofList]
  split at h1 <;> omega

theorem skippableFrame_size (v : Nat) (p : ByteArray) : (skippableFrame v p).size = p.size + 8 := by
  unfold skippableFrame
  rw [ByteArray.size_append, size_ofList]
  simp [le4]; omega

theorem serializeSegs_size_ge (segs : List Segment) : segs.length ≤ (serializeSegs segs).size := by
  induction segs with
  | nil => simp
  | cons s rest ih =>
    cases s with
    | frame a bs x =>
      have := serializeFrame_size_ge a bs x
      simp only [serializeSegs, Segment.bytes, ByteArray.size_append, List.length_cons]; omega
    | skip v p =>
      simp only [serializeSegs, Segment.bytes, ByteArray.size_append, List.length_cons, skippableFrame_size]; omega

theorem segs_loop (src : ByteArray) (cap : Nat) (f : Nat → StA → R (ForInStep StA))
    (hend : StepEnd f) (hskip : StepSkip src f) (hframe : StepFrame src cap f) :
    ∀ (segs : List Segment) (l : List Nat) (ip : Nat) (out : ByteArray) (trs : Array Frame.FrameTrace) (more : Bool),
      segs.length < l.length → SegsOK out segs → Holds src ip (serializeSegs segs) → out.size + (contentOf segs).size ≤ cap →
      ∃ trs' more', forIn l ((ip, (serializeSegs segs).size, out, trs, more) : StA) f =
        .ok (ip + (serializeSegs segs).size, 0, out ++ contentOf segs, trs', more') := by
  intro segs
  induction segs with
  | nil =>
    intro l ip out trs more hl _ _ _
    cases l with
    | nil => simp at hl
    | cons i l' =>
      refine ⟨trs, more, ?_⟩
      simp only [serializeSegs, contentOf, ByteArray.size_empty, ByteArray.append_empty, Nat.add_zero]
      exact forIn_cons_done _ _ _ _ _ (hend i ip 0 out trs more (by omega))
  | cons s rest ih =>
    intro l ip out trs more hl hok hh hcap
    cases l with
    | nil => simp at hl
    | cons i l' =>
      have hl' : rest.length < l'.length := by simpa using hl
      cases s with
      | frame a bs x =>
        obtain ⟨k1, k2, k3⟩ := hok
        simp only [serializeSegs, contentOf, Segment.bytes, Segment.content, ByteArray.size_append] at hh hcap ⊢
        obtain ⟨t, ht⟩ := hframe i ip (serializeSegs rest).size out trs more a bs x hh.left k1 k2 (by omega)
        obtain ⟨trs', more', hr⟩ := ih l' (ip + (serializeFrame a bs x).size) (out ++ x) (trs.push t) true hl' k3 hh.right
          (by rw [ByteArray.size_append]; omega)
        refine ⟨trs', more', ?_⟩
        rw [forIn_cons_yield _ _ _ _ _ ht, hr, ByteArray.append_assoc, Nat.add_assoc]
      | skip v p =>
        obtain ⟨k1, k2, k3⟩ := hok
        simp only [serializeSegs, contentOf, Segment.bytes, Segment.content, ByteArray.size_append, skippableFrame_size,
          ByteArray.empty_append] at hh hcap ⊢
        obtain ⟨t, ht⟩ := hskip i ip (p.size + 8 + (serializeSegs rest).size) out trs more v p hh.left k1 k2 (by omega)
        have hr' := hh.right
        rw [skippableFrame_size] at hr'
        obtain ⟨trs', more', hr⟩ := ih l' (ip + (p.size + 8)) out (trs.push t) more hl' k3 hr' hcap
        refine ⟨trs', more', ?_⟩
        rw [forIn_cons_yield _ _ _ _ _ ht, show p.size + 8 + (serializeSegs rest).size - (p.size + 8) = (serializeSegs rest).size by omega,
          hr, Nat.add_assoc]


theorem holds_self (b : ByteArray) : Holds b 0 b :=
  ⟨ByteArray.empty, ByteArray.empty, by rw [ByteArray.empty_append, ByteArray.append_empty], rfl⟩

theorem frame_magic {src : ByteArray} {ip : Nat} {a : HArgs} {bs : List BlockChoice} {x : ByteArray}
    (h : Holds src ip (serializeFrame a bs x)) (hm : a.magicless = false) : src.le32 ip = ZSTD_MAGICNUMBER := by
  have h5 := serializeFrame_size_ge a bs x
  rw [h.le32 (by omega)]
  unfold serializeFrame
  generalize serializeBlocks x bs 0 ++ epilogue a bs.isEmpty x = rest
  have e : ofList (writeHeader a) ++ rest = ByteArray.mk (writeHeader a ++ rest.data.toList).toArray := by
    have := ofList_append (writeHeader a) rest.data.toList
    rw [ofList_toList] at this
    exact this.symm
  rw [e]
  rcases writeHeader_magic a rest.data.toList with h | h
  · rw [hm] at h; cases h
  · exact h

theorem skip_magic_facts : ∀ v, v < 16 →
    Frame.isLegacyMagic (ZSTD_MAGIC_SKIPPABLE_START + v) = false ∧
    ((ZSTD_MAGIC_SKIPPABLE_START + v) &&& ZSTD_MAGIC_SKIPPABLE_MASK == ZSTD_MAGIC_SKIPPABLE_START) = true := by
  decide

theorem skip_reads {src : ByteArray} {ip v : Nat} {p : ByteArray} (h : Holds src ip (skippableFrame v p)) (hv : v < 16)
    (hp : p.size < 2 ^ 32) : src.le32 ip = ZSTD_MAGIC_SKIPPABLE_START + v ∧ src.le32 (ip + 4) = p.size := by
  unfold skippableFrame at h
  rw [ofList_append, ByteArray.append_assoc] at h
  have h1 := h.left
  have h2 := h.right.left
  rw [h1.le32 (by rw [size_ofList]; simp [le4]), show (ofList (le4 (ZSTD_MAGIC_SKIPPABLE_START + v))).size = 4 by rw [size_ofList]; simp [le4]] at *
  rw [h2.le32 (by rw [size_ofList]; simp [le4])]
  exact ⟨le32_le4 _ (by simp only [ZSTD_MAGIC_SKIPPABLE_START]; omega), le32_le4 _ hp⟩

/-- **multi-frame round trip**: ZSTD_decompress (`Frame.decompressAll`) on any concatenation of serialized raw / RLE frames and
skippable frames returns the concatenation of the frame contents -/
theorem multi_frame_roundtrip_hash (segs : List Segment) (hok : SegsOK ByteArray.empty segs) (dict : Frame.Dict) (cap : Nat)
    (hcap : (contentOf segs).size ≤ cap) (o : Frame.Opts) (hml : o.magicless = false) (hmb : o.maxBlockSize = 0) :
    ∃ traces, Frame.decompressAll (serializeSegs segs) dict cap o = .ok (contentOf segs, traces) := by
  unfold Frame.decompressAll
  simp only [bind, Except.bind, pure, Except.pure, throw, throwThe, MonadExceptOf.throw, hml, Bool.false_eq_true, if_false, Bool.not_false,
    Bool.true_and]
  generalize hloop : forIn (m := R) (ρ := Std.Legacy.Range) _ _ _ = L
  have hL : ∃ trs more, L = .ok (0 + (serializeSegs segs).size, 0, ByteArray.empty ++ contentOf segs, trs, more) := by
    rw [← hloop, Std.Legacy.Range.forIn_eq_forIn_range']
    refine segs_loop (serializeSegs segs) cap _ ?he ?hs ?hf segs _ 0 ByteArray.empty #[] false ?len hok (holds_self _)
      (by rw [ByteArray.size_empty]; omega)
    case len => have := serializeSegs_size_ge segs; simp only [List.length_range', Std.Legacy.Range.size]; omega
    case he =>
      intro i ip rem out trs more hr
      simp only [if_pos hr]
    case hs =>
      intro i ip rem out trs more v p hh hv hp hrem
      obtain ⟨m1, m2⟩ := skip_reads hh hv (by omega)
      obtain ⟨f1, f2⟩ := skip_magic_facts v hv
      simp only [m1, f1, f2, Frame.skippableSize, m2, ZSTD_SKIPPABLEHEADERSIZE]
      have h4 : decide (rem ≥ 4) = true := by simp only [decide_eq_true_eq]; omega
      simp only [h4, if_true, Bool.false_eq_true, if_false]
      rw [if_neg (by omega), if_neg (by omega), if_neg (by omega), if_neg (by omega)]
      exact ⟨_, rfl⟩
    case hf =>
      intro i ip r out trs more a bs x hh hfo hhash hc
      obtain ⟨k1, k2, k3, k4, k5⟩ := hfo
      have hmg := frame_magic hh k3
      have h5 := serializeFrame_size_ge a bs x
      obtain ⟨tr, hdf⟩ := decompressFrame_serialized a k1 k2 bs x k4 k5 r hh dict out cap hc o (by rw [hml, k3]) hmb hhash
      have h4 : decide ((serializeFrame a bs x).size + r ≥ 4) = true := by simp only [decide_eq_true_eq]; omega
      simp only [hmg, hdf, h4, if_true]
      rw [if_neg (by omega)]
      refine ⟨tr, ?_⟩
      simp only [show Frame.isLegacyMagic ZSTD_MAGICNUMBER = false from by decide, Bool.false_eq_true, if_false,
        show (ZSTD_MAGICNUMBER &&& ZSTD_MAGIC_SKIPPABLE_MASK == ZSTD_MAGIC_SKIPPABLE_START) = false from by decide]
      rw [Nat.add_sub_cancel_left]
  obtain ⟨trs, more, hLe⟩ := hL
  clear hloop
  subst hLe
  simp only [bne_self_eq_false, Bool.false_eq_true, if_false, ByteArray.empty_append]
  exact ⟨_, rfl⟩


/-! ### single frames -/

theorem contentOf_single (a : HArgs) (bs : List BlockChoice) (x : ByteArray) : contentOf [.frame a bs x] = x := by
  simp only [contentOf, Segment.content, ByteArray.append_empty]

theorem serializeSegs_single (a : HArgs) (bs : List BlockChoice) (x : ByteArray) : serializeSegs [.frame a bs x] = serializeFrame a bs x := by
  simp only [serializeSegs, Segment.bytes, ByteArray.append_empty]

/-- **frame round trip, any raw / RLE block decisions**: for every accepted header-argument tuple without dictionary (window log,
checksum flag, content-size flag with the truthful size, single-segment or windowed - whatever `a` implies), every input `x` and
every list of raw / RLE blocks that tiles `x` with blocks of at most min(Window_Size, 128 KiB) bytes, ZSTD_decompress
(`Frame.decompressAll`) maps the serialized frame back to `x`, for every destination capacity that can hold `x`, every
dictionary loaded in the decoder, with or without checksum verification -/
theorem frame_roundtrip_blocks (a : HArgs) (bs : List BlockChoice) (x : ByteArray) (hok : FrameOK a bs x)
    (dict : Frame.Dict) (cap : Nat) (hcap : x.size ≤ cap) (o : Frame.Opts) (hml : o.magicless = false) (hmb : o.maxBlockSize = 0) :
    ∃ traces, Frame.decompressAll (serializeFrame a bs x) dict cap o = .ok (x, traces) := by
  have h := multi_frame_roundtrip_hash [.frame a bs x]
    ⟨hok, fun _ => by rw [ByteArray.empty_append, ByteArray.size_empty], trivial⟩ dict cap (by rw [contentOf_single]; exact hcap) o hml hmb
  rw [contentOf_single, serializeSegs_single] at h
  exact h

theorem tiles_rawBlocksFuel (bsm bsz : Nat) (x : ByteArray) (h1 : 1 ≤ bsz) (hb : ∀ n, n ≤ bsz → n ≤ x.size → n ≤ bsm) :
    ∀ (fuel remaining pos : Nat), remaining ≤ fuel → pos + remaining = x.size → Tiles bsm x (rawBlocksFuel bsz fuel remaining) pos := by
  intro fuel
  induction fuel with
  | zero =>
    intro remaining pos hf hp
    simp only [rawBlocksFuel, Tiles]; omega
  | succ k ih =>
    intro remaining pos hf hp
    unfold rawBlocksFuel
    by_cases h0 : remaining = 0
    · rw [if_pos h0]; simp only [Tiles]; omega
    · rw [if_neg h0]
      have hm : min bsz remaining ≤ remaining := Nat.min_le_right _ _
      have hm1 : 1 ≤ min bsz remaining := by rw [Nat.le_min]; omega
      refine ⟨by omega, hb _ (Nat.min_le_left _ _) (by omega), ih _ _ (by omega) (by omega)⟩

theorem blockSize_bounds (a : HArgs) : 1 ≤ blockSize a ∧ blockSize a ≤ ZSTD_BLOCKSIZE_MAX ∧ blockSize a ≤ 2 ^ a.windowLog := by
  have hp : 1 ≤ 2 ^ a.windowLog := Nat.one_le_two_pow
  unfold blockSize
  simp only [ZSTD_BLOCKSIZE_MAX]
  omega

theorem frameOK_rawBlocks (a : HArgs) (ha : a.wf) (hnd : a.noDictID = true ∨ a.dictID = 0) (hm : a.magicless = false)
    (x : ByteArray) (hp : a.contentSizeFlag = true → a.pledged = x.size) (bsz : Nat) (h1 : 1 ≤ bsz)
    (h2 : bsz ≤ ZSTD_BLOCKSIZE_MAX) (h3 : bsz ≤ 2 ^ a.windowLog) : FrameOK a (rawBlocks bsz x.size) x := by
  refine ⟨ha, hnd, hm, hp, tiles_rawBlocksFuel _ bsz x h1 ?_ _ _ _ (Nat.le_refl _) (Nat.zero_add _)⟩
  intro n hn hx
  unfold blockSizeMaxOf
  rw [Nat.le_min]
  refine ⟨?_, by omega⟩
  split
  · rename_i hs
    rw [hp (Props.C05.single_segment_window a hs).1]; exact hx
  · omega

/-- **frame round trip, raw blocks of a chosen size** (1 ≤ size ≤ min(2^windowLog, 128 KiB)) -/
theorem frame_roundtrip_rawWith (a : HArgs) (ha : a.wf) (hnd : a.noDictID = true ∨ a.dictID = 0) (hm : a.magicless = false)
    (x : ByteArray) (hp : a.contentSizeFlag = true → a.pledged = x.size) (bsz : Nat) (h1 : 1 ≤ bsz)
    (h2 : bsz ≤ ZSTD_BLOCKSIZE_MAX) (h3 : bsz ≤ 2 ^ a.windowLog)
    (dict : Frame.Dict) (cap : Nat) (hcap : x.size ≤ cap) (o : Frame.Opts) (hml : o.magicless = false) (hmb : o.maxBlockSize = 0) :
    ∃ traces, Frame.decompressAll (rawFrameWith a bsz x) dict cap o = .ok (x, traces) :=
  frame_roundtrip_blocks a _ x (frameOK_rawBlocks a ha hnd hm x hp bsz h1 h2 h3) dict cap hcap o hml hmb

/-- **MAIN THEOREM - the total fallback round-trips** (first whole-frame instance of C01 "decode(compress(x)) = x"): for EVERY input
`x` (no size bound beyond the 64-bit content-size field: `a.wf` asks `a.pledged < 2^64`, and the pledged size is `x.size` whenever
it is written), every window log 10..31, with or without checksum, with or without content size (hence single-segment or
windowed), dictionary ID absent, magic number present: ZSTD_decompress (`Frame.decompressAll`) applied to the frame that emits
every block raw (`rawFrame`: ZSTD_writeFrameHeader, ZSTD_noCompressBlock per block of ZSTD_compress_frameChunk, ZSTD_writeEpilogue)
returns exactly `x`, whenever the destination capacity is at least `x.size` -/
theorem frame_roundtrip_raw (a : HArgs) (ha : a.wf) (hnd : a.noDictID = true ∨ a.dictID = 0) (hm : a.magicless = false)
    (x : ByteArray) (hp : a.contentSizeFlag = true → a.pledged = x.size)
    (dict : Frame.Dict) (cap : Nat) (hcap : x.size ≤ cap) (o : Frame.Opts) (hml : o.magicless = false) (hmb : o.maxBlockSize = 0) :
    ∃ traces, Frame.decompressAll (rawFrame a x) dict cap o = .ok (x, traces) :=
  have hb := blockSize_bounds a
  frame_roundtrip_rawWith a ha hnd hm x hp (blockSize a) hb.1 hb.2.1 hb.2.2 dict cap hcap o hml hmb

/-! ### XXH64 of a range does not depend on what precedes the range -/

section Hash
open ZstdVerif.XXH64

theorem loop_sim {β γ : Type} (R : β → γ → Prop) (μ : γ → Nat) (f : Unit → β → Id (ForInStep β)) (g : Unit → γ → Id (ForInStep γ))
    (h : ∀ b c, R b c → (∃ b' c', f () b = ForInStep.done b' ∧ g () c = ForInStep.done c' ∧ R b' c') ∨
      (∃ b' c', f () b = ForInStep.yield b' ∧ g () c = ForInStep.yield c' ∧ R b' c' ∧ μ c' < μ c)) :
    ∀ (n : Nat) (b : β) (c : γ), μ c ≤ n → R b c → R (forIn (m := Id) Lean.Loop.mk b f) (forIn (m := Id) Lean.Loop.mk c g) := by
  intro n
  induction n with
  | zero =>
    intro b c hn hr
    rcases h b c hr with ⟨b', c', hf, hg, hr'⟩ | ⟨b', c', hf, hg, hr', hm⟩
    · show R (Lean.Loop.forIn Lean.Loop.mk b f) (Lean.Loop.forIn Lean.Loop.mk c g)
      rw [Lean.Loop.forIn_eq_of_monadTail, Lean.Loop.forIn_eq_of_monadTail (f := g), hf, hg]
      exact hr'
    · omega
  | succ k ih =>
    intro b c hn hr
    rcases h b c hr with ⟨b', c', hf, hg, hr'⟩ | ⟨b', c', hf, hg, hr', hm⟩
    · show R (Lean.Loop.forIn Lean.Loop.mk b f) (Lean.Loop.forIn Lean.Loop.mk c g)
      rw [Lean.Loop.forIn_eq_of_monadTail, Lean.Loop.forIn_eq_of_monadTail (f := g), hf, hg]
      exact hr'
    · show R (Lean.Loop.forIn Lean.Loop.mk b f) (Lean.Loop.forIn Lean.Loop.mk c g)
      rw [Lean.Loop.forIn_eq_of_monadTail, Lean.Loop.forIn_eq_of_monadTail (f := g), hf, hg]
      exact ih b' c' (by omega) hr'

theorem rd64_shift (pre x : ByteArray) (i : Nat) : rd64 (pre ++ x) (pre.size + i) = rd64 x i := by
  unfold rd64; rw [le64_append_right]
theorem rd32_shift (pre x : ByteArray) (i : Nat) : rd32 (pre ++ x) (pre.size + i) = rd32 x i := by
  unfold rd32; rw [le32_append_right]

def R1 (k : Nat) (s' s : Nat × UInt64 × UInt64 × UInt64 × UInt64) : Prop := s'.1 = k + s.1 ∧ s'.2 = s.2
def R2 (k : Nat) (s' s : Nat × UInt64) : Prop := s'.1 = k + s.1 ∧ s'.2 = s.2

set_option hygiene false in
/-- the byte loop at the end of `hashRange`, started at `ip` (shifted input) / `i` (plain input) with the same accumulator -/
macro "hash_loop3" ip:term:max "," i:term:max : tactic => `(tactic| (
  generalize hs3' : forIn (m := Id) Lean.Loop.mk ($ip, _) _ = s3'
  generalize hs3 : forIn (m := Id) Lean.Loop.mk ($i, _) _ = s3
  have h3 : R2 pre.size s3' s3 := by
    rw [← hs3', ← hs3]
    refine loop_sim (R2 pre.size) (fun s => len + 1 - s.1) _ _ ?_ (len + 1) _ _ (Nat.sub_le _ _) ⟨by simp only <;> omega, rfl⟩
    intro b c hr
    obtain ⟨p', w'⟩ := b
    obtain ⟨p, w⟩ := c
    obtain ⟨e1, e2⟩ := hr
    simp only at e1 e2
    subst e1 e2
    by_cases hc : p < 0 + len
    · refine Or.inr ⟨_, _, if_pos (by omega), if_pos hc, ⟨by simp only; omega, ?_⟩, by simp only; omega⟩
      simp only [u8_append_right]
    · exact Or.inl ⟨_, _, if_neg (by omega), if_neg hc, ⟨rfl, rfl⟩⟩
  rw [h3.2]))

set_option hygiene false in
/-- the 8-byte loop, the 4-byte step and the byte loop of `hashRange` -/
macro "hash_tail" ip:term:max "," i:term:max : tactic => `(tactic| (
  generalize hs2' : forIn (m := Id) Lean.Loop.mk ($ip, _) _ = s2'
  generalize hs2 : forIn (m := Id) Lean.Loop.mk ($i, _) _ = s2
  have h2 : R2 pre.size s2' s2 := by
    rw [← hs2', ← hs2]
    refine loop_sim (R2 pre.size) (fun s => len + 8 - s.1) _ _ ?_ (len + 8) _ _ (Nat.sub_le _ _) ⟨by simp only <;> omega, rfl⟩
    intro b c hr
    obtain ⟨p', w'⟩ := b
    obtain ⟨p, w⟩ := c
    obtain ⟨e1, e2⟩ := hr
    simp only at e1 e2
    subst e1 e2
    by_cases hc : p + 8 ≤ 0 + len
    · refine Or.inr ⟨_, _, if_pos (by omega), if_pos hc, ⟨by simp only; omega, ?_⟩, by simp only; omega⟩
      simp only [rd64_shift]
    · exact Or.inl ⟨_, _, if_neg (by omega), if_neg hc, ⟨rfl, rfl⟩⟩
  clear hs2' hs2
  obtain ⟨p2', w2'⟩ := s2'
  obtain ⟨p2, w2⟩ := s2
  obtain ⟨e1, e2⟩ := h2
  simp only at e1 e2
  subst e1 e2
  simp only []
  by_cases c4 : p2 + 4 ≤ 0 + len
  · simp only [c4, show pre.size + p2 + 4 ≤ pre.size + len from by omega, if_true, rd32_shift]
    hash_loop3 (pre.size + p2 + 4), (p2 + 4)
  · simp only [c4, show ¬ pre.size + p2 + 4 ≤ pre.size + len from by omega, if_false]
    hash_loop3 (pre.size + p2), p2))

set_option maxRecDepth 4000 in
/-- XXH64 of a range only looks at the bytes of the range: hashing `x` where it sits behind any prefix is hashing `x` -/
theorem hashRange_shift (pre x : ByteArray) (len : Nat) (seed : UInt64) :
    hashRange (pre ++ x) pre.size len seed = hashRange x 0 len seed := by
  unfold hashRange
  simp only [Id.run, bind, pure]
  by_cases h32 : len ≥ 32
  · simp only [h32, if_true]
    generalize hs1' : forIn (m := Id) Lean.Loop.mk (pre.size, seed + P1 + P2, seed + P2, seed, seed - P1) _ = s1'
    generalize hs1 : forIn (m := Id) Lean.Loop.mk (0, seed + P1 + P2, seed + P2, seed, seed - P1) _ = s1
    have h1 : R1 pre.size s1' s1 := by
      rw [← hs1', ← hs1]
      refine loop_sim (R1 pre.size) (fun s => len + 32 - s.1) _ _ ?_ (len + 32) _ _ (Nat.sub_le _ _) ⟨rfl, rfl⟩
      intro b c hr
      obtain ⟨p', w'⟩ := b
      obtain ⟨p, w⟩ := c
      obtain ⟨e1, e2⟩ := hr
      simp only at e1 e2
      subst e1 e2
      by_cases hc : p + 32 ≤ 0 + len
      · refine Or.inr ⟨_, _, if_pos (by omega), if_pos hc, ⟨by simp only; omega, ?_⟩, by simp only; omega⟩
        simp only [Nat.add_assoc, rd64_shift]
      · exact Or.inl ⟨_, _, if_neg (by omega), if_neg hc, ⟨rfl, rfl⟩⟩
    clear hs1' hs1
    obtain ⟨p1', w1'⟩ := s1'
    obtain ⟨p1, w1⟩ := s1
    obtain ⟨e1, e2⟩ := h1
    simp only at e1 e2
    subst e1 e2
    simp only []
    hash_tail (pre.size + p1), p1
  · simp only [h32, if_false]
    hash_tail pre.size, 0


end Hash

/-- hypotheses on one member of a concatenation -/
def SegOK : Segment → Prop
  | .frame a bs x => FrameOK a bs x
  | .skip v p => v < 16 ∧ p.size + 8 < 2 ^ 32

theorem segsOK_of_all (segs : List Segment) : ∀ out : ByteArray, (∀ s ∈ segs, SegOK s) → SegsOK out segs := by
  induction segs with
  | nil => intro _ _; trivial
  | cons s rest ih =>
    intro out h
    have hs := h s (by simp)
    have hr : ∀ s ∈ rest, SegOK s := fun s hm => h s (by simp [hm])
    cases s with
    | frame a bs x => exact ⟨hs, fun _ => hashRange_shift out x x.size 0, ih _ hr⟩
    | skip v p => exact ⟨hs.1, hs.2, ih _ hr⟩

/-- **multi-frame round trip**: ZSTD_decompress (`Frame.decompressAll`, i.e. ZSTD_decompressMultiFrame) applied to ANY concatenation
of serialized raw / RLE frames (each under the hypotheses of `frame_roundtrip_blocks`, checksums allowed everywhere) and skippable
frames (any of the 16 magic variants, payload below 2^32 - 8 bytes) returns the concatenation of the frame contents, for every
capacity that can hold it -/
theorem multi_frame_roundtrip (segs : List Segment) (hok : ∀ s ∈ segs, SegOK s) (dict : Frame.Dict) (cap : Nat)
    (hcap : (contentOf segs).size ≤ cap) (o : Frame.Opts) (hml : o.magicless = false) (hmb : o.maxBlockSize = 0) :
    ∃ traces, Frame.decompressAll (serializeSegs segs) dict cap o = .ok (contentOf segs, traces) :=
  multi_frame_roundtrip_hash segs (segsOK_of_all segs _ hok) dict cap hcap o hml hmb

/-! ### non-vacuity -/

/-- empty input, content size and checksum on: one empty raw last block -/
example : ∃ tr, Frame.decompressAll (rawFrame ⟨17, 0, true, 0, false, true, false⟩ ByteArray.empty) {} 0 {} = .ok (ByteArray.empty, tr) :=
  frame_roundtrip_raw _ (by unfold HArgs.wf; decide) (Or.inr rfl) rfl _ (fun _ => rfl) {} 0 (Nat.le_refl _) {} rfl rfl

/-- one byte, checksum on, no content size (windowed frame) -/
example : ∃ tr, Frame.decompressAll (rawFrame ⟨10, 0, false, 0, false, true, false⟩ (ofList [0x41])) {} 1 {} = .ok (ofList [0x41], tr) :=
  frame_roundtrip_raw _ (by unfold HArgs.wf; decide) (Or.inr rfl) rfl _ (fun h => by cases h) {} 1 (Nat.le_refl _) {} rfl rfl

example : (rawFrame ⟨17, 1, true, 0, false, false, false⟩ (ofList [0x41])).data = #[0x28, 0xB5, 0x2F, 0xFD, 0x20, 0x01, 0x09, 0x00, 0x00, 0x41] := by
  decide

example : (rawFrame ⟨17, 0, true, 0, false, false, false⟩ ByteArray.empty).data = #[0x28, 0xB5, 0x2F, 0xFD, 0x20, 0x00, 0x01, 0x00, 0x00] := by
  decide

example : (serializeFrame ⟨10, 0, false, 0, false, false, false⟩ [.rle 7 5, .raw 1] (ofList [7, 7, 7, 7, 7, 9])).data =
    #[0x28, 0xB5, 0x2F, 0xFD, 0x00, 0x00, 0x2A, 0x00, 0x00, 0x07, 0x09, 0x00, 0x00, 0x09] := by
  decide

example : FrameOK ⟨10, 0, false, 0, false, false, false⟩ [.rle 7 5, .raw 1] (ofList [7, 7, 7, 7, 7, 9]) := by
  refine ⟨by unfold HArgs.wf; decide, Or.inr rfl, rfl, (fun h => by cases h), ?_⟩
  simp only [Tiles]
  decide

/-- two frames (the second with checksum) around a skippable frame -/
example : ∃ tr, Frame.decompressAll (serializeSegs [.frame ⟨10, 1, true, 0, false, false, false⟩ [.raw 1] (ofList [1]), .skip 3 (ofList [9, 9]),
      .frame ⟨10, 0, false, 0, false, true, false⟩ [.rle 7 2] (ofList [7, 7])]) {} 3 {} = .ok (ofList [1] ++ (ByteArray.empty ++ (ofList [7, 7] ++ ByteArray.empty)), tr) := by
  refine multi_frame_roundtrip _ ?_ {} 3 (by decide) {} rfl rfl
  intro s hs
  simp only [List.mem_cons, List.mem_nil_iff, or_false] at hs
  rcases hs with rfl | rfl | rfl
  · exact ⟨by unfold HArgs.wf; decide, Or.inr rfl, rfl, (fun _ => rfl), by simp only [Tiles]; decide⟩
  · exact ⟨by decide, by decide⟩
  · exact ⟨by unfold HArgs.wf; decide, Or.inr rfl, rfl, (fun h => by cases h), by simp only [Tiles]; decide⟩

end ZstdVerif.FrameRT
